(* C03, end to end for the real operators, SECOND order.
   Sequences of RF pulses T(alpha, phi), Phi, relaxation/precession E(tau, T1, T2, g), P, R and 1-D shifts.
   Declaration shape: the one Sequence.build produces for parameters that are AFFINE in the variables and
   a requested pair (u, w):   order1 = {var: {param: c}},  order2 = {Pair(u,w): {}}  (a dict, hence
   auto_cross_derivatives = False) on EVERY operator one of whose parameters depends on u or w, nothing on
   the other operators (Proofs/Shapes2.v: dop0, dopD, dopV, dopXY; cross_ok holds by its third alternative
   resp. its first for the constant operators).  The derivative arrays are the package's, TRANSLATED from
   /repo (Gen/*.v): T_d_alpha, T_d2_alpha_alpha, T_d2_alpha_phi, E_d_T2, E_d2_T2_T2, E_d2_T2_tau, ...
   Part 1 (diagonal entry): ONE real variable x (name v) drives one parameter per operator,
     p_i = c_i x + b_i.  Theorem real_sequence_hessian_diag: H[v,v] returned by the bookkeeping of diff.py
     at x0 is the second derivative at x0 of x |-> simulated signal.
   Part 2 (mixed entry): TWO real variables x (name u) and y (name w <> u); every operator is constant,
     or has one parameter driven by x, or one driven by y, or one parameter driven by x AND another one
     driven by y (same operator, mixed tables).  Theorem real_sequence_hessian_mixed: H[u,w] = H[w,u]
     is d/dx (d/dy signal) at (x0, y0).
   Derivatives: Coquelicot is_derive on real and imaginary part, the first derivative being required in a
   neighbourhood of x0 (locally). *)
From Coq Require Import List ZArith Lia Bool Reals Lra.
From Coquelicot Require Import Coquelicot.
From EPG Require Import Scalar State Ops ListLemmas Views Diff DiffLemmas DiffExact DiffPoint DiffExact2 DiffPoint2
  Dual CInst CDeriv.
From EPG Require Import Transition Evolution CoefT CoefE Jet RealSeq Jet2 Shapes2.
Import ListNotations.
Local Open Scope R_scope.

(* ================================================================================== *)
(* Tools                                                                              *)
(* ================================================================================== *)
(* ---- building a double-dual array from value, two first and the second derivative ---- *)
Definition zip4T (a b c d : triple Cops) : triple DDC :=
  mk3 (mk4 (fp a) (fp b) (fp c) (fp d)) (mk4 (fm a) (fm b) (fm c) (fm d)) (mk4 (fz a) (fz b) (fz c) (fz d)).
Definition zip4M (a b c d : mat3 Cops) : mat3 DDC :=
  mkM (zip4T (row0 a) (row0 b) (row0 c) (row0 d)) (zip4T (row1 a) (row1 b) (row1 c) (row1 d))
      (zip4T (row2 a) (row2 b) (row2 c) (row2 d)).

Notation v4T := (evT DDC Cops e00).
Notation x4T := (dvT DDC Cops e10).
Notation y4T := (dvT DDC Cops e01).
Notation xy4T := (dvT DDC Cops e11).
Notation v4M := (evM DDC Cops e00).
Notation x4M := (dvM DDC Cops e10).
Notation y4M := (dvM DDC Cops e01).
Notation xy4M := (dvM DDC Cops e11).

Lemma v4T_zip a b c d : v4T (zip4T a b c d) = a. Proof. now destruct a. Qed.
Lemma x4T_zip a b c d : x4T (zip4T a b c d) = b. Proof. now destruct b. Qed.
Lemma y4T_zip a b c d : y4T (zip4T a b c d) = c. Proof. now destruct c. Qed.
Lemma xy4T_zip a b c d : xy4T (zip4T a b c d) = d. Proof. now destruct d. Qed.
Lemma v4M_zip a b c d : v4M (zip4M a b c d) = a.
Proof. destruct a as [r0 r1 r2]. unfold evM, zip4M. cbn [row0 row1 row2]. now rewrite !v4T_zip. Qed.
Lemma x4M_zip a b c d : x4M (zip4M a b c d) = b.
Proof. destruct b as [r0 r1 r2]. unfold dvM, zip4M. cbn [row0 row1 row2]. now rewrite !x4T_zip. Qed.
Lemma y4M_zip a b c d : y4M (zip4M a b c d) = c.
Proof. destruct c as [r0 r1 r2]. unfold dvM, zip4M. cbn [row0 row1 row2]. now rewrite !y4T_zip. Qed.
Lemma xy4M_zip a b c d : xy4M (zip4M a b c d) = d.
Proof. destruct d as [r0 r1 r2]. unfold dvM, zip4M. cbn [row0 row1 row2]. now rewrite !xy4T_zip. Qed.
Lemma x4M_mdiag a b c d : x4M (mdiag (zip4T a b c d)) = mdiag b. Proof. destruct b. reflexivity. Qed.
Lemma y4M_mdiag a b c d : y4M (mdiag (zip4T a b c d)) = mdiag c. Proof. destruct c. reflexivity. Qed.
Lemma xy4M_mdiag a b c d : xy4M (mdiag (zip4T a b c d)) = mdiag d. Proof. destruct d. reflexivity. Qed.
Lemma x4M_mzero : x4M (DiffExact.mzero DDC) = DiffExact.mzero Cops. Proof. reflexivity. Qed.
Lemma y4M_mzero : y4M (DiffExact.mzero DDC) = DiffExact.mzero Cops. Proof. reflexivity. Qed.
Lemma xy4M_mzero : xy4M (DiffExact.mzero DDC) = DiffExact.mzero Cops. Proof. reflexivity. Qed.

Notation zMC := (DiffExact.mzero Cops).
Lemma mdiag_tz : mdiag tz = zMC. Proof. reflexivity. Qed.
Lemma mscale_mscale (a b : C) (M : mat3 Cops) : @mscale Cops a (@mscale Cops b M) = @mscale Cops (Cmult a b) M.
Proof.
  destruct M as [[m1 m2 m3] [m4 m5 m6] [m7 m8 m9]]. unfold mscale, tscale. cbn [row0 row1 row2 fp fm fz]. cnorm.
  f_equal; f_equal; ring.
Qed.
Lemma tscale_tscaleC (a b : C) (t : triple Cops) : @tscale Cops a (@tscale Cops b t) = @tscale Cops (Cmult a b) t.
Proof. destruct t as [t1 t2 t3]. unfold tscale. cbn [fp fm fz]. cnorm. f_equal; ring. Qed.
Lemma mscale_swap (a b : C) (M : mat3 Cops) : @mscale Cops a (@mscale Cops b M) = @mscale Cops (Cmult b a) M.
Proof. rewrite mscale_mscale. f_equal. ring. Qed.
Lemma tscale_swapC (a b : C) (t : triple Cops) : @tscale Cops a (@tscale Cops b t) = @tscale Cops (Cmult b a) t.
Proof. rewrite tscale_tscaleC. f_equal. ring. Qed.

(* ---- derivative of a constant multiple ---- *)
Lemma derC_scal (c : C) (u : R -> C) x lu : derC u x lu -> derC (fun t => Cmult c (u t)) x (Cmult c lu).
Proof.
  intros U. eapply derC_eq; [|exact (derC_mult (fun _ => c) u x _ _ (derC_const c x) U)].
  apply C_eq; simpl; ring.
Qed.
Lemma derT_tscale (c : C) (u : R -> triple Cops) x lu : derT u x lu ->
  derT (fun t => @tscale Cops c (u t)) x (@tscale Cops c lu).
Proof.
  intros (U0 & U1 & U2). unfold derT, tscale. cbn [fp fm fz]. change (@kmul Cops) with Cmult.
  split; [exact (derC_scal c _ x _ U0)|split; [exact (derC_scal c _ x _ U1)|exact (derC_scal c _ x _ U2)]].
Qed.

(* ---- an affine function that does not vanish at x0 does not vanish near x0 ---- *)
Lemma affine_nz_loc (c b x0 : R) : c * x0 + b <> 0 -> locally x0 (fun x => c * x + b <> 0).
Proof.
  intros H. destruct (Req_dec c 0) as [->|Hc].
  - apply loc_all. intros x. replace (0 * x + b) with (0 * x0 + b) by ring. exact H.
  - assert (He : 0 < Rabs (c * x0 + b) / Rabs c).
    { apply Rdiv_lt_0_compat; apply Rabs_pos_lt; assumption. }
    exists (mkposreal _ He). intros x Hx E.
    assert (Hx' : Rabs (x - x0) < Rabs (c * x0 + b) / Rabs c) by exact Hx.
    assert (A : Rabs (c * x0 + b) = Rabs c * Rabs (x - x0)).
    { rewrite <- Rabs_mult. replace (c * (x - x0)) with (- (c * x0 + b)) by lra. now rewrite Rabs_Ropp. }
    assert (Pc : 0 < Rabs c) by (now apply Rabs_pos_lt).
    apply (Rmult_lt_compat_l (Rabs c)) in Hx'; [|exact Pc].
    replace (Rabs c * (Rabs (c * x0 + b) / Rabs c)) with (Rabs (c * x0 + b)) in Hx' by (field; lra).
    lra.
Qed.

(* ---- jets from derivatives: diagonal ---- *)
Lemma jet1C_mk x0 (f f' : R -> C) a b c :
  f x0 = a -> locally x0 (fun x => derC f x (f' x)) -> f' x0 = b -> derC f' x0 c -> jet1 x0 f (mk4 a b b c).
Proof.
  intros V Lf V1 D. split; [exact V|]. exists f'.
  split; [exact Lf|split; [exact V1|split; [exact V1|exact D]]].
Qed.
Lemma jet1T_zip x0 (f f' : R -> triple Cops) a b c :
  f x0 = a -> locally x0 (fun x => derT f x (f' x)) -> f' x0 = b -> derT f' x0 c ->
  jT R DDC (jet1 x0) f (zip4T a b b c).
Proof.
  intros V Lf V1 (D1 & D2 & D3). split; [|split]; cbn [zip4T fp fm fz].
  - apply (jet1C_mk x0 (fun x => fp (f x)) (fun x => fp (f' x))); [exact (f_equal fp V)| |exact (f_equal fp V1)|exact D1].
    apply (loc_imp x0 (fun x => derT f x (f' x))); [|exact Lf]. intros x Hx. exact (proj1 Hx).
  - apply (jet1C_mk x0 (fun x => fm (f x)) (fun x => fm (f' x))); [exact (f_equal fm V)| |exact (f_equal fm V1)|exact D2].
    apply (loc_imp x0 (fun x => derT f x (f' x))); [|exact Lf]. intros x Hx. exact (proj1 (proj2 Hx)).
  - apply (jet1C_mk x0 (fun x => fz (f x)) (fun x => fz (f' x))); [exact (f_equal fz V)| |exact (f_equal fz V1)|exact D3].
    apply (loc_imp x0 (fun x => derT f x (f' x))); [|exact Lf]. intros x Hx. exact (proj2 (proj2 Hx)).
Qed.
Lemma jet1M_zip x0 (f f' : R -> mat3 Cops) a b c :
  f x0 = a -> locally x0 (fun x => derM f x (f' x)) -> f' x0 = b -> derM f' x0 c ->
  jM R DDC (jet1 x0) f (zip4M a b b c).
Proof.
  intros V Lf V1 (D1 & D2 & D3). split; [|split]; cbn [zip4M row0 row1 row2].
  - apply (jet1T_zip x0 (fun x => row0 (f x)) (fun x => row0 (f' x))); [exact (f_equal row0 V)| |exact (f_equal row0 V1)|exact D1].
    apply (loc_imp x0 (fun x => derM f x (f' x))); [|exact Lf]. intros x Hx. exact (proj1 Hx).
  - apply (jet1T_zip x0 (fun x => row1 (f x)) (fun x => row1 (f' x))); [exact (f_equal row1 V)| |exact (f_equal row1 V1)|exact D2].
    apply (loc_imp x0 (fun x => derM f x (f' x))); [|exact Lf]. intros x Hx. exact (proj1 (proj2 Hx)).
  - apply (jet1T_zip x0 (fun x => row2 (f x)) (fun x => row2 (f' x))); [exact (f_equal row2 V)| |exact (f_equal row2 V1)|exact D3].
    apply (loc_imp x0 (fun x => derM f x (f' x))); [|exact Lf]. intros x Hx. exact (proj2 (proj2 Hx)).
Qed.
Lemma jet1T_const x0 (a : triple Cops) : jT R DDC (jet1 x0) (fun _ => a) (zip4T a tz tz tz).
Proof.
  apply (jet1T_zip x0 (fun _ => a) (fun _ => tz)); [reflexivity| |reflexivity|exact (derT_const tz x0)].
  apply loc_all. intros x. exact (derT_const a x).
Qed.
Lemma jet1M_const x0 (a : mat3 Cops) : jM R DDC (jet1 x0) (fun _ => a) (zip4M a mz mz mz).
Proof.
  apply (jet1M_zip x0 (fun _ => a) (fun _ => mz)); [reflexivity| |reflexivity|exact (derM_const mz x0)].
  apply loc_all. intros x. exact (derM_const a x).
Qed.

(* ---- jets from derivatives: mixed ---- *)
Lemma jet2C_mk x0 y0 (f : R * R -> C) (fy : R -> C) a b c d :
  f (x0, y0) = a -> derC (fun x => f (x, y0)) x0 b ->
  locally x0 (fun x => derC (fun y => f (x, y)) y0 (fy x)) -> fy x0 = c -> derC fy x0 d ->
  jet2 x0 y0 f (mk4 a b c d).
Proof.
  intros V Dx Ly Vy Dxy. split; [exact V|split; [exact Dx|]]. exists fy.
  split; [exact Ly|split; [exact Vy|exact Dxy]].
Qed.
Lemma jet2T_zip x0 y0 (f : R * R -> triple Cops) (fy : R -> triple Cops) a b c d :
  f (x0, y0) = a -> derT (fun x => f (x, y0)) x0 b ->
  locally x0 (fun x => derT (fun y => f (x, y)) y0 (fy x)) -> fy x0 = c -> derT fy x0 d ->
  jT (R * R) DDC (jet2 x0 y0) f (zip4T a b c d).
Proof.
  intros V (X1 & X2 & X3) Ly Vy (D1 & D2 & D3). split; [|split]; cbn [zip4T fp fm fz].
  - apply (jet2C_mk x0 y0 (fun i => fp (f i)) (fun x => fp (fy x)));
      [exact (f_equal fp V)|exact X1| |exact (f_equal fp Vy)|exact D1].
    apply (loc_imp x0 (fun x => derT (fun y => f (x, y)) y0 (fy x))); [|exact Ly]. intros x Hx. exact (proj1 Hx).
  - apply (jet2C_mk x0 y0 (fun i => fm (f i)) (fun x => fm (fy x)));
      [exact (f_equal fm V)|exact X2| |exact (f_equal fm Vy)|exact D2].
    apply (loc_imp x0 (fun x => derT (fun y => f (x, y)) y0 (fy x))); [|exact Ly]. intros x Hx. exact (proj1 (proj2 Hx)).
  - apply (jet2C_mk x0 y0 (fun i => fz (f i)) (fun x => fz (fy x)));
      [exact (f_equal fz V)|exact X3| |exact (f_equal fz Vy)|exact D3].
    apply (loc_imp x0 (fun x => derT (fun y => f (x, y)) y0 (fy x))); [|exact Ly]. intros x Hx. exact (proj2 (proj2 Hx)).
Qed.
Lemma jet2M_zip x0 y0 (f : R * R -> mat3 Cops) (fy : R -> mat3 Cops) a b c d :
  f (x0, y0) = a -> derM (fun x => f (x, y0)) x0 b ->
  locally x0 (fun x => derM (fun y => f (x, y)) y0 (fy x)) -> fy x0 = c -> derM fy x0 d ->
  jM (R * R) DDC (jet2 x0 y0) f (zip4M a b c d).
Proof.
  intros V (X1 & X2 & X3) Ly Vy (D1 & D2 & D3). split; [|split]; cbn [zip4M row0 row1 row2].
  - apply (jet2T_zip x0 y0 (fun i => row0 (f i)) (fun x => row0 (fy x)));
      [exact (f_equal row0 V)|exact X1| |exact (f_equal row0 Vy)|exact D1].
    apply (loc_imp x0 (fun x => derM (fun y => f (x, y)) y0 (fy x))); [|exact Ly]. intros x Hx. exact (proj1 Hx).
  - apply (jet2T_zip x0 y0 (fun i => row1 (f i)) (fun x => row1 (fy x)));
      [exact (f_equal row1 V)|exact X2| |exact (f_equal row1 Vy)|exact D2].
    apply (loc_imp x0 (fun x => derM (fun y => f (x, y)) y0 (fy x))); [|exact Ly]. intros x Hx. exact (proj1 (proj2 Hx)).
  - apply (jet2T_zip x0 y0 (fun i => row2 (f i)) (fun x => row2 (fy x)));
      [exact (f_equal row2 V)|exact X3| |exact (f_equal row2 Vy)|exact D3].
    apply (loc_imp x0 (fun x => derM (fun y => f (x, y)) y0 (fy x))); [|exact Ly]. intros x Hx. exact (proj2 (proj2 Hx)).
Qed.
Lemma jet2T_const x0 y0 (a : triple Cops) : jT (R * R) DDC (jet2 x0 y0) (fun _ => a) (zip4T a tz tz tz).
Proof.
  apply (jet2T_zip x0 y0 (fun _ => a) (fun _ => tz));
    [reflexivity|exact (derT_const a x0)| |reflexivity|exact (derT_const tz x0)].
  apply loc_all. intros x. exact (derT_const a y0).
Qed.
Lemma jet2M_const x0 y0 (a : mat3 Cops) : jM (R * R) DDC (jet2 x0 y0) (fun _ => a) (zip4M a mz mz mz).
Proof.
  apply (jet2M_zip x0 y0 (fun _ => a) (fun _ => mz));
    [reflexivity|exact (derM_const a x0)| |reflexivity|exact (derM_const mz x0)].
  apply loc_all. intros x. exact (derM_const a y0).
Qed.

Definition cc (c : R) : C := Cmult (RtoC c) (RtoC c).
Notation sT := (@tscale Cops).
Notation sM := (@mscale Cops).

(* ================================================================================== *)
(* Part 1: the diagonal entry                                                         *)
(* ================================================================================== *)
(* R1Mv F D D2 p c b : MatrixOp with arrays F(c x + b), first / second derivative arrays D, D2 of its
                        parameter p                                                       (T, Phi)
   R1Av A D D2 h p c b : ScalarOp with (arr, arr0) = A(c x + b), derivative pairs D, D2; h says whether the
                        operator has a recovery array                                     (E, P, R)
   R1Mc / R1Ac : constant operators;  R1S : 1-D shift with optional nmax
   R1Spoil / R1Reset / R1PD pd reset / R1Wait : SPOILER, RESET, PD(pd, reset), Wait -- operators without a
                        differentiable parameter, applied through Operator.__call__ (state and all partials) *)
Inductive ritem1 : Type :=
| R1Mc (M : mat3 Cops)
| R1Mv (F D D2 : R -> mat3 Cops) (p : param) (c b : R)
| R1Ac (A : arr2)
| R1Av (A D D2 : R -> arr2) (h : bool) (p : param) (c b : R)
| R1S (d : Z) (nm : option nat)
| R1Spoil
| R1Reset
| R1PD (p : C) (r : bool)
| R1Wait.

(* the operator epgpy applies at parameter value x *)
Definition real1_of (x : R) (it : ritem1) : op Cops :=
  match it with
  | R1Mc M => OMatrix M None
  | R1Mv F D D2 p c b => OMatrix (F (c * x + b)) None
  | R1Ac A => OScalar (fst A) (snd A)
  | R1Av A D D2 h p c b => OScalar (fst (A (c * x + b))) (snd (A (c * x + b)))
  | R1S d nm => OShift d nm
  | R1Spoil => OSpoil
  | R1Reset => OReset
  | R1PD p r => @OPD Cops p r
  | R1Wait => OWait
  end.

Definition fam1_of (it : ritem1) : fop R :=
  match it with
  | R1Mc M => FMatrix (fun _ => M) None
  | R1Mv F D D2 p c b => FMatrix (fun x => F (c * x + b)) None
  | R1Ac A => FScalar (fun _ => fst A) (option_map (fun a _ => a) (snd A))
  | R1Av A D D2 h p c b => FScalar (fun x => fst (A (c * x + b)))
                         (if h then Some (fun x => opt0 (snd (A (c * x + b)))) else None)
  | R1S d nm => FShift d nm
  | R1Spoil => FSpoil
  | R1Reset => FReset
  | R1PD p r => FPD p r
  | R1Wait => FWait
  end.

(* the differentiation operator handed to diff.py's bookkeeping at x0 (shapes of Proofs/Shapes2.v):
   order1 = {v: {p: c}}, order2 = {(v,v): {}}, auto_cross_derivatives = False *)
Definition dop1_of (x0 : R) (v : var) (it : ritem1) : dinstr Cops :=
  match it with
  | R1Mc M => DOp (dop0 Cops (LMatrix M None))
  | R1Mv F D D2 p c b =>
      DOp (dopD Cops (LMatrix (F (c * x0 + b)) None) p (LMatrix (D (c * x0 + b)) None)
                 (LMatrix (D2 (c * x0 + b)) None) v (RtoC c))
  | R1Ac A => DOp (dop0 Cops (LScalar (fst A) (snd A)))
  | R1Av A D D2 h p c b =>
      DOp (dopD Cops (LScalar (fst (A (c * x0 + b))) (snd (A (c * x0 + b)))) p
                 (LScalar (fst (D (c * x0 + b))) (snd (D (c * x0 + b))))
                 (LScalar (fst (D2 (c * x0 + b))) (snd (D2 (c * x0 + b)))) v (RtoC c))
  | R1S d nm => DOp (dop0 Cops (LShift d nm))
  | R1Spoil => DPlain (@OSpoil Cops)
  | R1Reset => DPlain (@OReset Cops)
  | R1PD p r => DPlain (@OPD Cops p r)
  | R1Wait => DPlain (@OWait Cops)
  end.

(* the 2-jets of the arrays *)
Definition jet1_of (x0 : R) (it : ritem1) : op DDC :=
  match it with
  | R1Mc M => OMatrix (zip4M M mz mz mz) None
  | R1Mv F D D2 p c b =>
      OMatrix (zip4M (F (c * x0 + b)) (sM (RtoC c) (D (c * x0 + b))) (sM (RtoC c) (D (c * x0 + b)))
                     (sM (cc c) (D2 (c * x0 + b)))) None
  | R1Ac A => OScalar (zip4T (fst A) tz tz tz) (option_map (fun a => zip4T a tz tz tz) (snd A))
  | R1Av A D D2 h p c b =>
      OScalar (zip4T (fst (A (c * x0 + b))) (sT (RtoC c) (fst (D (c * x0 + b)))) (sT (RtoC c) (fst (D (c * x0 + b))))
                     (sT (cc c) (fst (D2 (c * x0 + b)))))
              (if h then Some (zip4T (opt0 (snd (A (c * x0 + b)))) (sT (RtoC c) (opt0 (snd (D (c * x0 + b)))))
                                     (sT (RtoC c) (opt0 (snd (D (c * x0 + b)))))
                                     (sT (cc c) (opt0 (snd (D2 (c * x0 + b)))))) else None)
  | R1S d nm => OShift d nm
  | R1Spoil => OSpoil
  | R1Reset => OReset
  | R1PD p r => @OPD DDC (inj4 p) r
  | R1Wait => OWait
  end.

(* side conditions: D is the derivative of the arrays NEAR the point, D2 the derivative of D AT the point;
   the recovery array is present for every parameter value or for none *)
Definition item1_ok (x0 : R) (it : ritem1) : Prop :=
  match it with
  | R1Mv F D D2 p c b => locally x0 (fun x => derM F (c * x + b) (D (c * x + b))) /\
                         derM D (c * x0 + b) (D2 (c * x0 + b))
  | R1Av A D D2 h p c b => locally x0 (fun x => derA A (c * x + b) (D (c * x + b))) /\
                           derA D (c * x0 + b) (D2 (c * x0 + b)) /\ (forall u, has0 (A u) = h) /\
                           (h = false -> snd (D (c * x0 + b)) = None /\ snd (D2 (c * x0 + b)) = None)
  | _ => True
  end.

Lemma inst_fam1 x0 it x : item1_ok x0 it -> inst R (fam1_of it) x = real1_of x it.
Proof.
  destruct it as [M|F D D2 p c b|A|A D D2 h p c b|d nm| | |q r|]; cbn [item1_ok fam1_of inst real1_of]; intros Hok; try reflexivity.
  - destruct A as [a [a0|]]; reflexivity.
  - destruct Hok as (_ & _ & Hh & _). specialize (Hh (c * x + b)). unfold has0 in Hh.
    destruct h; cbn [option_map]; cbv beta; destruct (snd (A (c * x + b))); try discriminate; reflexivity.
Qed.

(* second derivative of t |-> F(c t + b): chain rule twice *)
Lemma derM_affine2 (D : R -> mat3 Cops) c b x0 l : derM D (c * x0 + b) l ->
  derM (fun x => sM (RtoC c) (D (c * x + b))) x0 (sM (cc c) l).
Proof.
  intros H. eapply derM_eq; [|exact (derM_mscale (RtoC c) _ x0 _ (derM_affine D c b x0 l H))].
  apply mscale_mscale.
Qed.
Lemma derT_affine2 (D : R -> triple Cops) c b x0 l : derT D (c * x0 + b) l ->
  derT (fun x => sT (RtoC c) (D (c * x + b))) x0 (sT (cc c) l).
Proof.
  intros H. eapply derT_eq; [|exact (derT_tscale (RtoC c) _ x0 _ (derT_affine D c b x0 l H))].
  apply tscale_tscaleC.
Qed.

Lemma item1_jet x0 it : item1_ok x0 it -> is_jet R DDC (jet1 x0) inj4 (fam1_of it) (jet1_of x0 it).
Proof.
  destruct it as [M|F D D2 p c b|A|A D D2 h p c b|d nm| | |q r|]; cbn [item1_ok fam1_of jet1_of is_jet ojet]; intros Hok.
  - split; [exact (jet1M_const x0 M)|exact I].
  - destruct Hok as [L1 H2]. split; [|exact I].
    apply (jet1M_zip x0 (fun x => F (c * x + b)) (fun x => sM (RtoC c) (D (c * x + b)))); [reflexivity| |reflexivity|].
    + apply (loc_imp x0 (fun x => derM F (c * x + b) (D (c * x + b)))); [|exact L1].
      intros x Hx. exact (derM_affine F c b x _ Hx).
    + exact (derM_affine2 D c b x0 _ H2).
  - split; [exact (jet1T_const x0 (fst A))|].
    destruct (snd A) as [a0|]; cbn [option_map ojet]; [exact (jet1T_const x0 a0)|exact I].
  - destruct Hok as (L1 & (Da2 & Da02) & _ & _). split.
    + apply (jet1T_zip x0 (fun x => fst (A (c * x + b))) (fun x => sT (RtoC c) (fst (D (c * x + b))))); [reflexivity| |reflexivity|].
      * apply (loc_imp x0 (fun x => derA A (c * x + b) (D (c * x + b)))); [|exact L1].
        intros x Hx. exact (derT_affine (fun u => fst (A u)) c b x _ (proj1 Hx)).
      * exact (derT_affine2 (fun u => fst (D u)) c b x0 _ Da2).
    + destruct h; cbn [ojet]; [|exact I].
      apply (jet1T_zip x0 (fun x => opt0 (snd (A (c * x + b)))) (fun x => sT (RtoC c) (opt0 (snd (D (c * x + b))))));
        [reflexivity| |reflexivity|].
      * apply (loc_imp x0 (fun x => derA A (c * x + b) (D (c * x + b)))); [|exact L1].
        intros x Hx. exact (derT_affine (fun u => opt0 (snd (A u))) c b x _ (proj2 Hx)).
      * exact (derT_affine2 (fun u => opt0 (snd (D u))) c b x0 _ Da02).
  - split; reflexivity.
  - exact I.
  - exact I.
  - split; reflexivity.
  - exact I.
Qed.

Notation pair_ok12C := (pair_ok12 DDC Cops e00 e10 e01 e11).
Notation mlinC := (map_lin DDC Cops e00).

(* the recovery part of a ScalarOp jet and of its value *)
Lemma map_lin_scalar (ja : triple DDC) (a : triple Cops) (h : bool) (j0 : triple DDC) (o : option (triple Cops)) :
  v4T ja = a -> (if h then exists a0, o = Some a0 /\ v4T j0 = a0 else o = None) ->
  mlinC (LScalar ja (if h then Some j0 else None)) = LScalar a o.
Proof.
  intros Ha Ho. cbn [map_lin]. rewrite Ha. destruct h; cbn [option_map].
  - destruct Ho as (a0 & -> & <-). reflexivity.
  - now rewrite Ho.
Qed.

(* PD(pd, reset): the density is a constant -- all the derivative parts of its jet are zero *)
Lemma plain_pd_pair v1 v2 bb (p : C) (r : bool) :
  pair_ok12C v1 v2 bb (@OPD DDC (inj4 p) r) (DPlain (@OPD Cops p r)).
Proof.
  exact (plain_pd_ok DDC Cops e00 e10 e01 e11 v1 v2 bb (inj4 p) r eq_refl eq_refl eq_refl).
Qed.

Lemma item1_pair x0 v bb it : item1_ok x0 it -> pair_ok12C v v bb (jet1_of x0 it) (dop1_of x0 v it).
Proof.
  destruct it as [M|F D D2 p c b|A|A D D2 h p c b|d nm| | |q r|]; cbn [item1_ok jet1_of dop1_of]; intros Hok.
  - assert (E : LMatrix M None = mlinC (LMatrix (zip4M M mz mz mz) None)) by (cbn [map_lin option_map]; now rewrite v4M_zip).
    rewrite E. apply (dop0_ok DDC Cops Claws e00 e10 e01 e11 v v bb (LMatrix (zip4M M mz mz mz) None)); try reflexivity;
      cbn [lmat lmat0]; now rewrite ?x4M_zip, ?y4M_zip, ?xy4M_zip.
  - set (u0 := c * x0 + b).
    set (l1 := LMatrix (zip4M (F u0) (sM (RtoC c) (D u0)) (sM (RtoC c) (D u0)) (sM (cc c) (D2 u0))) None).
    assert (E : LMatrix (F u0) None = mlinC l1) by (unfold l1; cbn [map_lin option_map]; now rewrite v4M_zip).
    rewrite E. change (OMatrix (zip4M (F u0) (sM (RtoC c) (D u0)) (sM (RtoC c) (D u0)) (sM (cc c) (D2 u0))) None)
      with (lin_op DDC l1).
    apply (dopD_ok DDC Cops Claws e00 e10 e01 e11 v bb l1 p); try reflexivity; unfold l1; cbn [lmat lmat0];
      rewrite ?x4M_zip, ?y4M_zip, ?xy4M_zip, ?x4M_mzero, ?y4M_mzero, ?xy4M_mzero, ?mscale_mzero; reflexivity.
  - set (l1 := LScalar (zip4T (fst A) tz tz tz) (option_map (fun a => zip4T a tz tz tz) (snd A))).
    assert (E : LScalar (fst A) (snd A) = mlinC l1).
    { unfold l1. cbn [map_lin]. rewrite v4T_zip. destruct (snd A) as [a0|]; cbn [option_map]; [now rewrite v4T_zip|reflexivity]. }
    rewrite E. change (OScalar (zip4T (fst A) tz tz tz) (option_map (fun a => zip4T a tz tz tz) (snd A))) with (lin_op DDC l1).
    apply (dop0_ok DDC Cops Claws e00 e10 e01 e11 v v bb l1); try reflexivity; unfold l1; cbn [lmat];
      rewrite ?x4M_mdiag, ?y4M_mdiag, ?xy4M_mdiag; try reflexivity;
      destruct (snd A) as [a0|]; cbn [option_map lmat0]; rewrite ?x4M_mdiag, ?y4M_mdiag, ?xy4M_mdiag; reflexivity.
  - destruct Hok as (_ & _ & Hh & Hd). set (u0 := c * x0 + b) in *.
    pose proof (Hh u0) as Hh0. unfold has0 in Hh0.
    set (ja := zip4T (fst (A u0)) (sT (RtoC c) (fst (D u0))) (sT (RtoC c) (fst (D u0))) (sT (cc c) (fst (D2 u0)))).
    set (j0 := zip4T (opt0 (snd (A u0))) (sT (RtoC c) (opt0 (snd (D u0)))) (sT (RtoC c) (opt0 (snd (D u0))))
                     (sT (cc c) (opt0 (snd (D2 u0))))).
    set (l1 := LScalar ja (if h then Some j0 else None)).
    assert (E : LScalar (fst (A u0)) (snd (A u0)) = mlinC l1).
    { symmetry. apply map_lin_scalar; [apply v4T_zip|].
      destruct h; destruct (snd (A u0)) as [a0|]; try discriminate; [|reflexivity].
      exists a0. split; [reflexivity|apply v4T_zip]. }
    rewrite E. change (OScalar ja (if h then Some j0 else None)) with (lin_op DDC l1).
    assert (Z1 : h = false -> mdiag (opt0 (snd (D u0))) = zMC) by (intros Hf; now rewrite (proj1 (Hd Hf))).
    assert (Z2 : h = false -> mdiag (opt0 (snd (D2 u0))) = zMC) by (intros Hf; now rewrite (proj2 (Hd Hf))).
    apply (dopD_ok DDC Cops Claws e00 e10 e01 e11 v bb l1 p); try reflexivity; unfold l1, ja; cbn [lmat];
      rewrite ?lmat0_opt, ?x4M_mdiag, ?y4M_mdiag, ?xy4M_mdiag, ?mdiag_tscale; try reflexivity;
      (destruct h; cbn [lmat0]; unfold j0;
       [rewrite ?x4M_mdiag, ?y4M_mdiag, ?xy4M_mdiag, ?mdiag_tscale; reflexivity
       |rewrite ?(Z1 eq_refl), ?(Z2 eq_refl), ?mscale_mzero; reflexivity]).
  - exact (dop0_shift_ok DDC Cops e00 e10 e01 e11 v v bb d nm).
  - reflexivity.
  - reflexivity.
  - exact (plain_pd_pair v v bb q r).
  - reflexivity.
Qed.

(* ================= the end-to-end statement, diagonal entry ================= *)
Theorem real_sequence_hessian_diag (x0 : R) (v : var) (items : list ritem1) (pd : C) :
  List.Forall (item1_ok x0) items ->
  let ds := drun (map (dop1_of x0 v) items) (dinit (@init Cops pd)) in
  let sig := fun x => f0 Cops (run (map (real1_of x) items) (@init Cops pd)) in
  exists h j : C,
    hessian ds [v] = [[h]] /\ jacobian ds [v] = [j] /\
    (exists sig' : R -> C, locally x0 (fun x => derC sig x (sig' x)) /\ sig' x0 = j /\ derC sig' x0 h) /\
    f0 Cops (d_main ds) = sig x0.
Proof.
  intros Hok ds sig.
  assert (J : Forall2 (is_jet R DDC (jet1 x0) inj4) (map fam1_of items) (map (jet1_of x0) items)).
  { clear ds sig. induction Hok as [|it its H _ IH]; cbn [map]; constructor; [exact (item1_jet x0 it H)|exact IH]. }
  assert (P : Forall2 (pair_ok12C v v false) (map (jet1_of x0) items) (map (dop1_of x0 v) items)).
  { clear ds sig J. induction Hok as [|it its H _ IH]; cbn [map]; constructor; [exact (item1_pair x0 v false it H)|exact IH]. }
  pose proof (prog_ok12_static DDC Cops e00 e10 e01 e11 v v _ _ P (dinit (@init Cops pd))) as P'.
  destruct (hessian_is_second_derivative x0 v _ _ _ pd J P') as (h & j & E1 & E2 & (s' & Ls & Vs & Ds) & F).
  assert (R1 : forall x, frun R (map fam1_of items) x (@init Cops pd) = run (map (real1_of x) items) (@init Cops pd)).
  { intros x. unfold frun. f_equal. rewrite map_map.
    clear - Hok. induction Hok as [|it its H _ IH]; cbn [map]; [reflexivity|].
    now rewrite IH, (inst_fam1 x0 it x H). }
  exists h, j. split; [exact E1|split; [exact E2|split]].
  - exists s'. split; [|split; [exact Vs|exact Ds]].
    apply (loc_imp x0 (fun x => derC (fun x1 => f0 Cops (frun R (map fam1_of items) x1 (@init Cops pd))) x (s' x)));
      [|exact Ls].
    intros x Hx. exact (derC_ext _ sig x _ (fun t => f_equal (f0 Cops) (R1 t)) Hx).
  - unfold sig. rewrite <- R1. exact F.
Qed.

(* ================================================================================== *)
(* Part 2: the mixed entry                                                            *)
(* ================================================================================== *)
(* IX it : an item of Proofs/RealSeq.v (constant, one parameter driven affinely, shift, SPOILER, RESET,
           PD(pd, reset), Wait) driven by x
   IY it : the same driven by y
   IMxy sw F Dp Dq Dpq p q c1 b1 c2 b2 : MatrixOp with arrays F (c1 x + b1) (c2 y + b2): x drives parameter p
        (first argument), y drives parameter q <> p (second argument); Dp, Dq the first-derivative
        arrays, Dpq the mixed second-derivative array
   IAxy sw A Dp Dq Dpq h p q c1 b1 c2 b2 : the same for a ScalarOp with (arr, arr0) pairs
   sw: y's entry precedes x's in the operator's order1 dictionary (q precedes p in the class's PARAMETERS) *)
Inductive ritem2 : Type :=
| IX (it : ritem)
| IY (it : ritem)
| IMxy (sw : bool) (F Dp Dq Dpq : R -> R -> mat3 Cops) (p q : param) (c1 b1 c2 b2 : R)
| IAxy (sw : bool) (A Dp Dq Dpq : R -> R -> arr2) (h : bool) (p q : param) (c1 b1 c2 b2 : R).

(* the operator epgpy applies at parameter values (x, y) *)
Definition real2_of (x y : R) (it : ritem2) : op Cops :=
  match it with
  | IX it => real_of x it
  | IY it => real_of y it
  | IMxy sw F Dp Dq Dpq p q c1 b1 c2 b2 => OMatrix (F (c1 * x + b1) (c2 * y + b2)) None
  | IAxy sw A Dp Dq Dpq h p q c1 b1 c2 b2 =>
      OScalar (fst (A (c1 * x + b1) (c2 * y + b2))) (snd (A (c1 * x + b1) (c2 * y + b2)))
  end.

(* a one-variable family read as a two-variable family through a projection *)
Definition lift_fop (pr : R * R -> R) (f : Jet.fop) : fop (R * R) :=
  match f with
  | Jet.FScalar a a0 => FScalar (fun i => a (pr i)) (option_map (fun g i => g (pr i)) a0)
  | Jet.FMatrix m m0 => FMatrix (fun i => m (pr i)) (option_map (fun g i => g (pr i)) m0)
  | Jet.FShift d nm => FShift d nm
  | Jet.FPD p r => FPD p r
  | Jet.FSpoil => FSpoil
  | Jet.FReset => FReset
  | Jet.FWait => FWait
  end.
Lemma inst_lift pr f i : inst (R * R) (lift_fop pr f) i = Jet.inst f (pr i).
Proof. destruct f as [a [a0|]|m [m0|]|d nm|p r| | |]; reflexivity. Qed.

Definition fam2_of (it : ritem2) : fop (R * R) :=
  match it with
  | IX it => lift_fop fst (fam_of it)
  | IY it => lift_fop snd (fam_of it)
  | IMxy sw F Dp Dq Dpq p q c1 b1 c2 b2 => FMatrix (fun i => F (c1 * fst i + b1) (c2 * snd i + b2)) None
  | IAxy sw A Dp Dq Dpq h p q c1 b1 c2 b2 =>
      FScalar (fun i => fst (A (c1 * fst i + b1) (c2 * snd i + b2)))
              (if h then Some (fun i => opt0 (snd (A (c1 * fst i + b1) (c2 * snd i + b2)))) else None)
  end.

(* the differentiation operator handed to diff.py's bookkeeping at (x0, y0); vv is the variable (u or w)
   that drives the item; order2 = {Pair(u,w): {}} on every operator carrying u or w *)
Definition dopV_of (z0 : R) (vv u w : var) (it : ritem) : dinstr Cops :=
  match it with
  | RMc M => DOp (dop0 Cops (LMatrix M None))
  | RMv F D p c b =>
      DOp (dopV Cops (LMatrix (F (c * z0 + b)) None) p (LMatrix (D (c * z0 + b)) None) vv u w (RtoC c))
  | RAc A => DOp (dop0 Cops (LScalar (fst A) (snd A)))
  | RAv A D h p c b =>
      DOp (dopV Cops (LScalar (fst (A (c * z0 + b))) (snd (A (c * z0 + b)))) p
                 (LScalar (fst (D (c * z0 + b))) (snd (D (c * z0 + b)))) vv u w (RtoC c))
  | RS d nm => DOp (dop0 Cops (LShift d nm))
  | RSpoil => DPlain (@OSpoil Cops)
  | RReset => DPlain (@OReset Cops)
  | RPD p r => DPlain (@OPD Cops p r)
  | RWait => DPlain (@OWait Cops)
  end.

Definition dop2_of (x0 y0 : R) (u w : var) (it : ritem2) : dinstr Cops :=
  match it with
  | IX it => dopV_of x0 u u w it
  | IY it => dopV_of y0 w u w it
  | IMxy sw F Dp Dq Dpq p q c1 b1 c2 b2 =>
      let p0 := c1 * x0 + b1 in let q0 := c2 * y0 + b2 in
      DOp (dopXY Cops sw (LMatrix (F p0 q0) None) p q (LMatrix (Dp p0 q0) None) (LMatrix (Dq p0 q0) None)
                 (LMatrix (Dpq p0 q0) None) u w (RtoC c1) (RtoC c2))
  | IAxy sw A Dp Dq Dpq h p q c1 b1 c2 b2 =>
      let p0 := c1 * x0 + b1 in let q0 := c2 * y0 + b2 in
      DOp (dopXY Cops sw (LScalar (fst (A p0 q0)) (snd (A p0 q0))) p q
                 (LScalar (fst (Dp p0 q0)) (snd (Dp p0 q0))) (LScalar (fst (Dq p0 q0)) (snd (Dq p0 q0)))
                 (LScalar (fst (Dpq p0 q0)) (snd (Dpq p0 q0))) u w (RtoC c1) (RtoC c2))
  end.

(* the 2-jets of the arrays: sel = true puts the first derivative in the e1 slot (driven by x),
   sel = false in the e2 slot (driven by y) *)
Definition slotT (sel : bool) (a d : triple Cops) : triple DDC := if sel then zip4T a d tz tz else zip4T a tz d tz.
Definition slotM (sel : bool) (a d : mat3 Cops) : mat3 DDC := if sel then zip4M a d mz mz else zip4M a mz d mz.
Definition jetV_of (sel : bool) (z0 : R) (it : ritem) : op DDC :=
  match it with
  | RMc M => OMatrix (zip4M M mz mz mz) None
  | RMv F D p c b => OMatrix (slotM sel (F (c * z0 + b)) (sM (RtoC c) (D (c * z0 + b)))) None
  | RAc A => OScalar (zip4T (fst A) tz tz tz) (option_map (fun a => zip4T a tz tz tz) (snd A))
  | RAv A D h p c b =>
      OScalar (slotT sel (fst (A (c * z0 + b))) (sT (RtoC c) (fst (D (c * z0 + b)))))
              (if h then Some (slotT sel (opt0 (snd (A (c * z0 + b)))) (sT (RtoC c) (opt0 (snd (D (c * z0 + b))))))
               else None)
  | RS d nm => OShift d nm
  | RSpoil => OSpoil
  | RReset => OReset
  | RPD p r => @OPD DDC (inj4 p) r
  | RWait => OWait
  end.
Definition c12 (c1 c2 : R) : C := Cmult (RtoC c1) (RtoC c2).
Definition jet2_of (x0 y0 : R) (it : ritem2) : op DDC :=
  match it with
  | IX it => jetV_of true x0 it
  | IY it => jetV_of false y0 it
  | IMxy sw F Dp Dq Dpq p q c1 b1 c2 b2 =>
      let p0 := c1 * x0 + b1 in let q0 := c2 * y0 + b2 in
      OMatrix (zip4M (F p0 q0) (sM (RtoC c1) (Dp p0 q0)) (sM (RtoC c2) (Dq p0 q0)) (sM (c12 c1 c2) (Dpq p0 q0))) None
  | IAxy sw A Dp Dq Dpq h p q c1 b1 c2 b2 =>
      let p0 := c1 * x0 + b1 in let q0 := c2 * y0 + b2 in
      OScalar (zip4T (fst (A p0 q0)) (sT (RtoC c1) (fst (Dp p0 q0))) (sT (RtoC c2) (fst (Dq p0 q0)))
                     (sT (c12 c1 c2) (fst (Dpq p0 q0))))
              (if h then Some (zip4T (opt0 (snd (A p0 q0))) (sT (RtoC c1) (opt0 (snd (Dp p0 q0))))
                                     (sT (RtoC c2) (opt0 (snd (Dq p0 q0)))) (sT (c12 c1 c2) (opt0 (snd (Dpq p0 q0)))))
               else None)
  end.

(* side conditions.  IX / IY: those of the first-order theorem (the derivative array at the point).
   IMxy / IAxy: Dp = d/d(first argument) at the point, Dq = d/d(second argument) for first arguments near
   the point, Dpq = d/d(first argument) of Dq at the point; the ranks of the two parameters differ *)
Definition item2_ok (x0 y0 : R) (it : ritem2) : Prop :=
  match it with
  | IX it => item_ok x0 it
  | IY it => item_ok y0 it
  | IMxy sw F Dp Dq Dpq p q c1 b1 c2 b2 =>
      let p0 := c1 * x0 + b1 in let q0 := c2 * y0 + b2 in
      p <> q /\ derM (fun a => F a q0) p0 (Dp p0 q0) /\
      locally x0 (fun x => derM (fun t => F (c1 * x + b1) t) q0 (Dq (c1 * x + b1) q0)) /\
      derM (fun a => Dq a q0) p0 (Dpq p0 q0)
  | IAxy sw A Dp Dq Dpq h p q c1 b1 c2 b2 =>
      let p0 := c1 * x0 + b1 in let q0 := c2 * y0 + b2 in
      p <> q /\ derA (fun a => A a q0) p0 (Dp p0 q0) /\
      locally x0 (fun x => derA (fun t => A (c1 * x + b1) t) q0 (Dq (c1 * x + b1) q0)) /\
      derA (fun a => Dq a q0) p0 (Dpq p0 q0) /\ (forall s t, has0 (A s t) = h) /\
      (h = false -> snd (Dp p0 q0) = None /\ snd (Dq p0 q0) = None /\ snd (Dpq p0 q0) = None)
  end.

Lemma inst_fam2 x0 y0 it x y : item2_ok x0 y0 it -> inst (R * R) (fam2_of it) (x, y) = real2_of x y it.
Proof.
  destruct it as [it|it|sw F Dp Dq Dpq p q c1 b1 c2 b2|sw A Dp Dq Dpq h p q c1 b1 c2 b2];
    cbn [item2_ok fam2_of real2_of]; intros Hok.
  - rewrite inst_lift. exact (inst_fam x0 it x Hok).
  - rewrite inst_lift. exact (inst_fam y0 it y Hok).
  - reflexivity.
  - destruct Hok as (_ & _ & _ & _ & Hh & _). specialize (Hh (c1 * x + b1) (c2 * y + b2)). unfold has0 in Hh.
    cbn [inst fst snd]. destruct h; cbn [option_map]; cbv beta; cbn [fst snd];
      destruct (snd (A (c1 * x + b1) (c2 * y + b2))); try discriminate; reflexivity.
Qed.

(* ---- jets ---- *)
Lemma jetV_jet x0 y0 (sel : bool) it :
  item_ok (if sel then x0 else y0) it ->
  is_jet (R * R) DDC (jet2 x0 y0) inj4 (lift_fop (if sel then fst else snd) (fam_of it))
         (jetV_of sel (if sel then x0 else y0) it).
Proof.
  destruct it as [M|F D p c b|A|A D h p c b|d nm| | |q r|]; cbn [item_ok fam_of lift_fop jetV_of is_jet ojet option_map]; intros Hok.
  - split; [exact (jet2M_const x0 y0 M)|exact I].
  - split; [|exact I]. destruct sel; cbn [slotM].
    + apply (jet2M_zip x0 y0 (fun i => F (c * fst i + b)) (fun _ => mz));
        [reflexivity|exact (derM_affine F c b x0 _ Hok)| |reflexivity|exact (derM_const mz x0)].
      apply loc_all. intros x. exact (derM_const (F (c * x + b)) y0).
    + apply (jet2M_zip x0 y0 (fun i => F (c * snd i + b)) (fun _ => sM (RtoC c) (D (c * y0 + b))));
        [reflexivity|exact (derM_const (F (c * y0 + b)) x0)| |reflexivity|exact (derM_const _ x0)].
      apply loc_all. intros x. exact (derM_affine F c b y0 _ Hok).
  - split; [exact (jet2T_const x0 y0 (fst A))|].
    destruct (snd A) as [a0|]; cbn [option_map ojet]; [exact (jet2T_const x0 y0 a0)|exact I].
  - destruct Hok as ((Da & Da0) & _ & _). split.
    + destruct sel; cbn [slotT].
      * apply (jet2T_zip x0 y0 (fun i => fst (A (c * fst i + b))) (fun _ => tz));
          [reflexivity|exact (derT_affine (fun t => fst (A t)) c b x0 _ Da)| |reflexivity|exact (derT_const tz x0)].
        apply loc_all. intros x. exact (derT_const (fst (A (c * x + b))) y0).
      * apply (jet2T_zip x0 y0 (fun i => fst (A (c * snd i + b))) (fun _ => sT (RtoC c) (fst (D (c * y0 + b)))));
          [reflexivity|exact (derT_const (fst (A (c * y0 + b))) x0)| |reflexivity|exact (derT_const _ x0)].
        apply loc_all. intros x. exact (derT_affine (fun t => fst (A t)) c b y0 _ Da).
    + destruct h; cbn [ojet]; [|exact I]. destruct sel; cbn [slotT].
      * apply (jet2T_zip x0 y0 (fun i => opt0 (snd (A (c * fst i + b)))) (fun _ => tz));
          [reflexivity|exact (derT_affine (fun t => opt0 (snd (A t))) c b x0 _ Da0)| |reflexivity|exact (derT_const tz x0)].
        apply loc_all. intros x. exact (derT_const (opt0 (snd (A (c * x + b)))) y0).
      * apply (jet2T_zip x0 y0 (fun i => opt0 (snd (A (c * snd i + b)))) (fun _ => sT (RtoC c) (opt0 (snd (D (c * y0 + b))))));
          [reflexivity|exact (derT_const (opt0 (snd (A (c * y0 + b)))) x0)| |reflexivity|exact (derT_const _ x0)].
        apply loc_all. intros x. exact (derT_affine (fun t => opt0 (snd (A t))) c b y0 _ Da0).
  - split; reflexivity.
  - exact I.
  - exact I.
  - split; reflexivity.
  - exact I.
Qed.

(* d/dx of  x |-> c2 * Dq (c1 x + b1) q0 *)
Lemma derM_affine12 (Dq : R -> mat3 Cops) c1 b1 c2 x0 l : derM Dq (c1 * x0 + b1) l ->
  derM (fun x => sM (RtoC c2) (Dq (c1 * x + b1))) x0 (sM (c12 c1 c2) l).
Proof.
  intros H. eapply derM_eq; [|exact (derM_mscale (RtoC c2) _ x0 _ (derM_affine Dq c1 b1 x0 l H))].
  apply mscale_swap.
Qed.
Lemma derT_affine12 (Dq : R -> triple Cops) c1 b1 c2 x0 l : derT Dq (c1 * x0 + b1) l ->
  derT (fun x => sT (RtoC c2) (Dq (c1 * x + b1))) x0 (sT (c12 c1 c2) l).
Proof.
  intros H. eapply derT_eq; [|exact (derT_tscale (RtoC c2) _ x0 _ (derT_affine Dq c1 b1 x0 l H))].
  apply tscale_swapC.
Qed.

Lemma item2_jet x0 y0 it : item2_ok x0 y0 it -> is_jet (R * R) DDC (jet2 x0 y0) inj4 (fam2_of it) (jet2_of x0 y0 it).
Proof.
  destruct it as [it|it|sw F Dp Dq Dpq p q c1 b1 c2 b2|sw A Dp Dq Dpq h p q c1 b1 c2 b2];
    cbn [item2_ok fam2_of jet2_of]; intros Hok.
  - exact (jetV_jet x0 y0 true it Hok).
  - exact (jetV_jet x0 y0 false it Hok).
  - cbv zeta in *. destruct Hok as (_ & Hp & Lq & Hpq). cbn [is_jet ojet]. split; [|exact I].
    apply (jet2M_zip x0 y0 (fun i => F (c1 * fst i + b1) (c2 * snd i + b2))
             (fun x => sM (RtoC c2) (Dq (c1 * x + b1) (c2 * y0 + b2)))); [reflexivity| | |reflexivity|].
    + exact (derM_affine (fun a => F a (c2 * y0 + b2)) c1 b1 x0 _ Hp).
    + apply (loc_imp x0 (fun x => derM (fun t => F (c1 * x + b1) t) (c2 * y0 + b2) (Dq (c1 * x + b1) (c2 * y0 + b2))));
        [|exact Lq].
      intros x Hx. exact (derM_affine (fun t => F (c1 * x + b1) t) c2 b2 y0 _ Hx).
    + exact (derM_affine12 (fun a => Dq a (c2 * y0 + b2)) c1 b1 c2 x0 _ Hpq).
  - cbv zeta in *. destruct Hok as (_ & (Hp & Hp0) & Lq & (Hpq & Hpq0) & _ & _). cbn [is_jet ojet]. split.
    + apply (jet2T_zip x0 y0 (fun i => fst (A (c1 * fst i + b1) (c2 * snd i + b2)))
               (fun x => sT (RtoC c2) (fst (Dq (c1 * x + b1) (c2 * y0 + b2))))); [reflexivity| | |reflexivity|].
      * exact (derT_affine (fun a => fst (A a (c2 * y0 + b2))) c1 b1 x0 _ Hp).
      * apply (loc_imp x0 (fun x => derA (fun t => A (c1 * x + b1) t) (c2 * y0 + b2) (Dq (c1 * x + b1) (c2 * y0 + b2))));
          [|exact Lq].
        intros x Hx. exact (derT_affine (fun t => fst (A (c1 * x + b1) t)) c2 b2 y0 _ (proj1 Hx)).
      * exact (derT_affine12 (fun a => fst (Dq a (c2 * y0 + b2))) c1 b1 c2 x0 _ Hpq).
    + destruct h; cbn [ojet]; [|exact I].
      apply (jet2T_zip x0 y0 (fun i => opt0 (snd (A (c1 * fst i + b1) (c2 * snd i + b2))))
               (fun x => sT (RtoC c2) (opt0 (snd (Dq (c1 * x + b1) (c2 * y0 + b2)))))); [reflexivity| | |reflexivity|].
      * exact (derT_affine (fun a => opt0 (snd (A a (c2 * y0 + b2)))) c1 b1 x0 _ Hp0).
      * apply (loc_imp x0 (fun x => derA (fun t => A (c1 * x + b1) t) (c2 * y0 + b2) (Dq (c1 * x + b1) (c2 * y0 + b2))));
          [|exact Lq].
        intros x Hx. exact (derT_affine (fun t => opt0 (snd (A (c1 * x + b1) t))) c2 b2 y0 _ (proj2 Hx)).
      * exact (derT_affine12 (fun a => opt0 (snd (Dq a (c2 * y0 + b2)))) c1 b1 c2 x0 _ Hpq0).
Qed.

(* ---- the hypotheses of the bookkeeping theorem ---- *)
Lemma mscale_z_C (c : C) : sM c zMC = zMC.
Proof. exact (mscale_mzero c). Qed.

Lemma itemV_pair (sel : bool) z0 u w bb it : u <> w -> item_ok z0 it ->
  pair_ok12C u w bb (jetV_of sel z0 it) (dopV_of z0 (if sel then u else w) u w it).
Proof.
  intros Hne.
  destruct it as [M|F D p c b|A|A D h p c b|d nm| | |q r|]; cbn [item_ok jetV_of dopV_of]; intros Hok.
  - assert (E : LMatrix M None = mlinC (LMatrix (zip4M M mz mz mz) None)) by (cbn [map_lin option_map]; now rewrite v4M_zip).
    rewrite E. apply (dop0_ok DDC Cops Claws e00 e10 e01 e11 u w bb (LMatrix (zip4M M mz mz mz) None)); try reflexivity;
      cbn [lmat lmat0]; now rewrite ?x4M_zip, ?y4M_zip, ?xy4M_zip.
  - set (u0 := c * z0 + b).
    set (l1 := LMatrix (slotM sel (F u0) (sM (RtoC c) (D u0))) None).
    assert (E : LMatrix (F u0) None = mlinC l1).
    { unfold l1. cbn [map_lin option_map]. destruct sel; cbn [slotM]; now rewrite v4M_zip. }
    rewrite E. change (OMatrix (slotM sel (F u0) (sM (RtoC c) (D u0))) None) with (lin_op DDC l1).
    destruct sel; cbn [slotM] in l1.
    + apply (dopV_ok_x DDC Cops Claws e00 e10 e01 e11 u w bb l1 p); try reflexivity; try exact Hne; unfold l1; cbn [lmat lmat0];
        rewrite ?x4M_zip, ?y4M_zip, ?xy4M_zip, ?x4M_mzero, ?y4M_mzero, ?xy4M_mzero, ?mscale_mzero; reflexivity.
    + apply (dopV_ok_y DDC Cops Claws e00 e10 e01 e11 u w bb l1 p); try reflexivity; try exact Hne; unfold l1; cbn [lmat lmat0];
        rewrite ?x4M_zip, ?y4M_zip, ?xy4M_zip, ?x4M_mzero, ?y4M_mzero, ?xy4M_mzero, ?mscale_mzero; reflexivity.
  - set (l1 := LScalar (zip4T (fst A) tz tz tz) (option_map (fun a => zip4T a tz tz tz) (snd A))).
    assert (E : LScalar (fst A) (snd A) = mlinC l1).
    { unfold l1. cbn [map_lin]. rewrite v4T_zip. destruct (snd A) as [a0|]; cbn [option_map]; [now rewrite v4T_zip|reflexivity]. }
    rewrite E. change (OScalar (zip4T (fst A) tz tz tz) (option_map (fun a => zip4T a tz tz tz) (snd A))) with (lin_op DDC l1).
    apply (dop0_ok DDC Cops Claws e00 e10 e01 e11 u w bb l1); try reflexivity; unfold l1; cbn [lmat];
      rewrite ?x4M_mdiag, ?y4M_mdiag, ?xy4M_mdiag; try reflexivity;
      destruct (snd A) as [a0|]; cbn [option_map lmat0]; rewrite ?x4M_mdiag, ?y4M_mdiag, ?xy4M_mdiag; reflexivity.
  - destruct Hok as (_ & Hh & Hd). set (u0 := c * z0 + b) in *.
    pose proof (Hh u0) as Hh0. unfold has0 in Hh0.
    set (ja := slotT sel (fst (A u0)) (sT (RtoC c) (fst (D u0)))).
    set (j0 := slotT sel (opt0 (snd (A u0))) (sT (RtoC c) (opt0 (snd (D u0))))).
    set (l1 := LScalar ja (if h then Some j0 else None)).
    assert (E : LScalar (fst (A u0)) (snd (A u0)) = mlinC l1).
    { symmetry. apply map_lin_scalar; [unfold ja; destruct sel; apply v4T_zip|].
      destruct h; destruct (snd (A u0)) as [a0|]; try discriminate; [|reflexivity].
      exists a0. split; [reflexivity|unfold j0; destruct sel; apply v4T_zip]. }
    rewrite E. change (OScalar ja (if h then Some j0 else None)) with (lin_op DDC l1).
    assert (Z1 : h = false -> mdiag (opt0 (snd (D u0))) = zMC) by (intros Hf; now rewrite (Hd Hf)).
    destruct sel; cbn [slotT] in ja, j0.
    + apply (dopV_ok_x DDC Cops Claws e00 e10 e01 e11 u w bb l1 p); try reflexivity; try exact Hne; unfold l1, ja; cbn [lmat];
        rewrite ?lmat0_opt, ?x4M_mdiag, ?y4M_mdiag, ?xy4M_mdiag, ?mdiag_tscale; try reflexivity;
        (destruct h; cbn [lmat0]; unfold j0;
         [rewrite ?x4M_mdiag, ?y4M_mdiag, ?xy4M_mdiag, ?mdiag_tscale; reflexivity
         |rewrite ?(Z1 eq_refl), ?mscale_mzero; reflexivity]).
    + apply (dopV_ok_y DDC Cops Claws e00 e10 e01 e11 u w bb l1 p); try reflexivity; try exact Hne; unfold l1, ja; cbn [lmat];
        rewrite ?lmat0_opt, ?x4M_mdiag, ?y4M_mdiag, ?xy4M_mdiag, ?mdiag_tscale; try reflexivity;
        (destruct h; cbn [lmat0]; unfold j0;
         [rewrite ?x4M_mdiag, ?y4M_mdiag, ?xy4M_mdiag, ?mdiag_tscale; reflexivity
         |rewrite ?(Z1 eq_refl), ?mscale_mzero; reflexivity]).
  - exact (dop0_shift_ok DDC Cops e00 e10 e01 e11 u w bb d nm).
  - reflexivity.
  - reflexivity.
  - exact (plain_pd_pair u w bb q r).
  - reflexivity.
Qed.

Lemma item2_pair x0 y0 u w bb it : u <> w -> item2_ok x0 y0 it ->
  pair_ok12C u w bb (jet2_of x0 y0 it) (dop2_of x0 y0 u w it).
Proof.
  intros Hne.
  destruct it as [it|it|sw F Dp Dq Dpq p q c1 b1 c2 b2|sw A Dp Dq Dpq h p q c1 b1 c2 b2];
    cbn [item2_ok jet2_of dop2_of]; intros Hok.
  - exact (itemV_pair true x0 u w bb it Hne Hok).
  - exact (itemV_pair false y0 u w bb it Hne Hok).
  - cbv zeta in *. destruct Hok as (Hpq & _). set (p0 := c1 * x0 + b1). set (q0 := c2 * y0 + b2).
    set (l1 := LMatrix (zip4M (F p0 q0) (sM (RtoC c1) (Dp p0 q0)) (sM (RtoC c2) (Dq p0 q0)) (sM (c12 c1 c2) (Dpq p0 q0))) None).
    assert (E : LMatrix (F p0 q0) None = mlinC l1) by (unfold l1; cbn [map_lin option_map]; now rewrite v4M_zip).
    rewrite E.
    change (OMatrix (zip4M (F p0 q0) (sM (RtoC c1) (Dp p0 q0)) (sM (RtoC c2) (Dq p0 q0)) (sM (c12 c1 c2) (Dpq p0 q0))) None)
      with (lin_op DDC l1).
    apply (dopXY_ok DDC Cops Claws e00 e10 e01 e11 sw u w bb l1 p q); try reflexivity; try exact Hne; try exact Hpq;
      unfold l1; cbn [lmat lmat0];
      rewrite ?x4M_zip, ?y4M_zip, ?xy4M_zip, ?x4M_mzero, ?y4M_mzero, ?xy4M_mzero, ?mscale_mzero; reflexivity.
  - cbv zeta in *. destruct Hok as (Hpq & _ & _ & _ & Hh & Hd). set (p0 := c1 * x0 + b1) in *. set (q0 := c2 * y0 + b2) in *.
    pose proof (Hh p0 q0) as Hh0. unfold has0 in Hh0.
    set (ja := zip4T (fst (A p0 q0)) (sT (RtoC c1) (fst (Dp p0 q0))) (sT (RtoC c2) (fst (Dq p0 q0)))
                     (sT (c12 c1 c2) (fst (Dpq p0 q0)))).
    set (j0 := zip4T (opt0 (snd (A p0 q0))) (sT (RtoC c1) (opt0 (snd (Dp p0 q0)))) (sT (RtoC c2) (opt0 (snd (Dq p0 q0))))
                     (sT (c12 c1 c2) (opt0 (snd (Dpq p0 q0))))).
    set (l1 := LScalar ja (if h then Some j0 else None)).
    assert (E : LScalar (fst (A p0 q0)) (snd (A p0 q0)) = mlinC l1).
    { symmetry. apply map_lin_scalar; [apply v4T_zip|].
      destruct h; destruct (snd (A p0 q0)) as [a0|]; try discriminate; [|reflexivity].
      exists a0. split; [reflexivity|apply v4T_zip]. }
    rewrite E. change (OScalar ja (if h then Some j0 else None)) with (lin_op DDC l1).
    assert (Z1 : h = false -> mdiag (opt0 (snd (Dp p0 q0))) = zMC) by (intros Hf; now rewrite (proj1 (Hd Hf))).
    assert (Z2 : h = false -> mdiag (opt0 (snd (Dq p0 q0))) = zMC) by (intros Hf; now rewrite (proj1 (proj2 (Hd Hf)))).
    assert (Z3 : h = false -> mdiag (opt0 (snd (Dpq p0 q0))) = zMC) by (intros Hf; now rewrite (proj2 (proj2 (Hd Hf)))).
    apply (dopXY_ok DDC Cops Claws e00 e10 e01 e11 sw u w bb l1 p q); try reflexivity; try exact Hne; try exact Hpq;
      unfold l1, ja; cbn [lmat];
      rewrite ?lmat0_opt, ?x4M_mdiag, ?y4M_mdiag, ?xy4M_mdiag, ?mdiag_tscale; try reflexivity;
      (destruct h; cbn [lmat0]; unfold j0;
       [rewrite ?x4M_mdiag, ?y4M_mdiag, ?xy4M_mdiag, ?mdiag_tscale; reflexivity
       |rewrite ?(Z1 eq_refl), ?(Z2 eq_refl), ?(Z3 eq_refl), ?mscale_mzero; reflexivity]).
Qed.

(* ================= the end-to-end statement, mixed entry ================= *)
Theorem real_sequence_hessian_mixed (x0 y0 : R) (u w : var) (items : list ritem2) (pd : C) :
  u <> w -> List.Forall (item2_ok x0 y0) items ->
  let ds := drun (map (dop2_of x0 y0 u w) items) (dinit (@init Cops pd)) in
  let sig := fun x y => f0 Cops (run (map (real2_of x y) items) (@init Cops pd)) in
  exists h j1 j2 : C,
    nth 1 (nth 0 (hessian ds [u; w]) []) k0 = h /\
    nth 0 (nth 1 (hessian ds [u; w]) []) k0 = h /\
    jacobian ds [u; w] = [j1; j2] /\
    derC (fun x => sig x y0) x0 j1 /\
    (exists sy : R -> C, locally x0 (fun x => derC (fun y => sig x y) y0 (sy x)) /\ sy x0 = j2 /\ derC sy x0 h) /\
    f0 Cops (d_main ds) = sig x0 y0.
Proof.
  intros Hne Hok ds sig.
  assert (J : Forall2 (is_jet (R * R) DDC (jet2 x0 y0) inj4) (map fam2_of items) (map (jet2_of x0 y0) items)).
  { clear ds sig. induction Hok as [|it its H _ IH]; cbn [map]; constructor; [exact (item2_jet x0 y0 it H)|exact IH]. }
  assert (P : Forall2 (pair_ok12C u w false) (map (jet2_of x0 y0) items) (map (dop2_of x0 y0 u w) items)).
  { clear ds sig J. induction Hok as [|it its H _ IH]; cbn [map]; constructor;
      [exact (item2_pair x0 y0 u w false it Hne H)|exact IH]. }
  pose proof (prog_ok12_static DDC Cops e00 e10 e01 e11 u w _ _ P (dinit (@init Cops pd))) as P'.
  destruct (hessian_is_mixed_derivative x0 y0 u w _ _ _ pd J P')
    as (h & j1 & j2 & E1 & E2 & E3 & Dx & (sy & Ly & Vy & Dxy) & F).
  assert (R1 : forall x y, frun (R * R) (map fam2_of items) (x, y) (@init Cops pd) =
                           run (map (real2_of x y) items) (@init Cops pd)).
  { intros x y. unfold frun. f_equal. rewrite map_map.
    clear - Hok. induction Hok as [|it its H _ IH]; cbn [map]; [reflexivity|].
    now rewrite IH, (inst_fam2 x0 y0 it x y H). }
  exists h, j1, j2. split; [exact E1|split; [exact E2|split; [exact E3|split; [|split]]]].
  - exact (derC_ext _ (fun x => sig x y0) x0 _ (fun t => f_equal (f0 Cops) (R1 t y0)) Dx).
  - exists sy. split; [|split; [exact Vy|exact Dxy]].
    apply (loc_imp x0 (fun x => derC (fun y => f0 Cops (frun (R * R) (map fam2_of items) (x, y) (@init Cops pd))) y0 (sy x)));
      [|exact Ly].
    intros x Hx. exact (derC_ext _ (fun y => sig x y) y0 _ (fun t => f_equal (f0 Cops) (R1 x t)) Hx).
  - unfold sig. rewrite <- R1. exact F.
Qed.
