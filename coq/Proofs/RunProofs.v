(* C12 — proofs about the simulate loop, acquisition times and modify()
   (model: Model/Run.v).  All statements are for every sequence (list). *)
From Coq Require Import List ZArith Lia Bool QArith Qcanon Ring.
From EPG Require Import Scalar State Ops ListLemmas Run.
Import ListNotations.

Lemma qc_pos_spec (d : Qc) : qc_pos d = true <-> (0 < d)%Qc.
Proof.
  unfold qc_pos, Qclt, Qlt. simpl. rewrite Z.ltb_lt. lia.
Qed.

Lemma qsum_app (l1 l2 : list Qc) : qsum (l1 ++ l2) = (qsum l1 + qsum l2)%Qc.
Proof. induction l1 as [|x t IH]; simpl; [ring | rewrite IH; ring]. Qed.

(* [lo] <= first element <= second <= ... *)
Fixpoint sorted_from (lo : Qc) (l : list Qc) : Prop :=
  match l with [] => True | x :: t => (lo <= x)%Qc /\ sorted_from x t end.

Lemma sorted_from_weaken lo lo' l : (lo' <= lo)%Qc -> sorted_from lo l -> sorted_from lo' l.
Proof.
  destruct l as [|x t]; simpl; auto. intros H [H1 H2]; split; auto.
  now apply Qcle_trans with lo.
Qed.

Lemma qc_le_add (t d : Qc) : (0 <= d)%Qc -> (t <= t + d)%Qc.
Proof.
  intros H. replace t with (t + 0)%Qc at 1 by ring.
  apply Qcplus_le_compat; [apply Qcle_refl | exact H].
Qed.

Local Arguments brun : simpl never.

Section RunProofs.
Variable S : ScalOps.
Hypothesis L : ScalLaws S.
Add Ring Kr : (k_ring S L).
Variable par : Type.
Variable mkT : par -> par -> op S.
Variable mkE : Qc -> par -> par -> par -> op S.
Variable mkP : Qc -> par -> op S.
Variable pscale : par -> par -> par.
Variable is_one : par -> bool.
Variable pbig pzero : par.

Notation item := (item S par).
Notation tree := (tree S par).
Notation probe := (probe S).
Notation den := (den S par mkT mkE mkP).
Notation sim := (sim S par mkT mkE mkP).
Notation simulate_model := (simulate_model S par mkT mkE mkP).
Notation att_item := (att_item S par pscale is_one).
Notation evol_of := (evol_of S par pbig pzero).
Notation modifier := (modifier S par pscale is_one pbig pzero).
Notation modify_go := (modify_go S par pscale is_one pbig pzero).
Notation modify_model := (modify_model S par pscale is_one pbig pzero).
Notation insert_E := (insert_E S par pscale is_one pbig pzero).
Notation lookup := (lookup S par).
Notation has_params := (has_params par).

(* ------------------------------------------------------------------ specification vocabulary *)
Definition count_probes (seq : list item) : nat := length (filter is_probe seq).

(* the j-th probe occurrence (j = 0, 1, ...) *)
Fixpoint nth_probe (seq : list item) (j : nat) : option probe :=
  match seq with
  | [] => None
  | IOp _ _ _ :: t => nth_probe t j
  | IProbe _ p _ :: t => match j with O => Some p | Datatypes.S j' => nth_probe t j' end
  end.

(* the operators that precede the j-th probe occurrence *)
Fixpoint ops_before (seq : list item) (j : nat) : list (op S) :=
  match seq with
  | [] => []
  | IOp _ x _ :: t => den x :: ops_before t j
  | IProbe _ _ _ :: t => match j with O => [] | Datatypes.S j' => ops_before t j' end
  end.

(* sum of the durations of all items up to and including the j-th probe occurrence *)
Fixpoint dur_upto (seq : list item) (j : nat) : Qc :=
  match seq with
  | [] => Q2Qc 0
  | IOp _ _ d :: t => d + dur_upto t j
  | IProbe _ _ d :: t => match j with O => d | Datatypes.S j' => d + dur_upto t j' end
  end.

(* all operators of a sequence, all durations *)
Fixpoint ops_of (seq : list item) : list (op S) :=
  match seq with
  | [] => []
  | IOp _ x _ :: t => den x :: ops_of t
  | IProbe _ _ _ :: t => ops_of t
  end.
Definition total_dur (seq : list item) : Qc := qsum (map dur seq).

(* what is recorded for probe p (in-sequence) under override entry pb on batch b *)
Definition recorded (p : probe) (pb : option probe) (b : bstate S) : value S :=
  ppost p (pacq (match pb with Some q => q | None => p end) b).

(* ------------------------------------------------------------------ batch = independent systems *)
Lemma brun_cons o ops (b : bstate S) : brun (o :: ops) b = brun ops (bapply o b).
Proof. reflexivity. Qed.

Lemma brun_app ops1 ops2 (b : bstate S) : brun (ops1 ++ ops2) b = brun ops2 (brun ops1 b).
Proof. unfold brun. apply fold_left_app. Qed.

Lemma brun_map ops (b : bstate S) : brun ops b = map (run ops) b.
Proof.
  revert b. induction ops as [|o t IH]; intros b.
  - simpl. now rewrite map_id.
  - rewrite brun_cons, IH. unfold bapply. rewrite map_map. reflexivity.
Qed.

(* ------------------------------------------------------------------ count, order, snapshot *)
Lemma sim_lengths seq ov b tic :
  length (fst (sim seq ov b tic)) = count_probes seq /\
  length (snd (sim seq ov b tic)) = count_probes seq.
Proof.
  revert b tic. induction seq as [|i t IH]; intros b tic; simpl; auto.
  destruct i as [n x d|n p d]; simpl.
  - apply IH.
  - destruct (IH b (tic + d)%Qc) as [H1 H2]. unfold count_probes in *. simpl. now rewrite H1, H2.
Qed.

Lemma sim_row seq : forall ov b tic j p,
  nth_probe seq j = Some p ->
  nth j (fst (sim seq ov b tic)) [] = row_of p ov (brun (ops_before seq j) b).
Proof.
  induction seq as [|i t IH]; intros ov b tic j p H; simpl in *; [discriminate|].
  destruct i as [n x d|n q d]; simpl.
  - exact (IH ov (bapply (den x) b) (tic + d)%Qc j p H).
  - destruct j as [|j'].
    + inversion H; subst. reflexivity.
    + now apply IH.
Qed.

Lemma nth_probe_some seq j : (j < count_probes seq)%nat -> exists p, nth_probe seq j = Some p.
Proof.
  revert j. induction seq as [|i t IH]; intros j H; unfold count_probes in *; simpl in *; [lia|].
  destruct i as [n x d|n q d]; simpl in *.
  - now apply IH.
  - destruct j as [|j']; [eauto | apply IH; lia].
Qed.

(* composition: running seq1 ++ seq2 records what seq1 records, then what seq2 records from the
   state and the clock seq1 leaves behind (snapshot semantics: later items change nothing recorded) *)
Lemma sim_app seq1 seq2 : forall ov b tic,
  sim (seq1 ++ seq2) ov b tic =
  (fst (sim seq1 ov b tic) ++ fst (sim seq2 ov (brun (ops_of seq1) b) (tic + total_dur seq1)%Qc),
   snd (sim seq1 ov b tic) ++ snd (sim seq2 ov (brun (ops_of seq1) b) (tic + total_dur seq1)%Qc)).
Proof.
  induction seq1 as [|i t IH]; intros ov b tic.
  - simpl. unfold total_dur; simpl. replace (tic + Q2Qc 0)%Qc with tic by ring.
    change (brun [] b) with b. now destruct (sim seq2 ov b tic).
  - destruct i as [n x d|n q d]; simpl.
    + rewrite IH. rewrite brun_cons. unfold total_dur; simpl.
      now replace (tic + d + qsum (map dur t))%Qc with (tic + (d + qsum (map dur t)))%Qc by ring.
    + rewrite IH. simpl. unfold total_dur; simpl.
      now replace (tic + d + qsum (map dur t))%Qc with (tic + (d + qsum (map dur t)))%Qc by ring.
Qed.

Lemma snapshot_prefix seq rest ov b tic :
  firstn (count_probes seq) (fst (sim (seq ++ rest) ov b tic)) = fst (sim seq ov b tic).
Proof.
  rewrite sim_app. simpl.
  destruct (sim_lengths seq ov b tic) as [H _]. rewrite <- H.
  rewrite firstn_app, Nat.sub_diag, firstn_all. simpl. apply app_nil_r.
Qed.

(* ------------------------------------------------------------------ times *)
Lemma sim_times_adc (seq : list item) : forall ov b tic, snd (sim seq ov b tic) = adc_times_from seq tic.
Proof.
  induction seq as [|i t IH]; intros ov b tic; simpl; auto.
  destruct i as [n x d|n q d]; simpl; [apply IH | now rewrite IH].
Qed.

Lemma adc_time_nth seq : forall tic j p,
  nth_probe seq j = Some p ->
  nth j (adc_times_from seq tic) (Q2Qc 0) = (tic + dur_upto seq j)%Qc.
Proof.
  induction seq as [|i t IH]; intros tic j p H; simpl in *; [discriminate|].
  destruct i as [n x d|n q d]; simpl.
  - rewrite (IH _ _ _ H). ring.
  - destruct j as [|j']; simpl; [reflexivity|]. rewrite (IH _ _ _ H). ring.
Qed.

Lemma adc_times_sorted (seq : list item) : forall tic,
  (forall i, In i seq -> (0 <= dur i)%Qc) -> sorted_from tic (adc_times_from seq tic).
Proof.
  induction seq as [|i t IH]; intros tic H; simpl; auto.
  assert (Hi : (0 <= dur i)%Qc) by (apply H; now left).
  assert (Ht : forall i', In i' t -> (0 <= dur i')%Qc) by (intros; apply H; now right).
  destruct (is_probe i).
  - simpl. split; [now apply qc_le_add | now apply IH].
  - apply sorted_from_weaken with (tic + dur i)%Qc; [now apply qc_le_add | now apply IH].
Qed.

(* ------------------------------------------------------------------ override *)
Lemma sim_times_override seq ov ov' b b' tic : snd (sim seq ov b tic) = snd (sim seq ov' b' tic).
Proof. now rewrite !sim_times_adc. Qed.

Lemma row_of_override (p : probe) (ov : overrides S) (b : bstate S) :
  ov <> [] -> row_of p ov b = map (fun pb => recorded p pb b) ov.
Proof. destruct ov; [congruence | reflexivity]. Qed.

Lemma row_of_plain (p : probe) (b : bstate S) : row_of p [] b = [recorded p None b].
Proof. reflexivity. Qed.

(* ------------------------------------------------------------------ phase, weights, reduce *)
Lemma bcast2_scalar_r (f : S -> S -> S) (v : value S) (c : S) :
  bcast2 f v [c] = map (fun u => f u c) v.
Proof. destruct v as [|a [|a' t]]; reflexivity. Qed.

Lemma bcast2_same_len (f : S -> S -> S) (x y : value S) :
  length x = length y -> bcast2 f x y = map (fun uv => f (fst uv) (snd uv)) (combine x y).
Proof.
  destruct x as [|a [|a' t]]; destruct y as [|c [|c' r]]; simpl; intros H; try discriminate; reflexivity.
Qed.

Lemma adc_phase_scalar (p pb : probe) (ph : S) (b : bstate S) :
  pphasor p = Some [ph] ->
  acquire pb (ppost p) b = map (fun v => (v * ph)%K) (pacq pb b).
Proof. intros H. unfold acquire, ppost. rewrite H. apply bcast2_scalar_r. Qed.

Lemma adc_phase_none (p pb : probe) (b : bstate S) :
  pphasor p = None -> acquire pb (ppost p) b = pacq pb b.
Proof. intros H. unfold acquire, ppost. now rewrite H. Qed.

(* a unit-modulus phasor changes the phase only: |recorded|^2 = |quantity|^2 *)
Lemma phasor_modulus (ph v : S) :
  (ph * kconj ph)%K = k1 -> ((v * ph) * kconj (v * ph))%K = (v * kconj v)%K.
Proof.
  intros H. rewrite (conj_mul S L).
  replace (v * ph * (kconj v * kconj ph))%K with ((v * kconj v) * (ph * kconj ph))%K by ring.
  rewrite H. ring.
Qed.

Definition wsum (x w : value S) : S := ksum (map (fun uv => (fst uv * snd uv)%K) (combine x w)).

Lemma pacq_weights_reduce (p : probe) (w : value S) (b : bstate S) :
  pweights p = Some w -> length w = length (qarr (pq p) b) -> preduce p <> RFalse ->
  pacq p b = [wsum (qarr (pq p) b) w].
Proof.
  intros Hw Hl Hr. unfold pacq, reduces. rewrite Hw.
  rewrite bcast2_same_len by (now symmetry).
  destruct (preduce p); try congruence; reflexivity.
Qed.

Lemma pacq_weights_noreduce (p : probe) (w : value S) (b : bstate S) :
  pweights p = Some w -> length w = length (qarr (pq p) b) -> preduce p = RFalse ->
  pacq p b = map (fun uv => (fst uv * snd uv)%K) (combine (qarr (pq p) b) w).
Proof.
  intros Hw Hl Hr. unfold pacq, reduces. rewrite Hw, Hr.
  now rewrite bcast2_same_len by (now symmetry).
Qed.

Lemma ksum_scale (l : value S) (c : S) : ksum (map (fun u => (u * c)%K) l) = (ksum l * c)%K.
Proof. induction l as [|x t IH]; simpl; [ring | rewrite IH; ring]. Qed.

Lemma pacq_scalar_weight (p : probe) (c : S) (b : bstate S) :
  pweights p = Some [c] -> preduce p <> RFalse ->
  pacq p b = [(ksum (qarr (pq p) b) * c)%K].
Proof.
  intros Hw Hr. unfold pacq, reduces. rewrite Hw, bcast2_scalar_r, ksum_scale.
  destruct (preduce p); try congruence; reflexivity.
Qed.

Lemma pacq_plain (p : probe) (b : bstate S) :
  pweights p = None -> reduces p = false -> pacq p b = qarr (pq p) b.
Proof. intros Hw Hr. unfold pacq. now rewrite Hw, Hr. Qed.

Lemma pacq_sum (p : probe) (b : bstate S) :
  pweights p = None -> reduces p = true -> pacq p b = [ksum (qarr (pq p) b)].
Proof. intros Hw Hr. unfold pacq. now rewrite Hw, Hr. Qed.

(* ------------------------------------------------------------------ trees, MultiOperator durations *)
Fixpoint tree_ind' (Pr : tree -> Prop) (HL : forall i, Pr (Leaf i))
    (HN : forall m l, List.Forall Pr l -> Pr (Node m l)) (t : tree) : Pr t :=
  match t with
  | Leaf i => HL i
  | Node m l => HN m l ((fix go (l : list tree) : List.Forall Pr l :=
                           match l with
                           | [] => List.Forall_nil Pr
                           | x :: r => List.Forall_cons x (tree_ind' Pr HL HN x) (go r)
                           end) l)
  end.

Lemma tree_dur_flat (t : tree) : tree_dur t = total_dur (flat t).
Proof.
  induction t as [i|m l IH] using tree_ind'; unfold total_dur; simpl.
  - ring.
  - induction l as [|x r IHr]; simpl; auto.
    inversion IH; subst. rewrite map_app, qsum_app, IHr by assumption.
    rewrite H1. reflexivity.
Qed.

Lemma flat_seq_leaves (s : list item) : flat_seq (map (@Leaf S par) s) = s.
Proof. unfold flat_seq. induction s as [|i t IH]; simpl; auto. now f_equal. Qed.

Lemma flat_seq_app (l1 l2 : list tree) : flat_seq (l1 ++ l2) = flat_seq l1 ++ flat_seq l2.
Proof. apply flat_map_app. Qed.

(* ------------------------------------------------------------------ modify *)
Definition ids_consistent (seq : list item) : Prop :=
  forall i j, In i seq -> In j seq -> item_id i = item_id j -> i = j.

Lemma att_item_dur P i : dur (att_item P i) = dur i.
Proof.
  destruct i as [n x d|n p d]; simpl; auto.
  destruct x; simpl; auto. destruct (matt P); auto. destruct (is_one p); auto.
Qed.

Lemma att_item_probe P i : is_probe (att_item P i) = is_probe i.
Proof.
  destruct i as [n x d|n p d]; simpl; auto.
  destruct x; simpl; auto. destruct (matt P); auto. destruct (is_one p); auto.
Qed.

Definition piece (P : mparams par) (i : item) : list item :=
  att_item P i ::
    (if qc_pos (dur i) then
       match evol_of P (dur i) with Some e => [IOp (eid (item_id i)) e (Q2Qc 0)] | None => [] end
     else []).

Local Arguments piece : simpl never.

Lemma modifier_flat P i : flat (modifier P i) = piece P i.
Proof.
  unfold modifier, piece. rewrite att_item_dur.
  destruct (qc_pos (dur i)); auto. destruct (evol_of P (dur i)); reflexivity.
Qed.

Lemma insert_E_pieces seq P : insert_E seq P = flat_map (piece P) seq.
Proof. reflexivity. Qed.

Lemma modify_go_flat P (whole : list item) (Hc : ids_consistent whole) :
  forall seq memo,
    (forall i, In i seq -> In i whole) ->
    (forall n tr, lookup n memo = Some tr -> exists i', In i' whole /\ item_id i' = n /\ tr = modifier P i') ->
    flat_seq (modify_go P seq memo) = flat_map (piece P) seq.
Proof.
  induction seq as [|i t IH]; intros memo Hin Hmemo; [reflexivity|].
  assert (Hi : In i whole) by (apply Hin; now left).
  assert (Ht : forall i', In i' t -> In i' whole) by (intros; apply Hin; now right).
  change (flat_map (piece P) (i :: t)) with (piece P i ++ flat_map (piece P) t).
  cbn [Run.modify_go].
  destruct (lookup (item_id i) memo) as [tr|] eqn:E.
  - destruct (Hmemo _ _ E) as [i' [Hi' [Hid ->]]].
    assert (i' = i) as -> by (apply Hc; auto).
    unfold flat_seq in *. cbn [flat_map]. rewrite modifier_flat. f_equal. now apply IH.
  - unfold flat_seq in *. cbn [flat_map]. rewrite modifier_flat. f_equal. apply IH; auto.
    intros n tr. cbn [Run.lookup]. destruct (Nat.eqb_spec n (item_id i)) as [->|Hn].
    + intros H; inversion H; subst. exists i; auto.
    + apply Hmemo.
Qed.

Lemma no_params_piece P i : has_params P = false -> piece P i = [i].
Proof.
  unfold has_params, piece, att_item, evol_of. destruct P as [a b g k]; simpl.
  destruct a, b, g, k; try discriminate. intros _.
  destruct (qc_pos (dur i)); destruct i as [n x d|n p d]; try destruct x; reflexivity.
Qed.

Lemma flat_map_singleton {A} (l : list A) : flat_map (fun x => [x]) l = l.
Proof. induction l; simpl; congruence. Qed.

Lemma modify_flat (l : list tree) P kw :
  ids_consistent (flat_seq l) -> (kw = false -> has_params P = false) ->
  flat_seq (modify_model l P kw) = insert_E (flat_seq l) P.
Proof.
  intros Hc Hkw. unfold modify_model. rewrite insert_E_pieces.
  destruct kw.
  - apply (modify_go_flat P (flat_seq l) Hc); auto. intros n tr H; discriminate.
  - rewrite (flat_map_ext (piece P) (fun x => [x])) by (intros; apply no_params_piece; auto).
    now rewrite flat_map_singleton.
Qed.

Lemma modify_equiv (l : list tree) P kw ov b :
  ids_consistent (flat_seq l) -> (kw = false -> has_params P = false) ->
  simulate_model (modify_model l P kw) ov b = simulate_model (map (@Leaf S par) (insert_E (flat_seq l) P)) ov b.
Proof.
  intros Hc Hkw. unfold Run.simulate_model. now rewrite (modify_flat l P kw Hc Hkw), flat_seq_leaves.
Qed.

Lemma insert_E_times seq P : forall tim, adc_times_from (insert_E seq P) tim = adc_times_from seq tim.
Proof.
  rewrite insert_E_pieces.
  induction seq as [|i t IH]; intros tim; simpl; auto.
  rewrite att_item_dur, att_item_probe.
  assert (Hrest : forall tim', adc_times_from
            ((if qc_pos (dur i) then
                match evol_of P (dur i) with Some e => [IOp (eid (item_id i)) e (Q2Qc 0)] | None => [] end
              else []) ++ flat_map (piece P) t) tim' = adc_times_from t tim').
  { intros tim'. destruct (qc_pos (dur i)); [destruct (evol_of P (dur i))|]; simpl; auto.
    replace (tim' + Q2Qc 0)%Qc with tim' by ring. apply IH. }
  destruct (is_probe i); now rewrite Hrest.
Qed.

Lemma modify_times (l : list tree) P kw :
  ids_consistent (flat_seq l) -> (kw = false -> has_params P = false) ->
  get_adc_times (modify_model l P kw) = get_adc_times l.
Proof.
  intros Hc Hkw. unfold get_adc_times, adc_times. rewrite (modify_flat l P kw Hc Hkw). apply insert_E_times.
Qed.

(* each element modify() returns keeps the duration of the operator it replaces *)
Lemma modifier_dur P i : tree_dur (modifier P i) = dur i.
Proof. rewrite tree_dur_flat, modifier_flat. unfold total_dur, piece. simpl. rewrite att_item_dur.
  destruct (qc_pos (dur i)); [destruct (evol_of P (dur i))|]; simpl; ring.
Qed.

(* the operators the modified sequence applies: the original ones (att-scaled), each one of positive
   duration followed by its evolution *)
Lemma insert_E_probes seq P : count_probes (insert_E seq P) = count_probes seq.
Proof.
  rewrite insert_E_pieces. unfold count_probes.
  induction seq as [|i t IH]; [reflexivity|].
  change (flat_map (piece P) (i :: t)) with (piece P i ++ flat_map (piece P) t).
  rewrite filter_app, app_length, IH. unfold piece. simpl. rewrite att_item_probe.
  destruct (qc_pos (dur i)); [destruct (evol_of P (dur i))|]; simpl; destruct (is_probe i); simpl; lia.
Qed.

(* ------------------------------------------------------------------ the theorems of C12 *)
Definition state_at (seq : list item) (j : nat) (b : bstate S) : bstate S :=
  map (run (ops_before seq j)) b.

Theorem probe_count_order (seq : list item) ov b tic :
  length (fst (sim seq ov b tic)) = count_probes seq /\
  (forall j, (j < count_probes seq)%nat -> exists p, nth_probe seq j = Some p /\
     nth j (fst (sim seq ov b tic)) [] = row_of p ov (state_at seq j b)) /\
  (forall rest, firstn (count_probes seq) (fst (sim (seq ++ rest) ov b tic)) = fst (sim seq ov b tic)).
Proof.
  split; [apply sim_lengths|]. split.
  - intros j Hj. destruct (nth_probe_some seq j Hj) as [p Hp]. exists p. split; auto.
    unfold state_at. rewrite <- brun_map. now apply sim_row.
  - intros rest. apply snapshot_prefix.
Qed.

Theorem times_cumsum (seq : list item) ov b tic :
  snd (sim seq ov b tic) = adc_times_from seq tic /\
  length (adc_times_from seq tic) = count_probes seq /\
  (forall j, (j < count_probes seq)%nat ->
     nth j (adc_times_from seq tic) (Q2Qc 0) = (tic + dur_upto seq j)%Qc) /\
  ((forall i, In i seq -> (0 <= dur i)%Qc) -> sorted_from tic (adc_times_from seq tic)).
Proof.
  split; [apply sim_times_adc|]. split.
  - rewrite <- (sim_times_adc seq [] [] tic). apply sim_lengths.
  - split.
    + intros j Hj. destruct (nth_probe_some seq j Hj) as [p Hp]. now apply adc_time_nth with p.
    + apply adc_times_sorted.
Qed.

Theorem override_keeps_when_and_post (seq : list item) ov b tic :
  ov <> [] ->
  snd (sim seq ov b tic) = snd (sim seq [] b tic) /\
  length (fst (sim seq ov b tic)) = length (fst (sim seq [] b tic)) /\
  (forall j p, nth_probe seq j = Some p ->
     nth j (fst (sim seq ov b tic)) [] = map (fun pb => recorded p pb (state_at seq j b)) ov /\
     nth j (fst (sim seq [] b tic)) [] = [recorded p None (state_at seq j b)]).
Proof.
  intros Hov. split; [apply sim_times_override|]. split.
  - destruct (sim_lengths seq ov b tic) as [-> _]. now destruct (sim_lengths seq [] b tic) as [-> _].
  - intros j p Hp. unfold state_at. rewrite <- brun_map.
    rewrite (sim_row seq ov b tic j p Hp), (sim_row seq [] b tic j p Hp).
    split; [now apply row_of_override | apply row_of_plain].
Qed.

Theorem adc_phase (p pb : probe) (ph : S) (b : bstate S) :
  pphasor p = Some [ph] ->
  acquire pb (ppost p) b = map (fun v => (v * ph)%K) (pacq pb b) /\
  ((ph * kconj ph)%K = k1 ->
   List.Forall2 (fun r v => (r * kconj r)%K = (v * kconj v)%K) (acquire pb (ppost p) b) (pacq pb b)).
Proof.
  intros H. split; [now apply adc_phase_scalar|].
  intros Hu. rewrite (adc_phase_scalar p pb ph b H).
  induction (pacq pb b) as [|v t IH]; simpl; constructor; auto. now apply phasor_modulus.
Qed.

(* un-batched, plain ADC with phase: the recorded number is phasor * quantity of the state at that point *)
Lemma qarr_scalar (q : quantity S) (b : bstate S) :
  (forall fs, q <> QTuple fs) -> qarr q b = map (qeval q) b.
Proof. destruct q; intros H; try reflexivity. now elim (H fs). Qed.

(* a tuple-valued probe records its components one after the other, each on the state at that point *)
Lemma qarr_tuple (fs : list (sm S -> list S)) (b : bstate S) :
  qarr (QTuple fs) b = flat_map (fun f => flat_map f b) fs.
Proof. reflexivity. Qed.

Theorem probe_value_unbatched (seq : list item) (s : sm S) tic j p ph :
  nth_probe seq j = Some p -> (forall fs, pq p <> QTuple fs) ->
  pweights p = None -> reduces p = false -> pphasor p = Some [ph] ->
  nth j (fst (sim seq [] [s] tic)) [] = [[(qeval (pq p) (run (ops_before seq j) s) * ph)%K]].
Proof.
  intros Hp Hq Hw Hr Hph.
  destruct (override_keeps_when_and_post seq [None] [s] tic) as [_ [_ H]]; [discriminate|].
  destruct (H j p Hp) as [_ ->]. unfold recorded, state_at. simpl.
  rewrite (pacq_plain p _ Hw Hr), (qarr_scalar _ _ Hq). unfold ppost. rewrite Hph. reflexivity.
Qed.

Theorem weights_reduce (p : probe) (w : value S) (b : bstate S) :
  pweights p = Some w ->
  (length w = length (qarr (pq p) b) -> preduce p <> RFalse -> pacq p b = [wsum (qarr (pq p) b) w]) /\
  (length w = length (qarr (pq p) b) -> preduce p = RFalse ->
     pacq p b = map (fun uv => (fst uv * snd uv)%K) (combine (qarr (pq p) b) w)) /\
  (forall c, w = [c] -> preduce p <> RFalse -> pacq p b = [(ksum (qarr (pq p) b) * c)%K]).
Proof.
  intros Hw. split; [|split].
  - now apply pacq_weights_reduce.
  - now apply pacq_weights_noreduce.
  - intros c -> Hr. now apply pacq_scalar_weight.
Qed.

Theorem reduce_only (p : probe) (b : bstate S) :
  pweights p = None ->
  pacq p b = if reduces p then [ksum (qarr (pq p) b)] else qarr (pq p) b.
Proof. intros Hw. unfold pacq. now rewrite Hw. Qed.

(* plain tuple probe Probe("(c1, ..., ck)") at occurrence j, no override: the recorded entry is the
   concatenation of the components evaluated on the state reached by the prefix — not a later state *)
Theorem tuple_probe_value (seq : list item) (b : bstate S) tic j p fs :
  nth_probe seq j = Some p -> pq p = QTuple fs ->
  pweights p = None -> reduces p = false -> pphasor p = None ->
  nth j (fst (sim seq [] b tic)) [] = [flat_map (fun f => flat_map f (state_at seq j b)) fs].
Proof.
  intros Hp Hq Hw Hr Hph.
  destruct (override_keeps_when_and_post seq [None] b tic) as [_ [_ H]]; [discriminate|].
  destruct (H j p Hp) as [_ ->]. unfold recorded.
  rewrite (pacq_plain p _ Hw Hr), Hq. unfold ppost. now rewrite Hph.
Qed.

End RunProofs.
