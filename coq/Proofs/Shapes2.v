(* C03: the hypotheses [pair_ok12] of Proofs/DiffPoint2.v discharged for the declaration shapes that
   Sequence.build produces for operators whose parameters are AFFINE in the variables
   (order1 = {var: {param: coeff}}, order2 = {Pair(u,w): {}} -- a dict, so auto_cross_derivatives = False --
   on every operator one of whose parameters depends on u or w; nothing on the others):
     dop0   constant operator, nothing declared
     plain_*  SPOILER / RESET / Wait / PD(pd, reset): no differentiable parameter, DPlain
     dopD   one variable v driving one parameter p, pair (v,v)                     (diagonal entry)
     dopV   one variable vv (one of u, w) driving one parameter p, pair (u,w)     (mixed entry)
     dopXY  u driving p and w driving q <> p of the SAME operator, pair (u,w)     (mixed entry)
            (flag sw: which of the two entries comes first in the order1 dictionary)
   d_d2arrs / d_params2 list exactly the parameter pairs that parameters_order2 reaches for the declared pair
   (the code consults no other entry of the class's second-derivative table).
   Each lemma reduces pair_ok12 to three matrix identities: dv1 / dv2 / dv12 of the arrays over K are the
   scaled first / second derivative arrays over L. *)
From Coq Require Import List ZArith Lia Bool Arith Ring.
From EPG Require Import Scalar State Ops ListLemmas Views Diff DiffLemmas DiffExact DiffPoint DiffOrder2
  DiffExact2Lemmas DiffExact2 DiffPoint2.
Import ListNotations.

Section Shapes.
Variable S1 S2 : ScalOps.
Hypothesis L2 : ScalLaws S2.
Add Ring Ksh : (k_ring S2 L2).
Variable ev dv1 dv2 dv12 : S1 -> S2.
Notation zM := (mzero S2).
Notation mlin := (map_lin S1 S2 ev).
Notation d1M := (dvM S1 S2 dv1).
Notation d2M := (dvM S1 S2 dv2).
Notation d12M := (dvM S1 S2 dv12).
Notation pair_ok12 := (pair_ok12 S1 S2 ev dv1 dv2 dv12).

(* ---- matrix algebra ---- *)
Lemma mat3_ext2 (a b : mat3 S2) : row0 a = row0 b -> row1 a = row1 b -> row2 a = row2 b -> a = b.
Proof. destruct a, b; simpl; intros; subst; reflexivity. Qed.
Lemma madd_z_l (A : mat3 S2) : madd zM A = A.
Proof. apply mat3_ext2; apply (triple_ext S2); unfold madd, mzero, tadd, t0; simpl; ring. Qed.
Lemma mscale_z (c : S2) : mscale c zM = zM.
Proof. apply mat3_ext2; apply (triple_ext S2); unfold mscale, mzero, tscale, t0; simpl; ring. Qed.
Lemma lact_mscale (c : S2) M M0 (x e : triple S2) :
  lact S2 (mscale c M) (mscale c M0) x e = tscale c (lact S2 M M0 x e).
Proof. unfold lact, mscale, mv, dot, tadd, tscale; simpl. apply (triple_ext S2); simpl; ring. Qed.
Lemma lact_eq2 (A A0 B B0 : mat3 S2) (x e : triple S2) : A = B -> A0 = B0 -> lact S2 A A0 x e = lact S2 B B0 x e.
Proof. now intros -> ->. Qed.
Lemma tscale_tscale (a b : S2) (x : triple S2) : tscale a (tscale b x) = tscale (a * b)%K x.
Proof. apply (triple_ext S2); simpl; ring. Qed.

Lemma Pair_diag v : Pair v v = (v, v).
Proof. apply Pair_le. lia. Qed.
Lemma pair_eqb_refl P : pair_eqb P P = true.
Proof. exact (eqb_refl pair_eqb pair_eqb_spec P). Qed.

(* ---- first order ---- *)
Lemma coef1_single dv (o : dop S2) v l1 p c l :
  entries S2 o v = [(p, c)] -> alookup Nat.eqb p (d_darrs S2 o) = Some l ->
  dvM S1 S2 dv (lmat S1 l1) = mscale c (lmat S2 l) -> dvM S1 S2 dv (lmat0 S1 l1) = mscale c (lmat0 S2 l) ->
  coef_ok2 S1 S2 dv o v l1.
Proof.
  intros He Hl A B x e. unfold eff. rewrite He. cbn [fold_left]. unfold eff_step. cbn [fst snd].
  rewrite Hl. cbn [fst snd]. rewrite A, B, !madd_z_l. reflexivity.
Qed.
Lemma coef1_none dv (o : dop S2) v l1 :
  entries S2 o v = [] -> dvM S1 S2 dv (lmat S1 l1) = zM -> dvM S1 S2 dv (lmat0 S1 l1) = zM ->
  coef_ok2 S1 S2 dv o v l1.
Proof. intros He A B x e. unfold eff. rewrite He, A, B. reflexivity. Qed.

(* ---- second order ---- *)
Lemma ctact_nil (o : dop S2) P (x e : triple S2) : d_order2 S2 o = [(P, [])] -> ctact S2 o P x e = t0.
Proof.
  intros H. unfold ctact, sel. rewrite H. cbn [flat_map fst snd]. now destruct (pair_eqb P P).
Qed.
Lemma cuact_one (o : dop S2) v1 v2 (x e : triple S2) : d_order2 S2 o = [(Pair v1 v2, [])] ->
  cuact S2 o (Pair v1 v2) x e = pair_act S2 o (fst (Pair v1 v2)) (snd (Pair v1 v2)) x e.
Proof.
  intros H. unfold cuact. rewrite H. cbn [map fst snd tsum fold_right].
  rewrite Pair_idem, pair_eqb_refl. apply (tadd_t0_r S2 L2).
Qed.
Lemma pair_act_11 (o : dop S2) a b p c q d (x e : triple S2) :
  order1_get S2 o a = [(p, c)] -> order1_get S2 o b = [(q, d)] ->
  pair_act S2 o a b x e = tscale (c * d)%K (d2act S2 o (Pair p q) x e).
Proof.
  intros Ha Hb. unfold pair_act. rewrite Ha, Hb. cbn [flat_map map app fst snd tsum fold_right].
  apply (tadd_t0_r S2 L2).
Qed.
Lemma pair_act_nil_l (o : dop S2) a b (x e : triple S2) : order1_get S2 o a = [] -> pair_act S2 o a b x e = t0.
Proof. intros Ha. unfold pair_act. rewrite Ha. reflexivity. Qed.
Lemma pair_act_nil_r (o : dop S2) a b p c (x e : triple S2) :
  order1_get S2 o a = [(p, c)] -> order1_get S2 o b = [] -> pair_act S2 o a b x e = t0.
Proof. intros Ha Hb. unfold pair_act. rewrite Ha, Hb. reflexivity. Qed.
Lemma d2act_hit (o : dop S2) P l (x e : triple S2) :
  existsb (pair_eqb P) (d_params2 S2 o) = true -> alookup pair_eqb P (d_d2arrs S2 o) = Some l ->
  d2act S2 o P x e = lact S2 (lmat S2 l) (lmat0 S2 l) x e.
Proof. intros H1 H2. unfold d2act. now rewrite H1, H2. Qed.

(* =============== dop0: a constant operator, nothing declared =============== *)
Definition dop0 (l : lin S2) : dop S2 := mkDop l [] [] [] [] true [].

Lemma dop0_ok v1 v2 b (l1 : lin S1) : is_shift S1 l1 = false ->
  d1M (lmat S1 l1) = zM -> d1M (lmat0 S1 l1) = zM ->
  d2M (lmat S1 l1) = zM -> d2M (lmat0 S1 l1) = zM ->
  d12M (lmat S1 l1) = zM -> d12M (lmat0 S1 l1) = zM ->
  pair_ok12 v1 v2 b (lin_op S1 l1) (DOp (dop0 (mlin l1))).
Proof.
  intros Hl A1 B1 A2 B2 A12 B12. cbn [DiffPoint2.pair_ok12]. exists l1.
  split; [reflexivity|split; [reflexivity|split]].
  - intros p l H. discriminate H.
  - rewrite Hl. split; [|split; [|split; [|split; [|split]]]].
    + now apply coef1_none.
    + now apply coef1_none.
    + constructor.
    + intros pq l H. discriminate H.
    + intros x e. rewrite A12, B12. unfold ctact, cuact, sel. cbn [dop0 d_order2 flat_map map tsum fold_right].
      rewrite lsum_nil, (lact_mzero S2 L2). symmetry. apply (tadd_t0 S2 L2).
    + left. split; reflexivity.
Qed.

(* a shift: no derivative arrays, nothing declared *)
Lemma dop0_shift_ok v1 v2 b d nm : pair_ok12 v1 v2 b (OShift d nm) (DOp (dop0 (LShift d nm))).
Proof.
  cbn [DiffPoint2.pair_ok12]. exists (LShift d nm).
  split; [reflexivity|split; [reflexivity|split]].
  - intros p l H. discriminate H.
  - cbn [is_shift]. split; reflexivity.
Qed.

(* =============== operators without differentiable parameter, applied through Operator.__call__ ===============
   SPOILER, RESET, Wait: the instruction over L is the same operator; PD(pd, reset): the density over L is the
   value of the density over K, which is a constant (all its derivative parts vanish) *)
Lemma plain_spoil_ok v1 v2 b : pair_ok12 v1 v2 b (@OSpoil S1) (DPlain (@OSpoil S2)).
Proof. reflexivity. Qed.
Lemma plain_reset_ok v1 v2 b : pair_ok12 v1 v2 b (@OReset S1) (DPlain (@OReset S2)).
Proof. reflexivity. Qed.
Lemma plain_wait_ok v1 v2 b : pair_ok12 v1 v2 b (@OWait S1) (DPlain (@OWait S2)).
Proof. reflexivity. Qed.
Lemma plain_pd_ok v1 v2 b (p1 : S1) (r : bool) : dv1 p1 = k0 -> dv2 p1 = k0 -> dv12 p1 = k0 ->
  pair_ok12 v1 v2 b (@OPD S1 p1 r) (DPlain (@OPD S2 (ev p1) r)).
Proof.
  intros H1 H2 H12. cbn [DiffPoint2.pair_ok12]. exists p1.
  split; [reflexivity|split; [reflexivity|split; [exact H1|split; [exact H2|exact H12]]]].
Qed.

(* =============== dopD: variable v drives parameter p; pair (v, v) =============== *)
Definition dopD (l : lin S2) (p : param) (dl d2l : lin S2) (v : var) (c : S2) : dop S2 :=
  mkDop l [(p, dl)] [(Pair p p, d2l)] [(v, [(p, c)])] [(Pair v v, [])] false [Pair p p].

Lemma dopD_ok v b (l1 : lin S1) p dl d2l c : is_shift S1 l1 = false ->
  is_shift S2 dl = false -> is_shift S2 d2l = false ->
  d1M (lmat S1 l1) = mscale c (lmat S2 dl) -> d1M (lmat0 S1 l1) = mscale c (lmat0 S2 dl) ->
  d2M (lmat S1 l1) = mscale c (lmat S2 dl) -> d2M (lmat0 S1 l1) = mscale c (lmat0 S2 dl) ->
  d12M (lmat S1 l1) = mscale (c * c)%K (lmat S2 d2l) -> d12M (lmat0 S1 l1) = mscale (c * c)%K (lmat0 S2 d2l) ->
  pair_ok12 v v b (lin_op S1 l1) (DOp (dopD (mlin l1) p dl d2l v c)).
Proof.
  intros Hl Hdl Hd2l A1 B1 A2 B2 A12 B12. cbn [DiffPoint2.pair_ok12]. exists l1.
  assert (Een : entries S2 (dopD (mlin l1) p dl d2l v c) v = [(p, c)]).
  { unfold entries. cbn [dopD d_order1 flat_map fst snd]. now rewrite Nat.eqb_refl. }
  assert (Eg : order1_get S2 (dopD (mlin l1) p dl d2l v c) v = [(p, c)]).
  { unfold order1_get. cbn [dopD d_order1 alookup]. now rewrite Nat.eqb_refl. }
  assert (Ed : alookup Nat.eqb p (d_darrs S2 (dopD (mlin l1) p dl d2l v c)) = Some dl).
  { cbn [dopD d_darrs alookup]. now rewrite Nat.eqb_refl. }
  split; [reflexivity|split; [reflexivity|split]].
  - intros q l H. cbn [dopD d_darrs alookup] in H. destruct (Nat.eqb q p); [|discriminate H]. now injection H as <-.
  - rewrite Hl. split; [|split; [|split; [|split; [|split]]]].
    + exact (coef1_single dv1 _ v l1 p c dl Een Ed A1 B1).
    + exact (coef1_single dv2 _ v l1 p c dl Een Ed A2 B2).
    + unfold wf1. cbn [dopD d_order1 map fst]. constructor; [intros []|constructor].
    + intros pq l H. cbn [dopD d_d2arrs alookup] in H. destruct (pair_eqb pq (Pair p p)); [|discriminate H].
      now injection H as <-.
    + intros x e. set (o := dopD (mlin l1) p dl d2l v c) in *.
      rewrite (ctact_nil o (Pair v v) x e eq_refl), (cuact_one o v v x e eq_refl).
      rewrite Pair_diag. cbn [fst snd]. rewrite (pair_act_11 o v v p c p c x e Eg Eg).
      rewrite (d2act_hit o (Pair p p) d2l x e); unfold o.
      * rewrite A12, B12, lact_mscale. symmetry. apply (tadd_t0_l S2 L2).
      * cbn [dopD d_params2 existsb]. now rewrite pair_eqb_refl.
      * cbn [dopD d_d2arrs alookup]. now rewrite pair_eqb_refl.
    + right. right. cbn [dopD d_order2 map fst]. now left.
Qed.

(* =============== dopV: one of the variables of the pair (u, w) drives parameter p =============== *)
Definition dopV (l : lin S2) (p : param) (dl : lin S2) (vv u w : var) (c : S2) : dop S2 :=
  mkDop l [(p, dl)] [] [(vv, [(p, c)])] [(Pair u w, [])] false [].

Lemma dopV_common (l : lin S2) p dl vv u w c :
  entries S2 (dopV l p dl vv u w c) vv = [(p, c)] /\
  order1_get S2 (dopV l p dl vv u w c) vv = [(p, c)] /\
  alookup Nat.eqb p (d_darrs S2 (dopV l p dl vv u w c)) = Some dl /\
  (forall v', v' <> vv -> entries S2 (dopV l p dl vv u w c) v' = [] /\ order1_get S2 (dopV l p dl vv u w c) v' = []).
Proof.
  split; [|split; [|split]].
  - unfold entries. cbn [dopV d_order1 flat_map fst snd]. now rewrite Nat.eqb_refl.
  - unfold order1_get. cbn [dopV d_order1 alookup]. now rewrite Nat.eqb_refl.
  - cbn [dopV d_darrs alookup]. now rewrite Nat.eqb_refl.
  - intros v' Hne. unfold entries, order1_get. cbn [dopV d_order1 flat_map alookup fst snd].
    destruct (Nat.eqb_spec v' vv); [contradiction|]. split; reflexivity.
Qed.

(* the operator carries the FIRST variable of the pair *)
Lemma dopV_ok_x u w b (l1 : lin S1) p dl c : u <> w -> is_shift S1 l1 = false -> is_shift S2 dl = false ->
  d1M (lmat S1 l1) = mscale c (lmat S2 dl) -> d1M (lmat0 S1 l1) = mscale c (lmat0 S2 dl) ->
  d2M (lmat S1 l1) = zM -> d2M (lmat0 S1 l1) = zM ->
  d12M (lmat S1 l1) = zM -> d12M (lmat0 S1 l1) = zM ->
  pair_ok12 u w b (lin_op S1 l1) (DOp (dopV (mlin l1) p dl u u w c)).
Proof.
  intros Hne Hl Hdl A1 B1 A2 B2 A12 B12. cbn [DiffPoint2.pair_ok12]. exists l1.
  destruct (dopV_common (mlin l1) p dl u u w c) as (Een & Eg & Ed & Eo).
  destruct (Eo w (fun E => Hne (eq_sym E))) as [Eew Egw].
  split; [reflexivity|split; [reflexivity|split]].
  - intros q l H. cbn [dopV d_darrs alookup] in H. destruct (Nat.eqb q p); [|discriminate H]. now injection H as <-.
  - rewrite Hl. split; [|split; [|split; [|split; [|split]]]].
    + exact (coef1_single dv1 _ u l1 p c dl Een Ed A1 B1).
    + exact (coef1_none dv2 _ w l1 Eew A2 B2).
    + unfold wf1. cbn [dopV d_order1 map fst]. constructor; [intros []|constructor].
    + intros pq l H. discriminate H.
    + intros x e. set (o := dopV (mlin l1) p dl u u w c) in *.
      rewrite (ctact_nil o (Pair u w) x e eq_refl), (cuact_one o u w x e eq_refl).
      rewrite A12, B12, (lact_mzero S2 L2).
      destruct (Pair_cases u w) as [E|E]; rewrite E; cbn [fst snd].
      * rewrite (pair_act_nil_r o u w p c x e Eg Egw). symmetry. apply (tadd_t0 S2 L2).
      * rewrite (pair_act_nil_l o w u x e Egw). symmetry. apply (tadd_t0 S2 L2).
    + right. right. cbn [dopV d_order2 map fst]. now left.
Qed.

(* the operator carries the SECOND variable of the pair *)
Lemma dopV_ok_y u w b (l1 : lin S1) p dl c : u <> w -> is_shift S1 l1 = false -> is_shift S2 dl = false ->
  d1M (lmat S1 l1) = zM -> d1M (lmat0 S1 l1) = zM ->
  d2M (lmat S1 l1) = mscale c (lmat S2 dl) -> d2M (lmat0 S1 l1) = mscale c (lmat0 S2 dl) ->
  d12M (lmat S1 l1) = zM -> d12M (lmat0 S1 l1) = zM ->
  pair_ok12 u w b (lin_op S1 l1) (DOp (dopV (mlin l1) p dl w u w c)).
Proof.
  intros Hne Hl Hdl A1 B1 A2 B2 A12 B12. cbn [DiffPoint2.pair_ok12]. exists l1.
  destruct (dopV_common (mlin l1) p dl w u w c) as (Een & Eg & Ed & Eo).
  destruct (Eo u Hne) as [Eeu Egu].
  split; [reflexivity|split; [reflexivity|split]].
  - intros q l H. cbn [dopV d_darrs alookup] in H. destruct (Nat.eqb q p); [|discriminate H]. now injection H as <-.
  - rewrite Hl. split; [|split; [|split; [|split; [|split]]]].
    + exact (coef1_none dv1 _ u l1 Eeu A1 B1).
    + exact (coef1_single dv2 _ w l1 p c dl Een Ed A2 B2).
    + unfold wf1. cbn [dopV d_order1 map fst]. constructor; [intros []|constructor].
    + intros pq l H. discriminate H.
    + intros x e. set (o := dopV (mlin l1) p dl w u w c) in *.
      rewrite (ctact_nil o (Pair u w) x e eq_refl), (cuact_one o u w x e eq_refl).
      rewrite A12, B12, (lact_mzero S2 L2).
      destruct (Pair_cases u w) as [E|E]; rewrite E; cbn [fst snd].
      * rewrite (pair_act_nil_l o u w x e Egu). symmetry. apply (tadd_t0 S2 L2).
      * rewrite (pair_act_nil_r o w u p c x e Eg Egu). symmetry. apply (tadd_t0 S2 L2).
    + right. right. cbn [dopV d_order2 map fst]. now left.
Qed.

(* =============== dopXY: u drives p and w drives q of the same operator; pair (u, w) =============== *)
(* sw: the entry of w comes first in the order1 dictionary (insertion order = order of the operator's
   PARAMETERS) *)
Definition dopXY (sw : bool) (l : lin S2) (p q : param) (dlp dlq d2l : lin S2) (u w : var) (c1 c2 : S2) : dop S2 :=
  mkDop l [(p, dlp); (q, dlq)] [(Pair p q, d2l)]
        (if sw then [(w, [(q, c2)]); (u, [(p, c1)])] else [(u, [(p, c1)]); (w, [(q, c2)])])
        [(Pair u w, [])] false [Pair p q].

Lemma dopXY_ok sw u w b (l1 : lin S1) p q dlp dlq d2l c1 c2 : u <> w -> p <> q -> is_shift S1 l1 = false ->
  is_shift S2 dlp = false -> is_shift S2 dlq = false -> is_shift S2 d2l = false ->
  d1M (lmat S1 l1) = mscale c1 (lmat S2 dlp) -> d1M (lmat0 S1 l1) = mscale c1 (lmat0 S2 dlp) ->
  d2M (lmat S1 l1) = mscale c2 (lmat S2 dlq) -> d2M (lmat0 S1 l1) = mscale c2 (lmat0 S2 dlq) ->
  d12M (lmat S1 l1) = mscale (c1 * c2)%K (lmat S2 d2l) -> d12M (lmat0 S1 l1) = mscale (c1 * c2)%K (lmat0 S2 d2l) ->
  pair_ok12 u w b (lin_op S1 l1) (DOp (dopXY sw (mlin l1) p q dlp dlq d2l u w c1 c2)).
Proof.
  intros Hne Hpq Hl Hdlp Hdlq Hd2l A1 B1 A2 B2 A12 B12. cbn [DiffPoint2.pair_ok12]. exists l1.
  set (o := dopXY sw (mlin l1) p q dlp dlq d2l u w c1 c2).
  assert (Nwu : Nat.eqb w u = false) by (apply Nat.eqb_neq; congruence).
  assert (Nuw : Nat.eqb u w = false) by (now apply Nat.eqb_neq).
  assert (Nqp : Nat.eqb q p = false) by (apply Nat.eqb_neq; congruence).
  assert (Eeu : entries S2 o u = [(p, c1)]).
  { unfold entries, o. destruct sw; cbn [dopXY d_order1 flat_map fst snd app]; now rewrite Nat.eqb_refl, Nuw. }
  assert (Eew : entries S2 o w = [(q, c2)]).
  { unfold entries, o. destruct sw; cbn [dopXY d_order1 flat_map fst snd app]; now rewrite Nat.eqb_refl, Nwu. }
  assert (Egu : order1_get S2 o u = [(p, c1)]).
  { unfold order1_get, o. destruct sw; cbn [dopXY d_order1 alookup]; now rewrite ?Nuw, Nat.eqb_refl. }
  assert (Egw : order1_get S2 o w = [(q, c2)]).
  { unfold order1_get, o. destruct sw; cbn [dopXY d_order1 alookup]; now rewrite ?Nwu, Nat.eqb_refl. }
  assert (Edp : alookup Nat.eqb p (d_darrs S2 o) = Some dlp).
  { unfold o. cbn [dopXY d_darrs alookup]. now rewrite Nat.eqb_refl. }
  assert (Edq : alookup Nat.eqb q (d_darrs S2 o) = Some dlq).
  { unfold o. cbn [dopXY d_darrs alookup]. now rewrite Nqp, Nat.eqb_refl. }
  assert (Hit : forall x e, d2act S2 o (Pair p q) x e = lact S2 (lmat S2 d2l) (lmat0 S2 d2l) x e).
  { intros x e. apply d2act_hit; unfold o.
    - cbn [dopXY d_params2 existsb]. now rewrite pair_eqb_refl.
    - cbn [dopXY d_d2arrs alookup]. now rewrite pair_eqb_refl. }
  split; [reflexivity|split; [reflexivity|split]].
  - intros r l H. unfold o in H. cbn [dopXY d_darrs alookup] in H.
    destruct (Nat.eqb r p); [now injection H as <-|]. destruct (Nat.eqb r q); [|discriminate H]. now injection H as <-.
  - rewrite Hl. split; [|split; [|split; [|split; [|split]]]].
    + exact (coef1_single dv1 o u l1 p c1 dlp Eeu Edp A1 B1).
    + exact (coef1_single dv2 o w l1 q c2 dlq Eew Edq A2 B2).
    + unfold wf1, o. destruct sw; cbn [dopXY d_order1 map fst]; (constructor; [|constructor; [intros []|constructor]]).
      * intros [E|[]]. apply Hne. now symmetry.
      * intros [E|[]]. now apply Hne.
    + intros pq l H. unfold o in H. cbn [dopXY d_d2arrs alookup] in H. destruct (pair_eqb pq (Pair p q)); [|discriminate H].
      now injection H as <-.
    + intros x e. rewrite (ctact_nil o (Pair u w) x e eq_refl), (cuact_one o u w x e eq_refl).
      rewrite A12, B12, lact_mscale.
      destruct (Pair_cases u w) as [E|E]; rewrite E; cbn [fst snd].
      * rewrite (pair_act_11 o u w p c1 q c2 x e Egu Egw), Hit. symmetry. apply (tadd_t0_l S2 L2).
      * rewrite (pair_act_11 o w u q c2 p c1 x e Egw Egu), (Pair_comm q p), Hit.
        rewrite (tadd_t0_l S2 L2). f_equal. ring.
    + right. right. unfold o. cbn [dopXY d_order2 map fst]. now left.
Qed.

End Shapes.
