(* C04: proofs about the n-D / gridded shift model (Model/ShiftND.v). *)
From Coq Require Import List ZArith Lia Bool Arith Ring Permutation QArith.
From EPG Require Import Scalar State ListLemmas ShiftND.
Import ListNotations.

(* ------------------------------------------------------------------ list utilities *)
Lemma nth_mapseq {B} n (f : nat -> B) i d : (i < n)%nat -> nth i (map f (seq 0 n)) d = f i.
Proof. exact (nth_tab n f i d). Qed.

Lemma list_as_tab {B} (d : B) (l : list B) : l = map (fun i => nth i l d) (seq 0 (length l)).
Proof.
  apply (nth_ext _ _ d d).
  - now rewrite map_length, seq_length.
  - intros i Hi. symmetry. apply (nth_mapseq (length l) (fun i => nth i l d) i d Hi).
Qed.

Lemma nth_skipn' {B} (d : B) m : forall (l : list B) i, nth i (skipn m l) d = nth (m + i) l d.
Proof.
  induction m as [|m IH]; intros l i; simpl; auto.
  destruct l; simpl; auto. now destruct i.
Qed.

Lemma firstn_tab {B} (d : B) n (l : list B) : (n <= length l)%nat ->
  firstn n l = map (fun i => nth i l d) (seq 0 n).
Proof.
  intros H. apply (nth_ext _ _ d d).
  - rewrite firstn_length, map_length, seq_length. lia.
  - intros i Hi. rewrite firstn_length in Hi.
    rewrite (nth_mapseq n (fun i => nth i l d) i d) by lia.
    rewrite <- (firstn_skipn n l) at 2. rewrite app_nth1; auto. rewrite firstn_length. lia.
Qed.

Lemma firstn_skipn_tab {B} (d : B) m n (l : list B) : (m + n <= length l)%nat ->
  firstn n (skipn m l) = map (fun i => nth (m + i) l d) (seq 0 n).
Proof.
  intros H. rewrite (firstn_tab d) by (rewrite skipn_length; lia).
  apply map_ext. intros i. apply nth_skipn'.
Qed.

Lemma combine_map_seq {B C} (f : nat -> B) (g : nat -> C) (s : list nat) :
  combine (map f s) (map g s) = map (fun i => (f i, g i)) s.
Proof. induction s; simpl; congruence. Qed.

Lemma combine_tab_r {B C} (d : B) (u : list B) (f : nat -> C) :
  combine u (tab (length u) f) = map (fun j => (nth j u d, f j)) (seq 0 (length u)).
Proof.
  rewrite (list_as_tab d u) at 1. unfold tab. apply combine_map_seq.
Qed.

Lemma combine_as_tab {B C D} (d1 : B) (d2 : C) (c : C -> D) (l1 : list B) (l2 : list C) n :
  length l1 = n -> length l2 = n ->
  combine l1 (map c l2) = map (fun i => (nth i l1 d1, c (nth i l2 d2))) (seq 0 n).
Proof.
  intros H1 H2. apply (nth_ext _ _ (d1, c d2) (d1, c d2)).
  - rewrite combine_length, !map_length, seq_length. lia.
  - intros i Hi. rewrite combine_length, map_length in Hi.
    rewrite combine_nth by (rewrite map_length; lia). rewrite map_nth.
    now rewrite (nth_mapseq n (fun i => (nth i l1 d1, c (nth i l2 d2))) i) by lia.
Qed.

Lemma Forall2_combine_in {B C} (P : B -> C -> Prop) l1 l2 :
  Forall2 P l1 l2 -> forall x y, In (x, y) (combine l1 l2) -> P x y.
Proof.
  induction 1; simpl; intros a b Hin; [contradiction|].
  destruct Hin as [E|Hin]; [inversion E; subst; auto|eauto].
Qed.

Lemma Forall2_map_l {B B' C} (f : B -> B') (P : B' -> C -> Prop) l1 l2 :
  Forall2 P (map f l1) l2 <-> Forall2 (fun x y => P (f x) y) l1 l2.
Proof.
  split.
  - revert l2. induction l1; intros l2 H; inversion H; subst; constructor; auto.
  - induction 1; simpl; constructor; auto.
Qed.

Lemma Forall2_length {B C} (P : B -> C -> Prop) l1 l2 : Forall2 P l1 l2 -> length l1 = length l2.
Proof. induction 1; simpl; congruence. Qed.

Lemma map_fst_combine {B C} (l1 : list B) : forall (l2 : list C),
  length l1 = length l2 -> map fst (combine l1 l2) = l1.
Proof.
  induction l1 as [|a l1 IH]; intros [|c l2] Hl; simpl in *; try discriminate; auto.
  f_equal. apply IH. lia.
Qed.

Lemma opairs_some {B} (idx : list nat) (vs : list B) : opairs (map Some idx) vs = combine idx vs.
Proof. revert vs. induction idx; intros [|v vs]; simpl; auto. now rewrite IHidx. Qed.

Lemma lastmatch_in {B} (ps : list (nat * B)) j x : lastmatch ps j = Some x -> In (j, x) ps.
Proof.
  induction ps as [|[a v] t IH]; simpl; [discriminate|].
  destruct (lastmatch t j) eqn:E.
  - intros H; inversion H; subst. right; auto.
  - destruct (Nat.eqb_spec a j); [|discriminate]. intros H; inversion H; subst. now left.
Qed.

Lemma lastmatch_nodup {B} (ps : list (nat * B)) j x :
  NoDup (map fst ps) -> In (j, x) ps -> lastmatch ps j = Some x.
Proof.
  induction ps as [|[a v] t IH]; simpl; [contradiction|].
  intros Hnd Hin. inversion Hnd as [|? ? Hni Hnd']; subst.
  destruct Hin as [E|Hin].
  - inversion E; subst.
    destruct (lastmatch t j) eqn:El.
    + exfalso. apply Hni. apply lastmatch_in in El. now apply (in_map fst) in El.
    + now rewrite Nat.eqb_refl.
  - now rewrite (IH Hnd' Hin).
Qed.

(* ------------------------------------------------------------------ scatter sums *)
Section ScatterProofs.
Variable S : ScalOps.
Hypothesis L : ScalLaws S.
Add Ring Kr : (k_ring S L).

Lemma ksum_app (a b : list S) : ksum (a ++ b) = (ksum a + ksum b)%K.
Proof. induction a; simpl; [ring|rewrite IHa; ring]. Qed.

Lemma ksum_map_add {B} (f g : B -> S) l :
  ksum (map (fun x => (f x + g x)%K) l) = (ksum (map f l) + ksum (map g l))%K.
Proof. induction l; simpl; [ring|rewrite IHl; ring]. Qed.

Lemma ksum_map_scale {B} (c : S) (f : B -> S) l :
  ksum (map (fun x => (c * f x)%K) l) = (c * ksum (map f l))%K.
Proof. induction l; simpl; [ring|rewrite IHl; ring]. Qed.

Lemma ksum_map_zero {B} (f : B -> S) l : (forall x, In x l -> f x = k0) -> ksum (map f l) = k0.
Proof.
  induction l; simpl; intros H; auto. rewrite H by auto. rewrite IHl by auto. ring.
Qed.

Lemma ksum_delta (f : nat -> S) a n : forall s, (s <= a < s + n)%nat ->
  ksum (map (fun j => if Nat.eqb a j then f j else k0) (seq s n)) = f a.
Proof.
  induction n as [|n IH]; intros s H; [lia|]. simpl.
  destruct (Nat.eqb_spec a s) as [->|Hne].
  - rewrite ksum_map_zero; [ring|].
    intros x Hx. apply in_seq in Hx. destruct (Nat.eqb_spec s x); auto; lia.
  - rewrite IH by lia. ring.
Qed.

(* sum_j g(j) * add_at(idx, v)[j] = sum_i g(idx_i) * v_i  when every target is inside the array *)
Lemma addat_swap (g : nat -> S) (ps : list (nat * S)) n :
  (forall p, In p ps -> (fst p < n)%nat) ->
  ksum (map (fun j => (g j * addat_fn ps j)%K) (seq 0 n)) = ksum (map (fun p => (g (fst p) * snd p)%K) ps).
Proof.
  induction ps as [|[a v] t IH]; intros H.
  - unfold addat_fn; simpl. apply ksum_map_zero. intros; ring.
  - transitivity (ksum (map (fun j => ((if Nat.eqb a j then (g j * v)%K else k0) + g j * addat_fn t j)%K) (seq 0 n))).
    { f_equal. apply map_ext. intros j. unfold addat_fn; simpl. destruct (Nat.eqb a j); ring. }
    rewrite ksum_map_add, IH by (intros p Hp; apply H; now right).
    rewrite (ksum_delta (fun j => (g j * v)%K) a n 0).
    + reflexivity.
    + specialize (H (a, v) (or_introl eq_refl)). simpl in H. lia.
Qed.

Lemma addat_notin (ps : list (nat * S)) j : ~ In j (map fst ps) -> addat_fn ps j = k0.
Proof.
  intros H. unfold addat_fn. apply ksum_map_zero. intros [a v] Hin; simpl.
  destruct (Nat.eqb_spec a j); auto. subst. exfalso. apply H. now apply (in_map fst) in Hin.
Qed.

(* injective targets: assignment = accumulation *)
Lemma assign_addat (ps : list (nat * S)) j : NoDup (map fst ps) -> assign_fn ps j = addat_fn ps j.
Proof.
  unfold assign_fn. induction ps as [|[a v] t IH]; intros Hnd; simpl.
  - reflexivity.
  - inversion Hnd as [|? ? Hni Hnd']; subst. specialize (IH Hnd').
    unfold addat_fn; simpl. fold (addat_fn t j).
    destruct (lastmatch t j) eqn:El.
    + rewrite <- IH. destruct (Nat.eqb_spec a j); [|ring].
      subst. exfalso. apply Hni. apply lastmatch_in in El. now apply (in_map fst) in El.
    + rewrite <- IH. destruct (Nat.eqb a j); ring.
Qed.

Lemma assign_swap (g : nat -> S) (ps : list (nat * S)) n :
  NoDup (map fst ps) -> (forall p, In p ps -> (fst p < n)%nat) ->
  ksum (map (fun j => (g j * assign_fn ps j)%K) (seq 0 n)) = ksum (map (fun p => (g (fst p) * snd p)%K) ps).
Proof.
  intros Hnd H. rewrite <- (addat_swap g ps n H). f_equal. apply map_ext. intros j.
  now rewrite assign_addat.
Qed.

(* function view of an injective assignment *)
Lemma assign_at (ps : list (nat * S)) j x : NoDup (map fst ps) -> In (j, x) ps -> assign_fn ps j = x.
Proof. intros Hnd Hin. unfold assign_fn. now rewrite (lastmatch_nodup ps j x Hnd Hin). Qed.
Lemma assign_none (ps : list (nat * S)) j : ~ In j (map fst ps) -> assign_fn ps j = k0.
Proof.
  intros H. unfold assign_fn. destruct (lastmatch ps j) eqn:E; auto.
  exfalso. apply H. apply lastmatch_in in E. now apply (in_map fst) in E.
Qed.

End ScatterProofs.

(* ------------------------------------------------------------------ unique_1d *)
Section UniqueProofs.
Variable A : Type.
Variable le : A -> A -> bool.
Variable eqb : A -> A -> bool.
Variable dflt : A.
Hypothesis eqb_spec : forall a b, eqb a b = true <-> a = b.
Hypothesis le_total : forall a b, le a b = true \/ le b a = true.
Hypothesis le_trans : forall a b c, le a b = true -> le b c = true -> le a c = true.
Hypothesis le_antisym : forall a b, le a b = true -> le b a = true -> a = b.

Definition lt (a b : A) : Prop := le a b = true /\ a <> b.
Fixpoint sortedP (l : list A) : Prop :=
  match l with [] => True | x :: t => (forall y, In y t -> le x y = true) /\ sortedP t end.
Fixpoint ssorted (l : list A) : Prop :=
  match l with [] => True | x :: t => (forall y, In y t -> lt x y) /\ ssorted t end.

Fixpoint insA (x : A) (l : list A) : list A :=
  match l with [] => [x] | a :: t => if le x a then x :: l else a :: insA x t end.

Lemma map_ins vals i l :
  map (fun i => nth i vals dflt) (ins le dflt vals i l) = insA (nth i vals dflt) (map (fun i => nth i vals dflt) l).
Proof. induction l as [|j t IH]; simpl; auto. destruct (le _ _); simpl; congruence. Qed.

Lemma ins_perm vals i l : Permutation (ins le dflt vals i l) (i :: l).
Proof.
  induction l as [|j t IH]; simpl; auto.
  destruct (le _ _); auto. rewrite IH. apply perm_swap.
Qed.

Lemma argsort_perm vals : Permutation (argsort le dflt vals) (seq 0 (length vals)).
Proof.
  unfold argsort. induction (seq 0 (length vals)) as [|i s IH]; simpl; auto.
  rewrite ins_perm. now constructor.
Qed.

Lemma insA_in x l y : In y (insA x l) <-> y = x \/ In y l.
Proof.
  induction l as [|a t IH]; simpl.
  - intuition.
  - destruct (le x a); simpl; rewrite ?IH; intuition.
Qed.

Lemma insA_sorted x l : sortedP l -> sortedP (insA x l).
Proof.
  induction l as [|a t IH]; simpl; intros H.
  - split; [intros y []|exact I].
  - destruct H as [Ha Ht]. destruct (le x a) eqn:E; simpl.
    + split; [|split; auto]. intros y [<-|Hy]; auto. apply (le_trans x a y); auto.
    + split; [|auto]. intros y Hy. apply insA_in in Hy. destruct Hy as [->|Hy]; auto.
      destruct (le_total a x); auto. destruct (le_total x a); congruence.
Qed.

Lemma argsort_sorted vals : sortedP (map (fun i => nth i vals dflt) (argsort le dflt vals)).
Proof.
  unfold argsort. induction (seq 0 (length vals)) as [|i s IH]; simpl; auto.
  rewrite map_ins. now apply insA_sorted.
Qed.

(* the fused mask/cumsum/select pass: every row of [l] is found in the unique list at its cumsum index *)
Lemma dd_spec l : forall p c u cs pre, dd eqb p c l = (u, cs) ->
  length pre = c -> (1 <= c)%nat -> nth (c - 1) pre dflt = p ->
  Forall2 (fun x k => (k < length (pre ++ u))%nat /\ nth k (pre ++ u) dflt = x) l cs.
Proof.
  induction l as [|x t IH]; intros p c u cs pre H Hl Hc Hp; simpl in H.
  - inversion H; constructor.
  - destruct (eqb p x) eqn:E.
    + destruct (dd eqb p c t) as [u' cs'] eqn:Ed. inversion H; subst u cs.
      constructor.
      * apply eqb_spec in E. subst x. rewrite app_length. split; [lia|].
        rewrite app_nth1 by lia. auto.
      * apply (IH p c u' cs' pre Ed Hl Hc Hp).
    + destruct (dd eqb x (Datatypes.S c) t) as [u' cs'] eqn:Ed. inversion H; subst u cs.
      constructor.
      * rewrite app_length; simpl. split; [lia|].
        rewrite app_nth2 by lia. now replace (c - length pre)%nat with 0%nat by lia.
      * replace (pre ++ x :: u') with ((pre ++ [x]) ++ u') by (now rewrite <- app_assoc).
        apply (IH x (Datatypes.S c) u' cs' (pre ++ [x]) Ed).
        -- rewrite app_length; simpl; lia.
        -- lia.
        -- rewrite app_nth2 by lia. now replace (Datatypes.S c - 1 - length pre)%nat with 0%nat by lia.
Qed.

Lemma dedup_spec l u cs : dedup eqb l = (u, cs) ->
  Forall2 (fun x k => (k < length u)%nat /\ nth k u dflt = x) l cs.
Proof.
  destruct l as [|x t]; simpl; intros H.
  - inversion H; constructor.
  - destruct (dd eqb x 1 t) as [u' cs'] eqn:Ed. inversion H; subst u cs.
    constructor.
    + simpl. split; [lia|auto].
    + apply (dd_spec t x 1%nat u' cs' [x] Ed); auto.
Qed.

Lemma dd_sorted l : forall p c u cs, dd eqb p c l = (u, cs) -> sortedP (p :: l) ->
  (forall y, In y u -> lt p y /\ In y l) /\ ssorted u.
Proof.
  induction l as [|x t IH]; intros p c u cs H Hs; simpl in H.
  - inversion H; subst. split; [intros y []|exact I].
  - destruct Hs as [Hp [Hx Ht]].
    destruct (eqb p x) eqn:E.
    + destruct (dd eqb p c t) as [u' cs'] eqn:Ed. inversion H; subst u cs.
      destruct (IH p c u' cs' Ed) as [H1 H2].
      { split; auto. intros y Hy. apply Hp. now right. }
      split; auto. intros y Hy. destruct (H1 y Hy). split; auto. now right.
    + destruct (dd eqb x (Datatypes.S c) t) as [u' cs'] eqn:Ed. inversion H; subst u cs.
      destruct (IH x (Datatypes.S c) u' cs' Ed) as [H1 H2].
      { split; auto. }
      assert (Hpx : lt p x).
      { split; [apply Hp; now left|]. intros ->. assert (eqb x x = true) by now apply eqb_spec. congruence. }
      split.
      * intros y [<-|Hy]; [split; auto; now left|].
        destruct (H1 y Hy) as [[Hxy Hne] Hin]. split; [|now right].
        split; [apply Hp; now right|].
        intros ->. apply Hne. apply le_antisym; auto. apply Hpx.
      * simpl. split; auto. intros y Hy. apply (H1 y Hy).
Qed.

Lemma dedup_sorted l u cs : dedup eqb l = (u, cs) -> sortedP l -> ssorted u /\ (forall y, In y u -> In y l).
Proof.
  destruct l as [|x t]; simpl; intros H Hs.
  - inversion H; subst. split; [exact I|auto].
  - destruct (dd eqb x 1 t) as [u' cs'] eqn:Ed. inversion H; subst u cs.
    destruct (dd_sorted t x 1%nat u' cs' Ed Hs) as [H1 H2].
    split.
    + simpl. split; auto. intros y Hy. apply (H1 y Hy).
    + intros y [<-|Hy]; [now left|right; apply (H1 y Hy)].
Qed.

Lemma ssorted_nodup l : ssorted l -> NoDup l.
Proof.
  induction l as [|x t IH]; simpl; intros H; constructor.
  - intros Hin. destruct H as [H _]. destruct (H x Hin) as [_ Hne]. now apply Hne.
  - apply IH, H.
Qed.

(* THE SPECIFICATION OF unique_1d *)
Theorem unique_inverse_spec vals u inv : unique_1d le eqb dflt vals = (u, inv) ->
  length inv = length vals /\
  (forall i, (i < length vals)%nat ->
     (nth i inv 0 < length u)%nat /\ nth (nth i inv 0%nat) u dflt = nth i vals dflt) /\
  ssorted u /\ NoDup u /\ (forall x, In x u -> In x vals).
Proof.
  unfold unique_1d. set (perm := argsort le dflt vals).
  set (f := fun i => nth i vals dflt).
  destruct (dedup eqb (map f perm)) as [u' cs] eqn:Ed. intros H; inversion H; subst u inv. clear H.
  pose proof (argsort_perm vals) as Hperm. fold perm in Hperm.
  pose proof (dedup_spec _ _ _ Ed) as Hspec. apply Forall2_map_l in Hspec.
  destruct (dedup_sorted _ _ _ Ed (argsort_sorted vals)) as [Hss Hin].
  split; [apply length_tab|]. split; [|split; [auto|split; [now apply ssorted_nodup|]]].
  - intros i Hi. rewrite (nth_tab (length vals) _ i 0%nat Hi).
    assert (Hip : In i perm) by (apply (Permutation_in i (Permutation_sym Hperm)), in_seq; lia).
    assert (Hnd : NoDup perm) by (apply (Permutation_NoDup (Permutation_sym Hperm)), seq_NoDup).
    assert (Hlen := Forall2_length _ _ _ Hspec).
    destruct (In_nth perm i 0%nat Hip) as [j [Hj Hnj]].
    assert (Hc : In (i, nth j cs 0%nat) (combine perm cs)).
    { rewrite <- Hnj at 1. rewrite <- (combine_nth perm cs j 0%nat 0%nat Hlen). apply nth_In.
      rewrite combine_length. lia. }
    assert (Hmf : map fst (combine perm cs) = perm).
    { now apply map_fst_combine. }
    rewrite (lastmatch_nodup (combine perm cs) i (nth j cs 0%nat)); [|now rewrite Hmf|auto].
    apply (Forall2_combine_in _ _ _ Hspec i (nth j cs 0%nat) Hc).
  - intros x Hx. apply Hin in Hx. apply in_map_iff in Hx. destruct Hx as [i [<- Hi]].
    unfold f. apply nth_In. apply (Permutation_in i Hperm) in Hi. apply in_seq in Hi. lia.
Qed.

(* two strictly sorted lists with the same elements are equal *)
Lemma lt_trans' a b c : lt a b -> lt b c -> lt a c.
Proof.
  intros [H1 N1] [H2 N2]. split; [eapply le_trans; eauto|].
  intros ->. apply N1. now apply le_antisym.
Qed.
Lemma ssorted_ext l1 : forall l2, ssorted l1 -> ssorted l2 -> (forall x, In x l1 <-> In x l2) -> l1 = l2.
Proof.
  induction l1 as [|x t IH]; intros [|y t2] H1 H2 Hio; auto.
  - exfalso. apply (proj2 (Hio y)). now left.
  - exfalso. apply (proj1 (Hio x)). now left.
  - destruct H1 as [Hx Ht], H2 as [Hy Ht2].
    assert (x = y).
    { destruct (proj1 (Hio x) (or_introl eq_refl)) as [E|Hin]; auto.
      destruct (proj2 (Hio y) (or_introl eq_refl)) as [E|Hin2]; auto.
      destruct (Hy x Hin) as [A1 A2]. destruct (Hx y Hin2) as [B1 B2].
      exfalso. apply A2. now apply le_antisym. }
    subst y. f_equal. apply IH; auto.
    intros z. split; intros Hz.
    + destruct (proj1 (Hio z) (or_intror Hz)) as [E|]; auto. subst z. destruct (Hx x Hz) as [_ N]. now contradiction N.
    + destruct (proj2 (Hio z) (or_intror Hz)) as [E|]; auto. subst z. destruct (Hy x Hz) as [_ N]. now contradiction N.
Qed.

End UniqueProofs.

(* ------------------------------------------------------------------ the lexicographic order on integer keys *)
Lemma lex_cmp_eq a : forall b, lex_cmp a b = Eq <-> a = b.
Proof.
  induction a as [|x a IH]; intros [|y b]; simpl; split; try discriminate; auto.
  - destruct (Z.compare_spec x y); try discriminate. intros H'. apply IH in H'. congruence.
  - intros E; inversion E; subst. rewrite Z.compare_refl. now apply IH.
Qed.
Lemma key_eqb_spec a b : key_eqb a b = true <-> a = b.
Proof.
  unfold key_eqb. rewrite <- lex_cmp_eq. destruct (lex_cmp a b); split; auto; discriminate.
Qed.
Lemma lex_cmp_antisym a : forall b, lex_cmp b a = CompOpp (lex_cmp a b).
Proof.
  induction a as [|x a IH]; intros [|y b]; simpl; auto.
  rewrite (Z.compare_antisym x y). destruct (x ?= y)%Z; simpl; auto.
Qed.
Lemma key_le_total a b : key_le a b = true \/ key_le b a = true.
Proof. unfold key_le. rewrite (lex_cmp_antisym a b). destruct (lex_cmp a b); simpl; auto. Qed.
Lemma key_le_antisym a b : key_le a b = true -> key_le b a = true -> a = b.
Proof.
  unfold key_le. rewrite (lex_cmp_antisym a b). intros H1 H2. apply lex_cmp_eq.
  destruct (lex_cmp a b); simpl in *; auto; discriminate.
Qed.
Lemma lex_cmp_trans a : forall b c, lex_cmp a b <> Gt -> lex_cmp b c <> Gt -> lex_cmp a c <> Gt.
Proof.
  induction a as [|x a IH]; intros [|y b] [|z c]; simpl; auto; try congruence.
  destruct (Z.compare_spec x y); destruct (Z.compare_spec y z); try congruence; subst.
  - rewrite Z.compare_refl. apply IH.
  - intros _ _. now rewrite (proj2 (Z.compare_lt_iff _ _) H0).
  - intros _ _. now rewrite (proj2 (Z.compare_lt_iff _ _) H).
  - intros _ _. assert (x < z)%Z by lia. now rewrite (proj2 (Z.compare_lt_iff _ _) H1).
Qed.
Lemma key_le_trans a b c : key_le a b = true -> key_le b c = true -> key_le a c = true.
Proof.
  unfold key_le. intros H1 H2.
  assert (lex_cmp a c <> Gt).
  { apply (lex_cmp_trans a b c); intros E; [rewrite E in H1|rewrite E in H2]; discriminate. }
  destruct (lex_cmp a c); auto; congruence.
Qed.

Definition key_ssorted := ssorted key key_le.

Theorem unique_keys_spec vals u inv : unique_keys vals = (u, inv) ->
  length inv = length vals /\
  (forall i, (i < length vals)%nat ->
     (nth i inv 0 < length u)%nat /\ nth (nth i inv 0%nat) u [] = nth i vals []) /\
  key_ssorted u /\ NoDup u /\ (forall x, In x u -> In x vals).
Proof.
  apply (unique_inverse_spec key key_le key_eqb [] key_eqb_spec key_le_total key_le_trans key_le_antisym).
Qed.

(* ------------------------------------------------------------------ shiftnd *)
Section ShiftProofs.
Variable S : ScalOps.
Hypothesis L : ScalLaws S.
Add Ring Kr2 : (k_ring S L).
Notation triple := (triple S).

Definition d0 : key * triple := ([], t0).

(* the shape of the un-cropped plan *)
Lemma plan_none keys dk kdim u inv :
  unique_keys (keys ++ map (fun k => vadd k dk) keys ++ map (fun k => vsub k dk) keys) = (u, inv) ->
  shiftnd_plan keys dk kdim None =
  mkPlan u (map Some (firstn (length keys) inv)) (map Some (firstn (length keys) (skipn (length keys) inv))).
Proof. intros H. unfold shiftnd_plan. now rewrite H. Qed.

Section Core.
Variable rows : list (key * triple).
Variable dk : key.
Let keys := map fst rows.
Let n1 := length rows.
Let vals := keys ++ map (fun k => vadd k dk) keys ++ map (fun k => vsub k dk) keys.
Variable u : list key.
Variable inv : list nat.
Hypothesis Hu : unique_keys vals = (u, inv).

Let idxL := firstn n1 inv.
Let idxT := firstn n1 (skipn n1 inv).

Lemma len_keys : length keys = n1. Proof. unfold keys, n1. apply map_length. Qed.
Lemma len_vals : length vals = (3 * n1)%nat.
Proof. unfold vals. rewrite !app_length, !map_length, len_keys. lia. Qed.
Lemma len_inv : length inv = (3 * n1)%nat.
Proof. destruct (unique_keys_spec _ _ _ Hu) as [H _]. now rewrite H, len_vals. Qed.

Lemma idxL_tab : idxL = map (fun i => nth i inv 0%nat) (seq 0 n1).
Proof. unfold idxL. apply firstn_tab. rewrite len_inv. lia. Qed.
Lemma idxT_tab : idxT = map (fun i => nth (n1 + i) inv 0%nat) (seq 0 n1).
Proof. unfold idxT. apply firstn_skipn_tab. rewrite len_inv. lia. Qed.

Lemma key_nth i : (i < n1)%nat -> nth i keys [] = fst (nth i rows d0).
Proof. intros. unfold keys. change [] with (fst d0). apply map_nth. Qed.

Lemma valsL i : (i < n1)%nat -> nth i vals [] = fst (nth i rows d0).
Proof. intros H. unfold vals. rewrite app_nth1 by (rewrite len_keys; lia). now apply key_nth. Qed.
Lemma valsT i : (i < n1)%nat -> nth (n1 + i) vals [] = vadd (fst (nth i rows d0)) dk.
Proof.
  intros H. unfold vals. rewrite app_nth2 by (rewrite len_keys; lia).
  rewrite app_nth1 by (rewrite map_length, !len_keys; lia).
  rewrite len_keys. replace (n1 + i - n1)%nat with i by lia.
  rewrite (nth_indep _ [] (vadd [] dk)) by (rewrite map_length, len_keys; lia).
  rewrite (map_nth (fun k => vadd k dk)). now rewrite key_nth.
Qed.

Lemma invL i : (i < n1)%nat -> (nth i inv 0 < length u)%nat /\ nth (nth i inv 0%nat) u [] = fst (nth i rows d0).
Proof.
  intros H. destruct (unique_keys_spec _ _ _ Hu) as [_ [Hs _]].
  rewrite <- (valsL i H). apply Hs. rewrite len_vals. lia.
Qed.
Lemma invT i : (i < n1)%nat ->
  (nth (n1 + i) inv 0 < length u)%nat /\ nth (nth (n1 + i) inv 0%nat) u [] = vadd (fst (nth i rows d0)) dk.
Proof.
  intros H. destruct (unique_keys_spec _ _ _ Hu) as [_ [Hs _]].
  rewrite <- (valsT i H). apply Hs. rewrite len_vals. lia.
Qed.

Lemma nodup_of_inj (f : nat -> nat) (g : nat -> key) (ks : list key) n :
  (forall i, (i < n)%nat -> nth (f i) u [] = nth i ks []) -> length ks = n -> NoDup ks ->
  NoDup (map f (seq 0 n)).
Proof.
  intros Hf Hl Hnd. apply (NoDup_nth _ 0%nat). rewrite map_length, seq_length.
  intros i j Hi Hj E.
  rewrite !(nth_tab n f _ 0%nat) in E by auto.
  apply (proj1 (NoDup_nth ks []) Hnd); try lia.
  rewrite <- (Hf i Hi), <- (Hf j Hj). now rewrite E.
Qed.

Lemma idxL_nodup : NoDup keys -> NoDup idxL.
Proof.
  intros Hnd. rewrite idxL_tab. apply (nodup_of_inj _ (fun _ => []) keys n1); auto.
  - intros i Hi. rewrite (proj2 (invL i Hi)). now rewrite key_nth.
  - apply len_keys.
Qed.
Lemma idxT_nodup : NoDup (map (fun k => vadd k dk) keys) -> NoDup idxT.
Proof.
  intros Hnd. rewrite idxT_tab. apply (nodup_of_inj _ (fun _ => []) (map (fun k => vadd k dk) keys) n1); auto.
  - intros i Hi. rewrite (proj2 (invT i Hi)).
    rewrite (nth_indep _ [] (vadd [] dk)) by (rewrite map_length, len_keys; lia).
    rewrite (map_nth (fun k => vadd k dk)). now rewrite key_nth.
  - now rewrite map_length, len_keys.
Qed.

(* the output rows of shiftnd1 *)
Definition F2 := assign_fn (combine idxT (map (@fp S) (map snd rows))).
Definition Z2 := assign_fn (combine idxL (map (@fz S) (map snd rows))).

Lemma shiftnd1_eq : shiftnd1 rows dk =
  map (fun j => (nth j u [], mk3 (F2 j) (kconj (F2 (length u - 1 - j)%nat)) (Z2 j))) (seq 0 (length u)).
Proof.
  unfold shiftnd1. fold keys. rewrite (plan_none keys dk 1 u inv Hu). unfold relocate; simpl.
  rewrite !opairs_some, len_keys. fold n1 idxL idxT.
  exact (combine_tab_r (@nil Z) u _).
Qed.

Lemma pairs_tab (idx : list nat) (f : nat -> nat) (c : triple -> S) :
  idx = map f (seq 0 n1) ->
  combine idx (map c (map snd rows)) = map (fun i => (f i, c (snd (nth i rows d0)))) (seq 0 n1).
Proof.
  intros ->. rewrite map_map. rewrite (list_as_tab d0 rows) at 1. fold n1. rewrite map_map.
  apply combine_map_seq.
Qed.

Lemma synth_rows (h : key * triple -> S) :
  ksum (map h rows) = ksum (map (fun i => h (nth i rows d0)) (seq 0 n1)).
Proof. rewrite (list_as_tab d0 rows) at 1. fold n1. now rewrite map_map. Qed.

(* KEY THEOREM (F+): relocation of F+ to k+dk multiplies the synthesis by chi(dk) *)
Lemma shiftnd1_synthP (chi : key -> S) :
  NoDup (map (fun k => vadd k dk) keys) ->
  (forall k, In k keys -> chi (vadd k dk) = (chi k * chi dk)%K) ->
  synthP chi (shiftnd1 rows dk) = (chi dk * synthP chi rows)%K.
Proof.
  intros Hnd Hchi. unfold synthP. rewrite shiftnd1_eq, map_map. simpl.
  unfold F2. rewrite (pairs_tab idxT _ (@fp S) idxT_tab).
  rewrite (assign_swap S L (fun j => chi (nth j u []))).
  - rewrite map_map; simpl. rewrite <- (ksum_map_scale S L), synth_rows.
    f_equal. apply map_ext_in. intros i Hi. apply in_seq in Hi.
    rewrite (proj2 (invT i ltac:(lia))). rewrite Hchi; [ring|].
    rewrite <- key_nth by lia. apply nth_In. rewrite len_keys. lia.
  - rewrite map_map; simpl. rewrite <- idxT_tab. now apply idxT_nodup.
  - intros p Hp. apply in_map_iff in Hp. destruct Hp as [i [<- Hi]]. apply in_seq in Hi. simpl.
    apply (invT i). lia.
Qed.

(* KEY THEOREM (Z): Z stays where it is *)
Lemma shiftnd1_synthZ (chi : key -> S) :
  NoDup keys -> synthZ chi (shiftnd1 rows dk) = synthZ chi rows.
Proof.
  intros Hnd. unfold synthZ. rewrite shiftnd1_eq, map_map. simpl.
  unfold Z2. rewrite (pairs_tab idxL _ (@fz S) idxL_tab).
  rewrite (assign_swap S L (fun j => chi (nth j u []))).
  - rewrite map_map; simpl. rewrite synth_rows.
    f_equal. apply map_ext_in. intros i Hi. apply in_seq in Hi.
    now rewrite (proj2 (invL i ltac:(lia))).
  - rewrite map_map; simpl. rewrite <- idxL_tab. now apply idxL_nodup.
  - intros p Hp. apply in_map_iff in Hp. destruct Hp as [i [<- Hi]]. apply in_seq in Hi. simpl.
    apply (invL i). lia.
Qed.

(* F- is rebuilt as the mirror conjugate: array-level well-formedness of the F columns, unconditionally *)
Lemma shiftnd1_mirror_F j : (j < length u)%nat ->
  let out := shiftnd1 rows dk in
  length out = length u /\
  fm (snd (nth j out d0)) = kconj (fp (snd (nth (length u - 1 - j) out d0))).
Proof.
  intros Hj out. unfold out. rewrite shiftnd1_eq. split; [now rewrite map_length, seq_length|].
  set (f := fun j => (nth j u [], mk3 (F2 j) (kconj (F2 (length u - 1 - j)%nat)) (Z2 j))).
  change (map f (seq 0 (length u))) with (tab (length u) f).
  rewrite !(nth_tab (length u) f _ d0) by lia. reflexivity.
Qed.

End Core.
End ShiftProofs.

(* ------------------------------------------------------------------ the order-independent algebraic core *)
(* Rows as an association list over ANY wavenumber type G with a character chi; relocation of every
   amplitude to k+dk followed by summation of the rows with equal wavenumber (in whatever order the
   dedup visits them) multiplies the synthesis by chi(dk). *)
Section Assoc.
Variable S : ScalOps.
Hypothesis L : ScalLaws S.
Add Ring Kr3 : (k_ring S L).
Variable G : Type.
Variable geqb : G -> G -> bool.
Hypothesis geqb_eq : forall a b, geqb a b = true -> a = b.
Variable gadd : G -> G -> G.
Variable chi : G -> S.
Hypothesis chi_add : forall a b, chi (gadd a b) = (chi a * chi b)%K.

Definition synthL (l : list (G * S)) : S := ksum (map (fun r => (chi (fst r) * snd r)%K) l).

Fixpoint add_to (k : G) (a : S) (acc : list (G * S)) : list (G * S) :=
  match acc with
  | [] => [(k, a)]
  | (k', b) :: t => if geqb k' k then (k', (b + a)%K) :: t else (k', b) :: add_to k a t
  end.
Definition accum (l : list (G * S)) : list (G * S) := fold_left (fun acc r => add_to (fst r) (snd r) acc) l [].

Lemma synthL_add_to k a acc : synthL (add_to k a acc) = (synthL acc + chi k * a)%K.
Proof.
  unfold synthL. induction acc as [|[k' b] t IH]; simpl; [ring|].
  destruct (geqb k' k) eqn:E; simpl.
  - apply geqb_eq in E. subst. ring.
  - rewrite IH. ring.
Qed.

Lemma accum_synth l : synthL (accum l) = synthL l.
Proof.
  unfold accum. assert (H : forall acc, synthL (fold_left (fun acc r => add_to (fst r) (snd r) acc) l acc)
                                       = (synthL acc + synthL l)%K).
  { induction l as [|[k a] t IH]; intros acc; simpl.
    - unfold synthL; simpl; ring.
    - rewrite IH, synthL_add_to. unfold synthL; simpl; ring. }
  rewrite H. unfold synthL; simpl; ring.
Qed.

Theorem reloc_synth dk l :
  synthL (accum (map (fun r => (gadd (fst r) dk, snd r)) l)) = (chi dk * synthL l)%K.
Proof.
  rewrite accum_synth. unfold synthL. rewrite map_map. simpl.
  rewrite <- (ksum_map_scale S L). f_equal. apply map_ext. intros [k a]; simpl. rewrite chi_add. ring.
Qed.
End Assoc.

(* ------------------------------------------------------------------ concrete character on Z^d *)
From EPG Require Import Synth.
Section Character.
Variable S : ScalOps.
Hypothesis L : ScalLaws S.
Add Ring Kr4 : (k_ring S L).

(* chi(k) = prod_j z_j^(k_j)   (z_j = exp(i x_j kvalue); the 4th factor is exp(2 pi i f tvalue)) *)
Fixpoint chiZ (zs : list (S * S)) (k : key) : S :=
  match zs, k with
  | (z, zi) :: zt, x :: kt => (zpow S z zi x * chiZ zt kt)%K
  | _, _ => k1
  end.

Lemma chiZ_add zs : List.Forall (fun p => (fst p * snd p)%K = k1) zs ->
  forall a b, length a = length b -> chiZ zs (vadd a b) = (chiZ zs a * chiZ zs b)%K.
Proof.
  induction 1 as [|[z zi] zt Hz Hzt IH]; intros a b Hl.
  - destruct a, b; simpl; ring.
  - destruct a as [|x a], b as [|y b]; simpl in *; try discriminate; [ring|].
    rewrite (zpow_add S L z zi Hz), IH by lia. ring.
Qed.

Lemma vadd_cancel dk : forall a b, length a = length dk -> length b = length dk -> vadd a dk = vadd b dk -> a = b.
Proof.
  induction dk as [|d dk IH]; intros [|x a] [|y b] Ha Hb E; simpl in *; try discriminate; auto.
  inversion E. f_equal; [lia|]. apply IH; auto.
Qed.

Lemma NoDup_map_on {B C} (f : B -> C) l :
  NoDup l -> (forall a b, In a l -> In b l -> f a = f b -> a = b) -> NoDup (map f l).
Proof.
  induction 1 as [|x t Hx Ht IH]; intros Hf; simpl; constructor.
  - intros Hin. apply in_map_iff in Hin. destruct Hin as [y [E Hy]].
    apply Hx. rewrite <- (Hf y x); auto; [now right|now left].
  - apply IH. intros a b Ha Hb. apply Hf; now right.
Qed.

(* MAIN THEOREM for the code-shaped shiftnd on Z^d: after the shift the synthesis at the position with
   dephasing factors zs is that of the isochromat: F+ multiplied by chi(dk), Z unchanged *)
Theorem shiftnd_synth (zs : list (S * S)) (rows : list (key * triple S)) (dk : key) :
  List.Forall (fun p => (fst p * snd p)%K = k1) zs ->
  (forall k, In k (map fst rows) -> length k = length dk) ->
  NoDup (map fst rows) ->
  synthP (chiZ zs) (shiftnd1 rows dk) = (chiZ zs dk * synthP (chiZ zs) rows)%K /\
  synthZ (chiZ zs) (shiftnd1 rows dk) = synthZ (chiZ zs) rows.
Proof.
  intros Hz Hlen Hnd.
  destruct (unique_keys (map fst rows ++ map (fun k => vadd k dk) (map fst rows) ++ map (fun k => vsub k dk) (map fst rows)))
    as [u inv] eqn:Hu.
  split.
  - apply (shiftnd1_synthP S L rows dk u inv Hu).
    + apply NoDup_map_on; auto. intros a b Ha Hb. apply vadd_cancel; auto.
    + intros k Hk. apply chiZ_add; auto.
  - apply (shiftnd1_synthZ S L rows dk u inv Hu); auto.
Qed.

Theorem mirror_wf_F (rows : list (key * triple S)) (dk : key) j :
  let out := shiftnd1 rows dk in
  (j < length out)%nat ->
  fm (snd (nth j out ([], t0))) = kconj (fp (snd (nth (length out - 1 - j) out ([], t0)))).
Proof.
  intros out.
  destruct (unique_keys (map fst rows ++ map (fun k => vadd k dk) (map fst rows) ++ map (fun k => vsub k dk) (map fst rows)))
    as [u inv] eqn:Hu.
  intros Hj.
  assert (Hl : length out = length u) by (unfold out; rewrite (shiftnd1_eq S rows dk u inv Hu); now rewrite map_length, seq_length).
  rewrite Hl in *. apply (shiftnd1_mirror_F S rows dk u inv Hu j Hj).
Qed.

End Character.

(* ------------------------------------------------------------------ shiftmerge: amplitudes add exactly *)
Lemma firstn_in {B} n : forall (l : list B) x, In x (firstn n l) -> In x l.
Proof. induction n; intros [|a l] x; simpl; try tauto. intros [->|H]; auto. Qed.
Lemma skipn_in {B} n : forall (l : list B) x, In x (skipn n l) -> In x l.
Proof. induction n; intros [|a l] x; simpl; try tauto. intros H; right; auto. Qed.

Lemma inv_all_lt vals u inv : unique_keys vals = (u, inv) -> forall x, In x inv -> (x < length u)%nat.
Proof.
  intros H x Hx. destruct (unique_keys_spec _ _ _ H) as [Hl [Hs _]].
  destruct (In_nth inv x 0%nat Hx) as [i [Hi <-]]. apply Hs. lia.
Qed.

Lemma map_snd_combine {B C} (l2 : list C) : forall (l1 : list B),
  (length l2 <= length l1)%nat -> map snd (combine l1 l2) = l2.
Proof.
  induction l2 as [|c l2 IH]; intros [|a l1] Hl; simpl in *; auto; try lia.
  f_equal. apply IH. lia.
Qed.

Section MergeProofs.
Variable S : ScalOps.
Hypothesis L : ScalLaws S.
Add Ring Kr5 : (k_ring S L).

Lemma addat_total (ps : list (nat * S)) n :
  (forall p, In p ps -> (fst p < n)%nat) -> ksum (map (addat_fn ps) (seq 0 n)) = ksum (map snd ps).
Proof.
  intros H. transitivity (ksum (map (fun j => (k1 * addat_fn ps j)%K) (seq 0 n))).
  { f_equal. apply map_ext. intros; ring. }
  rewrite (addat_swap S L (fun _ => k1) ps n H). f_equal. apply map_ext. intros; ring.
Qed.

Section Plan.
Variables (pre : Q -> Q) (rnd : Q -> Z) (wav : list qvec) (dk grid : qvec).
Let p := merge_plan pre rnd wav dk grid.
Let n1 := length wav.

Lemma merge_plan_targets :
  (forall x, In x (mL p) -> (x < length (mq p))%nat) /\ (forall x, In x (m1T p) -> (x < length (mq p))%nat) /\
  length (mL p) = n1 /\ length (m1T p) = n1.
Proof.
  unfold p, merge_plan.
  set (kL := map (map pre) wav).
  set (k1T := map (fun k => qvadd k dk) kL).
  set (qL := map (fun p => map rnd (qvdiv (qvscale qhalf (qvsub (fst p) (snd p))) grid)) (combine kL (rev kL))).
  set (q1T := map (fun k => map rnd (qvdiv k grid)) k1T).
  set (q2T := map vneg (rev q1T)).
  destruct (unique_keys (qL ++ q1T ++ q2T)) as [q2 idx] eqn:Hu. simpl.
  assert (Hlen : length idx = (3 * n1)%nat).
  { destruct (unique_keys_spec _ _ _ Hu) as [Hl _]. rewrite Hl.
    unfold qL, q2T, q1T, k1T, kL. rewrite !app_length, !map_length, rev_length, !map_length.
    rewrite combine_length, rev_length, !map_length, Nat.min_id. unfold n1. simpl. now rewrite Nat.add_0_r. }
  fold n1. split; [|split; [|split]].
  - intros x Hx. apply (inv_all_lt _ _ _ Hu). eapply firstn_in; eauto.
  - intros x Hx. apply (inv_all_lt _ _ _ Hu). eapply skipn_in. eapply firstn_in; eauto.
  - rewrite firstn_length. lia.
  - rewrite firstn_length, skipn_length. lia.
Qed.

(* merging rows into grid cells preserves the sum of the amplitudes: the value reconstructed at
   position 0 (chi = 1) is unchanged, whatever the grid *)
Theorem merge_adds_exact (amps : list (triple S)) : length amps = n1 ->
  ksum (map (@fp S) (merge_amps p amps)) = ksum (map (@fp S) amps) /\
  ksum (map (@fz S) (merge_amps p amps)) = ksum (map (@fz S) amps).
Proof.
  intros Hl. destruct merge_plan_targets as [HL [HT [LL LT]]].
  unfold merge_amps, tab. rewrite !map_map. simpl. split.
  - rewrite addat_total.
    + rewrite map_snd_combine; auto. rewrite map_length. lia.
    + intros [a v] Hin. apply in_combine_l in Hin. now apply HT.
  - rewrite addat_total.
    + rewrite map_snd_combine; auto. rewrite map_length. lia.
    + intros [a v] Hin. apply in_combine_l in Hin. now apply HL.
Qed.

(* synthesis after a gridded shift, for ANY wavenumbers kout attached to the cells (the weighted means
   computed by the code are one choice): if every non-zero F+ lands in a cell whose attached wavenumber has the
   character value of its relocated wavenumber (this is what "the grid does not merge distinct wavenumbers"
   gives), the synthesis is multiplied by chi(dk).  PARTIAL: the hypothesis speaks about the computed cell
   wavenumbers; it is not derived from injectivity of the quantisation. *)
Theorem shiftmerge_synth_partial (chi : qvec -> S) (kout : nat -> qvec) (amps : list (triple S)) :
  length amps = n1 ->
  (forall k, In k (mkL p) -> chi (qvadd k dk) = (chi k * chi dk)%K) ->
  (forall i, (i < n1)%nat -> fp (nth i amps t0) = k0 \/
        chi (kout (nth i (m1T p) 0%nat)) = chi (qvadd (nth i (mkL p) []) dk)) ->
  length (mkL p) = n1 ->
  ksum (map (fun j => (chi (kout j) * fp (nth j (merge_amps p amps) t0))%K) (seq 0 (length (mq p)))) =
  (chi dk * ksum (map (fun i => (chi (nth i (mkL p) []) * fp (nth i amps t0))%K) (seq 0 n1)))%K.
Proof.
  intros Hl Hchi Hcell HkL. destruct merge_plan_targets as [HL [HT [LL LT]]].
  transitivity (ksum (map (fun j => (chi (kout j) * addat_fn (combine (m1T p) (map (@fp S) amps)) j)%K)
                          (seq 0 (length (mq p))))).
  { f_equal. apply map_ext_in. intros j Hj. apply in_seq in Hj. unfold merge_amps.
    rewrite (nth_tab _ _ j t0) by lia. reflexivity. }
  rewrite (addat_swap S L).
  2:{ intros [a v] Hin. apply in_combine_l in Hin. now apply HT. }
  rewrite <- (ksum_map_scale S L).
  rewrite (combine_as_tab 0%nat t0 (@fp S) (m1T p) amps n1 LT Hl), map_map. simpl.
  f_equal. apply map_ext_in. intros i Hi. apply in_seq in Hi.
  destruct (Hcell i ltac:(lia)) as [E|E].
  - rewrite E. ring.
  - rewrite E, Hchi; [ring|]. apply nth_In. lia.
Qed.

End Plan.
End MergeProofs.

(* ------------------------------------------------------------------ G is S of the wavenumber; C uses axis 4 *)
Lemma G_is_S_of_wavenumber (twopi tau : Q) (grad : qvec) :
  G_shift twopi tau grad = map (fun g => (twopi * (42576 # 1) * tau * (1 # 1000) * g)%Q) grad.
Proof. reflexivity. Qed.
Lemma C_puts_time_on_axis_4 (tau : Q) : firstn 3 (C_shift tau) = [0%Q; 0%Q; 0%Q] /\ nth 3 (C_shift tau) 0%Q = tau.
Proof. split; reflexivity. Qed.

(* setup_coords: switching a 1-D state to the n-D back-end labels array index j with wavenumber j - n *)
Lemma backend_switch n kdim j : (j < 2 * n + 1)%nat ->
  nth j (setup_coords n kdim) [] = (Z.of_nat j - Z.of_nat n)%Z :: repeat 0%Z (kdim - 1).
Proof. intros H. unfold setup_coords. exact (nth_tab _ _ j [] H). Qed.

(* ------------------------------------------------------------------ back-ends agree: executable family *)
(* 1-D integer model of Model/Ops.v against the n-D model with one (or three) columns on programs
   shift d1; mixing matrix; shift d2; mixing matrix; shift d3, compared as sorted wavenumber -> state content
   with zero rows dropped.  Checked by evaluation for the 5^3 step triples and 2 column counts below
   (general sequences are the business of the correspondence check). *)
From EPG Require Import QI Ops.
Section Agree.
Notation T := (triple QIops).
Local Notation mk3 := (@mk3 QIops). Local Notation mkM := (@mkM QIops). Local Notation mkSM := (@mkSM QIops).
Local Notation t0 := (@t0 QIops). Local Notation OShift := (@OShift QIops). Local Notation OMatrix := (@OMatrix QIops).
Definition ag_mat : mat3 QIops :=
  mkM (mk3 (qi 1 2 1 2) (qi 1 2 0 1) (qi 0 1 (-1) 2))
      (mk3 (qi 1 2 0 1) (qi 1 2 (-1) 2) (qi 0 1 1 2))
      (mk3 (qi 0 1 1 2) (qi 0 1 (-1) 2) (qi 1 2 0 1)).
Definition ag_init : sm QIops :=
  mkSM [mk3 (qi 1 2 0 1) (qi 1 1 (-1) 2) (qi 0 1 1 2); mk3 (qi 1 2 1 1) (qi 1 2 (-1) 1) (qi 1 1 0 1);
        mk3 (qi 1 1 1 2) (qi 1 2 0 1) (qi 0 1 (-1) 2)]
       [t0; mk3 qi0 qi0 (qi 1 1 0 1); t0].
Definition rows_of_sm (pad : nat) (s : sm QIops) : list (key * T) :=
  let n := ((length (st s) - 1) / 2)%nat in
  tab (length (st s)) (fun i => ((Z.of_nat i - Z.of_nat n)%Z :: repeat 0%Z pad, nth i (st s) t0)).
Definition nd_mat (rows : list (key * T)) : list (key * T) := map (fun r => (fst r, mv ag_mat (snd r))) rows.
Definition ag_check (pad : nat) (d : Z * Z * Z) : bool :=
  let '(d1, d2, d3) := d in
  let one := run [OShift d1 None; OMatrix ag_mat None; OShift d2 None; OMatrix ag_mat None; OShift d3 None] ag_init in
  let v x := x :: repeat 0%Z pad in
  let nd := shiftnd1 (nd_mat (shiftnd1 (nd_mat (shiftnd1 (rows_of_sm pad ag_init) (v d1))) (v d2))) (v d3) in
  rows_eqb (content (rows_of_sm pad one)) (content nd).
Definition ag_steps : list Z := [-2; -1; 1; 2; 3]%Z.
Definition ag_family : list (Z * Z * Z) :=
  flat_map (fun a => flat_map (fun b => map (fun c => (a, b, c)) ag_steps) ag_steps) ag_steps.
Lemma backends_agree_family :
  forallb (ag_check 0) ag_family = true /\ forallb (ag_check 2) ag_family = true.
Proof. split; vm_compute; reflexivity. Qed.
End Agree.
