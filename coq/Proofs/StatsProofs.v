(* C17 -- proofs about Model/Stats.v.
   Part 1: finite sums, real part, derivations of a field with conjugation.
   Part 2: inverse matrices (uniqueness, derivative of the inverse) on index functions.
   Part 3: the model functions (lists) against their defining formulas.
   Part 4: the executable instance, the refutation witness for the Hessian term of confint, menu, t table. *)
From Coq Require Import List ZArith QArith Qabs Qcanon Lia Bool Arith Ring.
From EPG Require Import Scalar QI State ListLemmas StatsTables Stats.
Import ListNotations.

Section Sums.
Variable F : FieldOps.
Hypothesis L : FieldLaws F.
Add Ring Kr : (k_ring F (f_scal F L)).
Open Scope K_scope.
Notation LS := (f_scal F L).

Lemma ksum_ext n (f g : nat -> F) : (forall i, (i < n)%nat -> f i = g i) -> ksum n f = ksum n g.
Proof.
  induction n; simpl; intros H; [reflexivity|].
  rewrite IHn by (intros; apply H; lia). rewrite (H n) by lia. reflexivity.
Qed.

Lemma ksum_0 n : ksum n (fun _ => @k0 F) = k0.
Proof. induction n; simpl; [reflexivity|]. rewrite IHn. ring. Qed.

Lemma ksum_add n (f g : nat -> F) : ksum n (fun i => f i + g i) = ksum n f + ksum n g.
Proof. induction n; simpl; [ring|]. rewrite IHn. ring. Qed.

Lemma ksum_mul_l n (c : F) f : ksum n (fun i => c * f i) = c * ksum n f.
Proof. induction n; simpl; [ring|]. rewrite IHn. ring. Qed.

Lemma ksum_mul_r n (c : F) f : ksum n (fun i => f i * c) = ksum n f * c.
Proof. induction n; simpl; [ring|]. rewrite IHn. ring. Qed.

Lemma ksum_opp n (f : nat -> F) : ksum n (fun i => - f i) = - ksum n f.
Proof. induction n; simpl; [ring|]. rewrite IHn. ring. Qed.

Lemma ksum_swap n m (f : nat -> nat -> F) :
  ksum n (fun i => ksum m (fun j => f i j)) = ksum m (fun j => ksum n (fun i => f i j)).
Proof.
  induction n; simpl.
  - now rewrite ksum_0.
  - rewrite IHn. now rewrite <- ksum_add.
Qed.

Lemma ksum_conj n (f : nat -> F) : kconj (ksum n f) = ksum n (fun i => kconj (f i)).
Proof.
  induction n; simpl; [apply (conj_0 F LS)|].
  rewrite (conj_add F LS), IHn. reflexivity.
Qed.

Lemma kdelta_eq i : @kdelta F i i = k1.
Proof. unfold kdelta. now rewrite Nat.eqb_refl. Qed.
Lemma kdelta_neq i j : i <> j -> @kdelta F i j = k0.
Proof. unfold kdelta. intros H. now apply Nat.eqb_neq in H as ->. Qed.
Lemma kdelta_sym i j : @kdelta F i j = kdelta j i.
Proof. unfold kdelta. now rewrite Nat.eqb_sym. Qed.

Lemma ksum_delta_out n i (f : nat -> F) : (n <= i)%nat -> ksum n (fun k => kdelta i k * f k) = k0.
Proof.
  intros H. rewrite (ksum_ext n _ (fun _ => k0)).
  - apply ksum_0.
  - intros k Hk. rewrite kdelta_neq by lia. ring.
Qed.

Lemma ksum_delta_l n i (f : nat -> F) : (i < n)%nat -> ksum n (fun k => kdelta i k * f k) = f i.
Proof.
  induction n; intros H; [lia|]. simpl.
  destruct (Nat.eq_dec i n) as [->|Hne].
  - rewrite ksum_delta_out by lia. rewrite kdelta_eq. ring.
  - rewrite IHn by lia. rewrite kdelta_neq by lia. ring.
Qed.

Lemma ksum_delta_r n j (f : nat -> F) : (j < n)%nat -> ksum n (fun k => f k * kdelta k j) = f j.
Proof.
  intros H. rewrite <- (ksum_delta_l n j f H). apply ksum_ext. intros k _.
  rewrite (kdelta_sym k j). ring.
Qed.

(* ---- real part *)
Lemma khalf_real : kconj (@khalf F) = khalf.
Proof.
  assert (H : kconj (@khalf F) + kconj khalf = k1).
  { rewrite <- (conj_add F LS), (khalf_2 F L). apply (conj_1 F LS). }
  transitivity ((kconj (@khalf F) + kconj khalf) * khalf).
  - transitivity (kconj (@khalf F) * (khalf + khalf)); [|ring].
    rewrite (khalf_2 F L). ring.
  - rewrite H. ring.
Qed.

Lemma kre_add (x y : F) : kre (x + y) = kre x + kre y.
Proof. unfold kre. rewrite (conj_add F LS). ring. Qed.
Lemma kre_opp (x : F) : kre (- x) = - kre x.
Proof. unfold kre. rewrite (conj_opp F LS). ring. Qed.
Lemma kre_sub (x y : F) : kre (x - y) = kre x - kre y.
Proof. unfold kre. rewrite (conj_sub F LS). ring. Qed.
Lemma kre_0 : kre (@k0 F) = k0.
Proof. unfold kre. rewrite (conj_0 F LS). ring. Qed.
Lemma kre_conj (x : F) : kre (kconj x) = kre x.
Proof. unfold kre. rewrite (conj_invol F LS). ring. Qed.
Lemma kre_real_mul (c x : F) : kconj c = c -> kre (c * x) = c * kre x.
Proof. intros H. unfold kre. rewrite (conj_mul F LS), H. ring. Qed.
Lemma kre_is_real (x : F) : kconj (kre x) = kre x.
Proof.
  unfold kre. rewrite (conj_mul F LS), (conj_add F LS), (conj_invol F LS), khalf_real. ring.
Qed.
Lemma kre_of_real (x : F) : kconj x = x -> kre x = x.
Proof.
  intros H. unfold kre. rewrite H.
  transitivity ((khalf + khalf) * x); [ring|]. rewrite (khalf_2 F L). ring.
Qed.
Lemma kre_kre (x : F) : kre (kre x) = kre x.
Proof. apply kre_of_real, kre_is_real. Qed.
Lemma ksum_kre n (f : nat -> F) : kre (ksum n f) = ksum n (fun i => kre (f i)).
Proof. induction n; simpl; [apply kre_0|]. now rewrite kre_add, IHn. Qed.

Lemma kinv_r (x : F) : x <> k0 -> x * kinv x = k1.
Proof. intros H. rewrite <- (kinv_l F L x H). ring. Qed.

Lemma conj_kinv_real (s : F) : s <> k0 -> kconj s = s -> kconj (kinv s) = kinv s.
Proof.
  intros Hs Hr.
  assert (H : kconj (kinv s) * s = k1).
  { rewrite <- Hr at 2. rewrite <- (conj_mul F LS), (kinv_l F L s Hs). apply (conj_1 F LS). }
  transitivity (kconj (kinv s) * s * kinv s).
  - transitivity (kconj (kinv s) * (s * kinv s)); [|ring]. rewrite (kinv_r s Hs). ring.
  - rewrite H. ring.
Qed.

(* ---- derivations commuting with conjugation *)
Record Deriv (d : F -> F) : Prop := mkDeriv {
  d_add : forall x y, d (x + y) = d x + d y;
  d_mul : forall x y, d (x * y) = d x * y + x * d y;
  d_conj : forall x, d (kconj x) = kconj (d x)
}.

Lemma plus_self_0 (a : F) : a = a + a -> a = k0.
Proof. intros H. transitivity (a + a - a); [ring|]. rewrite <- H. ring. Qed.

Section D.
Variable d : F -> F.
Hypothesis D : Deriv d.

Lemma d_0 : d k0 = k0.
Proof. apply plus_self_0. rewrite <- (d_add d D). f_equal. ring. Qed.
Lemma d_1 : d k1 = k0.
Proof.
  apply plus_self_0. transitivity (d (k1 * k1)); [f_equal; ring|].
  rewrite (d_mul d D). ring.
Qed.
Lemma d_opp x : d (- x) = - d x.
Proof.
  assert (H : d x + d (- x) = k0).
  { rewrite <- (d_add d D). replace (x + - x) with (@k0 F) by ring. apply d_0. }
  transitivity (d x + d (- x) - d x); [ring|]. rewrite H. ring.
Qed.
Lemma d_sub x y : d (x - y) = d x - d y.
Proof. replace (x - y) with (x + - y) by ring. rewrite (d_add d D), d_opp. ring. Qed.
Lemma d_ksum n f : d (ksum n f) = ksum n (fun i => d (f i)).
Proof. induction n; simpl; [apply d_0|]. now rewrite (d_add d D), IHn. Qed.
Lemma d_kdelta i j : d (kdelta i j) = k0.
Proof. unfold kdelta. destruct (Nat.eqb i j); [apply d_1|apply d_0]. Qed.
Lemma d_khalf : d khalf = k0.
Proof.
  assert (H : d khalf + d khalf = k0).
  { rewrite <- (d_add d D), (khalf_2 F L). apply d_1. }
  transitivity (khalf * (d khalf + d khalf)).
  - transitivity ((khalf + khalf) * d khalf); [|ring]. rewrite (khalf_2 F L). ring.
  - rewrite H. ring.
Qed.
Lemma d_kre x : d (kre x) = kre (d x).
Proof.
  unfold kre. rewrite (d_mul d D), d_khalf, (d_add d D), (d_conj d D). ring.
Qed.
Lemma d_kinv_const s : s <> k0 -> d s = k0 -> d (kinv s) = k0.
Proof.
  intros Hs Hd.
  assert (H : d (kinv s) * s = k0).
  { transitivity (d (kinv s * s)).
    - rewrite (d_mul d D), Hd. ring.
    - rewrite (kinv_l F L s Hs). apply d_1. }
  transitivity (d (kinv s) * s * kinv s).
  - transitivity (d (kinv s) * (s * kinv s)); [|ring]. rewrite (kinv_r s Hs). ring.
  - rewrite H. ring.
Qed.
Lemma d_const_mul c x : d c = k0 -> d (c * x) = c * d x.
Proof. intros H. rewrite (d_mul d D), H. ring. Qed.
End D.

(* ================= Part 2: inverse matrices as index functions ================= *)
Definition fmul (p : nat) (A B : nat -> nat -> F) (i j : nat) : F := ksum p (fun k => A i k * B k j).
Definition is_rinv (p : nat) (A B : nat -> nat -> F) : Prop :=
  forall i j, (i < p)%nat -> (j < p)%nat -> fmul p A B i j = kdelta i j.

Lemma fmul_assoc p A B C i j :
  ksum p (fun k => fmul p A B i k * C k j) = ksum p (fun k => A i k * fmul p B C k j).
Proof.
  unfold fmul.
  rewrite (ksum_ext p _ (fun k => ksum p (fun m => A i m * B m k * C k j)))
    by (intros; now rewrite ksum_mul_r).
  rewrite ksum_swap. apply ksum_ext. intros m _.
  rewrite <- ksum_mul_l. apply ksum_ext. intros k _. ring.
Qed.

Section Inverse.
Variables (p : nat) (A B : nat -> nat -> F).
Hypothesis AB : is_rinv p A B.
Hypothesis BA : is_rinv p B A.

(* a right inverse of A is THE inverse *)
Lemma inv_unique B' : is_rinv p A B' -> forall i j, (i < p)%nat -> (j < p)%nat -> B' i j = B i j.
Proof.
  intros AB' i j Hi Hj.
  transitivity (ksum p (fun k => fmul p B A i k * B' k j)).
  - rewrite (ksum_ext p _ (fun k => kdelta i k * B' k j)) by (intros k Hk; now rewrite (BA i k Hi Hk)).
    now rewrite ksum_delta_l.
  - rewrite fmul_assoc.
    rewrite (ksum_ext p _ (fun k => B i k * kdelta k j)) by (intros k Hk; now rewrite (AB' k j Hk Hj)).
    now rewrite ksum_delta_r.
Qed.

Variable d : F -> F.
Hypothesis D : Deriv d.

(* d(A B) = 0 entrywise *)
Lemma d_prod_zero i j : (i < p)%nat -> (j < p)%nat ->
  ksum p (fun k => d (A i k) * B k j) + ksum p (fun k => A i k * d (B k j)) = k0.
Proof.
  intros Hi Hj. rewrite <- ksum_add.
  rewrite (ksum_ext p _ (fun k => d (A i k * B k j))) by (intros; now rewrite (d_mul d D)).
  rewrite <- (d_ksum d D). fold (fmul p A B i j). rewrite (AB i j Hi Hj). apply (d_kdelta d D).
Qed.

(* dB = - B dA B *)
Lemma d_inverse i j : (i < p)%nat -> (j < p)%nat ->
  d (B i j) = - ksum p (fun k => ksum p (fun l => B i k * d (A k l) * B l j)).
Proof.
  intros Hi Hj.
  (* dB_ij = sum_k (BA)_ik dB_kj = sum_m B_im (sum_k A_mk dB_kj) = - sum_m B_im sum_k dA_mk B_kj *)
  transitivity (ksum p (fun k => fmul p B A i k * d (B k j))).
  { rewrite (ksum_ext p _ (fun k => kdelta i k * d (B k j))) by (intros k Hk; now rewrite (BA i k Hi Hk)).
    now rewrite ksum_delta_l. }
  rewrite (fmul_assoc p B A (fun k j => d (B k j)) i j).
  rewrite (ksum_ext p _ (fun m => - ksum p (fun l => B i m * d (A m l) * B l j))).
  - apply ksum_opp.
  - intros m Hm. unfold fmul.
    assert (H := d_prod_zero m j Hm Hj).
    transitivity (B i m * (ksum p (fun k => d (A m k) * B k j) + ksum p (fun k => A m k * d (B k j))
                           - ksum p (fun k => d (A m k) * B k j))); [ring|].
    rewrite H. rewrite <- ksum_opp.
    transitivity (B i m * - ksum p (fun k => d (A m k) * B k j)); [ring|].
    rewrite <- ksum_opp, <- ksum_mul_l. apply ksum_ext. intros l _. ring.
Qed.

(* d tr(W B) = - tr(W B dA B) for constant weights *)
Lemma d_wtrace (w : nat -> F) : (forall a, (a < p)%nat -> d (w a) = k0) ->
  d (ksum p (fun a => w a * B a a)) =
  - ksum p (fun a => ksum p (fun q => ksum p (fun r => w a * B a q * d (A q r) * B r a))).
Proof.
  intros Hw. rewrite (d_ksum d D). rewrite <- ksum_opp. apply ksum_ext. intros a Ha.
  rewrite (d_const_mul d D _ _ (Hw a Ha)), (d_inverse a a Ha Ha).
  transitivity (- (w a * ksum p (fun k => ksum p (fun l => B a k * d (A k l) * B l a)))); [ring|].
  f_equal. rewrite <- ksum_mul_l. apply ksum_ext. intros q _.
  rewrite <- ksum_mul_l. apply ksum_ext. intros r _. ring.
Qed.
End Inverse.

(* d Re(J^H J)_ab = Re(dJ^H J + J^H dJ)_ab *)
Lemma d_gram d (D : Deriv d) n (J : nat -> nat -> F) a b :
  d (kre (ksum n (fun k => kconj (J k a) * J k b))) =
  kre (ksum n (fun k => kconj (d (J k a)) * J k b) + ksum n (fun k => kconj (J k a) * d (J k b))).
Proof.
  rewrite (d_kre d D), (d_ksum d D). f_equal. rewrite <- ksum_add. apply ksum_ext. intros k _.
  now rewrite (d_mul d D), (d_conj d D).
Qed.

(* ================= Part 3: the list model ================= *)
Lemma mget_mtab r c (f : nat -> nat -> F) i j : (i < r)%nat -> (j < c)%nat -> mget (mtab r c f) i j = f i j.
Proof. intros Hi Hj. unfold mget, mtab. rewrite nth_tab by exact Hi. now rewrite nth_tab. Qed.
Lemma t3get_t3tab a b c (f : nat -> nat -> nat -> F) i j k :
  (i < a)%nat -> (j < b)%nat -> (k < c)%nat -> t3get (t3tab a b c f) i j k = f i j k.
Proof. intros Hi Hj Hk. unfold t3get, t3tab. rewrite nth_tab by exact Hi. rewrite nth_tab by exact Hj. now rewrite nth_tab. Qed.
Lemma vget_tab n (f : nat -> F) i : (i < n)%nat -> vget (tab n f) i = f i.
Proof. intros. unfold vget. now apply nth_tab. Qed.
Lemma vget_map_opp (v : list F) i : (i < length v)%nat -> vget (map kopp v) i = - vget v i.
Proof.
  intros H. unfold vget. rewrite (nth_indep _ k0 (kopp k0)) by now rewrite map_length.
  now rewrite map_nth.
Qed.

(* the defining Fisher matrix Re(J^H J)/sigma2 as an index function *)
Definition fisher_spec (n : nat) (sigma2 : F) (J : mat F) (a b : nat) : F :=
  kinv sigma2 * kre (ksum n (fun k => kconj (mget J k a) * mget J k b)).

Lemma fisher_entries n p sigma2 J a b : (a < p)%nat -> (b < p)%nat ->
  mget (fisher n p sigma2 J) a b = fisher_spec n sigma2 J a b.
Proof.
  intros Ha Hb. unfold fisher, gram, fisher_spec. rewrite mget_mtab by assumption. now rewrite mget_mtab.
Qed.

Lemma is_rinv_ext p (A A' B B' : nat -> nat -> F) :
  (forall i j, (i < p)%nat -> (j < p)%nat -> A i j = A' i j) ->
  (forall i j, (i < p)%nat -> (j < p)%nat -> B i j = B' i j) ->
  is_rinv p A B -> is_rinv p A' B'.
Proof.
  intros HA HB H i j Hi Hj. rewrite <- (H i j Hi Hj). unfold fmul. apply ksum_ext.
  intros k Hk. now rewrite (HA i k Hi Hk), (HB k j Hk Hj).
Qed.

Section Crlb.
Variable inv : mat F -> mat F.
Variables (n p : nat) (J : mat F) (W : option (list F)) (sigma2 : F).
Let A := fisher n p sigma2 J.
(* numpy.linalg.inv returns a two-sided inverse of the Fisher matrix (non-singular case) *)
Hypothesis inv_r : is_rinv p (mget A) (mget (inv A)).
Hypothesis inv_l : is_rinv p (mget (inv A)) (mget A).

Lemma crlb_unfold : crlb inv n p J W sigma2 = ksum p (fun a => wget W a * mget (inv A) a a).
Proof.
  unfold crlb, mtrace, wscale, crlb_lb. fold A. apply ksum_ext. intros a Ha. now rewrite mget_mtab.
Qed.

(* crlb = tr(W B) for EVERY right inverse B of Re(J^H J)/sigma2 *)
Theorem crlb_formula (B : nat -> nat -> F) :
  is_rinv p (fisher_spec n sigma2 J) B ->
  crlb inv n p J W sigma2 = ksum p (fun a => wget W a * B a a).
Proof.
  intros HB. rewrite crlb_unfold. apply ksum_ext. intros a Ha. f_equal. symmetry.
  apply (inv_unique p (mget A) (mget (inv A)) inv_l B); try assumption.
  apply (is_rinv_ext p (fisher_spec n sigma2 J) (mget A) B B); auto.
  intros i j Hi Hj. symmetry. now apply fisher_entries.
Qed.

Theorem crlb_split_diag a : (a < p)%nat ->
  forall B, is_rinv p (fisher_spec n sigma2 J) B ->
  vget (crlb_split inv n p J W sigma2) a = B a a * wget W a.
Proof.
  intros Ha B HB. unfold crlb_split, crlb_lb. fold A. rewrite vget_tab by exact Ha.
  assert (E : mget (inv A) a a = B a a).
  { symmetry. apply (inv_unique p (mget A) (mget (inv A)) inv_l B); try assumption.
    apply (is_rinv_ext p (fisher_spec n sigma2 J) (mget A) B B); auto.
    intros i j Hi Hj. symmetry. now apply fisher_entries. }
  destruct W; simpl; rewrite E; [reflexivity|ring].
Qed.

(* sum of the split bounds = the cost *)
Lemma crlb_split_sum : ksum p (fun a => vget (crlb_split inv n p J W sigma2) a) = crlb inv n p J W sigma2.
Proof.
  rewrite crlb_unfold. apply ksum_ext. intros a Ha. unfold crlb_split, crlb_lb. fold A.
  rewrite vget_tab by exact Ha. destruct W; simpl; ring.
Qed.

(* ---- gradient *)
Variables (nx : nat) (H : ten3 F).
Variable dd : nat -> F -> F.                 (* one derivation per gradient direction x *)
Hypothesis DD : forall x, (x < nx)%nat -> Deriv (dd x).
(* H holds the derivatives of the entries of J *)
Hypothesis H_is_dJ : forall x k a, (x < nx)%nat -> (k < n)%nat -> (a < p)%nat ->
  t3get H k a x = dd x (mget J k a).
(* sigma2 and the weights are real constants *)
Hypothesis sigma2_real : kconj sigma2 = sigma2.
Hypothesis sigma2_nz : sigma2 <> k0.
Hypothesis sigma2_const : forall x, (x < nx)%nat -> dd x sigma2 = k0.
Hypothesis W_const : forall x a, (x < nx)%nat -> (a < p)%nat -> dd x (wget W a) = k0.

(* the symmetrised, real HJ array of the code is d(Fisher) *)
Lemma hj_is_dfisher x q r : (x < nx)%nat -> (q < p)%nat -> (r < p)%nat ->
  kre (t3get (hj2 p nx (hj1 n p nx H J sigma2)) q r x) = dd x (mget A q r).
Proof.
  intros Hx Hq Hr. pose proof (DD x Hx) as D.
  unfold A. rewrite (fisher_entries n p sigma2 J q r Hq Hr). unfold fisher_spec.
  rewrite (d_const_mul (dd x) D _ _ (d_kinv_const (dd x) D sigma2 sigma2_nz (sigma2_const x Hx))).
  rewrite (d_gram (dd x) D n (mget J) q r).
  unfold hj2, hj1, ehj. rewrite t3get_t3tab by assumption.
  rewrite !t3get_t3tab by assumption.
  pose proof (conj_kinv_real sigma2 sigma2_nz sigma2_real) as Hc.
  set (s := kinv sigma2) in *.
  (* ksum (conj H_krx J_kq) : (dJ^H J)_rq ;  conj (ksum (conj H_kqx J_kr)) : (J^H dJ)_rq *)
  rewrite (conj_mul F LS), (conj_mul F LS), Hc, (conj_1 F LS), ksum_conj.
  rewrite (ksum_ext n (fun k => kconj (t3get H k r x) * mget J k q) (fun k => kconj (dd x (mget J k r)) * mget J k q))
    by (intros k Hk; now rewrite (H_is_dJ x k r Hx Hk Hr)).
  rewrite (ksum_ext n (fun i => kconj (kconj (t3get H i q x) * mget J i r)) (fun k => dd x (mget J k q) * kconj (mget J k r))).
  2:{ intros k Hk. rewrite (conj_mul F LS), (conj_invol F LS). now rewrite (H_is_dJ x k q Hx Hk Hq). }
  set (S1 := ksum n (fun k => kconj (dd x (mget J k r)) * mget J k q)).
  set (S2 := ksum n (fun k => dd x (mget J k q) * kconj (mget J k r))).
  (* the spec side: kre (conj S2' + ...) ; S1 = conj of (J^H dJ)_qr etc. *)
  assert (E1 : ksum n (fun k => kconj (dd x (mget J k q)) * mget J k r) = kconj S2).
  { unfold S2. rewrite ksum_conj. apply ksum_ext. intros k _.
    rewrite (conj_mul F LS), (conj_invol F LS). reflexivity. }
  assert (E2 : ksum n (fun k => kconj (mget J k q) * dd x (mget J k r)) = kconj S1).
  { unfold S1. rewrite ksum_conj. apply ksum_ext. intros k _.
    rewrite (conj_mul F LS), (conj_invol F LS). ring. }
  rewrite E1, E2.
  replace (S1 * k1 * s + S2 * k1 * s) with (s * (S1 + S2)) by ring.
  rewrite (kre_real_mul s _ Hc). f_equal.
  rewrite !kre_add, !kre_conj. ring.
Qed.

(* the returned gradient is the exact derivative of the returned cost *)
Theorem crlb_grad_exact x : (x < nx)%nat ->
  vget (crlb_grad inv n p nx J H W sigma2) x = dd x (crlb inv n p J W sigma2).
Proof.
  intros Hx. pose proof (DD x Hx) as D.
  rewrite crlb_unfold.
  rewrite (d_wtrace p (mget A) (mget (inv A)) inv_r inv_l (dd x) D (wget W)) by (intros; now apply W_const).
  unfold crlb_grad, crlb_lb. fold A.
  rewrite vget_map_opp by (unfold egrad; now rewrite length_tab).
  f_equal. unfold egrad. rewrite vget_tab by exact Hx.
  apply ksum_ext. intros a Ha. apply ksum_ext. intros q Hq. apply ksum_ext. intros r Hr.
  unfold wscale, t3re. rewrite mget_mtab by assumption. rewrite t3get_t3tab by assumption.
  rewrite (hj_is_dfisher x q r Hx Hq Hr). reflexivity.
Qed.

End Crlb.

(* ---- confint *)
Section Confint.
Variable inv : mat F -> mat F.
Variables (n p : nat) (obs pred : list F) (J : mat F).

Definition res_spec (k : nat) : F := vget obs k - vget pred k.
Definition sse_spec : F := kre (ksum n (fun k => res_spec k * kconj (res_spec k))).
Definition gram_spec (a b : nat) : F := kre (ksum n (fun k => kconj (mget J k a) * mget J k b)).
(* residual-weighted Hessian term of the property: Re(sum_n conj(H_n[b][a]) res_n) *)
Definition hterm_spec (H : ten3 F) (a b : nat) : F := kre (ksum n (fun k => kconj (t3get H k b a) * res_spec k)).
(* what the present code computes instead *)
Definition hterm_outer (H : ten3 F) (a b : nat) : F :=
  kre (ksum n (fun k => ksum n (fun y => kconj (t3get H k b a) * res_spec y))).

Lemma sse_entries : sse n (residual n obs pred) = sse_spec.
Proof.
  unfold sse, sse_spec, residual. f_equal. apply ksum_ext. intros k Hk.
  now rewrite vget_tab by exact Hk.
Qed.

Lemma info_entries_nohess outer plus a b : (a < p)%nat -> (b < p)%nat ->
  mget (confint_info outer plus n p J None (residual n obs pred)) a b = gram_spec a b.
Proof.
  intros Ha Hb. simpl. unfold mre, gram, gram_spec. rewrite mget_mtab by assumption. now rewrite mget_mtab.
Qed.

Lemma info_entries_hess outer plus H a b : (a < p)%nat -> (b < p)%nat ->
  mget (confint_info outer plus n p J (Some H) (residual n obs pred)) a b =
  let t := if outer then hterm_outer H a b else hterm_spec H a b in
  if plus then gram_spec a b + t else gram_spec a b - t.
Proof.
  intros Ha Hb. simpl. unfold hmle. rewrite mget_mtab by assumption.
  assert (G : mget (mre p p (gram n p J)) a b = gram_spec a b).
  { unfold mre, gram, gram_spec. rewrite mget_mtab by assumption. now rewrite mget_mtab. }
  assert (T : mget (hess_term outer n p H (residual n obs pred)) a b =
              if outer then hterm_outer H a b else hterm_spec H a b).
  { unfold hess_term, mre. rewrite mget_mtab by assumption. destruct outer.
    - unfold ehess_outer, hterm_outer. rewrite mget_mtab by assumption. f_equal.
      apply ksum_ext. intros k Hk. apply ksum_ext. intros y Hy.
      unfold residual, res_spec. now rewrite vget_tab by exact Hy.
    - unfold ehess_contract, hterm_spec. rewrite mget_mtab by assumption. f_equal.
      apply ksum_ext. intros k Hk. unfold residual, res_spec. now rewrite vget_tab by exact Hk. }
  rewrite G, T. reflexivity.
Qed.

Variables (outer plus : bool) (H : option (ten3 F)).
Let M := confint_info outer plus n p J H (residual n obs pred).
Hypothesis inv_r : is_rinv p (mget M) (mget (inv M)).
Hypothesis inv_l : is_rinv p (mget (inv M)) (mget M).

(* the matrix that the property prescribes *)
Definition info_spec (a b : nat) : F :=
  match H with None => gram_spec a b | Some h => gram_spec a b - hterm_spec h a b end.
(* the matrix that the code (with the switches read from the source) inverts *)
Definition info_code (a b : nat) : F :=
  match H with
  | None => gram_spec a b
  | Some h => let t := if outer then hterm_outer h a b else hterm_spec h a b in
              if plus then gram_spec a b + t else gram_spec a b - t
  end.

Lemma info_code_entries a b : (a < p)%nat -> (b < p)%nat -> mget M a b = info_code a b.
Proof.
  intros Ha Hb. unfold M, info_code. destruct H.
  - now apply info_entries_hess.
  - now apply info_entries_nohess.
Qed.

(* variances returned by the model = SSE/dof * diag of THE inverse of the code's information matrix *)
Theorem confint_code_formula (B : nat -> nat -> F) : is_rinv p info_code B ->
  forall a, (a < p)%nat ->
  vget (confint_var inv outer plus n p obs pred J H) a = B a a * (sse_spec * kinv (kofnat (n - p))).
Proof.
  intros HB a Ha. unfold confint_var, confint_cov. fold M. rewrite vget_tab by exact Ha.
  rewrite mget_mtab by assumption. rewrite sse_entries. f_equal. symmetry.
  apply (inv_unique p (mget M) (mget (inv M)) inv_l B); try assumption.
  apply (is_rinv_ext p info_code (mget M) B B); auto.
  intros i j Hi Hj. symmetry. now apply info_code_entries.
Qed.

(* when the switches are (contract, minus) -- or no Hessian is given -- this is the property's formula *)
Theorem confint_formula (B : nat -> nat -> F) :
  (H = None \/ (outer = false /\ plus = false)) ->
  is_rinv p info_spec B ->
  forall a, (a < p)%nat ->
  vget (confint_var inv outer plus n p obs pred J H) a = B a a * (sse_spec * kinv (kofnat (n - p))).
Proof.
  intros Hsw HB. apply confint_code_formula.
  apply (is_rinv_ext p info_spec info_code B B); auto.
  intros i j _ _. unfold info_spec, info_code. destruct H as [h|]; [|reflexivity].
  destruct Hsw as [Hn|[-> ->]]; [discriminate|reflexivity].
Qed.

(* confidence band variances: Re(sum_ab conj(J_ka) cov_ab J_kb) *)
Theorem confint_predvar_formula k : (k < n)%nat ->
  vget (confint_predvar inv outer plus n p obs pred J H) k =
  kre (ksum p (fun a => ksum p (fun b =>
     kconj (mget J k a) * (mget (inv M) a b * (sse_spec * kinv (kofnat (n - p)))) * mget J k b))).
Proof.
  intros Hk. unfold confint_predvar, epredvar. rewrite vget_tab by exact Hk. rewrite vget_tab by exact Hk.
  f_equal. apply ksum_ext. intros a Ha. apply ksum_ext. intros b Hb.
  unfold confint_cov. fold M. rewrite mget_mtab by assumption. now rewrite sse_entries.
Qed.

(* the half-widths are tval * sqrt(variance), for the square root and t value handed in *)
Theorem confint_cints_formula (sqrt : F -> F) (tval : F) a : (a < p)%nat ->
  vget (confint_cints inv sqrt tval outer plus n p obs pred J H) a =
  tval * sqrt (vget (confint_var inv outer plus n p obs pred J H) a).
Proof.
  intros Ha. unfold confint_cints, vget.
  rewrite (nth_indep _ k0 (tval * sqrt k0)).
  - exact (map_nth (fun v => tval * sqrt v) _ k0 a).
  - rewrite map_length. unfold confint_var. now rewrite length_tab.
Qed.

End Confint.

(* batch axes *)
Lemma crlb_batch_nth inv n p (Js : list (mat F)) W sigma2 i : (i < length Js)%nat ->
  nth i (crlb_batch inv n p Js W sigma2) k0 = crlb inv n p (nth i Js []) W sigma2.
Proof.
  intros Hi. unfold crlb_batch.
  rewrite (nth_indep _ k0 (crlb inv n p [] W sigma2)) by now rewrite map_length.
  exact (map_nth (fun J => crlb inv n p J W sigma2) Js [] i).
Qed.

(* the checked inverse: when [inv_ok_b] answers true the inverse hypotheses hold *)
Lemma meqb_true p (A B : mat F) : meqb p A B = true ->
  forall i j, (i < p)%nat -> (j < p)%nat -> mget A i j = mget B i j.
Proof.
  unfold meqb. intros Hm i j Hi Hj. rewrite forallb_forall in Hm.
  specialize (Hm i). rewrite in_seq in Hm. specialize (Hm ltac:(lia)).
  rewrite forallb_forall in Hm. specialize (Hm j). rewrite in_seq in Hm. specialize (Hm ltac:(lia)).
  now apply (keqb_eq F LS).
Qed.

Theorem inv_ok_b_sound inv p (A : mat F) : inv_ok_b inv p A = true ->
  is_rinv p (mget A) (mget (inv A)) /\ is_rinv p (mget (inv A)) (mget A).
Proof.
  unfold inv_ok_b. rewrite andb_true_iff. intros [H1 H2]. split; intros i j Hi Hj.
  - pose proof (meqb_true p _ _ H1 i j Hi Hj) as E. unfold lmul, mident in E.
    rewrite !mget_mtab in E by assumption. exact E.
  - pose proof (meqb_true p _ _ H2 i j Hi Hj) as E. unfold lmul, mident in E.
    rewrite !mget_mtab in E by assumption. exact E.
Qed.

(* the adjugate inverse is an inverse, symbolically, for 1x1 and 2x2 matrices with non-zero determinant *)
Ltac mat_red := cbv [det ksum ksign Nat.even length nth map drop_nth firstn skipn app minor mget mtab tab seq
  fmul kdelta Nat.eqb Nat.sub Nat.add].

Lemma minv_adj_1x1 (a : F) : a <> k0 ->
  is_rinv 1 (mget [[a]]) (mget (minv_adj [[a]])) /\ is_rinv 1 (mget (minv_adj [[a]])) (mget [[a]]).
Proof.
  intros Ha.
  assert (Hd : det 1 [[a]] = a) by (mat_red; ring).
  pose proof (kinv_l F L a Ha) as Hv.
  split; intros i j Hi Hj; assert (i = 0)%nat by lia; assert (j = 0)%nat by lia; subst;
    unfold minv_adj; cbv zeta; cbn [length]; rewrite Hd; set (v := kinv a) in *; clearbody v;
    mat_red; (transitivity (v * a); [ring | exact Hv]).
Qed.

Lemma minv_adj_2x2 (a b c e : F) : a * e - b * c <> k0 ->
  let M := [[a; b]; [c; e]] in
  is_rinv 2 (mget M) (mget (minv_adj M)) /\ is_rinv 2 (mget (minv_adj M)) (mget M).
Proof.
  intros Hd M.
  assert (Hdet : det 2 M = a * e - b * c) by (unfold M; mat_red; ring).
  pose proof (kinv_l F L _ Hd) as Hv.
  split; intros i j Hi Hj;
    (destruct i as [|[|i]]; [| |lia]); (destruct j as [|[|j]]; [| |lia]);
    unfold minv_adj, M; cbv zeta; cbn [length]; fold M; rewrite Hdet;
    set (v := kinv (a * e - b * c)) in *; clearbody v; unfold M; mat_red;
    first [ ring | transitivity (v * (a * e - b * c)); [ring | exact Hv] ].
Qed.

End Sums.

(* ================= Part 4: executable instance, witness, menu ================= *)
From Coq Require Import Field Lqa.

Lemma Qc_sumsq_nz (a b : Qc) : (a, b) <> (Q2Qc 0, Q2Qc 0) -> (a * a + b * b)%Qc <> Q2Qc 0.
Proof.
  intros H E. apply H. clear H.
  assert (E' : (this a * this a + this b * this b == 0)%Q).
  { transitivity (this (a * a + b * b)%Qc).
    - change (this (a * a + b * b)%Qc) with (Qred (Qred (this a * this a) + Qred (this b * this b))).
      rewrite !Qred_correct. reflexivity.
    - rewrite E. reflexivity. }
  assert (Ha : (this a == 0)%Q) by nra.
  assert (Hb : (this b == 0)%Q) by nra.
  f_equal; apply Qc_is_canon; simpl; assumption.
Qed.

Lemma QIFlaws : FieldLaws QIF.
Proof.
  constructor.
  - exact QIlaws.
  - intros [a b] Hx. simpl in *.
    pose proof (Qc_sumsq_nz a b Hx) as Hd.
    unfold qi_mul, qi_inv, qi1. simpl. apply qi_ext; simpl; field; exact Hd.
  - apply qi_ext; simpl; apply Qc_is_canon; reflexivity.
Qed.

Lemma qi_eq_by_eqb (x y : QIF) : keqb x y = true -> x = y.
Proof. apply (keqb_eq QIops QIlaws). Qed.
Lemma qi_neq_by_eqb (x y : QIF) : keqb x y = false -> x <> y.
Proof. intros H E. subst y. pose proof (proj2 (keqb_eq QIops QIlaws x x) eq_refl) as T. simpl in *. rewrite T in H. discriminate. Qed.

(* The residual-weighted Hessian term.  Witness: one parameter, two points, J = (1,1), H = (1,0),
   obs - pred = (1,2): Re(J^H J) = 2, sum_n conj(H_n) res_n = 1, so the property's matrix is 2 - 1 = 1 and the
   variance is SSE/dof = 5.  Every other setting of the two switches gives another value
   (outer,plus: 2 + 1*3 = 5 -> 1 ; outer,minus: 2 - 3 -> -5 ; contract,plus: 2 + 1 -> 5/3). *)
Definition wit_J : mat QIF := [[qr 1 1]; [qr 1 1]].
Definition wit_H : ten3 QIF := [[[qr 1 1]]; [[qr 0 1]]].
Definition wit_obs : list QIF := [qr 1 1; qr 2 1].
Definition wit_pred : list QIF := [qr 0 1; qr 0 1].

Theorem confint_hessian_term_refuted (outer plus : bool) : outer = true \/ plus = true ->
  exists (n p : nat) (obs pred : list QIF) (J : mat QIF) (H : ten3 QIF) (B : nat -> nat -> QIF),
    let M := confint_info outer plus n p J (Some H) (residual n obs pred) in
    (is_rinv QIF p (mget M) (mget (minv_adj M)) /\ is_rinv QIF p (mget (minv_adj M)) (mget M)) /\
    is_rinv QIF p (info_spec QIF n obs pred J (Some H)) B /\
    vget (confint_var minv_adj outer plus n p obs pred J (Some H)) 0%nat <>
      (B 0%nat 0%nat * (sse_spec QIF n obs pred * kinv (kofnat (n - p))))%K.
Proof.
  intros Hsw.
  exists 2%nat, 1%nat, wit_obs, wit_pred, wit_J, wit_H, (fun _ _ => qr 1 1).
  assert (Hb : forall o pl, (o = true \/ pl = true) ->
     inv_ok_b minv_adj 1%nat (confint_info o pl 2%nat 1%nat wit_J (Some wit_H) (residual 2%nat wit_obs wit_pred)) = true /\
     keqb (vget (confint_var minv_adj o pl 2%nat 1%nat wit_obs wit_pred wit_J (Some wit_H)) 0%nat)
          (@kmul QIF (qr 1 1) (sse_spec QIF 2%nat wit_obs wit_pred * kinv (kofnat (2 - 1)%nat)))%K = false).
  { intros [|] [|] [E|E]; try discriminate E; split; vm_compute; reflexivity. }
  destruct (Hb outer plus Hsw) as [Hi Hne].
  split; [|split].
  - exact (inv_ok_b_sound QIF QIFlaws minv_adj 1%nat _ Hi).
  - intros i j Hi' Hj'. assert (i = 0)%nat by lia. assert (j = 0)%nat by lia. subst.
    apply qi_eq_by_eqb. vm_compute. reflexivity.
  - apply qi_neq_by_eqb. exact Hne.
Qed.

(* the contractions found in the source are the ones the model is written for *)
Theorem einsum_menu_ok :
  crlb_einsums = crlb_menu /\ crlb_split_einsums = crlb_split_menu /\
  confint_einsums = confint_menu confint_hess_outer confint_hess_plus.
Proof. repeat split; reflexivity. Qed.

(* non-vacuity of the hypotheses of crlb_formula / crlb_grad_exact on the executed instance *)
Example crlb_hyps_nonvacuous :
  let J : mat QIF := [[qi 1 1 1 1; qi 0 1 2 1]; [qi 2 1 0 1; qi 1 1 (-1) 1]; [qi 0 1 1 1; qi 3 1 0 1]] in
  let A := fisher (F:=QIF) 3%nat 2%nat (qr 2 1) J in
  is_rinv QIF 2%nat (mget A) (mget (minv_adj A)) /\ is_rinv QIF 2%nat (mget (minv_adj A)) (mget A).
Proof. intros J A. apply (inv_ok_b_sound QIF QIFlaws). vm_compute. reflexivity. Qed.

(* ---- t table: a looked-up value is an entry of the generated table *)
From Coq Require Import Reals Qreals.
From Coquelicot Require Import Coquelicot.

Theorem tstat_lookup_sound (level : Q) (nu : nat) (t : Q) :
  List.Forall tstat_entry_ok tstat_table -> tstat_lookup level nu = Some t -> tstat_ok level nu t.
Proof.
  intros HF. unfold tstat_lookup.
  destruct (find _ tstat_table) as [e|] eqn:E; [|discriminate].
  intros [= <-]. apply find_some in E. destruct E as [Hin Hk].
  rewrite List.Forall_forall in HF. specialize (HF e Hin).
  apply andb_true_iff in Hk. destruct Hk as [Hl Hn].
  apply Qeq_bool_eq in Hl. apply Nat.eqb_eq in Hn.
  unfold tstat_entry_ok, tstat_ok in *. rewrite <- Hn, <- (Qeq_eqR _ _ Hl). exact HF.
Qed.

(* log10 variant: the returned pair (log10 cost, grad/cost/ln 10) is (value, exact derivative) of log10 o cost *)
Theorem crlb_log_grad_exact (f : R -> R) (x g : R) :
  is_derive f x g -> (0 < f x)%R ->
  is_derive (fun u => crlb_log_cost (f u)) x (crlb_log_grad (f x) g).
Proof.
  intros Hf Hp. unfold crlb_log_cost, crlb_log_grad.
  assert (Hl : is_derive (fun u => ln (f u)) x (g / f x)%R).
  { apply (is_derive_comp ln f x (/ f x)%R g) in Hf.
    - replace (g / f x)%R with (scal g (/ f x)%R); [exact Hf|].
      unfold scal; simpl; unfold mult; simpl. unfold Rdiv. reflexivity.
    - apply is_derive_Reals. apply derivable_pt_lim_ln. exact Hp. }
  replace (g / f x / ln 10)%R with (scal (/ ln 10)%R (g / f x)%R).
  - apply (is_derive_ext (fun u => scal (/ ln 10)%R (ln (f u)))).
    + intros u. unfold scal; simpl; unfold mult; simpl. unfold Rdiv. apply Rmult_comm.
    + apply is_derive_scal. exact Hl.
  - unfold scal; simpl; unfold mult; simpl. unfold Rdiv. apply Rmult_comm.
Qed.
