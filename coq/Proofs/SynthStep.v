(* C01 core: the synthesis  M(z) = sum_k z^k state(k)  of the EPG model evolves
   like one classical Bloch isochromat (dephasing factor z) under every operator. *)
From Coq Require Import List ZArith Lia Bool Arith Ring.
From EPG Require Import Scalar State Ops ListLemmas Views WfProof Synth.
Import ListNotations.

Section SynthStep.
Variable S : ScalOps.
Hypothesis L : ScalLaws S.
Add Ring Kr : (k_ring S L).
Variables z zi : S.
Hypothesis zzi : (z * zi)%K = k1.
Notation triple := (triple S).
Notation sm := (sm S).
Notation get := (get S).
Notation gete := (gete S).
Notation syn := (syn S z zi).
Notation zpow := (zpow S z zi).
Local Open Scope Z_scope.

(* magnetisation of the isochromat with dephasing factor z: synthesis of the three
   component arrays (states and equilibrium) *)
Definition synT (w : nat) (g : Z -> triple) : triple :=
  mk3 (syn w (fun k => fp (g k))) (syn w (fun k => fm (g k))) (syn w (fun k => fz (g k))).
Definition M (s : sm) : triple := synT (nstate s) (get s).
Definition Me (s : sm) : triple := synT (nstate s) (gete s).

(* ---- isochromat (Bloch) semantics of the operators ---- *)
Definition bloch (o : op S) (m meq : triple) : triple * triple :=
  match o with
  | OScalar a a0 => (tadd (sv a m) (opt_sv S a0 meq), meq)
  | OMatrix A A0 => (tadd (mv A m) (opt_mv S A0 meq), meq)
  | OShift d _ => (mk3 (zpow d * fp m)%K (zpow (- d) * fm m)%K (fz m), meq)
  | OSpoil => (mk3 k0 k0 (fz m), meq)
  | OReset => (meq, meq)
  | OPD p r => let e := mk3 k0 k0 p in (if r then e else m, e)
  | OWait => (m, meq)
  end.

Definition bloch_run (ops : list (op S)) (mm : triple * triple) : triple * triple :=
  fold_left (fun mm o => bloch o (fst mm) (snd mm)) ops mm.

Definition suppT (w : nat) (g : Z -> triple) : Prop :=
  forall k, k < - Z.of_nat w \/ Z.of_nat w < k -> g k = t0.

Lemma suppT_comp w g (c : triple -> S) : c t0 = k0 -> suppT w g -> supp S w (fun k => c (g k)).
Proof. intros Hc Hg k Hk. now rewrite Hg. Qed.

Lemma get_supp s n : shaped S s n -> suppT n (get s).
Proof.
  intros Hs k Hk. apply (get_out S s n k Hs). unfold inwin.
  destruct (Z.leb_spec (- Z.of_nat n) k); destruct (Z.leb_spec k (Z.of_nat n)); simpl; auto; lia.
Qed.
Lemma gete_supp s n : shaped S s n -> suppT n (gete s).
Proof.
  intros Hs k Hk. apply (gete_out S s n k Hs). unfold inwin.
  destruct (Z.leb_spec (- Z.of_nat n) k); destruct (Z.leb_spec k (Z.of_nat n)); simpl; auto; lia.
Qed.

Lemma synT_ext w g h : (forall k, g k = h k) -> synT w g = synT w h.
Proof. intros H. unfold synT. f_equal; apply syn_ext; intros k; now rewrite H. Qed.

Lemma synT_widen w w' g : suppT w g -> (w <= w')%nat -> synT w' g = synT w g.
Proof.
  intros Hg Hw. unfold synT.
  f_equal; apply (syn_widen S L); auto; apply suppT_comp; auto.
Qed.

Lemma synT_delta w g : suppT 0 g -> synT w g = g 0.
Proof.
  intros Hg. unfold synT.
  rewrite !(syn_delta S L) by (apply suppT_comp; auto).
  now destruct (g 0).
Qed.

(* linear state-wise maps commute with synthesis *)
Lemma synT_sv w a g : synT w (fun k => sv a (g k)) = sv a (synT w g).
Proof. unfold synT, sv; simpl. f_equal; apply (syn_scale S L). Qed.

Lemma synT_tadd w g h : synT w (fun k => tadd (g k) (h k)) = tadd (synT w g) (synT w h).
Proof. unfold synT, tadd; simpl. f_equal; apply (syn_add S L). Qed.

Lemma synT_mv w A g : synT w (fun k => mv A (g k)) = mv A (synT w g).
Proof.
  unfold synT, mv, dot; simpl.
  f_equal; rewrite !(syn_add S L), !(syn_scale S L); reflexivity.
Qed.

Lemma synT_t0 w : synT w (fun _ => t0) = t0.
Proof. unfold synT, t0; simpl. f_equal; apply (syn_zero S L). Qed.

Lemma synT_opt_sv w a0 g : synT w (fun k => opt_sv S a0 (g k)) = opt_sv S a0 (synT w g).
Proof. destruct a0; simpl; [apply synT_sv|apply synT_t0]. Qed.
Lemma synT_opt_mv w a0 g : synT w (fun k => opt_mv S a0 (g k)) = opt_mv S a0 (synT w g).
Proof. destruct a0; simpl; [apply synT_mv|apply synT_t0]. Qed.

Lemma M_shaped s n : shaped S s n -> M s = synT n (get s).
Proof. intros Hs. unfold M. now rewrite (shaped_nstate S s n Hs). Qed.
Lemma Me_shaped s n : shaped S s n -> Me s = synT n (gete s).
Proof. intros Hs. unfold Me. now rewrite (shaped_nstate S s n Hs). Qed.

(* equilibrium supported on the zero state (part of well-formedness) *)
Definition eq_centred (s : sm) : Prop := forall k, k <> 0 -> gete s k = t0.

Lemma Me_centred s n : shaped S s n -> eq_centred s -> Me s = gete s 0.
Proof.
  intros Hs Hc. rewrite (Me_shaped s n Hs). apply synT_delta.
  intros k Hk. apply Hc. lia.
Qed.

(* a shift is not truncated when the cap leaves room for all 2(n+|d|)+1 states *)
Definition no_trunc (o : op S) (s : sm) : Prop :=
  match o with
  | OShift d nmax => shift_n d nmax (nstate s) = (nstate s + Z.abs_nat d)%nat
  | _ => True
  end.

Lemma get_resize_grow s n n' k : shaped S s n -> (n <= n')%nat -> get (resize s n') k = get s k.
Proof.
  intros Hs Hn. rewrite (get_resize S s n n' k Hs).
  destruct (inwin n' k) eqn:E; auto. symmetry. apply (get_out S s n k Hs).
  unfold inwin in *.
  destruct (Z.leb_spec (- Z.of_nat n') k); destruct (Z.leb_spec k (Z.of_nat n'));
  destruct (Z.leb_spec (- Z.of_nat n) k); destruct (Z.leb_spec k (Z.of_nat n)); simpl in *; auto; try discriminate; lia.
Qed.
Lemma gete_resize_grow s n n' k : shaped S s n -> (n <= n')%nat -> gete (resize s n') k = gete s k.
Proof.
  intros Hs Hn. rewrite (gete_resize S s n n' k Hs).
  destruct (inwin n' k) eqn:E; auto. symmetry. apply (gete_out S s n k Hs).
  unfold inwin in *.
  destruct (Z.leb_spec (- Z.of_nat n') k); destruct (Z.leb_spec k (Z.of_nat n'));
  destruct (Z.leb_spec (- Z.of_nat n) k); destruct (Z.leb_spec k (Z.of_nat n)); simpl in *; auto; try discriminate; lia.
Qed.

(* untruncated shift, as a function of the phase-state index *)
Lemma get_shift_notrunc d nmax s n k : shaped S s n ->
  shift_n d nmax n = (n + Z.abs_nat d)%nat ->
  get (apply_shift d nmax s) k =
  mk3 (fp (get s (k - d))) (fm (get s (k + d))) (fz (get s k)).
Proof.
  intros Hs Hn. rewrite (get_shift S d nmax s n k Hs). cbv zeta. rewrite Hn.
  rewrite !(get_resize_grow s n) by (auto; lia).
  destruct (inwin (n + Z.abs_nat d) k) eqn:E; auto.
  assert (k < - Z.of_nat (n + Z.abs_nat d) \/ Z.of_nat (n + Z.abs_nat d) < k) as Hk.
  { unfold inwin in E.
    destruct (Z.leb_spec (- Z.of_nat (n + Z.abs_nat d)) k); destruct (Z.leb_spec k (Z.of_nat (n + Z.abs_nat d))); simpl in E; try discriminate; lia. }
  rewrite !(get_supp s n Hs) by lia. reflexivity.
Qed.

Theorem synth_step o s :
  (exists n, shaped S s n) -> eq_centred s -> no_trunc o s ->
  (M (apply o s), Me (apply o s)) = bloch o (M s) (Me s).
Proof.
  intros [n Hs] Hc Hnt.
  pose proof (apply_shaped S o s n Hs) as Hs'.
  rewrite (M_shaped _ _ Hs'), (Me_shaped _ _ Hs'), (M_shaped _ _ Hs), (Me_shaped _ _ Hs).
  destruct o as [a a0|A A0|d nmax| | |p r|]; simpl in *.
  - (* ScalarOp *)
    f_equal.
    + rewrite (synT_ext _ _ (fun k => tadd (sv a (get s k)) (opt_sv S a0 (gete s k))))
        by (intros k; apply (get_scalar S L a a0 s n k Hs)).
      now rewrite synT_tadd, synT_sv, synT_opt_sv.
    + apply synT_ext. intros k. apply gete_scalar.
  - (* MatrixOp *)
    f_equal.
    + rewrite (synT_ext _ _ (fun k => tadd (mv A (get s k)) (opt_mv S A0 (gete s k))))
        by (intros k; apply (get_matrix S L A A0 s n k Hs)).
      now rewrite synT_tadd, synT_mv, synT_opt_mv.
    + apply synT_ext. intros k. apply gete_matrix.
  - (* Shift *)
    rewrite (shaped_nstate S s n Hs) in Hnt. rewrite Hnt.
    f_equal.
    + rewrite (synT_ext _ _ (fun k => mk3 (fp (get s (k - d))) (fm (get s (k + d))) (fz (get s k))))
        by (intros k; apply (get_shift_notrunc d nmax s n k Hs Hnt)).
      unfold synT; simpl. f_equal.
      * apply (syn_shift S L z zi zzi n (n + Z.abs_nat d) d (fun k => fp (get s k))).
        -- apply suppT_comp; auto. now apply get_supp.
        -- lia.
      * rewrite (syn_ext S z zi _ (fun k => fm (get s (k + d))) (fun k => (fun j => fm (get s j)) (k - - d)))
          by (intros k; simpl; f_equal; f_equal; lia).
        apply (syn_shift S L z zi zzi n (n + Z.abs_nat d) (- d) (fun k => fm (get s k))).
        -- apply suppT_comp; auto. now apply get_supp.
        -- lia.
      * apply (syn_widen S L). { apply suppT_comp; auto. now apply get_supp. } lia.
    + rewrite (synT_ext _ _ (gete s)).
      * apply synT_widen; [now apply gete_supp|lia].
      * intros k. rewrite (gete_shift S d nmax s n k Hs), Hnt.
        apply (gete_resize_grow s n); auto; lia.
  - (* Spoiler *)
    f_equal.
    rewrite (synT_ext _ _ (fun k => mk3 k0 k0 (fz (get s k)))) by (intros k; apply get_spoil).
    unfold synT; simpl. f_equal; apply (syn_zero S L).
  - (* Reset *)
    assert (E : synT 0 (fun k => if k =? 0 then gete s 0 else t0) = synT n (gete s)).
    { rewrite synT_delta by (intros k Hk; destruct (Z.eqb_spec k 0); [lia|reflexivity]).
      simpl. symmetry. rewrite <- (Me_shaped s n Hs). now apply (Me_centred s n). }
    f_equal.
    + rewrite <- E. apply synT_ext. intros k. apply (get_reset S s n k Hs).
    + rewrite <- E. apply synT_ext. intros k. apply (gete_reset S s n k Hs).
  - (* PD *)
    assert (E : synT n (fun k => if k =? 0 then mk3 k0 k0 p else t0) = mk3 k0 k0 p).
    { rewrite synT_delta by (intros k Hk; destruct (Z.eqb_spec k 0); [lia|reflexivity]). reflexivity. }
    f_equal.
    + destruct r.
      * rewrite <- E. apply synT_ext. intros k. apply (get_pd S p true s n k Hs).
      * apply synT_ext. intros k. apply (get_pd S p false s n k Hs).
    + rewrite <- E. apply synT_ext. intros k. apply (gete_pd S p r s n k Hs).
  - reflexivity.
Qed.

(* whole programs: no shift of the run is truncated *)
Fixpoint no_trunc_run (ops : list (op S)) (s : sm) : Prop :=
  match ops with
  | [] => True
  | o :: t => no_trunc o s /\ no_trunc_run t (apply o s)
  end.

Theorem synth_run ops s :
  wf S s -> Forall (wf_op S) ops -> no_trunc_run ops s ->
  (M (run ops s), Me (run ops s)) = bloch_run ops (M s, Me s).
Proof.
  revert s. induction ops as [|o ops IH]; intros s W Hops Hnt; simpl; auto.
  inversion Hops as [|? ? Ho Hrest]; subst. destruct Hnt as [Hn1 Hn2].
  rewrite IH; auto.
  - rewrite (synth_step o s); auto.
    + apply (wf_shape S s W).
    + intros k Hk. now apply (wf_eq_off S s W).
  - now apply (wf_step S L).
Qed.

(* the F0 / Z0 values returned by simulate() are read off the centre state *)
Definition F0 (s : sm) : S := fp (get s 0).
Definition Z0 (s : sm) : S := fz (get s 0).

End SynthStep.
