(* C13 (1-D): truncation at a cap m.  No state beyond the cap is kept, and the truncated run agrees
   with the untruncated one on all phase states |k| <= 2m+1-A, where A is the accumulated absolute
   shift (since the last reset): every F0/Z0 acquisition with A <= 2m+1 is identical. *)
From Coq Require Import List ZArith Lia Bool Arith Ring.
From EPG Require Import Scalar State Ops ListLemmas Views.
Import ListNotations.

Section Trunc.
Variable S : ScalOps.
Hypothesis L : ScalLaws S.
Notation sm := (sm S).
Notation get := (get S).
Notation gete := (gete S).
Local Open Scope Z_scope.
Variable m : nat.      (* the cap: max_nstate / nmax *)

Definition capped (o : op S) : op S := match o with OShift d _ => OShift d (Some m) | _ => o end.
Definition uncapped (o : op S) : op S := match o with OShift d _ => OShift d None | _ => o end.

(* accumulated absolute shift; a reset starts again from the single zero state *)
Definition acc_step (o : op S) (A : nat) : nat :=
  match o with OShift d _ => (A + Z.abs_nat d)%nat | OReset => 0%nat | _ => A end.

Definition inv (A : nat) (t u : sm) : Prop :=
  exists nt nu, shaped S t nt /\ shaped S u nu /\ (nt <= A)%nat /\ (nu <= A)%nat /\
    (forall k, gete t k = gete u k) /\ (forall k, k <> 0 -> gete t k = t0) /\
    (forall k, Z.abs k <= 2 * Z.of_nat m + 1 - Z.of_nat A -> get t k = get u k).

(* (1) the cap is respected *)
Theorem trunc_cap d s n : shaped S s n ->
  exists n', shaped S (apply (capped (OShift d None)) s) n' /\ (n' <= m)%nat.
Proof.
  intros Hs. exists (shift_n d (Some m) n). split.
  - cbn [capped apply]. exact (shift_shaped S d (Some m) s n Hs).
  - unfold shift_n. lia.
Qed.

Lemma inwin_spec n k : inwin n k = true <-> Z.abs k <= Z.of_nat n.
Proof.
  unfold inwin. destruct (Z.leb_spec (- Z.of_nat n) k); destruct (Z.leb_spec k (Z.of_nat n)); simpl; split; intros; try lia; try discriminate.
Qed.
Lemma inwin_false n k : inwin n k = false <-> Z.of_nat n < Z.abs k.
Proof.
  destruct (inwin n k) eqn:E.
  - apply inwin_spec in E. split; [discriminate|lia].
  - split; auto. intros _. destruct (Z_le_gt_dec (Z.abs k) (Z.of_nat n)) as [H|H]; [|lia].
    apply inwin_spec in H. congruence.
Qed.

Lemma get_zero_outside s n k : shaped S s n -> Z.of_nat n < Z.abs k -> get s k = t0.
Proof. intros Hs Hk. apply (get_out S s n k Hs). now apply inwin_false. Qed.

(* (2) one shift: the clean radius shrinks by |d| *)
Lemma inv_shift A t u d nm nm' : inv A t u ->
  inv (A + Z.abs_nat d) (apply (capped (OShift d nm)) t) (apply (uncapped (OShift d nm')) u).
Proof.
  intros (nt & nu & Ht & Hu & Hnt & Hnu & He & Hc & Hg). simpl.
  set (nt' := shift_n d (Some m) nt). set (nu' := shift_n d None nu).
  exists nt', nu'. split; [now apply shift_shaped|split; [now apply shift_shaped|]].
  assert (Hnt' : (nt' <= A + Z.abs_nat d)%nat) by (unfold nt', shift_n; lia).
  assert (Hnu' : (nu' <= A + Z.abs_nat d)%nat) by (unfold nu', shift_n; lia).
  assert (Hcu : forall k, k <> 0 -> gete u k = t0) by (intros k Hk; rewrite <- He; now apply Hc).
  split; [exact Hnt'|split; [exact Hnu'|split; [|split]]].
  - (* equilibrium: centred in both, so resizing does not matter as long as the centre is kept *)
    intros k. rewrite (gete_shift S d (Some m) t nt k Ht), (gete_shift S d None u nu k Hu).
    rewrite (gete_resize S t nt _ k Ht), (gete_resize S u nu _ k Hu).
    fold nt' nu'.
    destruct (Z.eq_dec k 0) as [->|Hk0].
    + assert (inwin nt' 0 = true) as -> by (apply inwin_spec; lia).
      assert (inwin nu' 0 = true) as -> by (apply inwin_spec; lia). apply He.
    + rewrite (Hc k Hk0), (Hcu k Hk0). now destruct (inwin nt' k), (inwin nu' k).
  - intros k Hk0. rewrite (gete_shift S d (Some m) t nt k Ht), (gete_resize S t nt _ k Ht).
    destruct (inwin _ k); auto.
  - intros k Hk.
    rewrite (get_shift S d (Some m) t nt k Ht), (get_shift S d None u nu k Hu). cbv zeta. fold nt' nu'.
    assert (Hres_t : forall j, get (resize t nt') j = if inwin nt' j then get t j else t0)
      by (intros j; apply (get_resize S t nt nt' j Ht)).
    assert (Hres_u : forall j, get (resize u nu') j = get u j).
    { intros j. rewrite (get_resize S u nu nu' j Hu). destruct (inwin nu' j) eqn:E; auto.
      symmetry. apply (get_zero_outside u nu j Hu). apply inwin_false in E. unfold nu', shift_n in E. lia. }
    rewrite !Hres_u, !Hres_t.
    assert (HA : Z.of_nat (A + Z.abs_nat d) = Z.of_nat A + Z.abs d) by lia.
    (* values of the untruncated run vanish beyond A *)
    assert (Uz : forall j, Z.of_nat A < Z.abs j -> get u j = t0)
      by (intros j Hj; apply (get_zero_outside u nu j Hu); lia).
    assert (Tz : forall j, Z.of_nat A < Z.abs j -> get t j = t0)
      by (intros j Hj; apply (get_zero_outside t nt j Ht); lia).
    (* source entries: equal wherever both are read, and zero where the truncated window ends *)
    assert (Src : forall j, Z.abs j <= 2 * Z.of_nat m + 1 - Z.of_nat A ->
              (if inwin nt' j then get t j else t0) = get u j).
    { intros j Hj. destruct (inwin nt' j) eqn:E; [now apply Hg|].
      apply inwin_false in E. symmetry.
      destruct (Z_le_gt_dec (Z.abs j) (Z.of_nat A)) as [Hle|Hgt]; [|apply Uz; lia].
      (* |j| <= A, |j| <= 2m+1-A and |j| > nt' *)
      unfold nt', shift_n in E.
      destruct (Nat.min_spec (nt + Z.abs_nat d) m) as [[_ Hm]|[_ Hm]]; rewrite Hm in E.
      - rewrite <- (Hg j Hj). apply (get_zero_outside t nt j Ht). lia.
      - lia. }
    destruct (inwin nt' k) eqn:Ek.
    + (* inside the truncated window *)
      apply inwin_spec in Ek.
      rewrite !Src by lia. rewrite (Hg k) by lia.
      destruct (inwin nu' k) eqn:E2; [reflexivity|].
      (* outside the untruncated window everything read is zero *)
      apply inwin_false in E2. unfold nu', shift_n in E2.
      rewrite (get_zero_outside u nu (k - d) Hu), (get_zero_outside u nu (k + d) Hu), (get_zero_outside u nu k Hu) by lia.
      reflexivity.
    + (* outside the truncated window: the untruncated values must vanish there *)
      apply inwin_false in Ek.
      destruct (inwin nu' k) eqn:E2; auto.
      unfold nt', shift_n in Ek.
      destruct (le_gt_dec (nt + Z.abs_nat d) m) as [Hle|Hgt];
        [rewrite Nat.min_l in Ek by lia|rewrite Nat.min_r in Ek by lia].
      * (* no truncation took place: both sides read zeros *)
        assert (Z1 : get u (k - d) = t0).
        { destruct (Z_le_gt_dec (Z.abs (k - d)) (2 * Z.of_nat m + 1 - Z.of_nat A)) as [Hin|Hout].
          - rewrite <- (Hg _ Hin). apply (get_zero_outside t nt _ Ht). lia.
          - apply Uz. lia. }
        assert (Z2 : get u (k + d) = t0).
        { destruct (Z_le_gt_dec (Z.abs (k + d)) (2 * Z.of_nat m + 1 - Z.of_nat A)) as [Hin|Hout].
          - rewrite <- (Hg _ Hin). apply (get_zero_outside t nt _ Ht). lia.
          - apply Uz. lia. }
        assert (Z3 : get u k = t0).
        { rewrite <- (Hg k) by lia. apply (get_zero_outside t nt _ Ht). lia. }
        now rewrite Z1, Z2, Z3.
      * (* truncation: then A + |d| >= m + 1, so the claimed radius is at most m: contradiction *)
        exfalso. lia.
Qed.

Lemma inv_scalar A t u a a0 : inv A t u -> inv A (apply_scalar a a0 t) (apply_scalar a a0 u).
Proof.
  intros (nt & nu & Ht & Hu & Hnt & Hnu & He & Hc & Hg).
  exists nt, nu. split; [now apply scalar_shaped|split; [now apply scalar_shaped|]].
  repeat split; auto.
  - intros k. now rewrite !gete_scalar.
  - intros k Hk. rewrite gete_scalar. now apply Hc.
  - intros k Hk. rewrite (get_scalar S L a a0 t nt k Ht), (get_scalar S L a a0 u nu k Hu).
    now rewrite (Hg k Hk), He.
Qed.

Lemma inv_matrix A t u a a0 : inv A t u -> inv A (apply_matrix a a0 t) (apply_matrix a a0 u).
Proof.
  intros (nt & nu & Ht & Hu & Hnt & Hnu & He & Hc & Hg).
  exists nt, nu. split; [now apply matrix_shaped|split; [now apply matrix_shaped|]].
  repeat split; auto.
  - intros k. now rewrite !gete_matrix.
  - intros k Hk. rewrite gete_matrix. now apply Hc.
  - intros k Hk. rewrite (get_matrix S L a a0 t nt k Ht), (get_matrix S L a a0 u nu k Hu).
    now rewrite (Hg k Hk), He.
Qed.

Lemma inv_spoil A t u : inv A t u -> inv A (apply_spoil t) (apply_spoil u).
Proof.
  intros (nt & nu & Ht & Hu & Hnt & Hnu & He & Hc & Hg).
  exists nt, nu. split; [now apply spoil_shaped|split; [now apply spoil_shaped|]].
  repeat split; auto.
  intros k Hk. rewrite !(get_spoil S). now rewrite (Hg k Hk).
Qed.

Lemma inv_pd A t u p r : inv A t u -> inv A (apply_pd p r t) (apply_pd p r u).
Proof.
  intros (nt & nu & Ht & Hu & Hnt & Hnu & He & Hc & Hg).
  exists nt, nu. split; [now apply pd_shaped|split; [now apply pd_shaped|]].
  repeat split; auto.
  - intros k. now rewrite (gete_pd S p r t nt k Ht), (gete_pd S p r u nu k Hu).
  - intros k Hk. rewrite (gete_pd S p r t nt k Ht). destruct (Z.eqb_spec k 0); [contradiction|reflexivity].
  - intros k Hk. rewrite (get_pd S p r t nt k Ht), (get_pd S p r u nu k Hu).
    destruct r; auto.
Qed.

Lemma inv_reset A t u : inv A t u -> inv 0 (apply_reset t) (apply_reset u).
Proof.
  intros (nt & nu & Ht & Hu & Hnt & Hnu & He & Hc & Hg).
  exists 0%nat, 0%nat. split; [now apply (reset_shaped S t nt)|split; [now apply (reset_shaped S u nu)|]].
  repeat split; auto.
  - intros k. rewrite (gete_reset S t nt k Ht), (gete_reset S u nu k Hu). now rewrite He.
  - intros k Hk. rewrite (gete_reset S t nt k Ht). destruct (Z.eqb_spec k 0); [contradiction|reflexivity].
  - intros k Hk. rewrite (get_reset S t nt k Ht), (get_reset S u nu k Hu). now rewrite He.
Qed.

Theorem trunc_step A o t u : inv A t u -> inv (acc_step o A) (apply (capped o) t) (apply (uncapped o) u).
Proof.
  intros H. destruct o as [a a0|a a0|d nm| | |p r|]; cbn [capped uncapped acc_step apply].
  - now apply inv_scalar. - now apply inv_matrix.
  - exact (inv_shift A t u d nm nm H).
  - now apply inv_spoil. - now apply (inv_reset A). - now apply inv_pd. - exact H.
Qed.

Definition acc_run (ops : list (op S)) (A : nat) : nat := fold_left (fun a o => acc_step o a) ops A.

(* every program: the truncated run agrees with the untruncated one within the clean radius *)
Theorem trunc_horizon ops A t u : inv A t u ->
  inv (acc_run ops A) (run (map capped ops) t) (run (map uncapped ops) u).
Proof.
  revert A t u. induction ops as [|o ops IH]; intros A t u H; simpl; auto.
  unfold run, acc_run in *. simpl. apply IH. now apply trunc_step.
Qed.

Lemma inv_refl s n : shaped S s n -> (forall k, k <> 0 -> gete s k = t0) -> inv n s s.
Proof. intros Hs Hc. exists n, n. repeat split; auto; apply Hs. Qed.

(* F0 / Z0 acquisitions made while the accumulated absolute shift is at most 2m+1 are exact *)
Corollary trunc_F0_Z0_exact ops s n :
  shaped S s n -> (forall k, k <> 0 -> gete s k = t0) ->
  (acc_run ops n <= 2 * m + 1)%nat ->
  get (run (map capped ops) s) 0 = get (run (map uncapped ops) s) 0.
Proof.
  intros Hs Hc HA.
  destruct (trunc_horizon ops n s s (inv_refl s n Hs Hc)) as (nt & nu & _ & _ & _ & _ & _ & _ & Hg).
  apply Hg. change (Z.abs 0) with 0. lia.
Qed.

End Trunc.
