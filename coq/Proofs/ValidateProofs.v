(* C20 -- proofs about the guards of Model/Validate.v: every member of each invalid class is
   rejected (any magnitude, any position in an array argument, any batch shape), boundary
   values are accepted, and the gaps of the guards are stated exactly. *)
From Coq Require Import List ZArith QArith Qcanon Qabs Bool String Lia Lqa.
From EPG Require Import Scalar QI Validate.
Import ListNotations.

(* ------------------------------------------------------------------ basics *)
Lemma existsb_mid {A} (f : A -> bool) pre x post : f x = true -> existsb f (pre ++ x :: post) = true.
Proof. intros H. apply existsb_exists. exists x. split; [apply in_elt | exact H]. Qed.

Lemma forallb_false {A} (f : A -> bool) l x : In x l -> f x = false -> forallb f l = false.
Proof.
  intros Hin Hf. destruct (forallb f l) eqn:E; [|reflexivity].
  rewrite forallb_forall in E. rewrite (E x Hin) in Hf. discriminate.
Qed.

Lemma all2d_false nb n f b i : (b < nb)%nat -> (i < n)%nat -> f b i = false -> all2d nb n f = false.
Proof.
  intros Hb Hi Hf. unfold all2d.
  apply forallb_false with (x := b); [apply in_seq; lia|].
  apply forallb_false with (x := i); [apply in_seq; lia| exact Hf].
Qed.

Lemma all2d_true nb n f : (forall b i, (b < nb)%nat -> (i < n)%nat -> f b i = true) -> all2d nb n f = true.
Proof.
  intros H. unfold all2d. apply forallb_forall. intros b Hb. apply forallb_forall. intros i Hi.
  apply in_seq in Hb. apply in_seq in Hi. apply H; lia.
Qed.

Lemma Qltb_true x y : x < y -> Qltb x y = true.
Proof.
  intros H. unfold Qltb. destruct (Qle_bool y x) eqn:E; [|reflexivity].
  apply Qle_bool_iff in E. exfalso. apply (Qlt_not_le _ _ H E).
Qed.
Lemma Qltb_false x y : y <= x -> Qltb x y = false.
Proof. intros H. unfold Qltb. apply Qle_bool_iff in H. now rewrite H. Qed.

Lemma lastd_app (s : list nat) a : lastd (s ++ [a]) = a.
Proof. unfold lastd. apply last_last. Qed.
Lemma lastd_app2 (s : list nat) a b : lastd (s ++ [a; b]) = b.
Proof. change (s ++ [a; b]) with (s ++ [a] ++ [b]). rewrite app_assoc. apply lastd_app. Qed.
Lemma butlast_app2 (s : list nat) (a b : nat) : butlast (s ++ [a; b]) = s ++ [a].
Proof.
  change (s ++ [a; b]) with (s ++ [a] ++ [b]). rewrite app_assoc.
  unfold butlast. apply removelast_last.
Qed.
Lemma butlast_app (s : list nat) (a : nat) : butlast (s ++ [a]) = s.
Proof. unfold butlast. apply removelast_last. Qed.

(* ------------------------------------------------------------------ 1. durations *)
Lemma any_neg_mid pre x post : x < 0 -> any_neg (pre ++ x :: post) = true.
Proof. intros H. apply existsb_mid. now apply Qltb_true. Qed.

Lemma any_neg_false l : (forall d, In d l -> 0 <= d) -> any_neg l = false.
Proof.
  intros H. unfold any_neg. destruct (existsb _ l) eqn:E; [|reflexivity].
  apply existsb_exists in E. destruct E as [d [Hin Hd]]. rewrite (Qltb_false _ _ (H d Hin)) in Hd. discriminate.
Qed.

Theorem reject_negative_duration pre x post :
  x < 0 -> duration_ok (Some (pre ++ x :: post)) = Reject ValueError.
Proof. intros H. unfold duration_ok, guard. now rewrite any_neg_mid. Qed.

Theorem accept_nonnegative_duration l :
  (forall d, In d l -> 0 <= d) -> duration_ok (Some l) = Accept.
Proof. intros H. unfold duration_ok, guard. now rewrite any_neg_false. Qed.

Theorem duration_accept_iff l :
  duration_ok (Some l) = Accept <-> (forall d, In d l -> 0 <= d).
Proof.
  split; [|apply accept_nonnegative_duration].
  intros H d Hin. destruct (Qlt_le_dec d 0) as [Hlt|Hle]; [|exact Hle].
  apply in_split in Hin. destruct Hin as [pre [post ->]].
  rewrite (reject_negative_duration pre d post Hlt) in H. discriminate.
Qed.

Theorem accept_zero_duration n : duration_ok (Some (repeat 0 n)) = Accept /\ duration_ok None = Accept.
Proof.
  split; [|reflexivity]. apply accept_nonnegative_duration. intros d Hd.
  apply repeat_spec in Hd. subst. apply Qle_refl.
Qed.

Theorem reject_negative_tau_as_duration pre x post :
  x < 0 -> timed_op_ok DTrue (pre ++ x :: post) = Reject ValueError.
Proof. apply reject_negative_duration. Qed.

(* gap: E, P, D, X do not guard tau itself *)
Theorem negative_tau_unguarded tau : timed_op_ok DNone tau = Accept.
Proof. reflexivity. Qed.

(* Offset accepts negative durations by design *)
Theorem offset_accepts_any d : offset_ok d = Accept.
Proof.
  unfold offset_ok. apply accept_nonnegative_duration. intros x Hx.
  apply in_map_iff in Hx. destruct Hx as [y [<- _]]. apply Qabs_nonneg.
Qed.

(* ------------------------------------------------------------------ 2.-4. shifts *)
Lemma allclose0_true l : (forall x, In x l -> Qabs x <= atol) -> allclose0 l = true.
Proof. intros H. apply forallb_forall. intros x Hx. unfold close0. apply Qle_bool_iff. now apply H. Qed.

Theorem reject_zero_shift q isf sh data d :
  (forall x, In x data -> Qabs x <= atol) -> S_ok q (KArr isf sh data) d = Reject TypeError.
Proof. intros H. unfold S_ok. simpl k_data. now rewrite (allclose0_true _ H). Qed.

Theorem reject_zero_shift_int q d : S_ok q (KInt 0) d = Reject TypeError.
Proof. reflexivity. Qed.

Lemma close0_int z : z <> 0%Z -> close0 (inject_Z z) = false.
Proof.
  intros Hz. unfold close0. destruct (Qle_bool _ _) eqn:E; [|reflexivity].
  apply Qle_bool_iff in E. exfalso.
  assert (H1 : 1 <= Qabs (inject_Z z)).
  { unfold Qabs, inject_Z, Qle. simpl. lia. }
  assert (H2 : atol < 1) by reflexivity.
  apply (Qlt_not_le _ _ H2). eapply Qle_trans; eauto.
Qed.

Theorem accept_nonzero_int_shift q z : z <> 0%Z -> S_ok q (KInt z) None = Accept.
Proof.
  intros Hz. unfold S_ok, any_zero_row, row_zero. simpl. rewrite (close0_int z Hz). simpl.
  destruct (q_zero_row q); reflexivity.
Qed.

(* with the switch off (zero rows refused): a zero row at any position of the batch *)
Theorem reject_zero_shift_row q k d b :
  q_zero_row q = false -> (b < List.length (k_data k) / kdim_of k)%nat ->
  (forall c, (c < kdim_of k)%nat -> Qabs (nth (b * kdim_of k + c) (k_data k) 0) <= atol) ->
  S_ok q k d = Reject TypeError.
Proof.
  intros Hq Hb Hrow. unfold S_ok. destruct (allclose0 (k_data k)); [reflexivity|]. simpl.
  rewrite Hq. simpl.
  assert (any_zero_row k = true) as ->; [|reflexivity].
  unfold any_zero_row. apply existsb_exists. exists b. split; [apply in_seq; lia|].
  unfold row_zero. apply forallb_forall. intros c Hc. apply in_seq in Hc.
  unfold close0. apply Qle_bool_iff. apply Hrow. lia.
Qed.

(* the code that exists accepts it *)
Theorem zero_shift_row_refuted q :
  q_zero_row q = true ->
  exists k, any_zero_row k = true /\ S_ok q k None = Accept.
Proof.
  intros Hq. exists (KArr false [2; 1]%nat [1; 0]). split; [reflexivity|].
  unfold S_ok. rewrite Hq. reflexivity.
Qed.

Theorem reject_too_many_components q isf sh data d :
  (4 < lastd (atleast_2d sh))%nat -> exists e, S_ok q (KArr isf sh data) d = Reject e.
Proof.
  intros H. unfold S_ok.
  destruct (allclose0 _); [eexists; reflexivity|]. simpl.
  destruct (negb (q_zero_row q) && any_zero_row _); [eexists; reflexivity|]. simpl.
  assert (kdim_ok (KArr isf sh data) = false) as ->.
  { unfold kdim_ok, kdim_of. apply andb_false_iff. right. apply Nat.leb_gt. exact H. }
  eexists; reflexivity.
Qed.

Theorem reject_too_many_components_class q isf sh data d :
  (4 < lastd (atleast_2d sh))%nat -> allclose0 data = false -> q_zero_row q = true ->
  S_ok q (KArr isf sh data) d = Reject ValueError.
Proof.
  intros H Hz Hq. unfold S_ok. simpl k_data. rewrite Hz, Hq. simpl.
  assert (kdim_ok (KArr isf sh data) = false) as ->; [|reflexivity].
  unfold kdim_ok, kdim_of. apply andb_false_iff. right. apply Nat.leb_gt. exact H.
Qed.

Theorem accept_four_components isf sh data :
  lastd (atleast_2d sh) = 4%nat -> kdim_ok (KArr isf sh data) = true.
Proof. intros H. unfold kdim_ok, kdim_of. rewrite H. reflexivity. Qed.

Theorem reject_negative_tau_G q c tsh pre x post gsh g d :
  x < 0 -> G_ok q c tsh (pre ++ x :: post) gsh g d = Reject ValueError.
Proof. intros H. unfold G_ok. now rewrite any_neg_mid. Qed.

Theorem reject_negative_tau_C q islist tsh pre x post d :
  x < 0 -> exists e, C_ok q islist tsh (pre ++ x :: post) d = Reject e.
Proof.
  intros H. unfold C_ok. destruct (q_C_list_tau q && islist); [eexists; reflexivity|].
  simpl. rewrite any_neg_mid by exact H. eexists; reflexivity.
Qed.

Theorem reject_gradient_components q c tsh tau a gsh g d :
  (3 < lastd (a :: gsh))%nat -> G_ok q c tsh tau (a :: gsh) g d = Reject ValueError.
Proof.
  intros H. unfold G_ok. destruct (any_neg tau); [reflexivity|]. simpl andv.
  apply Nat.ltb_lt in H. rewrite H. reflexivity.
Qed.

(* the two clauses of the property meet: tau = 0 passes the time guard and is a zero shift *)
Theorem G_tau_zero_is_zero_shift q c g d :
  G_ok q c [] [0] [] g d = Reject TypeError.
Proof.
  unfold G_ok. simpl andv. unfold S_ok. simpl k_data.
  assert (allclose0 (outer c [0] g) = true) as ->; [|reflexivity].
  apply allclose0_true. intros x Hx. unfold outer in Hx. simpl in Hx. rewrite app_nil_r in Hx.
  apply in_map_iff in Hx. destruct Hx as [y [<- _]].
  assert (E : c * y * 0 == 0) by ring. rewrite E. discriminate.
Qed.
Theorem C_tau_zero_is_zero_shift q d : C_ok q false [] [0] d = Reject TypeError.
Proof. unfold C_ok. rewrite andb_false_r. reflexivity. Qed.

(* ------------------------------------------------------------------ 5. float shift without a grid *)
Theorem reject_float_shift_without_grid sh data c :
  S_apply_ok (KArr true sh data) c None None = Reject AttributeError.
Proof. destruct c; reflexivity. Qed.
Theorem reject_any_shift_on_float_coords_without_grid k :
  S_apply_ok k CFloat None None = Reject AttributeError.
Proof. reflexivity. Qed.
Theorem accept_float_shift_with_grid k c g other :
  Qeq_bool g 0 = false ->
  S_apply_ok k c (Some g) other = Accept /\ S_apply_ok k c None (Some g) = Accept.
Proof.
  intros H. unfold S_apply_ok, pick_grid. rewrite H. simpl. rewrite !andb_false_r. split; reflexivity.
Qed.
Theorem accept_int_shift_without_grid z c : c <> CFloat -> S_apply_ok (KInt z) c None None = Accept.
Proof. destruct c; [reflexivity|reflexivity|congruence]. Qed.
