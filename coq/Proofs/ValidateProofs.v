(* C20 -- proofs about the guards of Model/Validate.v: every member of each invalid class is
   rejected (any magnitude, any position in an array argument, any batch shape), boundary
   values are accepted, and the gaps of the guards are stated exactly. *)
From Coq Require Import List ZArith QArith Qcanon Qabs Bool String Lia Lqa.
From EPG Require Import Scalar QI Validate.
Import ListNotations.

(* ------------------------------------------------------------------ basics *)
Lemma existsb_mid {A} (f : A -> bool) pre x post : f x = true -> existsb f (pre ++ x :: post) = true.
Proof. intros H. apply existsb_exists. exists x. split; [apply in_elt | exact H]. Qed.

Lemma forallb_false {A} (f : A -> bool) l x : In x l -> f x = false -> forallb f l = false.
Proof.
  intros Hin Hf. destruct (forallb f l) eqn:E; [|reflexivity].
  rewrite forallb_forall in E. rewrite (E x Hin) in Hf. discriminate.
Qed.

Lemma all2d_false nb n f b i : (b < nb)%nat -> (i < n)%nat -> f b i = false -> all2d nb n f = false.
Proof.
  intros Hb Hi Hf. unfold all2d.
  apply forallb_false with (x := b); [apply in_seq; lia|].
  apply forallb_false with (x := i); [apply in_seq; lia| exact Hf].
Qed.

Lemma all2d_true nb n f : (forall b i, (b < nb)%nat -> (i < n)%nat -> f b i = true) -> all2d nb n f = true.
Proof.
  intros H. unfold all2d. apply forallb_forall. intros b Hb. apply forallb_forall. intros i Hi.
  apply in_seq in Hb. apply in_seq in Hi. apply H; lia.
Qed.

Lemma Qltb_true x y : x < y -> Qltb x y = true.
Proof.
  intros H. unfold Qltb. destruct (Qle_bool y x) eqn:E; [|reflexivity].
  apply Qle_bool_iff in E. exfalso. apply (Qlt_not_le _ _ H E).
Qed.
Lemma Qltb_false x y : y <= x -> Qltb x y = false.
Proof. intros H. unfold Qltb. apply Qle_bool_iff in H. now rewrite H. Qed.

Lemma lastd_app (s : list nat) a : lastd (s ++ [a]) = a.
Proof. unfold lastd. apply last_last. Qed.
Lemma lastd_app2 (s : list nat) a b : lastd (s ++ [a; b]) = b.
Proof. change (s ++ [a; b]) with (s ++ [a] ++ [b]). rewrite app_assoc. apply lastd_app. Qed.
Lemma butlast_app2 (s : list nat) (a b : nat) : butlast (s ++ [a; b]) = s ++ [a].
Proof.
  change (s ++ [a; b]) with (s ++ [a] ++ [b]). rewrite app_assoc.
  unfold butlast. apply removelast_last.
Qed.
Lemma butlast_app (s : list nat) (a : nat) : butlast (s ++ [a]) = s.
Proof. unfold butlast. apply removelast_last. Qed.

(* ------------------------------------------------------------------ 1. durations *)
Lemma any_neg_mid pre x post : x < 0 -> any_neg (pre ++ x :: post) = true.
Proof. intros H. apply existsb_mid. now apply Qltb_true. Qed.

Lemma any_neg_false l : (forall d, In d l -> 0 <= d) -> any_neg l = false.
Proof.
  intros H. unfold any_neg. destruct (existsb _ l) eqn:E; [|reflexivity].
  apply existsb_exists in E. destruct E as [d [Hin Hd]]. rewrite (Qltb_false _ _ (H d Hin)) in Hd. discriminate.
Qed.

Theorem reject_negative_duration pre x post :
  x < 0 -> duration_ok (Some (pre ++ x :: post)) = Reject ValueError.
Proof. intros H. unfold duration_ok, guard. now rewrite any_neg_mid. Qed.

Theorem accept_nonnegative_duration l :
  (forall d, In d l -> 0 <= d) -> duration_ok (Some l) = Accept.
Proof. intros H. unfold duration_ok, guard. now rewrite any_neg_false. Qed.

Theorem duration_accept_iff l :
  duration_ok (Some l) = Accept <-> (forall d, In d l -> 0 <= d).
Proof.
  split; [|apply accept_nonnegative_duration].
  intros H d Hin. destruct (Qlt_le_dec d 0) as [Hlt|Hle]; [|exact Hle].
  apply in_split in Hin. destruct Hin as [pre [post ->]].
  rewrite (reject_negative_duration pre d post Hlt) in H. discriminate.
Qed.

Theorem accept_zero_duration n : duration_ok (Some (repeat 0 n)) = Accept /\ duration_ok None = Accept.
Proof.
  split; [|reflexivity]. apply accept_nonnegative_duration. intros d Hd.
  apply repeat_spec in Hd. subst. apply Qle_refl.
Qed.

Theorem reject_negative_tau_as_duration pre x post :
  x < 0 -> timed_op_ok DTrue (pre ++ x :: post) = Reject ValueError.
Proof. apply reject_negative_duration. Qed.

(* gap: E, P, D, X do not guard tau itself *)
Theorem negative_tau_unguarded tau : timed_op_ok DNone tau = Accept.
Proof. reflexivity. Qed.

(* Offset accepts negative durations by design *)
Theorem offset_accepts_any d : offset_ok d = Accept.
Proof.
  unfold offset_ok. apply accept_nonnegative_duration. intros x Hx.
  apply in_map_iff in Hx. destruct Hx as [y [<- _]]. apply Qabs_nonneg.
Qed.

(* ------------------------------------------------------------------ 2.-4. shifts *)
Lemma allclose0_true l : (forall x, In x l -> Qabs x <= atol) -> allclose0 l = true.
Proof. intros H. apply forallb_forall. intros x Hx. unfold close0. apply Qle_bool_iff. now apply H. Qed.

Theorem reject_zero_shift isf sh data d :
  (forall x, In x data -> Qabs x <= atol) -> S_ok (KArr isf sh data) d = Reject TypeError.
Proof. intros H. unfold S_ok. simpl k_data. now rewrite (allclose0_true _ H). Qed.

Theorem reject_zero_shift_int d : S_ok (KInt 0) d = Reject TypeError.
Proof. reflexivity. Qed.

Lemma close0_int z : z <> 0%Z -> close0 (inject_Z z) = false.
Proof.
  intros Hz. unfold close0. destruct (Qle_bool _ _) eqn:E; [|reflexivity].
  apply Qle_bool_iff in E. exfalso.
  assert (H1 : 1 <= Qabs (inject_Z z)).
  { unfold Qabs, inject_Z, Qle. simpl. lia. }
  assert (H2 : atol < 1) by reflexivity.
  apply (Qlt_not_le _ _ H2). eapply Qle_trans; eauto.
Qed.

Theorem accept_nonzero_int_shift z : z <> 0%Z -> S_ok (KInt z) None = Accept.
Proof.
  intros Hz. unfold S_ok, any_zero_row, row_zero. simpl. rewrite (close0_int z Hz). reflexivity.
Qed.

(* a zero row (within the allclose tolerance) at any position b of a batch of shifts, any kdim *)
Theorem reject_zero_shift_row k d b :
  (b < List.length (k_data k) / kdim_of k)%nat ->
  (forall c, (c < kdim_of k)%nat -> Qabs (nth (b * kdim_of k + c) (k_data k) 0) <= atol) ->
  S_ok k d = Reject TypeError.
Proof.
  intros Hb Hrow. unfold S_ok. destruct (allclose0 (k_data k)); [reflexivity|]. cbn [guard andv].
  assert (any_zero_row k = true) as ->; [|reflexivity].
  unfold any_zero_row. apply existsb_exists. exists b. split; [apply in_seq; lia|].
  unfold row_zero. apply forallb_forall. intros c Hc. apply in_seq in Hc.
  unfold close0. apply Qle_bool_iff. apply Hrow. lia.
Qed.

Lemma kdim_bad isf sh data : (4 < lastd (atleast_2d sh))%nat -> kdim_ok (KArr isf sh data) = false.
Proof. intros H. unfold kdim_ok, kdim_of. apply andb_false_iff. right. apply Nat.leb_gt. exact H. Qed.

Theorem reject_too_many_components isf sh data d :
  (4 < lastd (atleast_2d sh))%nat -> exists e, S_ok (KArr isf sh data) d = Reject e.
Proof.
  intros H. unfold S_ok. rewrite (kdim_bad isf sh data H).
  destruct (allclose0 _); [eexists; reflexivity|].
  destruct (any_zero_row _); eexists; reflexivity.
Qed.

Theorem reject_too_many_components_class isf sh data d :
  (4 < lastd (atleast_2d sh))%nat -> allclose0 data = false -> any_zero_row (KArr isf sh data) = false ->
  S_ok (KArr isf sh data) d = Reject ValueError.
Proof.
  intros H Hz Hr. unfold S_ok. rewrite (kdim_bad isf sh data H), Hr. cbn [k_data]. rewrite Hz. reflexivity.
Qed.

Theorem accept_four_components isf sh data :
  lastd (atleast_2d sh) = 4%nat -> kdim_ok (KArr isf sh data) = true.
Proof. intros H. unfold kdim_ok, kdim_of. rewrite H. reflexivity. Qed.

Theorem reject_negative_tau_G c tsh pre x post gsh g d :
  x < 0 -> G_ok c tsh (pre ++ x :: post) gsh g d = Reject ValueError.
Proof. intros H. unfold G_ok. now rewrite any_neg_mid. Qed.

Theorem reject_negative_tau_C tsh pre x post d :
  x < 0 -> C_ok tsh (pre ++ x :: post) d = Reject ValueError.
Proof. intros H. unfold C_ok. now rewrite any_neg_mid. Qed.

Theorem reject_gradient_components c tsh tau a gsh g d :
  (3 < lastd (a :: gsh))%nat -> G_ok c tsh tau (a :: gsh) g d = Reject ValueError.
Proof.
  intros H. unfold G_ok. destruct (any_neg tau); [reflexivity|]. simpl andv.
  apply Nat.ltb_lt in H. rewrite H. reflexivity.
Qed.

(* the two clauses of the property meet: tau = 0 passes the time guard and is a zero shift *)
Theorem G_tau_zero_is_zero_shift c g d :
  G_ok c [] [0] [] g d = Reject TypeError.
Proof.
  assert (Hz : allclose0 (outer c [0] g) = true); [|unfold G_ok, S_ok; cbn [k_data]; rewrite Hz; reflexivity].
  apply allclose0_true. intros x Hx. unfold outer in Hx. simpl in Hx. rewrite app_nil_r in Hx.
  apply in_map_iff in Hx. destruct Hx as [y [<- _]].
  assert (E : c * y * 0 == 0) by ring. rewrite E. discriminate.
Qed.
Theorem C_tau_zero_is_zero_shift d : C_ok [] [0] d = Reject TypeError.
Proof. reflexivity. Qed.

(* ------------------------------------------------------------------ 5. float shift without a grid *)
Theorem reject_float_shift_without_grid sh data c :
  S_apply_ok (KArr true sh data) c None None = Reject AttributeError.
Proof. destruct c; reflexivity. Qed.
Theorem reject_any_shift_on_float_coords_without_grid k :
  S_apply_ok k CFloat None None = Reject AttributeError.
Proof. reflexivity. Qed.
Theorem accept_float_shift_with_grid k c g other :
  Qeq_bool g 0 = false ->
  S_apply_ok k c (Some g) other = Accept /\ S_apply_ok k c None (Some g) = Accept.
Proof.
  intros H. unfold S_apply_ok, pick_grid. rewrite H. simpl. rewrite !andb_false_r. split; reflexivity.
Qed.
Theorem accept_int_shift_without_grid z c : c <> CFloat -> S_apply_ok (KInt z) c None None = Accept.
Proof. destruct c; [reflexivity|reflexivity|congruence]. Qed.

(* ------------------------------------------------------------------ 6. state matrices *)
Lemma states_ok_nd (s : list nat) n c data :
  states_ok (s ++ [n; c]) data =
  guard (negb (c =? 3)%nat) ValueError >> guard (Nat.even n) ValueError >> sym_ok data (prodn s) n.
Proof.
  assert (E : states_ok (s ++ [n; c]) data =
              guard (negb (lastd (s ++ [n; c]) =? 3)%nat) ValueError >>
              guard (Nat.even (lastd (butlast (s ++ [n; c])))) ValueError >>
              sym_ok data (prodn (butlast (butlast (s ++ [n; c])))) (lastd (butlast (s ++ [n; c])))).
  { destruct s as [|a [|b s]]; reflexivity. }
  rewrite E, lastd_app2, butlast_app2, lastd_app, butlast_app. reflexivity.
Qed.

Theorem reject_states_zero_dim data : states_ok [] data = Reject IndexError.
Proof. reflexivity. Qed.
Theorem reject_states_vector m data : m <> 3%nat -> states_ok [m] data = Reject ValueError.
Proof. intros H. unfold states_ok. apply Nat.eqb_neq in H. rewrite H. reflexivity. Qed.
Theorem reject_states_columns s n c data : c <> 3%nat -> states_ok (s ++ [n; c]) data = Reject ValueError.
Proof. intros H. rewrite states_ok_nd. apply Nat.eqb_neq in H. rewrite H. reflexivity. Qed.
Theorem reject_states_even s n c data : Nat.even n = true -> states_ok (s ++ [n; c]) data = Reject ValueError.
Proof. intros H. rewrite states_ok_nd, H. destruct (c =? 3)%nat; reflexivity. Qed.

(* a broken F+/F- or Z symmetry in any batch entry b and any state i *)
Theorem reject_states_asym_F s n data b i :
  (b < prodn s)%nat -> (i < n)%nat -> fsym_at data n b i = false ->
  exists e, states_ok (s ++ [n; 3%nat]) data = Reject e.
Proof.
  intros Hb Hi H. rewrite states_ok_nd. cbn [Nat.eqb negb guard andv].
  destruct (Nat.even n); [eexists; reflexivity|]. cbn [guard andv].
  unfold sym_ok. rewrite (all2d_false _ _ _ b i Hb Hi H). eexists; reflexivity.
Qed.
Theorem reject_states_asym_Z s n data b i :
  (b < prodn s)%nat -> (i < n)%nat -> zsym_at data n b i = false ->
  exists e, states_ok (s ++ [n; 3%nat]) data = Reject e.
Proof.
  intros Hb Hi H. rewrite states_ok_nd. cbn [Nat.eqb negb guard andv].
  destruct (Nat.even n); [eexists; reflexivity|]. cbn [guard andv].
  unfold sym_ok. rewrite (all2d_false _ _ (zsym_at data n) b i Hb Hi H).
  destruct (all2d _ _ (fsym_at data n)); eexists; reflexivity.
Qed.
Theorem accept_states s n data :
  Nat.even n = false ->
  (forall b i, (b < prodn s)%nat -> (i < n)%nat -> fsym_at data n b i = true /\ zsym_at data n b i = true) ->
  states_ok (s ++ [n; 3%nat]) data = Accept.
Proof.
  intros He H. rewrite states_ok_nd, He. cbn [Nat.eqb negb guard andv]. unfold sym_ok.
  rewrite !all2d_true; [reflexivity| |]; intros b i Hb Hi; apply (H b i Hb Hi).
Qed.

(* ------------------------------------------------------------------ 7./8. operator coefficients *)
Theorem reject_scalar_coef_columns s c data a0 :
  c <> 3%nat -> scalar_coef_ok (s ++ [c], data) a0 = Reject ValueError.
Proof.
  intros H. unfold scalar_coef_ok, scalar_format_ok. cbn [fst snd].
  assert (E : forall sh, lastd (match sh ++ [c] with [m] => [1%nat; m] | _ => sh ++ [c] end) = c).
  { intros sh. destruct sh as [|x [|y sh]]; try reflexivity; apply (lastd_app (x :: y :: sh)). }
  rewrite E. apply Nat.eqb_neq in H. rewrite H, orb_true_r. reflexivity.
Qed.
Theorem reject_scalar_coef_zero_dim data a0 : scalar_coef_ok ([], data) a0 = Reject ValueError.
Proof. reflexivity. Qed.
Theorem reject_scalar_coef_asym x (s : list nat) data a0 b c :
  (b < prodn (x :: s))%nat -> (c < 3)%nat -> ssym_at data b c = false ->
  scalar_coef_ok (x :: s ++ [3%nat], data) a0 = Reject ValueError.
Proof.
  intros Hb Hc H. unfold scalar_coef_ok, scalar_format_ok. cbn [fst snd].
  assert (E : match x :: s ++ [3%nat] with [m] => [1%nat; m] | _ => x :: s ++ [3%nat] end = (x :: s) ++ [3%nat]).
  { destruct s; reflexivity. }
  rewrite E, lastd_app, butlast_app.
  assert (L : (List.length ((x :: s) ++ [3%nat]) <? 2)%nat = false).
  { apply Nat.ltb_ge. rewrite app_length. simpl. lia. }
  rewrite L. cbn [Nat.eqb negb orb guard andv].
  rewrite (all2d_false _ _ _ b c Hb Hc H). reflexivity.
Qed.
Theorem reject_matrix_coef_shape (s : list nat) a b data a0 :
  (a <> 3%nat \/ b <> 3%nat) -> matrix_coef_ok (s ++ [a; b], data) a0 = Reject ValueError.
Proof.
  intros H. unfold matrix_coef_ok, matrix_format_ok. cbn [fst snd].
  set (sh := match s ++ [a; b] with [x; y] => [1%nat; x; y] | _ => s ++ [a; b] end).
  assert (E : lastd sh = b /\ lastd (butlast sh) = a).
  { subst sh. destruct s as [|x s]; [split; reflexivity|].
    assert (E0 : match (x :: s) ++ [a; b] with [x0; y] => [1%nat; x0; y] | _ => (x :: s) ++ [a; b] end = (x :: s) ++ [a; b]).
    { destruct s as [|y [|z s]]; reflexivity. }
    rewrite E0, lastd_app2, butlast_app2, lastd_app. split; reflexivity. }
  destruct E as [-> ->].
  assert (G : negb (b =? 3)%nat || negb (a =? 3)%nat = true).
  { destruct H as [H|H]; apply Nat.eqb_neq in H; rewrite H; [apply orb_true_r | reflexivity]. }
  destruct (List.length sh <? 3)%nat; [reflexivity|]. cbn [orb]. rewrite G. reflexivity.
Qed.
Theorem reject_matrix_coef_asym (s : list nat) data a0 b ij :
  (b < prodn s)%nat -> (ij < 9)%nat -> msym_at data b ij = false -> s <> [] ->
  matrix_coef_ok (s ++ [3; 3]%nat, data) a0 = Reject ValueError.
Proof.
  intros Hb Hc H Hs. unfold matrix_coef_ok, matrix_format_ok. cbn [fst snd].
  assert (E : match s ++ [3; 3]%nat with [x; y] => [1%nat; x; y] | _ => s ++ [3; 3]%nat end = s ++ [3; 3]%nat).
  { destruct s as [|x [|y [|z s]]]; try reflexivity. congruence. }
  rewrite E, lastd_app2, !butlast_app2, lastd_app, butlast_app.
  assert (L : (List.length (s ++ [3; 3]%nat) <? 3)%nat = false).
  { apply Nat.ltb_ge. rewrite app_length. destruct s; [congruence|]. simpl. lia. }
  rewrite L. cbn [Nat.eqb negb orb guard andv].
  rewrite (all2d_false _ _ _ b ij Hb Hc H). reflexivity.
Qed.

(* ------------------------------------------------------------------ 9. operator / state shapes *)
Theorem reject_not_a_statematrix s1 s2 : prepare_ok false s1 s2 = Reject TypeError.
Proof. reflexivity. Qed.

Theorem reject_nonbroadcastable s1 s2 i :
  let n := Nat.max (List.length s1) (List.length s2) in
  (i < n)%nat -> dims_compat (dim_app n s1 i) (dim_app n s2 i) = false ->
  prepare_ok true s1 s2 = Reject ValueError.
Proof.
  intros n Hi H. unfold prepare_ok, broadcastable_app. cbn [negb guard andv]. fold n.
  rewrite (forallb_false _ _ i); [reflexivity| apply in_seq; lia | exact H].
Qed.

Lemma dim_app_last (s : list nat) a n : dim_app n (s ++ [a]) (List.length s) = a.
Proof. unfold dim_app, pad_app. rewrite <- app_assoc. apply nth_middle. Qed.

(* a mismatch on the trailing axis, whatever precedes it *)
Theorem reject_trailing_axis_mismatch (s : list nat) a b :
  a <> 1%nat -> b <> 1%nat -> a <> b -> prepare_ok true (s ++ [a]) (s ++ [b]) = Reject ValueError.
Proof.
  intros Ha Hb Hab. apply (reject_nonbroadcastable _ _ (List.length s)).
  - rewrite !app_length. simpl. lia.
  - rewrite !dim_app_last. unfold dims_compat.
    apply Nat.eqb_neq in Ha, Hb, Hab. rewrite Ha, Hb, Hab. reflexivity.
Qed.

Lemma dims_compat_refl a : dims_compat a a = true.
Proof. unfold dims_compat. rewrite Nat.eqb_refl. apply orb_true_r. Qed.
Theorem accept_same_shape s : prepare_ok true s s = Accept.
Proof.
  unfold prepare_ok, broadcastable_app. cbn [negb guard andv].
  assert (forallb (fun i => dims_compat (dim_app (Nat.max (List.length s) (List.length s)) s i)
            (dim_app (Nat.max (List.length s) (List.length s)) s i)) (seq 0 (Nat.max (List.length s) (List.length s))) = true) as ->; [|reflexivity].
  apply forallb_forall. intros i _. apply dims_compat_refl.
Qed.

(* a non-operator item at any position of a MultiOperator *)
Theorem reject_multi_non_operator items : forall cur,
  In None items -> exists e, multi_ok cur items = Reject e.
Proof.
  induction items as [|x t IH]; intros cur Hin; [destruct Hin|].
  destruct x as [s|]; [|eexists; reflexivity].
  destruct Hin as [Hx|Hin]; [discriminate|]. simpl.
  destruct (bshapes_ok [cur; s]); [apply IH; exact Hin | eexists; reflexivity].
Qed.

(* ------------------------------------------------------------------ 10. kinetic matrices *)
Theorem reject_negative_rate q : q < 0 -> khi_ok (KhiScalar q) = Reject ValueError.
Proof. intros H. unfold khi_ok, guard. now rewrite Qltb_true. Qed.
Theorem accept_zero_rate : khi_ok (KhiScalar 0) = Accept.
Proof. reflexivity. Qed.
Theorem reject_khi_vector n data : khi_ok (KhiArr [n] data) = Reject ValueError.
Proof. reflexivity. Qed.

Lemma khi_ok_nd (s : list nat) r n data :
  khi_ok (KhiArr (s ++ [r; n]) data) =
  guard (negb (r =? n)%nat) ValueError >>
  guard (negb (forallb (fun j => forallb (fun b => close0 (colsum data n b j)) (seq 0 (prodn s))) (seq 0 n))) ValueError.
Proof.
  unfold khi_ok. rewrite lastd_app2, !butlast_app2, lastd_app, butlast_app.
  assert (L : (List.length (s ++ [r; n]) <? 2)%nat = false).
  { apply Nat.ltb_ge. rewrite app_length. simpl. lia. }
  rewrite L. reflexivity.
Qed.

Theorem reject_khi_not_square s r n data : r <> n -> khi_ok (KhiArr (s ++ [r; n]) data) = Reject ValueError.
Proof. intros H. rewrite khi_ok_nd. apply Nat.eqb_neq in H. rewrite H. reflexivity. Qed.

(* a column that does not sum to zero, in any batch entry *)
Theorem reject_khi_column_sum s n data b j :
  (b < prodn s)%nat -> (j < n)%nat -> close0 (colsum data n b j) = false ->
  khi_ok (KhiArr (s ++ [n; n]) data) = Reject ValueError.
Proof.
  intros Hb Hj H. rewrite khi_ok_nd, Nat.eqb_refl. cbn [negb guard andv].
  rewrite (forallb_false _ _ j); [reflexivity| apply in_seq; lia |].
  apply (forallb_false _ _ b); [apply in_seq; lia | exact H].
Qed.

(* zero ROW sums (so the sum of all entries is zero) do not make a kinetic matrix valid:
   [[-a, a], [b, -b]] with a <> b is refused on its first column *)
Theorem reject_khi_zero_row_sums a b :
  atol < Qabs (b - a) ->
  sumQ [-a; a; b; -b] == 0 /\ khi_ok (KhiArr [2; 2]%nat [-a; a; b; -b]) = Reject ValueError.
Proof.
  intros H. split; [simpl; ring|].
  apply (reject_khi_column_sum [] 2 [-a; a; b; -b] 0 0); [simpl; lia | lia |].
  unfold close0. destruct (Qle_bool _ _) eqn:E; [|reflexivity].
  apply Qle_bool_iff in E. exfalso.
  assert (Hq : colsum [-a; a; b; -b] 2 0 0 == b - a) by (unfold colsum, at_khi; simpl; ring).
  rewrite Hq in E. apply (Qlt_not_le _ _ H E).
Qed.

(* tau = 0 is accepted for every valid kinetic matrix, un-batched or batched *)
Theorem accept_tau_zero khi d :
  khi_ok khi = Accept -> (d = DNone \/ d = DTrue) -> X_ok 0 khi d = Accept.
Proof. intros H Hd. unfold X_ok. rewrite H. destruct Hd as [-> | ->]; reflexivity. Qed.
Theorem accept_tau_zero_batched (s : list nat) n data d :
  khi_ok (KhiArr (s ++ [n; n]) data) = Accept -> (d = DNone \/ d = DTrue) ->
  X_ok 0 (KhiArr (s ++ [n; n]) data) d = Accept.
Proof. apply accept_tau_zero. Qed.

Lemma prepare_same n : prepare_ok true [n] [n] = Accept.
Proof. apply accept_same_shape. Qed.
(* the equilibrium is not conserved: some row of khi . density is not zero *)
Theorem reject_not_conserving n data dens i :
  List.length dens = n -> (i < n)%nat -> close0 (rowdot data n dens i) = false ->
  X_apply_ok n data dens = Reject RuntimeError.
Proof.
  intros Hl Hi H. unfold X_apply_ok. rewrite Hl, prepare_same. cbn [andv].
  rewrite (forallb_false _ _ i); [reflexivity | apply in_seq; lia | exact H].
Qed.
Theorem accept_conserving n data dens :
  List.length dens = n -> (forall i, (i < n)%nat -> close0 (rowdot data n dens i) = true) ->
  X_apply_ok n data dens = Accept.
Proof.
  intros Hl H. unfold X_apply_ok. rewrite Hl, prepare_same. cbn [andv].
  assert (forallb (fun i => close0 (rowdot data n dens i)) (seq 0 n) = true) as ->; [|reflexivity].
  apply forallb_forall. intros i Hi. apply in_seq in Hi. apply H. lia.
Qed.

(* reuse of one operator object: the k-th application is decided by the k-th density alone,
   whatever was accepted or refused before (good -> bad raises, bad -> good is accepted) *)
Theorem X_reuse_history_independent n data densities k :
  (k < List.length densities)%nat ->
  nth k (X_reuse_ok n data densities) Accept = X_apply_ok n data (nth k densities []).
Proof.
  intros H. unfold X_reuse_ok.
  rewrite (nth_indep _ Accept (X_apply_ok n data []));
    [apply map_nth | rewrite map_length; exact H].
Qed.
Theorem reject_not_conserving_after_reuse n data before dens after i :
  List.length dens = n -> (i < n)%nat -> close0 (rowdot data n dens i) = false ->
  nth (List.length before) (X_reuse_ok n data (before ++ dens :: after)) Accept = Reject RuntimeError.
Proof.
  intros Hl Hi H. rewrite X_reuse_history_independent.
  - rewrite nth_middle. apply (reject_not_conserving n data dens i Hl Hi H).
  - rewrite app_length. simpl. lia.
Qed.

(* ------------------------------------------------------------------ 11. diffusion *)
Theorem reject_D_vector t n k : D_shape_ok t [n] k = Reject ValueError.
Proof. reflexivity. Qed.
Theorem reject_D_not_square t (s : list nat) a b k : a <> b -> D_shape_ok t (s ++ [a; b]) k = Reject ValueError.
Proof.
  intros H. unfold D_shape_ok.
  assert (L : (List.length (s ++ [a; b]) =? 1)%nat = false).
  { apply Nat.eqb_neq. rewrite app_length. simpl. lia. }
  rewrite L. cbn [guard andv].
  assert (last2_differ (s ++ [a; b]) = true) as ->; [|reflexivity].
  unfold last2_differ. change (s ++ [a; b]) with (s ++ [a] ++ [b]). rewrite !rev_app_distr. simpl.
  apply negb_true_iff. apply Nat.eqb_neq. congruence.
Qed.
Theorem reject_D_k_mismatch t m j :
  m <> j -> D_shape_ok t [m; m] (Some [j]) = Reject ValueError.
Proof.
  intros H. unfold D_shape_ok, last2_differ. cbn [rev app lastd last].
  rewrite Nat.eqb_refl. apply Nat.eqb_neq in H. rewrite H. reflexivity.
Qed.

Lemma differs_neq j kd : j <> kd -> differs (Some j) kd = true.
Proof. intros H. unfold differs. apply Nat.eqb_neq in H. now rewrite H. Qed.
Lemma differs_eq j : differs (Some j) j = false.
Proof. unfold differs. now rewrite Nat.eqb_refl. Qed.

(* a tensor of lower dimension than the state's wavenumbers: refused, whatever the shift argument *)
Theorem reject_D_apply_dims m kk s :
  (m < Nat.min s 3)%nat -> D_apply_ok (Some m) kk s = Reject ValueError.
Proof.
  intros H. unfold D_apply_ok. rewrite differs_neq; [reflexivity|].
  unfold D_kdim, dim_or_1. destruct kk; lia.
Qed.
(* a shift argument of lower dimension than the state's wavenumbers: refused, whatever the tensor *)
Theorem reject_D_apply_k_dims m j s :
  (j < Nat.min s 3)%nat -> D_apply_ok m (Some j) s = Reject ValueError.
Proof.
  intros H. unfold D_apply_ok.
  assert (differs (Some j) (D_kdim m (Some j) s) = true) as ->.
  { apply differs_neq. unfold D_kdim, dim_or_1. destruct m; lia. }
  destruct (differs m _); reflexivity.
Qed.
(* more than 3 components can never match sm.k *)
Theorem reject_D_apply_above_3 m kk s : (3 < m)%nat -> D_apply_ok (Some m) kk s = Reject ValueError.
Proof.
  intros H. unfold D_apply_ok. rewrite differs_neq; [reflexivity|]. unfold D_kdim. lia.
Qed.
(* tensor and shift argument of different dimensions (also refused by the constructor) *)
Theorem reject_D_apply_D_k_differ m j s : m <> j -> D_apply_ok (Some m) (Some j) s = Reject ValueError.
Proof.
  intros H. unfold D_apply_ok.
  destruct (Nat.eq_dec m (D_kdim (Some m) (Some j) s)) as [E|E].
  - rewrite <- E at 1. rewrite differs_eq. cbn [guard andv]. rewrite differs_neq; [reflexivity|]. congruence.
  - rewrite (differs_neq _ _ E). reflexivity.
Qed.
(* a higher-dimensional argument (up to 3) upgrades the state's coordinates and is accepted *)
Theorem accept_D_apply_higher_upgrades m s :
  (s <= m)%nat -> (1 <= m <= 3)%nat ->
  D_apply_ok (Some m) None s = Accept /\ D_apply_ok None (Some m) s = Accept /\
  D_apply_ok (Some m) (Some m) s = Accept.
Proof.
  intros H1 H2.
  assert (E : forall a b, (a = Some m \/ a = None) -> (b = Some m \/ b = None) -> (a = Some m \/ b = Some m) ->
              D_kdim a b s = m).
  { intros a b [-> | ->] [-> | ->] Hab; unfold D_kdim, dim_or_1; try lia. destruct Hab; discriminate. }
  unfold D_apply_ok. rewrite !E by auto. rewrite differs_eq. repeat split; reflexivity.
Qed.
Theorem accept_D_apply_matching s :
  (1 <= s)%nat -> D_apply_ok None None s = Accept /\ D_apply_ok (Some (Nat.min s 3)) None s = Accept.
Proof.
  intros H. split; [reflexivity|]. unfold D_apply_ok.
  assert (D_kdim (Some (Nat.min s 3)) None s = Nat.min s 3) as -> by (unfold D_kdim, dim_or_1; lia).
  rewrite differs_eq. reflexivity.
Qed.
Theorem D_apply_accept_iff m kk s :
  D_apply_ok m kk s = Accept <->
  (forall j, m = Some j -> j = D_kdim m kk s) /\ (forall j, kk = Some j -> j = D_kdim m kk s).
Proof.
  unfold D_apply_ok. generalize (D_kdim m kk s) as kd. intros kd. unfold differs. split.
  - intros H. split; intros j ->; destruct (Nat.eqb_spec j kd); auto; try discriminate.
    destruct m as [i|]; [destruct (i =? kd)%nat|]; discriminate.
  - intros [H1 H2]. destruct m as [i|]; [rewrite (H1 i eq_refl), Nat.eqb_refl|];
      (destruct kk as [j|]; [rewrite (H2 j eq_refl), Nat.eqb_refl|]); reflexivity.
Qed.

(* ------------------------------------------------------------------ 12. differentiation arguments *)
Lemma smem_In s l : In s l -> smem s l = true.
Proof. intros H. apply existsb_exists. exists s. split; [exact H | apply String.eqb_refl]. Qed.

Lemma unknown_in_norm (l : list (string * list string)) params pre v ps post x :
  l = pre ++ (v, ps) :: post -> In x ps -> smem x params = false ->
  existsb (fun vc => existsb (fun p => negb (smem p params)) (snd vc)) l = true.
Proof.
  intros -> Hin Hx. apply existsb_mid. simpl. apply existsb_exists. exists x. split; [exact Hin|]. now rewrite Hx.
Qed.

(* an unknown parameter name at any position of order1=[...] *)
Theorem reject_unknown_parameter_list params params2 pre x post a2 :
  smem x params = false ->
  parse_partials_ok params params2 (O1List (pre ++ x :: post)) a2 = Reject ValueError.
Proof.
  intros Hx. unfold parse_partials_ok.
  assert (F : o1_falsy (O1List (pre ++ x :: post)) = false) by (destruct pre; reflexivity).
  rewrite F. unfold norm_o1. rewrite F.
  rewrite (unknown_in_norm _ params (map (fun p => (p, [p])) pre) x [x] (map (fun p => (p, [p])) post) x);
    [reflexivity | | left; reflexivity | exact Hx].
  rewrite map_app. reflexivity.
Qed.
Theorem reject_unknown_parameter_str params params2 x a2 :
  smem x params = false -> parse_partials_ok params params2 (O1Str x) a2 = Reject ValueError.
Proof.
  intros Hx. unfold parse_partials_ok. cbn [o1_falsy norm_o1 existsb snd]. rewrite Hx. reflexivity.
Qed.
(* an alias {variable: unknown parameter} at any position *)
Theorem reject_unknown_parameter_alias params params2 pre v x post a2 :
  smem x params = false ->
  parse_partials_ok params params2 (O1Alias (pre ++ (v, x) :: post)) a2 = Reject ValueError.
Proof.
  intros Hx. unfold parse_partials_ok.
  assert (F : o1_falsy (O1Alias (pre ++ (v, x) :: post)) = false) by (destruct pre; reflexivity).
  rewrite F. unfold norm_o1. rewrite F.
  rewrite (unknown_in_norm _ params (map (fun vp => (fst vp, [snd vp])) pre) v [x]
             (map (fun vp => (fst vp, [snd vp])) post) x);
    [reflexivity | | left; reflexivity | exact Hx].
  rewrite map_app. reflexivity.
Qed.
(* coefficient form {variable: {parameter: c}}: unknown parameter in any variable's map *)
Theorem reject_unknown_parameter_coef params params2 pre v ps post x a2 :
  In x ps -> smem x params = false ->
  parse_partials_ok params params2 (O1Coef (pre ++ (v, ps) :: post)) a2 = Reject ValueError.
Proof.
  intros Hin Hx. unfold parse_partials_ok.
  assert (F : o1_falsy (O1Coef (pre ++ (v, ps) :: post)) = false) by (destruct pre; reflexivity).
  rewrite F. unfold norm_o1. rewrite F.
  rewrite (unknown_in_norm _ params pre v ps post x); [reflexivity | reflexivity | exact Hin | exact Hx].
Qed.

Lemma known_params_ok params :
  existsb (fun vc : string * list string => existsb (fun p => negb (smem p params)) (snd vc))
          (map (fun p => (p, [p])) params) = false.
Proof.
  destruct (existsb _ _) eqn:E; [|reflexivity].
  apply existsb_exists in E. destruct E as [vc [Hin H]]. apply in_map_iff in Hin.
  destruct Hin as [p [<- Hp]]. simpl in H. rewrite (smem_In p params Hp) in H. discriminate.
Qed.

Lemma existsb_map' {A B} (f : B -> bool) (g : A -> B) l : existsb f (map g l) = existsb (fun x => f (g x)) l.
Proof. induction l as [|x l IH]; [reflexivity|]. simpl. now rewrite IH. Qed.

Lemma parse_o2pairs_untouched params params2 a1 l o1 :
  o1_falsy a1 = false -> norm_o1 params a1 = Some o1 ->
  existsb (fun vc : string * list string => existsb (fun p => negb (smem p params)) (snd vc)) o1 = false ->
  o1 <> [] -> o2_falsy (O2Pairs l) = false ->
  existsb (fun p => negb (pair_touches (map fst o1) p)) l = true ->
  parse_partials_ok params params2 a1 (O2Pairs l) = Reject ValueError.
Proof.
  intros H1 H2 H3 H4 H5 H6. unfold parse_partials_ok. rewrite H1, H2, H3, H5.
  destruct o1 as [|vc o1]; [congruence|].
  unfold guard at 1 2. unfold andv at 1 2 3.
  rewrite existsb_map'. cbn [fst]. rewrite H6. reflexivity.
Qed.

(* order1=True and a pair of two unknown names at any position of order2=[pairs] *)
Theorem reject_unknown_pair p0 params params2 pre a b post :
  smem a (p0 :: params) = false -> smem b (p0 :: params) = false ->
  parse_partials_ok (p0 :: params) params2 O1True (O2Pairs (pre ++ (a, b) :: post)) = Reject ValueError.
Proof.
  intros Ha Hb.
  apply (parse_o2pairs_untouched (p0 :: params) params2 O1True _ (map (fun p => (p, [p])) (p0 :: params))).
  - reflexivity.
  - reflexivity.
  - apply known_params_ok.
  - discriminate.
  - destruct pre; reflexivity.
  - apply existsb_mid. rewrite map_map. cbn [fst]. rewrite map_id.
    unfold pair_touches. cbn [fst snd]. rewrite Ha, Hb. reflexivity.
Qed.

Lemma existsb_none {A} (f : A -> bool) l : (forall x, In x l -> f x = false) -> existsb f l = false.
Proof.
  intros H. destruct (existsb f l) eqn:E; [|reflexivity].
  apply existsb_exists in E. destruct E as [x [Hin Hx]]. rewrite (H x Hin) in Hx. discriminate.
Qed.

(* order2 given as a list of names: every pair of names is requested *)
Lemma strlist_pairs_in l pc :
  In pc (flat_map (fun a : string => map (fun b : string => ((a, b), @nil string)) l) l) ->
  In (fst (fst pc)) l /\ In (snd (fst pc)) l /\ snd pc = [].
Proof.
  intros H. apply in_flat_map in H. destruct H as [a [Ha H]].
  apply in_map_iff in H. destruct H as [b [<- Hb]]. auto.
Qed.
Theorem accept_order2_name_list p0 params params2 l :
  (forall x, In x l -> smem x (p0 :: params) = true) ->
  parse_partials_ok (p0 :: params) params2 O1True (O2StrList l) = Accept.
Proof.
  intros Hl. unfold parse_partials_ok. cbn [o1_falsy norm_o1]. rewrite known_params_ok. cbn [guard andv].
  destruct (o2_falsy (O2StrList l)); [reflexivity|].
  cbn [map fst guard andv].
  assert (M : map fst (map (fun p : string => (p, [p])) params) = params).
  { rewrite map_map. simpl. now rewrite map_id. }
  rewrite M.
  set (pairs := flat_map (fun a : string => map (fun b : string => ((a, b), @nil string)) l) l).
  assert (E1 : existsb (fun pc : string * string * list string => negb (pair_touches (p0 :: params) (fst pc))) pairs = false).
  { apply existsb_none. intros pc Hin. apply strlist_pairs_in in Hin. destruct Hin as [Ha _].
    unfold pair_touches. now rewrite (Hl _ Ha). }
  assert (E2 : existsb (fun pc : string * string * list string => negb (pair_inside (p0 :: params) (fst pc))
                 && match snd pc with [] => false | _ => true end) pairs = false).
  { apply existsb_none. intros pc Hin. apply strlist_pairs_in in Hin. destruct Hin as [_ [_ Hn]].
    rewrite Hn. apply andb_false_r. }
  assert (E3 : existsb (fun pc : string * string * list string => existsb (fun p => negb (smem p (p0 :: params))) (snd pc)) pairs = false).
  { apply existsb_none. intros pc Hin. apply strlist_pairs_in in Hin. destruct Hin as [_ [_ Hn]].
    now rewrite Hn. }
  rewrite E1, E2, E3. reflexivity.
Qed.
(* ... and a name that is no order1 variable, at any position of that list, is refused *)
Theorem reject_unknown_name_in_order2_list p0 params params2 pre x post :
  smem x (p0 :: params) = false ->
  parse_partials_ok (p0 :: params) params2 O1True (O2StrList (pre ++ x :: post)) = Reject ValueError.
Proof.
  intros Hx. unfold parse_partials_ok. cbn [o1_falsy norm_o1]. rewrite known_params_ok. cbn [guard andv].
  assert (F : o2_falsy (O2StrList (pre ++ x :: post)) = false) by (destruct pre; reflexivity).
  rewrite F. cbn [map fst guard andv].
  assert (M : map fst (map (fun p : string => (p, [p])) params) = params).
  { rewrite map_map. simpl. now rewrite map_id. }
  rewrite M.
  set (l := pre ++ x :: post).
  assert (E1 : existsb (fun pc : string * string * list string => negb (pair_touches (p0 :: params) (fst pc)))
                 (flat_map (fun a : string => map (fun b : string => ((a, b), @nil string)) l) l) = true).
  { apply existsb_exists. exists ((x, x), []). split.
    - apply in_flat_map. exists x. split; [apply in_elt|]. apply in_map_iff. exists x. split; [reflexivity | apply in_elt].
    - unfold pair_touches. cbn [fst snd]. rewrite Hx. reflexivity. }
  rewrite E1. reflexivity.
Qed.

Theorem accept_known_parameters p0 params params2 :
  parse_partials_ok (p0 :: params) params2 O1True O2False = Accept.
Proof. unfold parse_partials_ok. cbn [o1_falsy norm_o1]. rewrite known_params_ok. reflexivity. Qed.

(* ------------------------------------------------------------------ 13. sequences *)
Lemma flatten_none_at fuel : forall pre x post,
  (forall f, match x with IOp _ | IProbe => Some [x] | IMulti ops | IList ops => flatten f ops | INonOp => None end = None) ->
  flatten fuel (pre ++ x :: post) = None.
Proof.
  induction fuel as [|f IH]; intros pre x post Hx; [reflexivity|].
  destruct pre as [|p pre]; simpl.
  - rewrite (Hx f). reflexivity.
  - rewrite (IH pre x post Hx). destruct p; try reflexivity; destruct (flatten f _); reflexivity.
Qed.

(* a non-operator item at any position and any nesting depth (python lists, MultiOperators) *)
Inductive has_nonop : list item -> Prop :=
| nonop_here pre post : has_nonop (pre ++ INonOp :: post)
| nonop_list pre sub post : has_nonop sub -> has_nonop (pre ++ IList sub :: post)
| nonop_multi pre sub post : has_nonop sub -> has_nonop (pre ++ IMulti sub :: post).

Lemma flatten_nonop l : has_nonop l -> forall fuel, flatten fuel l = None.
Proof.
  induction 1; intros fuel; apply flatten_none_at; intros f; auto.
Qed.

Theorem reject_non_operator_item l fuel : has_nonop l -> simulate_ok fuel l = Reject ValueError.
Proof. intros H. unfold simulate_ok, flatten_shape_ok. rewrite (flatten_nonop l H). reflexivity. Qed.
Theorem reject_non_operator_item_modify l fuel c : has_nonop l -> modify_ok fuel l c = Reject ValueError.
Proof. intros H. unfold modify_ok, flatten_shape_ok. rewrite (flatten_nonop l H). reflexivity. Qed.

(* no probe among the flattened operators, whatever the length and nesting *)
Theorem reject_no_probe fuel l leaves :
  flatten fuel l = Some leaves -> existsb is_probe leaves = false -> simulate_ok fuel l = Reject ValueError.
Proof.
  intros H Hp. unfold simulate_ok, flatten_shape_ok, has_probe. rewrite H, Hp.
  destruct leaves; [reflexivity|]. cbn [guard andv]. destruct (bshapes_ok _); reflexivity.
Qed.
Theorem accept_with_probe fuel l leaves :
  flatten fuel l = Some leaves -> leaves <> [] -> bshapes_ok (map leaf_shape leaves) = true ->
  existsb is_probe leaves = true -> simulate_ok fuel l = Accept.
Proof.
  intros H Hn Hb Hp. unfold simulate_ok, flatten_shape_ok, has_probe. rewrite H, Hb, Hp.
  destruct leaves; [congruence | reflexivity].
Qed.

(* ... whatever options accompany the call (probe=, adc_time, asarray, init, max_nstate, callback) *)
Theorem reject_no_probe_any_options o fuel l leaves :
  flatten fuel l = Some leaves -> existsb is_probe leaves = false ->
  simulate_call_ok o fuel l = Reject ValueError.
Proof. intros H Hp. apply (reject_no_probe fuel l leaves H Hp). Qed.
Theorem reject_non_operator_item_any_options o l fuel : has_nonop l -> simulate_call_ok o fuel l = Reject ValueError.
Proof. apply reject_non_operator_item. Qed.
Theorem accept_with_probe_any_options o fuel l leaves :
  flatten fuel l = Some leaves -> leaves <> [] -> bshapes_ok (map leaf_shape leaves) = true ->
  existsb is_probe leaves = true -> simulate_call_ok o fuel l = Accept.
Proof. apply accept_with_probe. Qed.

Theorem reject_non_virtual_operator pre post : seq_check_ok (pre ++ false :: post) = Reject ValueError.
Proof.
  unfold seq_check_ok. rewrite (forallb_false _ _ false); [reflexivity | apply in_elt | reflexivity].
Qed.
Theorem reject_missing_variable pre v post given :
  smem v given = false -> seq_values_ok (pre ++ v :: post) given = Reject ValueError.
Proof. intros H. unfold seq_values_ok. rewrite existsb_mid; [reflexivity | now rewrite H]. Qed.
Theorem accept_all_variables_given vars : seq_values_ok vars vars = Accept.
Proof.
  unfold seq_values_ok. destruct (existsb _ vars) eqn:E; [|reflexivity].
  apply existsb_exists in E. destruct E as [v [Hin H]]. rewrite (smem_In v vars Hin) in H. discriminate.
Qed.
Theorem reject_unknown_order1_variable vars pre v post o2 given :
  smem v vars = false -> not_magnitude v = true ->
  seq_build_ok vars (pre ++ v :: post) o2 given = Reject ValueError.
Proof.
  intros H Hm. unfold seq_build_ok. rewrite filter_app. cbn [filter]. rewrite Hm.
  rewrite existsb_mid; [reflexivity | now rewrite H].
Qed.

(* an unknown variable in either slot of a pair at any position of order2, whatever its partner
   (another variable or "magnitude") *)
Theorem reject_unknown_order2_variable vars o1 pre v w post given :
  smem v vars = false -> not_magnitude v = true ->
  seq_build_ok vars o1 (pre ++ (v, w) :: post) given = Reject ValueError /\
  seq_build_ok vars o1 (pre ++ (w, v) :: post) given = Reject ValueError.
Proof.
  intros H Hm. unfold seq_build_ok.
  assert (U : unknown_var vars v = true) by (unfold unknown_var; now rewrite Hm, H).
  split; destruct (existsb _ (filter not_magnitude o1)); try reflexivity; cbn [guard andv];
    (rewrite existsb_mid; [reflexivity|]); cbn [fst snd]; rewrite U; [reflexivity | apply orb_true_r].
Qed.
(* "magnitude" and the sequence's own variables are accepted in any pairing *)
Theorem accept_known_order2_variables vars o2 :
  (forall p, In p o2 -> (fst p = "magnitude"%string \/ In (fst p) vars) /\ (snd p = "magnitude"%string \/ In (snd p) vars)) ->
  seq_build_ok vars [] o2 vars = Accept.
Proof.
  intros H. unfold seq_build_ok. cbn [filter existsb guard andv].
  assert (K : forall v, v = "magnitude"%string \/ In v vars -> unknown_var vars v = false).
  { intros v [-> | Hin]; [reflexivity|]. unfold unknown_var. rewrite (smem_In v vars Hin). apply andb_false_r. }
  rewrite existsb_none; [apply accept_all_variables_given|].
  intros p Hp. destruct (H p Hp) as [H1 H2]. now rewrite (K _ H1), (K _ H2).
Qed.

(* ------------------------------------------------------------------ 14. RF pulses *)
Definition given (rf alpha : option Q) : Prop := rf <> None \/ alpha <> None.
Lemma given_ok rf alpha : given rf alpha -> is_none rf && is_none alpha = false.
Proof. intros [H|H]; [destruct rf | destruct alpha]; try congruence; try reflexivity. apply andb_false_r. Qed.

Theorem reject_pulse_sample_above_1 rf alpha pre v post dur :
  given rf alpha -> 1 < abs2 v -> pulse_ok rf alpha 1 (pre ++ v :: post) dur = Reject ValueError.
Proof.
  intros G H. unfold pulse_ok. rewrite (given_ok _ _ G). cbn [negb Nat.ltb Nat.leb guard andv].
  rewrite existsb_mid; [reflexivity | now apply Qltb_true].
Qed.
Theorem reject_pulse_without_rf_and_alpha ndim values dur :
  pulse_ok None None ndim values dur = Reject ValueError.
Proof. reflexivity. Qed.
Theorem accept_pulse_within_unit_disc rf alpha values d :
  given rf alpha -> (forall v, In v values -> abs2 v <= 1) -> 0 <= d ->
  pulse_ok rf alpha 1 values (PScalar d) = Accept.
Proof.
  intros G H Hd. unfold pulse_ok. rewrite (given_ok _ _ G). cbn [negb Nat.ltb Nat.leb guard andv].
  assert (existsb (fun v => Qltb 1 (abs2 v)) values = false) as ->.
  { destruct (existsb _ values) eqn:E; [|reflexivity].
    apply existsb_exists in E. destruct E as [v [Hin Hv]]. rewrite (Qltb_false _ _ (H v Hin)) in Hv. discriminate. }
  cbn [guard andv]. rewrite (Qltb_false _ _ Hd). reflexivity.
Qed.
(* boundary: a zero flip angle or a zero amplitude, with the other one not given, and zero duration *)
Theorem accept_pulse_zero_alpha_or_rf values :
  (forall v, In v values -> abs2 v <= 1) ->
  pulse_ok None (Some 0) 1 values (PScalar 0) = Accept /\ pulse_ok (Some 0) None 1 values (PScalar 0) = Accept /\
  pulse_ok (Some 0) (Some 0) 1 values (PScalar 0) = Accept.
Proof.
  intros H. repeat split; apply accept_pulse_within_unit_disc; try (apply Qle_refl); try exact H;
    unfold given; (left; discriminate) || (right; discriminate).
Qed.

(* ------------------------------------------------------------------ allclose on complex entries *)
Theorem close_within_atol A B : A <= atol * atol -> le_sqrt_aff A B = true.
Proof. intros H. unfold le_sqrt_aff. apply Qle_bool_iff in H. rewrite H. reflexivity. Qed.
(* beyond atol and beyond the relative term: rejected (squares: (|a-b| - atol)^2 > rtol^2 |b|^2) *)
Theorem far_not_close A B :
  atol * atol < A -> 0 < A + atol * atol - rtol * rtol * B ->
  4 * (atol * atol) * A < (A + atol * atol - rtol * rtol * B) * (A + atol * atol - rtol * rtol * B) ->
  le_sqrt_aff A B = false.
Proof.
  intros H1 H2 H3. unfold le_sqrt_aff.
  assert (Qle_bool A (atol * atol) = false) as ->.
  { destruct (Qle_bool _ _) eqn:E; [|reflexivity]. apply Qle_bool_iff in E. exfalso. apply (Qlt_not_le _ _ H1 E). }
  assert (Qle_bool (A + atol * atol - rtol * rtol * B) 0 = false) as ->.
  { destruct (Qle_bool _ _) eqn:E; [|reflexivity]. apply Qle_bool_iff in E. exfalso. apply (Qlt_not_le _ _ H2 E). }
  destruct (Qle_bool _ _) eqn:E; [|reflexivity]. apply Qle_bool_iff in E. exfalso. apply (Qlt_not_le _ _ H3 E).
Qed.
(* exact symmetry is always accepted *)
Theorem cclose_refl (a : QI) : cclose a a = true.
Proof.
  unfold cclose. apply close_within_atol. unfold abs2, qi_sub, qre, qim. simpl.
  destruct a as [x y]. simpl.
  assert (Ex : this (x - x)%Qc == 0) by (rewrite Qcminus_diag || (unfold Qcminus; rewrite Qcplus_opp_r); reflexivity).
  assert (Ey : this (y - y)%Qc == 0) by (unfold Qcminus; rewrite Qcplus_opp_r; reflexivity).
  rewrite Ex, Ey. discriminate.
Qed.
