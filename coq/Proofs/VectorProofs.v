(* C07 — lemmas on the shape algebra of Model/Vector.v, for every rank (induction on lists). *)
From Coq Require Import List ZArith Lia Bool Arith Setoid.
From EPG Require Import Scalar QI State Ops ListLemmas NdArray NdArrayProofs Vector.
Import ListNotations.

(* ------------------------------------------------------------------ lists *)
Lemma map2_length {A B C} (f : A -> B -> C) x y : length (map2 f x y) = Nat.min (length x) (length y).
Proof. revert y. induction x; intros [|b y]; simpl; auto. Qed.

Lemma map2_app {A B C} (f : A -> B -> C) x1 x2 y1 y2 :
  length x1 = length y1 -> map2 f (x1 ++ x2) (y1 ++ y2) = map2 f x1 y1 ++ map2 f x2 y2.
Proof.
  revert y1. induction x1; intros [|b y1] H; simpl in *; try discriminate; auto.
  f_equal. apply IHx1. lia.
Qed.

Lemma map2_nil_r {A B C} (f : A -> B -> C) x : map2 f x [] = [].
Proof. destruct x; reflexivity. Qed.

Lemma firstn_map2 {A B C} (f : A -> B -> C) n x y :
  firstn n (map2 f x y) = map2 f (firstn n x) (firstn n y).
Proof.
  revert x y. induction n; intros x y; simpl; auto.
  destruct x as [|a x], y as [|b y]; simpl; auto. f_equal. apply IHn.
Qed.

Lemma nth_map2 {A B C} (f : A -> B -> C) x y i da db dc :
  i < length x -> i < length y -> nth i (map2 f x y) dc = f (nth i x da) (nth i y db).
Proof.
  revert y i. induction x; intros [|b y] i Hx Hy; simpl in *; try lia.
  destruct i; auto. apply IHx; lia.
Qed.

Lemma sequence_some {A} (l : list (option A)) r :
  sequence l = Some r -> length r = length l /\ forall i, i < length l -> forall d, nth i l None = Some (nth i r d).
Proof.
  revert r. induction l as [|[a|] l IH]; intros r H; simpl in *; try discriminate.
  - inversion H; subst. split; auto. intros; lia.
  - destruct (sequence l) eqn:E; try discriminate. inversion H; subst.
    destruct (IH l0 eq_refl) as [IH1 IH2]. split; simpl; [lia|].
    intros [|i] Hi d; auto. apply IH2. lia.
Qed.

Lemma sequence_none {A} (l : list (option A)) :
  sequence l = None <-> In None l.
Proof.
  induction l as [|[a|] l IH]; simpl.
  - split; [discriminate|tauto].
  - destruct (sequence l); split; intros H; try discriminate.
    + destruct H as [H|H]; [discriminate|]. apply IH in H. discriminate.
    + right. now apply IH.
    + reflexivity.
  - split; auto.
Qed.

Lemma sequence_all_some {A} (l : list (option A)) :
  (forall x, In x l -> x <> None) -> exists r, sequence l = Some r.
Proof.
  intros H. destruct (sequence l) eqn:E; eauto.
  apply sequence_none in E. exfalso. now apply (H None).
Qed.

Lemma shape_eqb_eq a b : shape_eqb a b = true <-> a = b.
Proof.
  unfold shape_eqb. revert b. induction a; intros [|y b]; simpl; split; intros H; try discriminate; auto.
  - apply andb_true_iff in H as [H1 H2]. apply Nat.eqb_eq in H1. apply IHa in H2. now subst.
  - inversion H; subst. rewrite Nat.eqb_refl. simpl. now apply IHa.
Qed.

(* ------------------------------------------------------------------ expand_shapes *)
Lemma length_le_maxlen ss s : In s ss -> length s <= maxlen ss.
Proof. induction ss; simpl; intros H; [destruct H|]. destruct H as [H|H]; subst; [lia|]. specialize (IHss H). lia. Qed.

Lemma pad_app_length n s : length s <= n -> length (pad_app n s) = n.
Proof. intros H. unfold pad_app. rewrite app_length, repeat_length. lia. Qed.
Lemma pad_pre_length n s : length s <= n -> length (pad_pre n s) = n.
Proof. intros H. unfold pad_pre. rewrite app_length, repeat_length. lia. Qed.

(* every expanded shape has the common rank, and the same number of shapes comes back *)
Theorem expand_shapes_length ap ss :
  length (expand_shapes ap ss) = length ss /\
  forall e, In e (expand_shapes ap ss) -> length e = maxlen ss.
Proof.
  unfold expand_shapes. split; [apply map_length|].
  intros e H. apply in_map_iff in H as [s [<- Hs]]. apply length_le_maxlen in Hs.
  destruct ap; [now apply pad_app_length | now apply pad_pre_length].
Qed.

(* the expansion keeps the entries: left-aligned (append) / right-aligned (prepend), 1 elsewhere *)
Lemma nth_pad_app n s i : nth i (pad_app n s) 1 = nth i s 1.
Proof.
  unfold pad_app. destruct (Nat.lt_ge_cases i (length s)).
  - now rewrite app_nth1.
  - rewrite app_nth2 by lia. rewrite (nth_overflow s) by lia.
    destruct (Nat.lt_ge_cases (i - length s) (n - length s)).
    + now apply nth_repeat'.
    + apply nth_overflow. rewrite repeat_length. lia.
Qed.

Lemma nth_pad_pre n s i : length s <= n -> i < n ->
  nth i (pad_pre n s) 1 = if i <? n - length s then 1 else nth (i - (n - length s)) s 1.
Proof.
  intros Hn Hi. unfold pad_pre. destruct (Nat.ltb_spec i (n - length s)).
  - rewrite app_nth1 by (rewrite repeat_length; lia). now apply nth_repeat'.
  - rewrite app_nth2 by (rewrite repeat_length; lia). now rewrite repeat_length.
Qed.

(* ------------------------------------------------------------------ columns *)
Lemma all_same_spec l : all_same l = true <-> forall a b, In a l -> In b l -> a = b.
Proof.
  destruct l as [|d r]; simpl.
  - split; auto. intros _ a b [].
  - rewrite forallb_forall. split.
    + intros H a b [Ha|Ha] [Hb|Hb]; subst; auto.
      * apply H in Hb. now apply Nat.eqb_eq in Hb.
      * apply H in Ha. apply Nat.eqb_eq in Ha. auto.
      * apply H in Ha. apply H in Hb. apply Nat.eqb_eq in Ha, Hb. congruence.
    + intros H x Hx. apply Nat.eqb_eq. apply H; auto.
Qed.

(* a column is accepted by [broadcastable] iff no two entries other than 1 differ *)
Lemma col_ok_spec dims :
  all_same (non1 dims) = true <->
  forall a b, In a dims -> In b dims -> a <> 1 -> b <> 1 -> a = b.
Proof.
  rewrite all_same_spec. unfold non1. split.
  - intros H a b Ha Hb Na Nb. apply H; apply filter_In; split; auto; apply negb_true_iff; now apply Nat.eqb_neq.
  - intros H a b Ha Hb. apply filter_In in Ha as [Ha Na], Hb as [Hb Nb].
    apply negb_true_iff in Na, Nb. apply Nat.eqb_neq in Na, Nb. auto.
Qed.

Lemma bs_col_some dims d :
  bs_col dims = Some d ->
  (forall x, In x dims -> x <= 1 \/ x = d) /\
  ((d = 1 /\ forall x, In x dims -> x <= 1) \/ (1 < d /\ In d dims)).
Proof.
  unfold bs_col. destruct (gt1 dims) as [|e r] eqn:E.
  - intros H; inversion H; subst. assert (A : forall x, In x dims -> x <= 1).
    { intros x Hx. destruct (Nat.ltb_spec 1 x); auto.
      assert (In x (gt1 dims)) by (apply filter_In; split; auto; now apply Nat.ltb_lt).
      rewrite E in H1. destruct H1. }
    split; auto.
  - destruct (forallb (Nat.eqb e) r) eqn:F; intros H; inversion H; subst.
    assert (Hd : In d (gt1 dims)) by (rewrite E; now left).
    apply filter_In in Hd as [Hd1 Hd2]. apply Nat.ltb_lt in Hd2.
    split; [|right; auto].
    intros x Hx. destruct (Nat.ltb_spec 1 x); [right|left; lia].
    assert (Hg : In x (gt1 dims)) by (apply filter_In; split; auto; now apply Nat.ltb_lt).
    rewrite E in Hg. destruct Hg as [Hg|Hg]; auto.
    rewrite forallb_forall in F. apply F in Hg. apply Nat.eqb_eq in Hg. auto.
Qed.

Lemma bs_col_none dims :
  bs_col dims = None <-> exists a b, In a dims /\ In b dims /\ 1 < a /\ 1 < b /\ a <> b.
Proof.
  unfold bs_col. destruct (gt1 dims) as [|e r] eqn:E.
  - split; [discriminate|]. intros (a & b & Ha & _ & La & _).
    assert (In a (gt1 dims)) by (apply filter_In; split; auto; now apply Nat.ltb_lt).
    rewrite E in H. destruct H.
  - assert (He : In e dims /\ 1 < e).
    { assert (In e (gt1 dims)) by (rewrite E; now left). apply filter_In in H as [? H]. apply Nat.ltb_lt in H. auto. }
    destruct (forallb (Nat.eqb e) r) eqn:F.
    + split; [discriminate|]. intros (a & b & Ha & Hb & La & Lb & N). exfalso.
      rewrite forallb_forall in F.
      assert (Ga : In a (e :: r)) by (rewrite <- E; apply filter_In; split; auto; now apply Nat.ltb_lt).
      assert (Gb : In b (e :: r)) by (rewrite <- E; apply filter_In; split; auto; now apply Nat.ltb_lt).
      assert (a = e) by (destruct Ga as [|Ga]; auto; apply F in Ga; apply Nat.eqb_eq in Ga; auto).
      assert (b = e) by (destruct Gb as [|Gb]; auto; apply F in Gb; apply Nat.eqb_eq in Gb; auto).
      congruence.
    + split; auto. intros _.
      assert (exists x, In x r /\ Nat.eqb e x = false) as (x & Hx & Nx).
      { clear -F. induction r; simpl in *; [discriminate|].
        destruct (Nat.eqb e a) eqn:Q; simpl in F.
        - destruct (IHr F) as (x & ? & ?). exists x; auto.
        - exists a; auto. }
      apply Nat.eqb_neq in Nx.
      assert (In x (gt1 dims)) by (rewrite E; now right). apply filter_In in H as [H1 H2]. apply Nat.ltb_lt in H2.
      exists e, x. tauto.
Qed.

(* ------------------------------------------------------------------ broadcast_shapes *)
(* Result axis i is the unique size > 1 found on axis i of the expanded shapes (1 when there is
   none); ValueError (None) iff two sizes > 1 differ on some axis. *)
Theorem broadcast_shapes_spec ap ss :
  (forall r, broadcast_shapes ap ss = Some r ->
     length r = maxlen ss /\
     forall i, i < maxlen ss ->
       (forall e, In e (expand_shapes ap ss) -> nth i e 1 <= 1 \/ nth i e 1 = nth i r 1) /\
       ((nth i r 1 = 1 /\ forall e, In e (expand_shapes ap ss) -> nth i e 1 <= 1) \/
        (1 < nth i r 1 /\ exists e, In e (expand_shapes ap ss) /\ nth i e 1 = nth i r 1))) /\
  (broadcast_shapes ap ss = None <->
     exists i e1 e2, i < maxlen ss /\ In e1 (expand_shapes ap ss) /\ In e2 (expand_shapes ap ss) /\
       1 < nth i e1 1 /\ 1 < nth i e2 1 /\ nth i e1 1 <> nth i e2 1).
Proof.
  unfold broadcast_shapes. cbv zeta. set (es := expand_shapes ap ss). set (n := maxlen ss). split.
  - intros r H. apply sequence_some in H as [H1 H2]. rewrite map_length, seq_length in H1, H2.
    split; auto. intros i Hi. specialize (H2 i Hi 1).
    rewrite (nth_indep _ None (bs_col (col 0 es))) in H2 by (rewrite map_length, seq_length; lia).
    rewrite (map_nth (fun i => bs_col (col i es))) in H2. rewrite seq_nth in H2 by lia. simpl in H2.
    apply bs_col_some in H2 as [A B]. split.
    + intros e He. apply A. unfold col. apply in_map_iff. eauto.
    + destruct B as [[B1 B2]|[B1 B2]]; [left|right]; split; auto.
      * intros e He. apply B2. unfold col. apply in_map_iff. eauto.
      * unfold col in B2. apply in_map_iff in B2 as (e & E1 & E2). eauto.
  - split.
    + intros H. apply sequence_none in H. apply in_map_iff in H as (i & Hc & Hi). apply in_seq in Hi. apply bs_col_none in Hc as (a & b & Ha & Hb & La & Lb & N).
      unfold col in Ha, Hb. apply in_map_iff in Ha as (e1 & <- & He1), Hb as (e2 & <- & He2).
      exists i, e1, e2. repeat split; auto; lia.
    + intros (i & e1 & e2 & Hi & H1 & H2 & L1 & L2 & N). apply sequence_none. apply in_map_iff.
      exists i. split; [|apply in_seq; lia].
      apply bs_col_none. exists (nth i e1 1), (nth i e2 1).
      repeat split; auto; unfold col; apply in_map_iff; eauto.
Qed.

(* all sizes >= 1 *)
Definition pos (s : shape) : Prop := List.Forall (fun d => 1 <= d) s.
Definition allpos (ss : list shape) : Prop := List.Forall pos ss.

Lemma pos_nth s i : pos s -> 1 <= nth i s 1.
Proof.
  intros H. destruct (Nat.lt_ge_cases i (length s)).
  - unfold pos in H. rewrite List.Forall_forall in H. apply H. now apply nth_In.
  - rewrite nth_overflow; auto.
Qed.

Lemma pos_expand ap ss e : allpos ss -> In e (expand_shapes ap ss) -> pos e.
Proof.
  intros H He. unfold expand_shapes in He. apply in_map_iff in He as (s & <- & Hs).
  unfold allpos in H. rewrite List.Forall_forall in H. specialize (H s Hs).
  assert (R : forall k, pos (repeat 1 k)) by (induction k; constructor; auto).
  destruct ap; unfold pad_app, pad_pre, pos; apply List.Forall_app; split; auto; apply R.
Qed.

(* broadcastable <-> broadcast_shapes does not raise, for shapes without 0-sized axes *)
Theorem broadcastable_iff ap ss :
  allpos ss -> (broadcastable ap ss = true <-> broadcast_shapes ap ss <> None).
Proof.
  intros P. unfold broadcastable. cbv zeta. rewrite forallb_forall. split.
  - intros H N. apply (proj2 (broadcast_shapes_spec ap ss)) in N.
    destruct N as (i & e1 & e2 & Hi & H1 & H2 & L1 & L2 & N).
    assert (Hs : In i (seq 0 (maxlen ss))) by (apply in_seq; lia).
    apply H in Hs. rewrite col_ok_spec in Hs. apply N.
    apply Hs; unfold col; try (apply in_map_iff; eauto); lia.
  - intros H i Hi. apply in_seq in Hi. apply col_ok_spec. intros a b Ha Hb Na Nb.
    unfold col in Ha, Hb. apply in_map_iff in Ha as (e1 & <- & He1), Hb as (e2 & <- & He2).
    destruct (Nat.eq_dec (nth i e1 1) (nth i e2 1)) as [|D]; auto. exfalso. apply H.
    apply (proj2 (broadcast_shapes_spec ap ss)). exists i, e1, e2.
    pose proof (pos_nth e1 i (pos_expand ap ss e1 P He1)).
    pose proof (pos_nth e2 i (pos_expand ap ss e2 P He2)).
    repeat split; auto; lia.
Qed.

(* with a 0-sized axis the two functions disagree: broadcastable says no, broadcast_shapes
   returns (2,) without raising *)
Lemma broadcastable_iff_zero_refuted :
  exists ss, broadcastable true ss = false /\ broadcast_shapes true ss <> None.
Proof. exists [[0]; [2]]. vm_compute. split; [reflexivity|discriminate]. Qed.

(* ------------------------------------------------------------------ projections *)
(* [dom A R]: every axis of A is a singleton or has the size of the same axis of R, |A| <= |R| *)
Fixpoint dom (A R : shape) : Prop :=
  match A, R with
  | [], _ => True
  | a :: A', r :: R' => (a = 1 \/ a = r) /\ dom A' R'
  | _ :: _, [] => False
  end.
(* idx is an index of an array of shape R *)
Definition valid (R : shape) (idx : list nat) : Prop := List.Forall2 (fun i d => i < d) idx R.

Lemma dom_length A R : dom A R -> length A <= length R.
Proof. revert R. induction A; intros [|r R] H; simpl in *; try lia; try tauto. destruct H. specialize (IHA R H0). lia. Qed.

Lemma dom_app_l A X R : dom (A ++ X) R -> dom A R.
Proof. revert R. induction A; intros [|r R] H; simpl in *; auto. destruct H. split; auto. Qed.

Lemma dom_app_r A R X : dom A R -> dom A (R ++ X).
Proof. revert R. induction A; intros [|r R] H; simpl in *; auto; try tauto. destruct H. split; auto. Qed.

Lemma dom_refl R : dom R R.
Proof. induction R; simpl; auto. Qed.

Lemma map2_firstn_r {A B C} (f : A -> B -> C) x y : map2 f x (firstn (length x) y) = map2 f x y.
Proof. revert y. induction x; intros [|b y]; simpl; auto. now rewrite IHx. Qed.

Lemma aproj_long s idx : length s <= length idx -> aproj s idx = map2 sel s idx.
Proof.
  intros H. unfold aproj. replace (length s - length idx) with 0 by lia. simpl. now rewrite app_nil_r.
Qed.

Lemma aproj_length s idx : length s <= length idx -> length (aproj s idx) = length s.
Proof. intros H. rewrite aproj_long by auto. rewrite map2_length. lia. Qed.

Lemma np_proj_full s idx : length idx = length s -> np_proj s idx = map2 sel s idx.
Proof.
  intros H. unfold np_proj, align_r. rewrite H, Nat.sub_diag. reflexivity.
Qed.

Lemma map2_sel_dom A R idx : dom A R -> map2 sel A (map2 sel R idx) = map2 sel A idx.
Proof.
  revert R idx. induction A as [|a A IH]; intros [|r R] [|i idx] H; simpl in *; auto; try tauto.
  destruct H as [H1 H2]. f_equal; auto.
  unfold sel. destruct H1 as [->| ->]; simpl; auto. destruct (r =? 1); auto.
Qed.

(* re-projecting through a dominating shape does not change the projection *)
Lemma aproj_dom A R idx : dom A R -> length R <= length idx -> aproj A (aproj R idx) = aproj A idx.
Proof.
  intros D L. pose proof (dom_length _ _ D).
  rewrite (aproj_long R idx) by auto.
  rewrite aproj_long by (rewrite map2_length; lia).
  rewrite aproj_long by lia. now apply map2_sel_dom.
Qed.

Lemma valid_length R idx : valid R idx -> length idx = length R.
Proof. intros V. induction V; simpl; auto. Qed.

Lemma aproj_valid R idx : valid R idx -> aproj R idx = idx.
Proof.
  intros V. rewrite aproj_long by (apply valid_length in V; lia).
  induction V; simpl; auto. f_equal; auto. unfold sel. destruct (Nat.eqb_spec y 1); auto. lia.
Qed.

Lemma firstn_aproj_app B X idx : length (B ++ X) <= length idx ->
  firstn (length B) (aproj (B ++ X) idx) = aproj B idx.
Proof.
  intros L. rewrite app_length in L. rewrite aproj_long by (rewrite app_length; lia).
  rewrite firstn_map2. rewrite firstn_app, Nat.sub_diag, firstn_all. simpl. rewrite app_nil_r.
  rewrite map2_firstn_r. rewrite aproj_long by lia. reflexivity.
Qed.

(* ------------------------------------------------------------------ the axis insertion *)
Lemma repeat_snoc {A} (a : A) n : repeat a (S n) = repeat a n ++ [a].
Proof. induction n; simpl; auto. f_equal. exact IHn. Qed.

Lemma ins_le A B : length A <= length B -> ins A B = pad_app (length B) A ++ [1].
Proof.
  intros H. unfold ins, pad_app.
  replace (Nat.max 1 (S (length B) - length A)) with (S (length B - length A)) by lia.
  rewrite repeat_snoc. now rewrite app_assoc.
Qed.

Lemma ins_length A B : length A <= length B -> length (ins A B) = S (length B).
Proof. intros H. rewrite ins_le by auto. rewrite app_length, pad_app_length by auto. simpl. lia. Qed.

Lemma pad_pre_id n s : length s = n -> pad_pre n s = s.
Proof. intros <-. unfold pad_pre. now rewrite Nat.sub_diag. Qed.

Lemma sequence_app {A} (l1 l2 : list (option A)) :
  sequence (l1 ++ l2) = match sequence l1, sequence l2 with Some a, Some b => Some (a ++ b) | _, _ => None end.
Proof.
  induction l1 as [|[a|] l1 IH]; simpl.
  - destruct (sequence l2); auto.
  - rewrite IH. destruct (sequence l1), (sequence l2); auto.
  - reflexivity.
Qed.

Lemma np_bdim_1_l b : np_bdim 1 b = Some b.
Proof. unfold np_bdim, bc_dim. simpl. now rewrite orb_true_r. Qed.
Lemma np_bdim_1_r a : np_bdim a 1 = Some a.
Proof.
  unfold np_bdim, bc_dim. destruct (Nat.eqb_spec a 1); subst; simpl; auto.
  now rewrite orb_true_r.
Qed.
Lemma np_bdim_some a b r : np_bdim a b = Some r -> (a = 1 \/ a = r) /\ (b = 1 \/ b = r).
Proof.
  unfold np_bdim, bc_dim. destruct (Nat.eqb_spec a b), (Nat.eqb_spec a 1), (Nat.eqb_spec b a), (Nat.eqb_spec b 1);
    simpl; intros H; inversion H; subst; auto.
Qed.

(* append-aligned broadcast of the batch shapes (|A| <= |B|): axis i of A against axis i of B *)
Definition ashape (A B : shape) : option shape := sequence (map2 np_bdim (pad_app (length B) A) B).

(* numpy's right-aligned broadcast of the axis-inserted operator array against the states
   IS the append-aligned broadcast of the batch shapes, followed by the phase-state axis *)
Lemma prod_shape_le A B ns : length A <= length B ->
  prod_shape A B ns = match ashape A B with Some R => Some (R ++ [ns]) | None => None end.
Proof.
  intros H. unfold prod_shape, np_bshape.
  assert (E1 : length (ins A B) = S (length B)) by (now apply ins_length).
  assert (E2 : length (B ++ [ns]) = S (length B)) by (rewrite app_length; simpl; lia).
  rewrite E1, E2, Nat.max_id. rewrite !pad_pre_id by auto.
  rewrite ins_le by auto. rewrite map2_app by (now apply pad_app_length).
  rewrite sequence_app. unfold ashape. simpl. rewrite np_bdim_1_l. reflexivity.
Qed.

Lemma seq_map2_dom X B R : length X = length B -> sequence (map2 np_bdim X B) = Some R ->
  dom X R /\ dom B R /\ length R = length B.
Proof.
  revert B R. induction X as [|x X IH]; intros [|b B] R L H; simpl in *; try discriminate.
  - inversion H; subst. simpl. auto.
  - destruct (np_bdim x b) eqn:E; try discriminate.
    destruct (sequence (map2 np_bdim X B)) eqn:Q; try discriminate. inversion H; subst.
    apply np_bdim_some in E as [E1 E2]. destruct (IH B l ltac:(lia) Q) as (D1 & D2 & D3).
    simpl. repeat split; auto.
Qed.

Lemma ashape_dom A B R : length A <= length B -> ashape A B = Some R ->
  dom A R /\ dom B R /\ length R = length B.
Proof.
  intros L H. unfold ashape in H. apply seq_map2_dom in H; [|now apply pad_app_length].
  destruct H as (D1 & D2 & D3). repeat split; auto. unfold pad_app in D1. now apply dom_app_l in D1.
Qed.

(* scalar_prod / fall-back matrix_prod: operator element read at result index bidx ++ [k] *)
Lemma prod_op_aligned A B bidx k : length A <= length B -> length bidx = length B ->
  prod_op A B (bidx ++ [k]) = aproj A bidx.
Proof.
  intros L Lb. unfold prod_op.
  rewrite np_proj_full by (rewrite ins_length, app_length by auto; simpl; lia).
  rewrite firstn_map2. unfold ins. rewrite firstn_app, Nat.sub_diag, firstn_all. simpl. rewrite app_nil_r.
  rewrite map2_firstn_r. rewrite aproj_long by lia.
  assert (G : forall A bidx, length A <= length bidx -> map2 sel A (bidx ++ [k]) = map2 sel A bidx).
  { induction A0 as [|a A0 IH]; intros [|i b] H; simpl in *; auto; try lia. f_equal. apply IH. lia. }
  apply G. lia.
Qed.

Lemma prod_st_aligned B ns bidx k : length bidx = length B ->
  prod_st B ns (bidx ++ [k]) = aproj B bidx ++ [sel ns k].
Proof.
  intros Lb. unfold prod_st. rewrite np_proj_full by (rewrite !app_length; simpl; lia).
  rewrite map2_app by auto. rewrite aproj_long by lia. reflexivity.
Qed.

(* ------------------------------------------------------------------ in-place matmul branch *)
Lemma align_r_short n idx : length idx <= n -> align_r n idx = repeat 0 (n - length idx) ++ idx.
Proof. intros H. unfold align_r. replace (length idx - n) with 0 by lia. reflexivity. Qed.

Lemma np_bdim_to a b : np_bdim a b = Some b <-> (a = 1 \/ a = b).
Proof.
  unfold np_bdim, bc_dim. destruct (Nat.eqb_spec a b), (Nat.eqb_spec a 1), (Nat.eqb_spec b a), (Nat.eqb_spec b 1);
    simpl; split; intros H; auto; try (inversion H; subst; auto; fail); try (destruct H; congruence).
Qed.

Lemma seq_map2_to X B : length X = length B ->
  (sequence (map2 np_bdim X B) = Some B <-> dom X B).
Proof.
  revert B. induction X as [|x X IH]; intros [|b B] L; simpl in *; try discriminate.
  - tauto.
  - specialize (IH B ltac:(lia)). split.
    + intros H. destruct (np_bdim x b) eqn:E; try discriminate.
      destruct (sequence (map2 np_bdim X B)) eqn:Q; try discriminate. inversion H; subst.
      split; [now apply np_bdim_to | now apply IH].
    + intros [H1 H2]. apply np_bdim_to in H1. rewrite H1. apply IH in H2. now rewrite H2.
Qed.

Lemma dom_pad_app n A B : length A <= n -> length B = n -> (dom (pad_app n A) B <-> dom A B).
Proof.
  intros L1 L2. unfold pad_app. split; [apply dom_app_l|].
  subst n. revert B L1. induction A as [|a A IH]; intros B L1 H; simpl in *.
  - rewrite Nat.sub_0_r. clear. induction B; simpl; auto.
  - destruct B as [|b B]; simpl in *; [lia|]. destruct H. split; auto. apply IH; auto. lia.
Qed.

Lemma removelast_snoc {A} (l : list A) a : removelast (l ++ [a]) = l.
Proof. induction l; simpl; auto. destruct (l ++ [a]) eqn:E; [destruct l; discriminate|]. now rewrite IHl. Qed.

Lemma removelast_ins A B : removelast (ins A B) = pad_app (length B) A.
Proof.
  unfold ins, pad_app.
  replace (Nat.max 1 (S (length B) - length A)) with (S (length B - length A)) by lia.
  rewrite repeat_snoc, app_assoc. apply removelast_snoc.
Qed.

(* the in-place operand is the operator array with only the missing batch axes *)
Lemma mp_bmat_fixed A B : mp_bmat A B = pad_app (length B) A.
Proof. unfold mp_bmat. apply removelast_ins. Qed.

(* in-place matmul, every |A| <= |B|: numpy accepts it (no ValueError, no fall-back)
   exactly when every operator axis is a singleton or has the size of the SAME state axis ... *)
Theorem mp_inplace_fixed_spec A B : length A <= length B ->
  (mp_inplace_ok A B = true <-> dom A B).
Proof.
  intros L. unfold mp_inplace_ok, np_bshape. rewrite mp_bmat_fixed.
  assert (LP : length (pad_app (length B) A) = length B) by (now apply pad_app_length).
  rewrite LP, Nat.max_id. rewrite !pad_pre_id by auto.
  destruct (sequence (map2 np_bdim (pad_app (length B) A) B)) as [r|] eqn:Q.
  - pose proof (seq_map2_dom _ _ _ LP Q) as (_ & _ & Lr).
    unfold np_out_ok. rewrite Lr, Nat.sub_diag, Nat.leb_refl. simpl. rewrite shape_eqb_eq. split.
    + intros ->. apply (dom_pad_app (length B)); auto. now apply seq_map2_to.
    + intros D. apply (dom_pad_app (length B)) in D; auto. apply seq_map2_to in D; auto. congruence.
  - split; [discriminate|]. intros D. apply (dom_pad_app (length B)) in D; auto.
    apply seq_map2_to in D; auto. congruence.
Qed.

(* ... and it then reads the append-aligned operator element at every batch index *)
Theorem mp_inplace_fixed_reads A B bidx : length A <= length B -> length bidx = length B ->
  mp_inplace_op A B bidx = aproj A bidx.
Proof.
  intros L Lb. unfold mp_inplace_op. rewrite mp_bmat_fixed.
  rewrite np_proj_full by (rewrite pad_app_length; auto).
  rewrite firstn_map2. unfold pad_app. rewrite firstn_app, Nat.sub_diag, firstn_all. simpl. rewrite app_nil_r.
  rewrite map2_firstn_r. now rewrite aproj_long by lia.
Qed.

Lemma all_ones_map2 A x y : all_ones A = true -> length A <= length x -> length A <= length y ->
  map2 sel A x = map2 sel A y.
Proof.
  revert x y. induction A as [|a A IH]; intros [|i x] [|j y] H Lx Ly; simpl in *; auto; try lia.
  apply andb_true_iff in H as [H1 H2]. destruct a as [|[|a]]; try discriminate. f_equal. apply IH; auto; lia.
Qed.

Lemma all_ones_dom A B : all_ones A = true -> length A <= length B -> dom A B.
Proof.
  revert B. induction A as [|a A IH]; intros [|b B] H L; simpl in *; auto; try lia.
  apply andb_true_iff in H as [H1 H2]. destruct a as [|[|a]]; try discriminate. split; auto. apply IH; auto. lia.
Qed.

(* regression witnesses of the two repaired in-place defects: accepted in place, append-aligned *)
Lemma matrix_prod_inplace_witnesses :
  mp_inplace_ok [1; 2] [2; 2] = true /\ mp_inplace_op [1; 2] [2; 2] [1; 0] = [0; 0] /\
  mp_inplace_ok [1; 1; 2] [2; 1; 2; 1] = true /\
  mp_inplace_op [1; 1; 2] [2; 1; 2; 1] [1; 0; 1; 0] = [0; 0; 1].
Proof. vm_compute. repeat split. Qed.

(* out of reach of prepare (|A| > |B|): the element-wise product is then right-aligned *)
Lemma prod_low_rank_refuted :
  exists A B ns idx, broadcastable true [B; A] = true /\ length B < length A /\
    prod_shape A B ns <> None /\ removelast (prod_st B ns (idx ++ [0])) <> aproj B idx.
Proof. exists [2; 2], [2], 1, [0; 1]. vm_compute. repeat split; auto; discriminate. Qed.

(* ------------------------------------------------------------------ prepare *)
Lemma prepare_some A B B' : prepare A B = Some B' ->
  length A <= length B' /\ exists X, B' = B ++ X.
Proof.
  unfold prepare. destruct (broadcastable true [B; A]); [|discriminate].
  intros H. inversion H; subst. destruct (Nat.ltb_spec (length B) (length A)).
  - split; [rewrite pad_app_length; lia|]. unfold pad_app. eauto.
  - split; auto. exists []. now rewrite app_nil_r.
Qed.

(* incompatible shapes: prepare raises, and so does the operator application *)
Theorem incompatible_raises (S : ScalOps) ns (o : vop S) (s : vsm S) :
  broadcastable true [bshape s; vshape o] = false ->
  prepare (vshape o) (bshape s) = None /\ vapply ns o s = None.
Proof. intros H. unfold vapply, prepare. rewrite H. auto. Qed.

(* ... which is exactly: some axis (left-aligned) carries two different sizes other than 1 *)
Lemma forallb_false_ex {A} (f : A -> bool) l : forallb f l = false -> exists x, In x l /\ f x = false.
Proof.
  induction l; simpl; [discriminate|]. destruct (f a) eqn:E; simpl.
  - intros H. destruct (IHl H) as (x & ? & ?). exists x; auto.
  - intros _. exists a; auto.
Qed.

Theorem incompatible_iff A B :
  broadcastable true [B; A] = false <->
  exists i, nth i A 1 <> 1 /\ nth i B 1 <> 1 /\ nth i A 1 <> nth i B 1.
Proof.
  unfold broadcastable. cbv zeta. split.
  - intros H. apply forallb_false_ex in H as (i & Hi & H). exists i.
    unfold col, expand_shapes in H. simpl map in H. rewrite !nth_pad_app in H.
    unfold non1 in H. simpl filter in H.
    destruct (Nat.eqb_spec (nth i B 1) 1), (Nat.eqb_spec (nth i A 1) 1); simpl in H; try discriminate.
    rewrite andb_true_r in H. apply Nat.eqb_neq in H. repeat split; auto.
  - intros (i & Na & Nb & D).
    destruct (forallb _ _) eqn:H; auto. exfalso. rewrite forallb_forall in H.
    assert (Hi : i < maxlen [B; A]).
    { simpl. destruct (Nat.lt_ge_cases i (length A)); [lia|]. rewrite (nth_overflow A) in Na by lia. congruence. }
    assert (Hs : In i (seq 0 (maxlen [B; A]))) by (apply in_seq; lia).
    apply H in Hs. rewrite col_ok_spec in Hs. apply D.
    apply Hs; auto; unfold col, expand_shapes; simpl; rewrite !nth_pad_app; auto.
Qed.

(* ------------------------------------------------------------------ alignment of one product *)
Definition aligned (A B' : shape) (p : prodinfo) : Prop :=
  length (pi_shape p) = length B' /\ dom A (pi_shape p) /\ dom B' (pi_shape p) /\
  forall j, length j = length B' -> pi_op p j = aproj A j /\ pi_st p j = aproj B' j.


(* scalar_prod and the fall-back matmul, any ranks |A| <= |B'|: append-aligned *)
Lemma prod_fallback_aligned A B' ns p : length A <= length B' ->
  match prod_shape A B' ns with
  | Some r => Some (mkPI (removelast r) (fun bidx => prod_op A B' (bidx ++ [0]))
                         (fun bidx => removelast (prod_st B' ns (bidx ++ [0]))))
  | None => None end = Some p -> aligned A B' p.
Proof.
  intros L. rewrite prod_shape_le by auto.
  destruct (ashape A B') as [R|] eqn:E; [|discriminate]. intros H. inversion H; subst. clear H.
  destruct (ashape_dom _ _ _ L E) as (D1 & D2 & D3). unfold aligned. simpl.
  rewrite removelast_snoc. repeat split; auto.
  - now apply prod_op_aligned.
  - rewrite prod_st_aligned by auto. now rewrite removelast_snoc.
Qed.

Lemma inplace_aligned A B' : length A <= length B' -> mp_inplace_ok A B' = true ->
  aligned A B' (mkPI B' (mp_inplace_op A B') (np_proj B')).
Proof.
  intros L OK. apply mp_inplace_fixed_spec in OK; auto. unfold aligned. simpl.
  repeat split; auto using dom_refl.
  - now apply mp_inplace_fixed_reads.
  - rewrite np_proj_full by auto. now rewrite aproj_long by lia.
Qed.

(* both branches of matrix_prod (and scalar_prod): append-aligned *)
Lemma vprod_aligned m A B' ns p : length A <= length B' ->
  vprod m A B' ns = Some p -> aligned A B' p.
Proof.
  intros L. unfold vprod. destruct (m && mp_inplace_ok A B') eqn:E.
  - apply andb_true_iff in E as [_ E3]. intros H. inversion H; subst p. now apply inplace_aligned.
  - apply prod_fallback_aligned; auto.
Qed.

(* ------------------------------------------------------------------ the vectorised run *)
Section Stack.
Variable S : ScalOps.

Lemma vapply_spec ns (o : vop S) (s s1 : vsm S) : vapply ns o s = Some s1 ->
  length (bshape s) <= length (bshape s1) /\ dom (vshape o) (bshape s1) /\ dom (bshape s) (bshape s1) /\
  forall idx, length (bshape s1) <= length idx ->
    sget s1 (aproj (bshape s1) idx) =
    apply (vget o (aproj (vshape o) idx)) (sget s (aproj (bshape s) idx)).
Proof.
  unfold vapply. destruct (prepare (vshape o) (bshape s)) as [B'|] eqn:P; [|discriminate].
  destruct (prepare_some _ _ _ P) as (L & X & EX).
  destruct (vprod (vmat o) (vshape o) B' ns) as [p|] eqn:V; [|discriminate].
  intros H. inversion H; subst s1. clear H. simpl.
  destruct (vprod_aligned _ _ _ _ _ L V) as (A1 & A2 & A3 & A4).
  assert (LB : length (bshape s) <= length B') by (rewrite EX, app_length; lia).
  split; [lia|]. split; auto. split; [rewrite EX in A3; now apply dom_app_l in A3|].
  intros idx Li. set (j := aproj (pi_shape p) idx).
  assert (Lj : length j = length B') by (unfold j; rewrite aproj_length; lia).
  destruct (A4 j Lj) as [-> ->]. unfold j.
  rewrite aproj_dom by (auto; lia). f_equal.
  rewrite aproj_dom by (auto; lia). rewrite EX. f_equal. apply firstn_aproj_app. rewrite <- EX. lia.
Qed.

(* C07, states: every entry of the vectorised run is the scalar run (Model/Ops.run) with that
   grid index's coefficients, started from that index's initial state; every program, all ranks,
   ScalarOp and MatrixOp (in-place and fall-back branch) *)
Theorem vectorised_is_stack ns (ops : list (vop S)) (s r : vsm S) :
  vrun ns ops s = Some r ->
  length (bshape s) <= length (bshape r) /\
  forall idx, valid (bshape r) idx ->
    sget r idx = run (scalar_ops ops idx) (sget s (aproj (bshape s) idx)).
Proof.
  revert s. induction ops as [|o ops IH]; intros s H; simpl in *.
  - inversion H; subst. split; auto. intros idx V. now rewrite aproj_valid.
  - destruct (vapply ns o s) as [s1|] eqn:E; [|discriminate].
    destruct (IH s1 H) as [L1 IH']. destruct (vapply_spec _ _ _ _ E) as (L0 & _ & _ & Hs).
    split; [lia|]. intros idx V. rewrite (IH' idx V).
    rewrite Hs by (apply valid_length in V; lia). reflexivity.
Qed.

(* shape of the result when every operator shape is dominated by the initial shape
   (simulate: initial shape = getshape(seq) (++ extra axes of a given initial state)) *)
Lemma ashape_dom_id A B : dom A B -> ashape A B = Some B.
Proof.
  intros D. unfold ashape. apply seq_map2_to; [apply pad_app_length; now apply dom_length|].
  apply dom_pad_app; auto. now apply dom_length.
Qed.

Lemma dom_broadcastable A B : dom A B -> broadcastable true [B; A] = true.
Proof.
  intros D. destruct (broadcastable true [B; A]) eqn:E; auto. apply incompatible_iff in E as (i & Na & Nb & N).
  exfalso. revert B i D Na Nb N. induction A as [|a A IH]; intros [|b B] i D Na Nb N; simpl in *; try tauto.
  - destruct i; congruence.
  - destruct i; [destruct D as [[|] _]; congruence|]. destruct D. eapply IH; eauto.
Qed.

Lemma vapply_dom ns (o : vop S) (s : vsm S) : dom (vshape o) (bshape s) ->
  exists s1, vapply ns o s = Some s1 /\ bshape s1 = bshape s.
Proof.
  intros D. pose proof (dom_length _ _ D) as L. unfold vapply, prepare.
  rewrite (dom_broadcastable _ _ D). destruct (Nat.ltb_spec (length (bshape s)) (length (vshape o))); [lia|].
  unfold vprod. destruct (vmat o && mp_inplace_ok (vshape o) (bshape s)).
  - eexists. split; reflexivity.
  - rewrite prod_shape_le by auto. rewrite ashape_dom_id by auto. eexists. split; [reflexivity|].
    simpl. apply removelast_snoc.
Qed.

Theorem output_shape ns (ops : list (vop S)) (s : vsm S) nacq :
  List.Forall (fun o => dom (vshape o) (bshape s)) ops ->
  exists r, vrun ns ops s = Some r /\ bshape r = bshape s /\
            simulate_shape nacq (bshape r) = nacq :: bshape s.
Proof.
  revert s. induction ops as [|o ops IH]; intros s F; simpl.
  - eexists; repeat split; reflexivity.
  - inversion F; subst. destruct (vapply_dom ns o s H1) as (s1 & E & Es). rewrite E.
    rewrite <- Es in H2. destruct (IH s1 H2) as (r & R1 & R2 & R3). exists r. rewrite R1. unfold simulate_shape in *.
    repeat split; congruence.
Qed.
End Stack.

(* getshape(seq) dominates every operator shape (no 0-sized axes), so the theorem above applies
   to the initial state StateMatrix(shape=getshape(seq)) of simulate, also with extra axes *)
Lemma getshape_dom shapes G extra : allpos shapes -> getshape shapes = Some G ->
  List.Forall (fun A => dom A (G ++ extra)) shapes.
Proof.
  intros P H. apply List.Forall_forall. intros A HA. apply dom_app_r.
  destruct (broadcast_shapes_spec true shapes) as [Sp _]. destruct (Sp G H) as [LG Hn]. clear Sp.
  assert (LA : length A <= length G) by (rewrite LG; now apply length_le_maxlen).
  assert (PA : pos A) by (unfold allpos in P; rewrite List.Forall_forall in P; auto).
  assert (Hi : forall i, i < length A -> nth i A 1 = 1 \/ nth i A 1 = nth i G 1).
  { intros i Hi. destruct (Hn i ltac:(lia)) as [Q _].
    specialize (Q (pad_app (maxlen shapes) A)). rewrite nth_pad_app in Q.
    pose proof (pos_nth A i PA). destruct Q as [Q|Q]; [|lia|auto].
    unfold expand_shapes. apply in_map_iff. eauto. }
  clear -LA Hi. revert G LA Hi. induction A as [|a A IH]; intros [|g G] LA Hi; simpl in *; auto; try lia.
  split; [apply (Hi 0); lia|]. apply IH; [lia|]. intros i Li. apply (Hi (S i)). lia.
Qed.

(* scalar_prod and the fall-back matmul pick the append-aligned elements, every rank combination
   that prepare lets through; the product's batch shape is epgpy's broadcast of the two shapes *)
Theorem prod_pointwise A B ns R : length A <= length B -> prod_shape A B ns = Some R ->
  exists R', R = R' ++ [ns] /\ length R' = length B /\ dom A R' /\ dom B R' /\
  forall bidx k, length bidx = length B ->
    prod_op A B (bidx ++ [k]) = aproj A bidx /\
    prod_st B ns (bidx ++ [k]) = aproj B bidx ++ [sel ns k].
Proof.
  intros L H. rewrite prod_shape_le in H by auto. destruct (ashape A B) as [R'|] eqn:E; [|discriminate].
  inversion H; subst. destruct (ashape_dom _ _ _ L E) as (D1 & D2 & D3).
  exists R'. repeat split; auto. - now apply prod_op_aligned. - now apply prod_st_aligned.
Qed.

(* regression: the two former counterexamples now agree with the scalar run in the model
   ((1,2) MatrixOp on a (2,2) state; (1,1,2) MatrixOp on a (2,1,2,1) state) *)
Definition wit_c (ax : nat) (idx : list nat) : QI := if nth ax idx 0 =? 0 then qr 1 1 else qr 2 1.
Definition wit_op (A : shape) (ax : nat) : vop QIops :=
  @mkVop QIops A (fun idx => @OMatrix QIops (@mdiag QIops (@mk3 QIops (wit_c ax idx) (wit_c ax idx) (wit_c ax idx))) None) true.
Definition wit_s (B : shape) : vsm QIops := @mkVsm QIops B (fun _ => @init QIops (qr 1 1)).
Definition wit_ok (A : shape) (ax : nat) (B : shape) : bool :=
  match vrun 1 [wit_op A ax] (wit_s B) with
  | Some r => shape_eqb (bshape r) B &&
              forallb (fun idx => sm_eqb (sget r idx) (run (scalar_ops [wit_op A ax] idx) (sget (wit_s B) idx))) (indices B)
  | None => false
  end.
Lemma vectorised_witnesses : wit_ok [1; 2] 1 [2; 2] = true /\ wit_ok [1; 1; 2] 2 [2; 1; 2; 1] = true.
Proof. vm_compute. auto. Qed.
