(* "Function view" of a state matrix: [get s k] is the triple of phase state k
   (zero outside the stored window).  One characterisation lemma per operator;
   the theorems of C01 / C08 / C13 / C14 are proved on this view. *)
From Coq Require Import List ZArith Lia Bool Arith Ring.
From EPG Require Import Scalar State Ops ListLemmas.
Import ListNotations.

Section Views.
Variable S : ScalOps.
Hypothesis L : ScalLaws S.
Add Ring Kr : (k_ring S L).
Notation triple := (triple S).
Notation sm := (sm S).

Definition get (s : sm) (k : Z) : triple := getZ t0 (st s) k.
Definition gete (s : sm) (k : Z) : triple := getZ t0 (equ s) k.

(* shape invariant: both arrays have the same odd length 2n+1 *)
Definition shaped (s : sm) (n : nat) : Prop :=
  length (st s) = (2 * n + 1)%nat /\ length (equ s) = (2 * n + 1)%nat.

Lemma shaped_nstate s n : shaped s n -> nstate s = n.
Proof. intros [H _]. unfold nstate. rewrite H. apply half_odd. Qed.

Definition inwin (n : nat) (k : Z) : bool := ((- Z.of_nat n <=? k) && (k <=? Z.of_nat n))%Z.

Lemma get_out s n k : shaped s n -> inwin n k = false -> get s k = t0.
Proof.
  intros [H _] Hk. unfold get. apply (getZ_out t0 _ n k H).
  unfold inwin in Hk. destruct (Z.leb_spec (- Z.of_nat n) k); destruct (Z.leb_spec k (Z.of_nat n)); simpl in Hk; try discriminate; lia.
Qed.
Lemma gete_out s n k : shaped s n -> inwin n k = false -> gete s k = t0.
Proof.
  intros [_ H] Hk. unfold gete. apply (getZ_out t0 _ n k H).
  unfold inwin in Hk. destruct (Z.leb_spec (- Z.of_nat n) k); destruct (Z.leb_spec k (Z.of_nat n)); simpl in Hk; try discriminate; lia.
Qed.

Lemma triple_ext (x y : triple) : fp x = fp y -> fm x = fm y -> fz x = fz y -> x = y.
Proof. destruct x, y; simpl; intros; subst; reflexivity. Qed.

Lemma sv_t0 a : sv a (@t0 S) = t0.
Proof. apply triple_ext; simpl; ring. Qed.
Lemma mv_t0 m : mv m (@t0 S) = t0.
Proof. apply triple_ext; simpl; unfold dot; simpl; ring. Qed.
Lemma tadd_t0 : tadd (@t0 S) t0 = t0.
Proof. apply triple_ext; simpl; ring. Qed.

(* ---- resize ---- *)
Lemma resize_shaped s n n' : shaped s n -> shaped (resize s n') n'.
Proof.
  intros Hs. unfold resize. rewrite (shaped_nstate s n Hs).
  destruct (Nat.eqb_spec n' n) as [->|Hn]; auto.
  split; simpl; apply length_resize_list.
Qed.

Lemma get_resize s n n' k : shaped s n ->
  get (resize s n') k = if inwin n' k then get s k else t0.
Proof.
  intros Hs. unfold resize. rewrite (shaped_nstate s n Hs).
  destruct (Nat.eqb_spec n' n) as [->|Hn].
  - destruct (inwin n k) eqn:E; auto. now apply (get_out s n).
  - unfold get; simpl. apply getZ_resize_list with (n := n). apply Hs.
Qed.
Lemma gete_resize s n n' k : shaped s n ->
  gete (resize s n') k = if inwin n' k then gete s k else t0.
Proof.
  intros Hs. unfold resize. rewrite (shaped_nstate s n Hs).
  destruct (Nat.eqb_spec n' n) as [->|Hn].
  - destruct (inwin n k) eqn:E; auto. now apply (gete_out s n).
  - unfold gete; simpl. apply getZ_resize_list with (n := n). apply Hs.
Qed.

(* ---- generic: arrays defined index-wise from st and equ ---- *)
Lemma getZ_tab_pointwise (s : sm) n (F : triple -> triple -> triple) k :
  shaped s n -> F t0 t0 = t0 ->
  getZ t0 (tab (length (st s)) (fun i => F (nth i (st s) t0) (nth i (equ s) t0))) k
  = F (get s k) (gete s k).
Proof.
  intros [H1 H2] HF.
  rewrite (getZ_odd t0 _ n) by now rewrite length_tab.
  unfold get, gete. rewrite (getZ_odd t0 _ n k H1), (getZ_odd t0 _ n k H2).
  rewrite nthZ_tab, H1.
  destruct ((0 <=? k + Z.of_nat n)%Z && (k + Z.of_nat n <? Z.of_nat (2 * n + 1))%Z) eqn:E.
  - assert (0 <= k + Z.of_nat n < Z.of_nat (2 * n + 1))%Z as Hr.
    { destruct (Z.leb_spec 0 (k + Z.of_nat n)); destruct (Z.ltb_spec (k + Z.of_nat n) (Z.of_nat (2 * n + 1))); simpl in E; try discriminate; lia. }
    rewrite !nthZ_in by (rewrite ?H1, ?H2; exact Hr). reflexivity.
  - assert (k + Z.of_nat n < 0 \/ Z.of_nat (2 * n + 1) <= k + Z.of_nat n)%Z as Hr.
    { destruct (Z.leb_spec 0 (k + Z.of_nat n)); destruct (Z.ltb_spec (k + Z.of_nat n) (Z.of_nat (2 * n + 1))); simpl in E; try discriminate; lia. }
    rewrite !nthZ_out by (rewrite ?H1, ?H2; exact Hr). now rewrite HF.
Qed.

Lemma getZ_map_st (s : sm) (f : triple -> triple) k :
  f t0 = t0 -> getZ t0 (map f (st s)) k = f (get s k).
Proof.
  intros Hf. unfold get, getZ. rewrite map_length. now apply nthZ_map.
Qed.

(* ---- scalar / matrix ---- *)
Definition opt_sv (a0 : option triple) (e : triple) : triple :=
  match a0 with None => t0 | Some b => sv b e end.
Definition opt_mv (m0 : option (mat3 S)) (e : triple) : triple :=
  match m0 with None => t0 | Some b => mv b e end.

Lemma tadd_t0_r x : tadd x (@t0 S) = x.
Proof. apply triple_ext; simpl; ring. Qed.

Lemma scalar_shaped a a0 s n : shaped s n -> shaped (apply_scalar a a0 s) n.
Proof.
  intros [H1 H2]. destruct a0; split; simpl; auto.
  - now rewrite length_tab.
  - now rewrite map_length.
Qed.
Lemma get_scalar a a0 s n k : shaped s n ->
  get (apply_scalar a a0 s) k = tadd (sv a (get s k)) (opt_sv a0 (gete s k)).
Proof.
  intros Hs. destruct a0 as [b|]; unfold get at 1; simpl.
  - apply (getZ_tab_pointwise s n (fun x e => tadd (sv a x) (sv b e)) k Hs).
    now rewrite !sv_t0, tadd_t0.
  - rewrite tadd_t0_r. apply getZ_map_st, sv_t0.
Qed.
Lemma gete_scalar a a0 s k : gete (apply_scalar a a0 s) k = gete s k.
Proof. destruct a0; reflexivity. Qed.

Lemma matrix_shaped m m0 s n : shaped s n -> shaped (apply_matrix m m0 s) n.
Proof.
  intros [H1 H2]. destruct m0; split; simpl; auto.
  - now rewrite length_tab.
  - now rewrite map_length.
Qed.
Lemma get_matrix m m0 s n k : shaped s n ->
  get (apply_matrix m m0 s) k = tadd (mv m (get s k)) (opt_mv m0 (gete s k)).
Proof.
  intros Hs. destruct m0 as [b|]; unfold get at 1; simpl.
  - apply (getZ_tab_pointwise s n (fun x e => tadd (mv m x) (mv b e)) k Hs).
    now rewrite !mv_t0, tadd_t0.
  - rewrite tadd_t0_r. apply getZ_map_st, mv_t0.
Qed.
Lemma gete_matrix m m0 s k : gete (apply_matrix m m0 s) k = gete s k.
Proof. destruct m0; reflexivity. Qed.

(* ---- spoiler ---- *)
Lemma spoil_shaped s n : shaped s n -> shaped (apply_spoil s) n.
Proof. intros [H1 H2]; split; simpl; auto. now rewrite map_length. Qed.
Lemma get_spoil s k : get (apply_spoil s) k = mk3 k0 k0 (fz (get s k)).
Proof. unfold get at 1; simpl. now apply (getZ_map_st s (fun x => mk3 k0 k0 (fz x))). Qed.

(* ---- shift ---- *)
Lemma length_shift1d (l : list triple) d : length (shift1d l d) = length l.
Proof. apply length_tab. Qed.

Lemma getZ_shift1d (l : list triple) n d k : length l = (2 * n + 1)%nat ->
  getZ t0 (shift1d l d) k =
  if inwin n k then mk3 (fp (getZ t0 l (k - d))) (fm (getZ t0 l (k + d))) (fz (getZ t0 l k))
  else @t0 S.
Proof.
  intros Hl.
  rewrite (getZ_odd t0 _ n) by now rewrite length_shift1d.
  unfold shift1d. rewrite nthZ_tab, Hl. unfold inwin.
  destruct (Z.leb_spec (- Z.of_nat n) k); destruct (Z.leb_spec k (Z.of_nat n));
  destruct (Z.leb_spec 0 (k + Z.of_nat n)); destruct (Z.ltb_spec (k + Z.of_nat n) (Z.of_nat (2 * n + 1)));
  simpl; try lia; auto.
  rewrite !(getZ_odd t0 l n _ Hl). rewrite Z2Nat.id by lia.
  rewrite <- (nthZ_nat t0 l), Z2Nat.id by lia.
  f_equal; f_equal; f_equal; lia.
Qed.

Definition shift_n (d : Z) (nmax : option nat) (n : nat) : nat :=
  match nmax with None => (n + Z.abs_nat d)%nat | Some m => Nat.min (n + Z.abs_nat d) m end.

Lemma shift_shaped d nmax s n : shaped s n -> shaped (apply_shift d nmax s) (shift_n d nmax n).
Proof.
  intros Hs. unfold apply_shift. rewrite (shaped_nstate s n Hs).
  fold (shift_n d nmax n).
  destruct (resize_shaped s n (shift_n d nmax n) Hs) as [H1 H2].
  split; simpl; auto. now rewrite length_shift1d.
Qed.

Lemma get_shift d nmax s n k : shaped s n ->
  let n' := shift_n d nmax n in
  let r := resize s n' in
  get (apply_shift d nmax s) k =
  if inwin n' k then mk3 (fp (get r (k - d))) (fm (get r (k + d))) (fz (get r k)) else t0.
Proof.
  intros Hs n' r. unfold apply_shift. rewrite (shaped_nstate s n Hs).
  fold (shift_n d nmax n). fold n'. fold r.
  unfold get at 1; simpl.
  apply getZ_shift1d. apply (resize_shaped s n n' Hs).
Qed.
Lemma gete_shift d nmax s n k : shaped s n ->
  gete (apply_shift d nmax s) k = gete (resize s (shift_n d nmax n)) k.
Proof.
  intros Hs. unfold apply_shift. rewrite (shaped_nstate s n Hs). reflexivity.
Qed.

(* ---- reset ---- *)
Lemma reset_shaped s n : shaped s n -> shaped (apply_reset s) 0.
Proof.
  intros [H1 H2]. unfold apply_reset.
  apply (resize_shaped (mkSM (equ s) (equ s)) n 0). split; auto.
Qed.
Lemma get_reset s n k : shaped s n ->
  get (apply_reset s) k = if (k =? 0)%Z then gete s 0 else t0.
Proof.
  intros [H1 H2]. unfold apply_reset.
  rewrite (get_resize _ n 0 k) by (split; auto).
  unfold inwin. simpl.
  destruct (Z.eqb_spec k 0) as [->|Hk]; simpl; auto.
  destruct (Z.leb_spec 0 k); destruct (Z.leb_spec k 0); simpl; auto; lia.
Qed.
Lemma gete_reset s n k : shaped s n ->
  gete (apply_reset s) k = if (k =? 0)%Z then gete s 0 else t0.
Proof.
  intros [H1 H2]. unfold apply_reset.
  rewrite (gete_resize _ n 0 k) by (split; auto).
  unfold inwin. simpl.
  destruct (Z.eqb_spec k 0) as [->|Hk]; simpl; auto.
  destruct (Z.leb_spec 0 k); destruct (Z.leb_spec k 0); simpl; auto; lia.
Qed.

(* ---- PD ---- *)
Lemma getZ_pd_equ p n k :
  getZ t0 (pd_equ S p (2 * n + 1)) k = if (k =? 0)%Z then mk3 k0 k0 p else t0.
Proof.
  unfold pd_equ.
  rewrite (getZ_resize_list t0 [mk3 k0 k0 p] 0 n k) by reflexivity.
  rewrite getZ_single.
  destruct (Z.eqb_spec k 0) as [->|Hk].
  - destruct (Z.leb_spec (- Z.of_nat n) 0); destruct (Z.leb_spec 0 (Z.of_nat n)); simpl; auto; lia.
  - now destruct ((- Z.of_nat n <=? k)%Z && (k <=? Z.of_nat n)%Z).
Qed.

Lemma pd_shaped p r s n : shaped s n -> shaped (apply_pd p r s) n.
Proof.
  intros [H1 H2]. unfold apply_pd, pd_equ. rewrite H2.
  destruct r; split; simpl; auto; apply length_resize_list.
Qed.
Lemma gete_pd p r s n k : shaped s n ->
  gete (apply_pd p r s) k = if (k =? 0)%Z then mk3 k0 k0 p else t0.
Proof. intros [H1 H2]. unfold gete, apply_pd; simpl. rewrite H2. apply getZ_pd_equ. Qed.
Lemma get_pd p r s n k : shaped s n ->
  get (apply_pd p r s) k =
  if r then (if (k =? 0)%Z then mk3 k0 k0 p else t0) else get s k.
Proof.
  intros [H1 H2]. unfold get, apply_pd; simpl. rewrite H2.
  destruct r; auto. apply getZ_pd_equ.
Qed.

(* every operator keeps the shape invariant *)
Definition op_n (o : op S) (n : nat) : nat :=
  match o with
  | OShift d nmax => shift_n d nmax n
  | OReset => 0%nat
  | _ => n
  end.

Lemma apply_shaped o s n : shaped s n -> shaped (apply o s) (op_n o n).
Proof.
  intros Hs. destruct o; simpl.
  - now apply scalar_shaped.
  - now apply matrix_shaped.
  - now apply shift_shaped.
  - now apply spoil_shaped.
  - now apply (reset_shaped s n).
  - now apply pd_shaped.
  - exact Hs.
Qed.

End Views.
