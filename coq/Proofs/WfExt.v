(* C08, extension beyond the seven 1-D operators of Model/Ops.v:
   (1) programs that interleave the 1-D operators with the diffusion operator D (Model/Diffusion.v, d_apply);
   (2) the exchange operator X on one fibre (Model/Exchange.v, x_apply_fibre): conjugate symmetry of every
       compartment is preserved when the F- matrix is the conjugate of the F+ matrix (what exchange_operator
       stacks: [xT, conj xT, xL]) and the longitudinal matrix is real; X never touches the equilibrium. *)
From Coq Require Import List ZArith Lia Bool Arith Ring.
From EPG Require Import Scalar State Ops ListLemmas Views WfProof Exchange.
From EPG.Model Require Import Diffusion.
From EPG Require DiffusionProofs ExchangeProofs.
Import ListNotations.

Section WfExt.
Variable S : ScalOps.
Hypothesis L : ScalLaws S.
Add Ring Kr : (k_ring S L).
Notation sm := (sm S).

(* ---------------------------------------------------------------- (1) programs with D *)
Inductive eop : Type :=
| EOp (o : op S)
| ED (aT aL : Z -> S).          (* D with transverse / longitudinal factor per phase-state number *)

Definition eapply (e : eop) (s : sm) : sm :=
  match e with EOp o => apply o s | ED aT aL => d_apply aT aL s end.
Definition erun (es : list eop) (s : sm) : sm := fold_left (fun s e => eapply e s) es s.

Definition wf_eop (e : eop) : Prop :=
  match e with
  | EOp o => wf_op S o
  | ED _ aL => forall k : Z, aL (- k)%Z = kconj (aL k)
  end.

Lemma wf_estep e s : wf_eop e -> wf S s -> wf S (eapply e s).
Proof.
  destruct e as [o|aT aL]; simpl; intros He W.
  - now apply (wf_step S L).
  - now apply (DiffusionProofs.wf_d_apply S L).
Qed.

Theorem wf_erun es s : Forall wf_eop es -> wf S s -> wf S (erun es s).
Proof.
  revert s. induction es as [|e es IH]; intros s H W; [exact W|].
  inversion H as [|? ? He Hes]; subst. unfold erun. cbn [fold_left]. apply IH; [exact Hes|].
  now apply wf_estep.
Qed.

(* D leaves the equilibrium alone, like every operator but PD *)
Theorem only_pd_changes_equilibrium_ext e s :
  wf S s -> (forall p r, e <> EOp (OPD p r)) -> forall k, gete S (eapply e s) k = gete S s k.
Proof.
  intros W Hne k. destruct e as [o|aT aL]; simpl.
  - apply (only_pd_changes_equilibrium S o s W). intros p r Heq. apply (Hne p r). now rewrite Heq.
  - reflexivity.
Qed.

(* a real, even longitudinal factor (exp(-bL:D) with bL even in k) meets the side condition *)
Lemma real_even_ok (aL : Z -> S) :
  (forall k, kreal S (aL k)) -> (forall k, aL (- k)%Z = aL k) -> forall k, aL (- k)%Z = kconj (aL k).
Proof. intros Hr He k. rewrite He. symmetry. apply Hr. Qed.

(* ---------------------------------------------------------------- (2) exchange, one fibre of N = 2 ns + 1 states *)
Definition fib_sym (N : nat) (f : fibre S) : Prop :=
  forall j k, (k < N)%nat ->
    fm (f j k) = kconj (fp (f j (N - 1 - k)%nat)) /\ fz (f j (N - 1 - k)%nat) = kconj (fz (f j k)).

Lemma aff_conj n (A : matN S) (x e : nat -> S) i :
  kconj (ExchangeProofs.aff S n A x e i) =
  ExchangeProofs.aff S n (conjN A) (fun j => kconj (x j)) (fun j => kconj (e j)) i.
Proof.
  unfold ExchangeProofs.aff. rewrite (conj_add S L), (ExchangeProofs.ksum_conj S L). f_equal.
  apply (ExchangeProofs.ksum_ext S). intros j _. unfold conjN.
  now rewrite (conj_mul S L), (conj_sub S L).
Qed.

Theorem x_fibre_symmetric n N (MT ML : matN S) (st eq : fibre S) :
  (forall i j, kreal S (ML i j)) -> fib_sym N st -> fib_sym N eq ->
  fib_sym N (x_apply_fibre n MT (conjN MT) ML st eq).
Proof.
  intros HML Hst Heq i k Hk. split.
  - rewrite ExchangeProofs.x_apply_fibre_fm, ExchangeProofs.x_apply_fibre_fp, aff_conj.
    unfold ExchangeProofs.aff. f_equal.
    + apply (ExchangeProofs.ksum_ext S). intros j _.
      now rewrite (proj1 (Hst j k Hk)), (proj1 (Heq j k Hk)).
    + apply (proj1 (Heq i k Hk)).
  - rewrite !ExchangeProofs.x_apply_fibre_fz, aff_conj.
    unfold ExchangeProofs.aff. f_equal.
    + apply (ExchangeProofs.ksum_ext S). intros j _. unfold conjN.
      now rewrite (HML i j), (proj2 (Hst j k Hk)), (proj2 (Heq j k Hk)).
    + apply (proj2 (Heq i k Hk)).
Qed.

(* a fibre that sits at its equilibrium stays there (so a well-formed equilibrium, zero outside the Z component of
   the centre state, produces no magnetisation anywhere else) *)
Theorem x_fibre_equilibrium n (MT MC ML : matN S) (eq : fibre S) i k :
  x_apply_fibre n MT MC ML eq eq i k = eq i k.
Proof. apply (ExchangeProofs.x_fixed_point S L). Qed.

(* X on arrays: the result has exactly the entries of the broadcast batch shape times the UNCHANGED state count
   (2 ns + 1 states x 3 components); the equilibrium is not part of the result at all *)
Theorem x_apply_state_count (o : xop S) (s : smN S) sh d :
  x_apply S o s = XOk S sh d -> length d = prodl (sh ++ [s_ns S s; 3%nat]).
Proof.
  unfold x_apply.
  destruct (negb (forallb _ _)); [discriminate|].
  destruct (negb (_ || _)); [discriminate|].
  destruct (bshape _ _) as [osh|]; [|discriminate].
  intros H. inversion H; subst. now rewrite map_length, seq_length.
Qed.

End WfExt.

Arguments EOp {S}. Arguments ED {S}. Arguments eapply {S}. Arguments erun {S}.
