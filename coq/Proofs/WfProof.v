(* C08: well-formedness is preserved by every operator of the 1-D model. *)
From Coq Require Import List ZArith Lia Bool Arith Ring.
From EPG Require Import Scalar State Ops ListLemmas Views.
Import ListNotations.

Section WfProof.
Variable S : ScalOps.
Hypothesis L : ScalLaws S.
Add Ring Kr : (k_ring S L).
Notation triple := (triple S).
Notation sm := (sm S).
Notation get := (get S).
Notation gete := (gete S).
Local Open Scope Z_scope.

(* the property's definition of a well-formed state matrix *)
Record wf (s : sm) : Prop := mkWf {
  wf_shape : exists n, shaped S s n;                       (* odd count 2n+1, shared by all arrays *)
  wf_fm : forall k, fm (get s k) = kconj (fp (get s (- k)));   (* F-(k) = conj F+(-k) *)
  wf_fz : forall k, fz (get s (- k)) = kconj (fz (get s k));   (* Z(-k) = conj Z(k) *)
  wf_eq_off : forall k, k <> 0%Z -> gete s k = t0;         (* equilibrium only in the zero state *)
  wf_eq_c : fp (gete s 0) = k0 /\ fm (gete s 0) = k0;      (* ... and only in its Z component *)
  wf_eq_r : kreal S (fz (gete s 0))                        (* real proton density *)
}.

(* valid operator coefficients (what scalar_format / matrix_format check) *)
Definition wf_coef (a : triple) : Prop := fp a = kconj (fm a) /\ kreal S (fz a).
Definition wf_mat (m : mat3 S) : Prop :=
  fp (row1 m) = kconj (fm (row0 m)) /\ fm (row1 m) = kconj (fp (row0 m)) /\
  fz (row1 m) = kconj (fz (row0 m)) /\ fm (row2 m) = kconj (fp (row2 m)) /\
  kreal S (fz (row2 m)).
Definition wf_opt {A} (P : A -> Prop) (o : option A) : Prop :=
  match o with None => True | Some x => P x end.

Definition wf_op (o : op S) : Prop :=
  match o with
  | OScalar a a0 => wf_coef a /\ wf_opt wf_coef a0
  | OMatrix m m0 => wf_mat m /\ wf_opt wf_mat m0
  | OPD p r => kreal S p
  | _ => True
  end.

Lemma conj_k0 : kconj (@k0 S) = k0. Proof. apply (conj_0 S L). Qed.

Lemma get_init pd k : get (init pd) k = if (k =? 0)%Z then mk3 k0 k0 pd else t0.
Proof. unfold Views.get, init. cbn [st]. apply getZ_single. Qed.
Lemma gete_init pd k : gete (init pd) k = if (k =? 0)%Z then mk3 k0 k0 pd else t0.
Proof. unfold Views.gete, init. cbn [equ]. apply getZ_single. Qed.

Lemma Zopp_eqb k : ((- k =? 0) = (k =? 0))%Z.
Proof. destruct (Z.eqb_spec (- k) 0); destruct (Z.eqb_spec k 0); auto; lia. Qed.

Lemma wf_init (pd : S) : kreal S pd -> wf (init pd).
Proof.
  intros Hpd. constructor.
  - exists 0%nat. split; reflexivity.
  - intros k. rewrite !get_init, Zopp_eqb. destruct (k =? 0)%Z; simpl; now rewrite conj_k0.
  - intros k. rewrite !get_init, Zopp_eqb. destruct (k =? 0)%Z; simpl; [now rewrite Hpd|now rewrite conj_k0].
  - intros k Hk. rewrite gete_init. destruct (Z.eqb_spec k 0); [lia|reflexivity].
  - rewrite gete_init. simpl. auto.
  - rewrite gete_init. simpl. exact Hpd.
Qed.

(* equilibrium values as seen by the operators *)
Lemma gete_cases s k : wf s -> gete s k = if (k =? 0)%Z then mk3 k0 k0 (fz (gete s 0)) else t0.
Proof.
  intros W. destruct (Z.eqb_spec k 0) as [->|Hk].
  - destruct (wf_eq_c s W) as [H1 H2]. apply (triple_ext S); simpl; auto.
  - now apply (wf_eq_off s W).
Qed.

Lemma inwin_neg n k : inwin n (- k) = inwin n k.
Proof.
  unfold inwin.
  destruct (Z.leb_spec (- Z.of_nat n) (- k)); destruct (Z.leb_spec (- k) (Z.of_nat n));
  destruct (Z.leb_spec (- Z.of_nat n) k); destruct (Z.leb_spec k (Z.of_nat n)); simpl; auto; lia.
Qed.

Lemma wf_resize s n' : wf s -> wf (resize s n').
Proof.
  intros W. destruct (wf_shape s W) as [n Hs].
  constructor.
  - exists n'. now apply (resize_shaped S s n).
  - intros k. rewrite !(get_resize S s n n') by auto. rewrite inwin_neg.
    destruct (inwin n' k); [apply (wf_fm s W)|simpl; now rewrite conj_k0].
  - intros k. rewrite !(get_resize S s n n') by auto. rewrite inwin_neg.
    destruct (inwin n' k); [apply (wf_fz s W)|simpl; now rewrite conj_k0].
  - intros k Hk. rewrite (gete_resize S s n n') by auto.
    destruct (inwin n' k); auto. now apply (wf_eq_off s W).
  - rewrite (gete_resize S s n n') by auto.
    destruct (inwin n' 0); [apply (wf_eq_c s W)|simpl; auto].
  - rewrite (gete_resize S s n n') by auto.
    destruct (inwin n' 0); [apply (wf_eq_r s W)|apply (kreal_0 S L)].
Qed.

(* the recovery term arr0 * equilibrium is itself a well-formed family *)
Definition symfam (E : Z -> triple) : Prop :=
  forall k, fm (E k) = kconj (fp (E (- k))) /\ fz (E (- k)) = kconj (fz (E k)).

Lemma symfam_delta (p : S) : kreal S p ->
  symfam (fun k => if (k =? 0)%Z then mk3 k0 k0 p else t0).
Proof.
  intros Hp k. rewrite Zopp_eqb. destruct (k =? 0)%Z; simpl; rewrite ?conj_k0; auto.
Qed.

Lemma symfam_ext (E E' : Z -> triple) : (forall k, E k = E' k) -> symfam E' -> symfam E.
Proof. intros H HE k. rewrite !H. apply HE. Qed.

Lemma sv_gete_sym s a0 : wf s -> wf_opt wf_coef a0 -> symfam (fun k => opt_sv S a0 (gete s k)).
Proof.
  intros W Ha0. destruct a0 as [b|]; simpl.
  - destruct Ha0 as [_ Hb].
    apply (symfam_ext _ (fun k => if (k =? 0)%Z then mk3 k0 k0 (fz b * fz (gete s 0))%K else t0)).
    + intros k. rewrite (gete_cases s k W). destruct (k =? 0)%Z.
      * apply (triple_ext S); simpl; ring.
      * apply sv_t0; auto.
    + apply symfam_delta. apply (kreal_mul S L); auto. apply (wf_eq_r s W).
  - intros k; simpl. now rewrite conj_k0.
Qed.

Lemma mv_gete_sym s m0 : wf s -> wf_opt wf_mat m0 -> symfam (fun k => opt_mv S m0 (gete s k)).
Proof.
  intros W Hm0. destruct m0 as [b|]; simpl.
  - destruct Hm0 as (B1 & B2 & B3 & B4 & B5).
    pose proof (wf_eq_r s W) as Hr. unfold kreal in Hr.
    intros k. rewrite (gete_cases s k W), (gete_cases s (- k) W), Zopp_eqb. destruct (k =? 0)%Z.
    + simpl; unfold dot; simpl. split.
      * rewrite !(conj_add S L), !(conj_mul S L), conj_k0, Hr, B3. ring.
      * rewrite !(conj_add S L), !(conj_mul S L), conj_k0, Hr, B5. ring.
    + rewrite (mv_t0 S L). simpl. now rewrite conj_k0.
  - intros k; simpl. now rewrite conj_k0.
Qed.

Lemma wf_scalar a a0 s : wf_coef a -> wf_opt wf_coef a0 -> wf s -> wf (apply_scalar a a0 s).
Proof.
  intros [Ha1 Ha2] Ha0 W. destruct (wf_shape s W) as [n Hs].
  pose proof (sv_gete_sym s a0 W Ha0) as HE. unfold kreal in Ha2.
  constructor.
  - exists n. now apply scalar_shaped.
  - intros k. rewrite !(get_scalar S L a a0 s n) by auto.
    destruct (HE k) as [E1 _]. simpl. rewrite E1, (wf_fm s W).
    rewrite (conj_add S L), (conj_mul S L), Ha1, (conj_invol S L). ring.
  - intros k. rewrite !(get_scalar S L a a0 s n) by auto.
    destruct (HE k) as [_ E2]. simpl. rewrite E2, (wf_fz s W).
    rewrite (conj_add S L), (conj_mul S L), Ha2. ring.
  - intros k Hk. rewrite gete_scalar. now apply (wf_eq_off s W).
  - rewrite gete_scalar. apply (wf_eq_c s W).
  - rewrite gete_scalar. apply (wf_eq_r s W).
Qed.

Lemma wf_matrix m m0 s : wf_mat m -> wf_opt wf_mat m0 -> wf s -> wf (apply_matrix m m0 s).
Proof.
  intros (M1 & M2 & M3 & M4 & M5) Hm0 W. destruct (wf_shape s W) as [n Hs].
  pose proof (mv_gete_sym s m0 W Hm0) as HE. unfold kreal in M5.
  constructor.
  - exists n. now apply matrix_shaped.
  - intros k. rewrite !(get_matrix S L m m0 s n) by auto.
    destruct (HE k) as [E1 _]. simpl. rewrite E1. unfold dot.
    rewrite !(conj_add S L), !(conj_mul S L).
    rewrite (wf_fm s W k), (wf_fz s W k).
    pose proof (wf_fm s W (- k)%Z) as Hk. rewrite Z.opp_involutive in Hk.
    rewrite Hk, (conj_invol S L), M1, M2, M3, !(conj_invol S L). ring.
  - intros k. rewrite !(get_matrix S L m m0 s n) by auto.
    destruct (HE k) as [_ E2]. simpl. rewrite E2. unfold dot.
    rewrite !(conj_add S L), !(conj_mul S L).
    rewrite (wf_fm s W k), (wf_fz s W k), (conj_invol S L).
    pose proof (wf_fm s W (- k)%Z) as Hk. rewrite Z.opp_involutive in Hk.
    rewrite Hk, M4, M5, !(conj_invol S L). ring.
  - intros k Hk. rewrite gete_matrix. now apply (wf_eq_off s W).
  - rewrite gete_matrix. apply (wf_eq_c s W).
  - rewrite gete_matrix. apply (wf_eq_r s W).
Qed.

Lemma wf_spoil s : wf s -> wf (apply_spoil s).
Proof.
  intros W. destruct (wf_shape s W) as [n Hs]. constructor.
  - exists n. now apply spoil_shaped.
  - intros k. rewrite !(get_spoil S). simpl. now rewrite conj_k0.
  - intros k. rewrite !(get_spoil S). simpl. apply (wf_fz s W).
  - intros k Hk. now apply (wf_eq_off s W).
  - apply (wf_eq_c s W).
  - apply (wf_eq_r s W).
Qed.

Lemma wf_shift d nmax s : wf s -> wf (apply_shift d nmax s).
Proof.
  intros W. destruct (wf_shape s W) as [n Hs].
  set (n' := shift_n d nmax n).
  pose proof (wf_resize s n' W) as Wr.
  constructor.
  - exists n'. now apply shift_shaped.
  - intros k. rewrite !(get_shift S d nmax s n) by auto. fold n'. rewrite inwin_neg.
    destruct (inwin n' k); simpl; [|now rewrite conj_k0].
    rewrite (wf_fm _ Wr). f_equal. f_equal. f_equal. lia.
  - intros k. rewrite !(get_shift S d nmax s n) by auto. fold n'. rewrite inwin_neg.
    destruct (inwin n' k); simpl; [|now rewrite conj_k0].
    apply (wf_fz _ Wr).
  - intros k Hk. rewrite (gete_shift S d nmax s n) by auto. now apply (wf_eq_off _ Wr).
  - rewrite (gete_shift S d nmax s n) by auto. apply (wf_eq_c _ Wr).
  - rewrite (gete_shift S d nmax s n) by auto. apply (wf_eq_r _ Wr).
Qed.

Lemma wf_reset s : wf s -> wf (apply_reset s).
Proof.
  intros W. destruct (wf_shape s W) as [n Hs].
  destruct (wf_eq_c s W) as [E1 E2]. pose proof (wf_eq_r s W) as Er. unfold kreal in Er.
  constructor.
  - exists 0%nat. now apply (reset_shaped S s n).
  - intros k. rewrite !(get_reset S s n) by auto. rewrite Zopp_eqb.
    destruct (k =? 0)%Z; simpl; [now rewrite E1, E2, conj_k0|now rewrite conj_k0].
  - intros k. rewrite !(get_reset S s n) by auto. rewrite Zopp_eqb.
    destruct (k =? 0)%Z; simpl; [now rewrite Er|now rewrite conj_k0].
  - intros k Hk. rewrite (gete_reset S s n) by auto. destruct (Z.eqb_spec k 0); [lia|reflexivity].
  - rewrite (gete_reset S s n) by auto. simpl. auto.
  - rewrite (gete_reset S s n) by auto. simpl. exact Er.
Qed.

Lemma wf_pd p r s : kreal S p -> wf s -> wf (apply_pd p r s).
Proof.
  intros Hp W. destruct (wf_shape s W) as [n Hs]. unfold kreal in Hp.
  constructor.
  - exists n. now apply pd_shaped.
  - intros k. rewrite !(get_pd S p r s n) by auto. destruct r; [|apply (wf_fm s W)].
    rewrite Zopp_eqb. destruct (k =? 0)%Z; simpl; now rewrite conj_k0.
  - intros k. rewrite !(get_pd S p r s n) by auto. destruct r; [|apply (wf_fz s W)].
    rewrite Zopp_eqb. destruct (k =? 0)%Z; simpl; [now rewrite Hp|now rewrite conj_k0].
  - intros k Hk. rewrite (gete_pd S p r s n) by auto. destruct (Z.eqb_spec k 0); [lia|reflexivity].
  - rewrite (gete_pd S p r s n) by auto. simpl. auto.
  - rewrite (gete_pd S p r s n) by auto. simpl. exact Hp.
Qed.

Theorem wf_step o s : wf_op o -> wf s -> wf (apply o s).
Proof.
  intros Ho W. destruct o as [a a0|m m0|d nmax| | |p r|]; simpl in *.
  - destruct Ho. now apply wf_scalar.
  - destruct Ho. now apply wf_matrix.
  - now apply wf_shift.
  - now apply wf_spoil.
  - now apply wf_reset.
  - now apply wf_pd.
  - exact W.
Qed.

(* every reachable state *)
Theorem wf_run ops s : Forall wf_op ops -> wf s -> wf (run ops s).
Proof.
  revert s. induction ops as [|o ops IH]; intros s Hops W; simpl; auto.
  inversion Hops as [|? ? Ho Hrest]; subst.
  apply IH; auto. now apply wf_step.
Qed.

(* only PD changes the equilibrium (as a function of the phase-state index) *)
Theorem only_pd_changes_equilibrium o s :
  wf s -> (forall p r, o <> OPD p r) -> forall k, gete (apply o s) k = gete s k.
Proof.
  intros W Hno k. destruct (wf_shape s W) as [n Hs].
  destruct o as [a a0|m m0|d nmax| | |p r|]; simpl.
  - apply gete_scalar.
  - apply gete_matrix.
  - rewrite (gete_shift S d nmax s n) by auto.
    rewrite (gete_resize S s n) by auto.
    destruct (inwin (shift_n d nmax n) k) eqn:E; auto.
    destruct (Z.eqb_spec k 0) as [->|Hk].
    + unfold inwin in E. destruct (Z.leb_spec (- Z.of_nat (shift_n d nmax n)) 0); destruct (Z.leb_spec 0 (Z.of_nat (shift_n d nmax n))); simpl in E; try discriminate; lia.
    + symmetry. now apply (wf_eq_off s W).
  - reflexivity.
  - rewrite (gete_reset S s n) by auto. destruct (Z.eqb_spec k 0) as [->|Hk]; auto.
    symmetry. now apply (wf_eq_off s W).
  - exfalso. now apply (Hno p r).
  - reflexivity.
Qed.

(* non-vacuity: a concrete operator list meets wf_op and a concrete state meets wf *)
End WfProof.
