(* C01 — EPG states are the Fourier coefficients of a Bloch isochromat ensemble.
   Only statements, each closed by [exact], followed by Print Assumptions. *)
From Coq Require Import List ZArith Reals.
From Coquelicot Require Import Coquelicot.
From EPG Require Import Scalar QI State Ops Views WfProof Synth Dft SynthStep Ensemble CInst
  Transition Evolution CDeriv CoefPhys.
Import ListNotations.

(* (1) one operator: the synthesis M(z) = sum_k z^k state(k) evolves like one isochromat *)
Theorem C01_synth_step (S : ScalOps) (L : ScalLaws S) (z zi : S) (zzi : kmul z zi = k1)
  (o : op S) (s : sm S) :
  (exists n, shaped S s n) -> eq_centred S s -> no_trunc S o s ->
  (M S z zi (apply o s), Me S z zi (apply o s)) = bloch S z zi o (M S z zi s) (Me S z zi s).
Proof. exact (synth_step S L z zi zzi o s). Qed.
Print Assumptions C01_synth_step.

(* (2) whole programs, any length, any valid coefficients, any well-formed initial state *)
Theorem C01_synth_run (S : ScalOps) (L : ScalLaws S) (z zi : S) (zzi : kmul z zi = k1)
  (ops : list (op S)) (s : sm S) :
  wf S s -> List.Forall (wf_op S) ops -> no_trunc_run S ops s ->
  (M S z zi (run ops s), Me S z zi (run ops s)) = bloch_run S z zi ops (M S z zi s, Me S z zi s).
Proof. exact (synth_run S L z zi zzi ops s). Qed.
Print Assumptions C01_synth_run.

(* (3) the phase states are exactly the DFT coefficients of N independently simulated isochromats *)
Theorem C01_states_are_dft_of_isochromats (S : ScalOps) (L : ScalLaws S) (w wi : S)
  (wwi : kmul w wi = k1) (N : nat)
  (principal : forall j, (j <> 0)%Z -> (- Z.of_nat N < j < Z.of_nat N)%Z ->
      sumn S N (fun m => zpow S w wi (j * Z.of_nat m)) = k0)
  (ops : list (op S)) (s0 : sm S) (k : Z) :
  wf S s0 -> List.Forall (wf_op S) ops -> no_trunc_run S ops s0 ->
  (2 * nstate (run ops s0) < N)%nat ->
  (- Z.of_nat (nstate (run ops s0)) <= k <= Z.of_nat (nstate (run ops s0)))%Z ->
  let s := run ops s0 in
  sumn S N (fun m => kmul (zpow S w wi (- (Z.of_nat m * k))) (fp (iso S w wi m ops s0))) = kmul (kofnat S N) (fp (get S s k)) /\
  sumn S N (fun m => kmul (zpow S w wi (- (Z.of_nat m * k))) (fm (iso S w wi m ops s0))) = kmul (kofnat S N) (fm (get S s k)) /\
  sumn S N (fun m => kmul (zpow S w wi (- (Z.of_nat m * k))) (fz (iso S w wi m ops s0))) = kmul (kofnat S N) (fz (get S s k)).
Proof. exact (states_are_dft_of_isochromats S L w wi wwi N principal ops s0 k). Qed.
Print Assumptions C01_states_are_dft_of_isochromats.

(* (4) F0 / Z0 are the ensemble means *)
Theorem C01_F0_Z0_are_ensemble_means (S : ScalOps) (L : ScalLaws S) (w wi : S)
  (wwi : kmul w wi = k1) (N : nat)
  (principal : forall j, (j <> 0)%Z -> (- Z.of_nat N < j < Z.of_nat N)%Z ->
      sumn S N (fun m => zpow S w wi (j * Z.of_nat m)) = k0)
  (ops : list (op S)) (s0 : sm S) :
  wf S s0 -> List.Forall (wf_op S) ops -> no_trunc_run S ops s0 ->
  (2 * nstate (run ops s0) < N)%nat ->
  sumn S N (fun m => fp (iso S w wi m ops s0)) = kmul (kofnat S N) (F0 S (run ops s0)) /\
  sumn S N (fun m => fz (iso S w wi m ops s0)) = kmul (kofnat S N) (Z0 S (run ops s0)).
Proof. exact (F0_Z0_are_ensemble_means S L w wi wwi N principal ops s0). Qed.
Print Assumptions C01_F0_Z0_are_ensemble_means.

(* (5) over the complex numbers such an ensemble exists for every N: w = exp(2 pi i / N) *)
Theorem C01_complex_roots_exist (N : nat) : (0 < N)%nat ->
  @kmul Cops (omega N) (omega_inv N) = @k1 Cops /\
  forall j, (j <> 0)%Z -> (- Z.of_nat N < j < Z.of_nat N)%Z ->
    sumn Cops N (fun m => zpow Cops (omega N) (omega_inv N) (j * Z.of_nat m)) = @k0 Cops.
Proof. intros H. split; [exact (omega_inv_ok N)|exact (omega_principal N H)]. Qed.
Print Assumptions C01_complex_roots_exist.

(* (6) the generated RF-pulse matrix is the right-handed rotation about (cos phi, sin phi, 0) *)
Theorem C01_T_is_rotation (alpha phi x y z : R) :
  mv (T_op alpha phi) (of_xyz (x, y, z)) =
  of_xyz (rodrigues (PI / 180 * alpha) (PI / 180 * phi) (x, y, z)).
Proof. exact (T_is_rotation alpha phi x y z). Qed.
Print Assumptions C01_T_is_rotation.

Theorem C01_Phi_is_z_rotation (phi x y z : R) :
  mv (Phi_op phi) (of_xyz (x, y, z)) = of_xyz (rot_z (PI / 180 * phi) (x, y, z)).
Proof. exact (Phi_is_z_rotation phi x y z). Qed.
Print Assumptions C01_Phi_is_z_rotation.

(* (7) the generated relaxation arrays integrate the Bloch equations in tau *)
Theorem C01_E_solves_bloch (T1 T2 g : R) (m0 : triple Cops) (pd : C) (tau : R) :
  T1 <> 0%R -> T2 <> 0%R ->
  derT (fun t => evolve (E_op t T1 T2 g) m0 pd) tau
       (bloch_rhs T1 T2 g (evolve (E_op tau T1 T2 g) m0 pd) pd).
Proof. exact (E_solves_bloch T1 T2 g m0 pd tau). Qed.
Print Assumptions C01_E_solves_bloch.

Theorem C01_E_identity_at_0 (T1 T2 g : R) (m0 : triple Cops) (pd : C) :
  T1 <> 0%R -> T2 <> 0%R -> evolve (E_op 0 T1 T2 g) m0 pd = m0.
Proof. exact (E_identity_at_0 T1 T2 g m0 pd). Qed.
Print Assumptions C01_E_identity_at_0.

Theorem C01_P_solves_precession (g : R) (m0 : triple Cops) (pd : C) (tau : R) :
  derT (fun t => evolve (P_op t g) m0 pd) tau
       (@mk3 Cops (Cmult (0%R, (2 * PI * g)%R) (fp (evolve (P_op tau g) m0 pd)))
                  (Cmult (0%R, (- (2 * PI * g))%R) (fm (evolve (P_op tau g) m0 pd))) (RtoC 0)).
Proof. exact (P_solves_precession g m0 pd tau). Qed.
Print Assumptions C01_P_solves_precession.

(* (8) the generated operators satisfy the validity hypotheses of (1)-(4): not vacuous *)
Theorem C01_generated_operators_valid (alpha phi tau T1 T2 g rT_re rT_im rL r0 : R) :
  wf_mat Cops (T_op alpha phi) /\ wf_mat Cops (Phi_op phi) /\ wf_pair (E_op tau T1 T2 g) /\
  wf_pair (P_op tau g) /\ wf_pair (R_op rT_re rT_im rL r0).
Proof.
  exact (conj (T_wf alpha phi) (conj (Phi_wf phi) (conj (E_wf tau T1 T2 g) (conj (P_wf tau g) (R_wf rT_re rT_im rL r0))))).
Qed.
Print Assumptions C01_generated_operators_valid.

(* non-vacuity on the executed instance: a concrete untruncated program *)
Example C01_nonvacuous :
  let ops : list (op QIops) :=
    [OMatrix (@mkM QIops (@mk3 QIops (qr 1 2) (qr 1 2) (qi 0 1 (-1) 1))
                         (@mk3 QIops (qr 1 2) (qr 1 2) (qi 0 1 1 1))
                         (@mk3 QIops (qi 0 1 (-1) 2) (qi 0 1 1 2) (qr 0 1))) None;
     OShift 1 None; OScalar (@mk3 QIops (qr 1 2) (qr 1 2) (qr 1 2)) (Some (@mk3 QIops (qr 0 1) (qr 0 1) (qr 1 2)));
     OShift (-2) None] in
  List.Forall (wf_op QIops) ops /\ wf QIops (@init QIops (qr 1 1)) /\ no_trunc_run QIops ops (@init QIops (qr 1 1)).
Proof.
  split; [|split].
  - repeat constructor; vm_compute; reflexivity.
  - apply (wf_init QIops QIlaws). vm_compute. reflexivity.
  - vm_compute. repeat split.
Qed.
