(* C02 — First-order partials (Jacobian) equal the true derivative of the simulation.
   Only statements, each closed by [exact], followed by Print Assumptions. *)
From Coq Require Import List ZArith Reals.
From Coquelicot Require Import Coquelicot.
From EPG Require Import Scalar QI Dual State Ops Diff DiffLemmas DiffExact DiffIndep DiffNonvac CInst Transition Evolution CDeriv CoefT CoefE.
From EPG Require Import DiffPoint Jet RealSeq.
Import ListNotations.

(* (1) what the bookkeeping computes: a lookup in the new order1 dictionary, for ANY operator
   configuration (True / str / list / alias / coefficient map all normalise to d_order1) *)
Theorem C02_lookup_order1 (S : ScalOps) (o : dop S) (s : sm S) (old : list (var * sm S)) (v : var) :
  alookup Nat.eqb v (fst (apply_order1 o s old)) =
  oadd S (omap (derive0 S o) (alookup Nat.eqb v old)) (osum S (terms S o s v) None).
Proof. exact (lookup_order1 S o s old v). Qed.
Print Assumptions C02_lookup_order1.

(* (2) exactness for every program: for ANY derivation dv of the scalar ring, if the operators'
   arrays satisfy the chain rule through their declared coefficients (instr_ok), the partial state
   carried for variable v is dv of the simulated state, phase state by phase state *)
Theorem C02_order1_run (S : ScalOps) (L : ScalLaws S) (dv : S -> S)
  (dv_add : forall x y, dv (kadd x y) = kadd (dv x) (dv y))
  (dv_mul : forall x y, dv (kmul x y) = kadd (kmul (dv x) y) (kmul x (dv y)))
  (v : var) (prog : list (dinstr S)) (n : nat) (ds : dstate S) :
  List.Forall (instr_ok S dv v) prog -> inv S dv v n ds -> inv S dv v (run_n S prog n) (drun prog ds).
Proof. exact (order1_run S L dv dv_add dv_mul v prog n ds). Qed.
Print Assumptions C02_order1_run.

(* (3) the Jacobian probe: column of v = dv(signal); shared variables accumulate (chain rule is in
   instr_ok's coefficient sums); a variable carried by no operator gives dv(signal) = 0 *)
Theorem C02_jacobian_exact (S : ScalOps) (L : ScalLaws S) (dv : S -> S)
  (dv_add : forall x y, dv (kadd x y) = kadd (dv x) (dv y))
  (dv_mul : forall x y, dv (kmul x y) = kadd (kmul (dv x) y) (kmul x (dv y)))
  (v : var) (prog : list (dinstr S)) (pd : S) :
  dv pd = k0 -> List.Forall (instr_ok S dv v) prog ->
  jacobian (drun prog (dinit (init pd))) [v] = [dv (f0 S (d_main (drun prog (dinit (init pd)))))].
Proof. exact (jacobian_exact S L dv dv_add dv_mul v prog pd). Qed.
Print Assumptions C02_jacobian_exact.

(* (4) the closed-form derivative arrays TRANSLATED from transition.py / evolution.py are the true
   derivatives of the translated operator arrays (recovery term included), through the class glue *)
Theorem C02_T_d_alpha (alpha phi : R) : derM (fun a => T_op a phi) alpha (T_d_alpha alpha phi).
Proof. exact (T_d_alpha_correct alpha phi). Qed.
Theorem C02_T_d_phi (alpha phi : R) : derM (fun p => T_op alpha p) phi (T_d_phi alpha phi).
Proof. exact (T_d_phi_correct alpha phi). Qed.
Theorem C02_Phi_d_phi (phi : R) : derM Phi_op phi (Phi_d_phi phi).
Proof. exact (Phi_d_phi_correct phi). Qed.
Theorem C02_E_d_tau (tau T1 T2 g : R) : T1 <> 0%R -> T2 <> 0%R ->
  derA (fun x => E_op x T1 T2 g) tau (E_d_tau tau T1 T2 g).
Proof. exact (E_d_tau_correct tau T1 T2 g). Qed.
Theorem C02_E_d_T1 (tau T1 T2 g : R) : T1 <> 0%R -> T2 <> 0%R ->
  derA (fun x => E_op tau x T2 g) T1 (E_d_T1 tau T1 T2 g).
Proof. exact (fun H1 _ => E_d_T1_correct tau T1 T2 g H1). Qed.
Theorem C02_E_d_T2 (tau T1 T2 g : R) : T1 <> 0%R -> T2 <> 0%R ->
  derA (fun x => E_op tau T1 x g) T2 (E_d_T2 tau T1 T2 g).
Proof. exact (fun _ H2 => E_d_T2_correct tau T1 T2 g H2). Qed.
Theorem C02_E_d_g (tau T1 T2 g : R) : T1 <> 0%R -> T2 <> 0%R ->
  derA (fun x => E_op tau T1 T2 x) g (E_d_g tau T1 T2 g).
Proof. exact (fun _ _ => E_d_g_correct tau T1 T2 g). Qed.
Theorem C02_P_d_tau (tau g : R) : derA (fun x => P_op x g) tau (P_d_tau tau g).
Proof. exact (P_d_tau_correct tau g). Qed.
Theorem C02_P_d_g (tau g : R) : derA (fun x => P_op tau x) g (P_d_g tau g).
Proof. exact (P_d_g_correct tau g). Qed.
Theorem C02_R_d_rT (rT_re rT_im rL r0 : R) : derA (fun x => R_op x rT_im rL r0) rT_re (R_d_rT rT_re rT_im rL r0).
Proof. exact (R_d_rT_correct rT_re rT_im rL r0). Qed.
Theorem C02_R_d_rL (rT_re rT_im rL r0 : R) : derA (fun x => R_op rT_re rT_im x r0) rL (R_d_rL rT_re rT_im rL r0).
Proof. exact (R_d_rL_correct rT_re rT_im rL r0). Qed.
Theorem C02_R_d_r0 (rT_re rT_im rL r0 : R) : derA (fun x => R_op rT_re rT_im rL x) r0 (R_d_r0 rT_re rT_im rL r0).
Proof. exact (R_d_r0_correct rT_re rT_im rL r0). Qed.
Print Assumptions C02_T_d_alpha.
Print Assumptions C02_E_d_tau.
Print Assumptions C02_R_d_r0.

(* (4b) COMPOSITION of (2)/(3) with analysis, as one theorem.
   Point derivations: the plain simulation runs in a ring K, the bookkeeping in a ring L, ev : K -> L is a
   ring homomorphism and dv : K -> L a derivation over it; if the arrays over L are the values of the
   arrays over K and dv of the arrays is the declared combination of derivative arrays (pair_ok), then the
   Jacobian entry is dv of the plain signal and the signal is ev of the plain signal -- every program. *)
Theorem C02_jacobian_point (S1 S2 : ScalOps) (L1 : ScalLaws S1) (L2 : ScalLaws S2) (ev dv : S1 -> S2)
  (ev_0 : ev k0 = k0)
  (ev_add : forall x y, ev (kadd x y) = kadd (ev x) (ev y))
  (ev_mul : forall x y, ev (kmul x y) = kmul (ev x) (ev y))
  (dv_add : forall x y, dv (kadd x y) = kadd (dv x) (dv y))
  (dv_mul : forall x y, dv (kmul x y) = kadd (kmul (dv x) (ev y)) (kmul (ev x) (dv y)))
  (v : var) (prog1 : list (op S1)) (prog2 : list (dinstr S2)) (pd : S1) :
  dv pd = k0 -> Forall2 (pair_ok S1 S2 ev dv v) prog1 prog2 ->
  let ds := drun prog2 (dinit (init (ev pd))) in
  jacobian ds [v] = [dv (f0 S1 (run prog1 (init pd)))] /\
  f0 S2 (d_main ds) = ev (f0 S1 (run prog1 (init pd))).
Proof. exact (jacobian_point S1 S2 L1 L2 ev dv ev_0 ev_add ev_mul dv_add dv_mul v prog1 prog2 pd). Qed.
Print Assumptions C02_jacobian_point.

(* a family of programs x |-> prog(x) over C (arrays differentiable at x0), the program of their 1-jets
   over the dual numbers, and the differentiation program handed to diff.py at x0: the Jacobian entry
   diff.py returns is the derivative at x0 of x |-> simulated signal (is_derive on re and im) *)
Theorem C02_jacobian_is_derivative (x0 : R) (v : var) (fprog : list fop) (jprog : list (op DC))
  (prog2 : list (dinstr Cops)) (pd : C) :
  Forall2 (is_jet x0) fprog jprog ->
  Forall2 (pair_ok DC Cops jv jd v) jprog prog2 ->
  let ds := drun prog2 (dinit (@init Cops pd)) in
  exists j, jacobian ds [v] = [j] /\
            derC (fun x => f0 Cops (frun fprog x (@init Cops pd))) x0 j /\
            f0 Cops (d_main ds) = f0 Cops (frun fprog x0 (@init Cops pd)).
Proof. exact (jacobian_is_derivative x0 v fprog jprog prog2 pd). Qed.
Print Assumptions C02_jacobian_is_derivative.

(* END TO END.  A sequence of operators driven by one real variable x: MatrixOps with arrays F(c x + b)
   and ScalarOps with (arr, arr0) = A(c x + b), each declared to diff.py as order1 = {v: {p: c}} with
   derivative arrays D(c x + b); constant operators; shifts with or without nmax.  If D is the derivative of
   the arrays at the point (item_ok), the Jacobian entry of diff.py's bookkeeping at x0 is the derivative
   at x0 of the simulated signal with respect to x. *)
Theorem C02_real_sequence_jacobian (x0 : R) (v : var) (items : list ritem) (pd : C) :
  List.Forall (item_ok x0) items ->
  let ds := drun (map (dop_of x0 v) items) (dinit (@init Cops pd)) in
  exists j : C, jacobian ds [v] = [j] /\
    derC (fun x => f0 Cops (run (map (real_of x) items) (@init Cops pd))) x0 j /\
    f0 Cops (d_main ds) = f0 Cops (run (map (real_of x0) items) (@init Cops pd)).
Proof. exact (real_sequence_jacobian x0 v items pd). Qed.
Print Assumptions C02_real_sequence_jacobian.

(* ... and item_ok holds for the operators of the package, with the arrays TRANSLATED from /repo
   (Gen/Transition.v, Gen/Evolution.v): T in alpha or phi, Phi, E in tau, T1, T2 or g, P in tau or g,
   R in Re rT, rL or r0, driven affinely by x, plus constant T / E / P and shifts (real_item lists them
   with the side conditions T1 <> 0, T2 <> 0 where the package divides by them), AND the operators without
   differentiable parameter applied through Operator.__call__: SPOILER, RESET, PD(pd, reset) and Wait
   (RSpoil / RReset / RPD pd reset / RWait: dop_of = DPlain, the operator also acts on the partials). *)
Theorem C02_real_operators_jacobian (x0 : R) (v : var) (items : list ritem) (pd : C) :
  List.Forall (real_item x0) items ->
  let ds := drun (map (dop_of x0 v) items) (dinit (@init Cops pd)) in
  exists j : C, jacobian ds [v] = [j] /\
    derC (fun x => f0 Cops (run (map (real_of x) items) (@init Cops pd))) x0 j /\
    f0 Cops (d_main ds) = f0 Cops (run (map (real_of x0) items) (@init Cops pd)).
Proof. exact (real_operators_jacobian x0 v items pd). Qed.
Print Assumptions C02_real_operators_jacobian.

(* its side conditions are met, e.g. by a B1-like variable scaling two pulses, or a T2 variable at 50 ms *)
Example C02_real_operators_nonvacuous :
  List.Forall (real_item 50%R)
    [iT_alpha 1 0 30; RS 1 None; iE_T2 8 1000 (1/100) 1 0; iT_alpha 2 0 0; RS (-1) (Some 3%nat);
     iE_const 5 1000 50 0; iP_g 3 (1/1000) 0; iT_phi 60 1 0] /\
  (* ... with SPOILER, PD(reset=True), PD(reset=False), RESET and Wait between differentiable operators *)
  List.Forall (real_item 50%R)
    [iT_alpha 1 0 30; RS 1 None; iE_T2 8 1000 (1/100) 1 0; RSpoil; iT_alpha 2 0 0; RPD (RtoC 2) true;
     iE_T2 8 1000 0 1 0; RS 1 None; RPD (RtoC (1/2)) false; iT_phi 60 1 0; RWait; iE_T2 5 1000 0 1 0;
     RReset; iT_alpha 1 0 0; iE_T2 5 1000 0 1 0].
Proof.
  split; repeat constructor; apply Rgt_not_eq; Lra.lra.
Qed.

(* (5) "whatever other operators, differentiable or not, occur": operators applied through Operator.__call__
   (SPOILER, RESET, PD, Wait) act on the partials too -- they are instructions of the programs theorems (2)-(4)
   quantify over; regression witness of the former finding (fixed by /repo 8521bf9): after a spoiler the signal
   is 0 and so is the carried Jacobian entry, which was non-zero just before it. *)
Theorem C02_jacobian_through_spoiler :
  exists (prog : list (dinstr QIops)) (v : var),
    jacobian (drun prog (dinit (@init QIops (qr 1 1)))) [v] <> [qi0] /\
    f0 QIops (d_main (drun (prog ++ [DPlain (@OSpoil QIops)]) (dinit (@init QIops (qr 1 1))))) = qi0 /\
    jacobian (drun (prog ++ [DPlain (@OSpoil QIops)]) (dinit (@init QIops (qr 1 1)))) [v] = [qi0].
Proof. exact spoiler_acts_on_partials. Qed.
Print Assumptions C02_jacobian_through_spoiler.

(* non-vacuity of (2)/(3): over the dual numbers a + a' x (a scalar ring) the Euler operator is a
   non-trivial derivation; an operator with arrays a + a' x and declared derivative a' x meets instr_ok,
   and on the executed instance the Jacobian entry it yields is non-zero *)
Theorem C02_derivation_exists (S : ScalOps) (L : ScalLaws S) :
  ScalLaws (DualOps S) /\
  (forall x y, dual_dv S (@kadd (DualOps S) x y) = @kadd (DualOps S) (dual_dv S x) (dual_dv S y)) /\
  (forall x y, dual_dv S (@kmul (DualOps S) x y) =
               @kadd (DualOps S) (@kmul (DualOps S) (dual_dv S x) y) (@kmul (DualOps S) x (dual_dv S y))).
Proof. exact (conj (DualLaws S L) (conj (dual_dv_add S L) (dual_dv_mul S L))). Qed.
Print Assumptions C02_derivation_exists.

Example C02_nonvacuous :
  let a  := @mk3 QIops (qi 1 2 1 2) (qi 1 2 (-1) 2) (qr 1 2) in
  let a' := @mk3 QIops (qi 1 1 0 1) (qi 1 1 0 1) (qr (-1) 2) in
  let b  := @mk3 QIops (qr 0 1) (qr 0 1) (qr 1 2) in
  let b' := @mk3 QIops (qr 0 1) (qr 0 1) (qr 1 4) in
  let m := @mkM QIops (@mk3 QIops (qr 1 2) (qr 1 2) (qi 0 1 (-1) 1)) (@mk3 QIops (qr 1 2) (qr 1 2) (qi 0 1 1 1))
                      (@mk3 QIops (qi 0 1 (-1) 2) (qi 0 1 1 2) (qr 0 1)) in
  let prog := [DOp (nv_const QIops m); DOp (nv_op QIops a a' b b')] in
  List.Forall (instr_ok (DualOps QIops) (dual_dv QIops) 0%nat) prog /\
  jacobian (drun prog (dinit (@init (DualOps QIops) ((qr 1 1, qi0) : DualOps QIops)))) [0%nat]
    <> [@k0 (DualOps QIops)].
Proof. exact nv_jacobian_nonzero. Qed.
