(* C03 — Second-order partials (Hessian) are exact, complete and symmetric.
   Only statements, each closed by [exact], followed by Print Assumptions. *)
From Coq Require Import List ZArith Reals.
From Coquelicot Require Import Coquelicot.
From EPG Require Import Scalar QI State Ops Diff DiffOrder2 CInst Transition Evolution CDeriv CoefT CoefE.
From EPG Require DiffExact DiffExact2 DiffExact2Nonvac.
Import ListNotations.

(* (1) symmetry: H[a,b] = H[b,a] for every state of every run and every requested variable list *)
Theorem C03_hessian_symmetric (S : ScalOps) (ds : dstate S) (vars : list var) (i j : nat) :
  nth j (nth i (hessian ds vars) []) k0 = nth i (nth j (hessian ds vars) []) k0.
Proof. exact (hessian_symmetric S ds vars i j). Qed.
Print Assumptions C03_hessian_symmetric.

(* (2) the closed-form SECOND derivative arrays translated from the source are the derivatives of the
   translated first-derivative arrays -- for both orders of differentiation of every mixed entry *)
Theorem C03_T_d2_alpha_alpha (alpha phi : R) : derM (fun a => T_d_alpha a phi) alpha (T_d2_alpha_alpha alpha phi).
Proof. exact (T_d2_alpha_alpha_correct alpha phi). Qed.
Theorem C03_T_d2_alpha_phi (alpha phi : R) : derM (fun p => T_d_alpha alpha p) phi (T_d2_alpha_phi alpha phi).
Proof. exact (T_d2_alpha_phi_correct alpha phi). Qed.
Theorem C03_T_d2_phi_alpha (alpha phi : R) : derM (fun a => T_d_phi a phi) alpha (T_d2_alpha_phi alpha phi).
Proof. exact (T_d2_phi_alpha_correct alpha phi). Qed.
Theorem C03_T_d2_phi_phi (alpha phi : R) : derM (fun p => T_d_phi alpha p) phi (T_d2_phi_phi alpha phi).
Proof. exact (T_d2_phi_phi_correct alpha phi). Qed.
Theorem C03_Phi_d2_phi_phi (phi : R) : derM Phi_d_phi phi (Phi_d2_phi_phi phi).
Proof. exact (Phi_d2_phi_phi_correct phi). Qed.
Print Assumptions C03_T_d2_phi_phi.

Theorem C03_E_d2_tau_tau (tau T1 T2 g : R) : T1 <> 0%R -> T2 <> 0%R -> derA (fun x => E_d_tau x T1 T2 g) tau (E_d2_tau_tau tau T1 T2 g).
Proof. exact (E_d2_tau_tau_correct tau T1 T2 g). Qed.
Theorem C03_E_d2_T1_T1 (tau T1 T2 g : R) : T1 <> 0%R -> derA (fun x => E_d_T1 tau x T2 g) T1 (E_d2_T1_T1 tau T1 T2 g).
Proof. exact (E_d2_T1_T1_correct tau T1 T2 g). Qed.
Theorem C03_E_d2_T2_T2 (tau T1 T2 g : R) : T2 <> 0%R -> derA (fun x => E_d_T2 tau T1 x g) T2 (E_d2_T2_T2 tau T1 T2 g).
Proof. exact (E_d2_T2_T2_correct tau T1 T2 g). Qed.
Theorem C03_E_d2_g_g (tau T1 T2 g : R) : derA (fun x => E_d_g tau T1 T2 x) g (E_d2_g_g tau T1 T2 g).
Proof. exact (E_d2_g_g_correct tau T1 T2 g). Qed.
Theorem C03_E_d2_T1_tau (tau T1 T2 g : R) : T1 <> 0%R ->
  derA (fun x => E_d_T1 x T1 T2 g) tau (E_d2_T1_tau tau T1 T2 g) /\ derA (fun x => E_d_tau tau x T2 g) T1 (E_d2_T1_tau tau T1 T2 g).
Proof. exact (fun H => conj (E_d2_T1_tau_correct tau T1 T2 g H) (E_d2_tau_T1_correct tau T1 T2 g H)). Qed.
Theorem C03_E_d2_T2_tau (tau T1 T2 g : R) : T2 <> 0%R ->
  derA (fun x => E_d_T2 x T1 T2 g) tau (E_d2_T2_tau tau T1 T2 g) /\ derA (fun x => E_d_tau tau T1 x g) T2 (E_d2_T2_tau tau T1 T2 g).
Proof. exact (fun H => conj (E_d2_T2_tau_correct tau T1 T2 g H) (E_d2_tau_T2_correct tau T1 T2 g H)). Qed.
Theorem C03_E_d2_g_tau (tau T1 T2 g : R) : T2 <> 0%R ->
  derA (fun x => E_d_g x T1 T2 g) tau (E_d2_g_tau tau T1 T2 g) /\ derA (fun x => E_d_tau tau T1 T2 x) g (E_d2_g_tau tau T1 T2 g).
Proof. exact (fun H => conj (E_d2_g_tau_correct tau T1 T2 g H) (E_d2_tau_g_correct tau T1 T2 g H)). Qed.
Theorem C03_E_d2_T2_g (tau T1 T2 g : R) : T2 <> 0%R ->
  derA (fun x => E_d_T2 tau T1 T2 x) g (E_d2_T2_g tau T1 T2 g) /\ derA (fun x => E_d_g tau T1 x g) T2 (E_d2_T2_g tau T1 T2 g).
Proof. exact (fun H => conj (E_d2_T2_g_correct tau T1 T2 g H) (E_d2_g_T2_correct tau T1 T2 g H)). Qed.
(* the pairs absent from PARAMETERS_ORDER2 have identically zero mixed derivatives: omitting them is sound *)
Theorem C03_E_absent_pairs_zero (tau T1 T2 g : R) :
  derA (fun x => E_d_T1 tau T1 x g) T2 Azero /\ derA (fun x => E_d_T2 tau x T2 g) T1 Azero /\
  derA (fun x => E_d_T1 tau T1 T2 x) g Azero /\ derA (fun x => E_d_g tau x T2 g) T1 Azero.
Proof. exact (conj (E_d2_T1_T2_zero tau T1 T2 g) (conj (E_d2_T2_T1_zero tau T1 T2 g) (conj (E_d2_T1_g_zero tau T1 T2 g) (E_d2_g_T1_zero tau T1 T2 g)))). Qed.
Print Assumptions C03_E_d2_T2_g.
Print Assumptions C03_E_absent_pairs_zero.

Theorem C03_P_d2 (tau g : R) :
  derA (fun x => P_d_tau x g) tau (P_d2_tau_tau tau g) /\ derA (fun x => P_d_g tau x) g (P_d2_g_g tau g) /\
  derA (fun x => P_d_g x g) tau (P_d2_g_tau tau g) /\ derA (fun x => P_d_tau tau x) g (P_d2_g_tau tau g).
Proof. exact (conj (P_d2_tau_tau_correct tau g) (conj (P_d2_g_g_correct tau g) (conj (P_d2_g_tau_correct tau g) (P_d2_tau_g_correct tau g)))). Qed.
Theorem C03_R_d2 (rT_re rT_im rL r0 : R) :
  derA (fun x => R_d_rT x rT_im rL r0) rT_re (R_d2_rT_rT rT_re rT_im rL r0) /\
  derA (fun x => R_d_rL rT_re rT_im x r0) rL (R_d2_rL_rL rT_re rT_im rL r0) /\
  derA (fun x => R_d_r0 rT_re rT_im rL x) r0 (R_d2_r0_r0 rT_re rT_im rL r0).
Proof. exact (conj (R_d2_rT_rT_correct rT_re rT_im rL r0) (conj (R_d2_rL_rL_correct rT_re rT_im rL r0) (R_d2_r0_r0_correct rT_re rT_im rL r0))). Qed.
Print Assumptions C03_P_d2.
Print Assumptions C03_R_d2.

(* (3) exactness of the second-order bookkeeping (_apply_order2) over programs: for any two commuting
   derivations dv1, dv2 of the scalar ring, if every instruction meets the first-order chain rule for
   (dv1,v1) and (dv2,v2) and the second-order chain rule for the pair ([DiffExact2.instr_ok12]: unique
   order1 keys, non-shift derivative arrays, [coef2_ok], [cross_ok]; shifts without declarations, Wait,
   PD without reset), then the state carried in sm.order2 under Pair(v1,v2) is dv1 (dv2 (state)) for every
   phase state k -- together with the two first-order invariants ([DiffExact2.inv12]) *)
Theorem C03_order2_exact (S : ScalOps) (L : ScalLaws S) (dv1 dv2 : S -> S) :
  (forall x y, dv1 (x + y)%K = (dv1 x + dv1 y)%K) -> (forall x y, dv1 (x * y)%K = (dv1 x * y + x * dv1 y)%K) ->
  (forall x y, dv2 (x + y)%K = (dv2 x + dv2 y)%K) -> (forall x y, dv2 (x * y)%K = (dv2 x * y + x * dv2 y)%K) ->
  (forall x, dv1 (dv2 x) = dv2 (dv1 x)) ->
  forall (v1 v2 : var) (prog : list (dinstr S)) (n : nat) (ds : dstate S),
  DiffExact2.prog_ok S dv1 dv2 v1 v2 prog ds -> DiffExact2.inv12 S dv1 dv2 v1 v2 n ds ->
  DiffExact2.inv12 S dv1 dv2 v1 v2 (DiffExact.run_n S prog n) (drun prog ds).
Proof. exact (DiffExact2.order2_run S L dv1 dv2). Qed.
Print Assumptions C03_order2_exact.

(* the same with purely per-instruction (state-independent) hypotheses *)
Theorem C03_order2_exact_static (S : ScalOps) (L : ScalLaws S) (dv1 dv2 : S -> S) :
  (forall x y, dv1 (x + y)%K = (dv1 x + dv1 y)%K) -> (forall x y, dv1 (x * y)%K = (dv1 x * y + x * dv1 y)%K) ->
  (forall x y, dv2 (x + y)%K = (dv2 x + dv2 y)%K) -> (forall x y, dv2 (x * y)%K = (dv2 x * y + x * dv2 y)%K) ->
  (forall x, dv1 (dv2 x) = dv2 (dv1 x)) ->
  forall (v1 v2 : var) (prog : list (dinstr S)) (n : nat) (ds : dstate S),
  List.Forall (DiffExact2.instr_ok12 S dv1 dv2 v1 v2 false) prog -> DiffExact2.inv12 S dv1 dv2 v1 v2 n ds ->
  DiffExact2.inv12 S dv1 dv2 v1 v2 (DiffExact.run_n S prog n) (drun prog ds).
Proof. exact (DiffExact2.order2_run_static S L dv1 dv2). Qed.
Print Assumptions C03_order2_exact_static.

(* Hessian probe after simulate(): both mixed entries for [v1; v2] are dv1 (dv2 signal); a pair nobody
   carries yields zero exactly when the signal's second derivative vanishes *)
Theorem C03_hessian_exact (S : ScalOps) (L : ScalLaws S) (dv1 dv2 : S -> S) :
  (forall x y, dv1 (x + y)%K = (dv1 x + dv1 y)%K) -> (forall x y, dv1 (x * y)%K = (dv1 x * y + x * dv1 y)%K) ->
  (forall x y, dv2 (x + y)%K = (dv2 x + dv2 y)%K) -> (forall x y, dv2 (x * y)%K = (dv2 x * y + x * dv2 y)%K) ->
  (forall x, dv1 (dv2 x) = dv2 (dv1 x)) ->
  forall (v1 v2 : var) (prog : list (dinstr S)) (pd : S),
  dv1 pd = k0 -> dv2 pd = k0 -> DiffExact2.prog_ok S dv1 dv2 v1 v2 prog (dinit (init pd)) ->
  nth 1 (nth 0 (hessian (drun prog (dinit (init pd))) [v1; v2]) []) k0
    = dv1 (dv2 (f0 S (d_main (drun prog (dinit (init pd)))))) /\
  nth 0 (nth 1 (hessian (drun prog (dinit (init pd))) [v1; v2]) []) k0
    = dv1 (dv2 (f0 S (d_main (drun prog (dinit (init pd)))))).
Proof. exact (DiffExact2.hessian_exact S L dv1 dv2). Qed.
Theorem C03_hessian_exact_diag (S : ScalOps) (L : ScalLaws S) (dv1 dv2 : S -> S) :
  (forall x y, dv1 (x + y)%K = (dv1 x + dv1 y)%K) -> (forall x y, dv1 (x * y)%K = (dv1 x * y + x * dv1 y)%K) ->
  (forall x y, dv2 (x + y)%K = (dv2 x + dv2 y)%K) -> (forall x y, dv2 (x * y)%K = (dv2 x * y + x * dv2 y)%K) ->
  (forall x, dv1 (dv2 x) = dv2 (dv1 x)) ->
  forall (v : var) (prog : list (dinstr S)) (pd : S),
  dv1 pd = k0 -> dv2 pd = k0 -> DiffExact2.prog_ok S dv1 dv2 v v prog (dinit (init pd)) ->
  hessian (drun prog (dinit (init pd))) [v] = [[dv1 (dv2 (f0 S (d_main (drun prog (dinit (init pd))))))]].
Proof. exact (DiffExact2.hessian_exact_diag S L dv1 dv2). Qed.
Print Assumptions C03_hessian_exact.
Print Assumptions C03_hessian_exact_diag.

(* non-vacuity: the hypotheses are satisfiable (double dual numbers over the Gaussian rationals, the two
   Euler derivations, a five-instruction program with a shift) with a NON-ZERO mixed second-order partial *)
Example C03_order2_nonvacuous :
  exists (S : ScalOps) (dv1 dv2 : S -> S) (prog : list (dinstr S)) (pd : S) (v1 v2 : var),
    ScalLaws S /\
    (forall x y, dv1 (x + y)%K = (dv1 x + dv1 y)%K) /\ (forall x y, dv1 (x * y)%K = (dv1 x * y + x * dv1 y)%K) /\
    (forall x y, dv2 (x + y)%K = (dv2 x + dv2 y)%K) /\ (forall x y, dv2 (x * y)%K = (dv2 x * y + x * dv2 y)%K) /\
    (forall x, dv1 (dv2 x) = dv2 (dv1 x)) /\
    dv1 pd = k0 /\ dv2 pd = k0 /\
    List.Forall (DiffExact2.instr_ok12 S dv1 dv2 v1 v2 false) prog /\
    nth 1 (nth 0 (hessian (drun prog (dinit (init pd))) [v1; v2]) []) k0 <> k0 /\
    nth 1 (nth 0 (hessian (drun prog (dinit (init pd))) [v1; v2]) []) k0 =
      dv1 (dv2 (f0 S (d_main (drun prog (dinit (init pd)))))).
Proof. exact DiffExact2Nonvac.nv2_witness. Qed.
Print Assumptions C03_order2_nonvacuous.
