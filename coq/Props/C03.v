(* C03 — Second-order partials (Hessian) are exact, complete and symmetric.
   Only statements, each closed by [exact], followed by Print Assumptions. *)
From Coq Require Import List ZArith Reals.
From Coquelicot Require Import Coquelicot.
From EPG Require Import Scalar QI State Ops Diff DiffOrder2 CInst Transition Evolution CDeriv CoefT CoefE.
From EPG Require DiffExact DiffExact2 DiffExact2Nonvac.
From EPG Require DiffPoint DiffPoint2 DiffPoint2Nonvac Jet Jet2 RealSeq RealSeq2 RealOps2.
Import ListNotations.

(* (1) symmetry: H[a,b] = H[b,a] for every state of every run and every requested variable list *)
Theorem C03_hessian_symmetric (S : ScalOps) (ds : dstate S) (vars : list var) (i j : nat) :
  nth j (nth i (hessian ds vars) []) k0 = nth i (nth j (hessian ds vars) []) k0.
Proof. exact (hessian_symmetric S ds vars i j). Qed.
Print Assumptions C03_hessian_symmetric.

(* (2) the closed-form SECOND derivative arrays translated from the source are the derivatives of the
   translated first-derivative arrays -- for both orders of differentiation of every mixed entry *)
Theorem C03_T_d2_alpha_alpha (alpha phi : R) : derM (fun a => T_d_alpha a phi) alpha (T_d2_alpha_alpha alpha phi).
Proof. exact (T_d2_alpha_alpha_correct alpha phi). Qed.
Theorem C03_T_d2_alpha_phi (alpha phi : R) : derM (fun p => T_d_alpha alpha p) phi (T_d2_alpha_phi alpha phi).
Proof. exact (T_d2_alpha_phi_correct alpha phi). Qed.
Theorem C03_T_d2_phi_alpha (alpha phi : R) : derM (fun a => T_d_phi a phi) alpha (T_d2_alpha_phi alpha phi).
Proof. exact (T_d2_phi_alpha_correct alpha phi). Qed.
Theorem C03_T_d2_phi_phi (alpha phi : R) : derM (fun p => T_d_phi alpha p) phi (T_d2_phi_phi alpha phi).
Proof. exact (T_d2_phi_phi_correct alpha phi). Qed.
Theorem C03_Phi_d2_phi_phi (phi : R) : derM Phi_d_phi phi (Phi_d2_phi_phi phi).
Proof. exact (Phi_d2_phi_phi_correct phi). Qed.
Print Assumptions C03_T_d2_phi_phi.

Theorem C03_E_d2_tau_tau (tau T1 T2 g : R) : T1 <> 0%R -> T2 <> 0%R -> derA (fun x => E_d_tau x T1 T2 g) tau (E_d2_tau_tau tau T1 T2 g).
Proof. exact (E_d2_tau_tau_correct tau T1 T2 g). Qed.
Theorem C03_E_d2_T1_T1 (tau T1 T2 g : R) : T1 <> 0%R -> derA (fun x => E_d_T1 tau x T2 g) T1 (E_d2_T1_T1 tau T1 T2 g).
Proof. exact (E_d2_T1_T1_correct tau T1 T2 g). Qed.
Theorem C03_E_d2_T2_T2 (tau T1 T2 g : R) : T2 <> 0%R -> derA (fun x => E_d_T2 tau T1 x g) T2 (E_d2_T2_T2 tau T1 T2 g).
Proof. exact (E_d2_T2_T2_correct tau T1 T2 g). Qed.
Theorem C03_E_d2_g_g (tau T1 T2 g : R) : derA (fun x => E_d_g tau T1 T2 x) g (E_d2_g_g tau T1 T2 g).
Proof. exact (E_d2_g_g_correct tau T1 T2 g). Qed.
Theorem C03_E_d2_T1_tau (tau T1 T2 g : R) : T1 <> 0%R ->
  derA (fun x => E_d_T1 x T1 T2 g) tau (E_d2_T1_tau tau T1 T2 g) /\ derA (fun x => E_d_tau tau x T2 g) T1 (E_d2_T1_tau tau T1 T2 g).
Proof. exact (fun H => conj (E_d2_T1_tau_correct tau T1 T2 g H) (E_d2_tau_T1_correct tau T1 T2 g H)). Qed.
Theorem C03_E_d2_T2_tau (tau T1 T2 g : R) : T2 <> 0%R ->
  derA (fun x => E_d_T2 x T1 T2 g) tau (E_d2_T2_tau tau T1 T2 g) /\ derA (fun x => E_d_tau tau T1 x g) T2 (E_d2_T2_tau tau T1 T2 g).
Proof. exact (fun H => conj (E_d2_T2_tau_correct tau T1 T2 g H) (E_d2_tau_T2_correct tau T1 T2 g H)). Qed.
Theorem C03_E_d2_g_tau (tau T1 T2 g : R) : T2 <> 0%R ->
  derA (fun x => E_d_g x T1 T2 g) tau (E_d2_g_tau tau T1 T2 g) /\ derA (fun x => E_d_tau tau T1 T2 x) g (E_d2_g_tau tau T1 T2 g).
Proof. exact (fun H => conj (E_d2_g_tau_correct tau T1 T2 g H) (E_d2_tau_g_correct tau T1 T2 g H)). Qed.
Theorem C03_E_d2_T2_g (tau T1 T2 g : R) : T2 <> 0%R ->
  derA (fun x => E_d_T2 tau T1 T2 x) g (E_d2_T2_g tau T1 T2 g) /\ derA (fun x => E_d_g tau T1 x g) T2 (E_d2_T2_g tau T1 T2 g).
Proof. exact (fun H => conj (E_d2_T2_g_correct tau T1 T2 g H) (E_d2_g_T2_correct tau T1 T2 g H)). Qed.
(* the pairs absent from PARAMETERS_ORDER2 have identically zero mixed derivatives: omitting them is sound *)
Theorem C03_E_absent_pairs_zero (tau T1 T2 g : R) :
  derA (fun x => E_d_T1 tau T1 x g) T2 Azero /\ derA (fun x => E_d_T2 tau x T2 g) T1 Azero /\
  derA (fun x => E_d_T1 tau T1 T2 x) g Azero /\ derA (fun x => E_d_g tau x T2 g) T1 Azero.
Proof. exact (conj (E_d2_T1_T2_zero tau T1 T2 g) (conj (E_d2_T2_T1_zero tau T1 T2 g) (conj (E_d2_T1_g_zero tau T1 T2 g) (E_d2_g_T1_zero tau T1 T2 g)))). Qed.
Print Assumptions C03_E_d2_T2_g.
Print Assumptions C03_E_absent_pairs_zero.

Theorem C03_P_d2 (tau g : R) :
  derA (fun x => P_d_tau x g) tau (P_d2_tau_tau tau g) /\ derA (fun x => P_d_g tau x) g (P_d2_g_g tau g) /\
  derA (fun x => P_d_g x g) tau (P_d2_g_tau tau g) /\ derA (fun x => P_d_tau tau x) g (P_d2_g_tau tau g).
Proof. exact (conj (P_d2_tau_tau_correct tau g) (conj (P_d2_g_g_correct tau g) (conj (P_d2_g_tau_correct tau g) (P_d2_tau_g_correct tau g)))). Qed.
Theorem C03_R_d2 (rT_re rT_im rL r0 : R) :
  derA (fun x => R_d_rT x rT_im rL r0) rT_re (R_d2_rT_rT rT_re rT_im rL r0) /\
  derA (fun x => R_d_rL rT_re rT_im x r0) rL (R_d2_rL_rL rT_re rT_im rL r0) /\
  derA (fun x => R_d_r0 rT_re rT_im rL x) r0 (R_d2_r0_r0 rT_re rT_im rL r0).
Proof. exact (conj (R_d2_rT_rT_correct rT_re rT_im rL r0) (conj (R_d2_rL_rL_correct rT_re rT_im rL r0) (R_d2_r0_r0_correct rT_re rT_im rL r0))). Qed.
Print Assumptions C03_P_d2.
Print Assumptions C03_R_d2.

(* (3) exactness of the second-order bookkeeping (_apply_order2) over programs: for any two commuting
   derivations dv1, dv2 of the scalar ring, if every instruction meets the first-order chain rule for
   (dv1,v1) and (dv2,v2) and the second-order chain rule for the pair ([DiffExact2.instr_ok12]: unique
   order1 keys, non-shift derivative arrays, [coef2_ok], [cross_ok]; shifts without declarations; SPOILER, RESET,
   Wait and PD(pd, reset) with a constant density, which act on the partials as well), then the state carried in sm.order2 under Pair(v1,v2) is dv1 (dv2 (state)) for every
   phase state k -- together with the two first-order invariants ([DiffExact2.inv12]) *)
Theorem C03_order2_exact (S : ScalOps) (L : ScalLaws S) (dv1 dv2 : S -> S) :
  (forall x y, dv1 (x + y)%K = (dv1 x + dv1 y)%K) -> (forall x y, dv1 (x * y)%K = (dv1 x * y + x * dv1 y)%K) ->
  (forall x y, dv2 (x + y)%K = (dv2 x + dv2 y)%K) -> (forall x y, dv2 (x * y)%K = (dv2 x * y + x * dv2 y)%K) ->
  (forall x, dv1 (dv2 x) = dv2 (dv1 x)) ->
  forall (v1 v2 : var) (prog : list (dinstr S)) (n : nat) (ds : dstate S),
  DiffExact2.prog_ok S dv1 dv2 v1 v2 prog ds -> DiffExact2.inv12 S dv1 dv2 v1 v2 n ds ->
  DiffExact2.inv12 S dv1 dv2 v1 v2 (DiffExact.run_n S prog n) (drun prog ds).
Proof. exact (DiffExact2.order2_run S L dv1 dv2). Qed.
Print Assumptions C03_order2_exact.

(* the same with purely per-instruction (state-independent) hypotheses *)
Theorem C03_order2_exact_static (S : ScalOps) (L : ScalLaws S) (dv1 dv2 : S -> S) :
  (forall x y, dv1 (x + y)%K = (dv1 x + dv1 y)%K) -> (forall x y, dv1 (x * y)%K = (dv1 x * y + x * dv1 y)%K) ->
  (forall x y, dv2 (x + y)%K = (dv2 x + dv2 y)%K) -> (forall x y, dv2 (x * y)%K = (dv2 x * y + x * dv2 y)%K) ->
  (forall x, dv1 (dv2 x) = dv2 (dv1 x)) ->
  forall (v1 v2 : var) (prog : list (dinstr S)) (n : nat) (ds : dstate S),
  List.Forall (DiffExact2.instr_ok12 S dv1 dv2 v1 v2 false) prog -> DiffExact2.inv12 S dv1 dv2 v1 v2 n ds ->
  DiffExact2.inv12 S dv1 dv2 v1 v2 (DiffExact.run_n S prog n) (drun prog ds).
Proof. exact (DiffExact2.order2_run_static S L dv1 dv2). Qed.
Print Assumptions C03_order2_exact_static.

(* Hessian probe after simulate(): both mixed entries for [v1; v2] are dv1 (dv2 signal); a pair nobody
   carries yields zero exactly when the signal's second derivative vanishes *)
Theorem C03_hessian_exact (S : ScalOps) (L : ScalLaws S) (dv1 dv2 : S -> S) :
  (forall x y, dv1 (x + y)%K = (dv1 x + dv1 y)%K) -> (forall x y, dv1 (x * y)%K = (dv1 x * y + x * dv1 y)%K) ->
  (forall x y, dv2 (x + y)%K = (dv2 x + dv2 y)%K) -> (forall x y, dv2 (x * y)%K = (dv2 x * y + x * dv2 y)%K) ->
  (forall x, dv1 (dv2 x) = dv2 (dv1 x)) ->
  forall (v1 v2 : var) (prog : list (dinstr S)) (pd : S),
  dv1 pd = k0 -> dv2 pd = k0 -> DiffExact2.prog_ok S dv1 dv2 v1 v2 prog (dinit (init pd)) ->
  nth 1 (nth 0 (hessian (drun prog (dinit (init pd))) [v1; v2]) []) k0
    = dv1 (dv2 (f0 S (d_main (drun prog (dinit (init pd)))))) /\
  nth 0 (nth 1 (hessian (drun prog (dinit (init pd))) [v1; v2]) []) k0
    = dv1 (dv2 (f0 S (d_main (drun prog (dinit (init pd)))))).
Proof. exact (DiffExact2.hessian_exact S L dv1 dv2). Qed.
Theorem C03_hessian_exact_diag (S : ScalOps) (L : ScalLaws S) (dv1 dv2 : S -> S) :
  (forall x y, dv1 (x + y)%K = (dv1 x + dv1 y)%K) -> (forall x y, dv1 (x * y)%K = (dv1 x * y + x * dv1 y)%K) ->
  (forall x y, dv2 (x + y)%K = (dv2 x + dv2 y)%K) -> (forall x y, dv2 (x * y)%K = (dv2 x * y + x * dv2 y)%K) ->
  (forall x, dv1 (dv2 x) = dv2 (dv1 x)) ->
  forall (v : var) (prog : list (dinstr S)) (pd : S),
  dv1 pd = k0 -> dv2 pd = k0 -> DiffExact2.prog_ok S dv1 dv2 v v prog (dinit (init pd)) ->
  hessian (drun prog (dinit (init pd))) [v] = [[dv1 (dv2 (f0 S (d_main (drun prog (dinit (init pd))))))]].
Proof. exact (DiffExact2.hessian_exact_diag S L dv1 dv2). Qed.
Print Assumptions C03_hessian_exact.
Print Assumptions C03_hessian_exact_diag.

(* non-vacuity: the hypotheses are satisfiable (double dual numbers over the Gaussian rationals, the two
   Euler derivations, a five-instruction program with a shift) with a NON-ZERO mixed second-order partial *)
Example C03_order2_nonvacuous :
  exists (S : ScalOps) (dv1 dv2 : S -> S) (prog : list (dinstr S)) (pd : S) (v1 v2 : var),
    ScalLaws S /\
    (forall x y, dv1 (x + y)%K = (dv1 x + dv1 y)%K) /\ (forall x y, dv1 (x * y)%K = (dv1 x * y + x * dv1 y)%K) /\
    (forall x y, dv2 (x + y)%K = (dv2 x + dv2 y)%K) /\ (forall x y, dv2 (x * y)%K = (dv2 x * y + x * dv2 y)%K) /\
    (forall x, dv1 (dv2 x) = dv2 (dv1 x)) /\
    dv1 pd = k0 /\ dv2 pd = k0 /\
    List.Forall (DiffExact2.instr_ok12 S dv1 dv2 v1 v2 false) prog /\
    nth 1 (nth 0 (hessian (drun prog (dinit (init pd))) [v1; v2]) []) k0 <> k0 /\
    nth 1 (nth 0 (hessian (drun prog (dinit (init pd))) [v1; v2]) []) k0 =
      dv1 (dv2 (f0 S (d_main (drun prog (dinit (init pd)))))).
Proof. exact DiffExact2Nonvac.nv2_witness. Qed.
Print Assumptions C03_order2_nonvacuous.

(* (4) COMPOSITION, bookkeeping part (two rings).  The plain simulation runs in a ring K = S1, diff.py's first- and
   second-order bookkeeping in a ring L = S2; ev : K -> L ring homomorphism, dv1, dv2 : K -> L point derivations
   over ev, dv12 : K -> L additive with the second-order Leibniz rule.  If every instruction meets
   [DiffPoint2.pair_ok12] (arrays over L = ev of the arrays over K; dv1 / dv2 of the arrays = the declared
   first-order combinations; dv12 of the arrays = what _apply_order2 assembles from d_d2arrs through the products
   c_p c_q plus the coefficient term of d_order2; cross_ok as in (3)), then for every program and every phase
   state: main state = ev (plain state), the partials for v1, v2 = dv1, dv2 of it and the second-order partial
   under Pair(v1,v2) = dv12 of it ([DiffPoint2.inv12p]).  Covers v1 <> v2 and v1 = v2 alike. *)
Theorem C03_order2_point_exact (S1 S2 : ScalOps) (L1 : ScalLaws S1) (L2 : ScalLaws S2) (ev dv1 dv2 dv12 : S1 -> S2) :
  ev k0 = k0 -> (forall x y, ev (x + y)%K = (ev x + ev y)%K) -> (forall x y, ev (x * y)%K = (ev x * ev y)%K) ->
  (forall x y, dv1 (x + y)%K = (dv1 x + dv1 y)%K) -> (forall x y, dv1 (x * y)%K = (dv1 x * ev y + ev x * dv1 y)%K) ->
  (forall x y, dv2 (x + y)%K = (dv2 x + dv2 y)%K) -> (forall x y, dv2 (x * y)%K = (dv2 x * ev y + ev x * dv2 y)%K) ->
  (forall x y, dv12 (x + y)%K = (dv12 x + dv12 y)%K) ->
  (forall x y, dv12 (x * y)%K = (dv12 x * ev y + dv1 x * dv2 y + dv2 x * dv1 y + ev x * dv12 y)%K) ->
  forall (v1 v2 : var) (prog1 : list (op S1)) (prog2 : list (dinstr S2)) (n : nat) (s1 : sm S1) (ds : dstate S2),
  DiffPoint2.prog_ok12 S1 S2 ev dv1 dv2 dv12 v1 v2 prog1 prog2 ds ->
  DiffPoint2.inv12p S1 S2 ev dv1 dv2 dv12 v1 v2 n s1 ds ->
  DiffPoint2.inv12p S1 S2 ev dv1 dv2 dv12 v1 v2 (DiffPoint.prun_n S1 prog1 n) (run prog1 s1) (drun prog2 ds).
Proof. exact (DiffPoint2.point2_run S1 S2 L1 L2 ev dv1 dv2 dv12). Qed.
Print Assumptions C03_order2_point_exact.

(* Hessian / Jacobian probes after simulate(): both mixed entries for [v1; v2] are dv12 of the plain signal *)
Theorem C03_hessian_point (S1 S2 : ScalOps) (L1 : ScalLaws S1) (L2 : ScalLaws S2) (ev dv1 dv2 dv12 : S1 -> S2) :
  ev k0 = k0 -> (forall x y, ev (x + y)%K = (ev x + ev y)%K) -> (forall x y, ev (x * y)%K = (ev x * ev y)%K) ->
  (forall x y, dv1 (x + y)%K = (dv1 x + dv1 y)%K) -> (forall x y, dv1 (x * y)%K = (dv1 x * ev y + ev x * dv1 y)%K) ->
  (forall x y, dv2 (x + y)%K = (dv2 x + dv2 y)%K) -> (forall x y, dv2 (x * y)%K = (dv2 x * ev y + ev x * dv2 y)%K) ->
  (forall x y, dv12 (x + y)%K = (dv12 x + dv12 y)%K) ->
  (forall x y, dv12 (x * y)%K = (dv12 x * ev y + dv1 x * dv2 y + dv2 x * dv1 y + ev x * dv12 y)%K) ->
  forall (v1 v2 : var) (prog1 : list (op S1)) (prog2 : list (dinstr S2)) (pd : S1),
  dv1 pd = k0 -> dv2 pd = k0 -> dv12 pd = k0 ->
  DiffPoint2.prog_ok12 S1 S2 ev dv1 dv2 dv12 v1 v2 prog1 prog2 (dinit (init (ev pd))) ->
  nth 1 (nth 0 (hessian (drun prog2 (dinit (init (ev pd)))) [v1; v2]) []) k0 = dv12 (f0 S1 (run prog1 (init pd))) /\
  nth 0 (nth 1 (hessian (drun prog2 (dinit (init (ev pd)))) [v1; v2]) []) k0 = dv12 (f0 S1 (run prog1 (init pd))) /\
  jacobian (drun prog2 (dinit (init (ev pd)))) [v1; v2] =
    [dv1 (f0 S1 (run prog1 (init pd))); dv2 (f0 S1 (run prog1 (init pd)))] /\
  f0 S2 (d_main (drun prog2 (dinit (init (ev pd))))) = ev (f0 S1 (run prog1 (init pd))).
Proof. exact (DiffPoint2.hessian_point S1 S2 L1 L2 ev dv1 dv2 dv12). Qed.
Theorem C03_hessian_point_diag (S1 S2 : ScalOps) (L1 : ScalLaws S1) (L2 : ScalLaws S2) (ev dv1 dv2 dv12 : S1 -> S2) :
  ev k0 = k0 -> (forall x y, ev (x + y)%K = (ev x + ev y)%K) -> (forall x y, ev (x * y)%K = (ev x * ev y)%K) ->
  (forall x y, dv1 (x + y)%K = (dv1 x + dv1 y)%K) -> (forall x y, dv1 (x * y)%K = (dv1 x * ev y + ev x * dv1 y)%K) ->
  (forall x y, dv2 (x + y)%K = (dv2 x + dv2 y)%K) -> (forall x y, dv2 (x * y)%K = (dv2 x * ev y + ev x * dv2 y)%K) ->
  (forall x y, dv12 (x + y)%K = (dv12 x + dv12 y)%K) ->
  (forall x y, dv12 (x * y)%K = (dv12 x * ev y + dv1 x * dv2 y + dv2 x * dv1 y + ev x * dv12 y)%K) ->
  forall (v : var) (prog1 : list (op S1)) (prog2 : list (dinstr S2)) (pd : S1),
  dv1 pd = k0 -> dv2 pd = k0 -> dv12 pd = k0 ->
  DiffPoint2.prog_ok12 S1 S2 ev dv1 dv2 dv12 v v prog1 prog2 (dinit (init (ev pd))) ->
  hessian (drun prog2 (dinit (init (ev pd)))) [v] = [[dv12 (f0 S1 (run prog1 (init pd)))]] /\
  jacobian (drun prog2 (dinit (init (ev pd)))) [v] = [dv1 (f0 S1 (run prog1 (init pd)))] /\
  f0 S2 (d_main (drun prog2 (dinit (init (ev pd))))) = ev (f0 S1 (run prog1 (init pd))).
Proof. exact (DiffPoint2.hessian_point_diag S1 S2 L1 L2 ev dv1 dv2 dv12). Qed.
Print Assumptions C03_hessian_point.
Print Assumptions C03_hessian_point_diag.

(* non-vacuity of (4) on an EXECUTED instance: K = double dual numbers over the Gaussian rationals, L = the
   Gaussian rationals, the four coefficient maps; a five-instruction program (mixing, ScalarOp with recovery
   declared with two variables on two parameters and the mixed table, shift, mixing, ScalarOp) meets pair_ok12;
   the mixed Hessian entry computed by the bookkeeping is NON-ZERO and is the e1e2 coefficient of the plain run *)
Example C03_order2_point_nonvacuous :
  exists (S1 S2 : ScalOps) (ev dv1 dv2 dv12 : S1 -> S2) (prog1 : list (op S1)) (prog2 : list (dinstr S2)) (pd : S1)
         (v1 v2 : var),
    ScalLaws S1 /\ ScalLaws S2 /\
    ev k0 = k0 /\ (forall x y, ev (x + y)%K = (ev x + ev y)%K) /\ (forall x y, ev (x * y)%K = (ev x * ev y)%K) /\
    (forall x y, dv1 (x + y)%K = (dv1 x + dv1 y)%K) /\ (forall x y, dv1 (x * y)%K = (dv1 x * ev y + ev x * dv1 y)%K) /\
    (forall x y, dv2 (x + y)%K = (dv2 x + dv2 y)%K) /\ (forall x y, dv2 (x * y)%K = (dv2 x * ev y + ev x * dv2 y)%K) /\
    (forall x y, dv12 (x + y)%K = (dv12 x + dv12 y)%K) /\
    (forall x y, dv12 (x * y)%K = (dv12 x * ev y + dv1 x * dv2 y + dv2 x * dv1 y + ev x * dv12 y)%K) /\
    dv1 pd = k0 /\ dv2 pd = k0 /\ dv12 pd = k0 /\
    Forall2 (DiffPoint2.pair_ok12 S1 S2 ev dv1 dv2 dv12 v1 v2 false) prog1 prog2 /\
    nth 1 (nth 0 (hessian (drun prog2 (dinit (init (ev pd)))) [v1; v2]) []) k0 <> k0 /\
    nth 1 (nth 0 (hessian (drun prog2 (dinit (init (ev pd)))) [v1; v2]) []) k0 = dv12 (f0 S1 (run prog1 (init pd))).
Proof. exact DiffPoint2Nonvac.nvp_witness. Qed.
Print Assumptions C03_order2_point_nonvacuous.

(* ... and with operators applied through Operator.__call__ between the differentiated ones (they act on the first-
   and second-order partials too): mixing, operator, RESET, PD(2, reset=True), mixing, operator, shift, SPOILER,
   PD(1/2, reset=False), Wait, mixing, operator -- the program meets pair_ok12, the executed mixed Hessian entry is
   non-zero and is the e1e2 coefficient of the plain run over the double duals *)
Example C03_order2_point_plain_nonvacuous :
  Forall2 (DiffPoint2.pair_ok12 DiffPoint2Nonvac.D2p QIops (DiffPoint2Nonvac.q00 QIops) (DiffPoint2Nonvac.q10 QIops)
             (DiffPoint2Nonvac.q01 QIops) (DiffPoint2Nonvac.q11 QIops) 0%nat 1%nat false)
          DiffPoint2Nonvac.nvq_prog1 DiffPoint2Nonvac.nvq_prog2 /\
  In (DPlain (@OSpoil QIops)) DiffPoint2Nonvac.nvq_prog2 /\ In (DPlain (@OReset QIops)) DiffPoint2Nonvac.nvq_prog2 /\
  In (DPlain (@OWait QIops)) DiffPoint2Nonvac.nvq_prog2 /\
  In (DPlain (@OPD QIops (qr 2 1) true)) DiffPoint2Nonvac.nvq_prog2 /\
  In (DPlain (@OPD QIops (qr 1 2) false)) DiffPoint2Nonvac.nvq_prog2 /\
  nth 1 (nth 0 (hessian (drun DiffPoint2Nonvac.nvq_prog2
                           (dinit (@init QIops (DiffPoint2Nonvac.q00 QIops DiffPoint2Nonvac.nvp_pd)))) [0%nat; 1%nat]) [])
      (@k0 QIops) <> @k0 QIops /\
  nth 1 (nth 0 (hessian (drun DiffPoint2Nonvac.nvq_prog2
                           (dinit (@init QIops (DiffPoint2Nonvac.q00 QIops DiffPoint2Nonvac.nvp_pd)))) [0%nat; 1%nat]) [])
      (@k0 QIops)
    = DiffPoint2Nonvac.q11 QIops (f0 DiffPoint2Nonvac.D2p (run DiffPoint2Nonvac.nvq_prog1
                                                             (@init DiffPoint2Nonvac.D2p DiffPoint2Nonvac.nvp_pd))).
Proof. exact DiffPoint2Nonvac.nvq_witness. Qed.
Print Assumptions C03_order2_point_plain_nonvacuous.

(* (5) COMPOSITION, analysis part.  K = double dual numbers over C ([Jet2.DDC]: a + ax e1 + ay e2 + axy e1e2,
   ev = a, dv1 = ax, dv2 = ay, dv12 = axy).  Forward-mode soundness of the PLAIN run: for a family of programs
   (x, y) |-> prog whose arrays have the jets given by the program over K ([Jet2.is_jet] with [Jet2.jet2]:
   value, d/dx at x0, d/dy at y0 for x near x0, and d/dx of the latter at x0 -- Coquelicot is_derive on real and
   imaginary part), the signal of the run over K is the jet of the family's signal; resp. [Jet2.jet1] for a
   one-variable family (f' near x0, f'' at x0, stored as a, f', f', f'').  The families ([Jet2.fop]) contain ScalarOp /
   MatrixOp with array families, shifts, and the constant operators SPOILER, RESET, PD(pd, reset), Wait. *)
Theorem C03_signal_jet_mixed (x0 y0 : R) (fprog : list (Jet2.fop (R * R))) (jprog : list (op Jet2.DDC)) (pd : C) :
  Forall2 (Jet2.is_jet (R * R) Jet2.DDC (Jet2.jet2 x0 y0) Jet2.inj4) fprog jprog ->
  Jet2.jet2 x0 y0 (fun i => f0 Cops (Jet2.frun (R * R) fprog i (@init Cops pd)))
            (f0 Jet2.DDC (run jprog (@init Jet2.DDC (Jet2.inj4 pd)))).
Proof. exact (Jet2.signal_jet2 x0 y0 fprog jprog pd). Qed.
Theorem C03_signal_jet_diag (x0 : R) (fprog : list (Jet2.fop R)) (jprog : list (op Jet2.DDC)) (pd : C) :
  Forall2 (Jet2.is_jet R Jet2.DDC (Jet2.jet1 x0) Jet2.inj4) fprog jprog ->
  Jet2.jet1 x0 (fun i => f0 Cops (Jet2.frun R fprog i (@init Cops pd)))
            (f0 Jet2.DDC (run jprog (@init Jet2.DDC (Jet2.inj4 pd)))).
Proof. exact (Jet2.signal_jet1 x0 fprog jprog pd). Qed.
Print Assumptions C03_signal_jet_mixed.
Print Assumptions C03_signal_jet_diag.

(* composed with (4): the Hessian entry returned by the bookkeeping over C IS the second (mixed) derivative of
   the simulated signal; the Jacobian entries are the first derivatives; the simulated signal is the family's *)
Theorem C03_hessian_is_mixed_derivative (x0 y0 : R) (v1 v2 : var) (fprog : list (Jet2.fop (R * R)))
  (jprog : list (op Jet2.DDC)) (prog2 : list (dinstr Cops)) (pd : C) :
  Forall2 (Jet2.is_jet (R * R) Jet2.DDC (Jet2.jet2 x0 y0) Jet2.inj4) fprog jprog ->
  DiffPoint2.prog_ok12 Jet2.DDC Cops Jet2.e00 Jet2.e10 Jet2.e01 Jet2.e11 v1 v2 jprog prog2 (dinit (@init Cops pd)) ->
  let ds := drun prog2 (dinit (@init Cops pd)) in
  let sig := fun x y => f0 Cops (Jet2.frun (R * R) fprog (x, y) (@init Cops pd)) in
  exists h j1 j2 : C,
    nth 1 (nth 0 (hessian ds [v1; v2]) []) k0 = h /\
    nth 0 (nth 1 (hessian ds [v1; v2]) []) k0 = h /\
    jacobian ds [v1; v2] = [j1; j2] /\
    derC (fun x => sig x y0) x0 j1 /\
    (exists sy : R -> C, locally x0 (fun x => derC (fun y => sig x y) y0 (sy x)) /\ sy x0 = j2 /\ derC sy x0 h) /\
    f0 Cops (d_main ds) = sig x0 y0.
Proof. exact (Jet2.hessian_is_mixed_derivative x0 y0 v1 v2 fprog jprog prog2 pd). Qed.
Theorem C03_hessian_is_second_derivative (x0 : R) (v : var) (fprog : list (Jet2.fop R))
  (jprog : list (op Jet2.DDC)) (prog2 : list (dinstr Cops)) (pd : C) :
  Forall2 (Jet2.is_jet R Jet2.DDC (Jet2.jet1 x0) Jet2.inj4) fprog jprog ->
  DiffPoint2.prog_ok12 Jet2.DDC Cops Jet2.e00 Jet2.e10 Jet2.e01 Jet2.e11 v v jprog prog2 (dinit (@init Cops pd)) ->
  let ds := drun prog2 (dinit (@init Cops pd)) in
  let sig := fun x => f0 Cops (Jet2.frun R fprog x (@init Cops pd)) in
  exists h j : C,
    hessian ds [v] = [[h]] /\ jacobian ds [v] = [j] /\
    (exists sig' : R -> C, locally x0 (fun x => derC sig x (sig' x)) /\ sig' x0 = j /\ derC sig' x0 h) /\
    f0 Cops (d_main ds) = sig x0.
Proof. exact (Jet2.hessian_is_second_derivative x0 v fprog jprog prog2 pd). Qed.
Print Assumptions C03_hessian_is_mixed_derivative.
Print Assumptions C03_hessian_is_second_derivative.

(* (6) END TO END for the real operators, declared as Sequence.build declares them for affine parameters and ONE
   requested pair: order1 = {var: {param: c}}, order2 = {Pair(u,w): {}} (auto_cross_derivatives = False) on every
   operator carrying u or w, nothing on the others; d_d2arrs / d_params2 list exactly the pairs that
   parameters_order2 reaches ([Shapes2.dopD], [dopV], [dopXY], [dop0]).
   Diagonal entry: one variable driving one parameter per operator affinely. *)
Theorem C03_real_sequence_hessian_diag (x0 : R) (v : var) (items : list RealSeq2.ritem1) (pd : C) :
  List.Forall (RealSeq2.item1_ok x0) items ->
  let ds := drun (map (RealSeq2.dop1_of x0 v) items) (dinit (@init Cops pd)) in
  let sig := fun x => f0 Cops (run (map (RealSeq2.real1_of x) items) (@init Cops pd)) in
  exists h j : C,
    hessian ds [v] = [[h]] /\ jacobian ds [v] = [j] /\
    (exists sig' : R -> C, locally x0 (fun x => derC sig x (sig' x)) /\ sig' x0 = j /\ derC sig' x0 h) /\
    f0 Cops (d_main ds) = sig x0.
Proof. exact (RealSeq2.real_sequence_hessian_diag x0 v items pd). Qed.
(* T in alpha or phi, Phi, E in tau, T1, T2 or g, P in tau or g, R in Re rT, rL or r0 (translated arrays and
   derivative tables), constants, shifts, and SPOILER, RESET, PD(pd, reset), Wait ([RealSeq2.R1Spoil], [R1Reset],
   [R1PD], [R1Wait]: handed to the bookkeeping as DPlain); in Coquelicot's vocabulary: is_derive_n ... 2 *)
Theorem C03_real_operators_hessian_diag (x0 : R) (v : var) (items : list RealSeq2.ritem1) (pd : C) :
  List.Forall (RealOps2.real_item1 x0) items ->
  let ds := drun (map (RealSeq2.dop1_of x0 v) items) (dinit (@init Cops pd)) in
  let sig := fun x => f0 Cops (run (map (RealSeq2.real1_of x) items) (@init Cops pd)) in
  exists h j : C,
    hessian ds [v] = [[h]] /\ jacobian ds [v] = [j] /\
    (exists sig' : R -> C, locally x0 (fun x => derC sig x (sig' x)) /\ sig' x0 = j /\ derC sig' x0 h) /\
    f0 Cops (d_main ds) = sig x0.
Proof. exact (RealOps2.real_operators_hessian_diag x0 v items pd). Qed.
Theorem C03_real_operators_hessian_diag_n (x0 : R) (v : var) (items : list RealSeq2.ritem1) (pd : C) :
  List.Forall (RealOps2.real_item1 x0) items ->
  let ds := drun (map (RealSeq2.dop1_of x0 v) items) (dinit (@init Cops pd)) in
  let sig := fun x => f0 Cops (run (map (RealSeq2.real1_of x) items) (@init Cops pd)) in
  exists h : C, hessian ds [v] = [[h]] /\
    is_derive_n (fun x => fst (sig x)) 2 x0 (fst h) /\ is_derive_n (fun x => snd (sig x)) 2 x0 (snd h).
Proof. exact (RealOps2.real_operators_hessian_diag_n x0 v items pd). Qed.
Print Assumptions C03_real_sequence_hessian_diag.
Print Assumptions C03_real_operators_hessian_diag.
Print Assumptions C03_real_operators_hessian_diag_n.

(* Mixed entry: two variables u <> w; every operator is constant, or has one parameter driven by x (u), or one
   driven by y (w), or one parameter driven by x AND another one driven by y (same operator, mixed tables) *)
Theorem C03_real_sequence_hessian_mixed (x0 y0 : R) (u w : var) (items : list RealSeq2.ritem2) (pd : C) :
  u <> w -> List.Forall (RealSeq2.item2_ok x0 y0) items ->
  let ds := drun (map (RealSeq2.dop2_of x0 y0 u w) items) (dinit (@init Cops pd)) in
  let sig := fun x y => f0 Cops (run (map (RealSeq2.real2_of x y) items) (@init Cops pd)) in
  exists h j1 j2 : C,
    nth 1 (nth 0 (hessian ds [u; w]) []) k0 = h /\
    nth 0 (nth 1 (hessian ds [u; w]) []) k0 = h /\
    jacobian ds [u; w] = [j1; j2] /\
    derC (fun x => sig x y0) x0 j1 /\
    (exists sy : R -> C, locally x0 (fun x => derC (fun y => sig x y) y0 (sy x)) /\ sy x0 = j2 /\ derC sy x0 h) /\
    f0 Cops (d_main ds) = sig x0 y0.
Proof. exact (RealSeq2.real_sequence_hessian_mixed x0 y0 u w items pd). Qed.
(* any operators of the first-order theorem (SPOILER, RESET, PD(pd, reset), Wait included) driven by u resp. w,
   and T (alpha, phi), E (T2, tau), (T1, tau),
   (g, tau), (T2, g), P (g, tau) with the two variables on two parameters of the same operator *)
Theorem C03_real_operators_hessian_mixed (x0 y0 : R) (u w : var) (items : list RealSeq2.ritem2) (pd : C) :
  u <> w -> List.Forall (RealOps2.real_item2 x0 y0) items ->
  let ds := drun (map (RealSeq2.dop2_of x0 y0 u w) items) (dinit (@init Cops pd)) in
  let sig := fun x y => f0 Cops (run (map (RealSeq2.real2_of x y) items) (@init Cops pd)) in
  exists h j1 j2 : C,
    nth 1 (nth 0 (hessian ds [u; w]) []) k0 = h /\
    nth 0 (nth 1 (hessian ds [u; w]) []) k0 = h /\
    jacobian ds [u; w] = [j1; j2] /\
    derC (fun x => sig x y0) x0 j1 /\
    (exists sy : R -> C, locally x0 (fun x => derC (fun y => sig x y) y0 (sy x)) /\ sy x0 = j2 /\ derC sy x0 h) /\
    f0 Cops (d_main ds) = sig x0 y0.
Proof. exact (RealOps2.real_operators_hessian_mixed x0 y0 u w items pd). Qed.
Theorem C03_real_operators_hessian_mixed_Derive (x0 y0 : R) (u w : var) (items : list RealSeq2.ritem2) (pd : C) :
  u <> w -> List.Forall (RealOps2.real_item2 x0 y0) items ->
  let ds := drun (map (RealSeq2.dop2_of x0 y0 u w) items) (dinit (@init Cops pd)) in
  let sig := fun x y => f0 Cops (run (map (RealSeq2.real2_of x y) items) (@init Cops pd)) in
  exists h : C,
    nth 1 (nth 0 (hessian ds [u; w]) []) k0 = h /\ nth 0 (nth 1 (hessian ds [u; w]) []) k0 = h /\
    is_derive (fun x => Derive (fun y => fst (sig x y)) y0) x0 (fst h) /\
    is_derive (fun x => Derive (fun y => snd (sig x y)) y0) x0 (snd h).
Proof. exact (RealOps2.real_operators_hessian_mixed_Derive x0 y0 u w items pd). Qed.
Print Assumptions C03_real_sequence_hessian_mixed.
Print Assumptions C03_real_operators_hessian_mixed.
Print Assumptions C03_real_operators_hessian_mixed_Derive.

(* non-vacuity of (6): the side conditions hold for concrete sequences -- six operators each: T, E, shift, T, E, P
   with one variable on alpha, T2, phi, tau, g (x0 = 20); resp. two variables on (alpha, phi) of one T, (T2, tau)
   of one E, (tau, g) of one P and on single parameters of further operators (x0 = 20, y0 = 3) *)
Example C03_real_items_nonvacuous :
  List.Forall (RealOps2.real_item1 20) RealOps2.nv_items1 /\ List.Forall (RealOps2.real_item2 20 3) RealOps2.nv_items2.
Proof. exact (conj RealOps2.nv_items1_ok RealOps2.nv_items2_ok). Qed.
Print Assumptions C03_real_items_nonvacuous.

(* ... and for sequences in which SPOILER, PD(reset=True), PD(reset=False), RESET and Wait stand between the
   differentiated operators (sixteen operators each) *)
Example C03_real_items_plain_nonvacuous :
  List.Forall (RealOps2.real_item1 20) RealOps2.nv_items1_plain /\
  List.Forall (RealOps2.real_item2 20 3) RealOps2.nv_items2_plain /\
  In RealSeq2.R1Spoil RealOps2.nv_items1_plain /\ In RealSeq2.R1Reset RealOps2.nv_items1_plain /\
  In RealSeq2.R1Wait RealOps2.nv_items1_plain /\
  In (RealSeq2.R1PD (RtoC 2) true) RealOps2.nv_items1_plain /\ In (RealSeq2.R1PD (RtoC (1/2)) false) RealOps2.nv_items1_plain /\
  In (RealSeq2.IX RealSeq.RSpoil) RealOps2.nv_items2_plain /\ In (RealSeq2.IX RealSeq.RReset) RealOps2.nv_items2_plain /\
  In (RealSeq2.IY RealSeq.RWait) RealOps2.nv_items2_plain /\
  In (RealSeq2.IY (RealSeq.RPD (RtoC 2) true)) RealOps2.nv_items2_plain /\
  In (RealSeq2.IX (RealSeq.RPD (RtoC (1/2)) false)) RealOps2.nv_items2_plain.
Proof. exact RealOps2.nv_items_plain_ok. Qed.
Print Assumptions C03_real_items_plain_nonvacuous.
