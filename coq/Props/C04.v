(* C04 — n-D and gridded shifts reproduce Bloch magnetization at any position.
   Only statements, each closed by [exact], followed by Print Assumptions.
   (Also the n-D clauses of C13 that concern the same functions: C13nd_*.) *)
From Coq Require Import List ZArith QArith.
From EPG Require Import Scalar QI State Ops Synth ShiftND ShiftNDProofs.
Import ListNotations.

(* (1) unique_1d as the code computes it (stable lexsort, mask, cumsum, scattered inverse): the inverse map
   is correct, the unique rows are strictly sorted, duplicate-free and all come from the input *)
Theorem C04_unique_inverse_spec (vals u : list key) (inv : list nat) :
  unique_keys vals = (u, inv) ->
  length inv = length vals /\
  (forall i, (i < length vals)%nat ->
     (nth i inv 0 < length u)%nat /\ nth (nth i inv 0%nat) u [] = nth i vals []) /\
  key_ssorted u /\ NoDup u /\ (forall x, In x u -> In x vals).
Proof. exact (unique_keys_spec vals u inv). Qed.
Print Assumptions C04_unique_inverse_spec.

(* (2) order-independent algebraic core, any wavenumber type G and any character chi *)
Theorem C04_reloc_synth (S : ScalOps) (L : ScalLaws S) (G : Type) (geqb : G -> G -> bool)
  (geqb_eq : forall a b, geqb a b = true -> a = b) (gadd : G -> G -> G) (chi : G -> S)
  (chi_add : forall a b, chi (gadd a b) = kmul (chi a) (chi b)) (dk : G) (l : list (G * S)) :
  synthL S G chi (accum S G geqb (map (fun r => (gadd (fst r) dk, snd r)) l)) = kmul (chi dk) (synthL S G chi l).
Proof. exact (reloc_synth S L G geqb geqb_eq gadd chi chi_add dk l). Qed.
Print Assumptions C04_reloc_synth.

(* (3) THE CODE-SHAPED shiftnd (sort / unique / inverse map / scatter, no crop, no pruning), any dimension:
   the synthesis at the position with dephasing factors zs is multiplied by chi(dk) for F+, unchanged for Z *)
Theorem C04_shiftnd_synth (S : ScalOps) (L : ScalLaws S) (zs : list (S * S))
  (rows : list (key * triple S)) (dk : key) :
  List.Forall (fun p => kmul (fst p) (snd p) = k1) zs ->
  (forall k, In k (map fst rows) -> length k = length dk) ->
  NoDup (map fst rows) ->
  synthP (chiZ S zs) (shiftnd1 rows dk) = kmul (chiZ S zs dk) (synthP (chiZ S zs) rows) /\
  synthZ (chiZ S zs) (shiftnd1 rows dk) = synthZ (chiZ S zs) rows.
Proof. exact (shiftnd_synth S L zs rows dk). Qed.
Print Assumptions C04_shiftnd_synth.

(* (3') the same for an arbitrary character on the keys present *)
Theorem C04_shiftnd_synth_char (S : ScalOps) (L : ScalLaws S) (rows : list (key * triple S)) (dk : key)
  (u : list key) (inv : list nat) (chi : key -> S) :
  unique_keys (map fst rows ++ map (fun k => vadd k dk) (map fst rows) ++ map (fun k => vsub k dk) (map fst rows)) = (u, inv) ->
  NoDup (map (fun k => vadd k dk) (map fst rows)) ->
  (forall k, In k (map fst rows) -> chi (vadd k dk) = kmul (chi k) (chi dk)) ->
  synthP chi (shiftnd1 rows dk) = kmul (chi dk) (synthP chi rows).
Proof. exact (fun H => shiftnd1_synthP S L rows dk u inv H chi). Qed.
Print Assumptions C04_shiftnd_synth_char.

(* (4) F- rebuilt as the mirror conjugate of F+ (array-level well-formedness of the F columns) *)
Theorem C04_mirror_wf_partial (S : ScalOps) (rows : list (key * triple S)) (dk : key) (j : nat) :
  let out := shiftnd1 rows dk in
  (j < length out)%nat ->
  fm (snd (nth j out ([], t0))) = kconj (fp (snd (nth (length out - 1 - j) out ([], t0)))).
Proof. exact (mirror_wf_F S rows dk j). Qed.
Print Assumptions C04_mirror_wf_partial.

(* (5) shiftmerge / shiftprune accumulation: amplitudes falling in one cell are added exactly *)
Theorem C04_merge_adds_exact (S : ScalOps) (L : ScalLaws S) (pre : Q -> Q) (rnd : Q -> Z)
  (wav : list qvec) (dk grid : qvec) (amps : list (triple S)) :
  length amps = length wav ->
  ksum (map (@fp S) (merge_amps (merge_plan pre rnd wav dk grid) amps)) = ksum (map (@fp S) amps) /\
  ksum (map (@fz S) (merge_amps (merge_plan pre rnd wav dk grid) amps)) = ksum (map (@fz S) amps).
Proof. exact (merge_adds_exact S L pre rnd wav dk grid amps). Qed.
Print Assumptions C04_merge_adds_exact.

(* (6) gridded shift, PARTIAL: hypothesis on the computed cell wavenumbers instead of injectivity of the grid *)
Theorem C04_shiftmerge_synth_partial (S : ScalOps) (L : ScalLaws S) (pre : Q -> Q) (rnd : Q -> Z)
  (wav : list qvec) (dk grid : qvec) (chi : qvec -> S) (kout : nat -> qvec) (amps : list (triple S)) :
  let p := merge_plan pre rnd wav dk grid in
  length amps = length wav ->
  (forall k, In k (mkL p) -> chi (qvadd k dk) = kmul (chi k) (chi dk)) ->
  (forall i, (i < length wav)%nat -> fp (nth i amps t0) = k0 \/
        chi (kout (nth i (m1T p) 0%nat)) = chi (qvadd (nth i (mkL p) []) dk)) ->
  length (mkL p) = length wav ->
  ksum (map (fun j => kmul (chi (kout j)) (fp (nth j (merge_amps p amps) t0))) (seq 0 (length (mq p)))) =
  kmul (chi dk) (ksum (map (fun i => kmul (chi (nth i (mkL p) [])) (fp (nth i amps t0))) (seq 0 (length wav)))).
Proof. exact (shiftmerge_synth_partial S L pre rnd wav dk grid chi kout amps). Qed.
Print Assumptions C04_shiftmerge_synth_partial.

(* (7) back-ends: 1-D integer model vs n-D model (1 and 3 columns), evaluated family *)
Theorem C04_backends_agree_family :
  forallb (ag_check 0) ag_family = true /\ forallb (ag_check 2) ag_family = true.
Proof. exact backends_agree_family. Qed.
Print Assumptions C04_backends_agree_family.

Theorem C04_backend_switch (n kdim j : nat) : (j < 2 * n + 1)%nat ->
  nth j (setup_coords n kdim) [] = (Z.of_nat j - Z.of_nat n)%Z :: repeat 0%Z (kdim - 1).
Proof. exact (backend_switch n kdim j). Qed.
Print Assumptions C04_backend_switch.

(* (8) G and C *)
Theorem C04_G_is_S_of_wavenumber (twopi tau : Q) (grad : qvec) :
  G_shift twopi tau grad = map (fun g => (twopi * (42576 # 1) * tau * (1 # 1000) * g)%Q) grad.
Proof. exact (G_is_S_of_wavenumber twopi tau grad). Qed.
Print Assumptions C04_G_is_S_of_wavenumber.

Theorem C04_C_puts_time_on_axis_4 (tau : Q) :
  firstn 3 (C_shift tau) = [0%Q; 0%Q; 0%Q] /\ nth 3 (C_shift tau) 0%Q = tau.
Proof. exact (C_puts_time_on_axis_4 tau). Qed.
Print Assumptions C04_C_puts_time_on_axis_4.

(* non-vacuity: a 2-D shift of a 3-row state over the Gaussian rationals *)
Example C04_nonvacuous :
  map fst (shiftnd1 [([-1; 0]%Z, @mk3 QIops (qi 1 2 0 1) (qi 0 1 0 1) (qi 0 1 1 2));
                     ([0; 0]%Z, @mk3 QIops (qi 0 1 0 1) (qi 0 1 0 1) (qi 1 1 0 1));
                     ([1; 0]%Z, @mk3 QIops (qi 0 1 0 1) (qi 1 2 0 1) (qi 0 1 (-1) 2))] [1; 1]%Z)
  = [[-2; -1]; [-1; -1]; [-1; 0]; [0; -1]; [0; 0]; [0; 1]; [1; 0]; [1; 1]; [2; 1]]%Z.
Proof. vm_compute. reflexivity. Qed.
