(* C05 — Diffusion attenuates each coherence pathway by exp(-int k(t)^T D k(t) dt).
   Only statements, each closed by [exact], followed by Print Assumptions.
   bmat / bmat_const / att_tensorN / att_isoN are GENERATED from epgpy/diffusion.py (Gen/Diffusion.v). *)
From Coq Require Import Reals ZArith QArith Qreals List Bool.
From Coquelicot Require Import Coquelicot.
From EPG Require Import Scalar QI State Ops Views WfProof CInst DiffusionProofs.
From EPG.Gen Require Import Diffusion.
From EPG.Model Require Import Diffusion.
Import ListNotations.

(* (1) every b-matrix entry is the time integral of k_i(t) k_j(t) over the linear ramp k1 -> k2; caller's units
   (tau in ms, k in rad/m); the generated entry carries unit_factor = (1/1000) * ((1/1000) * (1/1000)) *)
Theorem C05_bmatrix_is_integral (tau k1i k1j k2i k2j : R) : tau <> 0%R ->
  is_RInt (fun t => (kramp tau k1i k2i t * kramp tau k1j k2j t)%R) 0 tau
          (bmat tau k1i k1j k2i k2j / unit_factor)%R.
Proof. exact (bmatrix_is_integral tau k1i k1j k2i k2j). Qed.
Print Assumptions C05_bmatrix_is_integral.

(* (1') the same in the b-matrix's own units: t in s over [0, tau/1000], k in rad/mm; no factor left *)
Theorem C05_bmatrix_is_integral_si (tau k1i k1j k2i k2j : R) : tau <> 0%R ->
  is_RInt (fun t => (kramp (tau * ms_to_s) (k1i * radm_to_radmm) (k2i * radm_to_radmm) t *
                     kramp (tau * ms_to_s) (k1j * radm_to_radmm) (k2j * radm_to_radmm) t)%R)
          0 (tau * ms_to_s)%R (bmat tau k1i k1j k2i k2j).
Proof. exact (bmatrix_is_integral_si tau k1i k1j k2i k2j). Qed.
Print Assumptions C05_bmatrix_is_integral_si.

Theorem C05_unit_factor : unit_factor = (1 / 1000 * (1 / 1000 * (1 / 1000)))%R /\ ms_to_s = (1 / 1000)%R /\ radm_to_radmm = (1 / 1000)%R.
Proof. exact (conj eq_refl (conj eq_refl eq_refl)). Qed.
Print Assumptions C05_unit_factor.

(* (2) k2 = None, the allclose(k2 - k1, 0) branch, and the ramp formula at k2 = k1 coincide: k1_i k1_j tau *)
Theorem C05_bmatrix_const (tau k1i k1j : R) :
  bmat tau k1i k1j k1i k1j = bmat_const tau k1i k1j /\
  bmat_const tau k1i k1j = (unit_factor * (k1i * k1j * tau))%R /\
  is_RInt (fun _ => (k1i * k1j)%R) 0 tau (bmat_const tau k1i k1j / unit_factor)%R.
Proof. exact (bmatrix_const tau k1i k1j). Qed.
Print Assumptions C05_bmatrix_const.

(* (3) b(-k1, -k2) = b(k1, k2): F-(k) = conj F+(-k) may be rebuilt from the attenuated F+ *)
Theorem C05_bmatrix_even (tau k1i k1j k2i k2j : R) :
  bmat tau (- k1i) (- k1j) (- k2i) (- k2j) = bmat tau k1i k1j k2i k2j /\
  bmat_const tau (- k1i) (- k1j) = bmat_const tau k1i k1j.
Proof. exact (bmatrix_even tau k1i k1j k2i k2j). Qed.
Print Assumptions C05_bmatrix_even.

Theorem C05_bmatrix_symmetric (tau k1i k1j k2i k2j : R) :
  bmat tau k1i k1j k2i k2j = bmat tau k1j k1i k2j k2i.
Proof. exact (bmatrix_symmetric tau k1i k1j k2i k2j). Qed.
Print Assumptions C05_bmatrix_symmetric.

(* (4) a scalar diffusivity behaves exactly as the isotropic tensor D*I (dimensions 1, 2, 3) *)
Theorem C05_iso_equals_tensor (D : R) :
  (forall b00, att_iso1 b00 D = att_tensor1 b00 D) /\
  (forall b00 b01 b10 b11, att_iso2 b00 b01 b10 b11 D = att_tensor2 b00 b01 b10 b11 D 0 0 D) /\
  (forall b00 b01 b02 b10 b11 b12 b20 b21 b22,
     att_iso3 b00 b01 b02 b10 b11 b12 b20 b21 b22 D =
     att_tensor3 b00 b01 b02 b10 b11 b12 b20 b21 b22 D 0 0 0 D 0 0 0 D).
Proof. exact (iso_equals_tensor D). Qed.
Print Assumptions C05_iso_equals_tensor.

(* (5) the zero-wavenumber state is never attenuated in a gradient-free interval *)
Theorem C05_k0_unattenuated (tau : R) :
  bmat_const tau 0 0 = 0%R /\ bmat tau 0 0 0 0 = 0%R /\
  (forall D, att_iso1 (bmat_const tau 0 0) D = 1%R) /\
  (forall D00, att_tensor1 (bmat_const tau 0 0) D00 = 1%R) /\
  (forall D, att_iso3 (bmat_const tau 0 0) (bmat_const tau 0 0) (bmat_const tau 0 0) (bmat_const tau 0 0) (bmat_const tau 0 0)
                      (bmat_const tau 0 0) (bmat_const tau 0 0) (bmat_const tau 0 0) (bmat_const tau 0 0) D = 1%R) /\
  (forall D00 D01 D02 D10 D11 D12 D20 D21 D22,
     att_tensor3 (bmat_const tau 0 0) (bmat_const tau 0 0) (bmat_const tau 0 0) (bmat_const tau 0 0) (bmat_const tau 0 0)
                 (bmat_const tau 0 0) (bmat_const tau 0 0) (bmat_const tau 0 0) (bmat_const tau 0 0)
                 D00 D01 D02 D10 D11 D12 D20 D21 D22 = 1%R).
Proof. exact (k0_unattenuated tau). Qed.
Print Assumptions C05_k0_unattenuated.

(* (6) attenuation <= 1: 1-D with D >= 0, and the full 3-D ramp with any positive semi-definite tensor *)
Theorem C05_att_le_1_1d (tau k1 k2 D : R) : (0 <= tau)%R -> (0 <= D)%R ->
  (att_tensor1 (bmat tau k1 k1 k2 k2) D <= 1)%R /\ (att_iso1 (bmat tau k1 k1 k2 k2) D <= 1)%R /\
  (att_tensor1 (bmat_const tau k1 k1) D <= 1)%R.
Proof. exact (att_le_1_1d tau k1 k2 D). Qed.
Print Assumptions C05_att_le_1_1d.

Theorem C05_att_le_1_psd (tau x1 y1 z1 x2 y2 z2 D00 D01 D02 D10 D11 D12 D20 D21 D22 : R) :
  (0 <= tau)%R ->
  (forall x y z, (0 <= qf D00 D01 D02 D10 D11 D12 D20 D21 D22 x y z)%R) ->
  (att_tensor3 (bmat tau x1 x1 x2 x2) (bmat tau x1 y1 x2 y2) (bmat tau x1 z1 x2 z2)
               (bmat tau y1 x1 y2 x2) (bmat tau y1 y1 y2 y2) (bmat tau y1 z1 y2 z2)
               (bmat tau z1 x1 z2 x2) (bmat tau z1 y1 z2 y2) (bmat tau z1 z1 z2 z2)
               D00 D01 D02 D10 D11 D12 D20 D21 D22 <= 1)%R.
Proof. exact (att_le_1_psd tau x1 y1 z1 x2 y2 z2 D00 D01 D02 D10 D11 D12 D20 D21 D22). Qed.
Print Assumptions C05_att_le_1_psd.

(* (7) the rational functions executed by the model are the generated real formulas *)
Theorem C05_bmatQ_correct (tau a b c d : Q) :
  Q2R (bmatQ tau a b c d) = bmat (Q2R tau) (Q2R a) (Q2R b) (Q2R c) (Q2R d) /\
  Q2R (bmat_constQ tau a b) = bmat_const (Q2R tau) (Q2R a) (Q2R b).
Proof. exact (bmatQ_correct tau a b c d). Qed.
Print Assumptions C05_bmatQ_correct.

(* (8) D._apply of the array model, as a function of the phase-state number; it keeps the state well-formed *)
Theorem C05_D_apply_view (S : ScalOps) (L : ScalLaws S) (aT aL : Z -> S) (s : sm S) (n : nat) (k : Z) :
  shaped S s n ->
  get S (d_apply aT aL s) k =
  mk3 (kmul (aT k) (fp (get S s k))) (kconj (kmul (aT (- k)%Z) (fp (get S s (- k)%Z))))
      (kmul (aL k) (fz (get S s k))).
Proof. exact (get_d_apply S L aT aL s n k). Qed.
Print Assumptions C05_D_apply_view.

Theorem C05_D_apply_wf (S : ScalOps) (L : ScalLaws S) (aT aL : Z -> S) (s : sm S) :
  (forall k, aL (- k)%Z = kconj (aL k)) -> wf S s -> wf S (d_apply aT aL s).
Proof. exact (wf_d_apply S L aT aL s). Qed.
Print Assumptions C05_D_apply_wf.

(* (9) one block [RF matrix; shift d; D] is the linear map with entries (RF entry) * (attenuation of the target) *)
Theorem C05_block_step (S : ScalOps) (L : ScalLaws S) (B : block S) (s : sm S) (c : comp) (k : Z) :
  block_ok S B -> wf S s ->
  cget S c (get S (apply_block B s) k) =
  kmul (att S B c k)
       (sumc S (fun c' => kmul (ment S (b_rf B) c c') (cget S c' (get S s (k - delta c (b_d B))%Z)))).
Proof. exact (block_step S L B s c k). Qed.
Print Assumptions C05_block_step.

(* (10) PATHWAY THEOREM: after any number of blocks, every coefficient is the sum over all 3^n component
   histories of (product of RF entries) * (product of attenuations met) * (initial coefficient the pathway starts in) *)
Theorem C05_pathsum (S : ScalOps) (L : ScalLaws S) (bs : list (block S)) (s0 : sm S) (c : comp) (k : Z) :
  List.Forall (block_ok S) bs -> wf S s0 ->
  cget S c (get S (run_blocks bs s0) k) =
  lsum S (fun p => kmul (kmul (amp S (rev bs) p c) (attp S (rev bs) p c k))
                        (cget S (cstart p c) (get S s0 (kstart S (rev bs) p c k))))
       (allpaths (length bs)).
Proof. exact (pathsum S L bs s0 c k). Qed.
Print Assumptions C05_pathsum.

Theorem C05_pathsum_from_equilibrium (S : ScalOps) (L : ScalLaws S) (bs : list (block S)) (pd : S) (c : comp) (k : Z) :
  List.Forall (block_ok S) bs -> kreal S pd ->
  cget S c (get S (run_blocks bs (init pd)) k) =
  lsum S (fun p => if (match cstart p c with Cz => true | _ => false end && (kstart S (rev bs) p c k =? 0)%Z)%bool
                   then kmul (kmul (amp S (rev bs) p c) (attp S (rev bs) p c k)) pd else k0)
       (allpaths (length bs)).
Proof. exact (pathsum_init S L bs pd c k). Qed.
Print Assumptions C05_pathsum_from_equilibrium.

Theorem C05_allpaths_count (n : nat) : length (allpaths n) = (3 ^ n)%nat.
Proof. exact (allpaths_length n). Qed.
Print Assumptions C05_allpaths_count.

(* (11) attenuation is multiplicative along a pathway: product of att_of(b_j) = att_of(sum b_j) *)
Theorem C05_attp_additive (S : ScalOps) (Bv : Type) (bzero : Bv) (bplus : Bv -> Bv -> Bv) (att_of : Bv -> S) :
  att_of bzero = k1 -> (forall x y, att_of (bplus x y) = kmul (att_of x) (att_of y)) ->
  forall (brb : list (block S * (comp -> Z -> Bv))) p c k,
  List.Forall (fun Bb : block S * (comp -> Z -> Bv) => forall c0 k0, att S (fst Bb) c0 k0 = att_of (snd Bb c0 k0)) brb ->
  attp S (map fst brb) p c k = att_of (bacc S Bv bzero bplus brb p c k).
Proof. exact (attp_additive S Bv bzero bplus att_of). Qed.
Print Assumptions C05_attp_additive.

(* (12) K = C, 1-D states with kvalue kv, generated formulas: the blocks [T; S(d); D(tau, D, k=d)] satisfy the
   hypotheses of (10); each attenuation met is exp(-b:D), b:D / unit_factor is the integral of D k(t)^2 over the
   interval (k(t) ramps from kv (k - delta) to kv k; constant for Z), and along a pathway the factors multiply to
   exp(- sum of the interval integrals) *)
Theorem C05_phys_block_ok (m : mat3 Cops) (d : Z) (tau D kv : R) :
  wf_mat Cops m -> block_ok Cops (phys_block m d tau D kv).
Proof. exact (phys_block_ok m d tau D kv). Qed.
Print Assumptions C05_phys_block_ok.

Theorem C05_phys_att (m : mat3 Cops) (d : Z) (tau D kv : R) (c : comp) (k : Z) :
  att Cops (phys_block m d tau D kv) c k = RtoC (exp (- phys_b tau D kv d c k)).
Proof. exact (phys_att m d tau D kv c k). Qed.
Print Assumptions C05_phys_att.

Theorem C05_phys_b_is_integral (tau D kv : R) (d : Z) (c : comp) (k : Z) : tau <> 0%R ->
  is_RInt (fun t => (D * (kramp tau (kv * IZR (k - delta c d)) (kv * IZR k) t *
                          kramp tau (kv * IZR (k - delta c d)) (kv * IZR k) t))%R) 0 tau
          (phys_b tau D kv d c k / unit_factor)%R.
Proof. exact (phys_b_is_integral tau D kv d c k). Qed.
Print Assumptions C05_phys_b_is_integral.

Theorem C05_phys_pathway_attenuation (kv : R) (qs : list (mat3 Cops * Z * R * R)) (p : list comp) (c : comp) (k : Z) :
  attp Cops (map fst (map (pblock kv) qs)) p c k =
  RtoC (exp (- bacc Cops R 0%R Rplus (map (pblock kv) qs) p c k)).
Proof. exact (phys_pathway_attenuation kv qs p c k). Qed.
Print Assumptions C05_phys_pathway_attenuation.

(* non-vacuity on the executed instance: a concrete well-formed block sequence, and the pathway sum evaluated *)
Example C05_nonvacuous :
  let m : mat3 QIops := @mkM QIops (@mk3 QIops (qr 1 2) (qr 1 2) (qi 0 1 (-1) 1))
                                    (@mk3 QIops (qr 1 2) (qr 1 2) (qi 0 1 1 1))
                                    (@mk3 QIops (qi 0 1 (-1) 2) (qi 0 1 1 2) (qr 0 1)) in
  let B : block QIops := mkB m 1%Z (fun k => qr 1 (Pos.of_nat (1 + Z.abs_nat k))) (fun k => qr 1 (Pos.of_nat (2 + Z.abs_nat k))) in
  wf_mat QIops m /\
  keqb (fp (get QIops (run_blocks [B; B] (@init QIops (qr 1 1))) 2%Z))
       (lsum QIops (fun p => kmul (kmul (amp QIops (rev [B; B]) p Cp) (attp QIops (rev [B; B]) p Cp 2%Z))
                                  (cget QIops (cstart p Cp) (get QIops (@init QIops (qr 1 1)) (kstart QIops (rev [B; B]) p Cp 2%Z))))
             (allpaths 2)) = true /\
  keqb (fp (get QIops (run_blocks [B; B] (@init QIops (qr 1 1))) 2%Z)) k0 = false.
Proof. split; [|split]; vm_compute; repeat split; reflexivity. Qed.
