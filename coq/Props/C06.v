(* C06 -- Exchange operator solves the Bloch-McConnell equations between compartments.
   PARTIAL by design: the matrix exponential of epgpy/exchange.py is LAPACK code (eig/eigh/solve); here it is
   the variable [expm] constrained by the oracle predicate [is_expm] (identity at 0, semigroup, derivative
   A . exp(tA)) plus [Hext] (depends on the n x n block only) and [Hdiag] (diagonal case).  The two-pool
   theorems at the end have NO such hypothesis.  Only statements, each closed by [exact]. *)
From Coq Require Import List ZArith Reals Bool.
From Coquelicot Require Import Coquelicot.
From EPG Require Import Scalar QI State CInst Evolution CDeriv CoefPhys Exchange ExchangeProofs.
Import ListNotations.

(* (1) M(tau) = Meq + expm(tau Xi) (M0 - Meq) solves dM/dtau = Xi (M - Meq): transverse F+ with
   Xi_T = -K + diag(-1/T2 + 2 pi i g), F- with conj Xi_T, longitudinal with Xi_L = -K + diag(-1/T1);
   every compartment i, every phase state k, every tau; and M(0) = M0 *)
Theorem C06_X_solves_ode_partial (n : nat) (expm : matN Cops -> R -> matN Cops)
  (Hexpm : forall A, is_expm n A (expm A))
  (khi : matN Cops) (T1 T2 : nat -> option C) (g : nat -> C) (st eq : fibre Cops) (i k : nat) (tau : R) :
  (i < n)%nat ->
  derC (fun t => fp (X_op n expm khi T1 T2 g st eq t i k)) tau
       (@ksum Cops n (fun l => Cmult (xiT Cops Cinv twopii_C khi T2 g i l)
                                     (Cminus (fp (X_op n expm khi T1 T2 g st eq tau l k)) (fp (eq l k))))) /\
  derC (fun t => fm (X_op n expm khi T1 T2 g st eq t i k)) tau
       (@ksum Cops n (fun l => Cmult (Cconj (xiT Cops Cinv twopii_C khi T2 g i l))
                                     (Cminus (fm (X_op n expm khi T1 T2 g st eq tau l k)) (fm (eq l k))))) /\
  derC (fun t => fz (X_op n expm khi T1 T2 g st eq t i k)) tau
       (@ksum Cops n (fun l => Cmult (xiL Cops Cinv khi T1 i l)
                                     (Cminus (fz (X_op n expm khi T1 T2 g st eq tau l k)) (fz (eq l k))))).
Proof. exact (X_solves_ode n expm Hexpm khi T1 T2 g st eq i k tau). Qed.
Print Assumptions C06_X_solves_ode_partial.

Theorem C06_X_initial_partial (n : nat) (expm : matN Cops -> R -> matN Cops)
  (Hexpm : forall A, is_expm n A (expm A))
  (khi : matN Cops) (T1 T2 : nat -> option C) (g : nat -> C) (st eq : fibre Cops) (i k : nat) :
  (i < n)%nat -> X_op n expm khi T1 T2 g st eq 0 i k = st i k.
Proof. exact (X_initial n expm Hexpm khi T1 T2 g st eq i k). Qed.
Print Assumptions C06_X_initial_partial.

(* (2) the equilibrium is a fixed point -- for ANY matrices (no oracle hypothesis) *)
Theorem C06_X_fixed_point (S : ScalOps) (L : ScalLaws S) (n : nat) (MT MC ML : matN S) (eq : fibre S) (i k : nat) :
  x_apply_fibre n MT MC ML eq eq i k = eq i k.
Proof. exact (x_fixed_point S L n MT MC ML eq i k). Qed.
Print Assumptions C06_X_fixed_point.

(* (3) tau1 then tau2 equals tau1 + tau2 *)
Theorem C06_X_semigroup_partial (n : nat) (expm : matN Cops -> R -> matN Cops)
  (Hexpm : forall A, is_expm n A (expm A))
  (khi : matN Cops) (T1 T2 : nat -> option C) (g : nat -> C) (st eq : fibre Cops) (i k : nat) (t1 t2 : R) :
  (i < n)%nat ->
  X_op n expm khi T1 T2 g (X_op n expm khi T1 T2 g st eq t1) eq t2 i k = X_op n expm khi T1 T2 g st eq (t1 + t2) i k.
Proof. exact (X_semigroup n expm Hexpm khi T1 T2 g st eq i k t1 t2). Qed.
Print Assumptions C06_X_semigroup_partial.

(* (4) zero exchange: independent relaxation/precession per compartment, equal to the generated E operator *)
Theorem C06_X_zero_exchange_partial (n : nat) (expm : matN Cops -> R -> matN Cops)
  (Hext : forall A B : matN Cops, (forall i j, (i < n)%nat -> (j < n)%nat -> A i j = B i j) ->
          forall t i j, (i < n)%nat -> (j < n)%nat -> expm A t i j = expm B t i j)
  (Hdiag : forall (d : nat -> C) t i j, (i < n)%nat -> (j < n)%nat ->
          expm (fun a b => Cmult (d a) (@delta Cops a b)) t i j = Cmult (Cexp (Cmult (RtoC t) (d i))) (@delta Cops i j))
  (khi : matN Cops) (T1 T2 : nat -> option C) (g : nat -> C) (st eq : fibre Cops) (i k : nat)
  (tau t1 t2 gg : R) (pd : C) :
  (forall a b, khi a b = RtoC 0) -> (i < n)%nat -> t1 <> 0%R -> t2 <> 0%R ->
  T1 i = Some (RtoC t1) -> T2 i = Some (RtoC t2) -> g i = RtoC gg ->
  eq i k = @mk3 Cops (RtoC 0) (RtoC 0) pd ->
  X_op n expm khi T1 T2 g st eq tau i k = evolve (E_op tau t1 t2 gg) (st i k) pd.
Proof. exact (X_zero_exchange_is_E n expm Hext Hdiag khi T1 T2 g st eq i k tau t1 t2 gg pd). Qed.
Print Assumptions C06_X_zero_exchange_partial.

(* (5) columns of K sum to zero, no relaxation/precession: the total over the compartments is constant in tau
   (zero derivative + mean-value theorem), per component and phase state *)
Theorem C06_X_conserves_total_partial (n : nat) (expm : matN Cops -> R -> matN Cops)
  (Hexpm : forall A, is_expm n A (expm A))
  (khi : matN Cops) (T1 T2 : nat -> option C) (g : nat -> C) (st eq : fibre Cops) (k : nat) :
  (forall l, (l < n)%nat -> colsum n khi l = RtoC 0) ->
  (forall i, T1 i = None) -> (forall i, T2 i = None) -> (forall i, g i = RtoC 0) ->
  forall tau : R,
  @ksum Cops n (fun i => fp (X_op n expm khi T1 T2 g st eq tau i k)) = @ksum Cops n (fun i => fp (st i k)) /\
  @ksum Cops n (fun i => fm (X_op n expm khi T1 T2 g st eq tau i k)) = @ksum Cops n (fun i => fm (st i k)) /\
  @ksum Cops n (fun i => fz (X_op n expm khi T1 T2 g st eq tau i k)) = @ksum Cops n (fun i => fz (st i k)).
Proof. exact (X_conserves_total n expm Hexpm khi T1 T2 g st eq k). Qed.
Print Assumptions C06_X_conserves_total_partial.

(* (6) guards of the array model: accepted => conserving / square / zero column sums; otherwise the error token *)
Theorem C06_X_rejects_nonconserving (S : ScalOps) (L : ScalLaws S) (o : xop S) (s : smN S) (sh : list nat) (d : list S) :
  x_apply S o s = XOk S sh d ->
  forall b, In b (all_idx (cons_shape S o s)) ->
  forall i, (i < nth (x_ax S o) (x_shape S o) 0)%nat ->
  ksum (nth (x_ax S o) (x_shape S o) 0%nat) (fun j =>
     kmul (get S (fst (x_khi S o)) (snd (x_khi S o))
             (firstn (length (removelast (fst (x_khi S o)))) (set_at (x_ax S o) i b) ++ [j]))
          (get S (s_shape S s) (s_dens S s) (set_at (x_ax S o) j b))) = k0.
Proof. exact (x_apply_rejects S L o s sh d). Qed.
Print Assumptions C06_X_rejects_nonconserving.

Theorem C06_X_guard_accepts (S : ScalOps) (L : ScalLaws S) (khishape : list nat) (khi : list S) (axis : Z) (ax : nat) :
  x_guard S khishape khi axis = GOk ax ->
  (2 <= length khishape)%nat /\ nth ax (removelast khishape) 0%nat = last khishape 0%nat /\
  forall idx, In idx (all_idx (set_at ax 1 (removelast khishape))) ->
  forall j, (j < last khishape 0)%nat ->
    ksum (last khishape 0%nat) (fun i => get S khishape khi (set_at ax i idx ++ [j])) = k0.
Proof. exact (x_guard_accepts S L khishape khi axis ax). Qed.
Print Assumptions C06_X_guard_accepts.

Theorem C06_X_rejects_nonsquare (S : ScalOps) (khishape : list nat) (khi : list S) (axis : Z) :
  (2 <= length khishape)%nat ->
  nth (norm_axis (length (removelast khishape)) axis) (removelast khishape) 0%nat <> last khishape 0%nat ->
  x_guard S khishape khi axis = GErrSquare.
Proof. exact (x_guard_rejects_nonsquare S khishape khi axis). Qed.
Print Assumptions C06_X_rejects_nonsquare.

(* every entry of the n-d result is the fibre operator on the fibres cut out of the arrays *)
Theorem C06_x_apply_entry (S : ScalOps) (o : xop S) (s : smN S) (sh : list nat) (d : list S) (m : nat) :
  x_apply S o s = XOk S sh d -> (m < prodl (sh ++ [s_ns S s; 3%nat]))%nat -> nth m d k0 = x_entry S o s sh m.
Proof. exact (x_apply_entry S o s sh d m). Qed.
Print Assumptions C06_x_apply_entry.

(* (7) exchange_matrix: zero column sums (with or without densities), symmetric without densities,
   K . densities = 0 with densities *)
Theorem C06_exchange_matrix_ok (S : ScalOps) (L : ScalLaws S) (inv : S -> S) (k : S) (n : nat)
  (dens : option (nat -> S)) (j : nat) :
  (j < n)%nat -> kmul (knat (n - 1)) (inv (knat (n - 1))) = @k1 S ->
  colsum n (exchange_matrix S inv k n dens) j = k0.
Proof. exact (exchange_matrix_colsum S L inv k n dens j). Qed.
Print Assumptions C06_exchange_matrix_ok.

Theorem C06_exchange_matrix_balance (S : ScalOps) (L : ScalLaws S) (inv : S -> S) (k : S) (n : nat)
  (d : nat -> S) (i : nat) :
  (i < n)%nat -> kmul (knat (n - 1)) (inv (knat (n - 1))) = @k1 S ->
  (forall j, (j < n)%nat -> kmul (d j) (inv (d j)) = k1) ->
  ksum n (fun j => kmul (exchange_matrix S inv k n (Some d) i j) (d j)) = k0.
Proof. exact (exchange_matrix_balance S L inv k n d i). Qed.
Print Assumptions C06_exchange_matrix_balance.

(* (8) TWO POOLS, scalar rate, no relaxation: NO hypotheses.  The closed form satisfies the oracle predicate
   for the generator -K, K = exchange_matrix(kappa, 2) = kappa [[1,-1],[-1,1]] *)
Theorem C06_two_pool_closed_form_is_expm (kappa : R) :
  is_expm 2 (moppN (K2 kappa)) (E2 kappa) /\
  (forall i j, (i < 2)%nat -> (j < 2)%nat -> exchange_matrix Cops Cinv (RtoC kappa) 2 None i j = K2 kappa i j).
Proof. exact (conj (two_pool_is_expm kappa) (exchange_matrix_two kappa)). Qed.
Print Assumptions C06_two_pool_closed_form_is_expm.

Theorem C06_two_pool_solves_ode (kappa : R) (st eq : fibre Cops) (i k : nat) (tau : R) : (i < 2)%nat ->
  let Kx := exchange_matrix Cops Cinv (RtoC kappa) 2 None in
  let XT := xiT Cops Cinv twopii_C Kx (fun _ => None) (fun _ => RtoC 0) in
  let XL := xiL Cops Cinv Kx (fun _ => None) in
  derC (fun t => fp (X2 kappa st eq t i k)) tau
       (@ksum Cops 2 (fun l => Cmult (XT i l) (Cminus (fp (X2 kappa st eq tau l k)) (fp (eq l k))))) /\
  derC (fun t => fm (X2 kappa st eq t i k)) tau
       (@ksum Cops 2 (fun l => Cmult (Cconj (XT i l)) (Cminus (fm (X2 kappa st eq tau l k)) (fm (eq l k))))) /\
  derC (fun t => fz (X2 kappa st eq t i k)) tau
       (@ksum Cops 2 (fun l => Cmult (XL i l) (Cminus (fz (X2 kappa st eq tau l k)) (fz (eq l k))))).
Proof. exact (two_pool_solves_ode kappa st eq i k tau). Qed.
Print Assumptions C06_two_pool_solves_ode.

Theorem C06_two_pool_initial_semigroup_conserves (kappa : R) (st eq : fibre Cops) (i k : nat) (t1 t2 : R) :
  (i < 2)%nat ->
  X2 kappa st eq 0 i k = st i k /\
  X2 kappa (X2 kappa st eq t1) eq t2 i k = X2 kappa st eq (t1 + t2) i k /\
  @ksum Cops 2 (fun i => fp (X2 kappa st eq t1 i k)) = @ksum Cops 2 (fun i => fp (st i k)) /\
  @ksum Cops 2 (fun i => fm (X2 kappa st eq t1 i k)) = @ksum Cops 2 (fun i => fm (st i k)) /\
  @ksum Cops 2 (fun i => fz (X2 kappa st eq t1 i k)) = @ksum Cops 2 (fun i => fz (st i k)).
Proof.
  exact (fun Hi => conj (two_pool_initial kappa st eq i k Hi)
                  (conj (two_pool_semigroup_X kappa st eq i k t1 t2 Hi) (two_pool_conserves kappa st eq k t1))).
Qed.
Print Assumptions C06_two_pool_initial_semigroup_conserves.

(* non-vacuity on the executed instance: two compartments on axis 0, one phase state; a conserving matrix is
   applied, a non-conserving one yields the error token *)
Example C06_nonvacuous :
  let mat := [qr 3 4; qr 3 4; qr 1 2;  qr 1 4; qr 1 4; qr 1 2;  qr 1 4; qr 1 4; qr 1 2;  qr 3 4; qr 3 4; qr 1 2] in
  let s := mkSMN QIops [2%nat] 1 [qr 1 1; qr 1 1; qr 0 1;  qr 0 1; qr 0 1; qr 1 1]
             ([2%nat; 1%nat; 3%nat], [qr 0 1; qr 0 1; qr 1 1; qr 0 1; qr 0 1; qr 1 1]) [qr 1 1; qr 1 1] in
  (x_apply_ok QIops (mkX QIops 0 [2%nat] mat ([2%nat; 2%nat], [qr 1 1; qr (-1) 1; qr (-1) 1; qr 1 1])) s
    0 [2%nat] [qr 3 4; qr 3 4; qr 1 2;  qr 1 4; qr 1 4; qr 1 2] &&
  x_apply_ok QIops (mkX QIops 0 [2%nat] mat ([2%nat; 2%nat], [qr 1 1; qr (-2) 1; qr (-1) 1; qr 2 1])) s
    1 [] [])%bool = true.
Proof. vm_compute. reflexivity. Qed.
