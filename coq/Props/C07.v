(* C07 — Vectorised simulation equals the stack of scalar simulations.
   Only statements, each closed by [exact], followed by Print Assumptions. *)
From Coq Require Import List ZArith Arith.
From EPG Require Import Scalar QI State Ops NdArray Vector VectorProofs.
Import ListNotations.

(* expand_shapes: as many shapes come back, each of the common rank *)
Theorem C07_expand_shapes_length (ap : bool) (ss : list shape) :
  length (expand_shapes ap ss) = length ss /\
  forall e, In e (expand_shapes ap ss) -> length e = maxlen ss.
Proof. exact (expand_shapes_length ap ss). Qed.
Print Assumptions C07_expand_shapes_length.

(* broadcast_shapes: axis i of the result is the unique size > 1 on axis i of the expanded shapes
   (1 if none); it raises iff two sizes > 1 differ on some axis *)
Theorem C07_broadcast_shapes_spec (ap : bool) (ss : list shape) :
  (forall r, broadcast_shapes ap ss = Some r ->
     length r = maxlen ss /\
     forall i, i < maxlen ss ->
       (forall e, In e (expand_shapes ap ss) -> nth i e 1 <= 1 \/ nth i e 1 = nth i r 1) /\
       ((nth i r 1 = 1 /\ forall e, In e (expand_shapes ap ss) -> nth i e 1 <= 1) \/
        (1 < nth i r 1 /\ exists e, In e (expand_shapes ap ss) /\ nth i e 1 = nth i r 1))) /\
  (broadcast_shapes ap ss = None <->
     exists i e1 e2, i < maxlen ss /\ In e1 (expand_shapes ap ss) /\ In e2 (expand_shapes ap ss) /\
       1 < nth i e1 1 /\ 1 < nth i e2 1 /\ nth i e1 1 <> nth i e2 1).
Proof. exact (broadcast_shapes_spec ap ss). Qed.
Print Assumptions C07_broadcast_shapes_spec.

(* broadcastable <-> broadcast_shapes does not raise (no 0-sized axes) ... *)
Theorem C07_broadcastable_iff (ap : bool) (ss : list shape) :
  allpos ss -> (broadcastable ap ss = true <-> broadcast_shapes ap ss <> None).
Proof. exact (broadcastable_iff ap ss). Qed.
Print Assumptions C07_broadcastable_iff.

(* ... and not with a 0-sized axis: (0,) and (2,) are "not broadcastable" yet broadcast to (2,) *)
Theorem C07_broadcastable_iff_zero_refuted :
  exists ss, broadcastable true ss = false /\ broadcast_shapes true ss <> None.
Proof. exact broadcastable_iff_zero_refuted. Qed.
Print Assumptions C07_broadcastable_iff_zero_refuted.

(* incompatible shapes raise (prepare returns the error, the operator is not applied) *)
Theorem C07_incompatible_raises (S : ScalOps) (ns : nat) (o : vop S) (s : vsm S) :
  broadcastable true [bshape s; vshape o] = false ->
  prepare (vshape o) (bshape s) = None /\ vapply ns o s = None.
Proof. exact (incompatible_raises S ns o s). Qed.
Print Assumptions C07_incompatible_raises.

(* "incompatible" is: some axis, counted from the first, carries two different sizes other than 1 *)
Theorem C07_incompatible_iff (A B : shape) :
  broadcastable true [B; A] = false <->
  exists i, nth i A 1 <> 1 /\ nth i B 1 <> 1 /\ nth i A 1 <> nth i B 1.
Proof. exact (incompatible_iff A B). Qed.
Print Assumptions C07_incompatible_iff.

(* scalar_prod / matrix_prod (fall-back form): for EVERY rank combination |A| <= |B| (which
   prepare guarantees), numpy's right-aligned broadcasting of the axis-inserted operator array
   against the states reads exactly the append-aligned elements, and the result batch shape
   dominates both shapes axis by axis from the first axis *)
Theorem C07_prod_pointwise (A B : shape) (ns : nat) (R : shape) :
  length A <= length B -> prod_shape A B ns = Some R ->
  exists R', R = R' ++ [ns] /\ length R' = length B /\ dom A R' /\ dom B R' /\
  forall bidx k, length bidx = length B ->
    prod_op A B (bidx ++ [k]) = aproj A bidx /\
    prod_st B ns (bidx ++ [k]) = aproj B bidx ++ [sel ns k].
Proof. exact (prod_pointwise A B ns R). Qed.
Print Assumptions C07_prod_pointwise.

(* without prepare (|A| > |B|) the product is right-aligned: not the append semantics *)
Theorem C07_prod_low_rank_refuted :
  exists A B ns idx, broadcastable true [B; A] = true /\ length B < length A /\
    prod_shape A B ns <> None /\ removelast (prod_st B ns (idx ++ [0])) <> aproj B idx.
Proof. exact prod_low_rank_refuted. Qed.
Print Assumptions C07_prod_low_rank_refuted.

(* matrix_prod, in-place branch matmul(mat[..., 0, :, :], states, axes=[(-2,-1),(-1,-2),(-1,-2)],
   out=states), EVERY |A| <= |B|: numpy accepts it in place (no ValueError, no fall-back) exactly
   when every operator axis is a singleton or has the size of the same state axis ... *)
Theorem C07_matrix_prod_inplace_accepts (A B : shape) :
  length A <= length B -> (mp_inplace_ok A B = true <-> dom A B).
Proof. exact (mp_inplace_fixed_spec A B). Qed.
Print Assumptions C07_matrix_prod_inplace_accepts.

(* ... and then reads the append-aligned operator element at every batch index *)
Theorem C07_matrix_prod_inplace_pointwise (A B : shape) (bidx : list nat) :
  length A <= length B -> length bidx = length B ->
  mp_inplace_op A B bidx = aproj A bidx.
Proof. exact (mp_inplace_fixed_reads A B bidx). Qed.
Print Assumptions C07_matrix_prod_inplace_pointwise.

(* the two former counterexamples (DESIGN 9.14 and the doubly inserted axes), now regression cases *)
Theorem C07_matrix_prod_inplace_witnesses :
  mp_inplace_ok [1; 2] [2; 2] = true /\ mp_inplace_op [1; 2] [2; 2] [1; 0] = [0; 0] /\
  mp_inplace_ok [1; 1; 2] [2; 1; 2; 1] = true /\
  mp_inplace_op [1; 1; 2] [2; 1; 2; 1] [1; 0; 1; 0] = [0; 0; 1].
Proof. exact matrix_prod_inplace_witnesses. Qed.
Print Assumptions C07_matrix_prod_inplace_witnesses.

(* the property, states: every program, all ranks and shapes, ScalarOp and MatrixOp through
   either branch: entry idx of the vectorised run is the scalar run with that index's coefficients *)
Theorem C07_vectorised_is_stack (S : ScalOps) (ns : nat) (ops : list (vop S)) (s r : vsm S) :
  vrun ns ops s = Some r ->
  length (bshape s) <= length (bshape r) /\
  forall idx, valid (bshape r) idx ->
    sget r idx = run (scalar_ops ops idx) (sget s (aproj (bshape s) idx)).
Proof. exact (vectorised_is_stack S ns ops s r). Qed.
Print Assumptions C07_vectorised_is_stack.

(* executed on the two former counterexamples (QI instance, every grid index) *)
Theorem C07_vectorised_witnesses :
  wit_ok [1; 2] 1 [2; 2] = true /\ wit_ok [1; 1; 2] 2 [2; 1; 2; 1] = true.
Proof. exact vectorised_witnesses. Qed.
Print Assumptions C07_vectorised_witnesses.

(* output shape: the run from a state whose shape dominates every operator shape succeeds and
   keeps that shape; simulate's array is (n_acquisitions,) + that shape *)
Theorem C07_output_shape (S : ScalOps) (ns : nat) (ops : list (vop S)) (s : vsm S) (nacq : nat) :
  List.Forall (fun o => dom (vshape o) (bshape s)) ops ->
  exists r, vrun ns ops s = Some r /\ bshape r = bshape s /\
            simulate_shape nacq (bshape r) = nacq :: bshape s.
Proof. exact (output_shape S ns ops s nacq). Qed.
Print Assumptions C07_output_shape.

(* getshape(seq) (++ extra axes of a given initial state) is such a shape *)
Theorem C07_getshape_dominates (shapes : list shape) (G extra : shape) :
  allpos shapes -> getshape shapes = Some G ->
  List.Forall (fun A => dom A (G ++ extra)) shapes.
Proof. exact (getshape_dom shapes G extra). Qed.
Print Assumptions C07_getshape_dominates.

(* non-vacuity: a program of a (2,) ScalarOp and a (1,3) MatrixOp runs in the model from the
   (2,3) state (the MatrixOp through the in-place branch) and keeps the shape getshape gives *)
Example C07_nonvacuous :
  let o1 : vop QIops := @mkVop QIops [2] (fun idx => @OScalar QIops (@mk3 QIops (wit_c 0 idx) (wit_c 0 idx) (qr 1 2)) None) false in
  let o2 : vop QIops := wit_op [1; 3] 1 in
  let s : vsm QIops := wit_s [2; 3] in
  getshape [[2]; [1; 3]] = Some [2; 3] /\ mp_inplace_ok [1; 3] [2; 3] = true /\
  exists r, vrun 1 [o1; o2] s = Some r /\ bshape r = [2; 3].
Proof. split; [reflexivity|]. split; [reflexivity|]. eexists. split; reflexivity. Qed.
