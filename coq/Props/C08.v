(* C08 — State matrices stay well-formed under every operator.
   Only statements, each closed by [exact], followed by Print Assumptions. *)
From Coq Require Import List ZArith.
From EPG Require Import Scalar QI State Ops Views WfProof.
Import ListNotations.

(* the initial state of simulate() is well-formed *)
Theorem C08_wf_init (S : ScalOps) (L : ScalLaws S) (pd : S) :
  kreal S pd -> wf S (init pd).
Proof. exact (wf_init S L pd). Qed.
Print Assumptions C08_wf_init.

(* one operator: any valid ScalarOp / MatrixOp coefficients, any shift size and sign,
   any truncation cap, spoiler, reset, PD, wait *)
Theorem C08_wf_step (S : ScalOps) (L : ScalLaws S) (o : op S) (s : sm S) :
  wf_op S o -> wf S s -> wf S (apply o s).
Proof. exact (wf_step S L o s). Qed.
Print Assumptions C08_wf_step.

(* every reachable state of every program *)
Theorem C08_wf_run (S : ScalOps) (L : ScalLaws S) (ops : list (op S)) (s : sm S) :
  Forall (wf_op S) ops -> wf S s -> wf S (run ops s).
Proof. exact (wf_run S L ops s). Qed.
Print Assumptions C08_wf_run.

(* only PD changes the equilibrium *)
Theorem C08_only_pd_changes_equilibrium (S : ScalOps) (o : op S) (s : sm S) :
  wf S s -> (forall p r, o <> OPD p r) -> forall k, gete S (apply o s) k = gete S s k.
Proof. exact (only_pd_changes_equilibrium S o s). Qed.
Print Assumptions C08_only_pd_changes_equilibrium.

(* non-vacuity: the hypotheses are met by a concrete program on the executed instance *)
Example C08_nonvacuous :
  let ops : list (op QIops) :=
    [OScalar (@mk3 QIops (qi 1 2 (-1) 2) (qi 1 2 1 2) (qr 1 2)) (Some (@mk3 QIops (qr 0 1) (qr 0 1) (qr 1 2)));
     OShift 2 None; @OPD QIops (qr 3 1) false; OShift (-1) (Some 2%nat); OReset] in
  Forall (wf_op QIops) ops /\ wf QIops (@init QIops (qr 1 1)).
Proof.
  split.
  - repeat constructor; vm_compute; reflexivity.
  - apply (wf_init QIops QIlaws). vm_compute. reflexivity.
Qed.
