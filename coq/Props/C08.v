(* C08 — State matrices stay well-formed under every operator.
   Only statements, each closed by [exact], followed by Print Assumptions. *)
From Coq Require Import List ZArith QArith Qcanon Lia.
From EPG Require Import Scalar QI State Ops Views WfProof Exchange WfExt ShiftND PruneProofs.
From EPG.Model Require Import Diffusion.
Import ListNotations.

(* the initial state of simulate() is well-formed *)
Theorem C08_wf_init (S : ScalOps) (L : ScalLaws S) (pd : S) :
  kreal S pd -> wf S (init pd).
Proof. exact (wf_init S L pd). Qed.
Print Assumptions C08_wf_init.

(* one operator: any valid ScalarOp / MatrixOp coefficients, any shift size and sign,
   any truncation cap, spoiler, reset, PD, wait *)
Theorem C08_wf_step (S : ScalOps) (L : ScalLaws S) (o : op S) (s : sm S) :
  wf_op S o -> wf S s -> wf S (apply o s).
Proof. exact (wf_step S L o s). Qed.
Print Assumptions C08_wf_step.

(* every reachable state of every program *)
Theorem C08_wf_run (S : ScalOps) (L : ScalLaws S) (ops : list (op S)) (s : sm S) :
  Forall (wf_op S) ops -> wf S s -> wf S (run ops s).
Proof. exact (wf_run S L ops s). Qed.
Print Assumptions C08_wf_run.

(* only PD changes the equilibrium *)
Theorem C08_only_pd_changes_equilibrium (S : ScalOps) (o : op S) (s : sm S) :
  wf S s -> (forall p r, o <> OPD p r) -> forall k, gete S (apply o s) k = gete S s k.
Proof. exact (only_pd_changes_equilibrium S o s). Qed.
Print Assumptions C08_only_pd_changes_equilibrium.

(* non-vacuity: the hypotheses are met by a concrete program on the executed instance *)
Example C08_nonvacuous :
  let ops : list (op QIops) :=
    [OScalar (@mk3 QIops (qi 1 2 (-1) 2) (qi 1 2 1 2) (qr 1 2)) (Some (@mk3 QIops (qr 0 1) (qr 0 1) (qr 1 2)));
     OShift 2 None; @OPD QIops (qr 3 1) false; OShift (-1) (Some 2%nat); OReset] in
  Forall (wf_op QIops) ops /\ wf QIops (@init QIops (qr 1 1)).
Proof.
  split.
  - repeat constructor; vm_compute; reflexivity.
  - apply (wf_init QIops QIlaws). vm_compute. reflexivity.
Qed.

(* ---------------------------------------------------------------- beyond the seven 1-D operators (Proofs/WfExt.v) *)

(* every reachable state of every program that interleaves the 1-D operators with the diffusion operator D
   (transverse factor arbitrary, longitudinal factor conjugate-even in the phase-state number: exp(-bL:D) is real
   and bL is even) *)
Theorem C08_wf_run_with_diffusion (S : ScalOps) (L : ScalLaws S) (es : list (eop S)) (s : sm S) :
  Forall (wf_eop S) es -> wf S s -> wf S (erun es s).
Proof. exact (wf_erun S L es s). Qed.
Print Assumptions C08_wf_run_with_diffusion.

(* ... and D does not change the equilibrium either *)
Theorem C08_only_pd_changes_equilibrium_ext (S : ScalOps) (e : eop S) (s : sm S) :
  wf S s -> (forall p r, e <> EOp (OPD p r)) -> forall k, gete S (eapply e s) k = gete S s k.
Proof. exact (only_pd_changes_equilibrium_ext S e s). Qed.
Print Assumptions C08_only_pd_changes_equilibrium_ext.

(* exchange X on one fibre (n compartments x N = 2 ns + 1 phase states): with the stacked matrices
   [MT, conj MT, ML] of exchange_operator and a real ML, the conjugate symmetry
   F-(k) = conj F+(-k), Z(-k) = conj Z(k) of EVERY compartment is preserved *)
Theorem C08_exchange_keeps_symmetry (S : ScalOps) (L : ScalLaws S) (n N : nat) (MT ML : matN S) (st eq : fibre S) :
  (forall i j, kreal S (ML i j)) -> fib_sym S N st -> fib_sym S N eq ->
  fib_sym S N (x_apply_fibre n MT (conjN MT) ML st eq).
Proof. exact (x_fibre_symmetric S L n N MT ML st eq). Qed.
Print Assumptions C08_exchange_keeps_symmetry.

(* X creates nothing out of the equilibrium: a fibre at equilibrium is a fixed point, whatever the matrices *)
Theorem C08_exchange_fixes_equilibrium (S : ScalOps) (L : ScalLaws S) (n : nat) (MT MC ML : matN S) (eq : fibre S) i k :
  x_apply_fibre n MT MC ML eq eq i k = eq i k.
Proof. exact (x_fibre_equilibrium S L n MT MC ML eq i k). Qed.
Print Assumptions C08_exchange_fixes_equilibrium.

(* X on arrays (Model/Exchange.v x_apply, tied to X._apply by the exact C06 correspondence): an accepted application
   returns the broadcast batch shape times the unchanged state count 2 ns + 1 (x 3 components) *)
Theorem C08_exchange_keeps_state_count (S : ScalOps) (o : xop S) (s : smN S) (sh : list nat) (d : list S) :
  x_apply S o s = XOk S sh d -> length d = prodl (sh ++ [s_ns S s; 3%nat]).
Proof. exact (x_apply_state_count S o s sh d). Qed.
Print Assumptions C08_exchange_keeps_state_count.

(* the n-D integer shift rebuilds F- as the mirror conjugate of the relocated F+: F-(j) = conj F+(N-1-j) holds for
   every plan and every input, before pruning *)
Theorem C08_nd_shift_fm_mirror (S : ScalOps) (p : plan) (amps : list (triple S)) (j : nat) : (j < length (pk p))%nat ->
  fm (nth j (relocate p amps) t0) = kconj (fp (nth (length (pk p) - 1 - j) (relocate p amps) t0)).
Proof. exact (relocate_fm_mirror S p amps j). Qed.
Print Assumptions C08_nd_shift_fm_mirror.

(* Z clause of the n-D shift, PARTIAL: proved under the hypothesis that the scatter list (target cell, Z amplitude) of
   the plan has distinct targets and is closed under (cell -> mirror cell, value -> conjugate); that closure (a
   well-formed input on an antisymmetric sorted wavenumber table) is observed by wfb_obs, not proved *)
Theorem C08_nd_shift_fz_mirror_partial (S : ScalOps) (L : ScalLaws S) (p : plan) (amps : list (triple S)) (j : nat) :
  let ps := opairs (pL p) (map (@fz S) amps) in
  NoDup (map fst ps) ->
  (forall a v, In (a, v) ps -> (a < length (pk p))%nat /\ In ((length (pk p) - 1 - a)%nat, kconj v) ps) ->
  (j < length (pk p))%nat ->
  fz (nth (length (pk p) - 1 - j) (relocate p amps) t0) = kconj (fz (nth j (relocate p amps) t0)).
Proof. exact (relocate_fz_mirror S L p amps j). Qed.
Print Assumptions C08_nd_shift_fz_mirror_partial.

(* non-vacuity of the two hypotheses of C08_nd_shift_fz_mirror_partial: a three-state plan with a conjugate-symmetric Z *)
Example C08_fz_mirror_nonvacuous :
  let p := mkPlan [[-1]; [0]; [1]]%Z [Some 0; Some 1; Some 2]%nat [Some 1; Some 2; None]%nat in
  let amps : list (triple QIops) :=
    [@mk3 QIops (qr 0 1) (qr 0 1) (qi 1 2 1 3); @mk3 QIops (qr 0 1) (qr 0 1) (qr 1 1); @mk3 QIops (qr 0 1) (qr 0 1) (qi 1 2 (-1) 3)] in
  let ps := opairs (pL p) (map (@fz QIops) amps) in
  NoDup (map fst ps) /\
  (forall a v, In (a, v) ps -> (a < length (pk p))%nat /\ In ((length (pk p) - 1 - a)%nat, @kconj QIops v) ps).
Proof.
  cbv zeta. cbn [pL pk opairs map fz length fst]. split.
  - repeat (constructor; [simpl; intuition discriminate|]). constructor.
  - intros a v H. cbn [In] in H. destruct H as [H|[H|[H|[]]]]; inversion H; subst; clear H; (split; [simpl; lia|]); cbn [Nat.sub In].
    + right; right; left. f_equal; try (apply injective_projections; apply Qc_is_canon; vm_compute; reflexivity).
    + right; left. f_equal; try (apply injective_projections; apply Qc_is_canon; vm_compute; reflexivity).
    + left. f_equal; try (apply injective_projections; apply Qc_is_canon; vm_compute; reflexivity).
Qed.

(* non-vacuity: a program with D whose side conditions hold, on the executed instance *)
Example C08_nonvacuous_ext :
  let es : list (eop QIops) :=
    [EOp (OShift 1 None);
     @ED QIops (fun k => if (k <? 0)%Z then qi 1 2 1 3 else qi 1 5 (-1) 7)
               (fun k => if (Z.abs k <? 2)%Z then qr 1 2 else qr 1 4);
     EOp (@OPD QIops (qr 2 1) false); EOp (OShift (-2) None)] in
  Forall (wf_eop QIops) es.
Proof.
  repeat constructor.
  intros k. rewrite Z.abs_opp. destruct (Z.abs k <? 2)%Z; vm_compute; reflexivity.
Qed.
