(* C09 — Operators and simulate() are pure: no hidden state, no input mutation.
   PARTIAL by design: the theorems below are properties of the PURE MODEL of the API (Model/Purity.v:
   a function [sem] over an append-only store of immutable values; histories = lists of calls).  Memory
   aliasing and process state (hash seed) cannot be exhibited in Gallina; that the implementation behaves
   like this pure function over call histories is checked by the history correspondence of props/c09.py
   (byte-level snapshots, np.shares_memory, shared-object run vs value-copy run, PYTHONHASHSEED sweep,
   and exact evaluation of [hist_ok] over QIops).
   Only statements, each closed by [exact], followed by Print Assumptions. *)
From Coq Require Import List ZArith Bool.
From EPG Require Import Scalar QI State Ops Diff Purity PurityProofs.
Import ListNotations.

(* no out-of-place call changes an existing store entry — for every history *)
Theorem C09_model_store_monotone (S : ScalOps) (st : store S) (h : history) (k : nat) :
  forallb out_of_place h = true -> k < length st ->
  look (fst (run_hist st h)) k = look st k.
Proof. exact (store_monotone S st h k). Qed.
Print Assumptions C09_model_store_monotone.

(* operators, probes, sequences and recorded results are never changed by ANY history (in-place calls
   included): an in-place application replaces only its state-matrix argument *)
Theorem C09_model_nonsm_immutable (S : ScalOps) (st : store S) (h : history) (k : nat) :
  k < length st -> is_sm (look st k) = false ->
  look (fst (run_hist st h)) k = look st k.
Proof. exact (nonsm_immutable S st h k). Qed.
Print Assumptions C09_model_nonsm_immutable.

(* the result of a call is a function of the values of its arguments, whatever two histories did before *)
Theorem C09_model_history_independent (S : ScalOps) (st1 st2 : store S) (h1 h2 : history) (c : call) :
  (forall r, In r (refs c) -> look (fst (run_hist st1 h1)) r = look (fst (run_hist st2 h2)) r) ->
  snd (sem (fst (run_hist st1 h1)) c) = snd (sem (fst (run_hist st2 h2)) c).
Proof. exact (history_independent S st1 st2 h1 h2 c). Qed.
Print Assumptions C09_model_history_independent.

Theorem C09_model_history_independent_after (S : ScalOps) (st : store S) (h : history) (c : call) :
  forallb out_of_place h = true -> (forall r, In r (refs c) -> r < length st) ->
  snd (sem (fst (run_hist st h)) c) = snd (sem st c).
Proof. exact (history_independent_after S st h c). Qed.
Print Assumptions C09_model_history_independent_after.

(* a reused instance equals any other instance holding an equal value: single application, and a
   sequence that uses one instance at several positions *)
Theorem C09_model_reuse_equals_fresh_apply (S : ScalOps) (st : store S) (r r' s : nat) (inplace : bool) :
  look st r = look st r' -> result st (CApply r s inplace) = result st (CApply r' s inplace).
Proof. exact (reuse_equals_fresh_apply S st r r' s inplace). Qed.
Print Assumptions C09_model_reuse_equals_fresh_apply.

Theorem C09_model_reuse_equals_fresh_seq (S : ScalOps) (st : store S) (l l' : list nat) :
  map (look st) l = map (look st) l' -> result st (CMkSeq l) = result st (CMkSeq l').
Proof. exact (reuse_equals_fresh_seq S st l l'). Qed.
Print Assumptions C09_model_reuse_equals_fresh_seq.

(* simulate twice (with any out-of-place calls in between) = the same result; init, sequence, probe unchanged *)
Theorem C09_model_simulate_idempotent (S : ScalOps) (st : store S) (h : history) (q : nat) (i : option nat)
  (n : option nat) (p : option nat) :
  forallb out_of_place h = true ->
  (forall r, In r (refs (CSimulate q i n p)) -> r < length st) ->
  let c := CSimulate q i n p in
  snd (sem (fst (run_hist (fst (sem st c)) h)) c) = snd (sem st c)
  /\ forall k, k < length st -> look (fst (run_hist (fst (sem st c)) h)) k = look st k.
Proof. exact (simulate_idempotent S st h q i n p). Qed.
Print Assumptions C09_model_simulate_idempotent.

(* a recorded probe value / simulate result is unaffected by ANY later call *)
Theorem C09_model_probe_snapshot (S : ScalOps) (st : store S) (h : history) (p s : nat) :
  look (fst (run_hist (fst (sem st (CAcquire p s))) h)) (length st) = result st (CAcquire p s).
Proof. exact (probe_snapshot S st h p s). Qed.
Print Assumptions C09_model_probe_snapshot.

Theorem C09_model_simulate_snapshot (S : ScalOps) (st : store S) (h : history) (q : nat) (i n p : option nat) :
  look (fst (run_hist (fst (sem st (CSimulate q i n p))) h)) (length st) = result st (CSimulate q i n p).
Proof. exact (simulate_snapshot S st h q i n p). Qed.
Print Assumptions C09_model_simulate_snapshot.

(* in place = out of place, for every operator (differentiable, non-differentiable, MultiOperator) and every state
   matrix, partials included *)
Theorem C09_model_inplace_equals_outofplace (S : ScalOps) (vo vs : value S) :
  apply_value vo vs true = apply_value vo vs false.
Proof. exact (inplace_equals_outofplace S vo vs). Qed.
Print Assumptions C09_model_inplace_equals_outofplace.

(* out-of-place application of a non-differentiable operator preserves its input (state and partials) and returns
   the transformed state with every partial of the input transformed by the operator -- none dropped *)
Theorem C09_model_plain_outofplace_keeps_partials (S : ScalOps) (st : store S) (o s : nat) (p : op S) (sv : smval S) :
  look st o = VOp (DPlain p) -> look st s = VSm sv -> s < length st ->
  look (fst (sem st (CApply o s false))) s = VSm sv /\
  exists q, (sv_nmax sv = None -> q = p) /\
    snd (sem st (CApply o s false)) =
    VSm (mkSmv (mkD (apply q (d_main (sv_d sv))) (map_partials q (d_p1 (sv_d sv))) (map_partials q (d_p2 (sv_d sv)))
                    (d_ok (sv_d sv))) (sv_nmax sv)) /\
    length (map_partials q (d_p1 (sv_d sv))) = length (d_p1 (sv_d sv)) /\
    length (map_partials q (d_p2 (sv_d sv))) = length (d_p2 (sv_d sv)).
Proof. exact (plain_outofplace_keeps_partials S st o s p sv). Qed.
Print Assumptions C09_model_plain_outofplace_keeps_partials.

(* non-vacuity: a history with a reused operator and a repeated simulate evaluates to the expected values *)
Example C09_example :
  @hist_ok QIops ex_store ex_hist [ObNone; ObRes [[qr 1 1 : QIops]]; ObNone; ObRes [[qr 1 1 : QIops]]]
          [(2%nat, ObSm (init k1) [] [])] = true.
Proof. exact purity_example. Qed.
