(* C10 — Nesting, '*' grouping and '@' combination equal sequential application.
   Only statements, each closed by [exact], followed by Print Assumptions. *)
From Coq Require Import List ZArith QArith.
From EPG Require Import Scalar QI State Ops Views Diff DiffExact Combine CombineProofs CombineD NestD.
Import ListNotations.

(* (1) a sequence gives the same state whether written flat, as arbitrarily nested lists, or grouped
   with '*' into multi-operators *)
Theorem C10_simulate_nested_eq_flat (S : ScalOps) (t : seqtree S) (s : sm S) :
  run_tree t s = run (flatten t) s.
Proof. exact (simulate_nested_eq_flat S t s). Qed.
Print Assumptions C10_simulate_nested_eq_flat.

Theorem C10_regrouping_immaterial (S : ScalOps) (t t' : seqtree S) (s : sm S) :
  flatten t = flatten t' -> run_tree t s = run_tree t' s.
Proof. exact (regrouping_immaterial S t t' s). Qed.
Print Assumptions C10_regrouping_immaterial.

(* (2) a multi-operator reports the summed duration and the summed shift count of its members *)
Theorem C10_multi_duration (S : ScalOps) (t : seqtree S) : (tree_duration S t == sumQ (leaves S t))%Q.
Proof. exact (multi_duration S t). Qed.
Theorem C10_multi_nshift (S : ScalOps) (t : seqtree S) : tree_nshift S t = sumN (leaves S t).
Proof. exact (multi_nshift S t). Qed.
Print Assumptions C10_multi_duration.
Print Assumptions C10_multi_nshift.

(* (3) whenever '@' accepts two scalar/matrix operators (scalar@scalar, matrix@matrix, matrix@scalar,
   scalar@matrix, with or without recovery terms) the combined operator acts on any state matrix
   exactly as the operands applied in order *)
Theorem C10_combine_apply_states (S : ScalOps) (L : ScalLaws S) (l1 l2 lc : lin S) (s : sm S) (n : nat) :
  combine_lin l1 l2 = Some lc -> shaped S s n -> apply_lin lc s = apply_lin l2 (apply_lin l1 s).
Proof. exact (combine_apply_states S L l1 l2 lc s n). Qed.
Print Assumptions C10_combine_apply_states.

(* (4) first-order partials of '@'.  combined_ok states what _combine builds (the combined arrays, the
   derivative arrays cd for every key, the merged order1); it is evaluated in Coq on the implementation's
   combined operators by the correspondence (combined_okb).  When both operands declare their parameters
   under their own names with unit coefficients and carry derivative arrays only for declared parameters,
   the combined operator yields, for every state and every previously carried partials, the state AND the
   first-order partials of the operands applied in order. *)
Theorem C10_combine_order1 (S : ScalOps) (L : ScalLaws S) (o1 o2 oc : dop S) (ds : dstate S) (n : nat) :
  combined_ok S o1 o2 oc -> no_alias S o1 -> no_alias S o2 -> darrs_active S o1 -> entries_keys S o2 ->
  darrs_ok S o1 -> darrs_ok S o2 ->
  shaped S (d_main ds) n -> (forall v, opshaped S n (alookup Nat.eqb v (d_p1 ds))) ->
  d_main (dapply oc ds) = d_main (dapply o2 (dapply o1 ds)) /\
  forall v k, oget S (alookup Nat.eqb v (d_p1 (dapply oc ds))) k =
              oget S (alookup Nat.eqb v (d_p1 (dapply o2 (dapply o1 ds)))) k.
Proof. exact (combine_order1 S L o1 o2 oc ds n). Qed.
Print Assumptions C10_combine_order1.

(* (5) nesting and '*' grouping WITH derivatives: for every nested structure of differentiable operators
   (DOp) and operators without differentiable parameter (DPlain), lists iterated and '*' groups applying their
   members in turn (what simulate() does by flattening and what a group called as an operator does since
   /repo c26a99a), the state and ALL first- and second-order partials, hence every Jacobian column and Hessian
   entry, equal those of the flat sequence *)
Theorem C10_nested_eq_flat_with_partials (S : ScalOps) (t : dtree S) (ds : dstate S) :
  drun_tree S t ds = drun (dflatten S t) ds.
Proof. exact (dsimulate_nested_eq_flat S t ds). Qed.
Print Assumptions C10_nested_eq_flat_with_partials.

Theorem C10_nested_probes_eq_flat (S : ScalOps) (t : dtree S) (ds : dstate S) (vars : list var) :
  f0 S (d_main (drun_tree S t ds)) = f0 S (d_main (drun (dflatten S t) ds)) /\
  jacobian (drun_tree S t ds) vars = jacobian (drun (dflatten S t) ds) vars /\
  hessian (drun_tree S t ds) vars = hessian (drun (dflatten S t) ds) vars.
Proof. exact (nested_probes_eq_flat S t ds vars). Qed.
Print Assumptions C10_nested_probes_eq_flat.

(* non-vacuity: '@' accepts a scalar and a matrix operand on the executed instance *)
Example C10_nonvacuous :
  exists lc, combine_lin (@LScalar QIops (@mk3 QIops (qr 1 2) (qr 1 2) (qr 1 1)) (Some (@mk3 QIops (qr 0 1) (qr 0 1) (qr 1 2))))
                         (@LMatrix QIops (@mkM QIops (@mk3 QIops (qr 1 2) (qr 1 2) (qi 0 1 (-1) 1))
                                                    (@mk3 QIops (qr 1 2) (qr 1 2) (qi 0 1 1 1))
                                                    (@mk3 QIops (qi 0 1 (-1) 2) (qi 0 1 1 2) (qr 0 1))) None) = Some lc.
Proof. eexists. reflexivity. Qed.
