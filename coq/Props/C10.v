(* C10 — Nesting, '*' grouping and '@' combination equal sequential application.
   Only statements, each closed by [exact], followed by Print Assumptions. *)
From Coq Require Import List ZArith QArith.
From EPG Require Import Scalar QI State Ops Views Diff Combine CombineProofs.
Import ListNotations.

(* (1) a sequence gives the same state whether written flat, as arbitrarily nested lists, or grouped
   with '*' into multi-operators *)
Theorem C10_simulate_nested_eq_flat (S : ScalOps) (t : seqtree S) (s : sm S) :
  run_tree t s = run (flatten t) s.
Proof. exact (simulate_nested_eq_flat S t s). Qed.
Print Assumptions C10_simulate_nested_eq_flat.

Theorem C10_regrouping_immaterial (S : ScalOps) (t t' : seqtree S) (s : sm S) :
  flatten t = flatten t' -> run_tree t s = run_tree t' s.
Proof. exact (regrouping_immaterial S t t' s). Qed.
Print Assumptions C10_regrouping_immaterial.

(* (2) a multi-operator reports the summed duration and the summed shift count of its members *)
Theorem C10_multi_duration (S : ScalOps) (t : seqtree S) : (tree_duration S t == sumQ (leaves S t))%Q.
Proof. exact (multi_duration S t). Qed.
Theorem C10_multi_nshift (S : ScalOps) (t : seqtree S) : tree_nshift S t = sumN (leaves S t).
Proof. exact (multi_nshift S t). Qed.
Print Assumptions C10_multi_duration.
Print Assumptions C10_multi_nshift.

(* (3) whenever '@' accepts two scalar/matrix operators (scalar@scalar, matrix@matrix, matrix@scalar,
   scalar@matrix, with or without recovery terms) the combined operator acts on any state matrix
   exactly as the operands applied in order *)
Theorem C10_combine_apply_states (S : ScalOps) (L : ScalLaws S) (l1 l2 lc : lin S) (s : sm S) (n : nat) :
  combine_lin l1 l2 = Some lc -> shaped S s n -> apply_lin lc s = apply_lin l2 (apply_lin l1 s).
Proof. exact (combine_apply_states S L l1 l2 lc s n). Qed.
Print Assumptions C10_combine_apply_states.

(* non-vacuity: '@' accepts a scalar and a matrix operand on the executed instance *)
Example C10_nonvacuous :
  exists lc, combine_lin (@LScalar QIops (@mk3 QIops (qr 1 2) (qr 1 2) (qr 1 1)) (Some (@mk3 QIops (qr 0 1) (qr 0 1) (qr 1 2))))
                         (@LMatrix QIops (@mkM QIops (@mk3 QIops (qr 1 2) (qr 1 2) (qi 0 1 (-1) 1))
                                                    (@mk3 QIops (qr 1 2) (qr 1 2) (qi 0 1 1 1))
                                                    (@mk3 QIops (qi 0 1 (-1) 2) (qi 0 1 1 2) (qr 0 1))) None) = Some lc.
Proof. eexists. reflexivity. Qed.
