(* C11 -- Symbolic Sequence layer: chain-rule-exact derivatives, substitution, virtual-operator table.
   Only statements, each closed by [exact], followed by Print Assumptions. *)
From Coq Require Import List String ZArith QArith Reals Lra.
From Coquelicot Require Import Coquelicot.
From EPG Require Import SeqTables Expr ExprProofs.
Import ListNotations.
Local Open Scope R_scope.

(* (0) the generated `math` table is exactly the set of modelled functions and every template resolves;
       in every derivative template the k-th proxy present is Proxy k, so that
       dict(zip(partial.proxies, self.arguments)) binds Proxy k to the k-th argument *)
Theorem C11_tables_closed : tables_closed = true /\ proxies_ok = true.
Proof. exact (conj tables_closed_lemma proxies_ok_lemma). Qed.
Print Assumptions C11_tables_closed.

(* (1) every entry of the generated derivative table is the partial derivative of its function *)
Theorem C11_deriv_table_sound (f : fn) (i : nat) (T : expr) (args : list R) :
  dtab f i = Some T -> List.length args = arity f -> entry_dom f i args ->
  is_derive (fun u => fn_sem f (set_nth i u args)) (nth i args 0) (template_val T args).
Proof. exact (deriv_table_sound_lemma f i T args). Qed.
Print Assumptions C11_deriv_table_sound.

(* (2) Expression.derive is the derivative, for every expression tree *)
Theorem C11_derive_sound (v : string) (rho : string -> R) (e : expr) :
  wd v rho e ->
  is_derive (fun t => eval (upd rho v t) e) (rho v) (eval rho (derive v e)).
Proof. exact (derive_sound_lemma v rho e). Qed.
Print Assumptions C11_derive_sound.

(* (3) substitution (Expression.map, VirtualOperator.map/__call__) commutes with evaluation *)
Theorem C11_map_eval (rho : string -> R) (m : list (string * expr)) (e : expr) :
  eval rho (subst m e) = eval (env_subst rho m) e.
Proof. exact (map_eval_lemma rho m e). Qed.
Print Assumptions C11_map_eval.

(* (4) repeat(): repetition n evaluates like the original operators under the n-th mapping *)
Theorem C11_repeat_spec (rho : string -> R) (ops : list (list expr)) (maps : list (list (string * expr))) :
  map (map (map (eval rho))) (repeat_ops ops maps) =
  map (fun m => map (map (eval (env_subst rho m))) ops) maps.
Proof. exact (repeat_spec_lemma rho ops maps). Qed.
Print Assumptions C11_repeat_spec.

(* (5) virtual-operator table against the generated constructor signatures.  [vop_bad] is COMPUTED from
       the generated tables (names of the entries whose class / positionals / keywords do not match);
       on a correct table it is [] and (5a) is the full statement vop_table_ok. *)
Theorem C11_vop_table_ok (v : vop_entry) :
  In v vop_table -> ~ In (v_name v) vop_bad -> vop_binding_ok v = true.
Proof. exact (vop_table_ok_lemma v). Qed.
Print Assumptions C11_vop_table_ok.

Theorem C11_vop_table_refuted (n : string) :
  In n vop_bad -> exists v, In v vop_table /\ v_name v = n /\ vop_binding_ok v = false.
Proof. exact (vop_table_refuted_lemma n). Qed.
Print Assumptions C11_vop_table_refuted.

(* non-vacuity: d/dx (x / (x*y)) at a point where it is well defined *)
Example C11_example :
  wd "x" (fun _ => 2) (App Fdiv [Var "x"; App Fmul [Var "x"; Var "y"]]).
Proof.
  simpl. repeat split; try discriminate;
    try (intros [|[|i]] H; vm_compute in H |- *; (discriminate || (destruct i; discriminate H))).
  unfold eval; cbn; lra.
Qed.
