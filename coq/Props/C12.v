(* C12 — Probes, timing and modify() report the right quantity at the right time.
   Only statements, each closed by [exact], followed by Print Assumptions.
   Model: Model/Run.v (sim = simulate_simple, adc_times = get_adc_times, modify_model = modify with the
   default modifier, insert_E = the specification of modify).  S: any scalar ring; par, mkT, mkE, mkP,
   pscale, is_one, pbig, pzero: the parameter values and operator constructors (arbitrary).            *)
From Coq Require Import List ZArith QArith Qcanon.
From EPG Require Import Scalar QI State Ops Run RunProofs.
Import ListNotations.

(* one entry per probe occurrence, in order; the j-th entry is the row of requested quantities of the
   state reached by the operators that precede the j-th probe (each batch member run separately);
   appending further items never changes what was recorded (snapshot semantics) *)
Theorem C12_probe_count_order (S : ScalOps) (par : Type) (mkT : par -> par -> op S)
    (mkE : Qc -> par -> par -> par -> op S) (mkP : Qc -> par -> op S)
    (seq : list (item S par)) (ov : overrides S) (b : bstate S) (tic : Qc) :
  length (fst (sim S par mkT mkE mkP seq ov b tic)) = count_probes S par seq /\
  (forall j, (j < count_probes S par seq)%nat -> exists p, nth_probe S par seq j = Some p /\
     nth j (fst (sim S par mkT mkE mkP seq ov b tic)) [] =
     row_of p ov (map (run (ops_before S par mkT mkE mkP seq j)) b)) /\
  (forall rest, firstn (count_probes S par seq) (fst (sim S par mkT mkE mkP (seq ++ rest) ov b tic)) =
                fst (sim S par mkT mkE mkP seq ov b tic)).
Proof. exact (probe_count_order S par mkT mkE mkP seq ov b tic). Qed.
Print Assumptions C12_probe_count_order.

(* acquisition times: those of get_adc_times; the j-th is the sum of the durations of all items up to and
   including the j-th probe; non-decreasing when no duration is negative *)
Theorem C12_times_cumsum (S : ScalOps) (par : Type) (mkT : par -> par -> op S)
    (mkE : Qc -> par -> par -> par -> op S) (mkP : Qc -> par -> op S)
    (seq : list (item S par)) (ov : overrides S) (b : bstate S) (tic : Qc) :
  snd (sim S par mkT mkE mkP seq ov b tic) = adc_times_from seq tic /\
  length (adc_times_from seq tic) = count_probes S par seq /\
  (forall j, (j < count_probes S par seq)%nat ->
     nth j (adc_times_from seq tic) (Q2Qc 0) = (tic + dur_upto S par seq j)%Qc) /\
  ((forall i, In i seq -> (0 <= dur i)%Qc) -> sorted_from tic (adc_times_from seq tic)).
Proof. exact (times_cumsum S par mkT mkE mkP seq ov b tic). Qed.
Print Assumptions C12_times_cumsum.

(* probe= override: same times, same number of rows; entry k of row j is the override probe's quantity
   (its own weights / reduce) of the state at the j-th in-sequence probe, post-processed by THAT probe's
   phase compensation; a None entry records the in-sequence probe itself *)
Theorem C12_override_keeps_when_and_post (S : ScalOps) (par : Type) (mkT : par -> par -> op S)
    (mkE : Qc -> par -> par -> par -> op S) (mkP : Qc -> par -> op S)
    (seq : list (item S par)) (ov : overrides S) (b : bstate S) (tic : Qc) :
  ov <> [] ->
  snd (sim S par mkT mkE mkP seq ov b tic) = snd (sim S par mkT mkE mkP seq [] b tic) /\
  length (fst (sim S par mkT mkE mkP seq ov b tic)) = length (fst (sim S par mkT mkE mkP seq [] b tic)) /\
  (forall j p, nth_probe S par seq j = Some p ->
     nth j (fst (sim S par mkT mkE mkP seq ov b tic)) [] =
       map (fun pb => ppost p (pacq (match pb with Some q => q | None => p end)
                                    (map (run (ops_before S par mkT mkE mkP seq j)) b))) ov /\
     nth j (fst (sim S par mkT mkE mkP seq [] b tic)) [] =
       [ppost p (pacq p (map (run (ops_before S par mkT mkE mkP seq j)) b))]).
Proof. exact (override_keeps_when_and_post S par mkT mkE mkP seq ov b tic). Qed.
Print Assumptions C12_override_keeps_when_and_post.

(* ADC phase compensation: recorded = quantity * phasor (after weights and reduction); a unit-modulus
   phasor leaves the modulus unchanged *)
Theorem C12_adc_phase (S : ScalOps) (L : ScalLaws S) (p pb : probe S) (ph : S) (b : bstate S) :
  pphasor p = Some [ph] ->
  acquire pb (ppost p) b = map (fun v => (v * ph)%K) (pacq pb b) /\
  ((ph * kconj ph)%K = k1 ->
   List.Forall2 (fun r v => (r * kconj r)%K = (v * kconj v)%K) (acquire pb (ppost p) b) (pacq pb b)).
Proof. exact (adc_phase S L p pb ph b). Qed.
Print Assumptions C12_adc_phase.

(* un-batched plain Adc(attr, phase): the j-th recorded number is phasor * attr(state after the prefix) *)
Theorem C12_probe_value_unbatched (S : ScalOps) (par : Type) (mkT : par -> par -> op S)
    (mkE : Qc -> par -> par -> par -> op S) (mkP : Qc -> par -> op S)
    (seq : list (item S par)) (s : sm S) (tic : Qc) (j : nat) (p : probe S) (ph : S) :
  nth_probe S par seq j = Some p -> (forall fs, pq p <> QTuple fs) ->
  pweights p = None -> reduces p = false -> pphasor p = Some [ph] ->
  nth j (fst (sim S par mkT mkE mkP seq [] [s] tic)) [] =
  [[(qeval (pq p) (run (ops_before S par mkT mkE mkP seq j) s) * ph)%K]].
Proof. exact (probe_value_unbatched S par mkT mkE mkP seq s tic j p ph). Qed.
Print Assumptions C12_probe_value_unbatched.

(* tuple / list valued probe (Probe("(F0, Z0)"), Probe(lambda sm: (sm.F, sm.Z))) at the j-th occurrence: the
   entry is the concatenation of its components evaluated on the state reached by the prefix *)
Theorem C12_tuple_probe_value (S : ScalOps) (par : Type) (mkT : par -> par -> op S)
    (mkE : Qc -> par -> par -> par -> op S) (mkP : Qc -> par -> op S)
    (seq : list (item S par)) (b : bstate S) (tic : Qc) (j : nat) (p : probe S) (fs : list (sm S -> list S)) :
  nth_probe S par seq j = Some p -> pq p = QTuple fs ->
  pweights p = None -> reduces p = false -> pphasor p = None ->
  nth j (fst (sim S par mkT mkE mkP seq [] b tic)) [] =
  [flat_map (fun f => flat_map f (map (run (ops_before S par mkT mkE mkP seq j)) b)) fs].
Proof. exact (tuple_probe_value S par mkT mkE mkP seq b tic j p fs). Qed.
Print Assumptions C12_tuple_probe_value.

(* weights along the batch axis: weighted sum when reducing (default with weights, True, axes),
   pointwise products with reduce=False, sum times the weight for a single weight *)
Theorem C12_weights_reduce (S : ScalOps) (L : ScalLaws S) (p : probe S) (w : value S) (b : bstate S) :
  pweights p = Some w ->
  (length w = length (qarr (pq p) b) -> preduce p <> RFalse -> pacq p b = [wsum S (qarr (pq p) b) w]) /\
  (length w = length (qarr (pq p) b) -> preduce p = RFalse ->
     pacq p b = map (fun uv => (fst uv * snd uv)%K) (combine (qarr (pq p) b) w)) /\
  (forall c, w = [c] -> preduce p <> RFalse -> pacq p b = [(ksum (qarr (pq p) b) * c)%K]).
Proof. exact (weights_reduce S L p w b). Qed.
Print Assumptions C12_weights_reduce.

Theorem C12_reduce_only (S : ScalOps) (p : probe S) (b : bstate S) :
  pweights p = None ->
  pacq p b = if reduces p then [ksum (qarr (pq p) b)] else qarr (pq p) b.
Proof. exact (reduce_only S p b). Qed.
Print Assumptions C12_reduce_only.

(* MultiOperator.duration (sum accumulated by append) = sum of the durations of the flattened members *)
Theorem C12_multi_duration (S : ScalOps) (par : Type) (t : tree S par) :
  tree_dur t = total_dur S par (flat t).
Proof. exact (tree_dur_flat S par t). Qed.
Print Assumptions C12_multi_duration.

(* modify(): the flattened result is the original sequence with flip angles scaled and, after every item of
   positive duration, an evolution (E, or P when only g is given) of that duration and own duration 0 —
   for every sequence in which equal object identities mean equal operators (memo per object);
   kw = "some keyword parameter was passed" (without any, modify returns its argument) *)
Theorem C12_modify_flat (S : ScalOps) (par : Type) (pscale : par -> par -> par) (is_one : par -> bool)
    (pbig pzero : par) (l : list (tree S par)) (P : mparams par) (kw : bool) :
  ids_consistent S par (flat_seq l) -> (kw = false -> has_params par P = false) ->
  flat_seq (modify_model S par pscale is_one pbig pzero l P kw) =
  insert_E S par pscale is_one pbig pzero (flat_seq l) P.
Proof. exact (modify_flat S par pscale is_one pbig pzero l P kw). Qed.
Print Assumptions C12_modify_flat.

Theorem C12_modify_equiv (S : ScalOps) (par : Type) (mkT : par -> par -> op S)
    (mkE : Qc -> par -> par -> par -> op S) (mkP : Qc -> par -> op S)
    (pscale : par -> par -> par) (is_one : par -> bool) (pbig pzero : par)
    (l : list (tree S par)) (P : mparams par) (kw : bool) (ov : overrides S) (b : bstate S) :
  ids_consistent S par (flat_seq l) -> (kw = false -> has_params par P = false) ->
  simulate_model S par mkT mkE mkP (modify_model S par pscale is_one pbig pzero l P kw) ov b =
  simulate_model S par mkT mkE mkP (map Leaf (insert_E S par pscale is_one pbig pzero (flat_seq l) P)) ov b.
Proof. exact (modify_equiv S par mkT mkE mkP pscale is_one pbig pzero l P kw ov b). Qed.
Print Assumptions C12_modify_equiv.

Theorem C12_modify_times (S : ScalOps) (par : Type) (pscale : par -> par -> par) (is_one : par -> bool)
    (pbig pzero : par) (l : list (tree S par)) (P : mparams par) (kw : bool) :
  ids_consistent S par (flat_seq l) -> (kw = false -> has_params par P = false) ->
  get_adc_times (modify_model S par pscale is_one pbig pzero l P kw) = get_adc_times l.
Proof. exact (modify_times S par pscale is_one pbig pzero l P kw). Qed.
Print Assumptions C12_modify_times.

(* every element returned by modify() keeps the duration of the operator it replaces; probes are kept *)
Theorem C12_modify_keeps_durations_and_probes (S : ScalOps) (par : Type) (pscale : par -> par -> par)
    (is_one : par -> bool) (pbig pzero : par) (P : mparams par) :
  (forall i : item S par, tree_dur (modifier S par pscale is_one pbig pzero P i) = dur i) /\
  (forall seq, count_probes S par (insert_E S par pscale is_one pbig pzero seq P) = count_probes S par seq).
Proof.
  exact (conj (modifier_dur S par pscale is_one pbig pzero P)
              (fun seq => insert_E_probes S par pscale is_one pbig pzero seq P)).
Qed.
Print Assumptions C12_modify_keeps_durations_and_probes.

(* non-vacuity: a concrete timed sequence on the executed instance (the same object used twice) meets the
   hypothesis of the modify theorems, and the model computes the expected values and times for it *)
Example C12_nonvacuous :
  let w : item QIops Qc := IOp 0 (DOp (@OWait QIops)) (Q2Qc (3 # 2)) in
  let t : item QIops Qc := IOp 3 (DT (Q2Qc 90) (Q2Qc 0)) (Q2Qc (1 # 2)) in
  let a : item QIops Qc := IProbe 6 (mkProbe (@QZ0 QIops) None RNone (Some [qi 0 1 1 1])) (Q2Qc 0) in
  let l := [Leaf t; Node true [Leaf w; Leaf a]; Leaf w; Leaf a] in
  ids_consistent QIops Qc (flat_seq l) /\
  qceqb (get_adc_times (modify_model QIops Qc Qcmult (Qc_eq_bool (Q2Qc 1)) (Q2Qc 10000000000) (Q2Qc 0) l
                   (mkMP None (Some (Q2Qc 50)) None (Some (Q2Qc (1 # 2)))) true)) [Q2Qc 2; Q2Qc (7 # 2)] = true /\
  simout_eqb (fst (simulate_model QIops Qc (fun _ _ => OWait) (fun _ _ _ _ => OSpoil) (fun _ _ => OWait) l []
         [@init QIops (qr 2 1)])) (@Single QIops [[qi 0 1 2 1]; [qi 0 1 2 1]]) = true.
Proof.
  intros w t a l. split; [|split; vm_compute; reflexivity].
  intros i j Hi Hj Hid.
  change (flat_seq l) with [t; w; a; w; a] in Hi, Hj.
  destruct Hi as [<-|[<-|[<-|[<-|[<-|[]]]]]]; destruct Hj as [<-|[<-|[<-|[<-|[<-|[]]]]]];
    try reflexivity; discriminate Hid.
Qed.
