(* C13 — Truncation, pruning and gridding are sound, with known exactness horizons (1-D truncation proved).
   Only statements, each closed by [exact], followed by Print Assumptions. *)
From Coq Require Import List ZArith.
From EPG Require Import Scalar QI State Ops Views Trunc.
Import ListNotations.

(* (1) with a cap m no phase state beyond m is kept (the 1-D state count never exceeds m) *)
Theorem C13_trunc_cap (S : ScalOps) (m : nat) (d : Z) (s : sm S) (n : nat) : shaped S s n ->
  exists n', shaped S (apply (capped S m (OShift d None)) s) n' /\ (n' <= m)%nat.
Proof. exact (trunc_cap S m d s n). Qed.
Print Assumptions C13_trunc_cap.

(* (2) for every program, the truncated run equals the untruncated one on all phase states
   |k| <= 2m+1-A, A = accumulated absolute shift since the last reset (steps of any size and sign) *)
Theorem C13_trunc_horizon (S : ScalOps) (L : ScalLaws S) (m : nat) (ops : list (op S)) (A : nat) (t u : sm S) :
  inv S m A t u -> inv S m (acc_run S ops A) (run (map (capped S m) ops) t) (run (map (uncapped S) ops) u).
Proof. exact (trunc_horizon S L m ops A t u). Qed.
Print Assumptions C13_trunc_horizon.

(* (3) hence every F0/Z0 acquisition made while A <= 2m+1 is identical to the untruncated simulation *)
Theorem C13_trunc_F0_Z0_exact (S : ScalOps) (L : ScalLaws S) (m : nat) (ops : list (op S)) (s : sm S) (n : nat) :
  shaped S s n -> (forall k, k <> 0%Z -> gete S s k = t0) -> (acc_run S ops n <= 2 * m + 1)%nat ->
  get S (run (map (capped S m) ops) s) 0 = get S (run (map (uncapped S) ops) s) 0.
Proof. exact (trunc_F0_Z0_exact S L m ops s n). Qed.
Print Assumptions C13_trunc_F0_Z0_exact.

(* non-vacuity: the hypotheses hold for simulate()'s initial state *)
Example C13_nonvacuous : shaped QIops (@init QIops (qr 1 1)) 0 /\ (forall k, k <> 0%Z -> gete QIops (@init QIops (qr 1 1)) k = t0).
Proof.
  split; [split; reflexivity|]. intros k Hk. unfold gete, init; cbn [equ].
  rewrite ListLemmas.getZ_single. destruct (Z.eqb_spec k 0); [contradiction|reflexivity].
Qed.
