(* C13 — Truncation, pruning and gridding are sound, with known exactness horizons (1-D truncation proved).
   Only statements, each closed by [exact], followed by Print Assumptions. *)
From Coq Require Import List ZArith QArith.
From EPG Require Import Scalar QI State Ops Views Trunc ShiftND ShiftNDProofs PruneProofs.
Import ListNotations.

(* (1) with a cap m no phase state beyond m is kept (the 1-D state count never exceeds m) *)
Theorem C13_trunc_cap (S : ScalOps) (m : nat) (d : Z) (s : sm S) (n : nat) : shaped S s n ->
  exists n', shaped S (apply (capped S m (OShift d None)) s) n' /\ (n' <= m)%nat.
Proof. exact (trunc_cap S m d s n). Qed.
Print Assumptions C13_trunc_cap.

(* (2) for every program, the truncated run equals the untruncated one on all phase states
   |k| <= 2m+1-A, A = accumulated absolute shift since the last reset (steps of any size and sign) *)
Theorem C13_trunc_horizon (S : ScalOps) (L : ScalLaws S) (m : nat) (ops : list (op S)) (A : nat) (t u : sm S) :
  inv S m A t u -> inv S m (acc_run S ops A) (run (map (capped S m) ops) t) (run (map (uncapped S) ops) u).
Proof. exact (trunc_horizon S L m ops A t u). Qed.
Print Assumptions C13_trunc_horizon.

(* (3) hence every F0/Z0 acquisition made while A <= 2m+1 is identical to the untruncated simulation *)
Theorem C13_trunc_F0_Z0_exact (S : ScalOps) (L : ScalLaws S) (m : nat) (ops : list (op S)) (s : sm S) (n : nat) :
  shaped S s n -> (forall k, k <> 0%Z -> gete S s k = t0) -> (acc_run S ops n <= 2 * m + 1)%nat ->
  get S (run (map (capped S m) ops) s) 0 = get S (run (map (uncapped S) ops) s) 0.
Proof. exact (trunc_F0_Z0_exact S L m ops s n). Qed.
Print Assumptions C13_trunc_F0_Z0_exact.

(* non-vacuity: the hypotheses hold for simulate()'s initial state *)
Example C13_nonvacuous : shaped QIops (@init QIops (qr 1 1)) 0 /\ (forall k, k <> 0%Z -> gete QIops (@init QIops (qr 1 1)) k = t0).
Proof.
  split; [split; reflexivity|]. intros k Hk. unfold gete, init; cbn [equ].
  rewrite ListLemmas.getZ_single. destruct (Z.eqb_spec k 0); [contradiction|reflexivity].
Qed.

(* ---------------------------------------------------------------- state pruning of the n-D shift (Proofs/PruneProofs.v)
   [shiftnd negl keys amps dk kdim nmax prune]: [negl] is the tolerance test isclose(x, 0, atol=tol) on one state,
   [amps] one amplitude list per batch entry; the plan and the relocated amplitudes are those of the unpruned shift *)

(* (4) pruning never removes the zero state *)
Theorem C13_prune_keeps_centre (S : ScalOps) (negl : triple S -> bool) (keys : list key) (amps : list (list (triple S)))
  (dk : key) (kdim : nat) (nmax : option Z) :
  let p := shiftnd_plan keys dk kdim nmax in
  (0 < length (pk p))%nat ->
  In (nth ((length (pk p) - 1) / 2) (pk p) []) (fst (shiftnd negl keys amps dk kdim nmax true)).
Proof. exact (prune_keeps_centre S negl keys amps dk kdim nmax). Qed.
Print Assumptions C13_prune_keeps_centre.

(* (5) a state is removed only if it is below the tolerance in EVERY batch entry *)
Theorem C13_prune_removes_only_negligible (S : ScalOps) (negl : triple S -> bool) (keys : list key)
  (amps : list (list (triple S))) (dk : key) (kdim : nat) (nmax : option Z) (j : nat) :
  let p := shiftnd_plan keys dk kdim nmax in
  let outs := map (relocate p) amps in
  (j < length (pk p))%nat ->
  nth j (keep_centre (nonzero_mask negl (length (pk p)) outs)) false = false ->
  forall o, In o outs -> negl (nth j o t0) = true.
Proof. exact (prune_removes_only_negligible S negl keys amps dk kdim nmax j). Qed.
Print Assumptions C13_prune_removes_only_negligible.

(* (6) when no state is below the tolerance in all entries (tolerance 0 on non-zero states), pruning is exact *)
Theorem C13_prune_nothing_negligible_exact (S : ScalOps) (negl : triple S -> bool) (keys : list key)
  (amps : list (list (triple S))) (dk : key) (kdim : nat) (nmax : option Z) :
  let p := shiftnd_plan keys dk kdim nmax in
  let outs := map (relocate p) amps in
  (forall j, (j < length (pk p))%nat -> exists o, In o outs /\ negl (nth j o t0) = false) ->
  shiftnd negl keys amps dk kdim nmax true = shiftnd negl keys amps dk kdim nmax false.
Proof. exact (prune_nothing_negligible S negl keys amps dk kdim nmax). Qed.
Print Assumptions C13_prune_nothing_negligible_exact.

(* (7) merging wavenumbers that fall in the same grid cell adds their amplitudes exactly: the sums of the F+ and of
   the Z amplitudes (the value reconstructed at position 0) are those of the unmerged states, for every rounding
   function, grid and shift (same lemma as C04_merge_adds_exact) *)
Theorem C13_merge_position0_exact (S : ScalOps) (L : ScalLaws S) (pre : Q -> Q) (rnd : Q -> Z)
  (wav : list qvec) (dk grid : qvec) (amps : list (triple S)) :
  length amps = length wav ->
  ksum (map (@fp S) (merge_amps (merge_plan pre rnd wav dk grid) amps)) = ksum (map (@fp S) amps) /\
  ksum (map (@fz S) (merge_amps (merge_plan pre rnd wav dk grid) amps)) = ksum (map (@fz S) amps).
Proof. exact (merge_adds_exact S L pre rnd wav dk grid amps). Qed.
Print Assumptions C13_merge_position0_exact.

(* (8) n-D truncation: with a cap m, every wavenumber kept by the n-D shift (pruned or not) passes the cap test
   [within kdim m] = all |components| <= m in at least one batch entry ... *)
Theorem C13_nd_cap (S : ScalOps) (negl : triple S -> bool) (keys : list key) (amps : list (list (triple S)))
  (dk : key) (kdim : nat) (m : Z) (prune : bool) (k : key) :
  In k (fst (shiftnd negl keys amps dk kdim (Some m) prune)) -> within kdim m k = true.
Proof. exact (nd_cap S negl keys amps dk kdim m prune k). Qed.
Print Assumptions C13_nd_cap.

(* ... which for un-batched wavenumbers means: no component exceeds the cap *)
Theorem C13_nd_cap_components (kdim : nat) (m : Z) (k : key) : (0 < kdim)%nat -> length k = kdim ->
  within kdim m k = true -> forall x, In x k -> (Z.abs x <= m)%Z.
Proof. exact (within_single kdim m k). Qed.
Print Assumptions C13_nd_cap_components.

(* real / complex numbers are imported only here, after the algebraic theorems *)
From Coq Require Import Reals.
From Coquelicot Require Import Coquelicot.
From EPG Require PruneBound.
From EPG Require Import CInst.

(* (9) pruning bound, ONE pruning step (PARTIAL: the property's bound 2*eps*cumulative-state-count over a whole
   program also needs the propagation of the removed amplitudes through the following operators, which is not
   mechanised): a value  sum_j chi_j F_j  with |chi_j| <= 1 (exp(i k_j x); 1 at position 0) reconstructed from the
   states changes by at most eps per removed state when every removed state has |F_j| <= eps *)
Theorem C13_prune_value_bound_step_partial (eps : R) (m : list bool) (l : list (C * C)) :
  (0 <= eps)%R -> length m = length l ->
  (forall j, (j < length l)%nat -> (Cmod (fst (nth j l (RtoC 0, RtoC 0))) <= 1)%R) ->
  (forall j, (j < length l)%nat -> nth j m true = false -> (Cmod (snd (nth j l (RtoC 0, RtoC 0))) <= eps)%R) ->
  (Cmod (Cminus (PruneBound.psum l) (PruneBound.psum (select m l))) <= eps * INR (PruneBound.nremoved m))%R.
Proof. exact (PruneBound.prune_value_bound eps m l). Qed.
Print Assumptions C13_prune_value_bound_step_partial.

(* (10) with tolerance 0 (only exact zeros removed) the reconstructed value is unchanged *)
Theorem C13_prune_tol0_exact (m : list bool) (l : list (C * C)) :
  length m = length l ->
  (forall j, (j < length l)%nat -> (Cmod (fst (nth j l (RtoC 0, RtoC 0))) <= 1)%R) ->
  (forall j, (j < length l)%nat -> nth j m true = false -> (Cmod (snd (nth j l (RtoC 0, RtoC 0))) <= 0)%R) ->
  PruneBound.psum (select m l) = PruneBound.psum l.
Proof. exact (PruneBound.prune_value_exact_tol0 m l). Qed.
Print Assumptions C13_prune_tol0_exact.

(* (11) the same bound on the MODEL's own pruning mask: for the complex instance of [shiftnd], any batch entry o of the
   relocated amplitudes and any reconstruction weights chi with |chi_j| <= 1, pruning with the mask
   keep_centre (nonzero_mask negl ..) changes  sum_j chi_j F+_j(o)  by at most eps per removed state, provided the
   tolerance test implies |F+| <= eps (still ONE pruning step) *)
Theorem C13_prune_step_bound_model_partial (negl : triple Cops -> bool) (eps : R) (keys : list key)
    (amps : list (list (triple Cops))) (dk : key) (kdim : nat) (nmax : option Z) (chi : nat -> C) (o : list (triple Cops)) :
  let p := shiftnd_plan keys dk kdim nmax in
  let n2 := length (pk p) in
  let outs := map (relocate p) amps in
  let mask := keep_centre (nonzero_mask negl n2 outs) in
  let l := map (fun j => (chi j, fp (nth j o t0))) (seq 0 n2) in
  (0 <= eps)%R ->
  (forall t : triple Cops, negl t = true -> (Cmod (fp t) <= eps)%R) ->
  (forall j, (Cmod (chi j) <= 1)%R) ->
  In o outs ->
  (Cmod (Cminus (PruneBound.psum l) (PruneBound.psum (select mask l))) <= eps * INR (PruneBound.nremoved mask))%R.
Proof. exact (PruneBound.prune_step_bound_model negl eps keys amps dk kdim nmax chi o). Qed.
Print Assumptions C13_prune_step_bound_model_partial.
