(* C14 — Lossless operators are isometries, dissipative ones are contractions.
   Only statements, each closed by [exact], followed by Print Assumptions.
   norm2 / code_norm2 / dev2 / rop / rapply / rvalid / bounded: Model/Norms.v;  T_op, Phi_op, P_op, E_op: GENERATED. *)
From Coq Require Import Reals ZArith List Bool Lra.
From Coquelicot Require Import Coquelicot.
From EPG Require Import Scalar State Ops CInst Synth Dft Views WfProof SynthStep Ensemble Transition Evolution CoefPhys
  Norms NormsProofs.
Import ListNotations.
Local Open Scope R_scope.

(* (1) what utils.get_norm sums, sum_k |F-(k)|^2 + |Z(k)|^2, is the physical norm
   sum_k 1/2|F+(k)|^2 + 1/2|F-(k)|^2 + |Z(k)|^2 on every well-formed state matrix *)
Theorem C14_norm_code_eq (s : sm Cops) : wf Cops s -> code_norm2 s = norm2 s.
Proof. exact (norm_code_eq s). Qed.
Print Assumptions C14_norm_code_eq.

(* (1') code_norm2 (function view) is the sum utils.get_norm takes over the stored rows; [list_norm2] is the
   executable form that the check evaluates at exact rationals against StateMatrix.norm *)
Theorem C14_code_norm2_list (s : sm Cops) (n : nat) :
  shaped Cops s n -> RtoC (code_norm2 s) = @list_norm2 Cops (st s).
Proof. exact (code_norm2_list s n). Qed.
Print Assumptions C14_code_norm2_list.

(* (2) RF pulses, phase offsets and precession: isometries of every state matrix, all parameter values *)
Theorem C14_T_state_isometry (alpha phi : R) (s : sm Cops) : norm2 (apply (op_T alpha phi) s) = norm2 s.
Proof. exact (T_state_isometry alpha phi s). Qed.
Print Assumptions C14_T_state_isometry.

Theorem C14_Phi_state_isometry (phi : R) (s : sm Cops) : norm2 (apply (op_Phi phi) s) = norm2 s.
Proof. exact (Phi_state_isometry phi s). Qed.
Print Assumptions C14_Phi_state_isometry.

Theorem C14_P_state_isometry (tau g : R) (s : sm Cops) : norm2 (apply (op_P tau g) s) = norm2 s.
Proof. exact (P_state_isometry tau g s). Qed.
Print Assumptions C14_P_state_isometry.

(* (3) untruncated, non-merging shift by any d: isometry of every state matrix with 2n+1 states *)
Theorem C14_S_isometry (d : Z) (s : sm Cops) (n : nat) :
  shaped Cops s n -> norm2 (apply (OShift d None) s) = norm2 s.
Proof. exact (S_isometry d s n). Qed.
Print Assumptions C14_S_isometry.

(* (4) relaxation never increases the norm of the deviation from equilibrium *)
Theorem C14_E_contracts_deviation (tau T1 T2 g : R) (s : sm Cops) :
  0 <= tau -> 0 < T1 -> 0 < T2 -> wf Cops s -> dev2 (apply (op_E tau T1 T2 g) s) <= dev2 s.
Proof. exact (E_contracts_deviation tau T1 T2 g s). Qed.
Print Assumptions C14_E_contracts_deviation.

(* (5) spoiling never increases the norm, nor the norm of the deviation *)
Theorem C14_spoiler_contracts (s : sm Cops) :
  norm2 (apply OSpoil s) <= norm2 s /\ (wf Cops s -> dev2 (apply OSpoil s) <= dev2 s).
Proof. exact (spoiler_contracts s). Qed.
Print Assumptions C14_spoiler_contracts.

(* (6) diffusion, abstract form (attenuation factors in [0,1] per phase state; D._apply structure of
   Model/Diffusion.v): contraction of the norm, and of the deviation when Z(0) is left alone *)
Theorem C14_D_contracts (aT aL : Z -> R) (s : sm Cops) : wf Cops s ->
  (forall k, 0 <= aT k <= 1) -> (forall k, 0 <= aL k <= 1) ->
  norm2 (apply_atten aT aL s) <= norm2 s.
Proof. exact (D_contracts aT aL s). Qed.
Print Assumptions C14_D_contracts.

Theorem C14_D_contracts_deviation (aT aL : Z -> R) (s : sm Cops) : wf Cops s ->
  (forall k, 0 <= aT k <= 1) -> (forall k, 0 <= aL k <= 1) -> aL 0%Z = 1 ->
  dev2 (apply_atten aT aL s) <= dev2 s.
Proof. exact (D_contracts_deviation aT aL s). Qed.
Print Assumptions C14_D_contracts_deviation.

(* (6') the GENERATED attenuation formulas (1-D, scalar D >= 0, tau >= 0, any kvalue and gradient) meet
   the hypotheses of (6) and of the signal bound *)
Theorem C14_diff1d_valid (tau D kv sh : R) : 0 <= tau -> 0 <= D ->
  rvalid (RD (diff1d_aT tau D kv sh) (diff1d_aL tau D kv)) /\ diff1d_aL tau D kv 0%Z = 1.
Proof. exact (diff1d_valid tau D kv sh). Qed.
Print Assumptions C14_diff1d_valid.

(* (7) the invariant  wf /\ equilibrium = PD /\ norm2 <= PD^2  is kept by every operator of the list
   (E with T2 <= 2 T1) ... *)
Theorem C14_bounded_step (PD : R) (o : rop) (s : sm Cops) : rvalid o -> bounded PD s -> bounded PD (rapply o s).
Proof. exact (bounded_step PD o s). Qed.
Print Assumptions C14_bounded_step.

(* ... hence by every program *)
Theorem C14_signal_le_PD_run (PD : R) (ops : list rop) (s : sm Cops) :
  List.Forall rvalid ops -> bounded PD s -> bounded PD (rrun ops s).
Proof. exact (signal_le_PD_run PD ops s). Qed.
Print Assumptions C14_signal_le_PD_run.

(* (8) |F0|^2 <= norm2 *)
Theorem C14_F0_le_norm (s : sm Cops) : wf Cops s -> cnorm2 (F0 Cops s) <= norm2 s.
Proof. exact (F0_le_norm s). Qed.
Print Assumptions C14_F0_le_norm.

(* (9) starting from equilibrium with density PD >= 0, no program yields |F0| > PD *)
Theorem C14_signal_le_PD (PD : R) (ops : list rop) : 0 <= PD -> List.Forall rvalid ops ->
  Cmod (F0 Cops (rrun ops (@init Cops (RtoC PD)))) <= PD.
Proof. exact (signal_le_PD PD ops). Qed.
Print Assumptions C14_signal_le_PD.

(* (10) Parseval: for a principal N-th root of unity w on the unit circle, N > 2n, the squared norm is the
   ensemble mean over the N isochromats (dephasing factors w^m) of the squared weighted length of
   M(w^m) = sum_k w^(m k) state(k) *)
Theorem C14_norm_is_rms (w wi : C) (wwi : Cmult w wi = RtoC 1) (wconj : Cconj w = wi) (N : nat)
  (principal : forall j, (j <> 0)%Z -> (- Z.of_nat N < j < Z.of_nat N)%Z ->
      sumn Cops N (fun m => zpow Cops w wi (j * Z.of_nat m)%Z) = @k0 Cops)
  (s : sm Cops) (n : nat) : shaped Cops s n -> (2 * n < N)%nat ->
  INR N * norm2 s =
  sumn Rops N (fun m => wnorm2 (M Cops (zpow Cops w wi (Z.of_nat m)) (zpow Cops w wi (- Z.of_nat m)) s)).
Proof. exact (norm_is_rms w wi wwi wconj N principal s n). Qed.
Print Assumptions C14_norm_is_rms.

(* ... such a w exists for every N (exp(2 pi i / N)): no hypothesis left *)
Theorem C14_norm_is_rms_omega (N : nat) (s : sm Cops) (n : nat) : shaped Cops s n -> (2 * n < N)%nat ->
  norm2 s = / INR N *
  sumn Rops N (fun m => wnorm2 (M Cops (zpow Cops (omega N) (omega_inv N) (Z.of_nat m))
                                      (zpow Cops (omega N) (omega_inv N) (- Z.of_nat m)) s)).
Proof. exact (norm_is_rms_omega N s n). Qed.
Print Assumptions C14_norm_is_rms_omega.

(* ... and M(w^m) of the final state IS isochromat m simulated independently (C01): the norm is the RMS
   magnetisation length of the ensemble, for every untruncated program of valid operators *)
Theorem C14_norm_is_rms_of_isochromats (N : nat) (ops : list (op Cops)) (s0 : sm Cops) :
  wf Cops s0 -> List.Forall (wf_op Cops) ops -> no_trunc_run Cops ops s0 ->
  (2 * nstate (run ops s0) < N)%nat ->
  norm2 (run ops s0) =
  / INR N * sumn Rops N (fun m => wnorm2 (Ensemble.iso Cops (omega N) (omega_inv N) m ops s0)).
Proof. exact (norm_is_rms_of_isochromats N ops s0). Qed.
Print Assumptions C14_norm_is_rms_of_isochromats.

(* the weighted length of (M+, M-, Mz) = (x + i y, x - i y, z) is the squared length of (x, y, z) *)
Theorem C14_wnorm2_of_xyz (x y z : R) : wnorm2 (of_xyz (x, y, z)) = x * x + y * y + z * z.
Proof. exact (wnorm2_of_xyz x y z). Qed.
Print Assumptions C14_wnorm2_of_xyz.

(* non-vacuity: a concrete program satisfies the side conditions *)
Example C14_nonvacuous :
  List.Forall rvalid [RT 30 10; RS 1; RE 10 1000 100 0; RSpoil; RD (diff1d_aT 5 1 1 0) (diff1d_aL 5 1 1); RP 2 3; RPhi 4; RReset; RWait]
  /\ bounded 1 (@init Cops (RtoC 1)).
Proof.
  split; [|exact (bounded_init 1)].
  repeat (apply List.Forall_cons); try apply List.Forall_nil; try exact I.
  - cbn. lra.
  - apply (diff1d_valid 5 1 1 0); lra.
Qed.
