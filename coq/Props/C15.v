(* C15 -- Imaging probe: voxel shape, off-resonance / T2' modulation, weights.
   Only statements, each closed by [exact], followed by Print Assumptions.
   Model: Model/Imaging.v (utils.imaging, Imaging._acquire, System); proofs: Proofs/ImagingProofs.v.
   PARTIAL in 2-3 dimensions: the 'box' factor is proved to be the voxel average per axis and the
   ITERATED average in 2-D; the product over the wavenumber columns is the definition of the separable
   average -- Fubini (iterated = area/volume average) is not proved. *)
From Coq Require Import Reals List Bool.
From Coquelicot Require Import Coquelicot.
From EPG Require Import Scalar CInst Imaging ImagingProofs.
Import ListNotations.
Local Open Scope R_scope.

(* (1) box_is_average -- the form factor of the source, sinc_np (k * size / 2 / pi) with numpy's sinc,
   is the average of the plane wave over the voxel; every k (k = 0 included), every size <> 0 *)
Theorem C15_box_is_average_cos (k x D : R) : D <> 0 ->
  RInt (fun u => cos (k * u)) (x - D / 2) (x + D / 2) / D = cos (k * x) * sinc_np (k * D / 2 / PI).
Proof. exact (box_is_average_cos k x D). Qed.
Print Assumptions C15_box_is_average_cos.

Theorem C15_box_is_average_sin (k x D : R) : D <> 0 ->
  RInt (fun u => sin (k * u)) (x - D / 2) (x + D / 2) / D = sin (k * x) * sinc_np (k * D / 2 / PI).
Proof. exact (box_is_average_sin k x D). Qed.
Print Assumptions C15_box_is_average_sin.

Theorem C15_box_is_average_k0 (x D : R) : D <> 0 ->
  RInt (fun u => cos (0 * u)) (x - D / 2) (x + D / 2) / D = 1 /\ sinc_np (0 * D / 2 / PI) = 1.
Proof. exact (box_is_average_k0 x D). Qed.
Print Assumptions C15_box_is_average_k0.

Theorem C15_box_is_average_cis (k x D : R) : D <> 0 ->
  is_RInt (V := prod_NormedModule R_AbsRing R_NormedModule R_NormedModule)
       (fun u => cis (k * u)) (x - D / 2) (x + D / 2)
       (Cmult (RtoC D) (Cmult (RtoC (sinc_np (k * D / 2 / PI))) (cis (k * x)))).
Proof. exact (box_is_average_cis k x D). Qed.
Print Assumptions C15_box_is_average_cis.

(* (2) the whole probe in one dimension (any modulation, phase, weight; no masking): the 'box' value at x
   times D is the integral over the voxel of the 'point' values *)
Theorem C15_box_probe_is_average_1d (c : icfg) (l : list pstate) (x D : R) :
  D <> 0 -> List.Forall one_column l ->
  CInt (fun u => img_all (as_point c) [u] l) (x - D / 2) (x + D / 2)
       (Cmult (RtoC D) (img_all (as_box c [D]) [x] l)).
Proof. exact (box_is_average_1d c l x D). Qed.
Print Assumptions C15_box_probe_is_average_1d.

(* (2') two dimensions, iterated average; Fubini not proved: PARTIAL *)
Theorem C15_box_probe_is_iterated_average_2d_partial (c : icfg) (l : list pstate) (x1 x2 D1 D2 : R) :
  D1 <> 0 -> D2 <> 0 -> List.Forall two_columns l ->
  exists inner : R -> C,
    (forall u2, CInt (fun u1 => img_all (as_point c) [u1; u2] l) (x1 - D1 / 2) (x1 + D1 / 2)
                     (Cmult (RtoC D1) (inner u2))) /\
    CInt inner (x2 - D2 / 2) (x2 + D2 / 2) (Cmult (RtoC D2) (img_all (as_box c [D1; D2]) [x1; x2] l)).
Proof. exact (box_is_iterated_average_2d c l x1 x2 D1 D2). Qed.
Print Assumptions C15_box_probe_is_iterated_average_2d_partial.

(* (3) masks: the value with the source's masks is within tol * (sum of |w F_j| over the dropped states)
   of the unmasked value (decaying modulation, 0 <= tol) *)
Theorem C15_mask_error_bound (c : icfg) (x : list R) (keeps : list bool) (l : list pstate) :
  decaying c -> 0 <= tol c -> Forall2 (mask_ok c) keeps l ->
  Cmod (Cminus (img_all c x l) (img c x l)) <= tol c * dropped_weight c keeps l.
Proof. exact (mask_error_bound_tol c x keeps l). Qed.
Print Assumptions C15_mask_error_bound.

Theorem C15_mask_error_bound_general (c : icfg) (x : list R) (eps : R) (keeps : list bool) (l : list pstate) :
  Forall2 (fun (b : bool) s => b = false -> Rabs (form c s) * modre c s <= eps) keeps l ->
  Cmod (Cminus (img_all c x l) (img_list keeps c x l)) <= eps * dropped_weight c keeps l.
Proof. exact (mask_error_bound c x eps keeps l). Qed.
Print Assumptions C15_mask_error_bound_general.

(* the per-state mask facts proved by the Interval tie determine the model's own decision *)
Theorem C15_img_of_masks (c : icfg) (x : list R) (keeps : list bool) (l : list pstate) :
  Forall2 (mask_ok c) keeps l -> img_list keeps c x l = img c x l.
Proof. exact (img_of_masks c x keeps l). Qed.
Print Assumptions C15_img_of_masks.

(* (4) point voxel = the isochromat at x (plain synthesis; with C01/C04 this is the Bloch magnetisation) *)
Theorem C15_point_is_isochromat (c : icfg) (x : list R) (l : list pstate) : plain c ->
  img c x l = sumC (map (fun s => Cmult (sF s) (cis (kdot (sk s) x))) l).
Proof. exact (point_is_isochromat c x l). Qed.
Print Assumptions C15_point_is_isochromat.

(* (5) imaginary modulation i f = off-resonance f over the accumulated times *)
Theorem C15_modulation_imag_is_offres (c : icfg) (f : R) (x : list R) (l : list pstate) : offres_cfg c f ->
  img c x l = sumC (map (fun s => Cmult (sF s) (cis (kdot (sk s) x + st s * (2 * PI * f)))) l).
Proof. exact (modulation_imag_is_offres c f x l). Qed.
Print Assumptions C15_modulation_imag_is_offres.

Theorem C15_modulation_imag_is_time_character (c c0 : icfg) (f : R) (x : list R) (l : list pstate) :
  offres_cfg c f -> plain c0 -> List.Forall (fun s => length (sk s) = length x) l ->
  img c x l = img c0 (x ++ [2 * PI * f]) (map lift_time l).
Proof. exact (modulation_imag_is_time_character c c0 f x l). Qed.
Print Assumptions C15_modulation_imag_is_time_character.

Theorem C15_time_shift_is_precession (c : icfg) (f : R) (x : list R) (tau : R) (l : list pstate) :
  offres_cfg c f ->
  img c x (map (shift_time tau) l) = Cmult (cis (2 * PI * f * tau)) (img c x l).
Proof. exact (time_shift_is_precession c f x tau l). Qed.
Print Assumptions C15_time_shift_is_precession.

(* (6) real modulation r: each state multiplied by exp(r |t_j|), nothing else *)
Theorem C15_modulation_real (c : icfg) (r : R) (x : list R) (keeps : list bool) (l : list pstate) :
  timed c = true -> modul c = Some (r, None) ->
  img_list keeps c x l = img_list keeps (no_modul c) x (map (damp r) l).
Proof. exact (modulation_real c r x keeps l). Qed.
Print Assumptions C15_modulation_real.

(* (7) weights multiply the un-reduced output; reduce only sums *)
Theorem C15_weights_scale_output (c : icfg) (x : list R) (keeps : list bool) (l : list pstate) :
  img_list keeps c x l = Cmult (wfac c) (img_list keeps (no_weight c) x l).
Proof. exact (weights_scale_output c x keeps l). Qed.
Print Assumptions C15_weights_scale_output.

Theorem C15_reduce_only_sums (n : nat) (m : list (list C)) : List.Forall (fun r => length r = n) m ->
  reduce_all m = sumC (reduce_ax1 m) /\ reduce_all m = sumC (reduce_ax0 n m).
Proof. exact (reduce_only_sums n m). Qed.
Print Assumptions C15_reduce_only_sums.

(* (8) System() vs probe arguments *)
Theorem C15_args_equal_system (base : icfg) (m : option (R * option R)) (w : option C)
  (x : list R) (l : list pstate) :
  fst (acquire base (mkOpts m w) (mkSys None None) x l) =
  fst (acquire base (mkOpts None None) (mkSys m w) x l).
Proof. exact (args_equal_system base m w x l). Qed.
Print Assumptions C15_args_equal_system.

(* (9) repeated use of one probe instance: the second acquisition equals the first and the probe keeps its
   options (the option-popping defect of probe.py found by this check is repaired in /repo; the repeated-use
   stream of props/c15.py is the regression test) *)
Theorem C15_repeated_use_stable (base : icfg) (o : popts) (sys : psystem) (x : list R) (l : list pstate) :
  let '(v1, v2) := acquire2 base o sys x l in v1 = v2.
Proof. exact (repeated_use_stable base o sys x l). Qed.
Print Assumptions C15_repeated_use_stable.

Theorem C15_acquire_keeps_options (base : icfg) (o : popts) (sys : psystem) (x : list R) (l : list pstate) :
  snd (acquire base o sys x l) = o.
Proof. exact (acquire_keeps_options base o sys x l). Qed.
Print Assumptions C15_acquire_keeps_options.

(* non-vacuity: the hypotheses of (2) hold for a concrete state list *)
Example C15_nonvacuous :
  CInt (fun u => img_all (as_point witness_base) [u] [mkPS (RtoC 1) [2] 0]) (1 - 3 / 2) (1 + 3 / 2)
       (Cmult (RtoC 3) (img_all (as_box witness_base [3]) [1] [mkPS (RtoC 1) [2] 0])).
Proof. exact box_nonvacuous. Qed.
