(* C16 — Array container keeps shapes, values and independence over any call history.
   Only statements, each closed by [exact], followed by Print Assumptions. *)
From Coq Require Import List ZArith.
From EPG Require Import Scalar State NdArray NdArrayProofs Collection CollectionProofs.
Import ListNotations.

(* resizing pads with the constant / crops symmetrically about the centre and preserves the
   retained values (python slices of resize_array; any lengths, any parity of the difference) *)
Theorem C16_resize_centre (A : Type) (pad : A) (l : list A) (size : nat) :
  let n := length l in
  length (resize_list pad l size) = size /\
  (size <= n ->
     resize_list pad l size = slice ((n - size) / 2) (n - (n - size + 1) / 2) l /\
     (n - size) / 2 + (n - size + 1) / 2 = n - size /\
     forall i, i < size -> nth i (resize_list pad l size) pad = nth ((n - size) / 2 + i) l pad) /\
  (n <= size ->
     resize_list pad l size = repeat pad ((size - n) / 2) ++ l ++ repeat pad ((size - n + 1) / 2) /\
     (size - n) / 2 + (size - n + 1) / 2 = size - n /\
     (forall j, j < n -> nth ((size - n) / 2 + j) (resize_list pad l size) pad = nth j l pad) /\
     (forall i, i < size -> (i < (size - n) / 2 \/ (size - n) / 2 + n <= i) ->
                nth i (resize_list pad l size) pad = pad)).
Proof. exact (resize_centre pad l size). Qed.
Print Assumptions C16_resize_centre.

(* the N-d resize of the model is that list operation on the sub-blocks along the axis *)
Theorem C16_resize_axis_blocks (a : nd) (axis size : nat) (c : Z) :
  dat (resize_axis a axis size c) =
  concat (map (fun b => concat (resize_list (repeat c (prod (skipn (S axis) (shp a))))
                                  (chunksN (nth axis (shp a) 0) (prod (skipn (S axis) (shp a))) b) size))
              (chunksN (prod (firstn axis (shp a))) (nth axis (shp a) 0 * prod (skipn (S axis) (shp a))) (dat a))).
Proof. exact (resize_axis_blocks a axis size c). Qed.
Print Assumptions C16_resize_axis_blocks.

(* after ANY call history with ellipsis-first layouts, both expand conventions, for the collection
   and its linked child: cached shape = recomputation, per-array broadcast shapes coherent *)
Theorem C16_cache_reachable (app : bool) (h : list op) :
  List.Forall op_first h -> CacheInvS (run (start app) h).
Proof. exact (cache_reachable app h). Qed.
Print Assumptions C16_cache_reachable.

Theorem C16_copy_equal (s : state) (r : res (option nd)) :
  observe r (fst (match step s OCopy with Ok x => x | Err _ => (s, None) end)) = observe r s.
Proof. exact (copy_equal s r). Qed.
Print Assumptions C16_copy_equal.

(* ---- the full invariant.  Inv c = cache invariant + every stored broadcast part and the default
   have no empty axis and are broadcast-compatible with the cached common shape.
   Initial collection, every operation that returns normally, every call history.
   Precondition [ok_run] (checked call by call on the state it is applied to): explicit layouts are
   ellipsis-first, no empty axes, check= not disabled by the caller, and an update that does not fit
   in place inserts an array which would have passed check_shape (the code inserts it unchecked:
   C16_update_unchecked_refuted shows the clause fails without this restriction). *)
Theorem C16_inv_init (app : bool) : Inv (init app).
Proof. exact (inv_init app). Qed.
Print Assumptions C16_inv_init.

Theorem C16_inv_step (c : coll) (o : bop) (c' : coll) (p : bool) (r : option nd) :
  bop_ok c o -> Inv c -> bstep c o = Ok (c', p, r) -> Inv c'.
Proof. exact (inv_bstep c o c' p r). Qed.
Print Assumptions C16_inv_step.

Theorem C16_inv_reachable_partial (app : bool) (h : list op) :
  ok_run (start app) h -> InvS (run (start app) h).
Proof. exact (inv_reachable app h). Qed.
Print Assumptions C16_inv_reachable_partial.

(* under the invariant every stored array is returned by get with the collection's common shape
   in its broadcast axes followed by its own sizes of the fixed / named / free axes *)
Theorem C16_inv_get (c : coll) (nm : nat) (e : entry) :
  Inv c -> lookup nm (c_arrays c) = Some e ->
  exists r rest,
    get c nm true = Ok (Some r) /\ e_lay e = LEll :: rest /\
    shp r = c_shape c ++ skipn (length (shp (e_arr e)) - length rest) (shp (e_arr e)).
Proof. exact (inv_get c nm e). Qed.
Print Assumptions C16_inv_get.

(* shape-incompatible insertions raise, for ellipsis-first layouts *)
Theorem C16_set_incompatible_raises_first (c : coll) (name : nat) (a : nd) (rest : layout) :
  count_ell rest = 0 -> length rest <= length (shp a) ->
  (exists i, dim_ok (vw (c_app c) (firstn (length (shp a) - length rest) (shp a)) i)
                    (vw (c_app c) (c_shape c) i) = false) ->
  set c name a (Some (LEll :: rest)) false true = Err EValue.
Proof. exact (set_incompatible_raises c name a rest). Qed.
Print Assumptions C16_set_incompatible_raises_first.

(* non-vacuity: a 10-call history (set with resize, link, resize, in-place update, broadcast,
   expand, copy, reduce, pop) meets the precondition, every call returns, every get succeeds *)
Example C16_nonvacuous :
  ok_run (start true) demo_history /\ all_ok (start true) demo_history = true /\
  gets_ok (main (run (start true) demo_history)) = true.
Proof. exact demo_ok. Qed.

(* clauses the faithful model refutes (each replayed on the implementation by props/c16.py) *)
Theorem C16_set_incompatible_raises_refuted :
  exists app h, all_ok (start app) h = true /\ get (main (run (start app) h)) 2 true = Err EValue.
Proof. exact set_incompatible_raises_refuted. Qed.
Print Assumptions C16_set_incompatible_raises_refuted.

Theorem C16_update_unchecked_refuted :
  exists app h, List.Forall op_first h /\ all_ok (start app) h = true /\
                get (main (run (start app) h)) 1 true = Err EValue.
Proof. exact update_unchecked_refuted. Qed.
Print Assumptions C16_update_unchecked_refuted.

Theorem C16_update_0d_refuted :
  exists app h v, all_ok (start app) h = true /\
    step (run (start app) h) (OMain (OUpdate 0 v false)) = Err EIndex.
Proof. exact update_0d_refuted. Qed.
Print Assumptions C16_update_0d_refuted.

Theorem C16_pop_axes_stale :
  exists app h, all_ok (start app) h = true /\
    let c := main (run (start app) h) in c_axes c = [(0, 3)] /\ gna (c_arrays c) None = [].
Proof. exact pop_axes_stale. Qed.
Print Assumptions C16_pop_axes_stale.

Theorem C16_update_named_axis_refuted :
  exists app h, List.Forall op_first h /\ all_ok (start app) h = true /\
    let c := main (run (start app) h) in
    option_map (fun e => shp (e_arr e)) (lookup 0 (c_arrays c)) = Some [5] /\
    option_map (fun e => shp (e_arr e)) (lookup 1 (c_arrays c)) = Some [3] /\
    option_map e_lay (lookup 0 (c_arrays c)) = Some [LEll; LName 0] /\
    option_map e_lay (lookup 1 (c_arrays c)) = Some [LEll; LName 0].
Proof. exact update_named_axis_refuted. Qed.
Print Assumptions C16_update_named_axis_refuted.

Theorem C16_link_child_refuted :
  exists app h, List.Forall op_first h /\ all_ok (start app) h = true /\
    match child (run (start app) h) with Some ch => get ch 0 true = Err EValue | None => False end.
Proof. exact link_child_refuted. Qed.
Print Assumptions C16_link_child_refuted.
