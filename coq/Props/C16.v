(* C16 — Array container keeps shapes, values and independence over any call history.
   Only statements, each closed by [exact], followed by Print Assumptions. *)
From Coq Require Import List ZArith.
From EPG Require Import Scalar State NdArray NdArrayProofs Collection CollectionProofs.
Import ListNotations.

(* resizing pads with the constant / crops symmetrically about the centre and preserves the
   retained values (python slices of resize_array; any lengths, any parity of the difference) *)
Theorem C16_resize_centre (A : Type) (pad : A) (l : list A) (size : nat) :
  let n := length l in
  length (resize_list pad l size) = size /\
  (size <= n ->
     resize_list pad l size = slice ((n - size) / 2) (n - (n - size + 1) / 2) l /\
     (n - size) / 2 + (n - size + 1) / 2 = n - size /\
     forall i, i < size -> nth i (resize_list pad l size) pad = nth ((n - size) / 2 + i) l pad) /\
  (n <= size ->
     resize_list pad l size = repeat pad ((size - n) / 2) ++ l ++ repeat pad ((size - n + 1) / 2) /\
     (size - n) / 2 + (size - n + 1) / 2 = size - n /\
     (forall j, j < n -> nth ((size - n) / 2 + j) (resize_list pad l size) pad = nth j l pad) /\
     (forall i, i < size -> (i < (size - n) / 2 \/ (size - n) / 2 + n <= i) ->
                nth i (resize_list pad l size) pad = pad)).
Proof. exact (resize_centre pad l size). Qed.
Print Assumptions C16_resize_centre.

(* the N-d resize of the model is that list operation on the sub-blocks along the axis *)
Theorem C16_resize_axis_blocks (a : nd) (axis size : nat) (c : Z) :
  dat (resize_axis a axis size c) =
  concat (map (fun b => concat (resize_list (repeat c (prod (skipn (S axis) (shp a))))
                                  (chunksN (nth axis (shp a) 0) (prod (skipn (S axis) (shp a))) b) size))
              (chunksN (prod (firstn axis (shp a))) (nth axis (shp a) 0 * prod (skipn (S axis) (shp a))) (dat a))).
Proof. exact (resize_axis_blocks a axis size c). Qed.
Print Assumptions C16_resize_axis_blocks.

(* after ANY call history (all layouts, all flags, both expand conventions), for the collection
   and its linked child: cached shape = recomputation, per-array broadcast shapes coherent,
   stored layouts have exactly one ellipsis and the arrays enough axes *)
Theorem C16_cache_reachable (app : bool) (h : list op) : CacheInvS (run (start app) h).
Proof. exact (cache_reachable app h). Qed.
Print Assumptions C16_cache_reachable.

Theorem C16_copy_equal (s : state) (r : res (option nd)) :
  observe r (fst (match step s OCopy with Ok x => x | Err _ => (s, None) end)) = observe r s.
Proof. exact (copy_equal s r). Qed.
Print Assumptions C16_copy_equal.

(* ---- the full invariant.  Inv c = cache invariant + every stored broadcast part and the default
   have no empty axis and are broadcast-compatible with the cached common shape.
   Initial collection, every operation that returns normally, every call history.
   All layouts with one ellipsis (anywhere).  Precondition [ok_run] (checked call by call on the
   state it is applied to): no empty axes, check= not disabled by the caller, and an update that does not fit
   in place inserts an array which would have passed check_shape (the code inserts it unchecked:
   C16_update_unchecked_refuted shows the clause fails without this restriction). *)
Theorem C16_inv_init (app : bool) : Inv (init app).
Proof. exact (inv_init app). Qed.
Print Assumptions C16_inv_init.

Theorem C16_inv_step (c : coll) (o : bop) (c' : coll) (p : bool) (r : option nd) :
  bop_ok c o -> Inv c -> bstep c o = Ok (c', p, r) -> Inv c'.
Proof. exact (inv_bstep c o c' p r). Qed.
Print Assumptions C16_inv_step.

Theorem C16_inv_reachable_partial (app : bool) (h : list op) :
  ok_run (start app) h -> InvS (run (start app) h).
Proof. exact (inv_reachable app h). Qed.
Print Assumptions C16_inv_reachable_partial.

(* ---- with the named axes: Full c = Inv c + distinct array keys + distinct names inside each
   stored layout + every named axis of every stored array has the size recorded in .axes.
   Extra precondition [names_run]: explicit layouts do not repeat an axis name. *)
Theorem C16_full_step (c : coll) (o : bop) (c' : coll) (p : bool) (r : option nd) :
  bop_ok c o -> bop_names o -> Full c -> bstep c o = Ok (c', p, r) -> Full c'.
Proof. exact (full_bstep c o c' p r). Qed.
Print Assumptions C16_full_step.

Theorem C16_full_reachable_partial (app : bool) (h : list op) :
  ok_run (start app) h -> names_run h -> FullS (run (start app) h).
Proof. exact (full_reachable app h). Qed.
Print Assumptions C16_full_reachable_partial.

(* named axes have one size across all arrays (and inside one array) *)
Theorem C16_named_axes_single (c : coll) nm1 e1 nm2 e2 ax z1 z2 :
  AxesOk c -> In (nm1, e1) (c_arrays c) -> In (nm2, e2) (c_arrays c) ->
  In (ax, z1) (entry_axes e1) -> In (ax, z2) (entry_axes e2) -> z1 = z2.
Proof. exact (named_axes_single c nm1 e1 nm2 e2 ax z1 z2). Qed.
Print Assumptions C16_named_axes_single.

(* under the invariant every stored array is returned by get: own sizes of the items before the
   ellipsis, the collection's common shape in the broadcast axes, own sizes of the items after it *)
Theorem C16_inv_get (c : coll) (nm : nat) (e : entry) :
  Inv c -> lookup nm (c_arrays c) = Some e ->
  exists r pre rest,
    get c nm true = Ok (Some r) /\ e_lay e = pre ++ LEll :: rest /\
    shp r = firstn (length pre) (shp (e_arr e)) ++ c_shape c ++
            skipn (length (shp (e_arr e)) - length rest) (shp (e_arr e)).
Proof. exact (inv_get c nm e). Qed.
Print Assumptions C16_inv_get.

(* shape-incompatible insertions raise: every layout with one ellipsis, anywhere (repaired check_shape) *)
Theorem C16_set_incompatible_raises (c : coll) (name : nat) (a : nd) (l : layout) :
  count_ell l = 1 -> length l <= length (shp a) + 1 ->
  (exists i, dim_ok (vw (c_app c) (shared_axes (shp a) l) i) (vw (c_app c) (c_shape c) i) = false) ->
  set c name a (Some l) false true = Err EValue.
Proof. exact (set_incompatible_raises c name a l). Qed.
Print Assumptions C16_set_incompatible_raises.

(* regressions of the two repaired defects, evaluated on the model *)
Theorem C16_set_incompatible_nonleading_example :
  step (run (start false) [OMain (OBroadcast [3])])
       (OMain (OSet 2 (zeros [3; 2]) (Some [LName 0; LEll]) false true)) = Err EValue.
Proof. exact set_incompatible_nonleading_example. Qed.

Theorem C16_update_0d_example :
  let s := run (start false) [OMain (OSet 0 (mkNd [] [7%Z]) None false true);
                              OMain (OUpdate 0 (mkNd [] [8%Z]) false)] in
  get (main s) 0 true = Ok (Some (mkNd [1] [8%Z])).
Proof. exact update_0d_example. Qed.

(* non-vacuity: an 11-call history (set with resize, link, resize, set with ['n', ...], in-place update, broadcast,
   expand, copy, reduce, pop) meets the precondition, every call returns, every get succeeds *)
Example C16_nonvacuous :
  ok_run (start true) demo_history /\ all_ok (start true) demo_history = true /\
  gets_ok (main (run (start true) demo_history)) = true.
Proof. exact demo_ok. Qed.
Example C16_nonvacuous_names : names_run demo_history.
Proof. exact demo_names. Qed.

(* clauses the faithful model still refutes (known findings; each replayed on the implementation
   by props/c16.py) *)
Theorem C16_update_unchecked_refuted :
  exists app h, all_ok (start app) h = true /\
                get (main (run (start app) h)) 1 true = Err EValue.
Proof. exact update_unchecked_refuted. Qed.
Print Assumptions C16_update_unchecked_refuted.

Theorem C16_pop_axes_stale :
  exists app h, all_ok (start app) h = true /\
    let c := main (run (start app) h) in c_axes c = [(0, 3)] /\ gna (c_arrays c) None = [].
Proof. exact pop_axes_stale. Qed.
Print Assumptions C16_pop_axes_stale.

Theorem C16_update_named_axis_refuted :
  exists app h, all_ok (start app) h = true /\
    let c := main (run (start app) h) in
    option_map (fun e => shp (e_arr e)) (lookup 0 (c_arrays c)) = Some [5] /\
    option_map (fun e => shp (e_arr e)) (lookup 1 (c_arrays c)) = Some [3] /\
    option_map e_lay (lookup 0 (c_arrays c)) = Some [LEll; LName 0] /\
    option_map e_lay (lookup 1 (c_arrays c)) = Some [LEll; LName 0].
Proof. exact update_named_axis_refuted. Qed.
Print Assumptions C16_update_named_axis_refuted.

Theorem C16_link_child_refuted :
  exists app h, all_ok (start app) h = true /\
    match child (run (start app) h) with Some ch => get ch 0 true = Err EValue | None => False end.
Proof. exact link_child_refuted. Qed.
Print Assumptions C16_link_child_refuted.
