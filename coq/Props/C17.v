(* C17 -- CRLB, its gradient and confidence intervals match their defining formulas.
   Only statements, each closed by [exact], followed by Print Assumptions.
   F: any field with conjugation (FieldLaws); inv: numpy.linalg.inv, assumed to return a two-sided inverse of the
   matrix it is given (checked by [inv_ok_b] next to every evaluation of the correspondence). *)
From Coq Require Import List ZArith QArith Reals.
From Coquelicot Require Import Coquelicot.
From EPG Require Import Scalar QI State StatsTables Stats StatsProofs.
Import ListNotations.

(* crlb(J, W, sigma2) = tr(W B) for every right inverse B of Re(J^H J)/sigma2 *)
Theorem C17_crlb_formula (F : FieldOps) (L : FieldLaws F) (inv : mat F -> mat F) (n p : nat) (J : mat F)
  (W : option (list F)) (sigma2 : F) :
  is_rinv F p (mget (inv (fisher n p sigma2 J))) (mget (fisher n p sigma2 J)) ->
  forall B : nat -> nat -> F, is_rinv F p (fisher_spec F n sigma2 J) B ->
  crlb inv n p J W sigma2 = ksum p (fun a => (wget W a * B a a)%K).
Proof. exact (crlb_formula F L inv n p J W sigma2). Qed.
Print Assumptions C17_crlb_formula.

(* differential-ring lemmas: A B = I = B A  ==>  dB = - B dA B ;  d tr(W B) = - tr(W B dA B) ;
   d Re(J^H J) = Re(dJ^H J + J^H dJ) *)
Theorem C17_d_inverse (F : FieldOps) (L : FieldLaws F) (p : nat) (A B : nat -> nat -> F) :
  is_rinv F p A B -> is_rinv F p B A -> forall d : F -> F, Deriv F d ->
  forall i j, (i < p)%nat -> (j < p)%nat ->
  d (B i j) = (- ksum p (fun k => ksum p (fun l => B i k * d (A k l) * B l j)))%K.
Proof. exact (d_inverse F L p A B). Qed.
Print Assumptions C17_d_inverse.

Theorem C17_d_gram (F : FieldOps) (L : FieldLaws F) (d : F -> F) (D : Deriv F d) (n : nat) (J : nat -> nat -> F) a b :
  d (kre (ksum n (fun k => (kconj (J k a) * J k b)%K))) =
  kre (ksum n (fun k => kconj (d (J k a)) * J k b) + ksum n (fun k => kconj (J k a) * d (J k b)))%K.
Proof. exact (d_gram F L d D n J a b). Qed.
Print Assumptions C17_d_gram.

(* the gradient returned with H is the exact derivative of the returned cost, for every derivation (direction x)
   whose action on the entries of J is stored in H[.,.,x] *)
Theorem C17_crlb_grad_exact (F : FieldOps) (L : FieldLaws F) (inv : mat F -> mat F) (n p : nat) (J : mat F)
  (W : option (list F)) (sigma2 : F) :
  is_rinv F p (mget (fisher n p sigma2 J)) (mget (inv (fisher n p sigma2 J))) ->
  is_rinv F p (mget (inv (fisher n p sigma2 J))) (mget (fisher n p sigma2 J)) ->
  forall (nx : nat) (H : ten3 F) (dd : nat -> F -> F),
  (forall x, (x < nx)%nat -> Deriv F (dd x)) ->
  (forall x k a, (x < nx)%nat -> (k < n)%nat -> (a < p)%nat -> t3get H k a x = dd x (mget J k a)) ->
  kconj sigma2 = sigma2 -> sigma2 <> k0 ->
  (forall x, (x < nx)%nat -> dd x sigma2 = k0) ->
  (forall x a, (x < nx)%nat -> (a < p)%nat -> dd x (wget W a) = k0) ->
  forall x, (x < nx)%nat ->
  vget (crlb_grad inv n p nx J H W sigma2) x = dd x (crlb inv n p J W sigma2).
Proof. exact (crlb_grad_exact F L inv n p J W sigma2). Qed.
Print Assumptions C17_crlb_grad_exact.

(* log=True: (log10 cost, grad / cost / ln 10) is (value, derivative) of log10 o cost  (real level) *)
Theorem C17_crlb_log (f : R -> R) (x g : R) :
  is_derive f x g -> (0 < f x)%R -> is_derive (fun u => crlb_log_cost (f u)) x (crlb_log_grad (f x) g).
Proof. exact (crlb_log_grad_exact f x g). Qed.
Print Assumptions C17_crlb_log.

(* crlb_split returns the weighted diagonal of the inverse Fisher matrix *)
Theorem C17_crlb_split_diag (F : FieldOps) (L : FieldLaws F) (inv : mat F -> mat F) (n p : nat) (J : mat F)
  (W : option (list F)) (sigma2 : F) :
  is_rinv F p (mget (inv (fisher n p sigma2 J))) (mget (fisher n p sigma2 J)) ->
  forall a, (a < p)%nat -> forall B : nat -> nat -> F, is_rinv F p (fisher_spec F n sigma2 J) B ->
  vget (crlb_split inv n p J W sigma2) a = (B a a * wget W a)%K.
Proof. exact (crlb_split_diag F L inv n p J W sigma2). Qed.
Print Assumptions C17_crlb_split_diag.

(* confint: variances = SSE/dof * diag(inverse of the property's matrix Re(J^H J) [- residual-weighted Hessian]),
   when no Hessian is given, or when the source has the contraction over n and the minus sign *)
Theorem C17_confint_formula (F : FieldOps) (L : FieldLaws F) (inv : mat F -> mat F) (n p : nat) (obs pred : list F)
  (J : mat F) (outer plus : bool) (H : option (ten3 F)) :
  is_rinv F p (mget (confint_info outer plus n p J H (residual n obs pred)))
              (mget (inv (confint_info outer plus n p J H (residual n obs pred)))) ->
  is_rinv F p (mget (inv (confint_info outer plus n p J H (residual n obs pred))))
              (mget (confint_info outer plus n p J H (residual n obs pred))) ->
  forall B : nat -> nat -> F,
  H = None \/ outer = false /\ plus = false ->
  is_rinv F p (info_spec F n obs pred J H) B ->
  forall a, (a < p)%nat ->
  vget (confint_var inv outer plus n p obs pred J H) a = (B a a * (sse_spec F n obs pred * kinv (kofnat (n - p))))%K.
Proof. exact (confint_formula F L inv n p obs pred J outer plus H). Qed.
Print Assumptions C17_confint_formula.

(* ... and for every setting of the switches, what the code really inverts *)
Theorem C17_confint_code_formula (F : FieldOps) (L : FieldLaws F) (inv : mat F -> mat F) (n p : nat) (obs pred : list F)
  (J : mat F) (outer plus : bool) (H : option (ten3 F)) :
  is_rinv F p (mget (confint_info outer plus n p J H (residual n obs pred)))
              (mget (inv (confint_info outer plus n p J H (residual n obs pred)))) ->
  is_rinv F p (mget (inv (confint_info outer plus n p J H (residual n obs pred))))
              (mget (confint_info outer plus n p J H (residual n obs pred))) ->
  forall B : nat -> nat -> F,
  is_rinv F p (info_code F n obs pred J outer plus H) B ->
  forall a, (a < p)%nat ->
  vget (confint_var inv outer plus n p obs pred J H) a = (B a a * (sse_spec F n obs pred * kinv (kofnat (n - p))))%K.
Proof. exact (confint_code_formula F L inv n p obs pred J outer plus H). Qed.
Print Assumptions C17_confint_code_formula.

(* half-widths = tval * sqrt(variance) *)
Theorem C17_confint_cints (F : FieldOps) (inv : mat F -> mat F) (n p : nat) (obs pred : list F) (J : mat F)
  (outer plus : bool) (H : option (ten3 F)) (sqrt : F -> F) (tval : F) (a : nat) : (a < p)%nat ->
  vget (confint_cints inv sqrt tval outer plus n p obs pred J H) a =
  (tval * sqrt (vget (confint_var inv outer plus n p obs pred J H) a))%K.
Proof. exact (confint_cints_formula F inv n p obs pred J outer plus H sqrt tval a). Qed.
Print Assumptions C17_confint_cints.

(* REFUTED for the Hessian term as long as the source contracts over the wrong index or adds the term:
   a concrete input on which the model of the code differs from the property's formula *)
Theorem C17_confint_hessian_term_refuted (outer plus : bool) : outer = true \/ plus = true ->
  exists (n p : nat) (obs pred : list QIF) (J : mat QIF) (H : ten3 QIF) (B : nat -> nat -> QIF),
    let M := confint_info outer plus n p J (Some H) (residual n obs pred) in
    (is_rinv QIF p (mget M) (mget (minv_adj M)) /\ is_rinv QIF p (mget (minv_adj M)) (mget M)) /\
    is_rinv QIF p (info_spec QIF n obs pred J (Some H)) B /\
    vget (confint_var minv_adj outer plus n p obs pred J (Some H)) 0%nat <>
      (B 0%nat 0%nat * (sse_spec QIF n obs pred * kinv (kofnat (n - p))))%K.
Proof. exact (confint_hessian_term_refuted outer plus). Qed.
Print Assumptions C17_confint_hessian_term_refuted.

(* the einsum contractions found in the source are those the model is written for *)
Theorem C17_einsum_menu :
  crlb_einsums = crlb_menu /\ crlb_split_einsums = crlb_split_menu /\
  confint_einsums = confint_menu confint_hess_outer confint_hess_plus.
Proof. exact einsum_menu_ok. Qed.
Print Assumptions C17_einsum_menu.

(* the executed inverse: a positive answer of the check is a proof of the inverse hypotheses; and the executed
   scalars are a field *)
Theorem C17_inv_check_sound (F : FieldOps) (L : FieldLaws F) (inv : mat F -> mat F) (p : nat) (A : mat F) :
  inv_ok_b inv p A = true -> is_rinv F p (mget A) (mget (inv A)) /\ is_rinv F p (mget (inv A)) (mget A).
Proof. exact (inv_ok_b_sound F L inv p A). Qed.
Print Assumptions C17_inv_check_sound.

Theorem C17_adjugate_2x2 (F : FieldOps) (L : FieldLaws F) (a b c e : F) : (a * e - b * c)%K <> k0 ->
  let M := [[a; b]; [c; e]] in
  is_rinv F 2 (mget M) (mget (minv_adj M)) /\ is_rinv F 2 (mget (minv_adj M)) (mget M).
Proof. exact (minv_adj_2x2 F L a b c e). Qed.
Print Assumptions C17_adjugate_2x2.

Theorem C17_executed_field : FieldLaws QIF.
Proof. exact QIFlaws. Qed.
Print Assumptions C17_executed_field.

(* t table: every looked-up value satisfies the Student-t specification, given the per-entry Interval proofs
   (the premise is discharged entry by entry, on every run, in Cases/C17_ttab_*.v) *)
Theorem C17_tstat_lookup_sound (level : Q) (nu : nat) (t : Q) :
  List.Forall tstat_entry_ok tstat_table -> tstat_lookup level nu = Some t -> tstat_ok level nu t.
Proof. exact (tstat_lookup_sound level nu t). Qed.
Print Assumptions C17_tstat_lookup_sound.

(* non-vacuity: the inverse hypotheses hold for a concrete complex 3x2 Jacobian on the executed instance *)
Example C17_nonvacuous :
  let J : mat QIF := [[qi 1 1 1 1; qi 0 1 2 1]; [qi 2 1 0 1; qi 1 1 (-1) 1]; [qi 0 1 1 1; qi 3 1 0 1]] in
  let A := fisher (F:=QIF) 3%nat 2%nat (qr 2 1) J in
  is_rinv QIF 2%nat (mget A) (mget (minv_adj A)) /\ is_rinv QIF 2%nat (mget (minv_adj A)) (mget A).
Proof. exact crlb_hyps_nonvacuous. Qed.
