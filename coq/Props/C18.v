(* C18 — Shaped RF pulses equal the ordered product of hard pulses and evolutions.
   Only statements, each closed by [exact], followed by Print Assumptions.
   Model: Model/RFPulse.v (executed over Qc by the correspondence check); matrices T_op, Phi_op,
   E_op, P_op are the GENERATED ones of Gen/Transition.v, Gen/Evolution.v. *)
From Coq Require Import List ZArith QArith Qcanon Reals.
From Coquelicot Require Import Coquelicot.
From EPG Require Import Scalar State Ops CInst Transition Evolution RFPulse RFPulseProofs.
Import ListNotations.
Local Open Scope R_scope.

(* (1) shape, length and order of the operator list, for every number type: n operators
   T(180 |v_i| rf, arg v_i, duration d_i) in sample order, wrapped in Phi(-o) ... Phi(o) iff o is given and non-zero *)
Theorem C18_pulse_structure (N : NumOps) (vals : list (sample N)) (dur : dspec N) (rf : N) (off : option N)
  (ops : list (pop N)) :
  make_pulse_sequence N vals dur rf off = Some ops ->
  exists ds, sample_durations N (length vals) dur = Some ds /\ length ds = length vals /\
    let body := pulse_body N vals ds rf in
    length body = length vals /\
    (forall i v d, nth_error vals i = Some v -> nth_error ds i = Some d ->
       nth_error body i = Some (PT (nmul N (nmul N (nofZ N 180) (fst v)) rf) (snd v) d)) /\
    ops = match off with
          | None => body
          | Some o => if neqb N o (nofZ N 0) then body else PPhi (nopp N o) :: body ++ [PPhi o]
          end.
Proof. exact (pulse_structure N vals dur rf off ops). Qed.
Print Assumptions C18_pulse_structure.

(* (2) pulse_is_product: without relaxation the list acts on every phase state as the ordered matrix
   product Phi(o) . T_n . ... . T_1 . Phi(-o) of the generated matrices *)
Theorem C18_pulse_is_product (vals : list (R * R)) (dur : dspec RNum) (rf : R) (off : option R)
  (ops : list (pop RNum)) :
  make_pulse_sequence RNum vals dur rf off = Some ops ->
  let Ts := map (fun v => T_op (180 * fst v * rf) (snd v)) vals in
  (forall e x, act_list ops e x = mv (mprod (map mat_of ops)) x) /\
  mprod (map mat_of ops) =
    match off with
    | None => mprod Ts
    | Some o => if neqb RNum o 0 then mprod Ts else mmul (Phi_op o) (mmul (mprod Ts) (Phi_op (- o)))
    end.
Proof. exact (pulse_is_product vals dur rf off ops). Qed.
Print Assumptions C18_pulse_is_product.

(* (2b) with T1/T2/g (modify): operators are applied sample by sample; a sample of positive duration d
   is followed by E(d, T1, T2, g), a sample of zero duration is not *)
Theorem C18_pulse_with_evolution (T1 T2 g : option R) (ops : list (pop RNum)) (e x : triple Cops) :
  act_list (modify RNum T1 T2 g ops) e x =
  fold_left (fun y o => act_list (modify_op RNum T1 T2 g o) e y) ops x.
Proof. exact (act_list_modify T1 T2 g ops e x). Qed.
Print Assumptions C18_pulse_with_evolution.

Theorem C18_sample_followed_by_evolution (T1 T2 g a p d : R) :
  modify_op RNum (Some T1) (Some T2) (Some g) (@PT RNum a p d) =
  if Rlt_dec 0 d then [@PT RNum a p d; @PE RNum d T1 T2 g] else [@PT RNum a p d].
Proof. exact (modify_op_T T1 T2 g a p d). Qed.
Print Assumptions C18_sample_followed_by_evolution.

(* (2c) the operator list run by the state-matrix model of C01/C08 (Model/Ops.v) is the phase-state-wise action *)
Theorem C18_run_is_statewise (ops : list (pop RNum)) (s : sm Cops) :
  run (map to_op ops) s = pw (act_list ops) s.
Proof. exact (run_act_list ops s). Qed.
Print Assumptions C18_run_is_statewise.

(* (3) pulse_duration: the operator durations add up to the scalar duration / to the sum of the per-sample durations,
   also after modify() and after encode_phase *)
Theorem C18_pulse_duration (vals : list (R * R)) (dur : dspec RNum) (rf alpha phi T1 T2 g : option R) (S : R)
  (ops : list (pop RNum)) :
  rfpulse RNum vals dur rf alpha phi T1 T2 g S = Some ops ->
  total_duration RNum ops = match dur with DScalar d => d | DList ds => rsum ds end.
Proof. exact (rfpulse_duration vals dur rf alpha phi T1 T2 g S ops). Qed.
Print Assumptions C18_pulse_duration.

Theorem C18_encode_phase_duration (ops : list (pop RNum)) (D grad gamma x : R) (rw : option R) :
  total_duration RNum (encode_phase RNum ops D grad gamma x rw) = total_duration RNum ops.
Proof. exact (encode_phase_duration ops D grad gamma x rw). Qed.
Print Assumptions C18_encode_phase_duration.

(* (4) phase_offset_identity and its lift to products of any length *)
Theorem C18_phase_offset_identity (o a p : R) :
  mmul (Phi_op o) (mmul (T_op a p) (Phi_op (- o))) = T_op a (p + o).
Proof. exact (phase_offset_identity o a p). Qed.
Print Assumptions C18_phase_offset_identity.

Theorem C18_phase_offset_product (o : R) (ts : list (R * R)) :
  mmul (Phi_op o) (mmul (mprod (map (fun t => T_op (fst t) (snd t)) ts)) (Phi_op (- o)))
  = mprod (map (fun t => T_op (fst t) (snd t + o)) ts).
Proof. exact (phase_offset_product o ts). Qed.
Print Assumptions C18_phase_offset_product.

(* (4b) whole pulses, relaxation and precession included: phi = o  <=>  all samples multiplied by exp(i o) *)
Theorem C18_phase_offset_is_sample_rotation (vals : list (R * R)) (dur : dspec RNum) (rf alpha : option R) (o : R)
  (T1 T2 g : option R) (S : R) (ops : list (pop RNum)) : o <> 0 ->
  rfpulse RNum vals dur rf alpha (Some o) T1 T2 g S = Some ops ->
  exists ops', rfpulse RNum (map (shift_sample o) vals) dur rf alpha None T1 T2 g S = Some ops' /\
    (forall e x, act_list ops e x = act_list ops' e x) /\
    (forall v, polar (shift_sample o v) = Cmult (cis (o * PI / 180)) (polar v)).
Proof. exact (phase_offset_is_sample_rotation vals dur rf alpha o T1 T2 g S ops). Qed.
Print Assumptions C18_phase_offset_is_sample_rotation.

(* (5) const_phase_single_rotation *)
Theorem C18_same_axis_angles_add (a1 a2 p : R) : mmul (T_op a1 p) (T_op a2 p) = T_op (a1 + a2) p.
Proof. exact (T_same_axis a1 a2 p). Qed.
Print Assumptions C18_same_axis_angles_add.

Theorem C18_const_phase_single_rotation (p : R) (ss : list R) (vals : list (R * R)) (dur : dspec RNum) (rf : R)
  (ops : list (pop RNum)) :
  Forall2 (cp_sample p) ss vals ->
  make_pulse_sequence RNum vals dur rf None = Some ops ->
  forall e x, act_list ops e x = mv (T_op (180 * rf * rsum ss) p) x.
Proof. exact (const_phase_single_rotation p ss vals dur rf ops). Qed.
Print Assumptions C18_const_phase_single_rotation.

Theorem C18_const_phase_target_angle (p : R) (ss : list R) (vals : list (R * R)) (dur : dspec RNum) (alpha : R)
  (ops : list (pop RNum)) :
  Forall2 (cp_sample p) ss vals -> rsum ss <> 0 ->
  rfpulse RNum vals dur None (Some alpha) None None None None (Cmod (csum vals)) = Some ops ->
  forall e x, act_list ops e x = mv (T_op (if Rle_dec 0 (rsum ss) then alpha else - alpha) p) x.
Proof. exact (const_phase_target_angle p ss vals dur alpha ops). Qed.
Print Assumptions C18_const_phase_target_angle.

(* (6) estimate_inverse on the constant-phase branch, on the CLOSED interval [0, 180] degree
   (estimate_alpha = acos(clip(Z)) after fix 4cedc70; rf = 0 and the inversion pulse included) *)
Theorem C18_estimate_alpha_of_rf (p : R) (ss : list R) (vals : list (R * R)) (alpha : R) :
  Forall2 (cp_sample p) ss vals -> rsum ss <> 0 -> 0 <= alpha <= 180 ->
  estimate_alpha vals (estimate_rf vals alpha) = alpha.
Proof. exact (estimate_alpha_of_rf p ss vals alpha). Qed.
Print Assumptions C18_estimate_alpha_of_rf.

Theorem C18_estimate_rf_of_alpha (p : R) (ss : list R) (vals : list (R * R)) (rf : R) :
  Forall2 (cp_sample p) ss vals -> rsum ss <> 0 -> 0 <= rf * Rabs (rsum ss) <= 1 ->
  estimate_rf vals (estimate_alpha vals rf) = rf.
Proof. exact (estimate_rf_of_alpha p ss vals rf). Qed.
Print Assumptions C18_estimate_rf_of_alpha.

(* (6b) a zero pulse is reported as 0 degree, for every waveform (constant phase or not) *)
Theorem C18_estimate_alpha_zero_rf (vals : list (R * R)) : estimate_alpha vals 0 = 0.
Proof. exact (estimate_alpha_zero_rf vals). Qed.
Print Assumptions C18_estimate_alpha_zero_rf.

(* (7) encode_phase_is_modify: encode_phase is modify() with g = the frequency map (plus the optional rewinder) *)
Theorem C18_encode_phase_is_modify (N : NumOps) (ops : list (pop N)) (D grad gamma x : N) (rw : option N) :
  encode_phase N ops D grad gamma x rw =
  modify N None None (Some (space_to_freq N grad gamma x)) ops ++
  match rw with None => [] | Some r => [PP (nmul N D r) (nopp N (space_to_freq N grad gamma x))] end.
Proof. exact (encode_phase_is_modify N ops D grad gamma x rw). Qed.
Print Assumptions C18_encode_phase_is_modify.

Theorem C18_encode_phase_sample (g a p d : R) :
  modify_op RNum None None (Some g) (@PT RNum a p d) =
  if Rlt_dec 0 d then [@PT RNum a p d; @PP RNum d g] else [@PT RNum a p d].
Proof. exact (modify_op_T_g g a p d). Qed.
Print Assumptions C18_encode_phase_sample.

(* non-vacuity: the executed model on a concrete waveform (|3+4i|/8 = 5/8, duration 1 over two samples, rf 1/2, phi 30) *)
Example C18_nonvacuous :
  ops_close QcNum (qq 0 1) (rfpulse QcNum [(qq 5 8, qq 53 1); (qq 1 2, qq 0 1)] (@DScalar QcNum (qq 1 1)) (Some (qq 1 2)) None (Some (qq 30 1))
          (Some (qq 1000 1)) None None (qq 1 1))
  (Some [@PPhi QcNum (qq (-30) 1); @PT QcNum (qq 225 4) (qq 53 1) (qq 1 2); @PE QcNum (qq 1 2) (qq 1000 1) (qq 10000000000 1) (qq 0 1);
          @PT QcNum (qq 45 1) (qq 0 1) (qq 1 2); @PE QcNum (qq 1 2) (qq 1000 1) (qq 10000000000 1) (qq 0 1); @PPhi QcNum (qq 30 1)]) = true.
Proof. vm_compute. reflexivity. Qed.
