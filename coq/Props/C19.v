(* C19 — Differentiation is non-intrusive and independent of what else is derived.
   Only statements, each closed by [exact], followed by Print Assumptions. *)
From Coq Require Import List ZArith.
From EPG Require Import Scalar QI State Ops Diff DiffLemmas DiffBasic DiffExact DiffIndep.
Import ListNotations.

(* (1) activating any order1/order2 declarations never changes the simulated state matrix *)
Theorem C19_diff_nonintrusive (S : ScalOps) (prog : list (dinstr S)) (ds : dstate S) :
  d_main (drun prog ds) = run (map (core_op S) prog) (d_main ds).
Proof. exact (diff_nonintrusive S prog ds). Qed.
Print Assumptions C19_diff_nonintrusive.

(* (2) the partial of variable v (possibly renamed v') is the same whatever else is activated:
   two programs that agree on the operators' arrays and on v's own declarations carry the same partial *)
Theorem C19_partial_independent (S : ScalOps) (v v' : var) (prog prog' : list (dinstr S)) (ds ds' : dstate S) :
  Forall2 (same_for S v v') prog prog' -> d_main ds = d_main ds' ->
  alookup Nat.eqb v (d_p1 ds) = alookup Nat.eqb v' (d_p1 ds') ->
  d_main (drun prog ds) = d_main (drun prog' ds') /\
  alookup Nat.eqb v (d_p1 (drun prog ds)) = alookup Nat.eqb v' (d_p1 (drun prog' ds')).
Proof. exact (partial_independent S v v' prog prog' ds ds'). Qed.
Print Assumptions C19_partial_independent.

Theorem C19_jacobian_column_independent (S : ScalOps) (v v' : var) (prog prog' : list (dinstr S)) (pd : S) :
  Forall2 (same_for S v v') prog prog' ->
  jacobian (drun prog (dinit (init pd))) [v] = jacobian (drun prog' (dinit (init pd))) [v'].
Proof. exact (jacobian_column_independent S v v' prog prog' pd). Qed.
Print Assumptions C19_jacobian_column_independent.

(* (3) an operator with nothing activated adds no partials *)
Theorem C19_inactive_adds_nothing (S : ScalOps) (o : dop S) (ds : dstate S) :
  d_order1 S o = [] -> d_order2 S o = [] -> d_p1 ds = [] -> d_p2 ds = [] ->
  d_p1 (dapply o ds) = [] /\ d_p2 (dapply o ds) = [].
Proof. exact (inactive_adds_nothing S o ds). Qed.
Print Assumptions C19_inactive_adds_nothing.
