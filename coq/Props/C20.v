(* C20 -- Invalid inputs are rejected with an error, never simulated.
   Only statements, each closed by [exact], followed by Print Assumptions.
   reject_<class>: every member of the class (any magnitude, any position in the array argument,
   any batch shape) is refused by the guard; accept_<boundary>: the adjacent valid values pass;
   *_unguarded / offset_accepts_any / *_is_zero_shift: the exact gaps of the guards of the code that exists. *)
From Coq Require Import List ZArith QArith Qcanon Qabs Bool String.
From EPG Require Import Scalar QI Validate ValidateProofs.
Import ListNotations.

Theorem C20_reject_negative_duration pre x post :
  x < 0 -> duration_ok (Some (pre ++ x :: post)) = Reject ValueError.
Proof. exact (reject_negative_duration pre x post). Qed.
Print Assumptions C20_reject_negative_duration.

Theorem C20_accept_nonnegative_duration l :
  (forall d, In d l -> 0 <= d) -> duration_ok (Some l) = Accept.
Proof. exact (accept_nonnegative_duration l). Qed.
Print Assumptions C20_accept_nonnegative_duration.

Theorem C20_duration_accept_iff l :
  duration_ok (Some l) = Accept <-> (forall d, In d l -> 0 <= d).
Proof. exact (duration_accept_iff l). Qed.
Print Assumptions C20_duration_accept_iff.

Theorem C20_accept_zero_duration n : duration_ok (Some (repeat 0 n)) = Accept /\ duration_ok None = Accept.
Proof. exact (accept_zero_duration n). Qed.
Print Assumptions C20_accept_zero_duration.

Theorem C20_reject_negative_tau_as_duration pre x post :
  x < 0 -> timed_op_ok DTrue (pre ++ x :: post) = Reject ValueError.
Proof. exact (reject_negative_tau_as_duration pre x post). Qed.
Print Assumptions C20_reject_negative_tau_as_duration.

(* gap: E, P, D, X do not guard tau itself *)
Theorem C20_negative_tau_unguarded tau : timed_op_ok DNone tau = Accept.
Proof. exact (negative_tau_unguarded tau). Qed.
Print Assumptions C20_negative_tau_unguarded.

(* Offset accepts negative durations by design *)
Theorem C20_offset_accepts_any d : offset_ok d = Accept.
Proof. exact (offset_accepts_any d). Qed.
Print Assumptions C20_offset_accepts_any.

Theorem C20_reject_zero_shift isf sh data d :
  (forall x, In x data -> Qabs x <= atol) -> S_ok (KArr isf sh data) d = Reject TypeError.
Proof. exact (reject_zero_shift isf sh data d). Qed.
Print Assumptions C20_reject_zero_shift.

Theorem C20_reject_zero_shift_int d : S_ok (KInt 0) d = Reject TypeError.
Proof. exact (reject_zero_shift_int d). Qed.
Print Assumptions C20_reject_zero_shift_int.

Theorem C20_accept_nonzero_int_shift z : z <> 0%Z -> S_ok (KInt z) None = Accept.
Proof. exact (accept_nonzero_int_shift z). Qed.
Print Assumptions C20_accept_nonzero_int_shift.

(* a zero row (within the allclose tolerance) at any position b of a batch of shifts, any kdim *)
Theorem C20_reject_zero_shift_row k d b :
  (b < List.length (k_data k) / kdim_of k)%nat ->
  (forall c, (c < kdim_of k)%nat -> Qabs (nth (b * kdim_of k + c) (k_data k) 0) <= atol) ->
  S_ok k d = Reject TypeError.
Proof. exact (reject_zero_shift_row k d b). Qed.
Print Assumptions C20_reject_zero_shift_row.

Theorem C20_reject_too_many_components isf sh data d :
  (4 < lastd (atleast_2d sh))%nat -> exists e, S_ok (KArr isf sh data) d = Reject e.
Proof. exact (reject_too_many_components isf sh data d). Qed.
Print Assumptions C20_reject_too_many_components.

Theorem C20_reject_too_many_components_class isf sh data d :
  (4 < lastd (atleast_2d sh))%nat -> allclose0 data = false -> any_zero_row (KArr isf sh data) = false ->
  S_ok (KArr isf sh data) d = Reject ValueError.
Proof. exact (reject_too_many_components_class isf sh data d). Qed.
Print Assumptions C20_reject_too_many_components_class.

Theorem C20_accept_four_components isf sh data :
  lastd (atleast_2d sh) = 4%nat -> kdim_ok (KArr isf sh data) = true.
Proof. exact (accept_four_components isf sh data). Qed.
Print Assumptions C20_accept_four_components.

Theorem C20_reject_negative_tau_G c tsh pre x post gsh g d :
  x < 0 -> G_ok c tsh (pre ++ x :: post) gsh g d = Reject ValueError.
Proof. exact (reject_negative_tau_G c tsh pre x post gsh g d). Qed.
Print Assumptions C20_reject_negative_tau_G.

Theorem C20_reject_negative_tau_C tsh pre x post d :
  x < 0 -> C_ok tsh (pre ++ x :: post) d = Reject ValueError.
Proof. exact (reject_negative_tau_C tsh pre x post d). Qed.
Print Assumptions C20_reject_negative_tau_C.

Theorem C20_reject_gradient_components c tsh tau a gsh g d :
  (3 < lastd (a :: gsh))%nat -> G_ok c tsh tau (a :: gsh) g d = Reject ValueError.
Proof. exact (reject_gradient_components c tsh tau a gsh g d). Qed.
Print Assumptions C20_reject_gradient_components.

(* the two clauses of the property meet: tau = 0 passes the time guard and is a zero shift *)
Theorem C20_G_tau_zero_is_zero_shift c g d :
  G_ok c [] [0] [] g d = Reject TypeError.
Proof. exact (G_tau_zero_is_zero_shift c g d). Qed.
Print Assumptions C20_G_tau_zero_is_zero_shift.

Theorem C20_C_tau_zero_is_zero_shift d : C_ok [] [0] d = Reject TypeError.
Proof. exact (C_tau_zero_is_zero_shift d). Qed.
Print Assumptions C20_C_tau_zero_is_zero_shift.

(* ------------------------------------------------------------------ 5. float shift without a grid *)
Theorem C20_reject_float_shift_without_grid sh data c :
  S_apply_ok (KArr true sh data) c None None = Reject AttributeError.
Proof. exact (reject_float_shift_without_grid sh data c). Qed.
Print Assumptions C20_reject_float_shift_without_grid.

Theorem C20_reject_any_shift_on_float_coords_without_grid k :
  S_apply_ok k CFloat None None = Reject AttributeError.
Proof. exact (reject_any_shift_on_float_coords_without_grid k). Qed.
Print Assumptions C20_reject_any_shift_on_float_coords_without_grid.

Theorem C20_accept_float_shift_with_grid k c g other :
  Qeq_bool g 0 = false ->
  S_apply_ok k c (Some g) other = Accept /\ S_apply_ok k c None (Some g) = Accept.
Proof. exact (accept_float_shift_with_grid k c g other). Qed.
Print Assumptions C20_accept_float_shift_with_grid.

Theorem C20_accept_int_shift_without_grid z c : c <> CFloat -> S_apply_ok (KInt z) c None None = Accept.
Proof. exact (accept_int_shift_without_grid z c). Qed.
Print Assumptions C20_accept_int_shift_without_grid.

Theorem C20_reject_states_zero_dim data : states_ok [] data = Reject IndexError.
Proof. exact (reject_states_zero_dim data). Qed.
Print Assumptions C20_reject_states_zero_dim.

Theorem C20_reject_states_vector m data : m <> 3%nat -> states_ok [m] data = Reject ValueError.
Proof. exact (reject_states_vector m data). Qed.
Print Assumptions C20_reject_states_vector.

Theorem C20_reject_states_columns s n c data : c <> 3%nat -> states_ok (s ++ [n; c]) data = Reject ValueError.
Proof. exact (reject_states_columns s n c data). Qed.
Print Assumptions C20_reject_states_columns.

Theorem C20_reject_states_even s n c data : Nat.even n = true -> states_ok (s ++ [n; c]) data = Reject ValueError.
Proof. exact (reject_states_even s n c data). Qed.
Print Assumptions C20_reject_states_even.

(* a broken F+/F- or Z symmetry in any batch entry b and any state i *)
Theorem C20_reject_states_asym_F s n data b i :
  (b < prodn s)%nat -> (i < n)%nat -> fsym_at data n b i = false ->
  exists e, states_ok (s ++ [n; 3%nat]) data = Reject e.
Proof. exact (reject_states_asym_F s n data b i). Qed.
Print Assumptions C20_reject_states_asym_F.

Theorem C20_reject_states_asym_Z s n data b i :
  (b < prodn s)%nat -> (i < n)%nat -> zsym_at data n b i = false ->
  exists e, states_ok (s ++ [n; 3%nat]) data = Reject e.
Proof. exact (reject_states_asym_Z s n data b i). Qed.
Print Assumptions C20_reject_states_asym_Z.

Theorem C20_accept_states s n data :
  Nat.even n = false ->
  (forall b i, (b < prodn s)%nat -> (i < n)%nat -> fsym_at data n b i = true /\ zsym_at data n b i = true) ->
  states_ok (s ++ [n; 3%nat]) data = Accept.
Proof. exact (accept_states s n data). Qed.
Print Assumptions C20_accept_states.

(* ------------------------------------------------------------------ 7./8. operator coefficients *)
Theorem C20_reject_scalar_coef_columns s c data a0 :
  c <> 3%nat -> scalar_coef_ok (s ++ [c], data) a0 = Reject ValueError.
Proof. exact (reject_scalar_coef_columns s c data a0). Qed.
Print Assumptions C20_reject_scalar_coef_columns.

Theorem C20_reject_scalar_coef_zero_dim data a0 : scalar_coef_ok ([], data) a0 = Reject ValueError.
Proof. exact (reject_scalar_coef_zero_dim data a0). Qed.
Print Assumptions C20_reject_scalar_coef_zero_dim.

Theorem C20_reject_scalar_coef_asym x (s : list nat) data a0 b c :
  (b < prodn (x :: s))%nat -> (c < 3)%nat -> ssym_at data b c = false ->
  scalar_coef_ok (x :: s ++ [3%nat], data) a0 = Reject ValueError.
Proof. exact (reject_scalar_coef_asym x s data a0 b c). Qed.
Print Assumptions C20_reject_scalar_coef_asym.

Theorem C20_reject_matrix_coef_shape (s : list nat) a b data a0 :
  (a <> 3%nat \/ b <> 3%nat) -> matrix_coef_ok (s ++ [a; b], data) a0 = Reject ValueError.
Proof. exact (reject_matrix_coef_shape s a b data a0). Qed.
Print Assumptions C20_reject_matrix_coef_shape.

Theorem C20_reject_matrix_coef_asym (s : list nat) data a0 b ij :
  (b < prodn s)%nat -> (ij < 9)%nat -> msym_at data b ij = false -> s <> [] ->
  matrix_coef_ok (s ++ [3; 3]%nat, data) a0 = Reject ValueError.
Proof. exact (reject_matrix_coef_asym s data a0 b ij). Qed.
Print Assumptions C20_reject_matrix_coef_asym.

(* ------------------------------------------------------------------ 9. operator / state shapes *)
Theorem C20_reject_not_a_statematrix s1 s2 : prepare_ok false s1 s2 = Reject TypeError.
Proof. exact (reject_not_a_statematrix s1 s2). Qed.
Print Assumptions C20_reject_not_a_statematrix.

Theorem C20_reject_nonbroadcastable s1 s2 i :
  let n := Nat.max (List.length s1) (List.length s2) in
  (i < n)%nat -> dims_compat (dim_app n s1 i) (dim_app n s2 i) = false ->
  prepare_ok true s1 s2 = Reject ValueError.
Proof. exact (reject_nonbroadcastable s1 s2 i). Qed.
Print Assumptions C20_reject_nonbroadcastable.

(* a mismatch on the trailing axis, whatever precedes it *)
Theorem C20_reject_trailing_axis_mismatch (s : list nat) a b :
  a <> 1%nat -> b <> 1%nat -> a <> b -> prepare_ok true (s ++ [a]) (s ++ [b]) = Reject ValueError.
Proof. exact (reject_trailing_axis_mismatch s a b). Qed.
Print Assumptions C20_reject_trailing_axis_mismatch.

Theorem C20_accept_same_shape s : prepare_ok true s s = Accept.
Proof. exact (accept_same_shape s). Qed.
Print Assumptions C20_accept_same_shape.

(* a non-operator item at any position of a MultiOperator *)
Theorem C20_reject_multi_non_operator items : forall cur,
  In None items -> exists e, multi_ok cur items = Reject e.
Proof. exact (reject_multi_non_operator items). Qed.
Print Assumptions C20_reject_multi_non_operator.

(* ------------------------------------------------------------------ 10. kinetic matrices *)
Theorem C20_reject_negative_rate q : q < 0 -> khi_ok (KhiScalar q) = Reject ValueError.
Proof. exact (reject_negative_rate q). Qed.
Print Assumptions C20_reject_negative_rate.

Theorem C20_accept_zero_rate : khi_ok (KhiScalar 0) = Accept.
Proof. exact (accept_zero_rate ). Qed.
Print Assumptions C20_accept_zero_rate.

Theorem C20_reject_khi_vector n data : khi_ok (KhiArr [n] data) = Reject ValueError.
Proof. exact (reject_khi_vector n data). Qed.
Print Assumptions C20_reject_khi_vector.

Theorem C20_reject_khi_not_square s r n data : r <> n -> khi_ok (KhiArr (s ++ [r; n]) data) = Reject ValueError.
Proof. exact (reject_khi_not_square s r n data). Qed.
Print Assumptions C20_reject_khi_not_square.

(* a column that does not sum to zero, in any batch entry *)
Theorem C20_reject_khi_column_sum s n data b j :
  (b < prodn s)%nat -> (j < n)%nat -> close0 (colsum data n b j) = false ->
  khi_ok (KhiArr (s ++ [n; n]) data) = Reject ValueError.
Proof. exact (reject_khi_column_sum s n data b j). Qed.
Print Assumptions C20_reject_khi_column_sum.

Theorem C20_reject_khi_zero_row_sums a b :
  atol < Qabs (b - a) ->
  sumQ [-a; a; b; -b] == 0 /\ khi_ok (KhiArr [2; 2]%nat [-a; a; b; -b]) = Reject ValueError.
Proof. exact (reject_khi_zero_row_sums a b). Qed.
Print Assumptions C20_reject_khi_zero_row_sums.

(* tau = 0 is accepted for every valid kinetic matrix, un-batched or batched *)
Theorem C20_accept_tau_zero khi d :
  khi_ok khi = Accept -> (d = DNone \/ d = DTrue) -> X_ok 0 khi d = Accept.
Proof. exact (accept_tau_zero khi d). Qed.
Print Assumptions C20_accept_tau_zero.

Theorem C20_accept_tau_zero_batched (s : list nat) n data d :
  khi_ok (KhiArr (s ++ [n; n]) data) = Accept -> (d = DNone \/ d = DTrue) ->
  X_ok 0 (KhiArr (s ++ [n; n]) data) d = Accept.
Proof. exact (accept_tau_zero_batched s n data d). Qed.
Print Assumptions C20_accept_tau_zero_batched.

(* the equilibrium is not conserved: some row of khi . density is not zero *)
Theorem C20_reject_not_conserving n data dens i :
  List.length dens = n -> (i < n)%nat -> close0 (rowdot data n dens i) = false ->
  X_apply_ok n data dens = Reject RuntimeError.
Proof. exact (reject_not_conserving n data dens i). Qed.
Print Assumptions C20_reject_not_conserving.

Theorem C20_accept_conserving n data dens :
  List.length dens = n -> (forall i, (i < n)%nat -> close0 (rowdot data n dens i) = true) ->
  X_apply_ok n data dens = Accept.
Proof. exact (accept_conserving n data dens). Qed.
Print Assumptions C20_accept_conserving.

Theorem C20_X_reuse_history_independent n data densities k :
  (k < List.length densities)%nat ->
  nth k (X_reuse_ok n data densities) Accept = X_apply_ok n data (nth k densities []).
Proof. exact (X_reuse_history_independent n data densities k). Qed.
Print Assumptions C20_X_reuse_history_independent.

Theorem C20_reject_not_conserving_after_reuse n data before dens after i :
  List.length dens = n -> (i < n)%nat -> close0 (rowdot data n dens i) = false ->
  nth (List.length before) (X_reuse_ok n data (before ++ dens :: after)) Accept = Reject RuntimeError.
Proof. exact (reject_not_conserving_after_reuse n data before dens after i). Qed.
Print Assumptions C20_reject_not_conserving_after_reuse.

(* ------------------------------------------------------------------ 11. diffusion *)
Theorem C20_reject_D_vector t n k : D_shape_ok t [n] k = Reject ValueError.
Proof. exact (reject_D_vector t n k). Qed.
Print Assumptions C20_reject_D_vector.

Theorem C20_reject_D_not_square t (s : list nat) a b k : a <> b -> D_shape_ok t (s ++ [a; b]) k = Reject ValueError.
Proof. exact (reject_D_not_square t s a b k). Qed.
Print Assumptions C20_reject_D_not_square.

Theorem C20_reject_D_k_mismatch t m j :
  m <> j -> D_shape_ok t [m; m] (Some [j]) = Reject ValueError.
Proof. exact (reject_D_k_mismatch t m j). Qed.
Print Assumptions C20_reject_D_k_mismatch.

(* a tensor of lower dimension than the state's wavenumbers: refused, whatever the shift argument *)
Theorem C20_reject_D_apply_dims m kk s :
  (m < Nat.min s 3)%nat -> D_apply_ok (Some m) kk s = Reject ValueError.
Proof. exact (reject_D_apply_dims m kk s). Qed.
Print Assumptions C20_reject_D_apply_dims.

(* a shift argument of lower dimension than the state's wavenumbers: refused, whatever the tensor *)
Theorem C20_reject_D_apply_k_dims m j s :
  (j < Nat.min s 3)%nat -> D_apply_ok m (Some j) s = Reject ValueError.
Proof. exact (reject_D_apply_k_dims m j s). Qed.
Print Assumptions C20_reject_D_apply_k_dims.

(* more than 3 components can never match sm.k *)
Theorem C20_reject_D_apply_above_3 m kk s : (3 < m)%nat -> D_apply_ok (Some m) kk s = Reject ValueError.
Proof. exact (reject_D_apply_above_3 m kk s). Qed.
Print Assumptions C20_reject_D_apply_above_3.

(* tensor and shift argument of different dimensions (also refused by the constructor) *)
Theorem C20_reject_D_apply_D_k_differ m j s : m <> j -> D_apply_ok (Some m) (Some j) s = Reject ValueError.
Proof. exact (reject_D_apply_D_k_differ m j s). Qed.
Print Assumptions C20_reject_D_apply_D_k_differ.

(* a higher-dimensional argument (up to 3) upgrades the state's coordinates and is accepted *)
Theorem C20_accept_D_apply_higher_upgrades m s :
  (s <= m)%nat -> (1 <= m <= 3)%nat ->
  D_apply_ok (Some m) None s = Accept /\ D_apply_ok None (Some m) s = Accept /\
  D_apply_ok (Some m) (Some m) s = Accept.
Proof. exact (accept_D_apply_higher_upgrades m s). Qed.
Print Assumptions C20_accept_D_apply_higher_upgrades.

Theorem C20_accept_D_apply_matching s :
  (1 <= s)%nat -> D_apply_ok None None s = Accept /\ D_apply_ok (Some (Nat.min s 3)) None s = Accept.
Proof. exact (accept_D_apply_matching s). Qed.
Print Assumptions C20_accept_D_apply_matching.

Theorem C20_D_apply_accept_iff m kk s :
  D_apply_ok m kk s = Accept <->
  (forall j, m = Some j -> j = D_kdim m kk s) /\ (forall j, kk = Some j -> j = D_kdim m kk s).
Proof. exact (D_apply_accept_iff m kk s). Qed.
Print Assumptions C20_D_apply_accept_iff.

(* an unknown parameter name at any position of order1=[...] *)
Theorem C20_reject_unknown_parameter_list params params2 pre x post a2 :
  smem x params = false ->
  parse_partials_ok params params2 (O1List (pre ++ x :: post)) a2 = Reject ValueError.
Proof. exact (reject_unknown_parameter_list params params2 pre x post a2). Qed.
Print Assumptions C20_reject_unknown_parameter_list.

Theorem C20_reject_unknown_parameter_str params params2 x a2 :
  smem x params = false -> parse_partials_ok params params2 (O1Str x) a2 = Reject ValueError.
Proof. exact (reject_unknown_parameter_str params params2 x a2). Qed.
Print Assumptions C20_reject_unknown_parameter_str.

(* an alias {variable: unknown parameter} at any position *)
Theorem C20_reject_unknown_parameter_alias params params2 pre v x post a2 :
  smem x params = false ->
  parse_partials_ok params params2 (O1Alias (pre ++ (v, x) :: post)) a2 = Reject ValueError.
Proof. exact (reject_unknown_parameter_alias params params2 pre v x post a2). Qed.
Print Assumptions C20_reject_unknown_parameter_alias.

(* coefficient form {variable: {parameter: c}}: unknown parameter in any variable's map *)
Theorem C20_reject_unknown_parameter_coef params params2 pre v ps post x a2 :
  In x ps -> smem x params = false ->
  parse_partials_ok params params2 (O1Coef (pre ++ (v, ps) :: post)) a2 = Reject ValueError.
Proof. exact (reject_unknown_parameter_coef params params2 pre v ps post x a2). Qed.
Print Assumptions C20_reject_unknown_parameter_coef.

(* order1=True and a pair of two unknown names at any position of order2=[pairs] *)
Theorem C20_reject_unknown_pair p0 params params2 pre a b post :
  smem a (p0 :: params) = false -> smem b (p0 :: params) = false ->
  parse_partials_ok (p0 :: params) params2 O1True (O2Pairs (pre ++ (a, b) :: post)) = Reject ValueError.
Proof. exact (reject_unknown_pair p0 params params2 pre a b post). Qed.
Print Assumptions C20_reject_unknown_pair.

Theorem C20_accept_order2_name_list p0 params params2 l :
  (forall x, In x l -> smem x (p0 :: params) = true) ->
  parse_partials_ok (p0 :: params) params2 O1True (O2StrList l) = Accept.
Proof. exact (accept_order2_name_list p0 params params2 l). Qed.
Print Assumptions C20_accept_order2_name_list.

(* ... and a name that is no order1 variable, at any position of that list, is refused *)
Theorem C20_reject_unknown_name_in_order2_list p0 params params2 pre x post :
  smem x (p0 :: params) = false ->
  parse_partials_ok (p0 :: params) params2 O1True (O2StrList (pre ++ x :: post)) = Reject ValueError.
Proof. exact (reject_unknown_name_in_order2_list p0 params params2 pre x post). Qed.
Print Assumptions C20_reject_unknown_name_in_order2_list.

Theorem C20_accept_known_parameters p0 params params2 :
  parse_partials_ok (p0 :: params) params2 O1True O2False = Accept.
Proof. exact (accept_known_parameters p0 params params2). Qed.
Print Assumptions C20_accept_known_parameters.

Theorem C20_reject_non_operator_item l fuel : has_nonop l -> simulate_ok fuel l = Reject ValueError.
Proof. exact (reject_non_operator_item l fuel). Qed.
Print Assumptions C20_reject_non_operator_item.

Theorem C20_reject_non_operator_item_modify l fuel c : has_nonop l -> modify_ok fuel l c = Reject ValueError.
Proof. exact (reject_non_operator_item_modify l fuel c). Qed.
Print Assumptions C20_reject_non_operator_item_modify.

(* no probe among the flattened operators, whatever the length and nesting *)
Theorem C20_reject_no_probe fuel l leaves :
  flatten fuel l = Some leaves -> existsb is_probe leaves = false -> simulate_ok fuel l = Reject ValueError.
Proof. exact (reject_no_probe fuel l leaves). Qed.
Print Assumptions C20_reject_no_probe.

Theorem C20_accept_with_probe fuel l leaves :
  flatten fuel l = Some leaves -> leaves <> [] -> bshapes_ok (map leaf_shape leaves) = true ->
  existsb is_probe leaves = true -> simulate_ok fuel l = Accept.
Proof. exact (accept_with_probe fuel l leaves). Qed.
Print Assumptions C20_accept_with_probe.

(* ... whatever options accompany the call (probe=, adc_time, asarray, init, max_nstate, callback) *)
Theorem C20_reject_no_probe_any_options o fuel l leaves :
  flatten fuel l = Some leaves -> existsb is_probe leaves = false ->
  simulate_call_ok o fuel l = Reject ValueError.
Proof. exact (reject_no_probe_any_options o fuel l leaves). Qed.
Print Assumptions C20_reject_no_probe_any_options.

Theorem C20_reject_non_operator_item_any_options o l fuel : has_nonop l -> simulate_call_ok o fuel l = Reject ValueError.
Proof. exact (reject_non_operator_item_any_options o l fuel). Qed.
Print Assumptions C20_reject_non_operator_item_any_options.

Theorem C20_accept_with_probe_any_options o fuel l leaves :
  flatten fuel l = Some leaves -> leaves <> [] -> bshapes_ok (map leaf_shape leaves) = true ->
  existsb is_probe leaves = true -> simulate_call_ok o fuel l = Accept.
Proof. exact (accept_with_probe_any_options o fuel l leaves). Qed.
Print Assumptions C20_accept_with_probe_any_options.

Theorem C20_reject_non_virtual_operator pre post : seq_check_ok (pre ++ false :: post) = Reject ValueError.
Proof. exact (reject_non_virtual_operator pre post). Qed.
Print Assumptions C20_reject_non_virtual_operator.

Theorem C20_reject_missing_variable pre v post given :
  smem v given = false -> seq_values_ok (pre ++ v :: post) given = Reject ValueError.
Proof. exact (reject_missing_variable pre v post given). Qed.
Print Assumptions C20_reject_missing_variable.

Theorem C20_accept_all_variables_given vars : seq_values_ok vars vars = Accept.
Proof. exact (accept_all_variables_given vars). Qed.
Print Assumptions C20_accept_all_variables_given.

Theorem C20_reject_unknown_order1_variable vars pre v post o2 given :
  smem v vars = false -> not_magnitude v = true ->
  seq_build_ok vars (pre ++ v :: post) o2 given = Reject ValueError.
Proof. exact (reject_unknown_order1_variable vars pre v post o2 given). Qed.
Print Assumptions C20_reject_unknown_order1_variable.

Theorem C20_reject_unknown_order2_variable vars o1 pre v w post given :
  smem v vars = false -> not_magnitude v = true ->
  seq_build_ok vars o1 (pre ++ (v, w) :: post) given = Reject ValueError /\
  seq_build_ok vars o1 (pre ++ (w, v) :: post) given = Reject ValueError.
Proof. exact (reject_unknown_order2_variable vars o1 pre v w post given). Qed.
Print Assumptions C20_reject_unknown_order2_variable.

(* "magnitude" and the sequence's own variables are accepted in any pairing *)
Theorem C20_accept_known_order2_variables vars o2 :
  (forall p, In p o2 -> (fst p = "magnitude"%string \/ In (fst p) vars) /\ (snd p = "magnitude"%string \/ In (snd p) vars)) ->
  seq_build_ok vars [] o2 vars = Accept.
Proof. exact (accept_known_order2_variables vars o2). Qed.
Print Assumptions C20_accept_known_order2_variables.

Theorem C20_reject_pulse_sample_above_1 rf alpha pre v post dur :
  given rf alpha -> 1 < abs2 v -> pulse_ok rf alpha 1 (pre ++ v :: post) dur = Reject ValueError.
Proof. exact (reject_pulse_sample_above_1 rf alpha pre v post dur). Qed.
Print Assumptions C20_reject_pulse_sample_above_1.

Theorem C20_reject_pulse_without_rf_and_alpha ndim values dur :
  pulse_ok None None ndim values dur = Reject ValueError.
Proof. exact (reject_pulse_without_rf_and_alpha ndim values dur). Qed.
Print Assumptions C20_reject_pulse_without_rf_and_alpha.

Theorem C20_accept_pulse_within_unit_disc rf alpha values d :
  given rf alpha -> (forall v, In v values -> abs2 v <= 1) -> 0 <= d ->
  pulse_ok rf alpha 1 values (PScalar d) = Accept.
Proof. exact (accept_pulse_within_unit_disc rf alpha values d). Qed.
Print Assumptions C20_accept_pulse_within_unit_disc.

(* boundary: a zero flip angle or a zero amplitude, with the other one not given, and zero duration *)
Theorem C20_accept_pulse_zero_alpha_or_rf values :
  (forall v, In v values -> abs2 v <= 1) ->
  pulse_ok None (Some 0) 1 values (PScalar 0) = Accept /\ pulse_ok (Some 0) None 1 values (PScalar 0) = Accept /\
  pulse_ok (Some 0) (Some 0) 1 values (PScalar 0) = Accept.
Proof. exact (accept_pulse_zero_alpha_or_rf values). Qed.
Print Assumptions C20_accept_pulse_zero_alpha_or_rf.

(* ------------------------------------------------------------------ allclose on complex entries *)
Theorem C20_close_within_atol A B : A <= atol * atol -> le_sqrt_aff A B = true.
Proof. exact (close_within_atol A B). Qed.
Print Assumptions C20_close_within_atol.

(* beyond atol and beyond the relative term: rejected (squares: (|a-b| - atol)^2 > rtol^2 |b|^2) *)
Theorem C20_far_not_close A B :
  atol * atol < A -> 0 < A + atol * atol - rtol * rtol * B ->
  4 * (atol * atol) * A < (A + atol * atol - rtol * rtol * B) * (A + atol * atol - rtol * rtol * B) ->
  le_sqrt_aff A B = false.
Proof. exact (far_not_close A B). Qed.
Print Assumptions C20_far_not_close.

(* exact symmetry is always accepted *)
Theorem C20_cclose_refl (a : QI) : cclose a a = true.
Proof. exact (cclose_refl a). Qed.
Print Assumptions C20_cclose_refl.

(* non-vacuity: concrete members on the executed instance *)
Example C20_nonvacuous :
  duration_ok (Some [1; -(1 # 1000000); 2]) = Reject ValueError /\
  states_ok [3%nat] [qr 1 1; qr 0 1; qr 1 1] = Reject ValueError /\
  states_ok [3%nat] [qi 0 1 1 1; qi 0 1 (-1) 1; qr 1 1] = Accept /\
  prepare_ok true [2; 3]%nat [3]%nat = Reject ValueError /\
  simulate_ok 8 [IOp [1%nat]; IList [IOp [2%nat]; INonOp]; IProbe] = Reject ValueError.
Proof. repeat split; vm_compute; reflexivity. Qed.
