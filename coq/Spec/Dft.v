(* DFT inversion: the phase states are recovered from the isochromat
   magnetisations M(w^m), m < N, for any principal N-th root of unity w, N > 2n.
   Hence the states ARE the discrete Fourier coefficients of the ensemble. *)
From Coq Require Import List ZArith Lia Bool Arith Ring.
From EPG Require Import Scalar Synth.
Import ListNotations.

Section Dft.
Variable S : ScalOps.
Hypothesis L : ScalLaws S.
Add Ring Kr : (k_ring S L).
Variables w wi : S.
Hypothesis wwi : (w * wi)%K = k1.
Local Open Scope Z_scope.
Notation wpow := (zpow S w wi).
Notation sumn := (sumn S).
Notation sumZ := (sumZ S).

(* natural number N as a ring element *)
Definition kofnat (n : nat) : S := sumn n (fun _ => k1).

(* (w^m)^k = w^(m k):  powers taken with base w^m, inverse w^-m *)
Lemma zpow_mul m k : zpow S (wpow m) (wpow (- m)) k = wpow (m * k).
Proof.
  assert (Hinv : (wpow m * wpow (- m))%K = k1) by (apply (zpow_opp_cancel S L w wi wwi)).
  apply (Z.peano_ind (fun k => zpow S (wpow m) (wpow (- m)) k = wpow (m * k))).
  - now rewrite Z.mul_0_r.
  - intros j IH. unfold Z.succ.
    rewrite (zpow_succ S L _ _ Hinv), IH.
    replace (m * (j + 1)) with (m + m * j) by lia. now rewrite (zpow_add S L w wi wwi).
  - intros j IH. unfold Z.pred. replace (j + -1) with (j - 1) by lia.
    rewrite (zpow_pred S L _ _ Hinv), IH.
    replace (m * (j - 1)) with (- m + m * j) by lia. now rewrite (zpow_add S L w wi wwi).
Qed.

Lemma sumn_swap n m (f : nat -> nat -> S) :
  sumn n (fun i => sumn m (fun j => f i j)) = sumn m (fun j => sumn n (fun i => f i j)).
Proof.
  induction n as [|n IH]; simpl.
  - symmetry. apply (sumn_zero S L). auto.
  - rewrite IH. now rewrite <- (sumn_add S L).
Qed.

(* w is a principal N-th root of unity *)
Variable N : nat.
Hypothesis principal : forall j, j <> 0 -> - Z.of_nat N < j < Z.of_nat N ->
  sumn N (fun m => wpow (j * Z.of_nat m)) = k0.

Lemma orth j : - Z.of_nat N < j < Z.of_nat N ->
  sumn N (fun m => wpow (j * Z.of_nat m)) = if j =? 0 then kofnat N else k0.
Proof.
  intros Hj. destruct (Z.eqb_spec j 0) as [->|Hn].
  - apply (sumn_ext S). intros i _. reflexivity.
  - now apply principal.
Qed.

(* sum over a window of a family that is k0 except at one index *)
Lemma sumZ_single lo n (f : Z -> S) k0' :
  lo <= k0' < lo + Z.of_nat n -> (forall k, k <> k0' -> f k = k0) -> sumZ lo n f = f k0'.
Proof.
  intros Hk Hf.
  rewrite (sumZ_widen S L lo n k0' 1 f); try lia.
  - unfold Synth.sumZ. simpl. replace (k0' + 0) with k0' by lia. ring.
  - intros k Hk'. apply Hf. lia.
Qed.

Theorem dft_inversion (n : nat) (g : Z -> S) (k : Z) :
  supp S n g -> (2 * n < N)%nat -> - Z.of_nat n <= k <= Z.of_nat n ->
  sumn N (fun m => kmul (wpow (- (Z.of_nat m * k)))
                    (syn S (wpow (Z.of_nat m)) (wpow (- Z.of_nat m)) n g))
  = (kofnat N * g k)%K.
Proof.
  intros Hg HN Hk.
  unfold syn, Synth.sumZ.
  (* push the outer factor inside and swap the two sums *)
  rewrite (sumn_ext S N _ (fun m => sumn (2 * n + 1) (fun i =>
     kmul (wpow ((Z.of_nat i - Z.of_nat n - k) * Z.of_nat m)) (g (- Z.of_nat n + Z.of_nat i))))).
  2:{ intros m _. rewrite <- (sumn_scale S L). apply (sumn_ext S). intros i _.
      rewrite zpow_mul.
      replace ((Z.of_nat i - Z.of_nat n - k) * Z.of_nat m)
        with (- (Z.of_nat m * k) + Z.of_nat m * (- Z.of_nat n + Z.of_nat i)) by lia.
      rewrite (zpow_add S L w wi wwi). ring. }
  rewrite sumn_swap.
  rewrite (sumn_ext S (2 * n + 1) _ (fun i =>
     kmul (if (Z.of_nat i - Z.of_nat n - k) =? 0 then kofnat N else k0) (g (- Z.of_nat n + Z.of_nat i)))).
  2:{ intros i Hi.
      rewrite (sumn_ext S N _ (fun m => kmul (g (- Z.of_nat n + Z.of_nat i)) (wpow ((Z.of_nat i - Z.of_nat n - k) * Z.of_nat m))))
        by (intros; ring).
      rewrite (sumn_scale S L), orth by lia. ring. }
  transitivity (sumZ (- Z.of_nat n) (2 * n + 1)
     (fun j => kmul (if (j - k) =? 0 then kofnat N else k0) (g j))).
  { apply (sumn_ext S). intros i _.
    replace (Z.of_nat i - Z.of_nat n - k) with (- Z.of_nat n + Z.of_nat i - k) by lia. reflexivity. }
  rewrite (sumZ_single _ _ _ k); try lia.
  - now rewrite Z.sub_diag.
  - intros j Hj. destruct (Z.eqb_spec (j - k) 0); [lia|ring].
Qed.

End Dft.
