(* Laurent-polynomial synthesis  M(z) = sum_k z^k s(k)  over an abstract commutative
   ring with an invertible z: integer powers, finite sums over integer windows,
   re-indexing, widening over functions of finite support. *)
From Coq Require Import List ZArith Lia Bool Arith Ring.
From EPG Require Import Scalar.
Import ListNotations.

Section Synth.
Variable S : ScalOps.
Hypothesis L : ScalLaws S.
Add Ring Kr : (k_ring S L).
Variables z zi : S.
Hypothesis zzi : (z * zi)%K = k1.
Local Open Scope Z_scope.

Fixpoint kpow (x : S) (n : nat) : S :=
  match n with O => k1 | Datatypes.S n' => (x * kpow x n')%K end.

Definition zpow (k : Z) : S :=
  match k with
  | Z0 => k1
  | Zpos p => kpow z (Pos.to_nat p)
  | Zneg p => kpow zi (Pos.to_nat p)
  end.

Lemma zpow_nat n : zpow (Z.of_nat n) = kpow z n.
Proof. destruct n; simpl; auto. now rewrite SuccNat2Pos.id_succ. Qed.
Lemma zpow_neg_nat n : zpow (- Z.of_nat n) = kpow zi n.
Proof. destruct n; simpl; auto. now rewrite SuccNat2Pos.id_succ. Qed.

Lemma zpow_succ k : zpow (k + 1) = (z * zpow k)%K.
Proof.
  destruct (Z_le_gt_dec 0 k) as [H|H].
  - rewrite <- (Z2Nat.id k H). replace (Z.of_nat (Z.to_nat k) + 1) with (Z.of_nat (Datatypes.S (Z.to_nat k))) by lia.
    now rewrite !zpow_nat.
  - replace k with (- Z.of_nat (Datatypes.S (Z.to_nat (- k - 1)))) by lia.
    replace (- Z.of_nat (Datatypes.S (Z.to_nat (- k - 1))) + 1) with (- Z.of_nat (Z.to_nat (- k - 1))) by lia.
    rewrite !zpow_neg_nat. simpl.
    transitivity ((z * zi) * kpow zi (Z.to_nat (- k - 1)))%K; [rewrite zzi|]; ring.
Qed.

Lemma zpow_pred k : zpow (k - 1) = (zi * zpow k)%K.
Proof.
  replace k with ((k - 1) + 1) at 2 by lia. rewrite zpow_succ.
  transitivity ((z * zi) * zpow (k - 1))%K; [rewrite zzi|]; ring.
Qed.

Lemma zpow_0 : zpow 0 = k1. Proof. reflexivity. Qed.

Lemma zpow_add a b : zpow (a + b) = (zpow a * zpow b)%K.
Proof.
  revert b. apply (Z.peano_ind (fun b => zpow (a + b) = (zpow a * zpow b)%K)).
  - rewrite Z.add_0_r, zpow_0. ring.
  - intros b IH. unfold Z.succ. replace (a + (b + 1)) with ((a + b) + 1) by lia.
    rewrite !zpow_succ, IH. ring.
  - intros b IH. unfold Z.pred. replace (a + (b + -1)) with ((a + b) - 1) by lia.
    replace (b + -1) with (b - 1) by lia.
    rewrite !zpow_pred, IH. ring.
Qed.

Lemma zpow_opp_cancel d : (zpow d * zpow (- d))%K = k1.
Proof. rewrite <- zpow_add. now replace (d + - d) with 0 by lia. Qed.

(* ---- finite sums ---- *)
Fixpoint sumn (n : nat) (f : nat -> S) : S :=
  match n with O => k0 | Datatypes.S n' => (sumn n' f + f n')%K end.

Lemma sumn_ext n f g : (forall i, (i < n)%nat -> f i = g i) -> sumn n f = sumn n g.
Proof.
  induction n as [|n IH]; intros H; simpl; auto.
  rewrite IH, H; auto.
Qed.
Lemma sumn_zero n f : (forall i, (i < n)%nat -> f i = k0) -> sumn n f = k0.
Proof.
  induction n as [|n IH]; intros H; simpl; auto.
  rewrite IH, H; auto. ring.
Qed.
Lemma sumn_add n f g : sumn n (fun i => (f i + g i)%K) = (sumn n f + sumn n g)%K.
Proof. induction n as [|n IH]; simpl; [ring|rewrite IH; ring]. Qed.
Lemma sumn_scale n c f : sumn n (fun i => (c * f i)%K) = (c * sumn n f)%K.
Proof. induction n as [|n IH]; simpl; [ring|rewrite IH; ring]. Qed.
Lemma sumn_app n m f : sumn (n + m) f = (sumn n f + sumn m (fun i => f (n + i)%nat))%K.
Proof.
  induction m as [|m IH]; simpl.
  - rewrite Nat.add_0_r. ring.
  - rewrite Nat.add_succ_r. simpl. rewrite IH. ring.
Qed.

Definition sumZ (lo : Z) (n : nat) (f : Z -> S) : S := sumn n (fun i => f (lo + Z.of_nat i)).

Lemma sumZ_ext lo n f g : (forall k, lo <= k < lo + Z.of_nat n -> f k = g k) -> sumZ lo n f = sumZ lo n g.
Proof. intros H. apply sumn_ext. intros i Hi. apply H. lia. Qed.
Lemma sumZ_zero lo n f : (forall k, lo <= k < lo + Z.of_nat n -> f k = k0) -> sumZ lo n f = k0.
Proof. intros H. apply sumn_zero. intros i Hi. apply H. lia. Qed.
Lemma sumZ_add lo n f g : sumZ lo n (fun k => (f k + g k)%K) = (sumZ lo n f + sumZ lo n g)%K.
Proof. apply sumn_add. Qed.
Lemma sumZ_scale lo n c f : sumZ lo n (fun k => (c * f k)%K) = (c * sumZ lo n f)%K.
Proof. apply sumn_scale. Qed.
Lemma sumZ_app lo n m f : sumZ lo (n + m) f = (sumZ lo n f + sumZ (lo + Z.of_nat n) m f)%K.
Proof.
  unfold sumZ. rewrite sumn_app. f_equal. apply sumn_ext. intros i _. f_equal. lia.
Qed.
Lemma sumZ_reindex lo n d f : sumZ lo n (fun k => f (k - d)) = sumZ (lo - d) n f.
Proof. apply sumn_ext. intros i _. f_equal. lia. Qed.

(* a function vanishing outside [a, a+n) can be summed over any larger window *)
Lemma sumZ_widen lo m a n f :
  (forall k, k < a \/ a + Z.of_nat n <= k -> f k = k0) ->
  lo <= a -> a + Z.of_nat n <= lo + Z.of_nat m ->
  sumZ lo m f = sumZ a n f.
Proof.
  intros Hf H1 H2.
  replace m with (Z.to_nat (a - lo) + (n + Z.to_nat (lo + Z.of_nat m - (a + Z.of_nat n))))%nat by lia.
  rewrite sumZ_app, sumZ_app.
  rewrite (sumZ_zero lo) by (intros k Hk; apply Hf; lia).
  replace (lo + Z.of_nat (Z.to_nat (a - lo))) with a by lia.
  rewrite (sumZ_zero (a + Z.of_nat n)) by (intros k Hk; apply Hf; lia).
  ring.
Qed.

(* ---- synthesis over the window [-w, w] ---- *)
Definition syn (w : nat) (g : Z -> S) : S :=
  sumZ (- Z.of_nat w) (2 * w + 1) (fun k => (zpow k * g k)%K).

Definition supp (w : nat) (g : Z -> S) : Prop :=
  forall k, k < - Z.of_nat w \/ Z.of_nat w < k -> g k = k0.

Lemma syn_ext w g h : (forall k, g k = h k) -> syn w g = syn w h.
Proof. intros H. apply sumZ_ext. intros k _. now rewrite H. Qed.

Lemma syn_widen w w' g : supp w g -> (w <= w')%nat -> syn w' g = syn w g.
Proof.
  intros Hg Hw. unfold syn. apply sumZ_widen; try lia.
  intros k Hk. rewrite Hg by lia. ring.
Qed.

Lemma syn_add w g h : syn w (fun k => (g k + h k)%K) = (syn w g + syn w h)%K.
Proof.
  unfold syn. rewrite <- sumZ_add. apply sumZ_ext. intros k _. ring.
Qed.
Lemma syn_scale w c g : syn w (fun k => (c * g k)%K) = (c * syn w g)%K.
Proof.
  unfold syn. rewrite <- sumZ_scale. apply sumZ_ext. intros k _. ring.
Qed.
Lemma syn_zero w : syn w (fun _ => k0) = k0.
Proof. unfold syn. apply sumZ_zero. intros k _. ring. Qed.

(* a family supported on {0} synthesises to its value at 0 *)
Lemma syn_delta w g : supp 0 g -> syn w g = g 0.
Proof.
  intros Hg. rewrite (syn_widen 0 w g Hg) by lia.
  unfold syn, sumZ. simpl. ring.
Qed.

(* shifting the index by d multiplies the synthesis by z^d *)
Lemma syn_shift w w' d g : supp w g -> (w + Z.abs_nat d <= w')%nat ->
  syn w' (fun k => g (k - d)) = (zpow d * syn w g)%K.
Proof.
  intros Hg Hw. unfold syn.
  transitivity (sumZ (- Z.of_nat w' - d) (2 * w' + 1) (fun j => (zpow d * (zpow j * g j))%K)).
  { rewrite <- (sumZ_reindex (- Z.of_nat w') (2 * w' + 1) d (fun j => (zpow d * (zpow j * g j))%K)).
    apply sumZ_ext. intros k _. replace k with (d + (k - d)) at 1 by lia. rewrite zpow_add. ring. }
  rewrite sumZ_scale. f_equal.
  apply sumZ_widen; try lia.
  intros k Hk. rewrite Hg by lia. ring.
Qed.

End Synth.
