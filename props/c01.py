"""C01 — EPG states are the Fourier coefficients of a Bloch isochromat ensemble."""
import json
import numpy as np
from vlib import core, prog, tie

HEADER = prog.HEADER


def bloch_oracle(p, N=None):
    """independent spec: N isochromats with dephasing factors z_j = exp(2 pi i j/N), classical
    per-isochromat semantics of every operator, then DFT -> (F+(k), F-(k), Z(k)) for k in [-n, n]"""
    pd = p["pd"]
    n = 0 if p["init"] is None else (len(p["init"]) - 1) // 2
    ntot = n + sum(abs(o["d"]) for o in p["ops"] if o["op"] == "shift")
    N = N or (2 * ntot + 3)
    z = np.exp(2j * np.pi * np.arange(N) / N)
    if p["init"] is None:
        m = np.zeros((N, 3), complex)
        m[:, 2] = pd
    else:
        init = np.array(p["init"], complex)
        ks = np.arange(-n, n + 1)
        m = np.stack([(z[:, None] ** ks[None, :] * init[None, :, c]).sum(1) for c in range(3)], axis=1)
    meq = np.array([0, 0, pd], complex)
    for o in p["ops"]:
        k = o["op"]
        if k == "scalar":
            m = m * np.array(o["arr"])[None, :] + (0 if o["arr0"] is None else (np.array(o["arr0"]) * meq)[None, :])
        elif k == "matrix":
            m = m @ np.array(o["mat"]).T + (0 if o["mat0"] is None else (np.array(o["mat0"]) @ meq)[None, :])
        elif k == "shift":
            m = m * np.stack([z ** o["d"], z ** (-o["d"]), np.ones(N)], axis=1)
        elif k == "spoil":
            m = m * np.array([0, 0, 1])[None, :]
        elif k == "reset":
            m = np.tile(meq, (N, 1))
        elif k == "pd":
            meq = np.array([0, 0, o["p"]], complex)
            if o["reset"]:
                m = np.tile(meq, (N, 1))
    ks = np.arange(-ntot, ntot + 1)
    coef = np.stack([(z[:, None] ** (-ks[None, :]) * m[:, c][:, None]).sum(0) / N for c in range(3)], axis=1)
    return ks, coef


def untruncated(p):
    return p["max_nstate"] is None and all(o.get("nmax") is None for o in p["ops"] if o["op"] == "shift")


def oracle_disagrees(p, final):
    ks, coef = bloch_oracle(p)
    st = np.array(final[0], complex)
    n = (st.shape[0] - 1) // 2
    full = np.zeros_like(coef)
    c = (coef.shape[0] - 1) // 2
    if n > c:
        return "more states than the accumulated shift allows"
    full[c - n:c + n + 1] = st
    err = np.abs(full - coef).max()
    return None if err <= 1e-9 * (1 + np.abs(coef).max()) else "max |state - DFT of isochromats| = %.3g" % err


def adc_trace_disagrees(p, snaps):
    """the values recorded by in-sequence probes (the default ADC and Adc('Z0'), no probe= override) after EVERY operator
    must be F0 / Z0 of the state at that point (snapshots of the same program stepped operator by operator)"""
    import epgpy as epg
    seq, cache = [], {}
    for o in p["ops"]:
        # equal operators are ONE object here (as in user sequences [exc] + [block] * n); the snapshots come from fresh objects
        key = repr(sorted(o.items(), key=lambda kv: kv[0]))
        if key not in cache:
            cache[key] = prog.build_op(o)
        seq += [cache[key], epg.ADC, epg.Adc("Z0")]
    opts = {"max_nstate": p["max_nstate"]} if p["max_nstate"] else {}
    if p["init"] is not None:
        init = epg.StateMatrix(np.array(p["init"], complex), density=p["pd"])
    else:
        init = epg.StateMatrix(density=p["pd"])
    vals = np.asarray(epg.simulate(seq, init=init, **opts)).reshape(-1)
    for i, sn in enumerate(snaps[1:]):
        st = np.array(sn[0], complex)
        c = (st.shape[0] - 1) // 2
        if vals[2 * i] != st[c, 0] or vals[2 * i + 1] != st[c, 2]:
            return "acquisition after operator %d records (%s, %s) but the state at that point has F0 = %s, Z0 = %s" % (
                i, vals[2 * i], vals[2 * i + 1], st[c, 0], st[c, 2])
    return None


def simulate_probe(p):
    import epgpy as epg
    seq = [prog.build_op(o) for o in p["ops"]] + [epg.ADC]
    opts = {"max_nstate": p["max_nstate"]} if p["max_nstate"] else {}
    if p["init"] is not None and p.get("init_as_array"):
        # simulate() builds the state matrix itself from a raw (2n+1)x3 array
        f0, z0 = epg.simulate(seq, probe=["F0", "Z0"], init=np.array(p["init"], complex), density=p["pd"], **opts)
        return complex(np.ravel(f0)[0]), complex(np.ravel(z0)[0])
    if p["init"] is not None:
        init = epg.StateMatrix(np.array(p["init"], complex), density=p["pd"])
    else:
        init = epg.StateMatrix(density=p["pd"])
    f0, z0 = epg.simulate(seq, probe=["F0", "Z0"], init=init, **opts)
    return complex(np.ravel(f0)[0]), complex(np.ravel(z0)[0])


def tse_reference(a, ph, tau, T1, T2, g):
    """T(a,ph) S(1) E(tau,T1,T2,g) T(2a,ph+30) S(1) E(...) on N=7 Bloch isochromats -> Fourier coefficients k=-2..2"""
    N = 7
    z = np.exp(2j * np.pi * np.arange(N) / N)
    m = np.zeros((N, 3), complex); m[:, 2] = 1

    def rf(m, al, p):
        a_, p_ = np.deg2rad(al), np.deg2rad(p)
        mx, my, mz = m[:, 0].real, m[:, 0].imag, m[:, 2].real
        nx, ny = np.cos(p_), np.sin(p_)
        nv = nx * mx + ny * my
        x = mx * np.cos(a_) + ny * mz * np.sin(a_) + nx * nv * (1 - np.cos(a_))
        y = my * np.cos(a_) - nx * mz * np.sin(a_) + ny * nv * (1 - np.cos(a_))
        zc = mz * np.cos(a_) + (nx * my - ny * mx) * np.sin(a_)
        return np.stack([x + 1j * y, x - 1j * y, zc + 0j], axis=1)

    def relax(m):
        e2 = np.exp(-tau / T2) * np.exp(2j * np.pi * g * tau)
        e1 = np.exp(-tau / T1)
        return np.stack([m[:, 0] * e2, m[:, 1] * np.conj(e2), m[:, 2] * e1 + (1 - e1)], axis=1)
    m = rf(m, a, ph); m = m * np.stack([z, 1 / z, np.ones(N)], axis=1); m = relax(m)
    m = rf(m, 2 * a, ph + 30); m = m * np.stack([z, 1 / z, np.ones(N)], axis=1); m = relax(m)
    ks = np.arange(-2, 3)
    return np.stack([(z[:, None] ** (-ks[None, :]) * m[:, c][:, None]).sum(0) / N for c in range(3)], axis=1)


def batched_case(rng):
    """parameters on two batch axes (epgpy aligns array parameters on the LEFT): T1 of shape (n,) lives on axis 0,
    the flip angle of shape (1, m) on axis 1; square batches (n == m) are the case where a right-aligned broadcast
    would not raise"""
    n = rng.choice([2, 3])
    m = rng.choice([n, n, rng.choice([2, 3, 4])])
    return {"T1": [rng.choice([300.0, 500.0, 800.0, 1000.0, 1500.0]) + 10 * i for i in range(n)],
            "alpha": [rng.choice([30, 60, 90, 120, 150]) + 3 * j for j in range(m)],
            "T2": rng.choice([[40.0], [40.0 + 7 * i for i in range(n)]]),      # scalar or a second (n,) array on axis 0
            "ph": rng.choice([0, 45, 90, 210]), "tau": rng.choice([2.0, 5.0, 10.0, 200.0]), "g": rng.choice([0.0, 0.01, -0.02]),
            "inplace": rng.random() < 0.5}


def batched_disagrees(c):
    import epgpy as epg
    T1 = np.array(c["T1"]); al = np.array(c["alpha"])[None, :]
    T2 = c["T2"][0] if len(c["T2"]) == 1 else np.array(c["T2"])
    seq = [epg.T(al, c["ph"]), epg.S(1), epg.E(c["tau"], T1, T2, c["g"]), epg.T(2 * al, c["ph"] + 30), epg.S(1), epg.E(c["tau"], T1, T2, c["g"])]
    sm = epg.StateMatrix()
    for op in seq:
        sm = op(sm, inplace=c["inplace"])
    st = np.array(sm.states)
    n, m = len(c["T1"]), len(c["alpha"])
    if st.shape != (n, m, 5, 3):
        return "batched T/S/E sequence: states of shape %s, expected %s" % (st.shape, (n, m, 5, 3))
    for i in range(n):
        for j in range(m):
            ref = tse_reference(c["alpha"][j], c["ph"], c["tau"], c["T1"][i], c["T2"][0] if len(c["T2"]) == 1 else c["T2"][i], c["g"])
            e = np.abs(ref - st[i, j]).max()
            if e > 1e-9:
                return "batch entry (%d, %d) of a T/S/E sequence differs from its Bloch isochromats by %.3g" % (i, j, e)
    return None


def batched_stream(ctx, ncases):
    import random
    rng = random.Random(repr((ctx.seed, "C01-batched")))     # own stream: the older streams keep their random sequence
    shapes = {}
    for _ in range(ncases):
        c = batched_case(rng)
        key = "%dx%d%s" % (len(c["T1"]), len(c["alpha"]), "+T2" if len(c["T2"]) > 1 else "")
        shapes[key] = shapes.get(key, 0) + 1
        ctx.count(("batched", json.dumps(c, sort_keys=True)), nontrivial=True)
        try:
            why = batched_disagrees(c)
        except Exception as e:
            why = "valid batched sequence raises %s: %s" % (type(e).__name__, str(e)[:160])
        if why:
            ctx.report(why, {"batched_case": c}, found_input=True, signature={"stream": "batched", "square": len(c["T1"]) == len(c["alpha"])})
            break
    ctx.cov["batched_isochromat_shapes"] = shapes


def run(ctx):
    proved = ctx.prove(gen=True)
    quick = ctx.tier == "quick"
    # vectorised real operators against per-entry Bloch isochromats (the shape algebra itself is C07's subject)
    batched_stream(ctx, 12 if quick else 300)
    # tie no. 3: generated definitions vs implementation numerics
    ents = [e for e in tie.transition_entries() if e[0] in ("rotation_operator", "rotation_alpha", "rotation_phi")]
    ents += [e for e in tie.evolution_entries() if e[0] in ("evolution_operator", "precession_operator", "relaxation_operator")]
    ents += [e for e in tie.glue_entries() if e[0] in ("T_op", "Phi_op", "E_op", "P_op", "R_op")]
    nok, nbad = tie.run(ctx, ents, 3 if quick else 40)
    # correspondence of the structural model
    n = 160 if quick else 4000
    terms, kept = [], []
    for i in range(n):
        if i % 4 == 3:
            # stream focused on custom initial states handed to simulate() as raw arrays
            p = prog.gen_program(ctx.rng, maxlen=5, kinds=["matrix", "shift", "shift", "scalar"], init_p=1.0,
                                 nmax_p=0.0, global_nmax_p=0.0)
            p["init_as_array"] = True
        elif i % 5 in (1, 4):
            # echo-focused stream: pulses and 1-D shifts of both signs only, so that pathways dephase far beyond the
            # largest CUMULATED shift and come back to the centre (no reset / spoiler / cap in between)
            for _ in range(6):
                p = prog.gen_program(ctx.rng, maxlen=16, kinds=["matrix", "shift", "shift", "shift"], init_p=0.0, nmax_p=0.0, global_nmax_p=0.0)
                if len(p["ops"]) >= 9:
                    break
            for o in p["ops"]:
                if o["op"] == "shift":
                    o["d"] = ctx.rng.choice([1, 2, 2, 3]) * ctx.rng.choice([1, -1])
            p["init_as_array"] = False
        else:
            p = prog.gen_program(ctx.rng, maxlen=10 if quick else 16)
            p["init_as_array"] = ctx.rng.random() < 0.5
            rec = [j for j, o in enumerate(p["ops"]) if o["op"] in ("scalar", "matrix") and o.get("arr0" if o["op"] == "scalar" else "mat0") is not None]
            if rec and ctx.rng.random() < 0.3:
                # the same operator (with a recovery term) applied again after the density changed, state count unchanged
                j = ctx.rng.choice(rec)
                extra = [{"op": "pd", "p": float(ctx.rng.choice([0.25, 0.5, 2, 3])), "reset": False}]
                if ctx.rng.random() < 0.5:
                    extra.append(dict(ctx.rng.choice([o for o in p["ops"] if o["op"] in ("scalar", "matrix")])))
                p["ops"][j + 1:j + 1] = extra + [dict(p["ops"][j])]
        try:
            snaps = prog.run_impl(p, inplace=True)
            f0, z0 = simulate_probe(p)
        except Exception as e:
            ctx.report("implementation raised %s on a valid program: %s" % (type(e).__name__, e), {"case": p},
                       found_input=True, signature={"raises": type(e).__name__})
            continue
        if p["ops"]:
            try:
                why = adc_trace_disagrees(p, snaps)
            except Exception as e:
                why = "in-sequence ADC run raised %s: %s" % (type(e).__name__, str(e)[:120])
            ctx.cov["adc_traces"] = ctx.cov.get("adc_traces", 0) + 1
            if why:
                ctx.report("in-sequence probes: " + why, {"case": p}, found_input=True, signature={"oracle": "adc-trace"})
        ops = prog.c_ops(p)
        obs = core.clist([prog.c_sm(s) for s in snaps[1:]])
        terms.append("(trace_ok %s %s %s && probe_ok %s %s %s %s)" % (
            ops, prog.c_sm(snaps[0]), obs, ops, prog.c_sm(snaps[0]), core.qi(f0), core.qi(z0)))
        kept.append((p, snaps))
        ctx.count(p, nontrivial=len(p["ops"]) >= 2)
        ctx.sample({"program": prog.signature(p), "pd": p["pd"], "max_nstate": p["max_nstate"]})
        # spec oracle (supporting evidence, and the failing-input search)
        if untruncated(p):
            why = oracle_disagrees(p, snaps[-1])
            ctx.cov["oracle_runs"] = ctx.cov.get("oracle_runs", 0) + 1
            if why:
                ctx.report("states differ from the DFT of independently simulated isochromats: " + why,
                           {"case": p, "states": snaps[-1][0]}, found_input=True,
                           signature={"oracle": prog.signature(p)[-1:]})
            else:
                ks, coef = bloch_oracle(p)
                c = (coef.shape[0] - 1) // 2
                e = max(abs(coef[c, 0] - f0), abs(coef[c, 2] - z0))
                if e > 1e-9 * (1 + np.abs(coef).max()):
                    ctx.report("simulate() F0/Z0 differ from the ensemble mean of the isochromats by %.3g" % e,
                               {"case": p, "simulate": [str(f0), str(z0)], "ensemble_mean": [str(coef[c, 0]), str(coef[c, 2])]},
                               found_input=True, signature={"oracle": "simulate-F0Z0"})
    verdicts, errors = ctx.run_bool_cases("corr", HEADER, terms, chunk=10)
    for e in errors:
        ctx.report("correspondence shard failed to evaluate", {"theorem_or_correspondence": "C01 correspondence (Cases)", "coq_output": e}, found_input=False)
    nviol = len(ctx.violations)
    for (p, snaps), v in zip(kept, verdicts):
        if v is False and len(ctx.violations) == nviol:
            ctx.report("model and implementation disagree on a program (no isochromat discrepancy found for it)",
                       {"case": p, "theorem_or_correspondence": "C01 correspondence Model/Ops.v vs epgpy"}, found_input=False)
    ctx.cov["trusted_base"] += [
        "translator /verif/translator (Python ast -> Gen/Transition.v, Gen/Evolution.v), validated by the Interval tie at %d function-points" % nok,
        "hand-written model Model/State.v, Model/Ops.v tied to epgpy by exact (dyadic) correspondence",
        "Coquelicot + Interval libraries; axioms as printed by Print Assumptions (classical reals, functional extensionality, classic)"]
    if not proved:
        search_failing_input(ctx)


def search_failing_input(ctx):
    """a proof obligation broke: look for a concrete failing input with the isochromat oracle on real operators"""
    import epgpy as epg
    rng = ctx.rng
    for _ in range(300):
        a, ph = rng.choice([30, 60, 90, 120, 150]), rng.choice([0, 45, 90, 210])
        tau, T1, T2, g = rng.choice([2.0, 5.0, 10.0]), rng.choice([500.0, 1000.0]), rng.choice([40.0, 80.0]), rng.choice([0.0, 0.01, -0.02])
        desc = "T(%s,%s) S(1) E(%s,%s,%s,%s) T(%s,%s) S(1) E(...)" % (a, ph, tau, T1, T2, g, 2 * a, ph + 30)
        form = "E"
        try:
            # the same evolution written with each of the three operators that share the translated coefficient functions
            form = rng.choice(["E", "R", "P*E"])
            if form == "E":
                ev = lambda: [epg.E(tau, T1, T2, g)]
            elif form == "R":
                ev = lambda: [epg.R(tau * (1 / T2 + 2j * np.pi * g), tau / T1, r0=tau / T1)]
            else:
                ev = lambda: [epg.P(tau, g), epg.E(tau, T1, T2)]
            seq = [epg.T(a, ph), epg.S(1)] + ev() + [epg.T(2 * a, ph + 30), epg.S(1)] + ev()
            sm = epg.StateMatrix()
            for op in seq:
                sm = op(sm)
        except Exception as e:
            ctx.report("valid sequence %s raises %s: %s" % (desc, type(e).__name__, str(e)[:200]),
                       {"sequence": desc, "failed_obligations": ctx.failed_obligations}, found_input=True)
            return
        st = np.array(sm.states)[0]
        # reference isochromats (textbook Bloch rotations / relaxation)
        N = 7
        z = np.exp(2j * np.pi * np.arange(N) / N)
        m = np.zeros((N, 3), complex); m[:, 2] = 1

        def rf(m, al, p):
            a_, p_ = np.deg2rad(al), np.deg2rad(p)
            mx, my, mz = m[:, 0].real, m[:, 0].imag, m[:, 2].real
            nx, ny = np.cos(p_), np.sin(p_)
            nv = nx * mx + ny * my
            x = mx * np.cos(a_) + ny * mz * np.sin(a_) + nx * nv * (1 - np.cos(a_))
            y = my * np.cos(a_) - nx * mz * np.sin(a_) + ny * nv * (1 - np.cos(a_))
            zc = mz * np.cos(a_) + (nx * my - ny * mx) * np.sin(a_)
            return np.stack([x + 1j * y, x - 1j * y, zc + 0j], axis=1)

        def relax(m):
            e2 = np.exp(-tau / T2) * np.exp(2j * np.pi * g * tau)
            e1 = np.exp(-tau / T1)
            return np.stack([m[:, 0] * e2, m[:, 1] * np.conj(e2), m[:, 2] * e1 + (1 - e1)], axis=1)
        m = rf(m, a, ph); m = m * np.stack([z, 1 / z, np.ones(N)], axis=1); m = relax(m)
        m = rf(m, 2 * a, ph + 30); m = m * np.stack([z, 1 / z, np.ones(N)], axis=1); m = relax(m)
        ks = np.arange(-2, 3)
        coef = np.stack([(z[:, None] ** (-ks[None, :]) * m[:, c][:, None]).sum(0) / N for c in range(3)], axis=1)
        if np.abs(coef - st).max() > 1e-9:
            ctx.report("T/S/E sequence differs from Bloch isochromats (max err %.3g)" % np.abs(coef - st).max(),
                       {"sequence": "T(%s,%s) S(1) E(%s,%s,%s,%s) T(%s,%s) S(1) E" % (a, ph, tau, T1, T2, g, 2 * a, ph + 30), "evolution_written_as": form,
                        "failed_obligations": ctx.failed_obligations}, found_input=True)
            return
    ctx.report("proof obligations of C01 no longer check: %s" % ctx.failed_obligations,
               {"theorem_or_correspondence": ctx.failed_obligations}, found_input=False)


def replay(ctx, rp):
    if "case" in rp:
        p = rp["case"]
        snaps = prog.run_impl(p, inplace=True)
        why = oracle_disagrees(p, snaps[-1]) if untruncated(p) else None
        if not why and untruncated(p):
            f0, z0 = simulate_probe(p)
            ks, coef = bloch_oracle(p)
            c = (coef.shape[0] - 1) // 2
            e = max(abs(coef[c, 0] - f0), abs(coef[c, 2] - z0))
            if e > 1e-9 * (1 + np.abs(coef).max()):
                why = "simulate() F0/Z0 differ from the ensemble mean by %.3g" % e
        print("replay:", why or "no discrepancy with the isochromat oracle")
        return 1 if why else 0
    if "batched_case" in rp:
        why = batched_disagrees(rp["batched_case"])
        print("replay:", why or "no discrepancy with the isochromat oracle")
        return 1 if why else 0
    print("replay: not an input replay (%s)" % rp.get("what"))
    return 1
