"""C02 — first-order partials (Jacobian) equal the true derivative of the simulation."""
import numpy as np
from vlib import core, dprog, tie, prog


def jac_fd(make_seq, params, var, h):
    """Richardson-extrapolated central difference of simulate() with respect to one parameter"""
    import epgpy as epg

    def f(x):
        p = dict(params); p[var] = x
        return np.asarray(epg.simulate(make_seq(p, False)))
    x0 = params[var]
    d1 = (f(x0 + h) - f(x0 - h)) / (2 * h)
    d2 = (f(x0 + h / 2) - f(x0 - h / 2)) / h
    return (4 * d2 - d1) / 3


def real_sequences(rng):
    """sequences of real operators with a non-differentiable operator (Wait, SPOILER, PD, RESET) in the middle"""
    import epgpy as epg
    a1, p1 = rng.choice([20., 45., 75.]), rng.choice([0., 30., 90.])
    par = {"alpha": a1, "phi": p1, "tau": rng.choice([3., 8.]), "T1": rng.choice([600., 1400.]), "T2": rng.choice([40., 90.]),
           "g": rng.choice([0.0, 0.02, -0.05]), "a2": rng.choice([60., 150.])}
    shared = rng.random() < 0.5
    # an operator WITHOUT differentiable parameter in the middle ("whatever other operators, differentiable or not")
    mid = rng.choice(["wait", "spoiler", "pd", "pd-noreset", "reset", "diffusion", "diffusion", "spoiler-late"])

    def plain_op():
        return {"wait": epg.Wait(1.0), "spoiler": epg.SPOILER, "pd": epg.PD(1.5), "pd-noreset": epg.PD(0.7, reset=False),
                "reset": epg.RESET, "spoiler-late": epg.Wait(1.0),
                # a diffusion interval (not idempotent, depends on the wavenumbers: kvalue is set by System below)
                "diffusion": epg.D(5.0, 0.05)}[mid]

    def make(p, diff):
        o1 = (lambda *names: {"order1": list(names)}) if diff else (lambda *names: {})
        ops = ([epg.System(kvalue=2e4)] if mid == "diffusion" else []) + [epg.T(p["alpha"], p["phi"], **o1("alpha", "phi")), epg.S(1),
               epg.E(p["tau"], p["T1"], p["T2"], p["g"], **o1("tau", "T1", "T2", "g")), plain_op(),
               epg.T(p["a2"], 10.0), epg.S(1 if shared else -1)] + ([epg.SPOILER, epg.T(25.0, 40.0)] if mid == "spoiler-late" else []) + [

               # shared variables accumulate by the chain rule; otherwise the second E has its own constants
               (epg.E(p["tau"], p["T1"], p["T2"], p["g"], **o1("tau", "T1", "T2", "g")) if shared
                else epg.E(7.0, 900.0, 60.0, 0.01)), epg.ADC]
        return ops
    return make, par, (["alpha", "phi", "tau", "T1", "T2", "g"])


KNOWN_WITNESSES = [
    ("SPOILER", lambda epg, a, d: [epg.T(a, 0, **d), epg.S(1), epg.E(5, 1000, 50), epg.SPOILER, epg.T(40, 10), epg.S(-1), epg.ADC]),
    ("RESET", lambda epg, a, d: [epg.T(a, 0, **d), epg.E(5, 1000, 50), epg.RESET, epg.T(40, 10), epg.ADC]),
    ("PD(reset=True)", lambda epg, a, d: [epg.T(a, 0, **d), epg.E(5, 1000, 50), epg.PD(2.0), epg.T(40, 10), epg.ADC]),
    ("PD(reset=False)", lambda epg, a, d: [epg.T(a, 0, **d), epg.S(1), epg.E(5, 1000, 50), epg.PD(2.0, reset=False), epg.T(a, 10, **d), epg.E(5, 1000, 50), epg.S(-1), epg.ADC]),
    ("X", lambda epg, a, d: [epg.PD([0.7, 0.3]), epg.T(a, 0, **d), epg.S(1),
                             epg.X(5.0, [[-0.1, 0.1 * 0.7 / 0.3], [0.1, -0.1 * 0.7 / 0.3]], T1=[1000, 500], T2=[50, 30]), epg.T(a, 10, **d), epg.S(-1), epg.ADC]),
    ("D(kvalue)", lambda epg, a, d: [epg.System(kvalue=2e4), epg.T(a, 0, **d), epg.S(1), epg.E(5, 1000, 50), epg.D(5.0, 0.05), epg.T(a, 90, **d), epg.S(1), epg.D(5.0, 0.05), epg.ADC,
                                     epg.T(a, 90, **d), epg.S(1), epg.D(5.0, 0.05), epg.ADC]),
    ("MultiOperator", lambda epg, a, d: [epg.T(a, 0, **d), epg.S(1), epg.E(5, 1000, 50), epg.operator.MultiOperator([epg.SPOILER, epg.PD(2.0, reset=False)]), epg.T(a, 10, **d), epg.E(5, 1000, 50), epg.ADC]),
]


def known_witnesses(ctx):
    """regression witnesses of the former findings (fixed by /repo 8521bf9): operators without differentiable
    parameter act on the partials too"""
    import epgpy as epg
    for name, mk in KNOWN_WITNESSES:
        try:
            jac = np.ravel(epg.simulate(mk(epg, 30.0, {"order1": "alpha"}), probe=epg.Jacobian("alpha")))[0]
            h = 1e-3
            f = lambda a: np.ravel(epg.simulate(mk(epg, a, {})))[0]
            fd = (f(30.0 + h) - f(30.0 - h)) / (2 * h)
        except Exception as e:
            ctx.report("witness sequence with %s raises %s" % (name, e), {"witness": name}, found_input=True,
                       signature={"site": "Operator.__call__", "op": name, "why": "partials-not-propagated"})
            continue
        if abs(jac - fd) > 1e-6 * (1 + abs(fd)):
            ctx.report("Jacobian through %s is %s, finite differences give %s" % (name, jac, fd),
                       {"witness": name, "jacobian": str(jac), "finite_difference": str(fd)}, found_input=True,
                       signature={"site": "Operator.__call__", "op": name, "why": "partials-not-propagated"})


def fd_search(p, h=1e-3):
    """None, or a description of a first-order partial of the final state of the synthetic program p that differs from
    the 5-point central difference of derivative-free runs."""
    import epgpy as epg
    from epgpy import opscalar, opmatrix
    variables = sorted({v for o in p["ops"] if o["op"] == "dop" for v in o["order1"]})

    def plain(v, x):
        sm = epg.StateMatrix(density=p["pd"])
        for o in p["ops"]:
            if o["op"] != "dop":
                sm = prog.build_op(o)(sm, inplace=True)
                continue
            arr, arr0 = dprog.arr_np(o["lin"], "arr"), dprog.arr_np(o["lin"], "arr0")
            for prm, c in o["order1"].get(v, {}).items():
                d = o["darrs"].get(prm)
                if d is None:
                    continue
                arr = arr + x * c * dprog.arr_np(d, "arr")
                if d["arr0"] is not None:
                    arr0 = (0 if arr0 is None else arr0) + x * c * dprog.arr_np(d, "arr0")
            cls = opscalar.ScalarOp if o["kind"] == "scalar" else opmatrix.MatrixOp
            sm = cls(arr, arr0, check=False)(sm, inplace=True)
        return np.array(sm.states)
    try:
        sm = epg.StateMatrix(density=p["pd"])
        for o in p["ops"]:
            sm = dprog.build(o)(sm, inplace=True)
        for v in variables:
            f = {k: plain(v, k * h) for k in (-2, -1, 1, 2)}
            fd = (-f[2] + 8 * f[1] - 8 * f[-1] + f[-2]) / (12 * h)
            got = np.array(sm.order1[v].states) if v in getattr(sm, "order1", {}) else np.zeros_like(fd)
            scale = 1 + max(np.abs(x).max() for x in f.values()) + np.abs(fd).max()
            if got.shape != fd.shape or np.abs(got - fd).max() > 1e-6 * scale:
                return "d/d%s of the final state: implementation %s, finite differences %s" % (
                    v, np.round(got.ravel(), 6).tolist()[:9], np.round(fd.ravel(), 6).tolist()[:9])
    except Exception as e:
        return None
    return None


def byhand_witnesses(ctx):
    """operators applied BY HAND (op(sm), in place and out of place) must carry the same partials as simulate():
    regression witnesses of fixes 856bd7d (an operator with more batch axes than the carried partials) and c80244c
    (PD with a batched density gives the partials the new shape)"""
    import epgpy as epg
    W = {
        "growing-batch-rank": lambda: [epg.T(30, 0, order1=True), epg.E(5, 1000, np.array([40., 60., 80.]), order1=True),
                                       epg.T(np.array([[20., 50.]]), 10, order1=True)],
        "batched-PD-noreset": lambda: [epg.T(30, 0, order1=True), epg.S(1), epg.PD(np.array([1.0, 2.0]), reset=False),
                                       epg.E(5, 1000, 50, order1=True), epg.T(40, 10, order1=True)],
        "batched-PD-reset": lambda: [epg.T(30, 0, order1=True), epg.S(1), epg.PD(np.array([1.0, 2.0])),
                                     epg.E(5, 1000, 50, order1=True), epg.T(40, 10, order1=True)],
    }
    for name, mk in W.items():
        for inplace in (False, True):
            try:
                sm = epg.StateMatrix()
                for op in mk():
                    sm = op(sm, inplace=inplace)
                ref = np.asarray(epg.simulate(mk() + [epg.ADC], probe=epg.Jacobian(["alpha", "T2"], probe="Z0")))[0]
                got = np.stack([np.asarray(sm.order1["alpha"].Z0), np.asarray(sm.order1["T2"].Z0)], -1)
                bad = got.shape != ref.shape or np.abs(got - ref).max() > 1e-12
                why = "partials differ from simulate() by %.3g" % (np.abs(got - ref).max() if got.shape == ref.shape else np.inf)
            except Exception as e:
                bad, why = True, "raised %s: %s" % (type(e).__name__, str(e)[:150])
            if bad:
                ctx.report("operators applied by hand (%s, inplace=%s): %s" % (name, inplace, why), {"witness": name, "inplace": inplace}, found_input=True,
                           signature={"site": "by-hand", "witness": name})


# ---------------------------------------------------------------- n-D shifts with partials (real operators)
ND_FINDING = {"site": "S-nd", "why": "partials-pruned-or-merged-independently"}


def nd_spec(rng, mode):
    """mode: 'int0' integer vector shifts with prune=0 (every state matrix keeps the same coordinates: must be
    exact); 'int' integer vector shifts with the default pruning; 'float' float shifts on a grid (shift-merge)"""
    spec = []
    for _ in range(rng.randint(3, 9)):
        k = rng.choice("TTESS")
        if k == "T":
            spec.append(("T", rng.choice([1., 0.5, 2.]), rng.choice([0., 30., 90., 200.])))
        elif k == "E":
            spec.append(("E", rng.choice([5., 10.]), rng.choice([0., 0.02])))
        else:
            if mode.startswith("int"):
                kv = [rng.choice([1, -1, 2, 0]), rng.choice([1, -1, 0, 0])]
            else:
                kv = [rng.choice([1.5, -1.5, 2.5, 0.5]), rng.choice([1., -0.5, 0., 0.])]
            if not any(kv):
                kv[0] = 1
            spec.append(("S", kv))
    return {"mode": mode, "spec": spec, "a": rng.choice([30., 60., 90., 45., 180., 90.]), "T2": 30.0}


def nd_run(c, a, T2, diff):
    import epgpy as epg
    mode = c["mode"]
    sm = epg.StateMatrix(**({} if mode.startswith("int") else {"kgrid": 0.5}))
    for o in c["spec"]:
        if o[0] == "T":
            op = epg.T(a * o[1], o[2], order1={"a": {"alpha": o[1]}} if diff else False)
        elif o[0] == "E":
            op = epg.E(o[1], 1000., T2, o[2], order1={"T2": "T2"} if diff else False)
        else:
            op = epg.S(o[1] if mode.startswith("int") else np.array(o[1]), **({"prune": 0} if mode == "int0" else {}))
        sm = op(sm, inplace=True)
    return sm


def nd_check(c):
    """None if the partials of the final state equal central differences; otherwise a description"""
    try:
        sm = nd_run(c, c["a"], c["T2"], True)
    except Exception as e:
        return "raised %s: %s" % (type(e).__name__, str(e)[:120])
    for var, (da, dT) in (("a", (1, 0)), ("T2", (0, 1))):
        if var not in getattr(sm, "order1", {}):
            continue
        h = 1e-4
        p = nd_run(c, c["a"] + h * da, c["T2"] + h * dT, False)
        m = nd_run(c, c["a"] - h * da, c["T2"] - h * dT, False)
        part = sm.order1[var]
        for q in ("F0", "Z0") + (("states",) if c["mode"] == "int0" else ()):
            fd = (np.asarray(getattr(p, q)) - np.asarray(getattr(m, q))) / (2 * h)
            an = np.asarray(getattr(part, q))
            if fd.shape != an.shape or not np.allclose(fd, an, atol=1e-6):
                return "d%s/d%s of the final state is %s but central differences give %s" % (
                    q, var, np.round(an, 6).tolist() if an.size < 8 else "<%s array>" % (an.shape,),
                    np.round(fd, 6).tolist() if fd.size < 8 else "<%s array>" % (fd.shape,))
    return None


ND_WITNESSES = [
    {"mode": "int", "spec": [("T", 2.0, 200.0), ("S", [2, 0]), ("T", 0.5, 0.0)], "a": 90.0, "T2": 30.0},
    {"mode": "int", "spec": [("S", [-1, 0]), ("T", 2.0, 0.0), ("T", 2.0, 200.0), ("S", [-1, 0]), ("T", 2.0, 30.0), ("S", [-1, 0]),
                             ("E", 10.0, 0.02), ("E", 10.0, 0.0)], "a": 90.0, "T2": 30.0},
]


def nd_stream(ctx, n):
    """n-D shifts apply to every partial state matrix on its own: with pruning (default) or merging (float shifts)
    the coordinates of the partials drift from those of the state and the next differentiable operator adds them
    entry-wise (known finding); with integer shifts and prune=0 the derivative must be exact"""
    bad = 0
    for c in ND_WITNESSES:
        r = nd_check(c)
        if r is not None:
            ctx.report("n-D shift followed by a differentiable operator: %s" % r, {"ndcase": repr(c)}, found_input=True, signature=ND_FINDING)
    for i in range(n):
        c = nd_spec(ctx.rng, ("int0", "int0", "int", "float")[i % 4])
        r = nd_check(c)
        ctx.cov["nd_runs"] = ctx.cov.get("nd_runs", 0) + 1
        ctx.count("nd:" + repr(c), nontrivial=sum(1 for o in c["spec"] if o[0] == "S") >= 1)
        if r is None:
            continue
        if c["mode"] == "int0":
            ctx.report("integer n-D shifts without pruning: %s" % r, {"ndcase": repr(c)}, found_input=True,
                       signature={"site": "S-nd", "mode": "int-prune0"})
        else:
            bad += 1
            if bad <= 2:
                ctx.report("n-D shift (%s) with partials: %s" % (c["mode"], r), {"ndcase": repr(c)}, found_input=True, signature=ND_FINDING)
    ctx.notes["nd_known_finding_hits"] = bad


def probe_attr_stream(ctx, n):
    """Jacobian(vars, probe=<attribute>): every column is the derivative of THAT quantity (Z0, F0, ...), compared with
    central differences of simulate(probe=<attribute>)"""
    import epgpy as epg
    for i in range(n):
        attr = ctx.rng.choice(["Z0", "Z0", "F0"])
        make, par, vars_ = real_sequences(ctx.rng)
        try:
            jac = np.asarray(epg.simulate(make(par, True), probe=epg.Jacobian(vars_, probe=attr))).reshape(-1)
        except Exception as e:
            ctx.report("Jacobian(probe=%r) raised %s" % (attr, e), {"params": par, "attr": attr}, found_input=True, signature={"raises": type(e).__name__, "site": "Jacobian-probe"})
            continue
        ctx.cov["probe_attr_runs"] = ctx.cov.get("probe_attr_runs", 0) + 1
        for j, v in enumerate(vars_):
            h = {"alpha": 1e-2, "phi": 1e-2, "tau": 1e-3, "T1": 1e-1, "T2": 1e-2, "g": 1e-5}[v]
            f = lambda x: np.asarray(epg.simulate(make(dict(par, **{v: x}), False), probe=attr)).reshape(-1)[0]
            x0 = par[v]
            d1 = (f(x0 + h) - f(x0 - h)) / (2 * h)
            d2 = (f(x0 + h / 2) - f(x0 - h / 2)) / h
            fd = (4 * d2 - d1) / 3
            if abs(fd - jac[j]) > 1e-6 * (1 + abs(fd)) + 1e-9:
                ctx.report("Jacobian(probe=%r) column %s = %s but finite differences of simulate(probe=%r) give %s" % (attr, v, jac[j], attr, fd),
                           {"params": par, "variable": v, "attr": attr}, found_input=True, signature={"jacobian-probe-attr": attr})
                break


def array_coef_stream(ctx, n):
    """an ARRAY of coefficients (one per batch entry) in order1: T(nominal * B1, phi, order1={"B1": {"alpha": nominal}})
    with 2, 3 or 4 nominal flip angles -- every batch entry against the scalar finite difference in B1"""
    import epgpy as epg
    for i in range(n):
        nb = ctx.rng.choice([2, 3, 3, 4])
        nominal = np.array([float(ctx.rng.choice([20., 35., 60., 90., 120.])) + 4 * j for j in range(nb)])
        T2, phi = float(ctx.rng.choice([40., 80.])), float(ctx.rng.choice([0., 30.]))
        # half of the cases carry a SECOND batch axis (two T2 values on axis 1): the coefficient array then has fewer
        # axes than the state matrix and must stay aligned with the first one
        two = ctx.rng.random() < 0.5
        T2v = np.array([[T2, T2 + 25.0]]) if two else T2
        case = {"nominal": nominal.tolist(), "T2": T2, "phi": phi, "second_axis": two}

        def seq(b1, nom, diff):
            kw = {"order1": {"B1": {"alpha": nom}}} if diff else {}
            return [epg.T(nom * b1, phi, **kw), epg.S(1), epg.E(6.0, 900.0, T2v if (diff and two) else T2, 0.01), epg.T(nom * b1 * 2, 10.0, **({"order1": {"B1": {"alpha": 2 * nom}}} if diff else {})),
                    epg.S(1), epg.ADC]
        try:
            jac = np.asarray(epg.simulate(seq(1.0, nominal, True), probe=epg.Jacobian("B1")))
            jac = (jac.reshape(nb, 2)[:, 0] if two else jac).reshape(-1)      # first T2 value: the one the scalar runs use
        except Exception as e:
            ctx.report("Jacobian with array coefficients raised %s: %s" % (type(e).__name__, str(e)[:160]), {"arraycoef": case}, found_input=True,
                       signature={"site": "array-coefficient", "why": "raises"})
            continue
        ctx.cov["array_coef_runs"] = ctx.cov.get("array_coef_runs", 0) + 1
        ctx.count(("arraycoef", repr(case)))
        if jac.size != nb:
            ctx.report("Jacobian with array coefficients has %d entries for %d batch entries" % (jac.size, nb), {"arraycoef": case}, found_input=True,
                       signature={"site": "array-coefficient", "why": "shape"})
            continue
        for b in range(nb):
            f = lambda x: np.ravel(np.asarray(epg.simulate(seq(x, float(nominal[b]), False))))[0]
            h = 1e-4
            fd = (f(1 + h) - f(1 - h)) / (2 * h)
            if abs(jac[b] - fd) > 1e-6 * (1 + abs(fd)):
                ctx.report("batch entry %d: dS/dB1 = %s with an array of coefficients, scalar finite differences give %s" % (b, jac[b], fd),
                           {"arraycoef": case, "entry": b}, found_input=True, signature={"site": "array-coefficient", "why": "jacobian-vs-fd"})
                break


def grid_stream(ctx, n):
    """vectorised parameters on different axes (axes=): every grid point of the Jacobian must be the derivative of the
    scalar simulation at that grid point (central differences of scalar re-runs)"""
    import epgpy as epg
    for i in range(n):
        na, nt = ctx.rng.choice([(2, 2), (3, 3), (2, 3), (3, 2), (1, 3)])
        alphas = [float(ctx.rng.choice([20., 35., 50., 75., 100.])) + 3 * j for j in range(na)]
        T2s = [float(ctx.rng.choice([30., 50., 80.])) + 7 * j for j in range(nt)]
        phi, tau, a2 = float(ctx.rng.choice([0., 30., 90.])), float(ctx.rng.choice([4., 9.])), float(ctx.rng.choice([40., 120.]))
        case = {"alphas": alphas, "T2s": T2s, "phi": phi, "tau": tau, "a2": a2}

        egrid = i % 2 == 1       # odd cases: the grid is T2 (axis 0) x T1 (axis 1) of ONE operator; "alpha" then stands for T1
        if egrid:
            alphas = [float(ctx.rng.choice([300., 600., 900.])) + 50 * j for j in range(na)]
        case["egrid"] = egrid

        def seq(al, t2, diff, vec):
            kwa = {"order1": "alpha"} if diff else {}
            kwt = {"order1": "T2"} if diff else {}
            if egrid:
                kwe = {"order1": {"alpha": "T1", "T2": "T2"}} if diff else {}
                if vec:
                    return [epg.T(35.0, phi), epg.S(1), epg.E(tau, np.array(al).reshape(1, -1), np.array(t2), 0.01, **kwe),
                            epg.T(a2, 10.0), epg.S(-1), epg.E(tau, 800.0, 70.0), epg.T(60.0, 0.0), epg.ADC]
                return [epg.T(35.0, phi), epg.S(1), epg.E(tau, al, t2, 0.01, **kwe), epg.T(a2, 10.0), epg.S(-1), epg.E(tau, 800.0, 70.0),
                        epg.T(60.0, 0.0), epg.ADC]
            if vec:
                return [epg.T(np.array(al), phi, axes=1, **kwa), epg.S(1), epg.E(tau, 900.0, np.array(t2), 0.01, **kwt),
                        epg.T(a2, 10.0), epg.S(-1), epg.ADC]
            return [epg.T(al, phi, **kwa), epg.S(1), epg.E(tau, 900.0, t2, 0.01, **kwt), epg.T(a2, 10.0), epg.S(-1), epg.ADC]
        try:
            jac = np.asarray(epg.simulate(seq(alphas, T2s, True, True), probe=epg.Jacobian(["alpha", "T2"])))
            jac = jac.reshape(nt, na, 2) if jac.size == 2 * nt * na else None   # (..., variables last)
        except Exception as e:
            ctx.report("vectorised Jacobian (axes=) raised %s: %s" % (type(e).__name__, str(e)[:160]), {"grid": case}, found_input=True,
                       signature={"site": "axes", "why": "raises"})
            continue
        ctx.cov["grid_runs"] = ctx.cov.get("grid_runs", 0) + 1
        ctx.count(("grid", repr(case)))
        if jac is None:
            ctx.report("vectorised Jacobian (axes=) has the wrong shape", {"grid": case}, found_input=True, signature={"site": "axes", "why": "shape"})
            continue
        bad = None
        for it in range(nt):
            for ia in range(na):
                f = lambda al, t2: np.ravel(np.asarray(epg.simulate(seq(al, t2, False, False))))[0]
                h = 1e-3
                ha = 1e-1 if egrid else h
                da = (f(alphas[ia] + ha, T2s[it]) - f(alphas[ia] - ha, T2s[it])) / (2 * ha)
                dt = (f(alphas[ia], T2s[it] + h) - f(alphas[ia], T2s[it] - h)) / (2 * h)
                if abs(jac[it, ia, 0] - da) > 1e-7 + 1e-5 * abs(da) or abs(jac[it, ia, 1] - dt) > 1e-7 + 1e-5 * abs(dt):
                    bad = (it, ia, jac[it, ia, 0], da, jac[it, ia, 1], dt)
        if bad:
            ctx.report("grid point (T2 index %d, alpha index %d): Jacobian (%s, %s) but scalar finite differences give (%s, %s)" % (
                bad[0], bad[1], bad[2], bad[4], bad[3], bad[5]), {"grid": case}, found_input=True, signature={"site": "axes", "why": "jacobian-vs-fd"})


def run(ctx):
    proved = ctx.prove(gen=True)
    quick = ctx.tier == "quick"
    # (a) Interval tie of the derivative functions and of the class glue
    names1 = {"rotation_d_alpha", "rotation_d_phi", "rotation_alpha_d", "rotation_phi_d", "evolution_d_rT", "evolution_d_rL",
              "evolution_d_r0", "precession_d_tau", "precession_d_g", "relaxation_d_tau", "relaxation_d_T1", "relaxation_d_T2", "relaxation_d_g"}
    ents = [e for e in tie.transition_entries() + tie.evolution_entries() if e[0] in names1]
    ents += [e for e in tie.glue_entries() if "_d_" in e[0] or e[0].endswith("_op")]
    nok, nbad = tie.run(ctx, ents, 2 if quick else 30)
    # (b) exact correspondence of the bookkeeping model (order1 only)
    n = 90 if quick else 3000
    terms, kept = [], []
    for i in range(n):
        # every third program is stepped out of place with differentiable operators only (the out-of-place
        # path of every non-differentiable operator, Wait included, drops the partials: known finding of C09)
        oop = (i % 3 == 2)
        p = dprog.gen_dprogram(ctx.rng, with_order2=False, plain=("spoil", "wait", "pd", "reset"))
        try:
            snaps = dprog.run_impl_d(p, inplace=not oop)
        except Exception as e:
            ctx.report("implementation raised %s on a valid differentiation program: %s" % (type(e).__name__, str(e)[:200]),
                       {"dcase": repr(p)}, found_input=True, signature={"raises": type(e).__name__})
            continue
        terms.append(dprog.term(p, snaps))
        kept.append(p)
        ctx.count(repr(p), nontrivial=sum(1 for o in p["ops"] if o["op"] == "dop" and o["order1"]) >= 1)
        ctx.sample({"program": dprog.signature(p), "order1": [o["order1_arg"] for o in p["ops"] if o["op"] == "dop"]})
    verdicts, errors = ctx.run_bool_cases("corr", dprog.HEADER, terms, chunk=8)
    for e in errors:
        ctx.report("correspondence shard failed to evaluate", {"theorem_or_correspondence": "C02 correspondence (Model/Diff.v)", "coq_output": e}, found_input=False)
    nbadcorr, nsearch = 0, 0
    for p, v in zip(kept, verdicts):
        if v is False:
            nbadcorr += 1
            if nbadcorr <= 3:
                ctx.report("bookkeeping model (Model/Diff.v apply_order1) and diff.py disagree", {"dcase": repr(p), "theorem_or_correspondence": "C02 correspondence Model/Diff.v vs epgpy/diff.py"}, found_input=False)
            # search for a concrete failing input: the partials the implementation carries vs central differences of
            # derivative-free runs along the linear families arr + x * sum(coef * darr) the declarations stand for
            if nsearch < 12:
                nsearch += 1
                why = fd_search(p)
                if why:
                    ctx.report("partials carried through a synthetic program are not the derivative: %s" % why, {"dcase": repr(p)}, found_input=True,
                               signature={"site": "dprogram-fd", "why": "partials-vs-finite-differences"})
                    nsearch = 99
    # (c) spec-side oracle on real operators: Jacobian probe vs finite differences of simulate()
    nfd = 6 if quick else 200
    import epgpy as epg
    for i in range(nfd):
        make, par, vars_ = real_sequences(ctx.rng)
        try:
            jac = np.asarray(epg.simulate(make(par, True), probe=epg.Jacobian(vars_ + ["magnitude", "zz"])))
            sig = np.asarray(epg.simulate(make(par, False)))
        except Exception as e:
            ctx.report("Jacobian simulation raised %s" % e, {"params": par}, found_input=True, signature={"raises": type(e).__name__})
            continue
        ctx.cov["oracle_runs"] = ctx.cov.get("oracle_runs", 0) + 1
        jac = jac.reshape(-1)
        if abs(jac[len(vars_)] - sig.reshape(-1)[0]) > 1e-12 or jac[len(vars_) + 1] != 0:
            ctx.report("'magnitude' column is not the signal or an unknown variable is not zero", {"params": par}, found_input=True, signature={"probe": "Jacobian"})
        for j, v in enumerate(vars_):
            h = {"alpha": 1e-2, "phi": 1e-2, "tau": 1e-3, "T1": 1e-1, "T2": 1e-2, "g": 1e-5}[v]
            fd = jac_fd(make, par, v, h).reshape(-1)[0]
            if abs(fd - jac[j]) > 1e-6 * (1 + abs(fd)) + 1e-9:
                ctx.report("Jacobian column %s = %s but finite differences of simulate() give %s" % (v, jac[j], fd),
                           {"params": par, "variable": v}, found_input=True, signature={"jacobian-vs-fd": v})
    known_witnesses(ctx)
    byhand_witnesses(ctx)
    probe_attr_stream(ctx, 4 if quick else 60)
    nd_stream(ctx, 40 if quick else 1200)
    grid_stream(ctx, 6 if quick else 150)
    array_coef_stream(ctx, 5 if quick else 100)
    ctx.cov["trusted_base"] += [
        "translator (Gen/Transition.v, Gen/Evolution.v) validated by the Interval tie at %d function-points" % nok,
        "hand-written bookkeeping model Model/Diff.v tied to epgpy/diff.py by exact correspondence of sm.order1 after every operator",
        "the analytic composition (derivation-exactness + derivative tables => is_derive of the signal) is by the sum/product rules and is not one mechanised theorem",
        "Coquelicot; axioms as printed by Print Assumptions"]
    if not proved:
        ctx.report("proof obligations of C02 no longer check: %s" % ctx.failed_obligations,
                   {"theorem_or_correspondence": ctx.failed_obligations}, found_input=bool(ctx.violations))


def replay(ctx, rp):
    n0 = len(ctx.violations)
    if "witness" in rp:
        known_witnesses(ctx)
    if "ndcase" in rp:
        r = nd_check(eval(rp["ndcase"]))
        print("replay n-D case:", r)
        return 1 if r is not None else 0
    print("replay:", rp.get("what"))
    return 1
