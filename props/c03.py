"""C03 — second-order partials (Hessian) are exact, complete and symmetric."""
import itertools
import numpy as np
from vlib import core, dprog, tie

BASE = {"alpha": 35.0, "phi": 20.0, "tau": 6.0, "T1": 900.0, "T2": 70.0, "g": 0.03, "alpha2": 110.0, "phi2": 50.0,
        "tau2": 9.0, "T1b": 1300.0, "T2b": 45.0, "g2": -0.02}
STEP = {"alpha": 0.5, "phi": 0.5, "tau": 0.05, "T1": 5.0, "T2": 0.5, "g": 1e-3}


def gen_config(rng):
    """a sequence [T, S, E, T, S, E, ADC] with variables mapped linearly onto parameters (coefficient maps);
    explicit mode: every operator carrying a variable of a requested pair lists that pair"""
    nvar = rng.choice([1, 2, 2, 3])
    vars_ = ["u", "v", "w"][:nvar]
    ops = [("T", ["alpha", "phi"], {"alpha": "alpha", "phi": "phi"}), ("E", ["tau", "T1", "T2", "g"], {"tau": "tau", "T1": "T1", "T2": "T2", "g": "g"}),
           ("T", ["alpha", "phi"], {"alpha": "alpha2", "phi": "phi2"}), ("E", ["tau", "T1", "T2", "g"], {"tau": "tau2", "T1": "T1b", "T2": "T2b", "g": "g2"})]
    maps = []
    for kind, params, _ in ops:
        m = {}
        for v in vars_:
            if rng.random() < 0.55:
                ps = [p for p in params if rng.random() < 0.4] or [rng.choice(params)]
                m[v] = {p: float(rng.choice([1, 1, -1, 2, 0.5])) for p in ps}
        maps.append(m)
    pairs = set()
    if nvar >= 2 and rng.random() < 0.4:
        # two variables that BOTH drive the same two parameters of one operator, non-proportionally
        j = rng.choice([0, 1, 2, 3])
        p1, p2 = rng.sample(ops[j][1], 2)
        maps[j]["u"] = {p1: 1.0, p2: float(rng.choice([2, 3, -1]))}
        maps[j]["v"] = {p1: float(rng.choice([2, -2, 0.5])), p2: 1.0}
        pairs.add(("u", "v"))
    for _ in range(rng.randint(1, 3)):
        a, b = rng.choice(vars_), rng.choice(vars_)
        pairs.add(tuple(sorted((a, b))))
    # declaration mode: explicit pair lists, or a list of variable NAMES per operator (automatic cross derivatives:
    # every operator adds its cross terms with the variables carried so far, whoever declared them)
    mode = "names" if rng.random() < 0.35 else "pairs"
    if rng.random() < 0.2:
        # mixed orders, automatic mode: the FIRST operator carries u and declares order2 by name; the later operators carry
        # v with order1 only -- they must still add their cross terms dO/dv . d(state)/du to the (u,v) entry
        mode, vars_ = "mixed", ["u", "v"]
        p0 = rng.choice(ops[0][1])
        maps = [{"u": {p0: float(rng.choice([1, 2, -1]))}}]
        for kind, params, _ in ops[1:]:
            maps.append({"v": {rng.choice(params): float(rng.choice([1, -1, 2]))}} if rng.random() < 0.75 else {})
        if not any(maps[1:]):
            maps[1] = {"v": {"T2": 1.0}}
        pairs = {("u", "v"), ("u", "u")}
    # an operator WITHOUT differentiable parameter between the differentiable ones: a diffusion interval (not
    # idempotent, wavenumber dependent), a spoiler late in the sequence, or a PD without reset
    plain = rng.choice(["none", "diffusion", "diffusion", "pd-noreset", "wait"])
    return {"vars": vars_, "maps": maps, "pairs": sorted(pairs), "shift2": rng.choice([1, -1]), "mode": mode, "plain": plain}


def build_seq(cfg, x, diff):
    """x: dict var -> offset (in units of the parameter steps)"""
    import epgpy as epg
    kinds = [("T", ["alpha", "phi"], ["alpha", "phi"]), ("E", ["tau", "T1", "T2", "g"], ["tau", "T1", "T2", "g"]),
             ("T", ["alpha", "phi"], ["alpha2", "phi2"]), ("E", ["tau", "T1", "T2", "g"], ["tau2", "T1b", "T2b", "g2"])]
    seq = [epg.System(kvalue=2e4)] if cfg.get("plain") == "diffusion" else []
    for (kind, params, keys), m in zip(kinds, cfg["maps"]):
        vals = []
        for p, key in zip(params, keys):
            val = BASE[key]
            for v, cs in m.items():
                if p in cs:
                    val += cs[p] * x.get(v, 0.0) * STEP[p]
            vals.append(val)
        kw = {}
        if diff and m:
            # coefficients relative to the variable's own unit: d param / d var = c * STEP[param]
            kw["order1"] = {v: {p: c * STEP[p] for p, c in cs.items()} for v, cs in m.items()}
            prs = [pr for pr in cfg["pairs"] if pr[0] in m or pr[1] in m]
            if cfg.get("mode") == "names":
                kw["order2"] = sorted(m)
            elif cfg.get("mode") == "mixed":
                if "u" in m:
                    kw["order2"] = ["u"]
            elif prs:
                kw["order2"] = [tuple(pr) for pr in prs]
        cls = epg.T if kind == "T" else epg.E
        seq.append(cls(*vals, **kw))
        nsh = sum(isinstance(o, epg.S) for o in seq)
        seq.append(epg.S(1 if nsh < 1 else cfg["shift2"]))
        if cfg.get("plain") == "diffusion" and nsh in (1, 2):
            seq.append(epg.D(5.0, 0.05))
        elif cfg.get("plain") == "pd-noreset" and nsh == 1:
            seq.append(epg.PD(0.7, reset=False))
        elif cfg.get("plain") == "wait" and nsh == 1:
            seq.append(epg.Wait(2.0))
    seq.append(epg.ADC)
    return seq


def hessian_fd(cfg, u, v, h=0.5):
    import epgpy as epg

    def f(xu, xv):
        x = {u: xu} if u == v else {u: xu, v: xv}
        if u == v:
            x = {u: xu + xv}
        return np.ravel(np.asarray(epg.simulate(build_seq(cfg, x, False))))[0]
    if u == v:
        # 4th-order central second difference
        g = lambda t: f(t, 0.0)
        return (-g(2 * h) + 16 * g(h) - 30 * g(0) + 16 * g(-h) - g(-2 * h)) / (12 * h * h)
    D = lambda s: (f(s, s) - f(s, -s) - f(-s, s) + f(-s, -s)) / (4 * s * s)
    return (4 * D(h / 2) - D(h)) / 3          # Richardson: O(h^4)


def oracle(ctx, n):
    import epgpy as epg
    for i in range(n):
        cfg = gen_config(ctx.rng)
        try:
            hes = np.asarray(epg.simulate(build_seq(cfg, {}, True), probe=epg.Hessian(cfg["vars"])))
        except Exception as e:
            ctx.report("Hessian simulation raised %s: %s" % (type(e).__name__, str(e)[:200]), {"config": cfg}, found_input=True,
                       signature={"raises": type(e).__name__})
            continue
        hes = hes.reshape(len(cfg["vars"]), len(cfg["vars"]))
        ctx.cov["oracle_runs"] = ctx.cov.get("oracle_runs", 0) + 1
        for (a, b) in cfg["pairs"]:
            ia, ib = cfg["vars"].index(a), cfg["vars"].index(b)
            if hes[ia, ib] != hes[ib, ia]:
                ctx.report("Hessian not symmetric", {"config": cfg}, found_input=True, signature={"why": "asymmetric"})
            fd = hessian_fd(cfg, a, b)
            scale = 1e-7 + 1e-4 * abs(fd)
            if abs(hes[ia, ib] - fd) > scale:
                multi = any(len(m.get(a, {})) > 1 or len(m.get(b, {})) > 1 for m in cfg["maps"])
                ctx.report("Hessian entry (%s,%s) = %s but finite differences of simulate() give %s" % (a, b, hes[ia, ib], fd),
                           {"config": cfg, "pair": [a, b]}, found_input=True,
                           signature={"hessian-vs-fd": "variable-drives-several-parameters" if multi else "single-parameter"})
                break


def grid_oracle(ctx, n):
    """second order on BATCHED operators: parameters given as arrays on a grid, placed with the axes= option or by
    explicit array shapes; every grid element of the Hessian must equal the Hessian of the scalar run (which the
    finite-difference oracle above decides)"""
    import epgpy as epg
    for i in range(n):
        rng = ctx.rng
        na = rng.choice([2, 3])
        nt = na if rng.random() < 0.6 else rng.choice([2, 3])
        alphas = [float(rng.choice([20, 35, 50, 75, 100, 130])) + 3 * k for k in range(na)]
        t2s = [float(rng.choice([30, 45, 60, 90])) + 7 * k for k in range(nt)]
        phis = [float(rng.choice([0, 25, 90]))] if rng.random() < 0.5 else [10.0 + 20 * k for k in range(na)]
        place = rng.choice(["axes", "axes", "shape"])          # alpha (and phi) on axis 1, T2 on axis 0
        mode = rng.choice(["auto", "pairs"])
        ops = rng.choice(["TE", "TEP", "PhiTE"])
        case = {"alphas": alphas, "T2": t2s, "phis": phis, "place": place, "mode": mode, "ops": ops}

        def kw(own):
            if mode == "auto":
                return {"order1": own, "order2": own}
            prs = [("alpha", "alpha"), ("alpha", "T2"), ("T2", "T2")]
            return {"order1": own, "order2": [pr for pr in prs if set(pr) & set(own)]}

        def build(al, ph, t2, batched):
            if batched and place == "axes":
                ta, tp, tt, ax = np.array(al), (np.array(ph) if len(ph) > 1 else ph[0]), np.array(t2), {"axes": 1}
            elif batched:
                ta, tp, tt, ax = np.array(al)[None, :], (np.array(ph)[None, :] if len(ph) > 1 else ph[0]), np.array(t2)[:, None], {}
            else:
                ta, tp, tt, ax = al, ph, t2, {}
            seq = []
            if ops == "PhiTE":
                seq.append(epg.Phi(tp, **ax))
            seq += [epg.T(ta, tp, **ax, **kw(["alpha"])), epg.S(1), epg.E(5.0, 800.0, tt, 0.01, **kw(["T2"]))]
            if ops == "TEP":
                seq.append(epg.P(3.0, 0.02))
            seq += [epg.T(ta, 15.0, **ax, **kw(["alpha"])), epg.S(-1), epg.E(4.0, 800.0, tt, **kw(["T2"])), epg.ADC]
            return seq
        try:
            hes = np.asarray(epg.simulate(build(alphas, phis, t2s, True), probe=epg.Hessian(["alpha", "T2"])))
            hes = hes.reshape(nt, na, 2, 2)
            worst, where = 0.0, None
            for it in range(nt):
                for ia in range(na):
                    ph = phis[ia] if len(phis) > 1 else phis[0]
                    ref = np.asarray(epg.simulate(build(alphas[ia], ph, t2s[it], False), probe=epg.Hessian(["alpha", "T2"]))).reshape(2, 2)
                    err = np.abs(hes[it, ia] - ref).max() / (1e-12 + np.abs(ref).max())
                    if err > worst:
                        worst, where = err, (it, ia)
        except Exception as e:
            ctx.report("batched second-order simulation raised %s: %s" % (type(e).__name__, str(e)[:200]), {"grid": case}, found_input=True,
                       signature={"raises": type(e).__name__, "site": "grid"})
            continue
        ctx.cov["oracle_runs"] = ctx.cov.get("oracle_runs", 0) + 1
        if worst > 1e-9:
            ctx.report("Hessian of the batched run differs from the scalar run at grid element (T2 #%d, alpha #%d) by %.3g (relative)" % (where[0], where[1], worst),
                       {"grid": case}, found_input=True, signature={"why": "batched-hessian", "place": place})


def declared_forms(ctx):
    """every documented way of declaring order2 must be usable"""
    import epgpy as epg
    forms = {"True": dict(order1=True, order2=True), "str": dict(order1=True, order2="T2"),
             "list-of-names": dict(order1=["tau", "T2"], order2=["tau", "T2"]),
             "list-of-pairs": dict(order1=["tau", "T2"], order2=[("tau", "T2")]),
             "dict": dict(order1={"v": {"tau": 1.0}}, order2={("v", "v"): {}})}
    for name, kw in forms.items():
        try:
            epg.simulate([epg.T(40, 10), epg.E(5, 1000, 50, **kw), epg.ADC], probe=epg.Hessian(["T2"]))
        except Exception as e:
            ctx.report("order2 declared as %s is rejected: %s: %s" % (name, type(e).__name__, str(e)[:120]), {"form": name}, found_input=True,
                       signature={"site": "_parse_partials", "form": name})


def run(ctx):
    proved = ctx.prove(gen=True)
    quick = ctx.tier == "quick"
    names2 = {"rotation_d2_alpha", "rotation_d_alpha_phi", "rotation_d2_phi", "rotation_alpha_d2", "rotation_phi_d2", "evolution_d2_rT",
              "evolution_d2_rL", "evolution_d2_r0", "precession_d2_tau", "precession_d2_g", "precession_d_tau_g", "relaxation_d2_tau",
              "relaxation_d2_T1", "relaxation_d2_T2", "relaxation_d2_g", "relaxation_d_tau_T1", "relaxation_d_tau_T2", "relaxation_d_tau_g", "relaxation_d_T2_g"}
    ents = [e for e in tie.transition_entries() + tie.evolution_entries() if e[0] in names2]
    ents += [e for e in tie.glue_entries() if "_d2_" in e[0]]
    nok, nbad = tie.run(ctx, ents, 2 if quick else 30)
    # exact correspondence of the literal second-order bookkeeping
    n = 80 if quick else 3000
    terms, kept = [], []
    for i in range(n):
        p = dprog.gen_dprogram(ctx.rng, with_order2=True, plain=("spoil", "wait", "pd", "reset"))
        try:
            snaps = dprog.run_impl_d(p)
        except ValueError as e:
            if "Invalid variable pair" in str(e):
                continue      # generator produced an order2=True declaration that _parse_partials rightly refuses
            ctx.report("implementation raised %s: %s" % (type(e).__name__, str(e)[:200]), {"dcase": repr(p)}, found_input=True, signature={"raises": "ValueError"})
            continue
        except Exception as e:
            ctx.report("implementation raised %s: %s" % (type(e).__name__, str(e)[:200]), {"dcase": repr(p)}, found_input=True, signature={"raises": type(e).__name__})
            continue
        terms.append(dprog.term(p, snaps))
        kept.append(p)
        ctx.count(repr(p), nontrivial=any(o["op"] == "dop" and o["order2"] for o in p["ops"]))
        ctx.sample({"program": dprog.signature(p), "order2": [str(o["order2_arg"]) for o in p["ops"] if o["op"] == "dop"]})
    verdicts, errors = ctx.run_bool_cases("corr", dprog.HEADER, terms, chunk=6)
    for e in errors:
        ctx.report("correspondence shard failed to evaluate", {"theorem_or_correspondence": "C03 correspondence (Model/Diff.v apply_order2)", "coq_output": e}, found_input=False)
    nb = 0
    for p, v in zip(kept, verdicts):
        if v is False and nb < 3:
            nb += 1
            ctx.report("second-order bookkeeping model (Model/Diff.v apply_order2) and diff.py disagree", {"dcase": repr(p), "theorem_or_correspondence": "C03 correspondence Model/Diff.v vs epgpy/diff.py"}, found_input=False)
    oracle(ctx, 30 if quick else 400)
    grid_oracle(ctx, 10 if quick else 200)
    declared_forms(ctx)
    ctx.cov["trusted_base"] += [
        "translator (Gen/*.v) validated by the Interval tie at %d function-points" % nok,
        "literal model of _apply_order2 (Model/Diff.v) tied to diff.py by exact correspondence of sm.order2 after every operator",
        "second-order exactness over programs: theorems order2_run / hessian_exact on the literal model; finite-difference oracle on real operators as supporting testing"]
    if not proved:
        ctx.report("proof obligations of C03 no longer check: %s" % ctx.failed_obligations, {"theorem_or_correspondence": ctx.failed_obligations}, found_input=bool(ctx.violations))


def replay(ctx, rp):
    if "config" in rp:
        import epgpy as epg
        cfg = rp["config"]
        hes = np.asarray(epg.simulate(build_seq(cfg, {}, True), probe=epg.Hessian(cfg["vars"]))).reshape(len(cfg["vars"]), -1)
        a, b = rp.get("pair", cfg["pairs"][0])
        fd = hessian_fd(cfg, a, b)
        got = hes[cfg["vars"].index(a), cfg["vars"].index(b)]
        print("replay: hessian", got, "finite differences", fd)
        return 1 if abs(got - fd) > 1e-7 + 1e-4 * abs(fd) else 0
    print("replay:", rp.get("what"))
    return 1
