"""C04 — n-D and gridded shifts reproduce Bloch magnetization at any position
(+ the n-D clauses of C13 that concern the same functions: nmax crop, prune masks, exact accumulation)."""
import ast, inspect, math
import numpy as np
from fractions import Fraction
from vlib import core

HEADER = """From Coq Require Import List ZArith QArith Qcanon Qabs Bool.
From EPG Require Import Scalar QI State Ops WfNd ShiftND.
Import ListNotations.
Open Scope Z_scope.
Notation mk3 := (@mk3 QIops).
Definition T := triple QIops.
Definition negl (tol2 : Qc) (t : T) : bool :=
  qc_le (qi_abs2 (fp t)) tol2 && qc_le (qi_abs2 (fm t)) tol2 && qc_le (qi_abs2 (fz t)) tol2.
Definition negl_norm (tol2 : Qc) (t : T) : bool :=
  qc_le (qi_abs2 (fp t) + qi_abs2 (fm t) + qi_abs2 (fz t))%Qc tol2.
Definition keys_eqb (a b : list key) : bool := all2 key_eqb a b.
Definition nats_eqb (a b : list nat) : bool := all2 Nat.eqb a b.
Definition nd_content keys amps dk kdim nmax prune tol2 okeys (oamps : list (list T)) : bool :=
  let '(k2, outs) := shiftnd (negl tol2) keys amps dk kdim nmax prune in
  all2 (fun o oi => rows_eqb (content (combine k2 o)) (content (combine okeys oi))) outs oamps.
Definition nd_strict keys amps dk kdim nmax prune tol2 okeys (oamps : list (list T)) : bool :=
  let '(k2, outs) := shiftnd (negl tol2) keys amps dk kdim nmax prune in
  keys_eqb k2 okeys && all2 (leqb QIops) outs oamps.
Definition uniq_ok vals ou oinv : bool :=
  let '(u, inv) := unique_keys vals in keys_eqb u ou && nats_eqb inv oinv.
Definition qsqrt (q : Q) : Q := let r := Qred q in (Z.sqrt (Qnum r)) # (Pos.sqrt (Qden r)).
Definition qi_wabs (x : QI) : Q := qsqrt (this (qi_abs2 x)).
Definition qclose (a b : Q) : bool := Qle_bool (Qabs (a - b)) ((1 # 1000000000000) * (1 + Qabs b)).
Definition wav_close (a b : list qvec) : bool := all2 (all2 qclose) a b.
Definition merge_ok wav amps dk grid prune tol2 owav (oamps : list (list T)) : bool :=
  let '(k2, outs) := @shiftmerge QIops qi_wabs (negl tol2) wav amps dk grid prune in
  wav_close k2 owav && all2 (leqb QIops) outs oamps.
Definition prune_ok wav amps dk grid tol2 owav (oamps : list (list T)) : bool :=
  let '(k2, outs) := shiftprune (negl_norm tol2) wav amps dk grid in
  wav_close k2 owav && all2 (leqb QIops) outs oamps.
Definition method_eqb (a b : method) : bool :=
  match a, b with M1d, M1d | Mnd, Mnd | Mmerge, Mmerge | Mprune, Mprune | Mnone, Mnone => true | _, _ => false end.
Definition wn_ok twopi tau grad (obs : qvec) : bool := all2 qclose (G_shift twopi tau grad) obs.
"""

EXACT = [0, 0, 1, -1, 0.5, -0.5, 1j, -0.5j, 0.75 + 1j, -0.75 + 1j, 0.375 - 0.5j, 2, -1.5j]


# ---------------------------------------------------------------- printers
def zl(n):
    return core.zlit(int(n))


def key_lit(v):
    return "[" + "; ".join(zl(x) for x in v) + "]"


def keys_lit(rows):
    return "[" + "; ".join(key_lit(r) for r in rows) + "]"


def q_lit(x):
    return core.qlit(float(x)) + "%Q"


def qvec_lit(v):
    return "[" + "; ".join(q_lit(x) for x in v) + "]"


def wav_lit(rows):
    return "[" + "; ".join(qvec_lit(r) for r in rows) + "]"


def amps_lit(st):
    """st: (B, n, 3) complex -> list (list T)"""
    return "[" + "; ".join("[" + "; ".join(core.triple(r) for r in b) + "]" for b in st.tolist()) + "]"


def qc_lit(x):
    return "(Q2Qc %s)" % core.qlit(x)


def flat_keys(k):
    """(B, n, d) -> n rows of B*d entries (the slices np.unique(axis=-2) compares)"""
    k = np.asarray(k)
    return np.moveaxis(k, -2, 0).reshape(k.shape[-2], -1)


# ---------------------------------------------------------------- generators
BSHAPES = [(1,), (1,), (2,), (1, 2), (2, 1), (1, 1, 2), (2, 2), (1, 3)]


def wf_amps(rng, B, n):
    """random well-formed amplitudes (B, n, 3) with exactly representable moduli"""
    st = np.zeros((B, n, 3), complex)
    c = (n - 1) // 2
    for b in range(B):
        for i in range(c + 1):
            j = n - 1 - i
            f1, f2, z = rng.choice(EXACT), rng.choice(EXACT), rng.choice(EXACT)
            if rng.random() < 0.25:
                f1 = f2 = z = 0
            st[b, i, 0] = f1; st[b, j, 1] = np.conj(f1)
            if i != j:
                st[b, j, 0] = f2; st[b, i, 1] = np.conj(f2)
                st[b, i, 2] = z; st[b, j, 2] = np.conj(z)
            else:
                st[b, i, 2] = complex(z).real
    return st


def sub_shape(rng, bshape):
    """a shape broadcastable to bshape: every axis either kept or 1"""
    return tuple(b if rng.random() < 0.7 else 1 for b in bshape)


def batched_vectors(rng, shape, kdim, values, prev=None):
    """array shape + (kdim,) of non-zero rows; batch entry 0 tends to repeat its previous value while the
    other entries move independently (different coincidence structure per entry)"""
    dk = np.array([[rng.choice(values) for _ in range(kdim)] for _ in range(int(np.prod(shape)))])
    for r in dk:
        if not r.any():
            r[rng.randrange(kdim)] = rng.choice([v for v in values if v])
    if prev is not None and rng.random() < 0.6:
        dk[0] = np.asarray(prev).reshape(-1, kdim)[0]
    return dk.reshape(tuple(shape) + (kdim,))


def nd_chain(rng, steps):
    """chain of shiftnd calls on realistic key sets, batch axes in any position; yields case dicts"""
    from epgpy import shift, statematrix
    kdim = rng.choice([1, 2, 3, 4])
    n0 = rng.choice([0, 1, 2])
    bshape = rng.choice(BSHAPES)
    nb = len(bshape)
    coords = np.asarray(statematrix._setup_coords(n0, kdim)).reshape((1,) * nb + (2 * n0 + 1, kdim))
    cases = []
    prev = None
    for _ in range(steps):
        n = coords.shape[-2]
        dshape = sub_shape(rng, bshape)
        dk = batched_vectors(rng, dshape, kdim, [0, 1, -1, 2, -2, 3], prev).astype(int)
        prev = dk
        full = np.broadcast_shapes(coords.shape[:-2], dshape)
        st = wf_amps(rng, int(np.prod(bshape)), n).reshape(tuple(bshape) + (n, 3))
        nmax = rng.choice([None, None, None, 1, 2, 3])
        prune = rng.choice([False, False, True])
        tol = 1e-8
        case = {"kind": "nd", "coords": coords.tolist(), "states": [[[str(c) for c in r] for r in b] for b in st.reshape(-1, n, 3).tolist()],
                "states_shape": list(st.shape), "dk": dk.tolist(), "nmax": nmax, "prune": prune, "kdim": kdim}
        try:
            sm2, k2 = shift.shiftnd(st.copy(), coords.copy(), dk.copy(), nmax=nmax, prune=prune, tol=tol)
        except Exception as e:
            case["raised"] = "%s: %s" % (type(e).__name__, str(e)[:200])
            cases.append((case, None))
            break
        sm2, k2 = np.asarray(sm2), np.asarray(k2)
        kin = np.broadcast_to(coords, full + coords.shape[-2:])
        dkf = np.broadcast_to(dk, full + (kdim,)).reshape(-1)
        args = "%s %s %s %d%%nat %s %s %s %s %s" % (
            keys_lit(flat_keys(kin)), amps_lit(st.reshape(-1, n, 3)), key_lit(dkf), kdim,
            "None" if nmax is None else "(Some %s)" % zl(nmax), core.coq_bool(prune), qc_lit(Fraction(1, 10 ** 16)),
            keys_lit(flat_keys(k2)), amps_lit(sm2.reshape((-1,) + sm2.shape[-2:])))
        cases.append((case, ["(nd_content %s)" % args, "(nd_strict %s)" % args]))
        if k2.shape[-2] > 27 or k2.shape[-2] < 1 or k2.size > 700:
            break
        coords = k2
    return cases


def uniq_case(rng):
    from epgpy import shift
    d = rng.choice([1, 2, 3])
    N = rng.randint(1, 14)
    bshape = rng.choice(BSHAPES)
    v = np.array([[[rng.choice([-2, -1, 0, 0, 1, 2]) for _ in range(d)] for _ in range(N)] for _ in range(int(np.prod(bshape)))])
    if v.shape[0] > 1 and rng.random() < 0.6:
        # entry 0 with many coincidences, the other entries with few
        v[0] = v[0, rng.randrange(N)]
    v = v.reshape(tuple(bshape) + (N, d))
    u, inv = shift.unique_1d(v, axis=-2)
    t = "(uniq_ok %s %s [%s])" % (keys_lit(flat_keys(v)), keys_lit(flat_keys(u)),
                                  "; ".join("%d%%nat" % i for i in np.ravel(inv)))
    return {"kind": "unique", "values": v.tolist()}, [t]


def merge_chain(rng, steps, which):
    """chain of shiftmerge / shiftprune calls with dyadic wavenumbers, grids from much finer to coarser than the
    spacing; shiftprune also with batched shifts (batch axes in any position), compared through flattened rows"""
    from epgpy import shift
    kdim = rng.choice([1, 2, 3, 4])
    grid = rng.choice([0.0625, 0.25, 0.25, 0.5, 1.0, 2.0])
    bshape = rng.choice(BSHAPES) if which == "prune" else (1,)
    nb = len(bshape)
    wav = np.zeros((1,) * nb + (1, kdim))
    cases = []
    prev = None
    for _ in range(steps):
        n = wav.shape[-2]
        dshape = sub_shape(rng, bshape) if which == "prune" else (1,)
        dk = batched_vectors(rng, dshape, kdim, [0, 0.5, -0.5, 1.0, 0.75, -1.25, 2.0], prev)
        prev = dk
        full = np.broadcast_shapes(wav.shape[:-2], dshape)
        nst = int(np.prod(bshape)) if which == "prune" else rng.choice([1, 1, 2])
        st = wf_amps(rng, nst, n)
        if which == "prune":
            st = st.reshape(tuple(bshape) + (n, 3))
        prune = rng.choice([False, False, True])
        case = {"kind": which, "wavenums": wav.tolist(), "states": [[[str(c) for c in r] for r in b] for b in st.reshape(-1, n, 3).tolist()],
                "states_shape": list(st.shape), "dk": dk.tolist(), "grid": grid, "prune": prune}
        try:
            if which == "merge":
                sm2, k2 = shift.shiftmerge(st.copy(), wav.copy(), dk.copy(), grid=grid, prune=prune, tol=1e-8)
            else:
                sm2, k2 = shift.shiftprune(st.copy(), wav.copy(), dk.copy(), grid=grid, tol=1e-8)
        except Exception as e:
            case["raised"] = "%s: %s" % (type(e).__name__, str(e)[:200])
            cases.append((case, None))
            break
        sm2, k2 = np.asarray(sm2), np.asarray(k2)
        tol2 = qc_lit(Fraction(1, 10 ** 16))
        win = flat_keys(np.broadcast_to(wav, full + wav.shape[-2:]))
        dkf = np.broadcast_to(dk, full + (kdim,)).reshape(-1)
        nflat = len(dkf)
        stl = amps_lit(st.reshape(-1, n, 3)); outl = amps_lit(sm2.reshape((-1,) + sm2.shape[-2:]))
        if which == "merge":
            t = "(merge_ok %s %s %s %s %s %s %s %s)" % (wav_lit(win), stl, qvec_lit(dkf), qvec_lit([grid] * nflat),
                                                     core.coq_bool(prune), tol2, wav_lit(flat_keys(k2)), outl)
        else:
            t = "(prune_ok %s %s %s %s %s %s %s)" % (wav_lit(win), stl, qvec_lit(dkf), qvec_lit([grid] * nflat),
                                                  tol2, wav_lit(flat_keys(k2)), outl)
        cases.append((case, [t]))
        # keep inputs exactly dyadic (multiples of 2^-8) so that binary64 and rational arithmetic coincide on them
        if k2.shape[-2] > 21 or k2.size > 500 or not np.all(k2 * 256 == np.round(k2 * 256)):
            break
        wav = k2
    return cases


# ---------------------------------------------------------------- (b) isochromat oracle
def align(a, nb):
    """epgpy aligns operator axes with the FIRST state axes: append the missing ones"""
    a = np.asarray(a)
    return a.reshape(a.shape + (1,) * (nb - a.ndim))


def rot(m, al, ph):
    """m (..., P, 3); al broadcastable to m[..., 0] (degrees)"""
    a_, p_ = np.deg2rad(al), np.deg2rad(ph)
    mx, my, mz = m[..., 0].real, m[..., 0].imag, m[..., 2].real
    nx, ny = np.cos(p_), np.sin(p_)
    nv = nx * mx + ny * my
    x = mx * np.cos(a_) + ny * mz * np.sin(a_) + nx * nv * (1 - np.cos(a_))
    y = my * np.cos(a_) - nx * mz * np.sin(a_) + ny * nv * (1 - np.cos(a_))
    zc = mz * np.cos(a_) + (nx * my - ny * mx) * np.sin(a_)
    return np.stack([x + 1j * y, x - 1j * y, zc + 0j], axis=-1)


GAMMA = 42.576e3
KGRID = 1.0 / 64


def gen_seq(rng, fam=None):
    """a sequence of real operators as constructor tuples; operator OBJECTS are shared between equal tuples
    (as users do with [exc] + [grad, rf, grad, adc] * n); non-unit kvalue (scalar / per axis) and tvalue"""
    fam = fam or rng.choice(["nd", "nd", "float", "float", "grad", "mixed", "time"])
    dim = rng.choice([1, 2, 3])

    def one(k):
        if k == "T":
            return ("T", rng.choice([20, 45, 60, 90, 120, 160]), rng.choice([0, 30, 90, 200]))
        if k == "E":
            return ("E", rng.choice([2.0, 5.0, 10.0]), rng.choice([400.0, 1000.0]), rng.choice([30.0, 80.0]), rng.choice([0.0, 0.01, -0.03]))
        f = fam
        if fam == "mixed":
            f = rng.choice(["float", "grad", "time", "nd"])
        if f == "nd":
            v = [rng.choice([0, 1, -1, 2]) for _ in range(dim)]
            if not any(v):
                v[0] = 1
            return ("Snd", v)
        if f == "float":
            v = [rng.choice([0.0, 0.5, 1.0, -1.25, 2.0, 0.75]) for _ in range(dim)]
            if not any(v):
                v[0] = 0.5
            return ("Sfl", v)
        if f == "grad":
            g = [rng.choice([0.0, 2.0, -2.0, 4.0, 10.0]) for _ in range(3)]
            if not any(g):
                g[0] = 2.0
            return ("G", rng.choice([0.5, 1.0, 2.0]), g)
        return ("C", rng.choice([1.0, 2.0, 3.5]))
    ops = []
    if rng.random() < 0.6:
        # excitation + a block repeated n times
        ops.append(one("T"))
        block = [one(rng.choice(["S", "T", "E", "S"])) for _ in range(rng.randint(2, 3))]
        if not any(o[0] not in "TE" for o in block):
            block[0] = one("S")
        ns = sum(1 for o in block if o[0] not in "TE")
        ops += block * (2 if ns > 1 else rng.choice([2, 3, 4]))
    else:
        nshift = 0
        for _ in range(rng.randint(3, 9)):
            k = rng.choice(["T", "T", "E", "S", "S", "S"])
            if k == "S" and nshift >= 4:
                k = "T"
            nshift += k == "S"
            ops.append(one(k))
        if nshift == 0:
            ops.append(one("S"))
    # per-axis kvalue with fewer than 3 wavenumber axes: raised before fix a7573d2 (StateMatrix.ktvalue)
    kvalue = rng.choice([1.0, 2.5, 0.25, 2.5, [2.5, 1.0, 0.5], [0.5, 2.0, 1.0]])
    tvalue = rng.choice([1.0, 2.0, 0.5])
    return {"fam": fam, "ops": ops, "kvalue": kvalue, "tvalue": tvalue, "kgrid": KGRID, "reuse": rng.random() < 0.8}


def build(o):
    """returns (operator, arrays handed to the constructor)"""
    import epgpy as epg
    k = o[0]
    if k == "T": return epg.T(o[1], o[2]), []
    if k == "E": return epg.E(o[1], o[2], o[3], o[4]), []
    if k == "S1": return epg.S(int(o[1])), []
    if k in ("Snd", "Sfl", "Sflb", "Sflb1"):
        a = np.array(o[1], dtype=int if k == "Snd" else float)
        if k == "Sflb": a = np.array([o[1], o[1]], dtype=float)
        if k == "Sflb1": a = np.array([[o[1], o[1]]], dtype=float)
        return epg.S(a, prune=0), [a]
    if k in ("Sg", "Sgb"):
        a = np.array(o[1] if k == "Sg" else [o[1], o[1]], dtype=float)
        kw = {} if o[2] is None else {"kgrid": o[2]}
        return epg.S(a, prune=0, **kw), [a]
    if k == "G":
        g = np.array(o[2], dtype=float)
        return epg.G(o[1], g, prune=0), [g]
    if k == "C": return epg.C(o[1], prune=0), []
    if k == "Tb": return epg.T(np.array(o[1], dtype=float), o[2]), []
    if k == "Sb":
        a = np.array(o[1], dtype=int if o[2] == "int" else float)
        return epg.S(a, prune=0), [a]
    raise ValueError(k)


def snap(op, arrs):
    k = getattr(op, "k", None)
    ks = None if k is None or isinstance(k, int) else (np.asarray(k).dtype.str, np.asarray(k).shape, np.asarray(k).tobytes())
    return ks, [(a.dtype.str, a.shape, a.tobytes()) for a in arrs]


def make_ops(p):
    """operator objects of a program; equal constructor tuples share ONE object when p['reuse']"""
    cache, objs, watch = {}, [], []
    for o in p["ops"]:
        key = repr(o)
        if p.get("reuse", True) and key in cache:
            objs.append(cache[key]); continue
        op, arrs = build(o)
        cache[key] = op
        if hasattr(op, "k"):
            watch.append((o, op, arrs, snap(op, arrs)))
        objs.append(op)
    return objs, watch


def mutated(watch):
    for o, op, arrs, before in watch:
        if snap(op, arrs) != before:
            return "operator %s: its k (or the array handed to its constructor) is not bytes-identical after the run" % (o,)
    return None


def run_seq(p, init_opts=None):
    """returns (final state matrix, description of a mutated operator or None)"""
    import epgpy as epg
    opts = dict(kvalue=p["kvalue"], tvalue=p.get("tvalue", 1.0))
    if p.get("kgrid") is not None:
        opts["kgrid"] = p["kgrid"]
    opts.update(init_opts or {})
    sm = epg.StateMatrix(**opts)
    options0 = repr(sorted(sm.options.items()))
    objs, watch = make_ops(p)
    for op in objs:
        sm = op(sm, inplace=True)
    mut = mutated(watch)
    if not mut and repr(sorted(sm.options.items())) != options0:
        mut = "the options of the state matrix were changed by the operators: %s -> %s" % (options0, sorted(sm.options.items()))
    return sm, mut


def shift_vector(p, o):
    """phase advance (batch..., 4) = (rad/m x3, time) of one shift operator, in physical units"""
    k = o[0]
    kv = np.ones(3) * np.asarray(p["kvalue"], dtype=float)
    if k in ("Snd", "Sfl", "Sflb", "Sflb1", "Sg", "Sgb"):
        v = np.zeros(4); v[:len(o[1])] = o[1]
    elif k == "S1":
        v = np.array([o[1], 0, 0, 0.0])
    elif k == "G":
        v = np.zeros(4); v[:3] = 2 * np.pi * GAMMA * 1e-3 * o[1] * np.array(o[2])
    elif k == "C":
        v = np.array([0, 0, 0, o[1]], dtype=float)
    elif k == "Sb":
        a = np.asarray(o[1], dtype=float)
        v = np.zeros(a.shape[:-1] + (4,)); v[..., :a.shape[-1]] = a
    else:
        raise ValueError(k)
    v = v.copy()
    v[..., :3] = v[..., :3] * kv
    v[..., 3] = v[..., 3] * p.get("tvalue", 1.0)
    return v


def bloch(p, pos, freq):
    """independent isochromats at positions pos (P,3) [m] with off-resonance freq (P,) [kHz];
    batched operators (Tb / Sb) give one isochromat per batch entry: result (batch..., P, 3)"""
    P = pos.shape[0]
    nb = p.get("nb", 0)
    m = np.zeros((1,) * nb + (P, 3), complex); m[..., 2] = 1
    for o in p["ops"]:
        k = o[0]
        if k == "T":
            m = rot(m, o[1], o[2])
        elif k == "Tb":
            m = rot(m, align(o[1], nb)[..., None], o[2])
        elif k == "E":
            tau, T1, T2, g = o[1:]
            e2 = np.exp(-tau / T2) * np.exp(2j * np.pi * g * tau)
            e1 = np.exp(-tau / T1)
            m = np.stack([m[..., 0] * e2, m[..., 1] * np.conj(e2), m[..., 2] * e1 + (1 - e1)], axis=-1)
        else:
            v = shift_vector(p, o)
            v = v.reshape(v.shape[:-1] + (1,) * (nb - (v.ndim - 1)) + (4,))       # (batch..., 4)
            ph = np.exp(1j * (np.einsum("...k,pk->...p", v[..., :3], pos) + 2 * np.pi * freq * v[..., 3:4]))
            m = np.stack([m[..., 0] * ph, m[..., 1] * np.conj(ph), m[..., 2] * np.ones_like(ph)], axis=-1)
    return m


def synth(sm, pos, freq):
    """direct inverse Fourier sum of the stored states over the stored wavenumbers, every batch entry: (batch..., P)"""
    F = np.asarray(sm.F); Z = np.asarray(sm.Z)
    k = np.asarray(sm.k, dtype=float); t = sm.t
    k = k.reshape((1,) * (F.ndim + 1 - k.ndim) + k.shape)
    kk = np.zeros(k.shape[:-1] + (3,)); kk[..., :k.shape[-1]] = k
    kk = np.broadcast_to(kk, np.broadcast_shapes(kk.shape[:-1], F.shape) + (3,))
    if np.isscalar(t):
        tt = np.zeros(F.shape)
    else:
        tt = np.asarray(t, dtype=float); tt = np.broadcast_to(tt.reshape((1,) * (F.ndim - tt.ndim) + tt.shape), F.shape)
    ph = np.exp(1j * (np.einsum("...nk,pk->...pn", kk, pos) + 2 * np.pi * freq[:, None] * tt[..., None, :]))
    return np.einsum("...pn,...n->...p", ph, F), np.einsum("...pn,...n->...p", ph, Z)


def oracle_case(ctx, p, pos, freq):
    """returns None or a description of the discrepancy"""
    from epgpy import utils
    import epgpy as epg
    sm, mut = run_seq(p)
    ref = bloch(p, pos, freq)
    mp, mz = synth(sm, pos, freq)
    scale = (1 + np.abs(ref).max()) * p.get("tol", 1e-9) / 1e-9
    if p.get("nb"):
        if mp.shape != ref.shape[:-1]:
            return "state matrix shape %s, expected one signal per batch entry %s" % (mp.shape[:-1], ref.shape[:-2])
    else:
        mp, mz = mp.reshape(-1, len(pos))[0], mz.reshape(-1, len(pos))[0]
    e = max(np.abs(mp - ref[..., 0]).max(), np.abs(mz - ref[..., 2]).max())
    if not e <= 1e-9 * scale:
        where = ""
        if p.get("nb"):
            where = " at batch entry %s" % (np.unravel_index(np.argmax(np.abs(mp - ref[..., 0]).max(-1)), mp.shape[:-1]),)
        return "sum_k F(k) exp(i k.x) differs from the isochromat at x by %.3g%s" % (e, where)
    if mut:
        return mut
    if p.get("nb"):
        return None
    # through the probes
    kd = np.asarray(sm.k).shape[-1]
    d = np.asarray(utils.imaging(pos[:, :kd], sm.F, sm.k[..., :3], acctime=sm.t if sm.kdim == 4 else None,
                                 modulation=1j * freq, voxel_shape="point", reduce=False)).reshape(-1, len(pos))[0]
    e = np.abs(d - ref[:, 0]).max()
    if not e <= 1e-9 * scale:
        return "utils.imaging(voxel_shape='point') differs from the isochromat by %.3g" % e
    if sm.kdim < 4:
        d = np.asarray(epg.DFT(pos[:, :kd]).acquire(sm)).reshape(-1, len(pos))[0]
        e = np.abs(d - ref[:, 0]).max()
        if not e <= 1e-9 * scale:
            return "DFT probe differs from the isochromat by %.3g" % e
    # positions with FEWER components than stored wavenumber axes: the isochromat sits at the position padded with zeros
    for c in range(1, min(kd, 3)):
        posc = pos.copy(); posc[:, c:] = 0
        refc = bloch(p, posc, freq)[:, 0]
        d = np.asarray(utils.imaging(pos[:, :c], sm.F, sm.k[..., :3], acctime=sm.t if sm.kdim == 4 else None,
                                     modulation=1j * freq, voxel_shape="point", reduce=False)).reshape(-1, len(pos))[0]
        e = np.abs(d - refc).max()
        if not e <= 1e-9 * scale:
            return "utils.imaging with %d-component positions on %d wavenumber axes differs from the isochromat at (x, 0..) by %.3g" % (c, kd, e)
        if sm.kdim < 4:
            d = np.asarray(epg.DFT(pos[:, :c]).acquire(sm)).reshape(-1, len(pos))[0]
            e = np.abs(d - refc).max()
            if not e <= 1e-9 * scale:
                return "DFT probe with %d-component positions on %d wavenumber axes differs from the isochromat at (x, 0..) by %.3g" % (c, kd, e)
    return None


def gen_batched(rng):
    """shifts batched per simulated signal on state axis 0, 1 or 2 (leading singleton axes in k), flip angles batched
    on another axis; integer (shift-nd) or float (shift-prune) tables whose entries have different coincidences"""
    layout = rng.choice(["k0", "k1", "k1", "k2"])
    typ = rng.choice(["int", "float"])
    d = rng.choice([1, 2, 3])
    B = rng.choice([2, 3])
    A = rng.choice([1, 2])
    alphas = [rng.choice([35.0, 70.0, 110.0]) for _ in range(A)]
    scale = 1 if typ == "int" else rng.choice([0.5, 0.375])
    kshape = {"k0": (B,), "k1": (1, B), "k2": (1, 1, B)}[layout]
    al = np.array(alphas).reshape((1, A) if layout == "k0" else (A,))
    nb = {"k0": 2, "k1": 2, "k2": 3}[layout]
    ops, prev = [], None
    tables = {}
    for i in range(rng.randint(2, 4)):
        ops.append(("Tb", (al * rng.choice([1.0, 0.5, 1.5])).tolist(), rng.choice([0.0, 10.0, 75.0, 130.0])))
        if rng.random() < 0.5:
            ops.append(("E", 5.0, 1000.0, 80.0, rng.choice([0.0, 0.01])))
        tab = batched_vectors(rng, kshape, d, [0, 1, -1, 1, 2], prev)
        prev = tab
        ops.append(("Sb", (tab * scale).tolist(), typ))
    return {"fam": "batched-%s-%s" % (typ, layout), "ops": ops, "kvalue": rng.choice([1.0, 2.5]), "tvalue": 1.0,
            "kgrid": 1.0 / 1024, "reuse": True, "nb": nb}


def gen_batched_dims(rng):
    """state matrices with two or more batch axes on which the number of shift components VARIES from step to step
    (3 -> 1, 2 -> 3 -> 2, ... also un-batched vectors on the batched state, also after time accumulation C):
    integer (shift-nd) and real-valued (shift-merge / shift-prune) tables, checked against one isochromat per batch
    entry and against scalar re-runs of single batch entries"""
    layout = rng.choice(["k0", "k1", "k2"])
    typ = rng.choice(["int", "float"])
    B = rng.choice([2, 3])
    A = rng.choice([1, 2, 2])
    alphas = [rng.choice([35.0, 70.0, 110.0]) for _ in range(A)]
    scale = 1 if typ == "int" else rng.choice([0.5, 0.375])
    kshape = {"k0": (B,), "k1": (1, B), "k2": (1, 1, B)}[layout]
    al = np.array(alphas).reshape((1, A) if layout == "k0" else (A,))
    nb = {"k0": 2, "k1": 2, "k2": 3}[layout]
    n = rng.randint(2, 4)
    dims = [rng.choice([1, 2, 3]) for _ in range(n)]
    if len(set(dims)) == 1:
        dims[0], dims[-1] = 3, rng.choice([1, 2])
    where_c = rng.randrange(n) if rng.random() < 0.4 else None
    ops = []
    for i, d in enumerate(dims):
        ops.append(("Tb", (al * rng.choice([1.0, 0.5, 1.5])).tolist(), rng.choice([0.0, 10.0, 75.0, 130.0])))
        if rng.random() < 0.4:
            ops.append(("E", 5.0, 1000.0, 80.0, rng.choice([0.0, 0.01])))
        if i == where_c:
            ops.append(("C", rng.choice([1.0, 2.0, 3.5])))
            ops.append(("Tb", (al * 0.5).tolist(), rng.choice([0.0, 75.0])))
        shp = () if (i and rng.random() < 0.35) else kshape
        tab = batched_vectors(rng, shp, d, [0, 1, -1, 1, 2])
        ops.append(("Sb", (tab * scale).tolist(), typ))
    if typ == "int" and rng.random() < 0.6:
        # integer tables have given the coordinates a batch axis; now an UN-batched real-valued shift that is NOT a
        # multiple of the grid (the merge back-end keeps such wavenumbers exactly)
        for _ in range(rng.randint(1, 2)):
            d = rng.choice([1, 2, 3])
            v = [rng.choice([0.0, 0.37, -1.234, 0.5, 0.123]) for _ in range(d)]
            if not any(x % 0.5 for x in v):
                v[rng.randrange(d)] = rng.choice([0.37, -1.234, 0.123])
            ops.append(("Tb", (al * rng.choice([1.0, 0.5])).tolist(), rng.choice([0.0, 10.0, 75.0])))
            ops.append(("Sb", v, "float"))
    return {"fam": "batched-dims-%s-%s" % (typ, layout), "ops": ops, "kvalue": rng.choice([1.0, 2.5]), "tvalue": rng.choice([1.0, 2.0]),
            "kgrid": 1.0 / 1024, "reuse": True, "nb": nb, "scalar_reruns": True}


def scalar_program(p, idx):
    """the un-batched program of batch entry idx (index into the full batch shape)"""
    nb = p["nb"]
    pick = lambda a: a[tuple(min(i, s - 1) for i, s in zip(idx, a.shape[:nb]))]
    ops = []
    for o in p["ops"]:
        if o[0] == "Tb":
            ops.append(("T", float(pick(align(o[1], nb))), o[2]))
        elif o[0] == "Sb":
            a = np.asarray(o[1], dtype=float)
            a = a.reshape(a.shape[:-1] + (1,) * (nb - (a.ndim - 1)) + a.shape[-1:])
            v = pick(a)
            ops.append(("Snd", [int(x) for x in v]) if o[2] == "int" else ("Sfl", [float(x) for x in v]))
        else:
            ops.append(o)
    q = dict(p, ops=ops, fam=p["fam"] + "-scalar")
    q.pop("nb"); q.pop("scalar_reruns", None)
    return q


def scalar_rerun_case(rng, p, pos, freq):
    sm, _ = run_seq(p)
    mp, mz = synth(sm, pos, freq)
    full = mp.shape[:-1]
    for _ in range(2):
        idx = tuple(rng.randrange(s) for s in full)
        q = scalar_program(p, idx)
        sq, _ = run_seq(q)
        qp, qz = synth(sq, pos, freq)
        e = max(np.abs(qp.reshape(-1, len(pos))[0] - mp[idx]).max(), np.abs(qz.reshape(-1, len(pos))[0] - mz[idx]).max())
        if not e <= 1e-10:
            return "batch entry %s of the batched run differs from its scalar re-run by %.3g" % (idx, e)
    return None


def gen_large(rng):
    """real-valued shifts / gradient tables of LARGE magnitude (1e3 .. 1e5 rad/m) with fractional parts from one grid
    unit up to 0.5 (also exactly integer-valued floats), as the first real-valued shift of a sequence (on a state
    without coordinates or with integer coordinates) and later; kgrid = unit / 4 never merges distinct wavenumbers.
    Observed at positions up to ~1 m with tolerance 1e-6 (binary64 phases k.r ~ 1e5 rad carry ~1e-11 rad)."""
    u = rng.choice([1e-3, 1e-2])
    steps = [0, 0, 1, 2, 5, 10, 20, 25, 50] + ([100, 200, 250, 500] if u == 1e-3 else [])
    dim = rng.choice([1, 2, 3, 3, 3])
    exact_int = rng.random() < 0.2

    def large_vec():
        v = []
        for _ in range(dim):
            if rng.random() < 0.35:
                v.append(0.0); continue
            mag = int(10 ** rng.uniform(3, 5))
            fr = 0 if exact_int else rng.choice(steps)
            v.append(rng.choice([1, -1]) * round(mag + fr * u, 3))
        if not any(v):
            v[0] = round(int(10 ** rng.uniform(3, 5)) + (0 if exact_int else rng.choice(steps)) * u, 3)
        return ("Sfl", v)

    def large_grad():
        g = [rng.choice([0.0, 0.0, 10.0, -25.3, 40.0, 80.0, -12.7]) for _ in range(3)]
        if not any(g):
            g[rng.randrange(3)] = 25.3
        return ("G", rng.choice([0.5, 1.0, 2.0]), g)

    def rf():
        return ("T", rng.choice([20, 45, 60, 90, 120, 160]), rng.choice([0, 30, 90, 200]))
    kind = rng.choice(["S", "S", "G", "mix"])
    shift = lambda: (large_vec() if kind == "S" else large_grad() if kind == "G" else rng.choice([large_vec, large_grad])())
    if kind != "S":
        dim = 3
    ops = [rf()]
    if rng.random() < 0.3:
        # integer coordinates already present when the first real-valued shift arrives
        ops += [("Snd", [rng.choice([1, -1, 2])] + [0] * (dim - 1)), rf()]
    palette = [shift() for _ in range(rng.randint(1, 2))]
    for i in range(rng.randint(1, 3)):
        ops.append(rng.choice(palette) if (i and rng.random() < 0.5) else (palette[0] if i == 0 else shift()))
        ops.append(rf())
        if rng.random() < 0.4:
            ops.append(("E", rng.choice([2.0, 5.0]), 1000.0, 80.0, rng.choice([0.0, 0.01])))
    return {"fam": "large-" + kind, "ops": ops, "kvalue": rng.choice([1.0, 1.0, 2.5]), "tvalue": 1.0, "kgrid": u / 4,
            "reuse": True, "tol": 1e-6}


def gen_grid(rng):
    """gridded shifts whose validity depends on WHICH grid is applied in WHICH unit.
    All wavenumbers live on nested lattices: shift i is an integer vector times u_i rad/m, u_i non-increasing by
    factors of 4, handed to S in coordinate units (divided by kvalue).
    'own': no global kgrid, every operator carries its own kgrid = u_i / {1,2,4,16} (coarse before fine and fine
           before coarse; each is fine enough for the wavenumbers present when it is applied);
    'kv':  one global kgrid in {1, 0.5} equal to the lattice unit, kvalue in {10, 2.5, 0.1}: the shift in rad/m is an
           exact grid multiple, the shift in coordinate units is not.
    p['unit'] = finest lattice unit: the same program exists with integer shifts and kvalue = unit."""
    var = rng.choice(["own", "kv"])
    dim = rng.choice([1, 2, 3])
    kvalue = rng.choice([1.0, 2.5, 10.0]) if var == "own" else rng.choice([10.0, 2.5, 0.1])
    u = rng.choice([4.0, 1.0]) if var == "own" else rng.choice([1.0, 0.5])
    ops = [("T", rng.choice([45, 60, 90, 120]), rng.choice([0, 30, 90]))]
    made = []
    for i in range(rng.randint(2, 4)):
        # an operator object may come back only while its own grid still resolves the (refined) lattice
        again = [o for o in made if var == "kv" or o[2] <= u]
        if again and rng.random() < 0.35:
            ops.append(rng.choice(again))
        else:
            if var == "own" and i and rng.random() < 0.5:
                u = u / 4
            m = [rng.choice([0, 1, -1, 2, 3]) for _ in range(dim)]
            if not any(m):
                m[0] = 1
            v = [mm * u / kvalue for mm in m]
            g = u / rng.choice([1, 2, 4, 16]) if var == "own" else None
            o = (rng.choice(["Sg", "Sg", "Sgb"]), v, g)
            made.append(o); ops.append(o)
        ops.append(("T", rng.choice([20, 45, 60, 90, 120, 160]), rng.choice([0, 30, 90, 200])))
        if rng.random() < 0.3:
            ops.append(("E", rng.choice([2.0, 5.0]), 1000.0, 80.0, rng.choice([0.0, 0.01])))
    return {"fam": "grid-" + var, "ops": ops, "kvalue": kvalue, "tvalue": 1.0, "kgrid": None if var == "own" else u,
            "reuse": True, "unit": u}


def gen_upgrade(rng):
    """the number of wavenumber axes grows in the middle of the sequence (1 -> 2 -> 3 -> time axis) AFTER non-integer
    real-valued shifts have been stored: float S of increasing dimension, then G (3 axes), then C (time axis)"""
    dims = sorted(rng.choice([1, 1, 2, 2, 3]) for _ in range(rng.randint(1, 3)))
    tail = rng.choice([["G"], ["C"], ["G", "C"], ["S3"], ["S3", "C"], ["S4"], []])
    if not tail and len(set(dims)) < 2:
        tail = ["C"]
    ops = [("T", rng.choice([45, 60, 90, 120]), rng.choice([0, 30, 90]))]

    def rf():
        ops.append(("T", rng.choice([20, 45, 60, 90, 120, 160]), rng.choice([0, 30, 90, 200])))
        if rng.random() < 0.3:
            ops.append(("E", rng.choice([2.0, 5.0]), 1000.0, 80.0, rng.choice([0.0, 0.01, -0.03])))

    def fvec(d):
        v = [rng.choice([0.0, 0.5, -1.25, 0.75, 0.25, 1.5, -0.75]) for _ in range(d)]
        if not any(x % 1 for x in v):
            v[rng.randrange(d)] = rng.choice([0.5, -1.25, 0.75])
        return v
    for d in dims:
        ops.append((rng.choice(["Sfl", "Sfl", "Sflb"]), fvec(d))); rf()
    for k in tail:
        if k == "G":
            g = [rng.choice([0.0, 2.0, -2.0, 4.0]) for _ in range(3)]
            if not any(g):
                g[2] = 2.0
            ops.append(("G", rng.choice([0.5, 1.0]), g))
        elif k == "C":
            ops.append(("C", rng.choice([1.0, 2.0, 3.5])))
        else:
            ops.append(("Sfl", fvec(int(k[1]))))
        rf()
    return {"fam": "upgrade", "ops": ops, "kvalue": rng.choice([1.0, 1.0, 2.5, 0.25]), "tvalue": rng.choice([1.0, 2.0]),
            "kgrid": KGRID, "reuse": True, "padded": True}


def padded_equivalent(p):
    """the same program where every real-valued shift already has the final number of axes (zero-padded)"""
    import epgpy as epg
    final = 1
    for o in p["ops"]:
        final = max(final, {"Sfl": len(o[1]) if o[0] == "Sfl" else 0, "Sflb": len(o[1]) if o[0] == "Sflb" else 0,
                            "G": 3, "C": 4}.get(o[0], 0))
    ops = []
    for o in p["ops"]:
        if o[0] in ("Sfl", "Sflb"):
            ops.append((o[0], list(o[1]) + [0.0] * (final - len(o[1]))))
        elif o[0] == "G":
            k = [float(x) for x in np.ravel(epg.G(o[1], np.array(o[2], dtype=float)).k)]
            ops.append(("Sfl", k + [0.0] * (final - 3)))
        else:
            ops.append(o)
    return dict(p, ops=ops, fam=p["fam"] + "-padded", padded=False)


def padded_case(p, pos, freq):
    q = padded_equivalent(p)
    (sa, _), (sb, _) = run_seq(p), run_seq(q)
    first = lambda a: np.asarray(a).reshape(-1, len(pos))[0]
    e1 = compare_contents(content_of(sa), content_of(sb))
    e2 = np.abs(first(synth(sa, pos, freq)[0]) - first(synth(sb, pos, freq)[0])).max()
    if not max(e1, e2) <= 1e-10:
        return "run with growing number of wavenumber axes differs from the run whose shifts have the final number of axes from the start (content %.3g, signal %.3g)" % (e1, e2)
    return None


def int_equivalent(p):
    """the same program with integer n-D shifts in units of p['unit'] (kvalue = unit)"""
    ops = []
    for o in p["ops"]:
        if o[0] in ("Sg", "Sgb"):
            ops.append(("Snd", [int(round(x * p["kvalue"] / p["unit"])) for x in o[1]]))
        else:
            ops.append(o)
    return dict(p, ops=ops, kvalue=p["unit"], kgrid=None, fam=p["fam"] + "-int")


def equiv_case(p, pos, freq):
    """gridded program vs its integer-shift equivalent: same wavenumber -> state content and same signals"""
    q = int_equivalent(p)
    (sa, _), (sb, _) = run_seq(p), run_seq(q)
    first = lambda a: np.asarray(a).reshape(-1, len(pos))[0]
    e1 = compare_contents(content_of(sa), content_of(sb))
    e2 = np.abs(first(synth(sa, pos, freq)[0]) - first(synth(sb, pos, freq)[0])).max()
    if not max(e1, e2) <= 1e-10:
        return "gridded run differs from the equivalent integer-shift run (content %.3g, signal %.3g)" % (e1, e2)
    return None


def positions(rng, p, n=4):
    if p["fam"].startswith("large"):
        s = rng.choice([0.05, 0.3, 1.0])
        pos = np.array([[rng.uniform(-0.5, 0.5) * s for _ in range(3)] for _ in range(n)])
        return pos, np.zeros(n)
    big = any(o[0] == "G" for o in p["ops"])
    s = 1e-3 if big else 1.0
    pos = np.array([[rng.uniform(-3, 3) * s for _ in range(3)] for _ in range(n)])
    freq = np.array([rng.choice([0.0, 0.013, -0.027, 0.05]) for _ in range(n)])
    return pos, freq


# ---------------------------------------------------------------- (c) back-end agreement
def content_of(sm, b=0):
    """sorted {wavenumber (3 dec. places of the 1e-6 grid): (F+, Z)} with zero rows dropped"""
    st = np.asarray(sm.states); st = st.reshape((-1,) + st.shape[-2:])[b]
    k = np.asarray(sm.k)
    k = k.reshape((-1,) + k.shape[-2:]); k = k[min(b, k.shape[0] - 1)]
    t = sm.t
    if np.isscalar(t):
        t = np.zeros(k.shape[0])
    else:
        t = np.asarray(t, dtype=float); t = t.reshape((-1, t.shape[-1])); t = t[min(b, t.shape[0] - 1)]
    out = {}
    for i in range(st.shape[0]):
        if np.abs(st[i]).max() > 1e-13:
            key = tuple(int(round(x * 1e6)) for x in k[i]) + (0,) * (3 - k.shape[1]) + (int(round(t[i] * 1e6)),)
            f, z = out.get(key, (0, 0))
            out[key] = (f + st[i, 0], z + st[i, 2])
    return out


def agree_case(rng):
    """one integer-step program and its renderings in the different back-ends; non-unit kvalue, operator objects of
    equal steps shared"""
    L = rng.randint(3, 8)
    base = []
    for _ in range(L):
        k = rng.choice(["T", "T", "E", "S", "S", "S"])
        if k == "T": base.append(("T", rng.choice([20, 45, 60, 90, 120, 160]), rng.choice([0, 30, 90, 200])))
        elif k == "E": base.append(("E", rng.choice([2.0, 5.0]), 1000.0, 80.0, rng.choice([0.0, 0.01])))
        else: base.append(("S", rng.choice([1, 1, 2, -1, 3])))
    if sum(1 for o in base if o[0] == "S") > 4:
        base = [o for i, o in enumerate(base) if o[0] != "S" or i % 2 == 0]
    if not any(o[0] == "S" for o in base):
        base.append(("S", 1))
    kvalue = rng.choice([1.0, 2.5, 0.25])

    def render(kind):
        level = 0       # 0: no coords, 1: int coords, 2: float coords
        ops = []
        for o in base:
            if o[0] != "S":
                ops.append(o); continue
            d = o[1]
            if kind == "switch":
                choices = {0: ["S1", "Snd1", "Snd3", "Sfl"], 1: ["Snd1", "Snd3", "Sfl"], 2: ["Sfl"]}[level]
                c = rng.choice(choices)
            else:
                c = kind
            if c == "S1": ops.append(("S1", d))
            elif c == "Snd1": ops.append(("Snd", [d])); level = max(level, 1)
            elif c == "Snd3": ops.append(("Snd", [d, 0, 0])); level = max(level, 1)
            elif c == "Sfl": ops.append(("Sfl", [float(d)])); level = 2
            elif c in ("Sflb", "Sflb1"): ops.append((c, [float(d)])); level = 2
        return {"ops": ops, "kvalue": kvalue, "tvalue": 1.0, "kgrid": KGRID, "fam": kind, "reuse": True}
    return base, {k: render(k) for k in ["S1", "Snd1", "Snd3", "Sfl", "Sflb", "Sflb1", "switch"]}


def compare_contents(a, b):
    keys = set(a) | set(b)
    worst = 0.0
    for k in keys:
        fa, za = a.get(k, (0, 0)); fb, zb = b.get(k, (0, 0))
        worst = max(worst, abs(fa - fb), abs(za - zb))
    return worst


# ---------------------------------------------------------------- (d) dispatch
def dispatch_terms():
    from epgpy import shift
    ks = [("KPyInt", 2, 0)]
    for shp in [(1, 1), (1, 3), (2, 2), (1, 1, 2), (3, 1, 1)]:
        ks.append(("KArrInt", np.ones(shp, dtype=int), int(np.sum(shp[:-1]))))
        ks.append(("KArrFloat", np.ones(shp, dtype=float), int(np.sum(shp[:-1]))))
    ks.append(("KArrOther", np.ones((1, 2), dtype=bool), 1))
    cs = [("CNone", None), ("CInt", np.zeros((1, 3, 2), dtype=int)), ("CFloat", np.zeros((1, 3, 2), dtype=float))]
    names = {"shift-1d": "M1d", "shift-nd": "Mnd", "shift-merge": "Mmerge", "shift-prune": "Mprune"}
    terms, meta = [], []
    for kt, k, lead in ks:
        for ct, c in cs:
            try:
                m, sh = shift.get_shift_method(k, c)
                obs = names[m]
                extra = "true"
                if kt == "KPyInt" and c is not None:
                    extra = "(key_eqb (int_shift %s %d%%nat) %s)" % (zl(k), c.shape[-1], key_lit(np.ravel(sh)))
            except ValueError:
                obs, extra = "Mnone", "true"
            terms.append("(method_eqb (get_shift_method %s %s %d%%nat) %s && %s)" % (kt, ct, lead, obs, extra))
            meta.append({"k": kt, "kshape": None if kt == "KPyInt" else list(k.shape), "coords": ct, "observed": obs})
    return terms, meta


def wavenumber_checks(ctx):
    """G's constant: source of utils.get_wavenumber + numeric agreement of G(tau, g).k with the model"""
    import epgpy as epg
    from epgpy import utils
    src = inspect.getsource(utils.get_wavenumber)
    ret = [n for n in ast.walk(ast.parse(src)) if isinstance(n, ast.Return)][0]
    got = ast.unparse(ret.value).replace(" ", "")
    want = "2*np.pi*gamma*np.asarray(grad)*0.001*np.asarray(duration)"
    ok_src = got == want and abs(utils.gamma_1H - 42576.0) < 1e-9
    terms, meta = [], []
    for _ in range(6):
        tau = ctx.rng.choice([0.5, 1.0, 2.0, 3.25]); g = [ctx.rng.choice([0.0, 1.0, -2.5, 4.0]) for _ in range(3)]
        if not any(g): g[0] = 1.0
        k = np.ravel(epg.G(tau, g).k)
        terms.append("(wn_ok %s %s %s %s)" % (q_lit(2 * math.pi), q_lit(tau), qvec_lit(g), qvec_lit(k)))
        meta.append({"tau": tau, "grad": g, "k": k.tolist()})
    c = epg.C(2.5)
    ok_c = np.array_equal(np.ravel(c.k), [0, 0, 0, 2.5])
    return ok_src, got, ok_c, terms, meta


# ---------------------------------------------------------------- main
def run(ctx):
    proved = ctx.prove(gen=False)
    quick = ctx.tier == "quick"
    rng = ctx.rng
    terms, meta = [], []

    def add(case, ts, tag):
        if ts is None:
            ctx.report("implementation raised on a valid input: %s" % case.get("raised"), {"case": case}, found_input=True,
                       signature={"raises": case.get("raised", "").split(":")[0], "kind": case["kind"]})
            return
        for j, t in enumerate(ts):
            terms.append(t); meta.append((case, tag, j))
        ctx.count((tag, repr(case)), nontrivial=True)

    # (a) exact correspondence of the shift functions
    for _ in range(14 if quick else 300):
        for case, ts in nd_chain(rng, rng.randint(2, 4)):
            add(case, ts, "shiftnd")
    for _ in range(20 if quick else 400):
        add(*uniq_case(rng), "unique_1d")
    for _ in range(10 if quick else 200):
        for case, ts in merge_chain(rng, rng.randint(2, 4), "merge"):
            add(case, ts, "shiftmerge")
    for _ in range(6 if quick else 120):
        for case, ts in merge_chain(rng, rng.randint(2, 4), "prune"):
            add(case, ts, "shiftprune")
    ctx.sample({"correspondence_case": meta[0][0]}) if meta else None
    # (d) dispatch table and G / C
    dterms, dmeta = dispatch_terms()
    for t, m in zip(dterms, dmeta):
        terms.append(t); meta.append((m, "dispatch", 0)); ctx.count(("dispatch", repr(m)))
    ok_src, got, ok_c, wterms, wmeta = wavenumber_checks(ctx)
    for t, m in zip(wterms, wmeta):
        terms.append(t); meta.append((m, "G_wavenumber", 0)); ctx.count(("G", repr(m)))
    if not ok_src:
        ctx.report("utils.get_wavenumber / gamma_1H no longer has the form the model assumes: %s" % got,
                   {"theorem_or_correspondence": "G_is_S_of_wavenumber (source form)", "source": got}, found_input=False)
    if not ok_c:
        ctx.report("C(tau).k is not [0, 0, 0, tau]", {"case": "C(2.5)"}, found_input=True, signature={"op": "C"})

    verdicts, errors = ctx.run_bool_cases("corr", HEADER, terms, chunk=16)
    for e in errors:
        ctx.report("correspondence shard failed to evaluate", {"theorem_or_correspondence": "C04 correspondence (Cases)", "coq_output": e}, found_input=False)
    strict_miss = 0
    bad_cases = []
    seen = set()
    for (case, tag, j), v in zip(meta, verdicts):
        if v is False:
            if tag == "shiftnd" and j == 1:
                strict_miss += 1
                if ("c", id(case)) in seen:
                    continue
            if id(case) in seen:
                continue
            seen.add(id(case))
            if tag == "shiftnd" and j == 0:
                seen.add(("c", id(case)))
            bad_cases.append((case, tag, j))
    ctx.notes["shiftnd_array_order_mismatches"] = strict_miss
    ctx.cov["correspondence_terms"] = len(terms)

    # (b) the oracle of the property (always run: supporting evidence and failing-input search)
    n_main = 72 if quick else 1800
    n_up = n_main + (14 if quick else 300)       # then: dimension upgrades
    n_or = n_up + (14 if quick else 300)         # then: varying shift dimension on several batch axes
    fams = {}
    oracle_failed = False
    for i in range(n_or):
        p = gen_batched_dims(rng) if i >= n_up else gen_upgrade(rng) if i >= n_main else gen_large(rng) if i % 4 == 3 else gen_grid(rng) if i % 4 == 1 else gen_batched(rng) if i % 3 == 2 else gen_seq(rng)
        fams[p["fam"]] = fams.get(p["fam"], 0) + 1
        pos, freq = positions(rng, p)
        try:
            why = oracle_case(ctx, p, pos, freq)
            if not why and "unit" in p:
                why = equiv_case(p, pos, freq)
            if not why and p.get("padded"):
                why = padded_case(p, pos, freq)
            if not why and p.get("scalar_reruns"):
                why = scalar_rerun_case(rng, p, pos, freq)
        except Exception as e:
            ctx.report("valid sequence raises %s: %s" % (type(e).__name__, str(e)[:200]), {"seq": p}, found_input=True,
                       signature={"raises": type(e).__name__, "fam": p["fam"]})
            oracle_failed = True
            continue
        ctx.count(("oracle", repr(p)), nontrivial=True)
        if i < 2:
            ctx.sample({"oracle_sequence": p})
        if why:
            oracle_failed = True
            ctx.report(why, {"seq": p, "positions": pos.tolist(), "freq": freq.tolist()}, found_input=True,
                       signature={"oracle": p["fam"]})
    ctx.cov["oracle_runs"] = n_or
    ctx.cov["oracle_families"] = fams

    # (c) back-ends agree
    n_ag = 30 if quick else 600
    for i in range(n_ag):
        base, rend = agree_case(rng)
        pos = np.array([[rng.uniform(-3, 3), 0, 0] for _ in range(3)]); freq = np.zeros(3)
        try:
            runs = {k: run_seq(r) for k, r in rend.items()}
            sms = {k: v[0] for k, v in runs.items()}
        except Exception as e:
            ctx.report("valid sequence raises %s: %s" % (type(e).__name__, str(e)[:200]), {"agree_case": rend}, found_input=True,
                       signature={"raises": type(e).__name__, "fam": "agree"})
            oracle_failed = True
            continue
        for k, (_, mut) in runs.items():
            if mut:
                oracle_failed = True
                ctx.report(mut, {"agree_case": rend[k], "reference": rend["S1"]}, found_input=True, signature={"mutated": k})
        first = lambda a: np.asarray(a).reshape(-1, len(pos))[0]
        ref_c = content_of(sms["S1"]); ref_s = first(synth(sms["S1"], pos, freq)[0])
        ref_f0 = np.ravel(np.asarray(sms["S1"].F0))[0]
        for k, sm in sms.items():
            try:
                c = content_of(sm)
                e1 = compare_contents(ref_c, c)
                e2 = np.abs(first(synth(sm, pos, freq)[0]) - ref_s).max()
                f0 = np.asarray(sm.F0); f0 = f0.reshape((-1,) + f0.shape[-1:])[0] if sm.kdim >= 4 else np.ravel(f0)[:1]
                e3 = abs(np.sum(f0) - ref_f0)
            except (ValueError, OverflowError):      # non-finite states or wavenumbers
                e1 = e2 = e3 = float("inf")
            ctx.count(("agree", k, repr(base)), nontrivial=True)
            if not max(e1, e2, e3) <= 1e-11:
                oracle_failed = True
                ctx.report("back-end %s disagrees with the 1-D integer back-end (content %.3g, signal %.3g, F0 %.3g)" % (k, e1, e2, e3),
                           {"agree_case": rend[k], "reference": rend["S1"]}, found_input=True, signature={"agree": k})
    ctx.cov["backend_agreement_programs"] = n_ag

    # correspondence disagreements: decided after the oracle ran
    for case, tag, j in bad_cases:
        ctx.report("model and implementation disagree on %s%s" % (tag, " (array order only)" if (tag == "shiftnd" and j == 1) else ""),
                   {"case": case, "theorem_or_correspondence": "C04 correspondence Model/ShiftND.v vs epgpy.shift.%s" % tag},
                   found_input=False, signature={"corr": tag})
    ctx.cov["trusted_base"] += [
        "hand-written model Model/ShiftND.v tied to epgpy.shift (shiftnd, unique_1d, shiftmerge, shiftprune, get_shift_method) by exact dyadic correspondence; wavenumbers of shiftmerge compared to 1e-12",
        "flattening of batched coordinates to one key per row, and broadcasting of coords/shift, done by the harness",
        "isochromat oracle (Python, textbook rotation / relaxation / phase advance; re-used operator objects, non-unit kvalue/tvalue, shifts batched on state axis 0/1/2 against one isochromat per batch entry) used as supporting random testing, tolerance 1e-9",
        "constant of utils.get_wavenumber read from the source by ast comparison; 2*pi as the binary64 value"]
    if not proved and not oracle_failed:
        ctx.report("proof obligations of C04 no longer check: %s" % ctx.failed_obligations,
                   {"theorem_or_correspondence": ctx.failed_obligations}, found_input=False)


def replay(ctx, rp):
    if "seq" in rp:
        p = rp["seq"]
        p["ops"] = [tuple(o) for o in p["ops"]]
        pos = np.array(rp.get("positions", [[0.3, -0.2, 0.1]])); freq = np.array(rp.get("freq", [0.0] * len(pos)))
        try:
            why = oracle_case(ctx, p, pos, freq)
        except Exception as e:
            why = "raises %s: %s" % (type(e).__name__, e)
        print("replay:", why or "no discrepancy with the isochromat oracle")
        return 1 if why else 0
    if "agree_case" in rp and "reference" in rp:
        a = dict(rp["agree_case"]); a["ops"] = [tuple(o) for o in a["ops"]]
        b = dict(rp["reference"]); b["ops"] = [tuple(o) for o in b["ops"]]
        (sa, ma), (sb, mb) = run_seq(a), run_seq(b)
        e = compare_contents(content_of(sa), content_of(sb))
        print("replay: content difference %.3g; %s" % (e, ma or mb or "operators unchanged"))
        return 1 if (e > 1e-11 or ma or mb) else 0
    print("replay: not an input replay (%s)" % rp.get("what"))
    return 1
