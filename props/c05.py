"""C05 — Diffusion attenuates each coherence pathway by exp(-int k(t)^T D k(t) dt).

proof      : Props/C05.v (b-matrix entries are the ramp integrals incl. units; const / even / iso = tensor / k0 /
             att <= 1; D._apply view; block step; pathway sum over 3^n component histories; K = C instance)
tie 1      : translator/diffusion_tables.py -> Gen/Diffusion.v, validated by the Interval tie (bmat, bmat_const,
             att_tensorN, att_isoN against compute_bmatrix / diffusion_operator)
tie 2      : correspondence of Model/Diffusion.v with D._apply on random sequences: (i) the model's rational b-matrices
             (from coords * kvalue, ramp (k - shift -> k)) against the b-matrices the implementation hands to
             diffusion_operator, (ii) the state update with the implementation's own exp() factors; (iii) those factors
             against the generated exp(-b:D) by Interval
oracle     : explicit enumeration of the 3^npulses pathways with exp(-b:D) from Gauss-Legendre quadrature of
             k(t)^T D k(t) (independent of the package), against operator application and epg.simulate
"""
import itertools, os, re
import numpy as np
from fractions import Fraction
from vlib import core

F = Fraction


# ------------------------------------------------------------------ cases
def gen_case(rng, quick=True):
    mode = rng.choice(["1d", "1d", "3d-int", "3d-float"])
    npulse = rng.randint(1, 4 if mode == "1d" else 3)
    kdim = 1 if mode == "1d" else 3
    case = {"mode": mode, "kvalue": 1.0, "kgrid": None, "steps": []}
    if mode in ("1d", "3d-int"):
        case["kvalue"] = float(rng.choice([5000, 10000, 20000, 40000]))
    else:
        case["kgrid"] = 1250.0
    have3d = False
    for _ in range(npulse):
        st = {"alpha": float(rng.choice([20, 35, 50, 70, 90, 110, 130, 155, 180])), "phi": float(rng.choice([0, 15, 40, 90, 135, 200, 270]))}
        r = rng.random()
        st["shift"] = None
        if r < 0.8:
            if mode == "1d":
                st["shift"] = rng.choice([1, 1, 2, -1, 3, -2])
            elif mode == "3d-int":
                while True:
                    v = [rng.choice([0, 1, -1, 2, -2]) for _ in range(3)]
                    if any(v):
                        break
                st["shift"] = v
            else:
                while True:
                    v = [rng.choice([0, 1, -1, 2, 3, -3, 5]) * 2500.0 * rng.choice([1, 1, 2, 0.5]) for _ in range(3)]
                    if any(v):
                        break
                st["shift"] = v
        st["tau"] = float(F(rng.randint(8, 640), 8))                      # ms
        st["D"] = gen_D(rng, kdim)
        have3d = have3d or st["shift"] is not None
        # optional further gradient-free diffusion interval (D without k); a tensor D is only valid once the state
        # matrix carries kdim-dimensional coordinates (D._apply rejects a dimension mismatch: fix 6403b86)
        st["free"] = None
        if st["shift"] is None or rng.random() < 0.3:
            st["free"] = {"tau": float(F(rng.randint(8, 400), 8)), "D": gen_D(rng, kdim, scalar_only=(kdim == 3 and not have3d))}
        case["steps"].append(st)
    return case


def gen_D(rng, kdim, scalar_only=False):
    """scalar or symmetric positive semi-definite tensor (mm^2/s)"""
    if scalar_only or rng.random() < 0.45:
        return float(F(rng.randint(2, 48), 16)) * 1e-3
    a = np.array([[rng.randint(-4, 4) / 4 for _ in range(kdim)] for _ in range(kdim)])
    d = a @ a.T * 1e-3 * rng.choice([0.25, 0.5, 1.0])
    if rng.random() < 0.2:
        d = np.diag(np.diag(d))
    return d.tolist()


def build_ops(case):
    import epgpy as epg
    ops = []
    for st in case["steps"]:
        ops.append(("T", epg.T(st["alpha"], st["phi"])))
        if st["shift"] is not None:
            k = st["shift"]
            if case["mode"] == "1d":
                ops.append(("S", epg.S(int(k))))
                ops.append(("D", epg.D(st["tau"], dval(st["D"]), int(k)), st["tau"], st["D"], k))
            else:
                ka = np.array(k, dtype=int if case["mode"] == "3d-int" else float)
                ops.append(("S", epg.S(ka, prune=0)))
                ops.append(("D", epg.D(st["tau"], dval(st["D"]), ka), st["tau"], st["D"], k))
        if st["free"] is not None:
            ops.append(("D", epg.D(st["free"]["tau"], dval(st["free"]["D"])), st["free"]["tau"], st["free"]["D"], None))
    return ops


def dval(D):
    return D if isinstance(D, float) else np.array(D, dtype=float)


def init_sm(case):
    import epgpy as epg
    opts = {}
    if case["kgrid"]:
        opts["kgrid"] = case["kgrid"]
    return epg.StateMatrix(kvalue=case["kvalue"], **opts)


def snap(sm):
    st = np.array(sm.states)
    st = st.reshape((-1,) + st.shape[-2:])[0]
    co = None if sm.coords is None else np.array(sm.coords).reshape((-1,) + np.shape(sm.coords)[-2:])[0]
    return st, co


def run_impl(case):
    """apply operator by operator; record around every D: pre/post states, coords, and the (bL, bT, D) -> (DL, DT)
    call of diffusion_operator (observed by wrapping the module-level function; /repo is not modified)"""
    from epgpy import diffusion
    rec = []
    orig = diffusion.diffusion_operator

    def spy(bL, bT, D):
        DL, DT = orig(bL, bT, D)
        rec.append((np.array(bL), np.array(bT), np.array(DL), np.array(DT)))
        return DL, DT
    diffusion.diffusion_operator = spy
    try:
        sm = init_sm(case)
        out = []
        for o in build_ops(case):
            if o[0] == "D":
                pre, co = snap(sm)
                n0 = len(rec)
                sm = o[1](sm)
                post, _ = snap(sm)
                if len(rec) != n0 + 1:
                    raise RuntimeError("diffusion_operator was not called exactly once by D._apply")
                bL, bT, DL, DT = rec[-1]
                ns = pre.shape[0]
                out.append({"tau": o[2], "D": o[3], "k": o[4], "pre": pre, "post": post, "coords": co,
                            "bL": bL.reshape((-1, ns) + bL.shape[-2:])[0], "bT": bT.reshape((-1, ns) + bT.shape[-2:])[0],
                            "DL": np.broadcast_to(DL, DL.shape).reshape(-1, ns)[0], "DT": DT.reshape(-1, ns)[0]})
            else:
                sm = o[1](sm)
        final, co = snap(sm)
        return out, final, co
    finally:
        diffusion.diffusion_operator = orig


# ------------------------------------------------------------------ Gallina printers
def q(x):
    return core.qlit(x)


def qlist(v):
    return core.clist([q(x) for x in v])


def qmat(m):
    return core.clist([qlist(r) for r in m])


def qc(x):
    f = core.frac(x)
    return "(Q2Qc %s)" % core.qlit(f)


CORR_HEADER = """From Coq Require Import List ZArith QArith Qcanon.
From EPG Require Import Scalar QI State Ops.
From EPG.Gen Require Import Diffusion.
From EPG.Model Require Import Diffusion.
Import ListNotations.
Open Scope Q_scope.
Notation mk3 := (@mk3 QIops).
Definition tolb : Q := 1 # 1000000000000.
Definition tols : Qc := Q2Qc (1 # 1000000000).
"""


def corr_term(case, d):
    ns = d["pre"].shape[0]
    kv = case["kvalue"]
    if d["coords"] is None:
        ks = "(ks_of %s (coords1 %d))" % (q(kv), ns)
    else:
        ks = "(ks_of %s %s)" % (q(kv), qmat(d["coords"].tolist()))
    if d["k"] is None:
        shift = "None"
    else:
        kk = [d["k"]] if case["mode"] == "1d" else list(d["k"])
        # shift = self.k * sm.kvalue, evaluated by the model in exact rationals
        shift = "(Some %s)" % core.clist(["(%s * %s)" % (q(float(x)), q(kv)) for x in kk])
    obsL = core.clist([qmat(m) for m in d["bL"].tolist()])
    obsT = core.clist([qmat(m) for m in d["bT"].tolist()])
    DT = core.clist([core.qi(complex(x)) for x in d["DT"]])
    DL = core.clist([core.qi(complex(x)) for x in d["DL"]])
    pre = core.clist([core.triple(r) for r in d["pre"].tolist()])
    post = core.clist([core.triple(r) for r in d["post"].tolist()])
    return "(bmats_ok tolb %s %s %s %s %s && d_states_ok tols %s %s %s %s)" % (q(d["tau"]), shift, ks, obsL, obsT, DT, DL, pre, post)


# ------------------------------------------------------------------ Interval tie
TIE_HEADER = """From Coq Require Import Reals.
From Interval Require Import Tactic.
From EPG.Gen Require Import Diffusion.
Local Open Scope R_scope.
Ltac tie n := tryif assert_succeeds (solve [repeat split; interval with (i_prec 100)]) then idtac "TIE-OK" n else idtac "TIE-FAIL" n.
"""


def rlit(x):
    qx = core.frac(x)
    if qx.denominator == 1:
        return "(%d)" % qx.numerator if qx.numerator >= 0 else "(- %d)" % (-qx.numerator)
    return "(%d / %d)" % (qx.numerator, qx.denominator) if qx.numerator >= 0 else "(- (%d / %d))" % (-qx.numerator, qx.denominator)


def close_goal(term, lit, rel=1e-9):
    lit = float(lit)
    tol = F(rel).limit_denominator(10 ** 15) * (1 + abs(core.frac(lit)))
    return "Rabs (%s - %s) <= %s" % (term, rlit(lit), rlit(tol))


def tie_goals(ctx, npoints, recorded):
    from epgpy import diffusion
    rng = ctx.rng
    goals, meta = [], []

    def add(conj, unfold, what):
        goals.append("Goal %s.\nProof. unfold %s. tie %d%%nat. Abort." % (" /\\\n  ".join(conj), unfold, len(goals)))
        meta.append(what)
    for _ in range(npoints):
        d = rng.choice([1, 2, 3])
        tau = F(rng.randint(1, 800), 8)
        k1 = [F(rng.randint(-400, 400) * 125, 1) for _ in range(d)]
        k2 = [F(rng.randint(-400, 400) * 125, 1) for _ in range(d)]
        if k1 == k2:
            k2[0] += 125
        b = diffusion.compute_bmatrix(float(tau), np.array([float(x) for x in k1]), np.array([float(x) for x in k2]))
        b = np.asarray(b).reshape(d, d)
        add([close_goal("bmat %s %s %s %s %s" % (rlit(tau), rlit(k1[i]), rlit(k1[j]), rlit(k2[i]), rlit(k2[j])), b[i, j], 1e-12)
             for i in range(d) for j in range(d)], "bmat", ("bmat", str(tau), [str(x) for x in k1], [str(x) for x in k2]))
        for b0, nm in ((diffusion.compute_bmatrix(float(tau), np.array([float(x) for x in k1])), "k2=None"),
                       (diffusion.compute_bmatrix(float(tau), np.array([float(x) for x in k1]), np.array([float(x) for x in k1])), "k2=k1")):
            b0 = np.asarray(b0).reshape(d, d)
            add([close_goal("bmat_const %s %s %s" % (rlit(tau), rlit(k1[i]), rlit(k1[j])), b0[i, j], 1e-12)
                 for i in range(d) for j in range(d)], "bmat_const", ("bmat_const " + nm, str(tau), [str(x) for x in k1]))
        # diffusion_operator at random symmetric b and D
        a = np.array([[rng.randint(-8, 8) / 4 for _ in range(d)] for _ in range(d)])
        bm = a @ a.T * rng.choice([10.0, 100.0, 400.0])
        c = np.array([[rng.randint(-4, 4) / 4 for _ in range(d)] for _ in range(d)])
        Dm = c @ c.T * 1e-3
        Ds = rng.randint(1, 48) / 16 * 1e-3
        DL, DT = diffusion.diffusion_operator(bm[None], 2 * bm[None], Dm)
        args = lambda m: " ".join(rlit(x) for x in np.asarray(m).ravel())
        add([close_goal("att_tensor%d %s %s" % (d, args(bm), args(Dm)), np.ravel(DL)[0]),
             close_goal("att_tensor%d %s %s" % (d, args(2 * bm), args(Dm)), np.ravel(DT)[0])], "att_tensor%d" % d, ("att_tensor%d" % d,))
        DL, DT = diffusion.diffusion_operator(bm[None], 2 * bm[None], Ds)
        add([close_goal("att_iso%d %s %s" % (d, args(bm), rlit(Ds)), np.ravel(DL)[0]),
             close_goal("att_iso%d %s %s" % (d, args(2 * bm), rlit(Ds)), np.ravel(DT)[0])], "att_iso%d" % d, ("att_iso%d" % d,))
    # level (iii): the factors met in the correspondence runs are the generated exp(-b:D)
    for (d, i, which) in recorded:
        bm = d["b" + which][i]
        kd = bm.shape[-1]
        val = d["D" + which][i]
        args = " ".join(rlit(x) for x in bm.ravel())
        if isinstance(d["D"], float):
            add([close_goal("att_iso%d %s %s" % (kd, args, rlit(d["D"])), val)], "att_iso%d" % kd, ("recorded att_iso", which))
        else:
            add([close_goal("att_tensor%d %s %s" % (kd, args, " ".join(rlit(x) for x in np.ravel(d["D"]))), val)],
                "att_tensor%d" % kd, ("recorded att_tensor", which))
    return goals, meta


def run_tie(ctx, goals, meta):
    nsh = min(core.NPROC, max(1, len(goals) // 6))
    files = []
    for s in range(nsh):
        path = os.path.join(core.CASES, "%s_tie_%d.v" % (ctx.pid, s))
        with open(path, "w") as f:
            f.write(TIE_HEADER + "\n".join(goals[s::nsh]) + "\n")
        files.append(path)
    res = core.coqc_many(files)
    ctx._case_files += files
    ok, fail = set(), set()
    for path in files:
        rc, out = res[path]
        if rc != 0:
            ctx.report("interval tie shard failed to compile", {"theorem_or_correspondence": "Interval tie of Gen/Diffusion.v", "coq_output": out[-1500:]}, found_input=False)
            continue
        ok |= {int(m) for m in re.findall(r"TIE-OK (\d+)", out)}
        fail |= {int(m) for m in re.findall(r"TIE-FAIL (\d+)", out)}
    bad = sorted((set(range(len(goals))) - ok) | fail)
    for i in bad[:5]:
        ctx.report("generated definition disagrees with the implementation at %s (translator or source changed meaning)" % (meta[i],),
                   {"theorem_or_correspondence": "Interval tie Gen/Diffusion.v", "point": meta[i]}, found_input=False)
    ctx.cov["interval_tie_points"] = len(ok)
    return len(ok), len(bad)


# ------------------------------------------------------------------ spec oracle (independent of epgpy)
GL_X = [-np.sqrt(3 / 5), 0.0, np.sqrt(3 / 5)]
GL_W = [5 / 9, 8 / 9, 5 / 9]


def rf_matrix(alpha, phi):
    """textbook EPG transition matrix in the (F+, F-, Z) basis (Weigel 2015, eq. 15), angles in degrees"""
    a, p = np.deg2rad(alpha), np.deg2rad(phi)
    return np.array([[np.cos(a / 2) ** 2, np.exp(2j * p) * np.sin(a / 2) ** 2, -1j * np.exp(1j * p) * np.sin(a)],
                     [np.exp(-2j * p) * np.sin(a / 2) ** 2, np.cos(a / 2) ** 2, 1j * np.exp(-1j * p) * np.sin(a)],
                     [-0.5j * np.exp(-1j * p) * np.sin(a), 0.5j * np.exp(1j * p) * np.sin(a), np.cos(a)]])


def bD_quadrature(tau_ms, q1, q2, D):
    """int_0^T q(t)^T D q(t) dt, q ramping linearly q1 -> q2 (rad/m), T = tau_ms; SI conversion ms -> s, rad/m -> rad/mm;
    3-point Gauss-Legendre (exact for the quadratic integrand)"""
    T = tau_ms / 1000.0
    q1, q2 = np.asarray(q1, float) / 1000.0, np.asarray(q2, float) / 1000.0
    Dm = np.eye(len(q1)) * D if isinstance(D, float) else np.asarray(D, float)
    tot = 0.0
    for x, w in zip(GL_X, GL_W):
        t = (x + 1) / 2
        qt = q1 + (q2 - q1) * t
        tot += w * float(qt @ Dm @ qt)
    return tot * T / 2


def pathway_oracle(case):
    """explicit enumeration: one term per choice of component after each pulse; returns {(coords tuple): [F+, F-, Z]}"""
    kdim = 1 if case["mode"] == "1d" else 3
    kv = case["kvalue"]
    steps = case["steps"]
    comps = (0, 1, 2)
    out = {}
    for path in itertools.product(comps, repeat=len(steps)):
        amp = 1.0 + 0j
        prev = 2                                  # equilibrium: Z
        k = tuple(F(0) for _ in range(kdim))      # array index / coordinate of the state holding the pathway
        for st, c in zip(steps, path):
            amp *= rf_matrix(st["alpha"], st["phi"])[c, prev]
            if amp == 0:
                break
            sgn = {0: 1, 1: -1, 2: 0}[c]
            if st["shift"] is not None:
                sh = [st["shift"]] if kdim == 1 else st["shift"]
                sh = tuple(F(x) for x in sh)
                knew = tuple(a + sgn * b for a, b in zip(k, sh))
                # physical wavenumber of the magnetisation: F-(k) is the conjugate of order -k
                s = -1 if c == 1 else 1
                q1 = [s * float(x) * kv for x in k]
                q2 = [s * float(x) * kv for x in knew]
                amp *= np.exp(-bD_quadrature(st["tau"], q1, q2, st["D"]))
                k = knew
            if st["free"] is not None:
                qc_ = [float(x) * kv for x in k]
                amp *= np.exp(-bD_quadrature(st["free"]["tau"], qc_, qc_, st["free"]["D"]))
            prev = c
        else:
            out.setdefault(k, [0j, 0j, 0j])[path[-1]] += amp
    return out


def oracle_disagrees(case, final, coords):
    ref = pathway_oracle(case)
    ns = final.shape[0]
    n = (ns - 1) // 2
    impl = {}
    g = case["kgrid"]
    if g:       # gridded back-end: stored coordinates are binary64 multiples of the grid step; identify states by grid index
        ref = {tuple(x / F(g) for x in k): v for k, v in ref.items()}
        if any(x.denominator != 1 for k in ref for x in k):
            raise RuntimeError("generator produced an off-grid shift")
    for i in range(ns):
        if coords is None:
            key = (F(i - n),) + ((F(0), F(0)) if case["mode"] != "1d" else ())
        elif g:
            key = tuple(F(round(float(x) / g)) for x in coords[i])
            if max(abs(float(x) / g - round(float(x) / g)) for x in coords[i]) > 1e-6:
                return "stored coordinate %s is not on the grid" % (coords[i],)
        else:
            key = tuple(F(float(x)) for x in coords[i])
        if key in impl and np.abs(final[i]).max() > 0:
            return "two stored states share the coordinates %s" % (key,)
        impl.setdefault(key, final[i])
    scale = 1 + max([np.abs(v).max() for v in ref.values()] + [0])
    worst = 0.0
    for key in set(ref) | set(impl):
        a = np.asarray(impl.get(key, [0, 0, 0]), complex)
        b = np.asarray(ref.get(key, [0, 0, 0]), complex)
        worst = max(worst, np.abs(a - b).max())
    if worst > 1e-9 * scale:
        return "max |state - sum over pathways| = %.3g" % worst
    return None


def simulate_F0(case):
    import epgpy as epg
    seq = [o[1] for o in build_ops(case)] + [epg.ADC]
    opts = {"kvalue": case["kvalue"]}
    if case["kgrid"]:
        opts["kgrid"] = case["kgrid"]
    f0, z0 = epg.simulate(seq, probe=["F0", "Z0"], **opts)
    return complex(np.ravel(f0)[0]), complex(np.ravel(z0)[0])


def check_oracle(ctx, case, final, coords):
    """returns a description of the discrepancy or None"""
    why = oracle_disagrees(case, final, coords)
    if why:
        return why
    ref = pathway_oracle(case)
    zero = tuple(F(0) for _ in range(1 if case["mode"] == "1d" else 3))
    r0 = ref.get(zero, [0j, 0j, 0j])
    f0, z0 = simulate_F0(case)
    e = max(abs(f0 - r0[0]), abs(z0 - r0[2]))
    if e > 1e-9 * (1 + abs(r0[0]) + abs(r0[2])):
        return "simulate() F0/Z0 differ from the pathway sum by %.3g" % e
    return None


def sig(case):
    return {"mode": case["mode"], "npulse": len(case["steps"]),
            "D": sorted({"scalar" if isinstance(s["D"], float) else "tensor" for s in case["steps"]})}


# ------------------------------------------------------------------ main
def run(ctx):
    proved = ctx.prove(gen=True)
    quick = ctx.tier == "quick"
    ncase = 100 if quick else 1500
    terms, owners, recorded = [], [], []
    dist = {}
    oracle_bad = set()
    attstat = {"total": 0, "in(0.01,0.99)": 0, ">1": 0}
    noracle = 0
    for ci in range(ncase):
        case = gen_case(ctx.rng, quick)
        try:
            ds, final, coords = run_impl(case)
        except Exception as e:
            ctx.report("implementation raised %s on a valid sequence: %s" % (type(e).__name__, str(e)[:200]), {"case": case},
                       found_input=True, signature={"raises": type(e).__name__, "mode": case["mode"]})
            continue
        key = "%s/%d" % (case["mode"], len(case["steps"]))
        dist[key] = dist.get(key, 0) + 1
        for d in ds:
            terms.append(corr_term(case, d))
            owners.append(case)
            for x in list(np.ravel(d["DT"])) + list(np.ravel(d["DL"])):
                attstat["total"] += 1
                attstat["in(0.01,0.99)"] += 0.01 < float(np.real(x)) < 0.99
                attstat[">1"] += float(np.real(x)) > 1
            if len(recorded) < (24 if quick else 200):
                i = ctx.rng.randrange(len(d["DL"]))
                recorded.append((d, i, ctx.rng.choice(["L", "T"])))
        ctx.count(case, nontrivial=len(case["steps"]) >= 2)
        ctx.sample({"case": sig(case), "kvalue": case["kvalue"], "nstates_final": int(final.shape[0])})
        # spec oracle: supporting evidence and failing-input search in one
        try:
            why = check_oracle(ctx, case, final, coords)
        except Exception as e:
            why = "simulate() raised %s: %s" % (type(e).__name__, str(e)[:200])
        noracle += 1
        if why:
            oracle_bad.add(id(case))
            ctx.report("states differ from the explicit sum over coherence pathways with exp(-int k^T D k dt): " + why,
                       {"case": case}, found_input=True, signature={"oracle": "pathway-sum", "mode": case["mode"]})
    ctx.cov["oracle_runs"] = noracle
    ctx.notes["case_distribution"] = dist
    ctx.notes["attenuation_factors"] = attstat
    verdicts, errors = ctx.run_bool_cases("corr", CORR_HEADER, terms, chunk=12)
    for e in errors:
        ctx.report("correspondence shard failed to evaluate", {"theorem_or_correspondence": "C05 correspondence (Cases)", "coq_output": e}, found_input=False)
    nviol = len(ctx.violations)
    nbad = 0
    for case, v in zip(owners, verdicts):
        if v is False:
            nbad += 1
            if len(ctx.violations) == nviol and id(case) not in oracle_bad:
                ctx.report("Model/Diffusion.v and D._apply disagree (b-matrices from (k - shift -> k) / state update) on a sequence for which the pathway oracle saw no discrepancy",
                           {"case": case, "theorem_or_correspondence": "C05 correspondence Model/Diffusion.v vs epgpy.diffusion.D._apply"}, found_input=False)
    ctx.cov["correspondence_D_applications"] = len(terms)
    ctx.cov["correspondence_disagreements"] = nbad
    goals, meta = tie_goals(ctx, 6 if quick else 60, recorded)
    nok, nfail = run_tie(ctx, goals, meta)
    ctx.cov["trusted_base"] += [
        "translator /verif/translator/diffusion_tables.py (symex subclass: Python ast of compute_bmatrix / diffusion_operator -> Gen/Diffusion.v), validated by the Interval tie at %d goals" % nok,
        "hand-written model Model/Diffusion.v (D._apply structure; sm.k = coords * kvalue; shift = self.k * kvalue) tied to epgpy by correspondence: b-matrices 1e-12 relative, states 1e-9 relative, on %d D applications" % len(terms),
        "observation of the b-matrices by wrapping epgpy.diffusion.diffusion_operator at run time",
        "the n-D / gridded shift back-ends are NOT modelled here (C04): the correspondence takes the coordinates they produce as input",
        "Coquelicot + Interval libraries; axioms as printed by Print Assumptions (classical reals, functional extensionality, classic)"]
    ctx.notes["observation_tensor_D_before_first_shift"] = probe_fresh_tensor()
    if not proved and not ctx.violations:
        ctx.report("proof obligations of C05 no longer check: %s" % ctx.failed_obligations,
                   {"theorem_or_correspondence": ctx.failed_obligations}, found_input=False)
    elif not proved:
        ctx.notes["failed_obligations_with_failing_input"] = ctx.failed_obligations


def probe_fresh_tensor():
    """recorded, not judged here (reported to the lead): a 3x3 tensor D in a gradient-free interval BEFORE the first
    3-D shift meets a state matrix without coordinates (kdim 1); since fix 6403b86 D._apply rejects it, although the
    physical answer is well defined (k = 0: no attenuation).  The generator keeps such intervals scalar."""
    import epgpy as epg
    Dt = np.diag([1e-3, 2e-3, 3e-3])
    seq = [epg.T(90, 0), epg.D(10.0, Dt), epg.S(np.array([1, 0, 2])), epg.D(10.0, Dt, np.array([1, 0, 2])), epg.ADC]
    try:
        epg.simulate(seq, kvalue=2e4)
        return "accepted"
    except Exception as e:
        return "raises %s: %s" % (type(e).__name__, e)


def replay(ctx, rp):
    if "case" in rp:
        case = rp["case"]
        try:
            ds, final, coords = run_impl(case)
            why = check_oracle(ctx, case, final, coords)
        except Exception as e:
            why = "raised %s: %s" % (type(e).__name__, e)
        print("replay:", why or "no discrepancy with the pathway-sum oracle")
        return 1 if why else 0
    print("replay: not an input replay (%s)" % rp.get("what"))
    return 1
