"""C05 — Diffusion attenuates each coherence pathway by exp(-int k(t)^T D k(t) dt).

proof      : Props/C05.v (b-matrix entries are the ramp integrals incl. units; const / even / iso = tensor / k0 /
             att <= 1; D._apply view; block step; pathway sum over 3^n component histories; K = C instance)
tie 1      : translator/diffusion_tables.py -> Gen/Diffusion.v, validated by the Interval tie (bmat, bmat_const,
             att_tensorN, att_isoN against compute_bmatrix / diffusion_operator)
tie 2      : correspondence of Model/Diffusion.v with D._apply on random sequences: (i) the model's rational b-matrices
             (from coords * kvalue, ramp (k - shift -> k)) against the b-matrices the implementation hands to
             diffusion_operator, (ii) the state update with the implementation's own exp() factors; (iii) those factors
             against the generated exp(-b:D) by Interval
oracle     : operators are drawn from per-case pools and REUSED as objects (echo trains, second sequence with other
             gradient directions on the same objects, simulate() twice); explicit enumeration of the 3^npulses pathways
             with exp(-b:D) from Gauss-Legendre quadrature of k(t)^T D k(t) (independent of the package), against
             operator application and epg.simulate; the D objects' instance attributes must be unchanged afterwards
"""
import os
import itertools, os, re
import numpy as np
from fractions import Fraction
from vlib import core

F = Fraction


# ------------------------------------------------------------------ cases
# A case is a flat list of operator SPECS drawn from small per-case pools (directions, durations, tensors, pulses), so
# the same S(k) / D(tau, D, k) / T(alpha, phi) occurs several times; with share=True equal specs are ONE operator
# object (as in `[exc] + [grad, diff, rf, grad, diff] * n`).  A second list ops2 (directions rotated / mirrored) is
# run afterwards on the same objects, and simulate() is called twice on the same sequence object.
MODES = {"1d": ("int", 1), "2d-int": ("int", 2), "3d-int": ("int", 3), "3d-float": ("float", 3), "3d-float-off": ("float", 3)}
KGRID = 1250.0
# off-grid float mode: wavenumbers are multiples of OFFSTEP, the grid cell is 10 steps wide, so pathways keep float
# wavenumbers that are NOT grid nodes; the generator keeps distinct wavenumbers in distinct cells (no merging: C13)
OFFGRID, OFFSTEP = 4e4, 4e3


def gen_shift(rng, mode):
    kind, kdim = MODES[mode]
    if mode == "1d":
        return rng.choice([1, 1, 2, -1, 3, -2])
    if kind == "int" and rng.random() < 0.35:
        # a SCALAR integer shift / gradient on n-D coordinates: S(k), D(tau, D, k) act along the first axis.  (Not in the
        # float/kgrid mode: before float coordinates exist S(int) is a plain 1-D shift by that many STATES.)
        return rng.choice([1, 1, 2, -1, -2])
    while True:
        if kind == "int":
            v = [rng.choice([0, 0, 1, -1, 2, -2]) for _ in range(kdim)]
        elif mode == "3d-float-off":
            v = [rng.choice([0, 0, 1, -1]) * rng.choice([3, 7, 11, 12, 13, 17, 19, 23]) * OFFSTEP for _ in range(kdim)]
        else:
            v = [rng.choice([0, 0, 1, -1, 2, 3, -3, 5]) * 2 * KGRID * rng.choice([1, 1, 2, 0.5]) for _ in range(kdim)]
        if any(v):
            return v


def neg(k):
    return -k if isinstance(k, int) else [-x for x in k]


def cells_ok(case):
    """off-grid mode: after every shift all reachable wavenumbers (superset: every state shifted both ways) lie in
    distinct grid cells, none near a cell boundary (np.around ties)"""
    g, kv = case["kgrid"], kvv(case)
    for specs in (case["ops"], case["ops2"]):
        K = {tuple(F(0) for _ in kv)}
        for sp in specs or []:
            if sp["op"] != "S":
                continue
            d = tuple(F(x) for x in kvec(case, sp["k"]))
            K = K | {tuple(a + b for a, b in zip(k, d)) for k in K} | {tuple(a - b for a, b in zip(k, d)) for k in K}
            cells = {}
            for k in K:
                onr = [float(x) * v / g for x, v in zip(k, kv)]
                if any(abs(abs(x - round(x)) - 0.5) < 0.05 for x in onr):
                    return False
                c = tuple(round(x) for x in onr)
                if cells.setdefault(c, k) != k:
                    return False
    return True


def gen_case(rng, quick=True):
    for _ in range(400):
        case = gen_case_raw(rng, quick)
        if case["mode"] != "3d-float-off" or cells_ok(case):
            return case
    raise RuntimeError("generator: no collision-free off-grid case found")


def alpha_at(spec, idx):
    """flip angle of a (possibly batched) pulse for one batch entry"""
    a = spec["alpha"]
    return a if not isinstance(a, dict) else a["values"][idx[a["axis"]] if len(idx) > a["axis"] else 0]


def specs_at(specs, idx):
    """the scalar sequence simulated by batch entry idx"""
    return [dict(sp, alpha=float(alpha_at(sp, idx))) if sp["op"] == "T" else sp for sp in specs]


def batch_shape(case, specs):
    """shape of the state matrix' batch axes: every batched pulse carries all axes (unit where it does not vary)"""
    b = case.get("batch")
    used = [sp["alpha"] for sp in specs if sp["op"] == "T" and isinstance(sp["alpha"], dict)]
    if not b or not used:
        return (1,)
    return tuple(max([len(a["values"]) for a in used if a["axis"] == i] + [1]) for i in range(len(b)))


def gen_case_raw(rng, quick=True):
    mode = rng.choice(["1d", "1d", "2d-int", "3d-int", "3d-int", "3d-float", "3d-float", "3d-float-off", "3d-float-off"])
    kind, kdim = MODES[mode]
    case = {"mode": mode, "kvalue": 1.0, "kgrid": None, "share": rng.random() < 0.75, "twice": rng.random() < 0.5,
            # how the durations reach D(...): python float, numpy scalar, 0-d float ndarray, 1-element float ndarray
            "tau_form": rng.choice(["float", "float", "np.float64", "0d", "0d", "1el"])}
    kvpool = [5000, 10000, 20000, 40000] if kind == "int" else [1, 1, 2, 4]   # float shifts count multiples of kvalue too (on the grid)
    case["kvalue"] = float(rng.choice(kvpool))
    if rng.random() < 0.3:
        # one kvalue per axis (ndarray), in every mode, possibly for more axes than the wavenumbers use (kvalue[:kdim])
        case["kvalue"] = [float(rng.choice(kvpool)) for _ in range(rng.choice([max(kdim, 2), 3]))]
    if kind == "float":
        case["kgrid"] = OFFGRID if mode == "3d-float-off" else KGRID
        if mode == "3d-float-off" and not isinstance(case["kvalue"], list):
            case["kvalue"] = float(rng.choice([1, 1, 2]))
    # batch: flip angles vary along one of two or three batch axes (unit axes included), T(alpha[:, None], phi) ...
    case["batch"] = rng.choice([[2, 2], [2, 3], [1, 2], [2, 1], [2, 1, 2], [1, 1, 2], [2, 2, 1], [1, 2, 1]]) if rng.random() < 0.35 else None
    dirs = []
    while len(dirs) < rng.randint(1, 3):
        d = gen_shift(rng, mode)
        if d not in dirs:
            dirs.append(d)
    Dpool = [gen_D(rng, kdim) for _ in range(rng.choice([1, 1, 2]))]
    ANG = [20, 35, 50, 70, 90, 110, 130, 155, 180]
    rfs = [{"op": "T", "alpha": float(rng.choice(ANG)),
            "phi": float(rng.choice([0, 15, 40, 90, 135, 200, 270]))} for _ in range(rng.randint(1, 3) if not case["batch"] else rng.randint(2, 3))]
    if case["batch"]:
        axes = list(range(len(case["batch"])))
        rng.shuffle(axes)
        for j, rf in enumerate(rfs):
            if j < 2 or rng.random() < 0.5:       # the first two pulses of the pool vary along different axes
                ax = axes[j % len(axes)]
                rf["alpha"] = {"axis": ax, "values": [float(x) for x in rng.sample(ANG, case["batch"][ax])]}
    taus = [float(F(rng.randint(8, 640), 8)) for _ in range(2)]
    gD = [{"tau": rng.choice(taus), "D": rng.choice(Dpool)} for _ in dirs]       # the diffusion operator of each direction
    free = {"op": "D", "tau": float(F(rng.randint(8, 400), 8)), "D": rng.choice(Dpool), "k": None}

    def build(dd):
        r = rng_struct                                  # the structure is drawn once and replayed for ops2
        ops = []
        nd = False                                      # does the state matrix carry kdim-dimensional coordinates yet?
        for item in r:
            if item[0] == "T":
                ops.append(rfs[item[1]])
            elif item[0] == "G":
                i = item[1]
                Dg = gD[i]["D"]
                ops += [{"op": "S", "k": dd[i]}, {"op": "D", "tau": gD[i]["tau"], "D": Dg, "k": dd[i]}]
                nd = nd or not isinstance(dd[i], int) or isinstance(Dg, list)
            else:
                sp = free if item[0] == "F" else {"op": "D", "tau": item[1], "D": item[2], "k": None}
                ops.append(sp)
                nd = nd or isinstance(sp["D"], list)
        return ops
    rng_struct = []
    if rng.random() < 0.5:      # echo train [exc] + [grad, diff, (free), rf, (free), grad, diff] * n
        n = rng.randint(1, 3 if mode == "1d" else 2)
        usefree = rng.random() < 0.6
        rng_struct.append(("T", 0))
        for _ in range(n):
            g = rng.randrange(len(dirs))
            rng_struct += [("G", g)] + ([("F",)] if usefree else []) + [("T", rng.randrange(len(rfs)))] + ([("F",)] if usefree else []) + [("G", g)]
    else:                       # pulse, optional gradient + diffusion, optional gradient-free interval
        for _ in range(rng.randint(1, 4 if mode == "1d" else 3)):
            rng_struct.append(("T", rng.randrange(len(rfs))))
            had = False
            if rng.random() < 0.8:
                rng_struct.append(("G", rng.randrange(len(dirs))))
                had = True
            if not had or rng.random() < 0.3:
                rng_struct.append(("F",) if rng.random() < 0.6 else ("X", float(F(rng.randint(8, 400), 8)), rng.choice(Dpool)))
    case["ops"] = build(dirs)
    case["ops2"] = None
    if rng.random() < 0.6:
        dirs2 = dirs[1:] + dirs[:1] if len(dirs) > 1 else [neg(dirs[0])]
        case["ops2"] = build(dirs2)
    return case


def gen_D(rng, kdim):
    """scalar or symmetric positive semi-definite tensor (mm^2/s)"""
    if rng.random() < 0.45:
        return float(F(rng.randint(2, 48), 16)) * 1e-3
    a = np.array([[rng.randint(-4, 4) / 4 for _ in range(kdim)] for _ in range(kdim)])
    d = a @ a.T * 1e-3 * rng.choice([0.25, 0.5, 1.0])
    if rng.random() < 0.2:
        d = np.diag(np.diag(d))
    return d.tolist()


def dval(D):
    return D if isinstance(D, float) else np.array(D, dtype=float)


def tauval(case, x, cache):
    """the duration as the user passes it; with shared operators equal durations are one and the same array object"""
    form = case.get("tau_form", "float")
    if form == "float":
        return float(x)
    if form == "np.float64":
        return np.float64(x)
    if case["share"] and x in cache:
        return cache[x]
    v = np.asarray(float(x)) if form == "0d" else np.array([float(x)])
    cache[x] = v
    return v


def make_op(case, spec, taucache=None):
    import epgpy as epg
    kind, kdim = MODES[case["mode"]]
    if spec["op"] == "T":
        a = spec["alpha"]
        if isinstance(a, dict):
            shape = [1] * len(case["batch"])
            shape[a["axis"]] = len(a["values"])
            a = np.array(a["values"], dtype=float).reshape(shape)
        return epg.T(a, spec["phi"])
    k = spec["k"]
    if k is not None:
        k = int(k) if isinstance(k, int) else np.array(k, dtype=int if kind == "int" else float)
    if spec["op"] == "S":
        return epg.S(k) if case["mode"] == "1d" else epg.S(k, prune=0)
    tau = tauval(case, spec["tau"], {} if taucache is None else taucache)
    return epg.D(tau, dval(spec["D"])) if k is None else epg.D(tau, dval(spec["D"]), k)


def canon(v):
    """hashable, byte-exact description of an attribute value"""
    if isinstance(v, np.ndarray):
        return ("ndarray", str(v.dtype), v.shape, v.tobytes())
    if isinstance(v, dict):
        return ("dict", tuple(sorted((repr(k), canon(x)) for k, x in v.items())))
    if isinstance(v, (list, tuple)):
        return (type(v).__name__, tuple(canon(x) for x in v))
    if isinstance(v, (set, frozenset)):
        return ("set", tuple(sorted(repr(x) for x in v)))
    return ("val", type(v).__name__, repr(v))


def attr_snapshot(op):
    return {k: canon(v) for k, v in vars(op).items()}


class Pool:
    """operator objects of one case: equal specs are one object when the case shares operators"""

    def __init__(self, case):
        self.case, self.memo, self.objs, self.taucache = case, {}, [], {}

    def get(self, spec):
        key = repr(sorted(spec.items(), key=lambda kv: kv[0]))
        if self.case["share"] and key in self.memo:
            return self.memo[key]
        op = make_op(self.case, spec, self.taucache)
        self.memo[key] = op
        self.objs.append((spec, op, attr_snapshot(op)))
        return op

    def sequence(self, specs):
        return [self.get(sp) for sp in specs]

    def mutated(self):
        """[(spec, changed attribute names)] for operators whose instance attributes differ from construction time"""
        out = []
        for spec, op, snap0 in self.objs:
            now = attr_snapshot(op)
            ch = sorted(k for k in set(now) | set(snap0) if now.get(k) != snap0.get(k))
            if ch:
                out.append((spec, ch))
        return out


def kvalue_arg(case):
    return np.array(case["kvalue"], dtype=float) if isinstance(case["kvalue"], list) else case["kvalue"]


def kvv(case):
    """kvalue per wavenumber axis"""
    kdim = MODES[case["mode"]][1]
    return list(case["kvalue"])[:kdim] if isinstance(case["kvalue"], list) else [case["kvalue"]] * kdim


def kvec(case, k):
    """a shift / gradient as a kdim-vector: a scalar acts along the first axis"""
    kdim = MODES[case["mode"]][1]
    return [k] + [0] * (kdim - 1) if isinstance(k, int) else list(k)


def init_sm(case):
    import epgpy as epg
    opts = {}
    if case["kgrid"]:
        opts["kgrid"] = case["kgrid"]
    return epg.StateMatrix(kvalue=kvalue_arg(case), **opts)


def snap(sm, full=False):
    """states of the LAST batch entry (or, full=True, of all entries with their batch shape) and the coordinates"""
    st = np.array(sm.states)
    if not full:
        st = st.reshape((-1,) + st.shape[-2:])[-1]
    co = None if sm.coords is None else np.array(sm.coords).reshape((-1,) + np.shape(sm.coords)[-2:])
    if co is not None:
        if co.shape[0] != 1 and not all(np.array_equal(co[0], c) for c in co):
            raise RuntimeError("coordinates differ between batch entries")
        co = co[0]
    return st, co


def run_impl(case, specs, objs):
    """apply operator by operator; record around every D: pre/post states, coords (after the application: D may set
    up n-D coordinates), and the (bL, bT, D) -> (DL, DT) call of diffusion_operator (observed by wrapping the
    module-level function; /repo is not modified).  A D application that does not go through diffusion_operator is
    recorded as unobservable."""
    from epgpy import diffusion
    rec = []
    orig = diffusion.diffusion_operator

    def spy(bL, bT, D):
        DL, DT = orig(bL, bT, D)
        rec.append((np.array(bL), np.array(bT), np.array(DL), np.array(DT)))
        return DL, DT
    diffusion.diffusion_operator = spy
    try:
        sm = init_sm(case)
        out = []
        for spec, op in zip(specs, objs):
            if spec["op"] == "D":
                pre, _ = snap(sm)
                n0 = len(rec)
                sm = op(sm)
                post, co = snap(sm)
                d = {"tau": spec["tau"], "D": spec["D"], "k": spec["k"], "pre": pre, "post": post, "coords": co, "unobs": len(rec) != n0 + 1}
                if not d["unobs"]:
                    bL, bT, DL, DT = rec[-1]
                    ns = pre.shape[0]
                    d.update({"bL": bL.reshape((-1, ns) + bL.shape[-2:])[-1], "bT": bT.reshape((-1, ns) + bT.shape[-2:])[-1],
                              "DL": DL.reshape(-1, ns)[-1], "DT": DT.reshape(-1, ns)[-1]})
                out.append(d)
            else:
                sm = op(sm)
        final, co = snap(sm, full=True)
        return out, final, co
    finally:
        diffusion.diffusion_operator = orig


# ------------------------------------------------------------------ Gallina printers
def q(x):
    return core.qlit(x)


def qlist(v):
    return core.clist([q(x) for x in v])


def qmat(m):
    return core.clist([qlist(r) for r in m])


def qc(x):
    f = core.frac(x)
    return "(Q2Qc %s)" % core.qlit(f)


CORR_HEADER = """From Coq Require Import List ZArith QArith Qcanon.
From EPG Require Import Scalar QI State Ops.
From EPG.Gen Require Import Diffusion.
From EPG.Model Require Import Diffusion.
Import ListNotations.
Open Scope Q_scope.
Notation mk3 := (@mk3 QIops).
Definition tolb : Q := 1 # 1000000000000.
Definition tols : Qc := Q2Qc (1 # 1000000000).
"""


def corr_term(case, d):
    ns = d["pre"].shape[0]
    # the whole kvalue (scalar: repeated) goes to the model, which slices it to the wavenumber dimension of the state matrix
    kvs = qlist(list(case["kvalue"]) if isinstance(case["kvalue"], list) else [case["kvalue"]] * 3)
    co = "(coords1 %d)" % ns if d["coords"] is None else qmat(d["coords"].tolist())
    ks = "(ks_ofv %s %s)" % (kvs, co)
    if d["k"] is None:
        shift = "None"
    elif isinstance(d["k"], int):
        # scalar self.k: shift = self.k * kvalue[:kdim] along the first axis only, evaluated by the model in exact rationals
        shift = "(Some (shift_scalar_on %s %s %s))" % (q(float(d["k"])), kvs, co)
    else:
        shift = "(Some (shift_vector_on %s %s %s))" % (qlist([float(x) for x in d["k"]]), kvs, co)
    obsL = core.clist([qmat(m) for m in d["bL"].tolist()])
    obsT = core.clist([qmat(m) for m in d["bT"].tolist()])
    DT = core.clist([core.qi(complex(x)) for x in d["DT"]])
    DL = core.clist([core.qi(complex(x)) for x in d["DL"]])
    pre = core.clist([core.triple(r) for r in d["pre"].tolist()])
    post = core.clist([core.triple(r) for r in d["post"].tolist()])
    return "(bmats_ok tolb %s %s %s %s %s && d_states_ok tols %s %s %s %s && dl_even_ok tols %s)" % (q(d["tau"]), shift, ks, obsL, obsT, DT, DL, pre, post, DL)


# ------------------------------------------------------------------ Interval tie
TIE_HEADER = """From Coq Require Import Reals.
From Interval Require Import Tactic.
From EPG.Gen Require Import Diffusion.
Local Open Scope R_scope.
Ltac tie n := tryif assert_succeeds (solve [repeat split; interval with (i_prec 100)]) then idtac "TIE-OK" n else idtac "TIE-FAIL" n.
"""


def rlit(x):
    qx = core.frac(x)
    if qx.denominator == 1:
        return "(%d)" % qx.numerator if qx.numerator >= 0 else "(- %d)" % (-qx.numerator)
    return "(%d / %d)" % (qx.numerator, qx.denominator) if qx.numerator >= 0 else "(- (%d / %d))" % (-qx.numerator, qx.denominator)


def close_goal(term, lit, rel=1e-9):
    lit = float(lit)
    tol = F(rel).limit_denominator(10 ** 15) * (1 + abs(core.frac(lit)))
    return "Rabs (%s - %s) <= %s" % (term, rlit(lit), rlit(tol))


def tie_goals(ctx, npoints, recorded):
    from epgpy import diffusion
    rng = ctx.rng
    goals, meta = [], []

    def add(conj, unfold, what):
        goals.append("Goal %s.\nProof. unfold %s. tie %d%%nat. Abort." % (" /\\\n  ".join(conj), unfold, len(goals)))
        meta.append(what)
    for _ in range(npoints):
        d = rng.choice([1, 2, 3])
        tau = F(rng.randint(1, 800), 8)
        k1 = [F(rng.randint(-400, 400) * 125, 1) for _ in range(d)]
        k2 = [F(rng.randint(-400, 400) * 125, 1) for _ in range(d)]
        if k1 == k2:
            k2[0] += 125
        b = diffusion.compute_bmatrix(float(tau), np.array([float(x) for x in k1]), np.array([float(x) for x in k2]))
        b = np.asarray(b).reshape(d, d)
        add([close_goal("bmat %s %s %s %s %s" % (rlit(tau), rlit(k1[i]), rlit(k1[j]), rlit(k2[i]), rlit(k2[j])), b[i, j], 1e-12)
             for i in range(d) for j in range(d)], "bmat", ("bmat", str(tau), [str(x) for x in k1], [str(x) for x in k2]))
        for b0, nm in ((diffusion.compute_bmatrix(float(tau), np.array([float(x) for x in k1])), "k2=None"),
                       (diffusion.compute_bmatrix(float(tau), np.array([float(x) for x in k1]), np.array([float(x) for x in k1])), "k2=k1")):
            b0 = np.asarray(b0).reshape(d, d)
            add([close_goal("bmat_const %s %s %s" % (rlit(tau), rlit(k1[i]), rlit(k1[j])), b0[i, j], 1e-12)
                 for i in range(d) for j in range(d)], "bmat_const", ("bmat_const " + nm, str(tau), [str(x) for x in k1]))
        # diffusion_operator at random symmetric b and D
        a = np.array([[rng.randint(-8, 8) / 4 for _ in range(d)] for _ in range(d)])
        bm = a @ a.T * rng.choice([10.0, 100.0, 400.0])
        c = np.array([[rng.randint(-4, 4) / 4 for _ in range(d)] for _ in range(d)])
        Dm = c @ c.T * 1e-3
        Ds = rng.randint(1, 48) / 16 * 1e-3
        DL, DT = diffusion.diffusion_operator(bm[None], 2 * bm[None], Dm)
        args = lambda m: " ".join(rlit(x) for x in np.asarray(m).ravel())
        add([close_goal("att_tensor%d %s %s" % (d, args(bm), args(Dm)), np.ravel(DL)[0]),
             close_goal("att_tensor%d %s %s" % (d, args(2 * bm), args(Dm)), np.ravel(DT)[0])], "att_tensor%d" % d, ("att_tensor%d" % d,))
        DL, DT = diffusion.diffusion_operator(bm[None], 2 * bm[None], Ds)
        add([close_goal("att_iso%d %s %s" % (d, args(bm), rlit(Ds)), np.ravel(DL)[0]),
             close_goal("att_iso%d %s %s" % (d, args(2 * bm), rlit(Ds)), np.ravel(DT)[0])], "att_iso%d" % d, ("att_iso%d" % d,))
    # level (iii): the factors met in the correspondence runs are the generated exp(-b:D)
    for (d, i, which) in recorded:
        bm = d["b" + which][i]
        kd = bm.shape[-1]
        val = d["D" + which][i]
        args = " ".join(rlit(x) for x in bm.ravel())
        if isinstance(d["D"], float):
            add([close_goal("att_iso%d %s %s" % (kd, args, rlit(d["D"])), val)], "att_iso%d" % kd, ("recorded att_iso", which))
        else:
            add([close_goal("att_tensor%d %s %s" % (kd, args, " ".join(rlit(x) for x in np.ravel(d["D"]))), val)],
                "att_tensor%d" % kd, ("recorded att_tensor", which))
    return goals, meta


def run_tie(ctx, goals, meta):
    nsh = min(core.NPROC, max(1, len(goals) // 6))
    files = []
    for s in range(nsh):
        path = os.path.join(core.CASES, "%s_p%d_tie_%d.v" % (ctx.pid, os.getpid(), s))
        with open(path, "w") as f:
            f.write(TIE_HEADER + "\n".join(goals[s::nsh]) + "\n")
        files.append(path)
    res = core.coqc_many(files)
    ctx._case_files += files
    ok, fail = set(), set()
    for path in files:
        rc, out = res[path]
        if rc != 0:
            ctx.report("interval tie shard failed to compile", {"theorem_or_correspondence": "Interval tie of Gen/Diffusion.v", "coq_output": out[-1500:]}, found_input=False)
            continue
        ok |= {int(m) for m in re.findall(r"TIE-OK (\d+)", out)}
        fail |= {int(m) for m in re.findall(r"TIE-FAIL (\d+)", out)}
    bad = sorted((set(range(len(goals))) - ok) | fail)
    for i in bad[:5]:
        ctx.report("generated definition disagrees with the implementation at %s (translator or source changed meaning)" % (meta[i],),
                   {"theorem_or_correspondence": "Interval tie Gen/Diffusion.v", "point": meta[i]}, found_input=False)
    ctx.cov["interval_tie_points"] = len(ok)
    return len(ok), len(bad)


# ------------------------------------------------------------------ spec oracle (independent of epgpy)
GL_X = [-np.sqrt(3 / 5), 0.0, np.sqrt(3 / 5)]
GL_W = [5 / 9, 8 / 9, 5 / 9]


def rf_matrix(alpha, phi):
    """textbook EPG transition matrix in the (F+, F-, Z) basis (Weigel 2015, eq. 15), angles in degrees"""
    a, p = np.deg2rad(alpha), np.deg2rad(phi)
    return np.array([[np.cos(a / 2) ** 2, np.exp(2j * p) * np.sin(a / 2) ** 2, -1j * np.exp(1j * p) * np.sin(a)],
                     [np.exp(-2j * p) * np.sin(a / 2) ** 2, np.cos(a / 2) ** 2, 1j * np.exp(-1j * p) * np.sin(a)],
                     [-0.5j * np.exp(-1j * p) * np.sin(a), 0.5j * np.exp(1j * p) * np.sin(a), np.cos(a)]])


def bD_quadrature(tau_ms, q1, q2, D):
    """int_0^T q(t)^T D q(t) dt, q ramping linearly q1 -> q2 (rad/m), T = tau_ms; SI conversion ms -> s, rad/m -> rad/mm;
    3-point Gauss-Legendre (exact for the quadratic integrand)"""
    T = tau_ms / 1000.0
    q1, q2 = np.asarray(q1, float) / 1000.0, np.asarray(q2, float) / 1000.0
    Dm = np.eye(len(q1)) * D if isinstance(D, float) else np.asarray(D, float)
    tot = 0.0
    for x, w in zip(GL_X, GL_W):
        t = (x + 1) / 2
        qt = q1 + (q2 - q1) * t
        tot += w * float(qt @ Dm @ qt)
    return tot * T / 2


def pathway_oracle(case, specs):
    """explicit enumeration: one term per choice of component after each RF pulse; returns {coords tuple: [F+, F-, Z]}"""
    kdim = MODES[case["mode"]][1]
    kv = kvv(case)
    npulse = sum(1 for sp in specs if sp["op"] == "T")
    out = {}
    for path in itertools.product((0, 1, 2), repeat=npulse):
        amp = 1.0 + 0j
        c = 2                                     # equilibrium: Z
        k = tuple(F(0) for _ in range(kdim))      # array index / coordinate of the state holding the pathway
        kprev = k
        j = 0
        for sp in specs:
            if sp["op"] == "T":
                amp *= rf_matrix(sp["alpha"], sp["phi"])[path[j], c]
                c = path[j]
                j += 1
                if amp == 0:
                    break
            elif sp["op"] == "S":
                sh = kvec(case, sp["k"])
                sgn = {0: 1, 1: -1, 2: 0}[c]
                kprev = k
                k = tuple(a + sgn * F(b) for a, b in zip(k, sh))
            else:
                # physical wavenumber of the magnetisation: F-(k) is the conjugate of order -k
                s = -1 if c == 1 else 1
                q2 = [s * float(x) * v for x, v in zip(k, kv)]
                q1 = q2 if sp["k"] is None else [s * float(x) * v for x, v in zip(kprev, kv)]
                amp *= np.exp(-bD_quadrature(sp["tau"], q1, q2, sp["D"]))
        else:
            out.setdefault(k, [0j, 0j, 0j])[c] += amp
    return out


def entry_disagrees(case, specs, final, coords):
    """one batch entry (final: nstate x 3) against the pathway sum of its own scalar sequence"""
    ref = pathway_oracle(case, specs)
    ns = final.shape[0]
    n = (ns - 1) // 2
    kdim = MODES[case["mode"]][1]
    impl = {}
    g = case["kgrid"]
    off = case["mode"] == "3d-float-off"
    exact = {}
    if g and off:
        # off-grid float wavenumbers: states are identified by their grid cell (distinct by construction); the stored
        # wavenumber itself must be the pathway's wavenumber, not the grid node
        cell = lambda k: tuple(F(round(float(x) * v / g)) for x, v in zip(k, kvv(case)))
        exact = {cell(k): [float(x) * v for x, v in zip(k, kvv(case))] for k in ref}
        if len(exact) != len(ref):
            raise RuntimeError("generator produced two pathways' wavenumbers in one grid cell")
        ref = {cell(k): a for k, a in ref.items()}
    elif g:     # gridded back-end: stored coordinates are binary64 multiples of the grid step; identify states by grid index
        ref = {tuple(x * F(v) / F(g) for x, v in zip(k, kvv(case))): a for k, a in ref.items()}      # wavenumber = coordinate * kvalue
        if any(x.denominator != 1 for k in ref for x in k):
            raise RuntimeError("generator produced an off-grid shift")
    # CONTENT per coordinate: rows whose three amplitudes are exactly zero are empty (the gridded / merging back-ends
    # may leave such rows behind, with any coordinate, e.g. wavenumber 0); the amplitudes of non-empty rows sharing a
    # coordinate are summed (same Fourier content)
    dup = set()
    for i in range(ns):
        if not np.any(final[i] != 0):
            continue
        if coords is None:
            key = (F(i - n),) + tuple(F(0) for _ in range(kdim - 1))
        elif g:
            onr = [float(x) * v / g for x, v in zip(coords[i], kvv(case))]
            key = tuple(F(round(x)) for x in onr)
            if off:
                want = exact.get(key)
                have = [float(x) * v for x, v in zip(coords[i], kvv(case))]
                if want is not None and max(abs(a - b) for a, b in zip(have, want)) > 1e-6 * (1 + max(abs(b) for b in want)):
                    return "the non-empty state in grid cell %s carries the wavenumber %s, its pathways have %s" % (tuple(int(x) for x in key), have, want)
            elif max(abs(x - round(x)) for x in onr) > 1e-6:
                return "stored coordinate %s of a non-empty state is not on the grid" % (coords[i],)
        else:
            key = tuple(F(float(x)) for x in coords[i])
        key = key + tuple(F(0) for _ in range(kdim - len(key)))
        if key in impl:
            dup.add(key)
            impl[key] = impl[key] + np.asarray(final[i], complex)
        else:
            impl[key] = np.asarray(final[i], complex)
    scale = 1 + max([np.abs(v).max() for v in ref.values()] + [0])
    worst, wkey = 0.0, None
    for key in set(ref) | set(impl):
        a = np.asarray(impl.get(key, [0, 0, 0]), complex)
        b = np.asarray(ref.get(key, [0, 0, 0]), complex)
        e = np.abs(a - b).max()
        if e > worst:
            worst, wkey = e, key
    if worst > 1e-9 * scale:
        return "max |state - sum over pathways| = %.3g at %s %s%s" % (
            worst, "grid cell" if off else "coordinates", tuple(str(x) for x in wkey),
            " (several non-empty stored states share these coordinates; their sum was compared)" if wkey in dup else "")
    return None


def batch_entries(case, specs, shape_found):
    """[(index into the found array, index into the case's batch axes)] or a description of a shape mismatch"""
    want = batch_shape(case, specs)
    found = tuple(shape_found)
    if int(np.prod(want)) == 1 and int(np.prod(found)) == 1:
        return [((0,) * len(found), (0,) * len(want))]
    if found != want:
        return "batch shape %s, expected %s" % (found, want)
    return [(idx, idx) for idx in np.ndindex(*want)]


def oracle_disagrees(case, specs, final, coords):
    """every batch entry against its own pathway model"""
    ents = batch_entries(case, specs, final.shape[:-2])
    if isinstance(ents, str):
        return "state matrix has " + ents
    for fidx, cidx in ents:
        why = entry_disagrees(case, specs_at(specs, cidx), final[fidx], coords)
        if why:
            return why + (" [batch entry %s of %s]" % (cidx, batch_shape(case, specs)) if len(ents) > 1 else "")
    return None


def simulate_F0(case, objs):
    import epgpy as epg
    opts = {"kvalue": kvalue_arg(case)}
    if case["kgrid"]:
        opts["kgrid"] = case["kgrid"]
    f0, z0 = epg.simulate(list(objs) + [epg.ADC], probe=["F0", "Z0"], **opts)
    return np.asarray(f0)[0], np.asarray(z0)[0]          # one ADC: drop its axis, keep the batch axes


def simulate_disagrees(case, specs, objs, label):
    zero = tuple(F(0) for _ in range(MODES[case["mode"]][1]))
    f0, z0 = simulate_F0(case, objs)
    ents = batch_entries(case, specs, np.shape(f0))
    if isinstance(ents, str):
        return "%s: simulate() returns " % label + ents
    for fidx, cidx in ents:
        r0 = pathway_oracle(case, specs_at(specs, cidx)).get(zero, [0j, 0j, 0j])
        e = max(abs(complex(f0[fidx]) - r0[0]), abs(complex(z0[fidx]) - r0[2]))
        if e > 1e-9 * (1 + abs(r0[0]) + abs(r0[2])):
            return "%s: simulate() F0/Z0 differ from the pathway sum by %.3g%s" % (label, e, " [batch entry %s]" % (cidx,) if len(ents) > 1 else "")
    return None


def exercise(case, on_d=None):
    """run one case on the implementation the way a user would: one pool of operator objects; sequence 1 operator by
    operator, simulate() (twice), then sequence 2 on the SAME objects; every result against the pathway oracle;
    finally the operators' instance attributes against their values at construction.
    Returns (list of discrepancy strings, list of attribute mutations)."""
    pool = Pool(case)
    problems = []
    for label, specs in (("sequence 1", case["ops"]), ("sequence 2 (same operator objects)", case.get("ops2"))):
        if not specs:
            continue
        objs = pool.sequence(specs)
        ds, final, coords = run_impl(case, specs, objs)
        if on_d:
            on_d(ds)
        why = oracle_disagrees(case, specs, final, coords)
        if why:
            problems.append("%s, operator by operator: %s" % (label, why))
        for rep in range(2 if case.get("twice") else 1):
            why = simulate_disagrees(case, specs, objs, "%s, simulate() call %d" % (label, rep + 1))
            if why:
                problems.append(why)
    muts = [(sp, ch) for sp, ch in pool.mutated() if sp["op"] == "D"]
    return problems, muts


def sig(case):
    return {"mode": case["mode"], "npulse": sum(1 for sp in case["ops"] if sp["op"] == "T"), "share": case["share"], "batch": case.get("batch"),
            "twice": case["twice"], "tau_form": case.get("tau_form", "float"), "second_sequence": case["ops2"] is not None,
            "D": sorted({"scalar" if isinstance(sp["D"], float) else "tensor" for sp in case["ops"] if sp["op"] == "D"})}


# ------------------------------------------------------------------ main
def run(ctx):
    proved = ctx.prove(gen=True)
    quick = ctx.tier == "quick"
    ncase = 75 if quick else 1200
    terms, owners, recorded = [], [], []
    dist = {}
    oracle_bad = set()
    attstat = {"total": 0, "in(0.01,0.99)": 0, ">1": 0}
    reuse = {"cases_sharing_objects": 0, "max_applications_of_one_D_object": 0, "second_sequence": 0, "simulate_twice": 0}
    noracle = nunobs = 0
    mut_reports = []
    for ci in range(ncase):
        case = gen_case(ctx.rng, quick)
        unobs = []

        def on_d(ds, case=case, unobs=unobs):
            for d in ds:
                if d["unobs"]:
                    unobs.append(d)
                    continue
                terms.append(corr_term(case, d))
                owners.append(case)
                if len(recorded) < (24 if quick else 200) and ctx.rng.random() < 0.2:
                    recorded.append((d, ctx.rng.randrange(len(d["DL"])), ctx.rng.choice(["L", "T"])))
                for x in list(np.ravel(d["DT"])) + list(np.ravel(d["DL"])):
                    attstat["total"] += 1
                    attstat["in(0.01,0.99)"] += 0.01 < float(np.real(x)) < 0.99
                    attstat[">1"] += float(np.real(x)) > 1
        try:
            problems, muts = exercise(case, on_d)
        except Exception as e:
            ctx.report("implementation raised %s on a valid sequence: %s" % (type(e).__name__, str(e)[:200]), {"case": case},
                       found_input=True, signature={"raises": type(e).__name__, "mode": case["mode"]})
            continue
        key = "%s/%d" % (case["mode"], sig(case)["npulse"])
        dist[key] = dist.get(key, 0) + 1
        if case["share"]:
            reuse["cases_sharing_objects"] += 1
            cnt = {}
            for sp in case["ops"] + (case["ops2"] or []):
                if sp["op"] == "D":
                    cnt[repr(sp)] = cnt.get(repr(sp), 0) + 1
            reuse["max_applications_of_one_D_object"] = max([reuse["max_applications_of_one_D_object"]] + list(cnt.values()))
        reuse["second_sequence"] += case["ops2"] is not None
        reuse["tau_" + case["tau_form"]] = reuse.get("tau_" + case["tau_form"], 0) + 1
        reuse["simulate_twice"] += bool(case["twice"])
        ctx.count(case, nontrivial=sig(case)["npulse"] >= 2)
        ctx.sample({"case": sig(case), "kvalue": case["kvalue"], "nops": len(case["ops"])})
        reuse["batched"] = reuse.get("batched", 0) + bool(case.get("batch"))
        reuse["vector_kvalue"] = reuse.get("vector_kvalue", 0) + isinstance(case["kvalue"], list)
        reuse["scalar_k_on_nd_mode"] = reuse.get("scalar_k_on_nd_mode", 0) + (case["mode"] != "1d" and any(isinstance(sp.get("k"), int) for sp in case["ops"]))
        noracle += 1
        # spec oracle: supporting evidence and failing-input search in one
        if problems:
            oracle_bad.add(id(case))
            ctx.report("states differ from the explicit sum over coherence pathways with exp(-int k^T D k dt): " + "; ".join(problems[:3]),
                       {"case": case, "discrepancies": problems}, found_input=True,
                       signature={"oracle": "pathway-sum", "mode": case["mode"], "shared_objects": case["share"]})
        if muts:
            mut_reports.append((case, muts))
        if unobs:
            nunobs += len(unobs)
            if id(case) not in oracle_bad and not muts:
                ctx.report("a D application did not compute its factors through compute_bmatrix / diffusion_operator: the b-matrix correspondence cannot be checked for it",
                           {"case": case, "theorem_or_correspondence": "C05 correspondence Model/Diffusion.v vs epgpy.diffusion.D._apply"}, found_input=False)
    # operator-instance mutations: reported after the numerical discrepancies (at most 5 replay files)
    for case, muts in mut_reports[:5]:
        attrs = sorted({a for _, ch in muts for a in ch})
        ctx.report("applying a D operator changed its instance attributes %s (operators must be reusable: the result may now depend on the call history); %d of %d cases" % (attrs, len(mut_reports), noracle),
                   {"case": case, "mutated": [{"spec": sp, "attributes": ch} for sp, ch in muts]}, found_input=True,
                   signature={"mutates": "D", "attributes": attrs})
    ctx.cov["D_instance_mutations"] = len(mut_reports)
    ctx.cov["oracle_runs"] = noracle
    ctx.notes["case_distribution"] = dist
    ctx.notes["attenuation_factors"] = attstat
    ctx.notes["operator_reuse"] = reuse
    ctx.cov["unobservable_D_applications"] = nunobs
    verdicts, errors = ctx.run_bool_cases("corr", CORR_HEADER, terms, chunk=12)
    for e in errors:
        ctx.report("correspondence shard failed to evaluate", {"theorem_or_correspondence": "C05 correspondence (Cases)", "coq_output": e}, found_input=False)
    nviol = len(ctx.violations)
    nbad = 0
    for case, v in zip(owners, verdicts):
        if v is False:
            nbad += 1
            if len(ctx.violations) == nviol and id(case) not in oracle_bad:
                ctx.report("Model/Diffusion.v and D._apply disagree (b-matrices from (k - shift -> k) / state update) on a sequence for which the pathway oracle saw no discrepancy",
                           {"case": case, "theorem_or_correspondence": "C05 correspondence Model/Diffusion.v vs epgpy.diffusion.D._apply"}, found_input=False)
    ctx.cov["correspondence_D_applications"] = len(terms)
    ctx.cov["correspondence_disagreements"] = nbad
    goals, meta = tie_goals(ctx, 6 if quick else 60, recorded)
    nok, nfail = run_tie(ctx, goals, meta)
    ctx.cov["trusted_base"] += [
        "translator /verif/translator/diffusion_tables.py (symex subclass: Python ast of compute_bmatrix / diffusion_operator -> Gen/Diffusion.v), validated by the Interval tie at %d goals" % nok,
        "hand-written model Model/Diffusion.v (D._apply structure; sm.k = coords * kvalue; shift = self.k * kvalue) tied to epgpy by correspondence: b-matrices 1e-12 relative, states 1e-9 relative, on %d D applications" % len(terms),
        "observation of the b-matrices by wrapping epgpy.diffusion.diffusion_operator at run time",
        "the n-D / gridded shift back-ends are NOT modelled here (C04): the correspondence takes the coordinates they produce as input",
        "Coquelicot + Interval libraries; axioms as printed by Print Assumptions (classical reals, functional extensionality, classic)"]
    ctx.notes["tensor_D_before_first_shift"] = probe_fresh_tensor()
    ctx.notes["regression_witnesses"] = run_witnesses(ctx)
    if not proved and not ctx.violations:
        ctx.report("proof obligations of C05 no longer check: %s" % ctx.failed_obligations,
                   {"theorem_or_correspondence": ctx.failed_obligations}, found_input=False)
    elif not proved:
        ctx.notes["failed_obligations_with_failing_input"] = ctx.failed_obligations


def probe_fresh_tensor():
    """record: a 3x3 tensor D in a gradient-free interval BEFORE the first 3-D shift (accepted since fix ea71fde; the
    generator produces such sequences and the oracle judges them)"""
    import epgpy as epg
    Dt = np.diag([1e-3, 2e-3, 3e-3])
    seq = [epg.T(90, 0), epg.D(10.0, Dt), epg.S(np.array([1, 0, 2])), epg.D(10.0, Dt, np.array([1, 0, 2])), epg.ADC]
    try:
        epg.simulate(seq, kvalue=2e4)
        return "accepted"
    except Exception as e:
        return "raises %s: %s" % (type(e).__name__, e)


def run_witnesses(ctx):
    """checked regression witnesses of fixed findings: spin echoes whose amplitude must be exp(-2 tau |k|^2 D / 3)
    (two ramps 0 -> k and k -> 0); a mismatch or an exception is a violation with this input.
    scalar_k_on_nd_coordinates (/repo 24c5294): a scalar k acts along the first axis of 3-D coordinates;
    per_axis_kvalue (/repo f25d8fb): a per-axis kvalue is sliced to the wavenumber dimension of the state matrix."""
    import epgpy as epg
    tau, T, S, D = 10.0, epg.T, epg.S, epg.D
    Dt, I3 = np.diag([1e-3, 2e-3, 3e-3]), np.diag([1e-3, 1e-3, 1e-3])
    kv3 = np.array([1e4, 2e4, 4e4])
    a11 = np.array([1, 1])
    wits = [
        ("scalar_k_on_nd_coordinates", "scalar D after a tensor interval", "[T(90,0), D(1.0, diag(1e-3,1e-3,1e-3)), S(1), D(10.0, 1e-3, 1), T(180,0), S(1), D(10.0, 1e-3, 1), ADC], kvalue=4e4",
         lambda: [T(90, 0), D(1.0, I3), S(1), D(tau, 1e-3, 1), T(180, 0), S(1), D(tau, 1e-3, 1)], 4e4, 40.0 ** 2),
        ("scalar_k_on_nd_coordinates", "tensor D", "[T(90,0), S(1), D(10.0, diag(1e-3,2e-3,3e-3), 1), T(180,0), S(1), D(10.0, diag(1e-3,2e-3,3e-3), 1), ADC], kvalue=4e4",
         lambda: [T(90, 0), S(1), D(tau, Dt, 1), T(180, 0), S(1), D(tau, Dt, 1)], 4e4, 40.0 ** 2),
        ("per_axis_kvalue", "1-D scalar shift, scalar D, scalar k", "[T(90,0), S(2), D(10.0, 1e-3, 2), T(180,0), S(2), D(10.0, 1e-3, 2), ADC], kvalue=array([1e4,2e4,4e4])",
         lambda: [T(90, 0), S(2), D(tau, 1e-3, 2), T(180, 0), S(2), D(tau, 1e-3, 2)], kv3, 20.0 ** 2),
        ("per_axis_kvalue", "2-D vector k", "[T(90,0), S([1,1]), D(10.0, 1e-3, [1,1]), T(180,0), S([1,1]), D(10.0, 1e-3, [1,1]), ADC], kvalue=array([1e4,2e4,4e4])",
         lambda: [T(90, 0), S(a11), D(tau, 1e-3, a11), T(180, 0), S(a11), D(tau, 1e-3, a11)], kv3, 10.0 ** 2 + 20.0 ** 2),
    ]
    out = {}
    for group, name, text, build, kv, k2 in wits:
        exp = float(np.exp(-2 * tau * 1e-3 * k2 * 1e-3 / 3))        # |k|^2 in (rad/mm)^2, D = 1e-3 mm^2/s along k
        try:
            got = abs(complex(np.ravel(epg.simulate(build() + [epg.ADC], kvalue=kv))[0]))
            ok, desc = abs(got - exp) < 1e-9, "|F0| = %.10f" % got
        except Exception as e:
            ok, desc = False, "raises %s: %s" % (type(e).__name__, e)
        out.setdefault(group, {})[name] = {"simulate": desc, "pathway_integral": exp, "agree": bool(ok)}
        if not ok:
            ctx.report("%s (%s): simulate(%s) gives %s, the pathway integral exp(-2 tau |k|^2 D/3) is %.10f" % (group, name, text, desc, exp),
                       {"witness": name, "group": group, "sequence": text, "expected": exp, "got": desc},
                       found_input=True, signature={"witness": group})
    return out


def replay(ctx, rp):
    if "witness" in rp:
        out = run_witnesses(ctx)
        bad = ["%s/%s: %s" % (g, k, v["simulate"]) for g, d in out.items() for k, v in d.items() if not v["agree"]]
        print("replay:", ("witnesses failing: %s" % bad) if bad else "witnesses agree with the pathway integral")
        return 1 if bad else 0
    if "case" in rp:
        case = rp["case"]
        try:
            problems, muts = exercise(case)
            why = "; ".join(problems + ["D operator attributes changed: %s" % ch for _, ch in muts])
        except Exception as e:
            why = "raised %s: %s" % (type(e).__name__, e)
        print("replay:", why or "no discrepancy with the pathway-sum oracle, operators unchanged")
        return 1 if why else 0
    print("replay: not an input replay (%s)" % rp.get("what"))
    return 1
