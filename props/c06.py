"""C06 — Exchange operator solves the Bloch-McConnell equations between compartments.

Proof obligations: Props/C06.v (partial by design: the matrix exponential is an oracle, see is_expm).
Ties to /repo:
 (a) exact structural correspondence, evaluated inside Coq (vm_compute, Gaussian rationals):
     a1 X._apply with dyadic matrices injected as op.mat (axis bookkeeping, broadcasting, guards),
     a2 exchange_operator with expm replaced by the identity (generators Xi*tau, conj, stacking, axis moves),
     a3 constructor guards, a4 exchange_matrix.
 (b) VALIDATION of the oracle hypotheses on exchange.expm (numerical, not a proof).
 (c) property-level oracle on the real operator (random testing: failing-input search + supporting evidence).
 (d) rejection cases.
"""
import itertools
from fractions import Fraction
import numpy as np
from vlib import core

HEADER = """From Coq Require Import List ZArith QArith Qcanon Bool.
From EPG Require Import Scalar QI State Exchange.
Import ListNotations.
Open Scope nat_scope.
"""
PI_F = Fraction(*float(np.pi).as_integer_ratio())
TWOPII = core.qi_frac(0, 2 * PI_F)


# ---------------------------------------------------------------- Gallina printers
def nlist(l):
    return "[" + "; ".join("%d" % int(x) for x in l) + "]"


def qlist(a):
    return core.clist([core.qi(z) for z in np.asarray(a).ravel().tolist()])


def arr(a):
    a = np.asarray(a)
    return "(%s, %s)" % (nlist(a.shape), qlist(a))


def oarr(a):
    """array of times: inf -> None"""
    a = np.asarray(a, float)
    items = ["None" if np.isinf(x) else "(Some %s)" % core.qi(x) for x in a.ravel().tolist()]
    return "(%s, %s)" % (nlist(a.shape), core.clist(items))


def dy(rng, den=4, lim=4, cplx=True):
    re = rng.randint(-lim, lim) / den
    im = rng.randint(-lim, lim) / den if cplx else 0.0
    return complex(re, im)


def dyarr(rng, shape, den=4, lim=4, cplx=True):
    n = int(np.prod(shape)) if len(shape) else 1
    return np.array([dy(rng, den, lim, cplx) for _ in range(n)], dtype=complex).reshape(shape)


# ---------------------------------------------------------------- kinetic matrices
def kinetic(rng, N, dens, conserving=True, den=4):
    """K = W D^-1 (columns sum to zero); W symmetric <=> K.dens = 0.  dens: powers of two."""
    W = np.zeros((N, N))
    for i in range(N):
        for j in range(i + 1, N):
            W[i, j] = W[j, i] = rng.randint(0, 3) / den
    if not conserving:
        i, j = rng.sample(range(N), 2)
        W[i, j] += 0.5
    K = np.zeros((N, N))
    for j in range(N):
        for i in range(N):
            if i != j:
                K[i, j] = -W[i, j] / dens[j]
        K[j, j] = -sum(K[i, j] for i in range(N) if i != j)
    return K


def batched_khi(rng, N, dens, shape, ax, conserving=True, p_batch=0.5, kin=None):
    """kinetic-matrix array in the layout documented by exchange_matrix: batch axes (a left-aligned prefix of `shape`,
    each either the full size or 1) with the compartment axis at `ax`, plus the trailing compartment axis.
    Every member conserves `dens`; with conserving=False exactly one member does not."""
    kin = kin or (lambda cons: kinetic(rng, N, dens, cons))
    nk = rng.randint(ax + 1, len(shape))
    kshape = [N if d == ax else (shape[d] if rng.random() < p_batch else 1) for d in range(nk)]
    big = [d for d in range(len(shape)) if d != ax and shape[d] > 1]
    if big and all(kshape[d] == 1 for d in range(nk) if d != ax):
        d = rng.choice(big)               # at least one genuine batch axis whenever the shape has one
        kshape += [1] * (d + 1 - nk)
        nk = len(kshape)
        kshape[d] = shape[d]
    khi = np.zeros(kshape + [N])
    idxs = list(itertools.product(*[range(kshape[d]) for d in range(nk) if d != ax]))
    badi = rng.randrange(len(idxs)) if not conserving else -1
    for n, b in enumerate(idxs):
        K = kin(n != badi)
        for i in range(N):
            khi[b[:ax] + (i,) + b[ax:]] = K[i]
    return khi


def prefix_array(rng, vals, shape, ax=None, unit_at_ax=False):
    """parameter array of LOWER OR EQUAL rank than the batch: its axes are a left-aligned prefix of `shape`
    (append semantics), each of full size or 1 -- e.g. a plain vector of shape[0] values for axis >= 1"""
    r = rng.randint(1, len(shape))
    dims = [shape[d] if rng.random() < 0.75 else 1 for d in range(r)]
    if unit_at_ax and ax is not None and ax < r:
        dims[ax] = 1
    return np.array([rng.choice(vals) for _ in range(int(np.prod(dims)))]).reshape(dims).tolist()


def lshape(*shapes):
    """left-aligned broadcast of shapes (the package's append semantics)"""
    return list(np.broadcast_shapes(*[tuple(reversed(tuple(x))) for x in shapes]))[::-1]


class ShapeDefect(Exception):
    pass


# ---------------------------------------------------------------- (a1) X._apply with injected mat
def gen_apply_case(rng):
    import epgpy as epg
    from epgpy import exchange as ex
    ndim_op = rng.choice([1, 2, 2, 3, 3])
    ax = rng.randrange(ndim_op)
    N = rng.choice([2, 2, 3])
    opshape = [rng.choice([1, 2, 3, 3]) for _ in range(ndim_op)]
    opshape[ax] = N
    while np.prod(opshape) > 12:
        opshape[rng.choice([d for d in range(ndim_op) if d != ax])] = 1
    # state shape: left-aligned broadcastable with the operator shape
    nd_sm = rng.choice([max(1, ndim_op - 1), ndim_op, ndim_op, ndim_op + 1])
    smshape = []
    for d in range(nd_sm):
        if d == ax:
            smshape.append(rng.choice([N, N, N, 1]))
        elif d < ndim_op:
            smshape.append(rng.choice([opshape[d], opshape[d], 1]) if opshape[d] > 1 else rng.choice([1, 1, 2]))
        else:
            smshape.append(rng.choice([1, 2]))
    equal_dens = (ax >= nd_sm) or smshape[ax] == 1 or rng.random() < 0.3
    d0 = rng.choice([0.5, 1.0, 2.0])
    dens = [d0] * N if equal_dens else [rng.choice([0.5, 1.0, 2.0, 4.0]) for _ in range(N)]
    conserving = rng.random() < 0.8
    tau_shape = list(opshape)
    tau_shape[ax] = 1
    tau = np.full(tau_shape, 1.0) if ndim_op > 1 else 1.0
    if rng.random() < 0.65:
        # batched kinetic matrix: exchange axis first / in the middle / last, fewer axes than the operator
        khi = batched_khi(rng, N, dens, opshape, ax, conserving)
    else:
        khi = kinetic(rng, N, dens, conserving)[(None,) * ax]
    K = khi
    ns = rng.choice([1, 3])
    return {"kind": "apply", "ax": ax, "N": N, "opshape": opshape, "smshape": smshape, "dens": dens, "K": K.tolist(),
            "khi_shape": list(khi.shape), "tau_shape": tau_shape if ndim_op > 1 else [], "ns": ns,
            "conserving": conserving, "seed": rng.randrange(1 << 30)}


def run_apply_case(c):
    import random
    import epgpy as epg
    from epgpy import exchange as ex
    rng = random.Random(c["seed"])
    ax, N = c["ax"], c["N"]
    khi = np.array(c["K"]).reshape(c["khi_shape"])
    tau = np.ones(c["tau_shape"]) if c["tau_shape"] else 1.0
    op = ex.X(tau, khi, axis=ax)
    if list(op.shape) != c["opshape"]:
        raise ShapeDefect("operator shape %s, expected the left-aligned broadcast of tau and the khi batch axes %s" % (tuple(op.shape), tuple(c["opshape"])))
    mat = dyarr(rng, op.mat.shape)
    op.mat = mat
    smshape = tuple(c["smshape"])
    st = dyarr(rng, smshape + (c["ns"], 3), den=4, lim=8)
    dens = np.ones(smshape)
    if ax < len(smshape) and smshape[ax] == N:
        dens = dens * np.array(c["dens"]).reshape([N if d == ax else 1 for d in range(len(smshape))])
    else:
        dens = dens * c["dens"][0]
    sm0 = epg.StateMatrix(st, density=dens, check=False)
    sm1 = op.prepare(sm0)
    pre = {"shape": list(sm1.shape), "st": np.array(sm1.states), "eq": np.array(sm1.equilibrium),
           "dens": np.broadcast_to(np.asarray(sm1.density, float), sm1.shape).copy()}
    try:
        out = op._apply(sm1)
        code, oshape, obs = 0, list(out.shape), np.array(out.states)
        # public entry point gives the same
        out2 = op(sm0)
        if not (np.array(out2.states) == obs).all():
            code = -1
    except RuntimeError as e:
        code = 1 if "conserve" in str(e) else 2
        oshape, obs = [], np.zeros(0)
    return op, pre, code, oshape, obs, mat


def apply_oracle(c):
    """spec side of the X._apply correspondence, in numpy, fibre by fibre: guard (khi . density = 0 for every member of the
    batch) and mat . (states - equilibrium) + equilibrium.  Returns None or a description of the failing input."""
    op, pre, code, oshape, obs, mat = run_apply_case(c)
    ax, N = op.axis, c["N"]
    khi = np.asarray(op.khi, float)
    shp = list(np.broadcast_shapes(*[tuple(reversed(x)) for x in (khi.shape[:-1], tuple(pre["shape"]), tuple(op.shape))]))[::-1]
    shp[ax] = N
    bad = False
    for b in itertools.product(*[range(d) for i, d in enumerate(shp) if i != ax]):
        full = lambda i: b[:ax] + (i,) + b[ax:]
        K = np.array([[float(lget(khi[..., j], full(i))) for j in range(N)] for i in range(N)])
        d = np.array([float(lget(pre["dens"], full(i))) for i in range(N)])
        if np.abs(K @ d).max() > 1e-8:
            bad = True
    if bad and code == 0:
        return "a kinetic matrix (batch member) with khi . density != 0 is accepted by X._apply"
    if not bad and code == 1:
        return "a conserving kinetic matrix is rejected by X._apply"
    if code != 0:
        return None
    if list(oshape) != shp:
        return "result shape %s, expected the broadcast %s" % (tuple(oshape), tuple(shp))
    eq = np.broadcast_to(pre["eq"], pre["st"].shape)
    for b in itertools.product(*[range(d) for i, d in enumerate(shp) if i != ax]):
        full = lambda i: b[:ax] + (i,) + b[ax:]
        st = np.array([lget(pre["st"], full(i)) for i in range(N)])
        e = np.array([lget(eq, full(i)) for i in range(N)])
        M = np.array([[lget(mat, (b[:ax] + (i, j) + b[ax:])[:mat.ndim - 1]) for j in range(N)] for i in range(N)])     # (i, j, 3)
        ref = np.einsum("ijc,jkc->ikc", M, st - e) + e
        got = np.array([obs[full(i)] for i in range(N)])
        if np.abs(ref - got).max() > 0:
            return "X._apply with matrix M differs from M (states - equilibrium) + equilibrium at batch index %s by %.3g" % (b, np.abs(ref - got).max())
    return None


def apply_term(c, op, pre, code, oshape, obs, mat):
    o = "(mkX QIops %d %s %s %s)" % (op.axis, nlist(op.shape), qlist(mat), arr(np.asarray(op.khi, float)))
    s = "(mkSMN QIops %s %d %s %s %s)" % (nlist(pre["shape"]), pre["st"].shape[-2], qlist(pre["st"]), arr(pre["eq"]), qlist(pre["dens"]))
    return "(x_apply_ok QIops %s %s %d %s %s)" % (o, s, code, nlist(oshape), qlist(obs))


# ---------------------------------------------------------------- (a2) generators (expm := identity)
def gen_generator_case(rng):
    ndim = rng.choice([1, 2, 2, 3, 3])
    ax = rng.randrange(ndim)
    N = rng.choice([2, 2, 3])
    shape = [rng.choice([1, 2, 2, 3]) for _ in range(ndim)]
    shape[ax] = N
    if ndim > 1 and rng.random() < 0.5:
        shape[rng.choice([d for d in range(ndim) if d != ax])] = N      # a batch length that coincides with ncomp
    while np.prod(shape) > 12:
        shape[rng.choice([d for d in range(ndim) if d != ax and shape[d] > 1])] -= 1
    dens = [rng.choice([0.5, 1.0, 2.0]) for _ in range(N)]
    K = kinetic(rng, N, dens, True)
    if rng.random() < 0.65:
        khi = batched_khi(rng, N, dens, shape, ax, True, p_batch=0.7)
    else:
        khi = K[(None,) * ax]

    def par(vals, allow_none=True):
        mode = rng.choice(["none", "scalar", "comp", "batch", "prefix", "prefix"] if allow_none else ["scalar", "comp", "batch", "prefix"])
        if mode == "none":
            return None
        if mode == "scalar":
            return rng.choice(vals)
        if mode == "prefix":
            return prefix_array(rng, vals, shape, ax)
        if mode == "comp":
            return np.array([rng.choice(vals) for _ in range(N)]).reshape([1] * ax + [N]).tolist()
        return np.array([rng.choice(vals) for _ in range(int(np.prod(shape)))]).reshape(shape).tolist()
    T = [0.5, 1.0, 2.0, 4.0, float("inf")]
    G = [0.0, 0.5, -0.5, 1.0, -2.0, 0.25]
    tshape = list(shape)
    tshape[ax] = 1
    tau_mode = rng.choice(["scalar", "batch", "prefix"])
    tau = rng.choice([0.5, 1.0, 2.0]) if tau_mode == "scalar" else prefix_array(rng, [0.5, 1.0, 2.0, 4.0], shape, ax) if tau_mode == "prefix" else \
        np.array([rng.choice([0.5, 1.0, 2.0, 4.0]) for _ in range(int(np.prod(tshape)))]).reshape(tshape).tolist()
    return {"kind": "generator", "ax": ax, "khi": khi.tolist(), "tau": tau, "T1": par(T), "T2": par(T), "g": par(G)}


def run_generator_case(c):
    from epgpy import exchange as ex
    saved = ex.expm
    ex.expm = lambda m: m          # the generator handed to expm becomes observable
    try:
        mat = ex.exchange_operator(c["tau"], np.array(c["khi"]), axis=c["ax"], T1=c["T1"], T2=c["T2"], g=c["g"])
    finally:
        ex.expm = saved
    return np.array(mat)


def generator_term(c, mat):
    def o(x):
        return oarr(np.inf if x is None else x)
    g = 0.0 if c["g"] is None else c["g"]
    return "(x_generator_ok QIops qi_inv %s %d %s %s %s %s %s %s %s)" % (
        TWOPII, c["ax"], arr(c["khi"]), arr(c["tau"]), o(c["T1"]), o(c["T2"]), arr(g), nlist(mat.shape), qlist(mat))


# ---------------------------------------------------------------- (a3) guards, (a4) exchange_matrix
def gen_guard_case(rng):
    N = rng.choice([2, 3])
    lead = rng.choice([0, 0, 1])
    kind = rng.choice(["ok", "ok", "cols", "square", "ndim", "batched"])
    dens = [rng.choice([0.5, 1.0, 2.0]) for _ in range(N)]
    K = kinetic(rng, N, dens, rng.random() < 0.5)
    axis = lead if rng.random() < 0.5 else -1
    if kind == "ndim":
        return {"kind": "guard", "khi": [0.5, -0.5], "axis": rng.choice([0, -1])}
    if kind == "cols":
        K[rng.randrange(N), rng.randrange(N)] += 0.25
    if kind == "square":
        K = K[:, :N - 1] if rng.random() < 0.5 else np.concatenate([K, K[:1]], axis=0)
    khi = K[(None,) * lead]
    if kind == "batched":
        khi = np.stack([K, kinetic(rng, N, dens, True)])
        if rng.random() < 0.3:
            khi[1, 0, 0] += 0.5
        axis = rng.choice([1, -1])
    return {"kind": "guard", "khi": khi.tolist(), "axis": axis}


def run_guard_case(c):
    from epgpy import exchange as ex
    try:
        op = ex.X(1.0, np.array(c["khi"]), axis=c["axis"])
        return 0, op.axis
    except ValueError as e:
        m = str(e)
        return (1 if "at least 2D" in m else 2 if "square" in m else 3 if "sum to 0" in m else 9), 0


def guard_term(c, code, ax):
    a = np.array(c["khi"], float)
    return "(x_guard_ok QIops %s %s %s %d %d)" % (nlist(a.shape), qlist(a), core.zlit(c["axis"]) + "%Z", code, ax)


def gen_xm_case(rng):
    n = rng.choice([2, 3, 5])
    k = rng.choice([0.0, 0.25, 0.5, 1.0, 1.5, 3.0])
    dens = None if rng.random() < 0.5 else [rng.choice([0.5, 1.0, 2.0, 4.0]) for _ in range(n)]
    return {"kind": "xm", "n": n, "k": k, "dens": dens}


def xm_term(c):
    from epgpy import exchange as ex
    m = ex.exchange_matrix(c["k"], ncomp=c["n"], densities=c["dens"])
    d = "None" if c["dens"] is None else "(Some %s)" % qlist(c["dens"])
    return "(exchange_matrix_ok_b QIops qi_inv %s %d %s %s)" % (core.qi(c["k"]), c["n"], d, qlist(m))


# ---------------------------------------------------------------- (b) validation of the oracle hypotheses on exchange.expm
def cmatmul(A, B):
    n = len(A)
    out = [[(Fraction(0), Fraction(0)) for _ in range(n)] for _ in range(n)]
    for i in range(n):
        for j in range(n):
            re = im = Fraction(0)
            for l in range(n):
                a, b = A[i][l]
                c, d = B[l][j]
                re += a * c - b * d
                im += a * d + b * c
            out[i][j] = (re, im)
    return out


def taylor_expm(A, deg=30):
    """exact Taylor polynomial of degree deg with Fractions; A: complex ndarray with dyadic entries, norm <= 1"""
    n = A.shape[0]
    Af = [[(core.frac(A[i, j].real), core.frac(A[i, j].imag)) for j in range(n)] for i in range(n)]
    term = [[(Fraction(int(i == j)), Fraction(0)) for j in range(n)] for i in range(n)]
    acc = [row[:] for row in term]
    for k in range(1, deg + 1):
        term = cmatmul(term, Af)
        term = [[(x / k, y / k) for (x, y) in row] for row in term]
        acc = [[(acc[i][j][0] + term[i][j][0], acc[i][j][1] + term[i][j][1]) for j in range(n)] for i in range(n)]
    return np.array([[complex(float(x), float(y)) for (x, y) in row] for row in acc])


def ref_expm(A):
    """float reference for larger norms: scaling and squaring of a Taylor series"""
    A = np.asarray(A, complex)
    n = A.shape[-1]
    s = 10
    B = A / 2 ** s
    R = np.eye(n, dtype=complex)
    T = np.eye(n, dtype=complex)
    for k in range(1, 20):
        T = T @ B / k
        R = R + T
    for _ in range(s):
        R = R @ R
    return R


def validate_expm(ctx, n_cases):
    from epgpy import exchange as ex
    rng = ctx.rng
    stats = {"taylor": 0, "semigroup": 0, "identity0": 0, "diag": 0, "two_pool": 0, "deriv": 0, "max_err": 0.0}

    def bad(what, A, err, sig):
        ctx.report("oracle hypothesis not met by exchange.expm: %s (err %.3g)" % (what, err),
                   {"expm_case": {"what": what, "A_re": np.real(A).tolist(), "A_im": np.imag(A).tolist()}},
                   found_input=True, signature={"site": "expm", "why": sig})

    for it in range(n_cases):
        n = rng.choice([2, 2, 3])
        fam = rng.choice(["real", "complex", "symmetric", "hermitian", "generator", "generator"])
        if fam == "generator":
            dens = [rng.choice([0.5, 1.0, 2.0]) for _ in range(n)]
            A = (-kinetic(rng, n, dens, True, den=8) + np.diag([complex(-rng.randint(0, 4) / 16, rng.randint(-4, 4) / 16) for _ in range(n)]))
        else:
            A = dyarr(rng, (n, n), den=8, lim=2, cplx=fam in ("complex", "hermitian"))
            if fam == "symmetric":
                A = (A + A.T) / 2
            if fam == "hermitian":
                A = (A + A.T.conj()) / 2
        A = np.asarray(A, complex)
        if np.linalg.norm(A) > 1:
            A = A / 2
        ctx.count(("expm", fam, A.tolist()), nontrivial=True)
        # well-conditioned eigenbasis only (defective generators are probed separately)
        try:
            cond = np.linalg.cond(np.linalg.eig(A)[1])
        except Exception:
            cond = np.inf
        if cond > 1e3:
            continue
        E = ex.expm(A)
        ref = taylor_expm(A)
        err = np.abs(E - ref).max()
        stats["taylor"] += 1
        stats["max_err"] = max(stats["max_err"], float(err))
        if err > 1e-10:
            bad("expm(A) vs exact degree-30 Taylor polynomial", A, err, "taylor")
        s, t = rng.choice([0.5, 1.0, 2.0]), rng.choice([0.25, 1.0, 3.0])
        err = np.abs(ex.expm((s + t) * A) - ex.expm(s * A) @ ex.expm(t * A)).max()
        stats["semigroup"] += 1
        if err > 1e-10:
            bad("expm((s+t)A) = expm(sA) expm(tA)", A, err, "semigroup")
        err = np.abs(ex.expm(0 * A) - np.eye(n)).max()
        stats["identity0"] += 1
        if err > 0:
            bad("expm(0 A) = I", A, err, "identity0")
        h = 1e-4
        d = (ex.expm((t + h) * A) - ex.expm((t - h) * A)) / (2 * h)
        err = np.abs(d - A @ ex.expm(t * A)).max()
        stats["deriv"] += 1
        if err > 1e-6:
            bad("d/dt expm(tA) = A expm(tA) (central differences)", A, err, "deriv")
        dg = np.diag(np.diag(A))
        err = np.abs(ex.expm(t * dg) - np.diag(np.exp(t * np.diag(A)))).max()
        stats["diag"] += 1
        if err > 1e-12:
            bad("expm of a diagonal matrix is entry-wise", dg, err, "diag")
        kappa, tt = rng.choice([0.01, 0.1, 0.5, 2.0]), rng.choice([0.5, 2.0, 10.0])
        e = np.exp(-2 * kappa * tt)
        err = np.abs(ex.expm(-kappa * tt * np.array([[1, -1], [-1, 1.0]])) - 0.5 * np.array([[1 + e, 1 - e], [1 - e, 1 + e]])).max()
        stats["two_pool"] += 1
        if err > 1e-10:
            bad("two-pool closed form", -kappa * tt * np.array([[1, -1], [-1, 1.0]]), err, "two_pool")
    # batch with an all-zero member / all-zero batch (HEAD fix)
    Z = np.zeros((3, 2, 2))
    if ex.expm(Z).shape != (3, 2, 2) or np.abs(ex.expm(Z) - np.eye(2)).max() > 0:
        bad("expm of an all-zero batch is a batch of identities", Z[0], 1.0, "zero_batch")
    ctx.cov["expm_validation"] = stats
    # defective generators: outside the domain where the oracle hypotheses can hold for an eigendecomposition
    A = np.array([[-2, 1.0], [0, -2]])
    err = np.abs(ex.expm(A) - np.exp(-2) * np.array([[1, 1], [0, 1.0]])).max()
    ctx.cov["expm_defective_err"] = float(err)
    if err > 1e-9:
        bad("defective generator [[-2,1],[0,-2]] (one-way exchange rate 1, 1/T2 = [2,1])", A, err, "defective")


# ---------------------------------------------------------------- (c) property-level oracle on the real operator
def lget(a, idx):
    a = np.asarray(a)
    return a[tuple(0 if a.shape[d] == 1 else idx[d] for d in range(min(a.ndim, len(idx))))]


def ref_apply(st, eq, K, T1, T2, g, tau):
    XT = -K + np.diag(-1 / np.asarray(T2, float) + 2j * np.pi * np.asarray(g, float))
    XL = -K + np.diag(-1 / np.asarray(T1, float))
    mT, mL = ref_expm(XT * tau), ref_expm(XL * tau)
    d = st - eq
    out = np.empty_like(d)
    out[..., 0] = np.einsum("ij,jk->ik", mT, d[..., 0])
    out[..., 1] = np.einsum("ij,jk->ik", mT.conj(), d[..., 1])
    out[..., 2] = np.einsum("ij,jk->ik", mL, d[..., 2])
    return out + eq


def gen_real_case(rng):
    N = rng.choice([2, 2, 3])
    ndim = rng.choice([1, 2, 2, 3, 3])
    ax = rng.randrange(ndim)
    smshape = [rng.choice([1, 2, 3, 3]) for _ in range(ndim)]
    if ndim > 1 and rng.random() < 0.5:
        smshape[rng.choice([d for d in range(ndim) if d != ax])] = N      # a batch length that coincides with ncomp
    smshape[ax] = N
    dens = [rng.choice([0.5, 1.0, 2.0, 3.0]) for _ in range(N)]
    scalar_khi = N == 2 and rng.random() < 0.4
    if scalar_khi:
        dens = [dens[0]] * N
        K = rng.choice([0.0, 0.01, 0.05, 0.2]) * np.array([[1, -1], [-1, 1.0]])
    else:
        W = np.zeros((N, N))
        for i in range(N):
            for j in range(i + 1, N):
                W[i, j] = W[j, i] = rng.choice([0, 0.01, 0.05, 0.2])
        K = -W / np.array(dens)[None, :]
        K[np.arange(N), np.arange(N)] = 0
        K[np.arange(N), np.arange(N)] = -K.sum(0)

    khi = None
    if not scalar_khi and rng.random() < 0.6:
        # batched kinetic matrix in any documented layout (exchange axis first / middle / last, fewer axes than tau)
        def kin(_):
            W = np.zeros((N, N))
            for i in range(N):
                for j in range(i + 1, N):
                    W[i, j] = W[j, i] = rng.choice([0, 0.01, 0.05, 0.2, 0.4])
            Kb = -W / np.array(dens)[None, :]
            Kb[np.arange(N), np.arange(N)] = -Kb.sum(0)
            return Kb
        khi = batched_khi(rng, N, dens, smshape, ax, True, p_batch=0.8, kin=kin).tolist()
    # the state may have one batch axis more than the operator
    stshape = list(smshape) + ([2] if rng.random() < 0.3 else [])

    def par(vals, none_p=0.3):
        r = rng.random()
        if r < none_p:
            return None
        if r < 0.45:
            return rng.choice(vals)
        if r < 0.6:
            return np.array([rng.choice(vals) for _ in range(N)]).reshape([1] * ax + [N]).tolist()
        if r < 0.85:
            return prefix_array(rng, vals, smshape, ax)          # lower-rank vectors, lengths may coincide with ncomp
        return np.array([rng.choice(vals) for _ in range(int(np.prod(smshape)))]).reshape(smshape).tolist()
    tshape = list(smshape)
    tshape[ax] = 1
    r = rng.random()
    tau = rng.choice([0.0, 1.0, 3.0, 8.0]) if r < 0.45 else prefix_array(rng, [0.5, 2.0, 5.0], smshape, ax, unit_at_ax=True) if r < 0.7 else \
        np.array([rng.choice([0.0, 0.5, 2.0, 5.0]) for _ in range(int(np.prod(tshape)))]).reshape(tshape).tolist()
    return {"kind": "real", "N": N, "ax": ax, "smshape": smshape, "stshape": stshape, "khi": khi, "dens": dens, "K": K.tolist(), "scalar_khi": scalar_khi,
            "tau": tau, "T1": par([300.0, 1000.0, float("inf")]), "T2": par([20.0, 80.0, float("inf")]),
            "g": par([0.0, 0.01, -0.03], 0.4), "seq": rng.choice(["plain", "plain", "rf", "rf_shift"]),
            "seed": rng.randrange(1 << 30)}


def real_khi(c):
    """the kinetic-matrix array handed to X: batch axes with the compartment axis at ax, then the compartment axis"""
    if c.get("khi") is not None:
        return np.array(c["khi"], float)
    return np.array(c["K"], float)[(None,) * c["ax"]]


def fibre_K(c, full):
    khi, N = real_khi(c), c["N"]
    return np.array([[float(lget(khi[..., j], full(i))) for j in range(N)] for i in range(N)])


def build_real(c, scale_tau=1.0, zero_k=False):
    from epgpy import exchange as ex
    ax, N = c["ax"], c["N"]
    tau = np.asarray(c["tau"], float) * scale_tau
    khi = real_khi(c) * (0.0 if zero_k else 1.0)
    return ex.X(tau if tau.ndim else float(tau), khi, axis=ax, T1=c["T1"], T2=c["T2"], g=c["g"])


def real_state(c):
    import epgpy as epg
    rs = np.random.default_rng(c["seed"])
    smshape = tuple(c.get("stshape") or c["smshape"])
    ax, N = c["ax"], c["N"]
    dens = np.ones(smshape) * np.array(c["dens"]).reshape([N if d == ax else 1 for d in range(len(smshape))])
    sm = epg.StateMatrix(density=dens)
    if c["seq"] != "plain":
        sm = epg.T(rs.choice([30, 60, 90, 140]), rs.choice([0, 45, 90]))(sm)
        if c["seq"] == "rf_shift":
            sm = epg.S(1)(sm)
            sm = epg.T(rs.choice([20, 120]), 30)(sm)
            sm = epg.S(1)(sm)
    else:
        st = rs.normal(size=smshape + (1, 3)) + 1j * rs.normal(size=smshape + (1, 3))
        st[..., 1] = st[..., 0].conj()
        st[..., 2] = st[..., 2].real
        sm = epg.StateMatrix(st, density=dens, check=False)
    return sm


def fibres(c, arrs):
    """iterate over batch indices: yield (index tuple function, per-array fibre lists)"""
    smshape, ax, N = (c.get("stshape") or c["smshape"]), c["ax"], c["N"]
    for b in itertools.product(*[range(d) for i, d in enumerate(smshape) if i != ax]):
        yield b, (lambda i, b=b: b[:ax] + (i,) + b[ax:])


def check_real_case(ctx, c):
    """returns None or (what, signature)"""
    N, ax = c["N"], c["ax"]
    tol = lambda ref: 1e-9 * (1 + np.abs(ref).max())
    op = build_real(c)
    want = lshape(np.shape(c["tau"]), *[np.shape(c[k]) for k in ("T1", "T2", "g") if c[k] is not None], real_khi(c).shape[:-1])
    if list(op.shape) != want:
        return ("operator shape %s, expected the left-aligned broadcast %s of tau %s, T1 %s, T2 %s, g %s and the khi batch axes %s" % (
            tuple(op.shape), tuple(want), np.shape(c["tau"]), np.shape(c["T1"]) if c["T1"] is not None else None,
            np.shape(c["T2"]) if c["T2"] is not None else None, np.shape(c["g"]) if c["g"] is not None else None,
            real_khi(c).shape[:-1]), "operator-shape")
    sm = real_state(c)
    out = op(sm)
    o = np.array(out.states)
    eqa = np.broadcast_to(np.array(sm.equilibrium), np.array(sm.states).shape)
    import epgpy as epg
    from epgpy import exchange as ex

    def par(p, dflt, full):
        if p is None:
            return np.full(N, dflt)
        return np.array([lget(np.asarray(p, float), full(i)) for i in range(N)])
    for b, full in fibres(c, None):
        t1, t2, gg = par(c["T1"], np.inf, full), par(c["T2"], np.inf, full), par(c["g"], 0.0, full)
        ta = float(lget(np.asarray(c["tau"], float), full(0))) if np.ndim(c["tau"]) else float(c["tau"])
        stf = np.array([np.array(sm.states)[full(i)] for i in range(N)])
        eqf = np.array([eqa[full(i)] for i in range(N)])
        got = np.array([o[full(i)] for i in range(N)])
        K = fibre_K(c, full)
        # ODE solution by an independent integrator (scaling-and-squaring Taylor)
        ref = ref_apply(stf, eqf, K, t1, t2, gg, ta)
        if np.abs(ref - got).max() > tol(ref):
            return ("X(tau) differs from the Bloch-McConnell solution by %.3g" % np.abs(ref - got).max(), "ode")
        # vectorised run == scalar run of this fibre (plain N x N matrix, scalar tau, per-compartment T1/T2/g)
        one = epg.StateMatrix(stf, density=[float(np.asarray(sm.density)[full(i)]) for i in range(N)], check=False)
        sc = np.array(ex.X(ta, K, T1=t1.tolist(), T2=t2.tolist(), g=gg.tolist())(one).states)
        if np.abs(sc - got).max() > tol(sc):
            return ("batched X differs from the scalar run of one fibre by %.3g" % np.abs(sc - got).max(), "scalar_run")
        # conservation without relaxation
        if c["T1"] is None and c["T2"] is None and c["g"] is None:
            if np.abs(got.sum(0) - stf.sum(0)).max() > tol(stf):
                return ("total magnetisation not conserved without relaxation", "conservation")
    # fixed point
    smeq = epg.StateMatrix(np.array(np.broadcast_to(sm.equilibrium, np.array(sm.states).shape)), density=sm.density, check=False)
    fx = np.array(op(smeq).states)
    if np.abs(fx - np.array(smeq.states)).max() > 1e-9 * (1 + np.abs(fx).max()):
        return ("equilibrium is not a fixed point", "fixed_point")
    # semigroup: tau then tau  ==  2 tau
    two = np.array(op(op(sm)).states)
    dbl = np.array(build_real(c, scale_tau=2.0)(sm).states)
    if np.abs(two - dbl).max() > 1e-9 * (1 + np.abs(dbl).max()):
        return ("X(tau) X(tau) != X(2 tau): %.3g" % np.abs(two - dbl).max(), "semigroup")
    # ODE residual by central finite differences in tau (where tau > 0)
    taus = np.asarray(c["tau"], float)
    if taus.min() > 0:
        h = 1e-4
        dp = np.array(build_real(c, scale_tau=1 + h)(sm).states)
        dm = np.array(build_real(c, scale_tau=1 - h)(sm).states)
        for b, full in fibres(c, None):
            t1, t2, gg = par(c["T1"], np.inf, full), par(c["T2"], np.inf, full), par(c["g"], 0.0, full)
            ta = float(lget(taus, full(0))) if taus.ndim else float(taus)
            d = np.array([(dp[full(i)] - dm[full(i)]) / (2 * h * ta) for i in range(N)])
            M = np.array([o[full(i)] for i in range(N)])
            eqf = np.array([eqa[full(i)] for i in range(N)])
            K = fibre_K(c, full)
            XT = -K + np.diag(-1 / t2 + 2j * np.pi * gg)
            XL = -K + np.diag(-1 / t1)
            rhs = np.empty_like(M)
            rhs[..., 0] = np.einsum("ij,jk->ik", XT, (M - eqf)[..., 0])
            rhs[..., 1] = np.einsum("ij,jk->ik", XT.conj(), (M - eqf)[..., 1])
            rhs[..., 2] = np.einsum("ij,jk->ik", XL, (M - eqf)[..., 2])
            if np.abs(d - rhs).max() > 1e-5 * (1 + np.abs(rhs).max()):
                return ("dM/dtau != Xi (M - Meq) by finite differences: %.3g" % np.abs(d - rhs).max(), "fd")
    # zero exchange == E per compartment
    z = np.array(build_real(c, zero_k=True)(sm).states)
    for b, full in fibres(c, None):
        t1, t2, gg = par(c["T1"], np.inf, full), par(c["T2"], np.inf, full), par(c["g"], 0.0, full)
        ta = float(lget(taus, full(0))) if taus.ndim else float(taus)
        for i in range(N):
            one = epg.StateMatrix(np.array(sm.states)[full(i)], density=float(np.asarray(sm.density)[full(i)]), check=False)
            e = np.array(epg.E(ta, min(t1[i], 1e300), min(t2[i], 1e300), gg[i])(one).states)
            if np.abs(e - z[full(i)]).max() > 1e-9 * (1 + np.abs(e).max()):
                return ("zero exchange differs from E on compartment %d: %.3g" % (i, np.abs(e - z[full(i)]).max()), "zero_exchange")
    return None


# ---------------------------------------------------------------- boundary probes (configurations of the quantifier)
def boundary_probes(ctx):
    """batched kinetic matrices / positions of the exchange axis that the statement quantifies over: every layout is
    JUDGED against the Bloch-McConnell integrator and against scalar runs of each fibre (regressions of ce28d2e
    and any other wrong layout are failing inputs)"""
    import epgpy as epg
    from epgpy import exchange as ex
    k3 = [0.1, 0.2, 0.3]
    k34 = (np.arange(1, 13).reshape(3, 4) / 20).tolist()
    S1 = {"site": "exchange_operator", "why": "khi-axis-not-moved"}
    S2 = {"site": "exchange_operator", "why": "khi-expanded-in-front"}
    S3 = {"site": "X._apply", "why": "conservation-check-broadcast"}
    S4 = {"site": "exchange_operator", "why": "batched-khi-layout"}
    # (what, exchange axis, rates (batch of exchange_matrix), state shape, tau, T2, signature)
    probes = [
        ("batched khi (2,3,2), exchange axis 0 (not the last batch axis)", 0, k3, (2, 3), 2.0, None, S1),
        ("batched khi (2,2,2), exchange axis 0 (was: silently wrong numbers)", 0, [0.1, 0.2], (2, 2), 2.0, None, S1),
        ("batched khi (3,2,2) axis 1 with tau batched on a further axis", 1, k3, (3, 2, 4), [[[1.0, 2.0, 3.0, 4.0]]], None, S2),
        ("batched khi (3,2,2) axis 1 applied to a state with a further batch axis", 1, k3, (3, 2, 4), 2.0, None, S3),
        ("batched khi (2,3,2) axis 0 applied to a state with a further batch axis", 0, k3, (2, 3, 2), 2.0, None, S3),
        ("batched khi (3,2,4,2), exchange axis in the middle", 1, k34, (3, 2, 4), 1.5, None, S4),
        ("batched khi (3,2,4,2), exchange axis in the middle, T2 per compartment and batch", 1, k34, (3, 2, 4), 1.5,
         [[[30.0], [50.0]], [[20.0], [80.0]], [[40.0], [10.0]]], S4),
        ("batched khi (2,3,2) axis 0 with tau on a further axis (khi has fewer axes than tau)", 0, k3, (2, 3, 2), [[[1.0, 3.0]]], None, S2),
        ("plain khi (2,2) axis 0 with tau shaped (1,3,2)", 0, 0.3, (2, 3, 2), (np.arange(1, 7).reshape(1, 3, 2) * 1.0).tolist(), None, S2),
        ("batched khi (2,3,2) axis 0 applied to a single-compartment state (1,3)", 0, k3, (1, 3), 2.0, None, S3),
        ("batched khi (3,2,1,2) axis 1 (unit batch axis) with tau (1,1,4)", 1, [[0.1], [0.2], [0.3]], (3, 2, 4), [[[1.0, 2.0, 3.0, 4.0]]], None, S4),
    ]
    for what, ax, rates, shp, tau, T2, sig in probes:
        ctx.count(("probe", what), nontrivial=True)
        p = {"what": what, "khi_axis": ax, "rates": rates, "smshape": list(shp), "tau": tau, "T2": T2}
        khi = ex.exchange_matrix(rates, axis=ax) if np.ndim(rates) else ex.exchange_matrix(rates)
        rs = np.random.default_rng(5)
        st = rs.normal(size=tuple(shp) + (1, 3)) + 0j
        sm = epg.StateMatrix(st, density=1.0, check=False)
        try:
            o = np.array(ex.X(tau, khi, axis=ax, T2=T2)(sm).states)
        except Exception as e:
            ctx.report("%s: valid input raises %s: %s" % (what, type(e).__name__, str(e)[:120]), {"probe": p}, found_input=True, signature=sig)
            continue
        err = err2 = 0.0
        oshape = o.shape[:-2]
        for b in itertools.product(*[range(d) for i, d in enumerate(oshape) if i != ax]):
            full = lambda i: b[:ax] + (i,) + b[ax:]
            rate = float(lget(np.asarray(rates, float), b)) if np.ndim(rates) else float(rates)
            ta = float(lget(np.asarray(tau, float), full(0))) if np.ndim(tau) else float(tau)
            t2 = [np.inf] * 2 if T2 is None else [float(lget(np.asarray(T2, float), full(i))) for i in range(2)]
            stf = np.array([lget(st, full(i)) for i in range(2)])
            got = np.array([o[full(i)] for i in range(2)])
            K = rate * np.array([[1, -1], [-1, 1.0]])
            ref = ref_apply(stf, np.zeros_like(stf) + np.array([0, 0, 1.0]), K, [np.inf] * 2, t2, [0, 0], ta)
            err = max(err, np.abs(ref - got).max())
            sc = np.array(ex.X(ta, rate, T2=t2)(epg.StateMatrix(stf, density=1.0, check=False)).states)
            err2 = max(err2, np.abs(sc - got).max())
        if err > 1e-9:
            ctx.report("%s: result differs from the Bloch-McConnell solution by %.3g" % (what, err), {"probe": p}, found_input=True, signature=sig)
        elif err2 > 1e-9:
            ctx.report("%s: result differs from the scalar runs X(tau, k_b) by %.3g" % (what, err2), {"probe": p}, found_input=True, signature=sig)
    # parameter vectors of lower rank than the batch, whose length coincides with ncomp: under append semantics a plain
    # vector lies on axis 0 -- a batch of cases when axis > 0, the compartments only when axis = 0
    S5 = {"site": "exchange_operator", "why": "parameter-vector-rank"}
    vec = [
        ("axis=1, T1, T2 plain vectors of 2 values (2 compartments): two cases", 1, 2, {"T1": [300.0, 1200.0], "T2": [25.0, 90.0]}, 6.0, (2, 2)),
        ("axis=1, g plain vector of 2 values", 1, 2, {"g": [0.01, -0.03], "T2": 40.0}, 5.0, (2, 2)),
        ("axis=1, tau plain vector of 2 values", 1, 2, {"T2": [[30.0, 80.0]]}, [2.0, 7.0], (2, 2)),
        ("axis=1, 3 compartments, T2 plain vector of 3 values", 1, 3, {"T2": [25.0, 90.0, 50.0], "T1": 500.0}, 4.0, (3, 3)),
        ("axis=2, T2 plain vector of 2 values, g of shape (2, 3)", 2, 2, {"T2": [25.0, 90.0], "g": [[0.0, 0.01, -0.02], [0.02, 0.0, 0.01]]}, 4.0, (2, 3, 2)),
        ("axis=2, T1 of shape (1, 2) (length 2 on axis 1), tau plain vector of 2", 2, 2, {"T1": [[300.0, 900.0]], "T2": 60.0}, [3.0, 5.0], (2, 2, 2)),
        ("axis=0, T2 plain vector of 2 values: per compartment", 0, 2, {"T2": [25.0, 90.0], "g": [0.0, 0.02]}, 5.0, (2,)),
        ("axis=0, T2 of shape (1, 2): two cases, common to the compartments", 0, 2, {"T2": [[25.0, 90.0]]}, 5.0, (2, 2)),
    ]
    for what, ax, N, pars, tau, want in vec:
        ctx.count(("probe", what), nontrivial=True)
        p = {"what": what, "axis": ax, "ncomp": N, "params": pars, "tau": tau}
        W = np.array([[0, 0.1, 0.05], [0.1, 0, 0.2], [0.05, 0.2, 0]])[:N, :N]
        K = np.diag(W.sum(0)) - W
        rs = np.random.default_rng(9)
        st = rs.normal(size=tuple(want) + (3, 3)) + 1j * rs.normal(size=tuple(want) + (3, 3))
        try:
            op = ex.X(tau, K[(None,) * ax], axis=ax, **pars)
            if tuple(op.shape) != tuple(want):
                ctx.report("%s: operator shape %s, expected %s (left-aligned broadcast)" % (what, tuple(op.shape), tuple(want)), {"probe": p},
                           found_input=True, signature=S5)
                continue
            sm = epg.StateMatrix(st, density=1.0, check=False)
            eqa = np.broadcast_to(np.array(sm.equilibrium), st.shape)
            o = np.array(op(sm).states)
        except Exception as e:
            ctx.report("%s: valid input raises %s: %s" % (what, type(e).__name__, str(e)[:120]), {"probe": p}, found_input=True, signature=S5)
            continue
        err = err2 = 0.0
        for b in itertools.product(*[range(d) for i, d in enumerate(want) if i != ax]):
            full = lambda i: b[:ax] + (i,) + b[ax:]
            v = {k: [float(lget(np.asarray(pars[k], float), full(i))) if k in pars else d for i in range(N)]
                 for k, d in (("T1", np.inf), ("T2", np.inf), ("g", 0.0))}
            ta = float(lget(np.asarray(tau, float), full(0))) if np.ndim(tau) else float(tau)
            stf = np.array([st[full(i)] for i in range(N)])
            got = np.array([o[full(i)] for i in range(N)])
            ref = ref_apply(stf, np.array([eqa[full(i)] for i in range(N)]), K, v["T1"], v["T2"], v["g"], ta)
            sc = np.array(ex.X(ta, K, T1=v["T1"], T2=v["T2"], g=v["g"])(epg.StateMatrix(stf, density=1.0, check=False)).states)
            err, err2 = max(err, np.abs(ref - got).max()), max(err2, np.abs(sc - got).max())
        if err > 1e-9 or err2 > 1e-9:
            ctx.report("%s: result differs from the Bloch-McConnell solution by %.3g and from the scalar runs of each case by %.3g" % (what, err, err2),
                       {"probe": p}, found_input=True, signature=S5)
    # defective generator through the operator
    ctx.count(("probe", "defective"), nontrivial=True)
    sm = epg.StateMatrix([[[0, 0, 1]], [[1, 1, 0]]], density=[1, 0], check=False)
    o = np.array(ex.X(1.0, [[0, -1], [0, 1]], T2=[0.5, 1])(sm).states)
    want = np.exp(-2)
    if abs(o[0, 0, 0] - want) > 1e-9:
        ctx.report("one-way exchange 1->0 (rate 1) with 1/T2 = [2, 1]: defective generator, F+ of compartment 0 is %.6g, Bloch-McConnell gives %.6g" % (o[0, 0, 0].real, want),
                   {"probe": {"what": "defective", "khi": [[0, -1], [0, 1]], "T2": [0.5, 1], "tau": 1.0, "density": [1, 0]}},
                   found_input=True, signature={"site": "expm", "why": "defective"})


# ---------------------------------------------------------------- (d) rejection cases
def rejection_cases(ctx):
    import epgpy as epg
    from epgpy import exchange as ex
    cases = [
        ("non-square", lambda: ex.X(1.0, [[1, -1, 0], [-1, 1, 0]]), ValueError),
        ("columns do not sum to zero", lambda: ex.X(1.0, [[1, -1], [-1, 2]]), ValueError),
        ("1-D khi", lambda: ex.X(1.0, [0.5, 1.0]), ValueError),
        ("negative rate", lambda: ex.X(1.0, -0.5), ValueError),
        ("K.density != 0 (matrix)", lambda: ex.X(1.0, [[1, -2], [-1, 2]])(epg.StateMatrix(density=[1, 1])), RuntimeError),
        ("K.density != 0 (scalar rate, unequal densities)", lambda: ex.X(1.0, 0.5)(epg.StateMatrix(density=[1, 3])), RuntimeError),
        ("non-conserving (test-suite example)", lambda: ex.X(10, [[-10, 0], [10, 0]])(epg.StateMatrix([[[1, 1, 0]], [[1j, -1j, 0]]])), RuntimeError),
        ("K.density != 0, single-compartment state broadcast to the compartments", lambda: ex.X(1.0, [[1, -2], [-1, 2]])(epg.StateMatrix()), RuntimeError),
        ("state with 3 compartments, operator with 2", lambda: ex.X(1.0, 0.5)(epg.StateMatrix(shape=(3,))), ValueError),
    ]
    accepted = [
        ("detailed balance with unequal densities", lambda: ex.X(1.0, [[3, -1], [-3, 1]])(epg.StateMatrix(density=[1, 3]))),
        ("scalar rate, equal densities", lambda: ex.X(1.0, 0.5)(epg.StateMatrix(density=[2, 2]))),
    ]
    for what, f, exc in cases:
        ctx.count(("reject", what), nontrivial=True)
        try:
            f()
        except exc:
            continue
        except Exception as e:
            ctx.report("invalid input (%s) raises %s instead of %s" % (what, type(e).__name__, exc.__name__), {"reject": what}, found_input=True,
                       signature={"reject": what})
            continue
        ctx.report("invalid input accepted: %s" % what, {"reject": what}, found_input=True, signature={"reject": what})
    for what, f in accepted:
        ctx.count(("accept", what), nontrivial=True)
        try:
            f()
        except Exception as e:
            ctx.report("valid input rejected (%s): %s" % (what, e), {"accept": what}, found_input=True, signature={"accept": what})


# ---------------------------------------------------------------- driver
def run(ctx):
    proved = ctx.prove(gen=False)
    quick = ctx.tier == "quick"
    rng = ctx.rng
    terms, meta = [], []
    kinds = {}

    def add(c, t):
        terms.append(t)
        meta.append(c)
        kinds[c["kind"]] = kinds.get(c["kind"], 0) + 1

    for i in range(60 if quick else 1200):
        c = gen_apply_case(rng)
        try:
            op, pre, code, oshape, obs, mat = run_apply_case(c)
        except ShapeDefect as e:
            ctx.report("X(tau, khi, axis): %s" % e, {"case": c}, found_input=True, signature={"kind": "apply", "why": "operator-shape"})
            continue
        except Exception as e:
            ctx.report("X with an injected matrix raised %s on a valid configuration: %s" % (type(e).__name__, str(e)[:200]), {"case": c},
                       found_input=True, signature={"raises": type(e).__name__, "kind": "apply"})
            continue
        if code == -1:
            ctx.report("op(sm) and op._apply(op.prepare(sm)) differ", {"case": c}, found_input=True, signature={"kind": "apply", "why": "call-vs-apply"})
            continue
        ctx.count(("apply", c), nontrivial=True)
        if i < 2:
            ctx.sample({k: c[k] for k in ("ax", "N", "opshape", "smshape", "dens", "conserving", "ns")})
        add(c, apply_term(c, op, pre, code, oshape, obs, mat))
    for i in range(40 if quick else 800):
        c = gen_generator_case(rng)
        try:
            mat = run_generator_case(c)
        except Exception as e:
            ctx.report("exchange_operator raised %s on a valid configuration: %s" % (type(e).__name__, str(e)[:200]), {"case": c},
                       found_input=True, signature={"raises": type(e).__name__, "kind": "generator"})
            continue
        ctx.count(("generator", c), nontrivial=True)
        if i < 1:
            ctx.sample(c)
        add(c, generator_term(c, mat))
    for i in range(24 if quick else 300):
        c = gen_guard_case(rng)
        try:
            code, ax = run_guard_case(c)
        except IndexError:
            continue
        ctx.count(("guard", c), nontrivial=True)
        add(c, guard_term(c, code, ax))
    for i in range(12 if quick else 100):
        c = gen_xm_case(rng)
        ctx.count(("xm", c), nontrivial=True)
        add(c, xm_term(c))
    verdicts, errors = ctx.run_bool_cases("corr", HEADER, terms, chunk=8 if quick else 16)
    for e in errors:
        ctx.report("correspondence shard failed to evaluate", {"theorem_or_correspondence": "C06 correspondence (Cases)", "coq_output": e}, found_input=False)
    nfail = 0
    for c, v in zip(meta, verdicts):
        if v is False:
            nfail += 1
            why = None
            if c["kind"] == "apply":
                try:
                    why = apply_oracle(c)
                except Exception as e:
                    why = "oracle raised %s: %s" % (type(e).__name__, str(e)[:120])
            if why and nfail <= 4:
                ctx.report(why, {"case": c}, found_input=True, signature={"oracle": "apply", "why": why.split(" at batch")[0][:60]})
            elif nfail <= 4:
                ctx.report("model Model/Exchange.v and implementation disagree (%s)" % c["kind"],
                           {"case": c, "theorem_or_correspondence": "C06 correspondence Model/Exchange.v vs epgpy/exchange.py"},
                           found_input=False, signature={"corr": c["kind"]})
    ctx.cov["correspondence_kinds"] = kinds

    def khi_batched(c):
        a = np.array(c["K"] if c["kind"] == "apply" else c["khi"])
        return int(np.prod(a.shape)) > a.shape[-1] ** 2
    ctx.cov["correspondence_batched_khi"] = {k: sum(1 for c in meta if c["kind"] == k and khi_batched(c)) for k in ("apply", "generator")}
    ctx.cov["correspondence_khi_axis_not_last"] = sum(1 for c in meta if c["kind"] in ("apply", "generator") and khi_batched(c)
                                                      and c["ax"] < np.array(c["K"] if c["kind"] == "apply" else c["khi"]).ndim - 2)
    ctx.cov["correspondence_disagreements"] = nfail

    # (b) oracle hypotheses: validation, not proof
    validate_expm(ctx, 40 if quick else 600)
    # (c) property-level oracle (random testing)
    fails = 0
    nreal = 50 if quick else 800
    seqs = {}
    nbk = nbig = 0
    for i in range(nreal):
        c = gen_real_case(rng)
        seqs[c["seq"]] = seqs.get(c["seq"], 0) + 1
        nbk += int(c["khi"] is not None and np.array(c["khi"]).size > c["N"] ** 2)
        nbig += int(len(c["stshape"]) > len(c["smshape"]))
        ctx.count(("real", c), nontrivial=True)
        try:
            r = check_real_case(ctx, c)
        except Exception as e:
            r = ("valid configuration raises %s: %s" % (type(e).__name__, str(e)[:160]), "raises-" + type(e).__name__)
        if r and fails < 4:
            fails += 1
            ctx.report(r[0], {"real_case": c}, found_input=True, signature={"oracle": r[1]})
    ctx.cov["oracle_runs"] = nreal
    ctx.cov["oracle_batched_khi"] = nbk
    ctx.cov["oracle_bigger_state"] = nbig
    ctx.cov["oracle_sequences"] = seqs
    boundary_probes(ctx)
    rejection_cases(ctx)
    ctx.cov["trusted_base"] += [
        "ORACLE HYPOTHESES on the matrix exponential (exchange.expm = LAPACK eig/eigh/solve, not modelled): for the generators A = Xi_T, conj Xi_T, Xi_L, "
        "E(t) = expm(tA) satisfies H0: E(0) = I; Hsemi: E(s+t) = E(s) E(t); Hder: d/dt E(t) = A E(t) entry-wise (Coquelicot is_derive on real and imaginary parts); "
        "Hext: expm depends only on the n x n entries; Hdiag: expm(t diag d) = diag(exp(t d)) (used by X_zero_exchange only). "
        "Validated numerically on exchange.expm against an exact degree-30 Taylor polynomial (Fractions), semigroup, identity, finite-difference derivative, diagonal and two-pool cases (tolerance 1e-10) "
        "for matrices with a well-conditioned eigenbasis; NOT met for defective generators",
        "hand-written model Model/Exchange.v tied to epgpy/exchange.py by exact (dyadic) correspondence: X._apply with op.mat injected, exchange_operator with exchange.expm "
        "temporarily replaced by the identity (generators observed), constructor guards, exchange_matrix",
        "conversion of the float 2*pi to its exact rational value in the generator correspondence",
        "Coquelicot; axioms as printed by Print Assumptions (classical reals, functional extensionality, classic)"]
    if not proved:
        ctx.report("proof obligations of C06 no longer check: %s" % ctx.failed_obligations,
                   {"theorem_or_correspondence": ctx.failed_obligations}, found_input=False)


def replay(ctx, rp):
    if "real_case" in rp:
        try:
            r = check_real_case(ctx, rp["real_case"])
        except Exception as e:
            r = ("raises %s: %s" % (type(e).__name__, e), "raises")
        print("replay: VIOLATION reproduced: %s" % r[0] if r else "replay: no discrepancy with the Bloch-McConnell oracle")
        return 1 if r else 0
    if "probe" in rp or "expm_case" in rp or "reject" in rp or "accept" in rp:
        n0 = len(ctx.violations)
        if "probe" in rp:
            boundary_probes(ctx)
        elif "expm_case" in rp:
            validate_expm(ctx, 0)
        else:
            rejection_cases(ctx)
        bad = len(ctx.violations) > n0 or bool(ctx.known_hits)
        print("replay: VIOLATION reproduced" if bad else "replay: not reproduced")
        return 1 if bad else 0
    if "case" in rp:
        c = rp["case"]
        try:
            if c.get("kind") == "apply":
                why = apply_oracle(c)
                if why:
                    print("replay: VIOLATION reproduced: %s" % why)
                    return 1
                op, pre, code, oshape, obs, mat = run_apply_case(c)
                t = apply_term(c, op, pre, code, oshape, obs, mat)
            elif c.get("kind") == "generator":
                t = generator_term(c, run_generator_case(c))
            elif c.get("kind") == "guard":
                t = guard_term(c, *run_guard_case(c))
            else:
                t = xm_term(c)
        except Exception as e:
            print("replay: VIOLATION reproduced: valid configuration raises %s: %s" % (type(e).__name__, str(e)[:200]))
            return 1
        v, errs = ctx.run_bool_cases("replay", HEADER, [t], chunk=4)
        ctx.cleanup_cases()
        print("replay: model and implementation %s" % ("agree" if v[0] else "DISAGREE"))
        return 0 if v[0] else 1
    print("replay: not an input replay (%s)" % rp.get("what"))
    return 1
