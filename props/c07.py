"""C07 — vectorised simulation equals the stack of scalar simulations.

(a) epgpy.common shape functions, set_axes, Operator.prepare and direct scalar_prod / matrix_prod
    calls (index-encoded arrays) against Model/Vector.v evaluated in Coq (exact);
(b) op.shape, epg.getshape(seq), simulate(seq).shape against the model;
(c) the oracle of the property on the implementation: vectorised simulate() against the stack of
    scalar simulate() runs built from the parameter values at each grid index.
"""
import copy, math, traceback
import numpy as np
from vlib import core, prog

HEADER = """From Coq Require Import List ZArith Arith Bool.
From EPG Require Import NdArray Vector.
Import ListNotations.
"""


def cshape(s):
    return "[" + "; ".join(str(int(d)) for d in s) + "]"


def coshape(s):
    return "None" if s is None else "(Some %s)" % cshape(s)


def clshape(l):
    return "[" + "; ".join(cshape(s) for s in l) + "]"


def cb(b):
    return "true" if b else "false"


def caxes(ax):
    if ax is None:
        return "None"
    if isinstance(ax, int):
        return "(Some (inl %d))" % ax
    return "(Some (inr %s))" % cshape(ax)


# ---------------------------------------------------------------- spec side (append semantics), python mirror
def sel(d, i):
    return 0 if d == 1 else i


def aproj(shape, idx):
    idx = list(idx) + [0] * (len(shape) - len(idx))
    return tuple(sel(d, i) for d, i in zip(shape, idx))


def prodn(s):
    return int(np.prod(s)) if len(s) else 1


# ---------------------------------------------------------------- (a) shape functions
def rand_shape(rng, maxrank=4, minrank=0, zero_p=0.03):
    return tuple(0 if rng.random() < zero_p else rng.choice([1, 1, 2, 2, 3, 4]) for _ in range(rng.randint(minrank, maxrank)))


def sub_shape(rng, G, minrank=0):
    """a shape that is append-compatible with G: rank <= |G|, each axis 1 or G's"""
    r = rng.randint(minrank, len(G))
    return tuple(G[i] if rng.random() < 0.6 else 1 for i in range(r))


def part_a(ctx, n):
    from epgpy import common, opscalar, opmatrix
    import epgpy as epg
    rng = ctx.rng
    terms, meta = [], []
    stats = {"shapes": 0, "set_axes": 0, "prod": 0, "mprod_inplace": 0, "mprod_inplace_accepted": 0, "prepare": 0, "raises": 0}
    for it in range(n):
        # --- expand_shapes / broadcastable / broadcast_shapes
        ap = rng.random() < 0.6
        if rng.random() < 0.5:
            G = rand_shape(rng, 4, 1)
            ss = [sub_shape(rng, G) if ap else tuple(reversed(sub_shape(rng, tuple(reversed(G))))) for _ in range(rng.randint(1, 4))]
        else:
            ss = [rand_shape(rng) for _ in range(rng.randint(1, 4))]
        es = [tuple(s) for s in common.expand_shapes(*ss, append=ap)]
        bb = bool(common.broadcastable(*ss, append=ap))
        try:
            bs = tuple(common.broadcast_shapes(*ss, append=ap))
        except ValueError:
            bs = None
            stats["raises"] += 1
        a, s = cb(ap), clshape(ss)
        terms.append("(lshape_eqb (expand_shapes %s %s) %s && Bool.eqb (broadcastable %s %s) %s && oshape_eqb (broadcast_shapes %s %s) %s)"
                     % (a, s, clshape(es), a, s, cb(bb), a, s, coshape(bs)))
        meta.append(("shape-functions", {"shapes": ss, "append": ap, "impl": {"expand": es, "broadcastable": bb, "broadcast_shapes": bs}}))
        ctx.count(("sh", tuple(ss), ap))
        stats["shapes"] += 1
        # --- set_axes
        corek = rng.choice([1, 2])
        bshape = tuple(rng.choice([1, 2, 3]) for _ in range(rng.randint(1, 3)))
        full = bshape + (3,) * corek
        if rng.random() < 0.5:
            ax = rng.randint(0, 3)
        else:
            ax = tuple(sorted(rng.sample(range(5), rng.randint(1, 3))))
            if rng.random() < 0.2:
                ax = tuple(reversed(ax))
        try:
            got = tuple(common.set_axes(corek, np.zeros(full), ax).shape)
        except ValueError:
            got = None
        terms.append("(oshape_eqb (set_axes %d %s %s) %s)" % (corek, cshape(full), caxes(ax)[6:-1] if ax is not None else "", coshape(got)))
        meta.append(("set_axes", {"core": corek, "shape": full, "axes": ax, "impl": got}))
        ctx.count(("sa", full, ax))
        stats["set_axes"] += 1
        # --- direct scalar_prod / matrix_prod with index-encoded arrays
        B = tuple(rng.choice([1, 2, 2, 3]) for _ in range(rng.randint(0, 4)))
        if rng.random() < 0.7 and len(B) >= 1:
            A = sub_shape(rng, B, 1)
            r = rng.random()
            if r < 0.25:   # A[0] = 1, A[j+1] in {1, B[j]} (one axis off)
                A = (1,) + tuple(B[j] if rng.random() < 0.7 else 1 for j in range(rng.randint(0, len(B) - 1)))
            elif r < 0.6 and len(B) >= 3:   # leading singleton axes, then sizes of the first state axes (rank gap)
                lead = rng.randint(1, len(B) - 1)
                A = (1,) * lead + tuple(B[j] if rng.random() < 0.8 else 1 for j in range(rng.randint(1, len(B) - lead)))
        else:
            A = tuple(rng.choice([1, 2, 3]) for _ in range(rng.randint(1, 3)))
        ns = rng.choice([1, 3])
        opv = (2.0 ** np.arange(prodn(A))).reshape(A)
        stv = (2.0 * np.arange(prodn(B) * ns) + 1.0).reshape(B + (ns,))

        def decode(val):
            v = int(round(float(np.real(val))))
            i = (v & -v).bit_length() - 1
            j = ((v >> i) - 1) // 2
            return tuple(int(x) for x in np.unravel_index(i, A)) if A else (), tuple(int(x) for x in np.unravel_index(j, B + (ns,)))

        def samples_of(res, batch_only):
            """res: array over the loop shape (batch [+ ns]); returns Coq sample list"""
            out = []
            shape = res.shape
            if 0 in shape:
                return out
            for _ in range(5):
                idx = tuple(rng.randrange(d) for d in shape)
                oi, si = decode(res[idx])
                if batch_only:
                    out.append("(%s, %s, %s)" % (cshape(idx[:-1]), cshape(oi), cshape(si[:-1])))
                else:
                    out.append("(%s, %s, %s)" % (cshape(idx), cshape(oi), cshape(si)))
            return out

        which = rng.choice(["scalar", "scalar-inplace", "matrix-fallback", "matrix-inplace", "matrix-inplace"])
        if rng.random() < 0.25:      # operator rank above the state rank (out of reach of prepare): ndim <= 0 branch
            B = tuple(rng.choice([1, 2]) for _ in range(rng.randint(0, 2)))
            A = tuple(rng.choice([1, 1, 2]) for _ in range(len(B) + rng.randint(1, 2)))
            which = rng.choice(["scalar", "scalar-inplace", "matrix-fallback"])
            opv = (2.0 ** np.arange(prodn(A))).reshape(A)
            stv = (2.0 * np.arange(prodn(B) * ns) + 1.0).reshape(B + (ns,))
            stats["low_rank_state"] = stats.get("low_rank_state", 0) + 1
        arr = opv[..., None] * np.ones(3)
        mat = opv[..., None, None] * np.eye(3)
        states = (stv[..., None] * np.ones(3)).astype(complex)
        try:
            if which == "scalar":
                r = opscalar.scalar_prod(arr, states.copy(), inplace=False)
            elif which == "scalar-inplace":
                r = opscalar.scalar_prod(arr, states.copy(), inplace=True)
            elif which == "matrix-fallback":
                r = opmatrix.matrix_prod(mat, states.copy(), inplace=False)
            else:
                st = states.copy()
                r = opmatrix.matrix_prod(mat, st, inplace=True)
                stats["mprod_inplace"] += 1
                stats["mprod_inplace_accepted"] += int(r is st)
            loop = r[..., 0]
        except ValueError:
            loop = None
        if which == "matrix-inplace":
            if loop is None:
                t = "(mprod_check %s %s %d None [])" % (cshape(A), cshape(B), ns)
            else:
                t = "(mprod_check %s %s %d %s [%s])" % (cshape(A), cshape(B), ns, coshape(loop.shape[:-1]), "; ".join(samples_of(loop, True)))
        else:
            if loop is None:
                t = "(prod_check %s %s %d None [])" % (cshape(A), cshape(B), ns)
            else:
                t = "(prod_check %s %s %d %s [%s])" % (cshape(A), cshape(B), ns, coshape(loop.shape), "; ".join(samples_of(loop, False)))
        terms.append(t)
        meta.append(("prod:" + which, {"A": A, "B": B, "ns": ns, "impl_loop_shape": None if loop is None else loop.shape}))
        ctx.count(("pr", which, A, B, ns))
        stats["prod"] += 1
        # --- prepare
        Bp = tuple(rng.choice([1, 2, 3]) for _ in range(rng.randint(1, 3)))
        Ap = sub_shape(rng, Bp, 1) if rng.random() < 0.5 else tuple(rng.choice([1, 2, 3]) for _ in range(rng.randint(1, 4)))
        op = opscalar.ScalarOp(np.ones(Ap + (3,)))
        sm = epg.StateMatrix(shape=Bp)
        try:
            got = tuple(op.prepare(sm).shape)
        except ValueError:
            got = None
        terms.append("(oshape_eqb (prepare %s %s) %s)" % (cshape(Ap), cshape(Bp), coshape(got)))
        meta.append(("prepare", {"A": Ap, "B": Bp, "impl": got}))
        ctx.count(("pp", Ap, Bp))
        stats["prepare"] += 1
    verdicts, errors = ctx.run_bool_cases("shape", HEADER, terms, chunk=40)
    for e in errors:
        ctx.report("shape-model shard failed to evaluate", {"theorem_or_correspondence": "C07 (a) shape functions vs Model/Vector.v", "coq_output": e}, found_input=False)
    seen = set()
    for (what, info), v in zip(meta, verdicts):
        if v is False and what not in seen:
            seen.add(what)
            ctx.report("model Model/Vector.v and implementation disagree on %s" % what, {"shape_case": {"what": what, **info}},
                       found_input=True, signature={"site": what.split(":")[0], "why": "model-vs-implementation", "which": what})
    ctx.cov["shape_correspondence"] = stats


# ---------------------------------------------------------------- case language for sequences
PHYS = {
    "T": [("alpha", (20, 160)), ("phi", (-90, 90))],
    "Phi": [("phi", (-90, 90))],
    "E": [("tau", (2, 12)), ("T1", (300, 1500)), ("T2", (30, 150)), ("g", (-0.05, 0.05))],
    "P": [("tau", (2, 12)), ("g", (-0.05, 0.05))],
    "R": [("rT", (0.01, 0.5)), ("rL", (0.001, 0.1))],
}
MATRIX_KINDS = {"T", "Phi", "MatrixOp"}
import random as _random
M0 = prog.gen_mat(_random.Random(7))      # fixed dyadic mixing matrix for the exact stream


def rnd_values(rng, lo, hi, shape):
    n = prodn(shape)
    return np.array([round(rng.uniform(lo, hi), 3) for _ in range(n)]).reshape(shape)


def dy_scalar(rng, shape, with0):
    a = np.zeros(shape + (3,), dtype=complex)
    a0 = np.zeros(shape + (3,), dtype=complex) if with0 else None
    for i in np.ndindex(*shape):
        o = prog.gen_scalar(rng, has0=with0)
        a[i] = o["arr"]
        if with0:
            a0[i] = o["arr0"]
    return a, a0


def dy_matrix(rng, shape, with0):
    m = np.zeros(shape + (3, 3), dtype=complex)
    m0 = np.zeros(shape + (3, 3), dtype=complex) if with0 else None
    for i in np.ndindex(*shape):
        m[i] = prog.gen_mat(rng)
        if with0:
            m0[i] = prog.gen_mat(rng)
    return m, m0


def param_shapes(rng, A0, k):
    """k parameter shapes, each of its own rank 0..|A0| with axes of size 1 or A0's, whose append-broadcast is A0"""
    n = len(A0)
    shapes = []
    for _ in range(k):
        r = rng.randint(0, n)
        shapes.append([A0[i] if rng.random() < 0.5 else 1 for i in range(r)])
    for i in range(n):
        if A0[i] > 1 and not any(len(P) > i and P[i] == A0[i] for P in shapes):
            P = rng.choice(shapes)
            P.extend([1] * (i + 1 - len(P)))
            P[i] = A0[i]
    if max(len(P) for P in shapes) < n:
        P = rng.choice(shapes)
        P.extend([1] * (n - len(P)))
    return [tuple(P) for P in shapes]


def gen_opshape(rng, G, mode=None):
    """operator shape A (append-compatible with G), the value given to axes=, the positions of the raw
    parameter axes in A, and the raw parameter shape A0"""
    a = rng.randint(1, len(G))
    mode = mode or rng.choice(["none", "none", "none", "int", "tuple"])
    if mode != "none" and len(G) >= 2:
        a = rng.randint(2, len(G))
    A = [G[i] if rng.random() < 0.65 else 1 for i in range(a)]
    if mode == "int" and a >= 2:
        k = rng.randint(1, a - 1)
        A[:k] = [1] * k
        return tuple(A), k, list(range(k, a)), tuple(A[k:])
    if mode == "tuple" and a >= 2:
        gap = rng.randrange(a - 1)
        A[gap] = 1
        pos = [i for i in range(a) if i != gap and (A[i] != 1 or rng.random() < 0.7 or i == a - 1)]
        return tuple(A), tuple(pos), pos, tuple(A[p] for p in pos)
    return tuple(A), None, list(range(a)), tuple(A)


def gen_case(rng, tier, exact=False, deriv=None, force=None):
    g = rng.choice([1, 2, 2, 2, 3, 3, 4])
    if rng.random() < 0.45:
        d = rng.choice([2, 2, 3])
        G = tuple(d if rng.random() < 0.8 else 1 for _ in range(g))   # equal sizes: the in-place matmul shapes
    else:
        G = tuple(rng.choice([1, 2, 2, 3]) for _ in range(g))
    if force == "mixed-o2":      # parameter arrays of different ranks whose sizes coincide (square) or not
        g = rng.choice([2, 2, 3])
        d = rng.choice([2, 2, 3])
        G = tuple([d, d if rng.random() < 0.6 else rng.choice([2, 3])] + [rng.choice([1, 2])] * (g - 2))
    hand = force == "hand"
    if hand:      # operators applied by hand, batch rank growing along the sequence
        g = rng.choice([2, 2, 3])
        G = tuple(rng.choice([2, 2, 3]) for _ in range(g))
        if prodn(G) > 12:
            G = tuple(min(d, 2) for d in G)
    nd = force == "nd-shift"
    if nd:      # first axis carries a grid whose coefficients may cancel when summed over it
        d = rng.choice([2, 4, 4])
        G = (d,) + tuple(rng.choice([1, 2, 3]) for _ in range(rng.choice([0, 1, 1, 2])))
        g = len(G)
    if prodn(G) > (16 if g == 4 else 36):
        G = tuple(min(d, 2) for d in G)
    nops = rng.randint(2, 6)
    deriv = deriv if deriv is not None else rng.choice(["none", "none", "o1", "o1", "o2"])
    if exact:
        deriv = "none"
    ops = [{"kind": "T0"}]      # excite first: partials w.r.t. T2 / g / phi vanish on the equilibrium state
    if hand:
        nops = rng.randint(3, 5)
        hranks = sorted(rng.randint(1, len(G)) for _ in range(nops))
        hranks[0], hranks[-1] = 1, len(G)      # scalar/1-axis first, full rank last
        if rng.random() < 0.5:
            ops = [{"kind": "T", "A": [1], "axes": None, "pos": [0], "A0": [1], "order1": True, "order2": deriv == "o2",
                    "params": {"alpha": {"v": 35.0, "core": 0, "form": "scalar"}, "phi": {"v": 20.0, "core": 0, "form": "scalar"}}}]
    if nd:
        deriv = "none"
        d = G[0]
        flavour = rng.choice(["phase-cycle", "phase-cycle", "pm-alpha", "pm-alpha", "alternating", "generic"])
        a0 = float(rng.choice([30, 60, 90, 120]))
        if flavour == "phase-cycle":      # 0/180 or 0/90/180/270 (+ common offset)
            off = float(rng.choice([0, 0, 20, 45]))
            alpha, phi = a0, [off + 360.0 * j / d for j in range(d)]
        elif flavour == "pm-alpha":       # -a, +a (, -b, +b)
            b0 = float(rng.choice([40, 75]))
            alpha, phi = ([-a0, a0] if d == 2 else [-a0, a0, -b0, b0]), float(rng.choice([0, 90, 30]))
        elif flavour == "alternating":    # alternating-sign phases
            alpha, phi = a0, [(-1) ** j * 90.0 for j in range(d)]
        else:
            alpha, phi = rnd_values(rng, 20, 160, (d,)).tolist(), float(rng.choice([0, 90, 30]))
        ops = [{"kind": "T", "A": [d], "axes": None, "pos": [0], "A0": [d], "order1": None, "order2": False,
                "params": {"alpha": {"v": alpha, "core": 0, "form": "scalar" if np.ndim(alpha) == 0 else "list"},
                           "phi": {"v": phi, "core": 0, "form": "scalar" if np.ndim(phi) == 0 else "list"}}}]
        kvec = rng.choice([[1, 0], [1, 0], [1, 1, 0], [2, 0], [1, 0, 0]])
    shifted = 0
    hcount = 0
    for _ in range(nops):
        kinds = ["ScalarOp", "MatrixOp"] if exact else ["T", "T", "Phi", "E", "E", "P", "R", "PD", "ScalarOp", "MatrixOp"]
        kind = rng.choice(kinds)
        fmode = None
        if force == "axes+deriv" and len(ops) == 1:
            kind, fmode = rng.choice(["E", "E", "P", "R"]), rng.choice(["int", "tuple"])
        if force == "mixed-o2" and len(ops) == 1:
            kind, fmode = rng.choice(["E", "E", "E", "P", "T", "R"]), "mixed-o2"
        A, axes, pos, A0 = gen_opshape(rng, G, fmode if fmode != "mixed-o2" else "none")
        if hand:
            kind = rng.choice(["T", "T", "Phi", "E", "E", "P", "R", "ScalarOp", "MatrixOp"])
            r = hranks[min(hcount, len(hranks) - 1)]
            hcount += 1
            if r >= 2 and rng.random() < 0.35:      # (1,..,1,m) through axes=
                A = (1,) * (r - 1) + (G[r - 1],)
                axes, pos, A0 = r - 1, [r - 1], (G[r - 1],)
            else:
                A = tuple(G[i] if (rng.random() < 0.7 or i == r - 1) else 1 for i in range(r))
                axes, pos, A0 = None, list(range(r)), A
        if fmode == "mixed-o2":
            A = tuple(G[:max(2, len(A))]) if len(G) >= 2 else tuple(G)
            axes, pos, A0 = None, list(range(len(A))), A
        o = {"kind": kind, "A": list(A), "axes": axes, "pos": pos, "A0": list(A0), "params": {}, "order1": None, "order2": False}
        if kind == "PD":
            o["axes"], o["pos"], o["A0"] = None, list(range(len(A))), list(A)
            o["params"]["pd"] = {"v": rnd_values(rng, 0.5, 2, A).tolist(), "core": 0, "form": rng.choice(["array", "list"])}
        elif kind == "ScalarOp":
            arr, arr0 = dy_scalar(rng, tuple(A0), rng.random() < 0.4)
            o["params"]["arr"] = {"v": arr, "core": 1, "form": "array"}
            if arr0 is not None:
                o["params"]["arr0"] = {"v": arr0, "core": 1, "form": "array"}
        elif kind == "MatrixOp":
            mat, mat0 = dy_matrix(rng, tuple(A0), rng.random() < 0.3)
            o["params"]["mat"] = {"v": mat, "core": 2, "form": "array"}
            if mat0 is not None:
                o["params"]["mat0"] = {"v": mat0, "core": 2, "form": "array"}
        else:
            names = PHYS[kind]
            # every parameter gets its own shape (rank 0..|A0|, on its own axes, append-aligned);
            # together they span the raw operator shape A0
            shapes = param_shapes(rng, tuple(A0), len(names))
            for (nm, (lo, hi)), P in zip(names, shapes):
                if P == ():
                    o["params"][nm] = {"v": float(rnd_values(rng, lo, hi, ())), "core": 0, "form": "scalar"}
                else:
                    o["params"][nm] = {"v": rnd_values(rng, lo, hi, P).tolist(), "core": 0, "form": rng.choice(["array", "list"])}
            if deriv != "none" and (rng.random() < 0.7 or fmode):
                pnames = [nm for nm, _ in names]
                if deriv == "o2":
                    form = rng.choice(["true", "names", "names", "pairs", "pairs", "single"]) if kind != "R" else rng.choice(["names", "pairs", "single"])
                    if fmode == "mixed-o2":
                        form = rng.choice(["true", "names", "pairs"]) if kind != "R" else rng.choice(["names", "pairs"])
                    if form == "true":
                        o["order1"], o["order2"] = True, True
                    elif form == "names":
                        sub = sorted(rng.sample(pnames, rng.randint(2, len(pnames)))) if len(pnames) >= 2 else pnames
                        if fmode == "mixed-o2":
                            sub = pnames
                        o["order1"], o["order2"] = sub, list(sub)
                    elif form == "pairs":
                        import epgpy as epg
                        valid = sorted(tuple(sorted(pr)) for pr in getattr(epg, kind).PARAMETERS_ORDER2 if set(pr) <= set(pnames))
                        prs = valid if fmode == "mixed-o2" else rng.sample(valid, rng.randint(1, len(valid)))
                        o["order1"], o["order2"] = sorted({x for pr in prs for x in pr}), [list(pr) for pr in prs]
                    else:
                        nm1 = rng.choice(pnames)
                        o["order1"], o["order2"] = [nm1], nm1
                else:
                    o["order1"] = sorted(rng.sample(pnames, rng.randint(1, len(pnames))))
        ops.append(o)
        if hand:
            if rng.random() < 0.5:
                ops.append({"kind": "S", "k": 1, "A": [1]})
                shifted += 1
            if rng.random() < 0.5:
                ops.append({"kind": rng.choice(["SPOILER", "PDs", "Wait", "D", "RESET"] if rng.random() < 0.15 else ["SPOILER", "PDs", "Wait", "D"]), "A": [1]})
        elif nd:
            if rng.random() < 0.7:
                ops.append({"kind": "Snd", "k": list(kvec), "A": [1]})
                shifted += 1
        elif rng.random() < 0.45:
            d = rng.choice([1, 1, 2])
            if rng.random() < 0.25 and deriv == "none":   # S(array k) drops the partials even unbatched (not C07)
                Ak = tuple(G[i] if rng.random() < 0.7 else 1 for i in range(rng.randint(1, len(G))))
                k = np.array([rng.choice([1, 2]) for _ in range(prodn(Ak))]).reshape(Ak)
                ops.append({"kind": "S", "k": k.tolist(), "A": list(Ak)})
                ops.append({"kind": "T0"})
                ops.append({"kind": "S", "k": -1, "A": [1]})
            else:
                ops.append({"kind": "S", "k": d, "A": [1]})
                shifted += d
        if rng.random() < 0.2:
            ops.append({"kind": "ADC"})
    if nd:
        if not shifted:
            ops.append({"kind": "Snd", "k": list(kvec), "A": [1]})
            shifted = 1
        ops.append({"kind": "T0"})
        for _ in range(shifted):      # refocus echo by echo, acquiring each
            ops.append({"kind": "Snd", "k": [-x for x in kvec], "A": [1]})
            ops.append({"kind": "ADC"})
    elif shifted:
        ops.append({"kind": "T0"})
        ops.append({"kind": "S", "k": -shifted, "A": [1]})
    ops.append({"kind": "ADC"})
    if exact:
        for o in ops:
            if o["kind"] == "T0":
                o["kind"] = "M0"
    case = {"grid": list(G), "ops": ops, "deriv": deriv, "exact": exact, "probe": rng.choice(["F0", "Z0"])}
    if nd:
        case["nd"] = True
    if hand:
        case["hand"] = True
        case["inplace"] = rng.random() < 0.5
    return case


def param_value(p, idx0):
    """value of a parameter at raw-operator index idx0 (append-aligned)"""
    v = np.asarray(p["v"])
    bshape = v.shape[:v.ndim - p["core"]]
    return v[aproj(bshape, idx0)]


def param_obj(p):
    v = p["v"]
    if p["form"] == "array":
        return np.asarray(v)
    return v    # nested list or python scalar


def build_op(o, idx=None):
    import epgpy as epg
    from epgpy import opscalar, opmatrix
    k = o["kind"]
    if k == "ADC":
        return epg.ADC
    if k == "T0":
        return epg.T(35, 20)
    if k == "SPOILER":
        return epg.SPOILER
    if k == "RESET":
        return epg.RESET
    if k == "Wait":
        return epg.Wait(1.0)
    if k == "PDs":
        return epg.PD(1.5, reset=False)
    if k == "D":
        return epg.D(5.0, 1.0)
    if k == "Snd":      # n-D integer shift, default pruning
        return epg.S([int(x) for x in o["k"]])
    if k == "M0":
        return opmatrix.MatrixOp(np.array(M0, dtype=complex))
    if k == "S":
        kk = np.asarray(o["k"])
        if kk.ndim == 0:
            return epg.S(int(kk))
        if idx is None:
            if o.get("pad_to"):        # diagnosis only: append singleton axes up to the grid rank
                kk = kk.reshape(kk.shape + (1,) * (o["pad_to"] - kk.ndim))
            return epg.S(kk[..., None])
        return epg.S(np.array([int(kk[aproj(kk.shape, idx)])]))
    kw = {}
    if o.get("order1"):
        kw["order1"] = o["order1"]
    if o.get("order2"):
        o2 = o["order2"]
        kw["order2"] = [tuple(x) for x in o2] if isinstance(o2, list) and o2 and isinstance(o2[0], (list, tuple)) else o2
    if idx is None:
        vals = {nm: param_obj(p) for nm, p in o["params"].items()}
        if o["axes"] is not None:
            kw["axes"] = o["axes"] if isinstance(o["axes"], int) else tuple(o["axes"])
    else:
        aidx = aproj(o["A"], idx)
        idx0 = tuple(aidx[p] for p in o["pos"])
        vals = {nm: param_value(p, idx0) for nm, p in o["params"].items()}
        vals = {nm: (float(v) if np.ndim(v) == 0 else v) for nm, v in vals.items()}
    if k == "PD":
        return epg.PD(vals["pd"])
    if k == "ScalarOp":
        return opscalar.ScalarOp(vals["arr"], vals.get("arr0"), **kw)
    if k == "MatrixOp":
        return opmatrix.MatrixOp(vals["mat"], vals.get("mat0"), **kw)
    cls = getattr(epg, k)
    return cls(*[vals[nm] for nm, _ in PHYS[k]], **kw)


def probes_of(case, seq):
    import epgpy as epg
    pr = [case["probe"]]
    if case.get("nd"):
        pr = ["F0", "Z0", "nstate"]
    if case["deriv"] != "none":
        vs = sorted({v for op in seq for v in getattr(op, "order1", {})})
        if vs:
            for pb in ("F0", "Z0"):
                pr.append(epg.Jacobian(vs, probe=pb))
            if case["deriv"] == "o2":
                for pb in ("F0", "Z0"):
                    pr.append(epg.Hessian(vs, probe=pb))
    return pr


def run_vector(case):
    import epgpy as epg
    seq = [build_op(o) for o in case["ops"]]
    pr = probes_of(case, seq)
    out = epg.simulate(seq, probe=pr)
    return seq, [np.asarray(a) for a in (out if len(pr) > 1 else [out])]


def run_scalar(case, idx):
    import epgpy as epg
    seq = [build_op(o, idx) for o in case["ops"]]
    pr = probes_of(case, seq)
    out = epg.simulate(seq, probe=pr)
    return [np.asarray(a) for a in (out if len(pr) > 1 else [out])]


BOTH_RAISE = [0]


def spec_grid(case):
    """getshape as the property defines it: append-broadcast of the operator shapes"""
    shapes = [tuple(o["A"]) if o.get("A") else (1,) for o in case["ops"]]
    n = max(len(s) for s in shapes)
    G = [1] * n
    for s in shapes:
        for i, d in enumerate(s):
            if d != 1:
                if G[i] not in (1, d):
                    return None
                G[i] = d
    return tuple(G)


def apply_by_hand(case, idx=None):
    """sm = op_n(...op_1(StateMatrix())) with the case's in-place flag; returns states and every partial"""
    import epgpy as epg
    sm = epg.StateMatrix()
    for o in case["ops"]:
        sm = build_op(o, idx)(sm, inplace=bool(case.get("inplace")))
    out = {"states": np.array(sm.states)}
    for key, part in getattr(sm, "order1", {}).items():
        out["d:%s" % (key,)] = np.array(part.states)
    for key, part in getattr(sm, "order2", {}).items():
        out["d2:%s" % (tuple(sorted(key)),)] = np.array(part.states)
    return tuple(sm.shape), out


def oracle_hand(case):
    """operators applied by hand: states and all first/second-order partials of every grid entry against
    the scalar operators applied by hand"""
    G = spec_grid(case)
    try:
        shape, vec = apply_by_hand(case)
    except Exception as e:
        tb = traceback.extract_tb(e.__traceback__)
        where = ["%s:%d:%s" % (f.filename.split("/")[-1], f.lineno, f.name) for f in tb if "epgpy" in f.filename][-3:]
        try:
            apply_by_hand(case, (0,) * len(G or ()))
        except type(e):
            BOTH_RAISE[0] += 1
            return None
        except Exception:
            pass
        return ("exception", {"type": type(e).__name__, "msg": str(e)[:200], "where": where, "by_hand": True})
    if shape != G:
        return ("shape", {"got": list(shape), "expected": list(G), "by_hand": True})
    worst = None
    for idx in np.ndindex(*G):
        try:
            _, ref = apply_by_hand(case, idx)
        except Exception as e:
            return ("scalar-exception", {"type": type(e).__name__, "msg": str(e)[:200], "idx": list(idx)})
        if set(ref) != set(vec):
            return ("partials", {"vector": sorted(vec), "scalar": sorted(ref), "by_hand": True})
        for key, a in vec.items():
            bshape = a.shape[:-2]
            if len(bshape) > len(G) or any(d not in (1, Gd) for d, Gd in zip(bshape, G)):
                return ("shape", {"what": key, "got": list(bshape), "grid": list(G), "by_hand": True})
            got = a[aproj(bshape, idx)]
            r = ref[key].reshape(ref[key].shape[-2:])
            if r.shape != got.shape:
                return ("shape", {"what": key, "got": list(got.shape), "scalar": list(r.shape), "by_hand": True})
            if not np.all(np.abs(got - r) <= 1e-12 * (1 + np.max(np.abs(r)))):
                d = float(np.max(np.abs(got - r)))
                if worst is None or d > worst[1]["maxdiff"]:
                    worst = ("value", {"what": key, "idx": list(idx), "maxdiff": d, "by_hand": True})
    return worst


def oracle(case):
    """None if the vectorised run equals the stack of scalar runs, else (kind, detail)"""
    if case.get("hand"):
        return oracle_hand(case)
    G = spec_grid(case)
    try:
        seq, vec = run_vector(case)
    except Exception as e:
        tb = traceback.extract_tb(e.__traceback__)
        where = ["%s:%d:%s" % (f.filename.split("/")[-1], f.lineno, f.name) for f in tb if "epgpy" in f.filename][-3:]
        try:        # the scalar run of the first grid point raises the same way: not a matter of vectorisation
            run_scalar(case, (0,) * len(G or ()))
        except type(e):
            BOTH_RAISE[0] += 1
            return None
        except Exception:
            pass
        return ("exception", {"type": type(e).__name__, "msg": str(e)[:200], "where": where})
    nacq = sum(1 for o in case["ops"] if o["kind"] == "ADC")
    nvec = vec.pop() if case.get("nd") else None      # number of phase states at each acquisition
    nmax = None
    for a in vec:
        if tuple(a.shape[:1 + len(G)]) != (nacq,) + G:
            return ("shape", {"got": list(a.shape), "expected_prefix": [nacq] + list(G)})
    worst = None
    for idx in np.ndindex(*G):
        try:
            ref = run_scalar(case, idx)
        except Exception as e:
            return ("scalar-exception", {"type": type(e).__name__, "msg": str(e)[:200], "idx": list(idx)})
        if nvec is not None:
            ns = np.asarray(ref.pop()).reshape(-1)
            nmax = ns if nmax is None else np.maximum(nmax, ns)
        for pi, (a, r) in enumerate(zip(vec, ref)):
            got = a[(slice(None),) + idx]
            r = r.reshape(got.shape) if r.size == got.size else r
            if r.shape != got.shape:
                return ("shape", {"probe": pi, "got": list(got.shape), "scalar": list(r.shape)})
            if case["exact"]:
                bad = not np.array_equal(got, r)
            else:
                bad = not np.all(np.abs(got - r) <= 1e-12 * (1 + np.max(np.abs(r))))
            if bad:
                d = float(np.max(np.abs(got - r)))
                if worst is None or d > worst[1]["maxdiff"]:
                    worst = ("value", {"probe": pi, "idx": list(idx), "maxdiff": d, "vector": str(got.ravel()[:4]), "scalar": str(r.ravel()[:4])})
    if worst is None and nvec is not None and np.any(np.asarray(nvec).reshape(-1) < nmax):
        return ("state-count", {"vector_nstate": np.asarray(nvec).reshape(-1).tolist(), "max_scalar_nstate": nmax.tolist()})
    return worst


# ---------------------------------------------------------------- shrinking
def slice_case(case, axis, size):
    """restrict grid axis to its first [size] entries"""
    c = copy.deepcopy(case)
    if c["grid"][axis] <= size:
        return None
    c["grid"][axis] = size
    for o in c["ops"]:
        if o["kind"] == "S":
            kk = np.asarray(o["k"])
            if kk.ndim and axis < kk.ndim and kk.shape[axis] > size:
                o["k"] = np.take(kk, range(size), axis=axis).tolist()
                o["A"][axis] = size
            continue
        if "params" not in o:
            continue
        if axis < len(o["A"]) and o["A"][axis] > size:
            o["A"][axis] = size
            if axis in o["pos"]:
                t = o["pos"].index(axis)
                o["A0"][t] = size
                for p in o["params"].values():
                    v = np.asarray(p["v"])
                    if t < v.ndim - p["core"] and v.shape[t] > size:
                        v = np.take(v, range(size), axis=t)
                        p["v"] = v if p["form"] == "array" else v.tolist()
    return c


def shrink(case, fails):
    cur = case
    changed = True
    while changed:
        changed = False
        for i in range(len(cur["ops"]) - 1):           # drop operators (keep the final ADC)
            c = copy.deepcopy(cur)
            del c["ops"][i]
            if fails(c):
                cur, changed = c, True
                break
        if changed:
            continue
        for ax in range(len(cur["grid"])):             # smaller grid
            for size in (1, 2):
                c = slice_case(cur, ax, size)
                if c is not None and fails(c):
                    cur, changed = c, True
                    break
            if changed:
                break
    return cur


# ---------------------------------------------------------------- counterfactual patches (diagnosis only; /repo is not touched)
class patched:
    def __init__(self, which):
        self.which = which

    def __enter__(self):
        from epgpy import opmatrix, opscalar, common
        from epgpy import transition, evolution
        self.saved = (opmatrix.matrix_prod, opscalar.scalar_setup)
        self.saved_fns = []
        if self.which == "deriv-expand":
            def wrap(mod, name):
                f = getattr(mod, name)
                self.saved_fns.append((mod, name, f))
                setattr(mod, name, lambda *a, f=f: f(*common.expand_arrays(*a, append=True)))
            for nm in ("rotation_d_alpha", "rotation_d_phi", "rotation_d2_alpha", "rotation_d_alpha_phi", "rotation_d2_phi"):
                wrap(transition, nm)
            for nm in ("precession_d_tau", "precession_d_g", "precession_d2_tau", "precession_d2_g", "precession_d_tau_g"):
                wrap(evolution, nm)
        if self.which == "evolution_d-expand":
            def wrap3(name):
                f = getattr(evolution, name, None)
                if f is None:
                    return
                self.saved_fns.append((evolution, name, f))

                def w(rT, rL, r0=None, f=f):
                    rT, rL, r0 = common.expand_arrays(rT, rL, r0, append=True)
                    z = 0 * np.asarray(rT) + 0 * np.asarray(rL) + (0 if r0 is None else 0 * np.asarray(r0))
                    return f(rT + z, rL + z, None if r0 is None else r0 + z)
                setattr(evolution, name, w)
            for nm in ("evolution_d_rT", "evolution_d_rL", "evolution_d_r0", "evolution_d2_rT", "evolution_d2_rL", "evolution_d2_r0", "evolution_d_cross"):
                wrap3(nm)
        NAX = np.newaxis
        if self.which == "matmul-fallback":
            def matrix_prod(mat, states, inplace=False):
                ndim = states.ndim - mat.ndim + 1
                mat = mat[(...,) + (NAX,) * ndim + (slice(None), slice(None))] if ndim > 1 else mat[..., NAX, :, :]
                return np.matmul(mat, states[..., NAX])[..., 0]
            opmatrix.matrix_prod = matrix_prod
        if self.which == "scalar_setup-axes-once":
            def scalar_setup(arr, arr0=None, *, axes=None, check=True, ref=None):
                arr = opscalar.scalar_format(arr, check=check)
                if arr0 is not None:
                    arr0 = opscalar.scalar_format(arr0, check=check)
                    arr, arr0 = np.broadcast_arrays(arr, arr0)
                if axes is not None:
                    arr = common.set_axes(1, arr, axes)
                    arr0 = None if arr0 is None else common.set_axes(1, arr0, axes)
                if ref is not None:
                    arr, _ = np.broadcast_arrays(arr, ref)
                    arr0 = None if arr0 is None else np.broadcast_arrays(arr0, ref)[0]
                return common.ArrayTuple([arr, arr0])
            opscalar.scalar_setup = scalar_setup
        return self

    def __exit__(self, *a):
        from epgpy import opmatrix, opscalar
        opmatrix.matrix_prod, opscalar.scalar_setup = self.saved
        for mod, name, f in self.saved_fns:
            setattr(mod, name, f)


def classify(case, res):
    """signature of a failing case: which counterfactual repair makes it pass"""
    with patched("matmul-fallback"):
        if oracle(case) is None:
            return {"site": "matrix_prod-inplace", "why": "in-place-differs-from-fall-back"}
    has_axes_deriv = any(o.get("axes") is not None and o.get("order1") and o["kind"] in ("E", "P", "R") for o in case["ops"])
    if has_axes_deriv:
        with patched("scalar_setup-axes-once"):
            if oracle(case) is None:
                return {"site": "scalar_setup", "why": "axes+derivatives"}
    bs = [np.asarray(o["k"]) for o in case["ops"] if o["kind"] == "S" and np.ndim(o["k"]) > 0]
    if any(len(set(k.ravel().tolist())) > 1 for k in bs):
        c2 = copy.deepcopy(case)
        for o in c2["ops"]:
            if o["kind"] == "S" and np.ndim(o["k"]) > 0:
                o["k"] = (np.zeros_like(np.asarray(o["k"])) + int(np.asarray(o["k"]).ravel()[0])).tolist()
        if oracle(c2) is None:      # passes once every grid point shifts by the same amount
            return {"site": "S-batched", "why": "different-shifts-per-index"}
    g = len(spec_grid(case) or ())
    if any(k.ndim < g for k in bs):
        c2 = copy.deepcopy(case)
        for o in c2["ops"]:
            if o["kind"] == "S" and np.ndim(o["k"]) > 0:
                o["pad_to"] = g
        if oracle(c2) is None:      # passes once the shifts carry the trailing singleton axes themselves
            return {"site": "S-batched", "why": "shift-right-aligned-with-state"}
    if case["deriv"] != "none" and any(o["kind"] == "R" and o.get("order1") for o in case["ops"]):
        with patched("evolution_d-expand"):
            if oracle(case) is None:
                return {"site": "evolution_d", "why": "derivative-array-right-aligned-with-ref"}
    if case["deriv"] != "none":
        with patched("deriv-expand"):
            if oracle(case) is None:
                return {"site": "rotation_d/precession_d", "why": "derivative-coefficients-right-aligned"}
    if case["deriv"] != "none" and res[0] == "exception":
        w = " ".join(res[1].get("where", []))
        if "_acquire" in w or "accumulate" in w or "diff.py" in w or "stack" in res[1].get("msg", ""):
            return {"site": "Jacobian-stack", "why": "partials-of-different-batch-shapes"}
    if case.get("hand"):
        return {"site": "by-hand", "kind": res[0], "deriv": case["deriv"], "inplace": bool(case.get("inplace")),
                "kinds": sorted({o["kind"] for o in case["ops"] if "params" in o})}
    return {"site": "unclassified", "kind": res[0], "deriv": case["deriv"],
            "kinds": sorted({o["kind"] for o in case["ops"] if o["kind"] not in ("ADC", "T0", "M0", "Snd", "SPOILER", "RESET", "Wait", "PDs", "D")})}


def jsonable(case):
    c = copy.deepcopy(case)
    for o in c["ops"]:
        for p in o.get("params", {}).values():
            v = p["v"]
            if isinstance(v, np.ndarray):
                p["v"] = {"re": v.real.tolist(), "im": v.imag.tolist()}
    return c


def unjson(c):
    c = copy.deepcopy(c)
    for o in c["ops"]:
        for p in o.get("params", {}).values():
            v = p["v"]
            if isinstance(v, dict):
                p["v"] = np.array(v["re"]) + 1j * np.array(v["im"])
        if isinstance(o.get("axes"), list):
            o["axes"] = tuple(o["axes"])
    return c


# ---------------------------------------------------------------- (b) shapes against the model
def shape_terms(case, seq, vec):
    import epgpy as epg
    parts = []
    shapes_m = []
    for o, op in zip(case["ops"], seq):
        if "params" in o and o["kind"] != "PD":
            core_ = 2 if o["kind"] in MATRIX_KINDS else 1
            ps = []
            for p in o["params"].values():
                v = np.asarray(p["v"])
                ps.append(tuple(v.shape[:v.ndim - p["core"]]))
            m = "(op_shape %s %d %s)" % (clshape(ps), core_, caxes(o["axes"]))
        else:
            m = "(Some %s)" % cshape(op.shape)
        parts.append("oshape_eqb %s %s" % (m, coshape(tuple(op.shape))))
        shapes_m.append(tuple(op.shape))
    G = tuple(epg.getshape(seq))
    parts.append("oshape_eqb (getshape %s) %s" % (clshape(shapes_m), coshape(G)))
    nacq = sum(1 for o in case["ops"] if o["kind"] == "ADC")
    parts.append("shape_eqb (simulate_shape %d %s) %s" % (nacq, cshape(G), cshape(vec[0].shape)))
    parts.append("shape_eqb %s %s" % (cshape(G), cshape(spec_grid(case))))
    return "(" + " && ".join(parts) + ")"


def incompatible_of(rng, case):
    """make one operator shape clash with the grid"""
    c = copy.deepcopy(case)
    cands = [o for o in c["ops"] if o["kind"] in PHYS and o["axes"] is None]
    big = [i for i, d in enumerate(c["grid"]) if d > 1]
    if not cands or not big:
        return None
    o = rng.choice(cands)
    ax = rng.choice(big)
    nm, (lo, hi) = PHYS[o["kind"]][0]
    shape = [1] * (ax + 1)
    shape[ax] = c["grid"][ax] + 1
    o["params"][nm] = {"v": rnd_values(rng, lo, hi, tuple(shape)).tolist(), "core": 0, "form": "array"}
    for other in list(o["params"]):
        if other != nm:
            p = o["params"][other]
            if p["form"] != "scalar":
                p["v"], p["form"] = float(np.asarray(p["v"]).ravel()[0]), "scalar"
    if not any(oo is not o and "A" in oo and len(oo["A"]) > ax and oo["A"][ax] == c["grid"][ax] for oo in c["ops"]):
        return None
    return c


def part_bc(ctx, n, n_exact):
    rng = ctx.rng
    terms, kept = [], []
    stats = {"cases": 0, "exact_cases": 0, "grid_points": 0, "deriv": {}, "kinds": {}, "axes": {"none": 0, "int": 0, "tuple": 0},
             "ranks": {}, "incompatible_raised": 0, "incompatible_tried": 0, "failing_before_shrink": 0}
    reported = set()
    for i in range(n + n_exact):
        exact = i >= n
        directed = (not exact) and i % 5 == 3
        mixed = (not exact) and i % 5 == 1
        byhand = (not exact) and i % 5 == 0
        ndshift = (not exact) and i % 5 == 2
        case = gen_case(rng, ctx.tier, exact=exact, deriv="o1" if directed else "o2" if mixed else "none" if ndshift else rng.choice(["o1", "o2"]) if byhand else None,
                        force="axes+deriv" if directed else "mixed-o2" if mixed else "nd-shift" if ndshift else "hand" if byhand else None)
        stats["cases"] += 1
        stats["exact_cases"] += int(exact)
        stats["deriv"][case["deriv"]] = stats["deriv"].get(case["deriv"], 0) + 1
        stats["ranks"][len(case["grid"])] = stats["ranks"].get(len(case["grid"]), 0) + 1
        for o in case["ops"]:
            stats["kinds"][o["kind"]] = stats["kinds"].get(o["kind"], 0) + 1
            if "axes" in o:
                stats["axes"]["none" if o["axes"] is None else "int" if isinstance(o["axes"], int) else "tuple"] += 1
        stats["grid_points"] += prodn(case["grid"])
        ctx.count(("seq", str(jsonable(case))), nontrivial=prodn(case["grid"]) > 1)
        if i < 2:
            ctx.sample({"grid": case["grid"], "ops": [(o["kind"], o.get("A"), o.get("axes")) for o in case["ops"]], "deriv": case["deriv"]})
        res = oracle(case)
        if res is None:
            try:
                seq, vec = run_vector(case)
                terms.append(shape_terms(case, seq, vec))
                kept.append(case)
            except Exception:
                pass
        else:
            stats["failing_before_shrink"] += 1
            sig0 = classify(case, res)
            if str(sorted(sig0.items())) in reported:
                continue
            kind0 = (res[0], res[1].get("type"))

            def same(c, kind0=kind0):
                r = oracle(c)
                return r is not None and (r[0], r[1].get("type")) == kind0
            small = shrink(case, same)
            res = oracle(small)
            sig = classify(small, res)
            key = str(sorted(sig.items()))
            first = key not in reported
            reported.add(str(sorted(sig0.items())))
            if first:
                reported.add(key)
                ctx.report("vectorised simulate() differs from the stack of scalar runs (%s): %s" % (res[0], res[1]),
                           {"case": jsonable(small), "result": res}, found_input=True, signature=sig)
        # incompatible shapes must raise
        if not exact and rng.random() < 0.3:
            bad = incompatible_of(rng, case)
            if bad is not None:
                stats["incompatible_tried"] += 1
                try:
                    run_vector(bad)
                    ctx.report("incompatible parameter shapes did not raise", {"case": jsonable(bad), "expect": "raise"}, found_input=True,
                               signature={"site": "getshape", "why": "incompatible-accepted"})
                except ValueError:
                    stats["incompatible_raised"] += 1
                except Exception as e:
                    ctx.report("incompatible parameter shapes raised %s instead of ValueError" % type(e).__name__,
                               {"case": jsonable(bad), "expect": "raise"}, found_input=True, signature={"site": "getshape", "why": type(e).__name__})
    verdicts, errors = ctx.run_bool_cases("seqshape", HEADER, terms, chunk=40)
    for e in errors:
        ctx.report("sequence-shape shard failed to evaluate", {"theorem_or_correspondence": "C07 (b) op.shape/getshape/simulate shape vs Model/Vector.v", "coq_output": e}, found_input=False)
    done = False
    for case, v in zip(kept, verdicts):
        if v is False and not done:
            done = True
            ctx.report("op.shape / getshape / simulate().shape differ from the model", {"case": jsonable(case), "shape_only": True},
                       found_input=True, signature={"site": "getshape", "why": "model-vs-implementation"})
    stats["vector_and_scalar_raise_alike_skipped"] = BOTH_RAISE[0]
    ctx.cov["oracle"] = stats


# ---------------------------------------------------------------- exchange operator X in a vectorised sequence
def gen_xcase(rng):
    """grid (n, 2): axis 0 = batch of mixing times / relaxation values, axis 1 = the two exchanging compartments"""
    n = rng.choice([2, 3, 3])
    def per_comp(lo, hi, zero_p=0.0):
        shape = rng.choice([(1, 2), (n, 2)])
        v = rnd_values(rng, lo, hi, shape)
        if zero_p and rng.random() < zero_p:
            v[tuple(rng.randrange(d) for d in shape)] = 0.0
        return v.tolist()
    taus = [float(rng.choice([0.0, 0.0, 2.0, 5.0, 20.0])) for _ in range(n)]
    if rng.random() < 0.5 and 0.0 not in taus:
        taus[rng.randrange(n)] = 0.0       # boundary value inside the batch
    x = {"tau": taus if rng.random() < 0.85 else taus[0], "khi": float(rng.choice([0.01, 0.05, 0.2])),
         "T1": per_comp(500, 1500) if rng.random() < 0.8 else None, "T2": per_comp(30, 120) if rng.random() < 0.8 else None,
         "g": per_comp(-0.05, 0.05, 0.5) if rng.random() < 0.5 else None}
    ops = [("T", float(rng.choice([40, 60, 90])), 90.0)]
    for _ in range(rng.randint(2, 5)):
        k = rng.choice(["X", "X", "S", "T", "Tb", "E"])
        if k == "X":
            ops.append(("X",))
        elif k == "S":
            ops.append(("S", 1))
        elif k == "T":
            ops.append(("T", float(rng.choice([30, 60, 160])), float(rng.choice([0, 90]))))
        elif k == "Tb":
            ops.append(("Tb", rnd_values(rng, 20, 160, (n,)).tolist(), 0.0))
        else:
            ops.append(("E", 5.0, rnd_values(rng, 500, 1500, (n,)).tolist(), 60.0))
    if not any(o[0] == "X" for o in ops):
        ops.append(("X",))
    ops += [("S", 1), ("ADC",)]
    return {"n": n, "x": x, "ops": ops}


def build_xseq(xc, i=None):
    import epgpy as epg
    x = xc["x"]

    def pick(v):          # per-compartment parameter of grid row i
        if v is None:
            return None
        a = np.asarray(v, dtype=float)
        return a if i is None else a[i if a.shape[0] > 1 else 0]
    tau = x["tau"] if i is None or np.ndim(x["tau"]) == 0 else x["tau"][i]
    kw = {nm: pick(x[nm]) for nm in ("T1", "T2", "g") if x[nm] is not None}
    xop = epg.X(np.asarray(tau, dtype=float) if i is None else float(tau), x["khi"], axis=1 if i is None else 0, **kw)
    seq = []
    for o in xc["ops"]:
        if o[0] == "X":
            seq.append(xop)
        elif o[0] == "S":
            seq.append(epg.S(o[1]))
        elif o[0] == "T":
            seq.append(epg.T(o[1], o[2]))
        elif o[0] == "Tb":
            seq.append(epg.T(np.asarray(o[1])[:, None] if i is None else o[1][i], o[2]))
        elif o[0] == "E":
            seq.append(epg.E(o[1], np.asarray(o[2])[:, None] if i is None else o[2][i], o[3]))
        else:
            seq.append(epg.ADC)
    return seq


def oracle_x(xc):
    import epgpy as epg
    n = xc["n"]
    try:
        seq = build_xseq(xc)
        outs = [np.asarray(a) for a in epg.simulate(seq, probe=["F0", "Z0"])]
    except Exception as e:
        try:
            epg.simulate(build_xseq(xc, 0), probe=["F0", "Z0"])
        except type(e):
            return None
        except Exception:
            pass
        return ("exception", {"type": type(e).__name__, "msg": str(e)[:200]})
    nacq = sum(1 for o in xc["ops"] if o[0] == "ADC")
    x = xc["x"]
    batched = np.ndim(x["tau"]) > 0 or any(o[0] in ("Tb", "E") for o in xc["ops"]) or \
        any(x[nm] is not None and len(x[nm]) > 1 for nm in ("T1", "T2", "g"))
    n = n if batched else 1      # rows of the grid the property defines
    if tuple(epg.getshape(seq)) != (n, 2) or any(a.shape != (nacq, n, 2) for a in outs):
        return ("shape", {"getshape": list(epg.getshape(seq)), "out": [list(a.shape) for a in outs], "expected": [nacq, n, 2]})
    for i in range(n):
        refs = [np.asarray(a) for a in epg.simulate(build_xseq(xc, i), probe=["F0", "Z0"])]
        for pi, (a, r) in enumerate(zip(outs, refs)):
            got, r = a[:, i], r.reshape(a[:, i].shape)
            if not (np.all(np.isfinite(got)) or not np.all(np.isfinite(r))) or \
                    not np.all(np.abs(got - r) <= 1e-10 * (1 + np.max(np.abs(r)))):
                return ("value", {"probe": ["F0", "Z0"][pi], "row": i, "tau": xc["x"]["tau"], "vector": str(got.ravel()[:4]), "scalar": str(r.ravel()[:4])})
    return None


def part_x(ctx, n):
    rng = ctx.rng
    stats = {"cases": 0, "with_tau0_in_batch": 0, "failing": 0}
    reported = set()
    for _ in range(n):
        xc = gen_xcase(rng)
        stats["cases"] += 1
        t = xc["x"]["tau"]
        stats["with_tau0_in_batch"] += int(np.ndim(t) > 0 and 0.0 in t and any(v != 0 for v in t))
        ctx.count(("x", str(xc)))
        res = oracle_x(xc)
        if res is None:
            continue
        stats["failing"] += 1
        changed = True                      # shrink: drop operators while the same kind of failure remains
        while changed:
            changed = False
            for j in range(len(xc["ops"]) - 1):
                c = dict(xc, ops=xc["ops"][:j] + xc["ops"][j + 1:])
                r = oracle_x(c) if any(o[0] == "X" for o in c["ops"]) else None
                if r is not None and r[0] == res[0]:
                    xc, res, changed = c, r, True
                    break
        tau0 = bool(np.ndim(xc["x"]["tau"]) > 0 and 0.0 in xc["x"]["tau"])
        sig = {"site": "X-batched", "kind": res[0], "tau0_in_batch": tau0}
        if str(sig) not in reported:
            reported.add(str(sig))
            ctx.report("vectorised simulate() with the exchange operator X differs from the stack of scalar runs (%s): %s" % res,
                       {"xcase": xc, "result": res}, found_input=True, signature=sig)
    ctx.cov["exchange_stream"] = stats


# ---------------------------------------------------------------- listed witnesses (always replayed)
def witness_inplace():
    import epgpy as epg
    seq = [epg.T(90, 90), epg.E(5, [300, 800], 50), epg.S(1), epg.T([[30, 120]], 0), epg.S(-1), epg.Adc("Z0")]
    v = np.asarray(epg.simulate(seq))[0]
    ref = np.zeros((2, 2), dtype=complex)
    for i in range(2):
        for j in range(2):
            s = [epg.T(90, 90), epg.E(5, [300, 800][i], 50), epg.S(1), epg.T([30, 120][j], 0), epg.S(-1), epg.Adc("Z0")]
            ref[i, j] = np.asarray(epg.simulate(s)).ravel()[0]
    return v, ref


def witness_twice():
    """regression witness (defect repaired by 8deb244): a (1,1,2) MatrixOp on a
    (2,1,2,1) state. Returns (in-place result, fall-back result) of matrix_prod"""
    from epgpy import opmatrix
    mat = np.array([1.0, 2.0]).reshape(1, 1, 2)[..., None, None] * np.eye(3)
    st = np.ones((2, 1, 2, 1, 1, 3), dtype=complex)
    a = opmatrix.matrix_prod(mat, st.copy(), inplace=True)[..., 0, 0].real
    b = opmatrix.matrix_prod(mat, st.copy(), inplace=False)[..., 0, 0].real
    return a, b


def run(ctx):
    proved = ctx.prove(gen=False)
    quick = ctx.tier == "quick"
    # regression witnesses of the two repaired in-place matmul defects (must pass)
    a, b = witness_twice()
    if not (a.shape == b.shape and np.array_equal(a, b)):
        ctx.report("in-place matmul operand carries the inserted batch axes twice when states.ndim - mat.ndim + 1 > 1: "
                   "matrix_prod(mat (1,1,2,3,3), states (2,1,2,1,ns,3), inplace=True) gives %s, the fall-back form %s"
                   % (a.squeeze().tolist(), b.squeeze().tolist()),
                   {"witness": "axes-inserted-twice", "inplace": str(a.squeeze()), "fallback": str(b.squeeze())}, found_input=True,
                   signature={"site": "matrix_prod-inplace", "why": "axes-inserted-twice", "shapes": "state rank >= op rank + 1"})
    part_a(ctx, 90 if quick else 1500)
    v, ref = witness_inplace()
    if not np.allclose(v, ref, rtol=1e-12, atol=1e-14):
        ctx.report("in-place matmul aligns a (1,m) MatrixOp with the wrong axis of a (k,m) state: "
                   "[T(90,90), E(5,[300,800],50), S(1), T([[30,120]],0), S(-1), Adc('Z0')] gives %s, the four scalar runs give %s"
                   % (np.round(v.real, 5).tolist(), np.round(ref.real, 5).tolist()),
                   {"witness": "DESIGN 9.14", "vector": str(v), "scalar": str(ref)}, found_input=True,
                   signature={"site": "matrix_prod-inplace", "shapes": "op(1,m) state(k,m)"})
    ctx.notes["regression_witnesses"] = "DESIGN 9.14 (1,m)x(k,m) and axes-inserted-twice (1,1,2)x(2,1,2,1): replayed"
    part_bc(ctx, 85 if quick else 1500, 25 if quick else 400)
    part_x(ctx, 25 if quick else 400)
    ctx.cov["trusted_base"] += [
        "hand-written model Model/Vector.v tied to epgpy.common / scalar_prod / matrix_prod / prepare / getshape by exact correspondence of shapes, raise/no-raise and of the elements read (index-encoded arrays)",
        "numpy broadcasting, in-place ufunc and gufunc out= rules as modelled (np_bshape, np_proj, np_inplace_ok, np_out_ok), validated by the same correspondence",
        "python mirror of aproj used to build the scalar runs of the oracle (props/c07.py)",
    ]
    if not proved:
        ctx.report("proof obligations of C07 no longer check: %s" % ctx.failed_obligations,
                   {"theorem_or_correspondence": ctx.failed_obligations}, found_input=False)


def replay(ctx, rp):
    if rp.get("witness") in ("axes-inserted-twice", "C07_matrix_prod_inplace_tree_refuted"):
        a, b = witness_twice()
        bad = not (a.shape == b.shape and np.array_equal(a, b))
        print("replay: VIOLATION reproduced: in place %s, fall-back %s" % (a.squeeze().tolist(), b.squeeze().tolist()) if bad else "replay: in-place equals fall-back")
        return 1 if bad else 0
    if "witness" in rp:
        v, ref = witness_inplace()
        bad = not np.allclose(v, ref, rtol=1e-12, atol=1e-14)
        print("replay: VIOLATION reproduced: %s vs %s" % (np.round(v.real, 5).tolist(), np.round(ref.real, 5).tolist()) if bad else "replay: vectorised run equals the scalar runs")
        return 1 if bad else 0
    if "xcase" in rp:
        xc = rp["xcase"]
        xc["ops"] = [tuple(o) for o in xc["ops"]]
        res = oracle_x(xc)
        print("replay: VIOLATION reproduced: %s" % (res,) if res else "replay: vectorised run equals the scalar runs")
        return 1 if res else 0
    if "shape_case" in rp:
        print("replay: shape correspondence case %s — rerun ./check C07" % rp["shape_case"].get("what"))
        return 1
    case = unjson(rp["case"])
    if rp.get("expect") == "raise":
        try:
            run_vector(case)
            print("replay: VIOLATION reproduced: no exception")
            return 1
        except ValueError:
            print("replay: raised ValueError")
            return 0
    res = oracle(case)
    print("replay: VIOLATION reproduced: %s" % (res,) if res else "replay: vectorised run equals the scalar runs")
    return 1 if res else 0
