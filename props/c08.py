"""C08 — state matrices stay well-formed under every operator."""
from vlib import core, prog

HEADER = prog.HEADER + "From EPG Require Import Wf.\n"


def gen_cases(ctx, n):
    cases = []
    for i in range(n):
        p = prog.gen_program(ctx.rng, maxlen=10 if ctx.tier == "quick" else 16)
        p["inplace"] = ctx.rng.random() < 0.7
        cases.append(p)
    return cases


def term(p, snaps):
    ops = prog.c_ops(p)
    obs = core.clist([prog.c_sm(s) for s in snaps[1:]])
    # model trace == implementation snapshots  &&  every snapshot is well-formed
    return "(trace_ok %s %s %s && forallb (@wfb QIops) %s)" % (ops, prog.c_sm(snaps[0]), obs, obs)


# ---------------------------------------------------------------- real operators (n-D, float, D, X, truncation)
HEADER2 = prog.HEADER + "From EPG Require Import Wf WfNd.\n"


def q(x):
    return "(Q2Qc %s)" % core.qlit(x)


def gen_real(rng):
    """a program of real epgpy operators, described by constructor expressions (evaluated with `epg` in scope)"""
    fam = rng.choice(["1d", "nd", "nd", "float", "floatcap", "halfgrid", "xchg", "xchg", "diffusion", "diffusion", "trunc", "trunc"])
    ops, init, opts = [], "epg.StateMatrix()", {}

    def rf():
        return "epg.T(%s, %s)" % (rng.choice([20, 45, 90, 120, 160]), rng.choice([0, 30, 90, 200]))

    def relax():
        return "epg.E(%s, %s, %s, %s)" % (rng.choice([2, 5, 10]), rng.choice([400, 1000]), rng.choice([30, 80]), rng.choice([0, 0.01, -0.03]))
    n = rng.randint(3, 9)
    if fam == "trunc":
        # build up phase states without a cap, then shift with a cap below the extent already reached
        nd = rng.random() < 0.7
        dim = rng.choice([1, 2, 3])

        def sh(extra=""):
            if not nd:
                return "epg.S(%d%s)" % (rng.choice([1, 1, 2, -1]), extra)
            v = [rng.choice([1, 0, -1]) for _ in range(dim)]
            v[0] = v[0] or 1
            return "epg.S(np.array(%s)%s)" % (v, extra)
        for _ in range(rng.randint(2, 4)):
            ops += [rf(), sh(), relax()]
        ops += [rf(), sh(", nmax=%d" % rng.choice([1, 2]))]
        if rng.random() < 0.5:
            ops += [rf(), sh()]
    elif fam == "1d":
        if rng.random() < 0.4:
            init = "epg.StateMatrix(max_nstate=%d)" % rng.choice([1, 2, 3])
        for _ in range(n):
            k = rng.choice(["rf", "rf", "relax", "shift", "shift", "shift", "reset", "pd", "spoil"])
            if k == "rf": ops.append(rf())
            elif k == "relax": ops.append(relax())
            elif k == "shift":
                ops.append("epg.S(%d%s)" % (rng.choice([1, 2, 3, -1, -2]), rng.choice(["", "", ", nmax=%d" % rng.choice([1, 2, 4])])))
            elif k == "reset": ops.append("epg.RESET")
            elif k == "pd": ops.append("epg.PD(%s, reset=%s)" % (rng.choice([0.5, 2, "[1, 2]", "[1, 2]", "np.array([[0.5], [2.0]])"]), rng.choice([True, False, False])))
            else: ops.append("epg.SPOILER")
    elif fam == "nd":
        dim = rng.choice([1, 2, 3])
        batched = rng.random() < 0.3
        for _ in range(n):
            k = rng.choice(["rf", "rf", "relax", "shift", "shift", "shift", "shift", "reset", "pd"])
            if k == "rf": ops.append(rf())
            elif k == "relax": ops.append(relax())
            elif k == "shift":
                def vec():
                    v = [rng.choice([0, 1, -1, 2]) for _ in range(dim)]
                    if not any(v): v[0] = 1
                    return v
                kv = [vec(), vec()] if batched else [vec()]
                extra = rng.choice(["", "", ", nmax=%d" % rng.choice([1, 2, 3]), ", prune=%s" % rng.choice([0, 1e-8, 1e-2])])
                ops.append("epg.S(np.array(%s)%s)" % (kv if batched else kv[0], extra))
            elif k == "reset": ops.append("epg.RESET")
            else: ops.append("epg.PD(%s, reset=%s)" % (rng.choice([0.5, 2, "[1, 2]"]), rng.choice([True, False])))
    elif fam == "floatcap":
        # float shifts of equal area along different axes under a cap on the number of phase states: several +-k groups
        # share the same |k|, so a cap applied by rank would keep a state and drop its mirror
        dim = rng.choice([2, 2, 3])
        init = "epg.StateMatrix(kgrid=%s, max_nstate=%s)" % (rng.choice([0.25, 0.5, 1.0]), rng.choice([1, 3, 1, 3, 2, 5]))
        ax = 0
        for j in range(rng.randint(4, 9)):
            ops.append(rf())
            if rng.random() < 0.4:
                ops.append(relax())
            v = [0.0] * dim
            v[ax % dim] = float(rng.choice([1.0, 1.0, -1.0]))
            ax += rng.choice([1, 1, 0, 2])
            ops.append("epg.S(np.array(%s))" % v)
    elif fam == "float":
        dim = rng.choice([1, 2, 3])
        # half of the float programs also carry a cap on the number of phase states (max_nstate), which the float
        # back-ends must either ignore or apply to whole +-k groups: the state matrix has to stay well-formed
        cap = rng.choice(["", "", ", max_nstate=1", ", max_nstate=3", ", max_nstate=2"])
        init = "epg.StateMatrix(kgrid=%s%s)" % (rng.choice([0.25, 1.0, 3.0]), cap)
        unit_axes = bool(cap) and dim >= 2 and rng.random() < 0.6
        for _ in range(n):
            k = rng.choice(["rf", "rf", "relax", "shift", "shift", "shift", "reset"])
            if k == "shift" and unit_axes:
                # equal areas along different axes: several +-k groups share the same |k|
                v = [0.0] * dim
                v[rng.randrange(dim)] = float(rng.choice([1.0, 1.0, -1.0]))
                ops.append("epg.S(np.array(%s))" % v)
                continue
            if k == "rf": ops.append(rf())
            elif k == "relax": ops.append(relax())
            elif k == "shift":
                v = [rng.choice([0.5, 1.0, -1.25, 2.0, 0.75]) for _ in range(dim)]
                ops.append("epg.S(np.array(%s)%s)" % (v, rng.choice(["", "", ", prune=%s" % rng.choice([0, 1e-3])])))
            else: ops.append("epg.RESET")
    elif fam == "halfgrid":
        # integer n-D shifts on a grid twice (or 2/3) as coarse: states sit exactly at half cells; then float shifts,
        # single (shift-merge) or batched (shift-prune), by multiples of half a cell
        dim = rng.choice([1, 2, 3])
        g = rng.choice([2.0, 2.0, 1.0, 0.5])
        init = "epg.StateMatrix(kgrid=%s)" % g
        def ivec():
            v = [rng.choice([0, 1, -1]) for _ in range(dim)]
            v[rng.randrange(dim)] = rng.choice([1, -1])
            return v
        def fvec():
            v = [rng.choice([0.0, 0.5, -0.5, 1.0, 1.5]) * g for _ in range(dim)]
            if not any(v): v[0] = 0.5 * g
            return v
        ops.append(rf())
        for _ in range(rng.randint(1, 3)):
            ops += ["epg.S(np.array(%s), prune=0)" % ivec(), rf()]
            if rng.random() < 0.4: ops.append(relax())
        for _ in range(rng.randint(1, 3)):
            if rng.random() < 0.6:
                ops.append("epg.S(np.array([%s, %s])%s)" % (fvec(), fvec(), rng.choice(["", ", prune=0"])))
            else:
                ops.append("epg.S(np.array(%s)%s)" % (fvec(), rng.choice(["", ", prune=0"])))
            ops.append(rf())
    elif fam == "xchg":
        init = "epg.StateMatrix(shape=(2,))"
        ops += [rf(), "epg.S(1)"]          # transverse magnetisation in a non-zero phase state before the first exchange
        for _ in range(n):
            k = rng.choice(["rf", "rf", "shift", "shift", "x", "x", "reset"])
            if k == "rf": ops.append(rf())
            elif k == "shift": ops.append(rng.choice(["epg.S(1)", "epg.S(-1)", "epg.S(2, nmax=2)", "epg.S(np.array([1, 0, 1]))"]))
            elif k == "x":
                ops.append("epg.X(%s, %s, T1=%s, T2=%s, g=%s)" % (rng.choice([2, 5, 20]), rng.choice([0.01, 0.1]),
                           rng.choice(["None", "[1000, 300]"]), rng.choice(["None", "[80, 20]"]), rng.choice(["None", "[0, 0.03]", "[-0.02, 0.05]"])))
            else: ops.append("epg.RESET")
    else:  # diffusion
        dim = rng.choice([1, 3])
        for _ in range(n):
            k = rng.choice(["rf", "rf", "shift", "shift", "d", "d", "relax"])
            if k == "rf": ops.append(rf())
            elif k == "relax": ops.append(relax())
            elif k == "shift":
                if dim == 1: ops.append("epg.S(%d)" % rng.choice([1, 2, -1]))
                else: ops.append("epg.S(np.array(%s))" % [rng.choice([0, 1, -1, 2]) or 1 for _ in range(3)])
            elif rng.random() < 0.5 or not ops or not ops[-1].startswith("epg.S("):
                ops.append("epg.D(%s, %s)" % (rng.choice([5, 20]), rng.choice([1.0, 2.5])))
            else:
                # D(tau, D, k): diffusion during the gradient that produced the preceding shift S(k)
                kexpr = ops[-1][len("epg.S("):-1]
                ops.append("epg.D(%s, %s, %s)" % (rng.choice([5, 20]), rng.choice([1.0, 2.5]), kexpr))
    # a batched density with reset=False leaves the states on fewer batch axes than the equilibrium: the operators that
    # follow (RESET above all) must still produce a well-formed matrix
    out = []
    for o in ops:
        out.append(o)
        if o.startswith("epg.PD(") and ("[" in o) and "reset=False" in o and rng.random() < 0.6:
            out.append(rng.choice(["epg.RESET", "epg.RESET", "epg.SPOILER", "epg.T(60, 45)"]))
    return {"family": fam, "init": init, "ops": out}


def run_real(p):
    import numpy as np
    import epgpy as epg
    env = {"epg": epg, "np": np}
    sm = eval(p["init"], env)
    snaps = []
    xmats = p.setdefault("_xmats", [])
    for o in p["ops"]:
        opobj = eval(o, env)
        sm = opobj(sm, inplace=True)
        if isinstance(opobj, epg.X):
            xmats.append((o, np.array(opobj.mat).reshape(-1, 3)))
        st = np.array(sm.states); eq = np.array(sm.equilibrium)
        co = None if sm.coords is None else np.array(sm.coords)
        B = st.shape[:-2]
        stf = st.reshape((-1,) + st.shape[-2:]); eqf = np.broadcast_to(eq, st.shape).reshape(stf.shape)
        cof = None
        if co is not None:
            cof = np.broadcast_to(co, B + co.shape[-2:]).reshape((-1,) + co.shape[-2:]) if co.ndim >= 2 else None
        consistent = (st.shape[:-2] == tuple(sm.shape)) and st.shape[-2] == 2 * sm.nstate + 1 and eq.shape[-2] == st.shape[-2] \
            and (co is None or co.shape[-2] == st.shape[-2])
        snaps.append((o, stf, eqf, cof, consistent))
    return snaps


def real_term(stf, eqf, cof, b):
    stc = core.clist([prog.c_triple(r) for r in stf[b].tolist()])
    eqc = core.clist([prog.c_triple(r) for r in eqf[b].tolist()])
    if cof is None:
        coc = "None"
    else:
        coc = "(Some %s)" % core.clist([core.clist([q(float(x)) for x in row]) for row in cof[b].tolist()])
    return "(wfb_obs (Q2Qc (1 # 100000000000)) %s %s %s)" % (stc, eqc, coc)


def run_real_stream(ctx, n):
    terms, meta = [], []
    fams = {}
    nx = [0]
    for i in range(n):
        p = gen_real(ctx.rng)
        fams[p["family"]] = fams.get(p["family"], 0) + 1
        try:
            snaps = run_real(p)
        except Exception as e:
            p.pop("_xmats", None)
            ctx.report("implementation raised %s on a valid program: %s" % (type(e).__name__, str(e)[:200]), {"real_case": p},
                       found_input=True, signature={"raises": type(e).__name__, "family": p["family"]})
            continue
        xm = p.pop("_xmats", [])
        ctx.count(("real", p["ops"], p["init"]), nontrivial=True)
        if i < 3:
            ctx.sample({"real_program": p})
        for (o, m) in xm:
            # side conditions of C08_exchange_keeps_symmetry on the operator's own matrices
            ch = [core.clist([core.qi(complex(x)) for x in m[:, c]]) for c in range(3)]
            terms.append("(xmat_sym_ok (Q2Qc (1 # 100000000000)) %s %s %s)" % tuple(ch))
            meta.append((p, len(p["ops"]) - 1, o + " [mat: F- matrix = conj F+ matrix, Z matrix real]"))
            nx[0] += 1
        for step, (o, stf, eqf, cof, consistent) in enumerate(snaps):
            if not consistent:
                ctx.report("state count / shape of states, equilibrium, coords and sm.shape disagree after %s" % o,
                           {"real_case": dict(p, ops=p["ops"][:step + 1])}, found_input=True, signature={"op": o.split("(")[0], "why": "shape"})
                break
            # evaluate the predicate on the last step of every program and on a random earlier one
            if step == len(snaps) - 1 or ctx.rng.random() < 0.35:
                for b in range(min(stf.shape[0], 2)):
                    terms.append(real_term(stf, eqf, cof, b))
                    meta.append((p, step, o))
    verdicts, errors = ctx.run_bool_cases("real", HEADER2, terms, chunk=12)
    for e in errors:
        ctx.report("wf-predicate shard failed to evaluate", {"theorem_or_correspondence": "C08 wfb_obs on observed arrays", "coq_output": e}, found_input=False)
    seen = set()
    for (p, step, o), v in zip(meta, verdicts):
        if v is False and id(p) not in seen:
            seen.add(id(p))
            ctx.report("state after %s is not well-formed (conjugate symmetry / equilibrium / coordinates)" % o,
                       {"real_case": dict(p, ops=p["ops"][:step + 1])}, found_input=True,
                       signature={"op": o.split("(")[0], "family": p["family"], "why": "wfb_obs"})
    ctx.cov["real_operator_families"] = fams
    ctx.cov["wfb_obs_evaluations"] = len(terms) - nx[0]
    ctx.cov["xmat_sym_evaluations"] = nx[0]


def run(ctx):
    proved = ctx.prove(gen=False)
    run_real_stream(ctx, 60 if ctx.tier == "quick" else 1500)
    n = 120 if ctx.tier == "quick" else 2000
    cases = gen_cases(ctx, n)
    terms, kept = [], []
    for p in cases:
        try:
            snaps = prog.run_impl(p, inplace=p["inplace"])
        except Exception as e:
            ctx.report("implementation raised %s on a valid program: %s" % (type(e).__name__, e),
                       {"case": p}, found_input=True, signature={"raises": type(e).__name__})
            continue
        terms.append(term(p, snaps))
        kept.append((p, snaps))
        ctx.count(p, nontrivial=len(p["ops"]) >= 2)
        ctx.sample({"program": prog.signature(p), "pd": p["pd"], "max_nstate": p["max_nstate"]})
    verdicts, errors = ctx.run_bool_cases("corr", HEADER, terms, chunk=10)
    for e in errors:
        ctx.report("correspondence shard failed to evaluate", {"theorem_or_correspondence": "C08 correspondence (Cases)", "coq_output": e}, found_input=False)
    for (p, snaps), v in zip(kept, verdicts):
        if v is False:
            analyse(ctx, p, snaps)
    ctx.cov["trusted_base"] += ["hand-written model Model/State.v, Model/Ops.v tied to epgpy by exact (dyadic) correspondence of every intermediate state"]
    if not proved:
        ctx.report("proof obligations of C08 no longer check: %s" % ctx.failed_obligations,
                   {"theorem_or_correspondence": ctx.failed_obligations}, found_input=False)


def analyse(ctx, p, snaps):
    """shrink a disagreeing program, decide whether the implementation violates well-formedness"""
    import numpy as np
    # find first snapshot that is not well-formed (python-side oracle mirrors wfb)
    for i, (st, eq) in enumerate(snaps):
        bad = wf_violation(np.array(st), np.array(eq))
        if bad:
            sub = dict(p, ops=p["ops"][:i])
            ctx.report("state after %s is not well-formed: %s" % (p["ops"][i - 1]["op"] if i else "init", bad),
                       {"case": sub, "states": st, "equilibrium": eq, "why": bad}, found_input=True,
                       signature={"op": p["ops"][i - 1]["op"] if i else "init", "why": bad})
            return
    ctx.report("model and implementation disagree (all observed states well-formed)",
               {"case": p, "theorem_or_correspondence": "C08 correspondence Model/Ops.v vs epgpy"}, found_input=False,
               signature={"corr": prog.signature(p)})


def wf_violation(st, eq):
    n2 = st.shape[0]
    if n2 % 2 != 1:
        return "even state count"
    if eq.shape != st.shape:
        return "states/equilibrium shapes differ"
    if not np_eq(st[:, 1], st[::-1, 0].conj()):
        return "F-(k) != conj F+(-k)"
    if not np_eq(st[:, 2], st[::-1, 2].conj()):
        return "Z(-k) != conj Z(k)"
    c = n2 // 2
    e = eq.copy()
    e[c, 2] = 0
    if (e != 0).any():
        return "equilibrium non-zero outside Z of the zero state"
    return None


def np_eq(a, b):
    return bool((a == b).all())


def replay(ctx, rp):
    if "real_case" in rp:
        n0 = len(ctx.violations)
        p = rp["real_case"]
        snaps = run_real(p)
        o, stf, eqf, cof, consistent = snaps[-1]
        terms = [real_term(stf, eqf, cof, b) for b in range(min(stf.shape[0], 2))]
        for (_, m) in p.pop("_xmats", []):
            terms.append("(xmat_sym_ok (Q2Qc (1 # 100000000000)) %s %s %s)"
                         % tuple(core.clist([core.qi(complex(x)) for x in m[:, c]]) for c in range(3)))
        v, errs = ctx.run_bool_cases("replay", HEADER2, terms, chunk=12)
        ctx.cleanup_cases()
        bad = (not consistent) or any(x is False for x in v)
        print("replay: VIOLATION reproduced" if bad else "replay: final state well-formed")
        return 1 if bad else 0
    p = rp["case"]
    import numpy as np
    snaps = prog.run_impl(p, inplace=p.get("inplace", True))
    st, eq = snaps[-1]
    bad = wf_violation(np.array(st), np.array(eq))
    print("replay: final state well-formed" if not bad else "replay: VIOLATION reproduced: " + bad)
    return 1 if bad else 0
