"""C08 — state matrices stay well-formed under every operator."""
from vlib import core, prog

HEADER = prog.HEADER + "From EPG Require Import Wf.\n"


def gen_cases(ctx, n):
    cases = []
    for i in range(n):
        p = prog.gen_program(ctx.rng, maxlen=10 if ctx.tier == "quick" else 16)
        p["inplace"] = ctx.rng.random() < 0.7
        cases.append(p)
    return cases


def term(p, snaps):
    ops = prog.c_ops(p)
    obs = core.clist([prog.c_sm(s) for s in snaps[1:]])
    # model trace == implementation snapshots  &&  every snapshot is well-formed
    return "(trace_ok %s %s %s && forallb (@wfb QIops) %s)" % (ops, prog.c_sm(snaps[0]), obs, obs)


def run(ctx):
    proved = ctx.prove(gen=False)
    n = 120 if ctx.tier == "quick" else 2000
    cases = gen_cases(ctx, n)
    terms, kept = [], []
    for p in cases:
        try:
            snaps = prog.run_impl(p, inplace=p["inplace"])
        except Exception as e:
            ctx.report("implementation raised %s on a valid program: %s" % (type(e).__name__, e),
                       {"case": p}, found_input=True, signature={"raises": type(e).__name__})
            continue
        terms.append(term(p, snaps))
        kept.append((p, snaps))
        ctx.count(p, nontrivial=len(p["ops"]) >= 2)
        ctx.sample({"program": prog.signature(p), "pd": p["pd"], "max_nstate": p["max_nstate"]})
    verdicts, errors = ctx.run_bool_cases("corr", HEADER, terms, chunk=10)
    for e in errors:
        ctx.report("correspondence shard failed to evaluate", {"theorem_or_correspondence": "C08 correspondence (Cases)", "coq_output": e}, found_input=False)
    for (p, snaps), v in zip(kept, verdicts):
        if v is False:
            analyse(ctx, p, snaps)
    ctx.cov["trusted_base"] += ["hand-written model Model/State.v, Model/Ops.v tied to epgpy by exact (dyadic) correspondence of every intermediate state"]
    if not proved:
        ctx.report("proof obligations of C08 no longer check: %s" % ctx.failed_obligations,
                   {"theorem_or_correspondence": ctx.failed_obligations}, found_input=False)


def analyse(ctx, p, snaps):
    """shrink a disagreeing program, decide whether the implementation violates well-formedness"""
    import numpy as np
    # find first snapshot that is not well-formed (python-side oracle mirrors wfb)
    for i, (st, eq) in enumerate(snaps):
        bad = wf_violation(np.array(st), np.array(eq))
        if bad:
            sub = dict(p, ops=p["ops"][:i])
            ctx.report("state after %s is not well-formed: %s" % (p["ops"][i - 1]["op"] if i else "init", bad),
                       {"case": sub, "states": st, "equilibrium": eq, "why": bad}, found_input=True,
                       signature={"op": p["ops"][i - 1]["op"] if i else "init", "why": bad})
            return
    ctx.report("model and implementation disagree (all observed states well-formed)",
               {"case": p, "theorem_or_correspondence": "C08 correspondence Model/Ops.v vs epgpy"}, found_input=False,
               signature={"corr": prog.signature(p)})


def wf_violation(st, eq):
    n2 = st.shape[0]
    if n2 % 2 != 1:
        return "even state count"
    if eq.shape != st.shape:
        return "states/equilibrium shapes differ"
    if not np_eq(st[:, 1], st[::-1, 0].conj()):
        return "F-(k) != conj F+(-k)"
    if not np_eq(st[:, 2], st[::-1, 2].conj()):
        return "Z(-k) != conj Z(k)"
    c = n2 // 2
    e = eq.copy()
    e[c, 2] = 0
    if (e != 0).any():
        return "equilibrium non-zero outside Z of the zero state"
    return None


def np_eq(a, b):
    return bool((a == b).all())


def replay(ctx, rp):
    p = rp["case"]
    import numpy as np
    snaps = prog.run_impl(p, inplace=p.get("inplace", True))
    st, eq = snaps[-1]
    bad = wf_violation(np.array(st), np.array(eq))
    print("replay: final state well-formed" if not bad else "replay: VIOLATION reproduced: " + bad)
    return 1 if bad else 0
