"""C09 — operators and simulate() are pure: no hidden state, no input mutation.

History correspondence on the real implementation with byte-level observation.  A history is a small JSON
program (exact encoding of floats / complex numbers, see encode/decode): a list of object constructions followed by
a list of calls that refer to earlier objects / results by index.  Every history is executed
  * in SHARED mode: the live objects are passed to the API, exactly as a user would do, and every live object is
    snapshot (canonical byte-level form) before and after every call;
  * in PURE mode: the reference semantics of Model/Purity.v executed on the implementation: the store holds
    pristine deep copies, every call receives fresh deep copies of its argument values, results are deep-copied
    into the store (an in-place application replaces the entry of its state matrix);
  * in sub-processes under several values of PYTHONHASHSEED (shared mode; `python props/c09.py batch out`);
  * for the synthetic exact-dyadic histories, inside Coq: `hist_ok` (Model/Purity.v) over QIops.
Checks: (a) an out-of-place call changes no pre-existing object and its result shares no memory / mutable
container with its inputs; (b) identical calls return bytes-identical results; (c) shared == pure (a reused instance
equals a fresh one, no hidden state); (d) recorded values are unaffected by later calls (they are live objects, so
(a) covers them) and the first value recorded by simulate equals that of the sequence cut after the probe;
(e) hash-seed independence; (f) the results equal the pure model's."""
import os, sys, json, copy, types, hashlib, subprocess, ast, time, re
import numpy as np

if __name__ == "__main__":          # runner mode: make /verif importable
    sys.path.insert(0, os.path.dirname(os.path.dirname(os.path.abspath(__file__))))

from vlib import core, prog, dprog


# =====================================================================================================
# canonical byte-level form of any object
# =====================================================================================================
def canon(x, stack=None, idmap=None, top=True):
    """idmap: {id(live object): ref}; a live object met INSIDE another object is shown as a reference"""
    if stack is None:
        stack = set()
    if isinstance(x, str) and " at 0x" in x:
        return re.sub(r" at 0x[0-9a-fA-F]+", " at 0x?", x)      # repr of a callable stored by Probe: memory address
    if x is None or isinstance(x, (bool, int, str, bytes)):
        return x
    if idmap is not None and not top and id(x) in idmap:
        return ("ref", idmap[id(x)])
    if isinstance(x, Raised):
        return ("raised", x.kind)
    if isinstance(x, float):
        return ("f", x.hex())
    if isinstance(x, complex):
        return ("c", x.real.hex(), x.imag.hex())
    if isinstance(x, np.ndarray):
        if x.dtype == object:
            return ("oarr", x.shape) + tuple(canon(i, stack, idmap, False) for i in x.flat)
        return ("arr", x.dtype.str, x.shape, np.ascontiguousarray(x).tobytes())
    if isinstance(x, np.generic):
        return ("np", x.dtype.str, x.tobytes())
    if x is Ellipsis:
        return "..."
    if isinstance(x, (list, tuple)):
        return (type(x).__name__,) + tuple(canon(i, stack, idmap, False) for i in x)
    if isinstance(x, dict):
        items = [(canon(k, stack, idmap, False), canon(v, stack, idmap, False)) for k, v in x.items()]
        items.sort(key=lambda kv: repr(kv[0]))
        return ("dict",) + tuple(items)
    if isinstance(x, (set, frozenset)):
        return ("set",) + tuple(sorted((canon(i, stack, idmap, False) for i in x), key=repr))
    if isinstance(x, types.MethodType):
        return ("method", x.__func__.__qualname__)
    if isinstance(x, (types.FunctionType, types.BuiltinFunctionType, type, np.ufunc, types.ModuleType)):
        return ("fn", getattr(x, "__qualname__", None) or getattr(x, "__name__", repr(x)))
    if isinstance(x, (types.GeneratorType, range, slice)):
        return ("repr", repr(x)) if not isinstance(x, types.GeneratorType) else ("generator",)
    if id(x) in stack:
        return ("cycle", type(x).__name__)
    try:
        d = vars(x)
    except TypeError:
        return ("repr", repr(x))
    stack.add(id(x))
    r = ("obj", type(x).__name__) + tuple((k, canon(v, stack, idmap, False)) for k, v in sorted(d.items()))
    stack.discard(id(x))
    return r


def digest(c):
    return hashlib.sha1(repr(c).encode()).hexdigest()[:16]


def first_diff(a, b, path=""):
    """path of the first difference between two canonical forms (None if equal)"""
    if a == b:
        return None
    if isinstance(a, tuple) and isinstance(b, tuple) and len(a) == len(b) and len(a) > 0:
        if len(a) == 2 and isinstance(a[0], str) and a[0] == b[0] and a[0] not in ("f", "method", "fn", "repr", "cycle"):
            return first_diff(a[1], b[1], path + "." + a[0])
        if a[0] == b[0] and a[0] in ("arr", "np", "f", "c"):
            return path or "."
        for i, (u, v) in enumerate(zip(a, b)):
            if u != v:
                if isinstance(u, tuple) and len(u) == 2 and isinstance(v, tuple) and len(v) == 2 and u[0] == v[0] \
                        and not (isinstance(u[0], str) and u[0] in ("f",)):
                    key = u[0] if isinstance(u[0], str) else repr(u[0])[:40]
                    return first_diff(u[1], v[1], path + "." + key)
                return first_diff(u, v, path + "[%d]" % i)
    return path or "."


def canon_close(a, b, rtol=1e-11, atol=1e-13):
    """equality of two canonical forms up to rounding in numeric arrays (in-place and out-of-place products are different
    numpy code paths); structure, shapes, dtypes and everything else must be identical"""
    if a == b:
        return True
    if isinstance(a, tuple) and isinstance(b, tuple) and len(a) == len(b) and len(a) > 0:
        if a[0] == "arr" and b[0] == "arr" and len(a) == 4:
            if a[1] != b[1] or a[2] != b[2] or a[1][1] not in "fc":
                return False
            x = np.frombuffer(a[3], dtype=np.dtype(a[1])); y = np.frombuffer(b[3], dtype=np.dtype(b[1]))
            return bool(np.allclose(x, y, rtol=rtol, atol=atol, equal_nan=True))
        if a[0] == "np" and b[0] == "np" and a[1] == b[1] and a[1][1] in "fc":
            return bool(np.allclose(np.frombuffer(a[2], dtype=np.dtype(a[1])), np.frombuffer(b[2], dtype=np.dtype(b[1])), rtol=rtol, atol=atol))
        return all(canon_close(u, v, rtol, atol) for u, v in zip(a, b))
    return False


def share(a, b):
    return bool(a.size and b.size and np.may_share_memory(a, b) and np.shares_memory(a, b))


def partials_of(sm):
    """[(label, key, StateMatrix)] of sm.order1 / sm.order2"""
    out = []
    for nm in ("order1", "order2"):
        d = getattr(sm, nm, None)
        if isinstance(d, dict):
            out += [(nm, k, v) for k, v in d.items()]
    return out


def partials_distinct(sm, op=None):
    """The partial state matrices of ONE state must be pairwise distinct objects whose arrays share no memory with each other,
    with the zeroth-order state, or with the operator's arrays.  (sm.order2 stores each pair under (v1,v2) and (v2,v1):
    that mirror entry is the same object by design.)  Returns a description of the first offence, or None."""
    ps = partials_of(sm)
    if not ps:
        return None
    arrs = [[a for _, a in arrays_of(v)] for _, _, v in ps]
    main = [a for _, a in arrays_of(getattr(sm, "arrays", None))]
    oparr = [a for _, a in arrays_of(op)] if op is not None else []
    for i, (ni, ki, vi) in enumerate(ps):
        for x in arrs[i]:
            if any(share(x, m) for m in main):
                return "%s[%r] shares memory with the state's own arrays" % (ni, ki)
            if any(share(x, m) for m in oparr):
                return "%s[%r] shares memory with the operator's arrays" % (ni, ki)
        for j in range(i + 1, len(ps)):
            nj, kj, vj = ps[j]
            mirror = ni == nj == "order2" and isinstance(ki, tuple) and isinstance(kj, tuple) and tuple(ki) == tuple(kj)[::-1]
            if mirror:
                continue
            if vi is vj:
                return "%s[%r] and %s[%r] are the SAME StateMatrix object" % (ni, ki, nj, kj)
            if any(share(x, y) for x in arrs[i] for y in arrs[j]):
                return "%s[%r] and %s[%r] share memory" % (ni, ki, nj, kj)
    return None


def arrays_of(x, path="", out=None, stack=None, containers=None):
    """all ndarrays (and, optionally, mutable containers) reachable from x, with their attribute path"""
    if out is None:
        out = []
    if stack is None:
        stack = set()
    if x is None or isinstance(x, (bool, int, float, complex, str, bytes, np.generic, type, types.FunctionType,
                                   types.MethodType, types.BuiltinFunctionType, np.ufunc, types.ModuleType)):
        return out
    if id(x) in stack:
        return out
    stack.add(id(x))
    if isinstance(x, np.ndarray):
        out.append((path, x))
        return out
    if isinstance(x, (list, tuple, set, frozenset)):
        if containers is not None and isinstance(x, (list, set)):
            containers.append((path, x))
        for i, v in enumerate(x):
            arrays_of(v, path + "[%d]" % i, out, stack, containers)
        return out
    if isinstance(x, dict):
        if containers is not None:
            containers.append((path, x))
        for k, v in x.items():
            arrays_of(v, path + "." + str(k), out, stack, containers)
        return out
    try:
        d = vars(x)
    except TypeError:
        return out
    if containers is not None:
        containers.append((path, x))
    for k, v in d.items():
        arrays_of(v, path + "." + k, out, stack, containers)
    return out


def is_sm(x):
    return type(x).__name__ == "StateMatrix"


def is_operator(x):
    import epgpy as epg
    return isinstance(x, epg.operators.Operator)


# =====================================================================================================
# the history language and its interpreter
# =====================================================================================================
REF_FIELDS = {"apply": ["op", "sm"], "copy": ["sm"], "mul": ["a", "b"], "matmul": ["a", "b"], "mkseq": ["refs"],
              "simulate": ["seq", "init", "probe"], "acquire": ["probe", "sm"], "mutate": ["sm"],
              "build": ["vseq"], "vcall": ["vseq"], "nop": []}


def call_refs(c):
    out = []
    for f in REF_FIELDS[c["do"]]:
        v = c.get(f)
        if isinstance(v, list):
            out += [r for r in flat_refs(v)]
        elif v is not None:
            out.append(v)
    return out


def flat_refs(l):
    for x in l:
        if isinstance(x, list):
            yield from flat_refs(x)
        else:
            yield x


def remap_refs(c, f):
    c = dict(c)

    def m(v):
        if isinstance(v, list):
            return [m(x) for x in v]
        return None if v is None else f(v)
    for fld in REF_FIELDS[c["do"]]:
        if fld in c:
            c[fld] = m(c[fld])
    return c


def build_object(spec, built=()):
    """built: the objects constructed so far; spec["names"] = {name: ref} makes earlier objects (caller-owned arrays)
    available to the constructor expression"""
    import epgpy as epg
    from epgpy import sequence as seqm
    t = spec["t"]
    if t == "nop":
        return None
    if t == "array":
        return eval(spec["expr"], {"np": np})
    if t == "sm":
        env = {"epg": epg, "np": np}
        if "expr" in spec:
            sm = eval(spec["expr"], env)
        else:
            sm = epg.StateMatrix(density=spec.get("pd", 1.0), **spec.get("opts", {}))
        for e in spec.get("prep", []):          # operators applied in place at construction (System, ...)
            sm = eval(e, env)(sm, inplace=True)
        return sm
    if t == "dop":
        return dprog.build(spec["o"])
    if t == "op" or t == "probe":
        env = {"epg": epg, "np": np}
        env.update({n: built[r] for n, r in (spec.get("names") or {}).items()})
        return eval(spec["expr"], env)
    if t == "vseq":
        ns = {k: getattr(seqm, k) for k in seqm.__all__}
        ns.update({"np": np, "seqm": seqm})
        return eval(spec["expr"], ns)
    raise ValueError(t)


class Raised:
    def __init__(self, e):
        self.kind = type(e).__name__
        self.msg = str(e)[:200]


def exec_call(c, arg):
    """arg(ref) -> object to pass.  Returns the result object (or raises)."""
    import epgpy as epg
    do = c["do"]
    if do == "nop":
        return None
    if do == "apply":
        return arg(c["op"])(arg(c["sm"]), inplace=bool(c["inplace"]))
    if do == "copy":
        return arg(c["sm"]).copy()
    if do == "mul":
        return arg(c["a"]) * arg(c["b"])
    if do == "matmul":
        return arg(c["a"]) @ arg(c["b"])
    if do == "mkseq":
        def mk(l):
            return [mk(x) if isinstance(x, list) else arg(x) for x in l]
        return mk(c["refs"])
    if do == "simulate":
        kw = dict(c.get("opts") or {})
        if c.get("init") is not None:
            kw["init"] = arg(c["init"])
        if c.get("probe") is not None:
            p = c["probe"]
            kw["probe"] = [arg(r) for r in p] if isinstance(p, list) else arg(p)
        return epg.simulate(arg(c["seq"]), **kw)
    if do == "acquire":
        return arg(c["probe"]).acquire(arg(c["sm"]))
    if do == "mutate":
        sm = arg(c["sm"])
        how = c["how"]
        if how == "scale":
            sm.states[...] = sm.states * 0.5
        elif how == "option":
            sm.options["max_nstate"] = 1
        elif how == "system":
            sm.system.set("weights", np.array([0.25]))
        elif how == "imul":
            sm *= 2.0
        return None
    if do == "build":
        return arg(c["vseq"]).build(dict(c.get("values") or {}), order1=c.get("order1"), order2=c.get("order2"))
    if do == "vcall":
        q = arg(c["vseq"])
        m = c["method"]
        vals = dict(c.get("values") or {})
        if m == "signal":
            return q.signal(options=dict(c.get("opts") or {}), **vals)
        if m == "jacobian":
            return q.jacobian(list(c["vars"]), options=dict(c.get("opts") or {}), **vals)
        if m == "hessian":
            return q.hessian(list(c["vars"]), options=dict(c.get("opts") or {}), **vals)
        if m == "simulate":
            return q.simulate(vals, **dict(c.get("opts") or {}))
        if m == "crlb":
            return q.crlb(list(c["vars"]))(vals)
    raise ValueError(do)


def inplace_target(c):
    if c["do"] == "apply" and c["inplace"]:
        return c["sm"]
    if c["do"] == "mutate":
        return c["sm"]
    return None


def run_shared(hist, observe=True):
    """returns dict(results=[canon per step], events=[...], env=[live objects], snaps=...)"""
    env, res, events, obs = [], [], [], []
    for spec in hist["objects"]:
        try:
            o = build_object(spec, env)
        except Exception as e:
            o = Raised(e)
            events.append({"kind": "raises", "step": len(env), "what": "constructing %s raised %s: %s" % (spec, o.kind, o.msg)})
        env.append(o)
        res.append(None)
        obs.append(None)
    n0 = len(env)
    def snap_all():
        idmap = {}
        for k, o in enumerate(env):
            if o is not None and not isinstance(o, (bool, int, float, complex, str, tuple)):
                idmap.setdefault(id(o), k)
        return [canon(o, None, idmap) for o in env]
    before = snap_all() if observe else None
    for ci, c in enumerate(hist["calls"]):
        step = n0 + ci
        refs = call_refs(c)
        if any(isinstance(env[r], Raised) for r in refs):
            env.append(Raised(ValueError("argument raised")))
            res.append(("skipped",))
            obs.append(None)
            if observe:
                before.append(canon(env[-1]))
            continue
        try:
            r = exec_call(c, lambda k: env[k])
        except Exception as e:
            r = Raised(e)
            events.append({"kind": "raises", "step": step, "what": "%s raised %s: %s" % (c["do"], r.kind, r.msg)})
        tgt = inplace_target(c)
        cr = canon(r)
        res.append(cr)
        try:        # value observed AT CALL TIME (an in-place result is the live input object)
            obs.append(("sm", dprog.snap_d(r)) if is_sm(r) else ("res", copy.deepcopy(r)))
        except Exception:
            obs.append(None)
        if observe:
            env.append(r)
            after = snap_all()
            env.pop()
            new_snap = after.pop()
            for k in range(len(env)):
                if k == tgt or (tgt is not None and env[k] is env[tgt]):
                    continue
                if any(env[j] is env[k] for j in range(k)):
                    continue            # the same object under a second reference (result of an in-place call)
                if after[k] != before[k]:
                    same = [j for j in range(len(env)) if env[j] is env[k]]
                    events.append({"kind": "mutation", "step": step, "obj": k, "type": type(env[k]).__name__,
                                   "path": first_diff(before[k], after[k]),
                                   "is_init": c.get("init") in same, "is_left": c.get("a") in same})
            if c["do"] == "apply" and is_sm(r):
                why = partials_distinct(r, env[c["op"]])
                if why:
                    events.append({"kind": "partials", "step": step, "obj": c["sm"], "path": why, "type": "StateMatrix"})
            # aliasing between the result and the inputs of an out-of-place call
            if tgt is None and not isinstance(r, Raised) and c["do"] in ("apply", "copy", "simulate", "acquire", "build", "vcall"):
                events += alias_events(c, step, r, [(k, env[k]) for k in refs])
            before = after
            before.append(new_snap)
        env.append(r)
    return {"results": res, "events": events, "env": env, "obs": obs}


def alias_events(c, step, r, inputs):
    ev = []
    rcont = []
    rarr = arrays_of(r, "", containers=rcont)
    for k, x in inputs:
        if not (is_sm(x) or isinstance(x, np.ndarray)):
            continue            # operators may legitimately be referenced by a result (MultiOperator, built list)
        if r is x:
            ev.append({"kind": "alias", "step": step, "obj": k, "path": "<result is the input object>", "type": type(x).__name__})
            continue
        xcont = []
        xarr = arrays_of(x, "", containers=xcont)
        # an EMPTY dict / list / set holds nothing that a later call could change (the API rebinds sm.order1 / order2,
        # it never inserts into them); a change through any shared container is caught by the mutation check anyway
        ids = {id(o): p for p, o in xcont if not (isinstance(o, (dict, list, set)) and len(o) == 0)}
        hit = None
        for p, o in rcont:
            if id(o) in ids:
                hit = ids[id(o)]
                break
        if hit is None:
            for p, a in rarr:
                for q, b in xarr:
                    if a.size and b.size and np.may_share_memory(a, b) and np.shares_memory(a, b):
                        hit = q
                        break
                if hit is not None:
                    break
        if hit is not None:
            ev.append({"kind": "alias", "step": step, "obj": k, "path": hit, "type": type(x).__name__})
    return ev


def run_pure(hist):
    """reference semantics of Model/Purity.v on the implementation: values are pristine deep copies"""
    store, res, args_at, mode_events = [], [], [], []
    for spec in hist["objects"]:
        try:
            o = build_object(spec, store)
        except Exception as e:
            o = Raised(e)
        store.append(o)          # freshly built, never handed out: pristine
        res.append(None)
        args_at.append(None)
    for c in hist["calls"]:
        refs = call_refs(c)
        if any(isinstance(store[r], Raised) for r in refs):
            store.append(Raised(ValueError("argument raised")))
            res.append(("skipped",))
            args_at.append(None)
            continue
        # the argument VALUES of this call (the store entry of a state matrix may be replaced by a later in-place call)
        args_at.append({r: store[r] for r in refs} if c["do"] == "simulate" else None)
        handed = {}

        def arg(k):
            o = copy.deepcopy(store[k])
            handed[k] = o
            return o
        try:
            r = exec_call(c, arg)
        except Exception as e:
            r = Raised(e)
        if c["do"] == "apply":
            mode_events += other_mode(c, len(store), r, store)
        tgt = inplace_target(c)
        if tgt is not None and not isinstance(r, Raised):
            store[tgt] = copy.deepcopy(handed[tgt])
            cr = canon(r)
            r = None
        else:
            cr = canon(r)
            r = copy.deepcopy(r) if not isinstance(r, Raised) else r
        store.append(r)
        res.append(cr)
    return {"results": res, "store": store, "args": args_at, "mode_events": mode_events}


def has_pd(op):
    import epgpy as epg
    if isinstance(op, epg.operators.PD):
        return True
    return isinstance(op, epg.operators.MultiOperator) and any(has_pd(o) for o in op.operators)


def other_mode(c, step, r, store):
    """the same application in the other mode (in place <-> out of place) on fresh copies of the same values: the two
    values must agree, partials included; and for a non-differentiable operator the out-of-place result must carry
    every partial of the input, each equal to the operator applied to that partial"""
    import epgpy as epg
    out = []
    try:
        op, sm = copy.deepcopy(store[c["op"]]), copy.deepcopy(store[c["sm"]])
        r2 = op(sm, inplace=not c["inplace"])
    except Exception as e:
        r2 = Raised(e)
    ca, cb = canon(r), canon(r2)          # exact structure: an absent order1 / order2 attribute differs from an empty dictionary
    op0, sm0 = store[c["op"]], store[c["sm"]]
    plain = not isinstance(op0, epg.operators.DiffOperator)
    if not canon_close(ca, cb):
        sig = {"site": ("Operator" if plain else "DiffOperator") + ".__call__", "why": "inplace-differs-from-outofplace"}
        a, b = (ca, cb) if c["inplace"] else (cb, ca)
        out.append({"sig": sig, "step": step, "kind": "mode", "obj": c["sm"],
                    "what": "call %d: op(sm, inplace=True) and op(sm) on the same values return different results, first difference at %s "
                            "(in place vs out of place)" % (step, first_diff(b, a))})
    # non-differentiable operator, out of place: partials kept and transformed (Operator._apply_partial)
    rout = r2 if c["inplace"] else r
    # a MultiOperator called on a state is the composition of its members, each with its own full semantics
    if isinstance(op0, epg.operators.MultiOperator) and is_sm(sm0) and is_sm(rout):
        try:
            exp = copy.deepcopy(sm0)
            for m in copy.deepcopy(op0).operators:
                exp = m(exp)
            if not canon_close(canon(exp), canon(rout)):
                out.append({"sig": {"site": "MultiOperator.__call__", "why": "differs-from-members-in-turn"}, "step": step, "kind": "mode", "obj": c["sm"],
                            "what": "call %d: a multi-operator applied out of place differs from its members applied one after the other, "
                                    "first difference at %s" % (step, first_diff(canon(exp), canon(rout)))})
        except Exception:
            pass
    if plain and is_sm(sm0) and is_sm(rout) and rout is not sm0 and not isinstance(op0, (epg.operators.Probe, epg.operators.MultiOperator)) \
            and partials_of(sm0):
        why = None
        got = {(nm, k): v for nm, k, v in partials_of(rout)}
        for nm, k, part in partials_of(sm0):
            if (nm, k) not in got:
                why = "%s[%r] of the input is missing in the result" % (nm, k)
                break
            if has_pd(op0):
                continue            # PD: partials unchanged / zeroed, checked against the model (synthetic histories, C02)
            try:
                exp = copy.deepcopy(op0)(copy.deepcopy(part))
            except Exception:
                continue
            if not canon_close(canon(np.asarray(exp.states)), canon(np.asarray(got[(nm, k)].states))):
                why = "%s[%r] of the result is not the operator applied to %s[%r] of the input" % (nm, k, nm, k)
                break
        if why is None and len(got) != len(partials_of(sm0)):
            why = "the result carries partials the input does not have"
        if why:
            out.append({"sig": {"site": "Operator.__call__", "why": "outofplace-partials-wrong"}, "step": step, "kind": "mode", "obj": c["sm"],
                        "what": "call %d: non-differentiable operator applied out of place to a state matrix with partials: %s" % (step, why)})
    return out


# =====================================================================================================
# analysis of one history
# =====================================================================================================
def classify(hist, ev):
    """signature naming the site of a mutation / alias event"""
    n0 = len(hist["objects"])
    c = hist["calls"][ev["step"] - n0] if ev["step"] >= n0 else {"do": "construct"}
    path = ev.get("path") or ""
    typ = ev.get("type")
    if ev["kind"] == "mutation":
        if typ == "Imaging" and ".opts" in path:
            return {"site": "Imaging._acquire", "why": "pops-options"}
        if c["do"] == "simulate" and ev.get("is_init") and ".options" in path:
            return {"site": "simulate", "why": "writes-init-options"}
        if typ == "StateMatrix" and (".system" in path or "._linked" in path):
            return {"site": "StateMatrix.copy", "why": "shares-system"}
        if c["do"] == "mul" and ev.get("is_left") and typ == "MultiOperator":
            return {"site": "MultiOperator.__mul__", "why": "mutates-left-operand"}
        return {"site": c["do"], "why": "mutates-input", "changed": typ, "path": path.split("[")[0][:60]}
    if ev["kind"] == "alias":
        if ".system" in path or "._linked" in path:
            return {"site": "StateMatrix.copy", "why": "shares-system"}
        if path.startswith("<result is"):
            opk = type_of_ref(hist, c.get("op"))
            return {"site": "%s.__call__" % ("Probe" if opk in ("probe",) else c["do"]), "why": "returns-input-object"}
        return {"site": c["do"], "why": "result-aliases-input", "path": path.split("[")[0][:60]}
    if ev["kind"] == "partials":
        return {"site": "DiffOperator.__call__", "why": "partials-share-objects"}
    if ev["kind"] == "raises":
        return {"site": c["do"], "why": "raises"}
    return {"site": c["do"], "why": ev["kind"]}


def type_of_ref(hist, r):
    if r is None or r >= len(hist["objects"]):
        return None
    return hist["objects"][r]["t"]


def call_key(hist, ci, versions):
    c = hist["calls"][ci]
    return repr((sorted((k, v) for k, v in c.items() if k != "note"), [versions.get(r, 0) for r in call_refs(c)]))


def closure(hist, step):
    """objects / results the call at `step` depends on (arguments, their producers, in-place calls on them)"""
    n0 = len(hist["objects"])
    seen, todo = set(), [step]
    while todo:
        k = todo.pop()
        if k in seen:
            continue
        seen.add(k)
        if k >= n0:
            todo += call_refs(hist["calls"][k - n0])
        else:
            todo += list((hist["objects"][k].get("names") or {}).values())      # caller-owned arrays an object was built from
        for ci, c in enumerate(hist["calls"][:max(0, step - n0)]):
            if inplace_target(c) == k:
                todo.append(n0 + ci)
    return seen


def attribute(hist, problems, step, default):
    """a result that depends on the history is attributed to the first observed mutation of an object it depends on"""
    dep = closure(hist, step)
    muts = [p for p in problems if p["kind"] == "mutation" and p["step"] <= step and p.get("obj") in dep]
    if muts:
        return muts[0]["sig"]
    # a result that IS (or shares memory with) one of its inputs: later in-place calls on either reach the other
    al = [p for p in problems if p["kind"] == "alias" and p["step"] < step and "returns-input" in p["sig"].get("why", "")
          and (p["step"] in dep or p.get("obj") in dep)]
    return al[0]["sig"] if al else default


def analyse(hist, deep=True):
    """returns (problems, shared_run, pure_run); a problem = dict(sig=..., step=..., what=...)"""
    n0 = len(hist["objects"])
    sh = run_shared(hist)
    pu = run_pure(hist)
    problems = []
    sh["both_raise"] = 0
    for ev in sh["events"]:
        if ev["kind"] == "raises":
            # a call that raises is not a purity violation by itself: the same call on FRESH objects (pure run: freshly built
            # operators / probes / sequence, fresh copy of the state value) must behave the same.  Same exception type in both
            # runs -> 'both-raise' (counted in the evidence); raising in one run only, or different exception types, is
            # reported by the shared-vs-fresh comparison (c) below.
            k = ev["step"]
            a = sh["env"][k]
            b = pu["store"][k] if k < n0 else pu["results"][k]
            same = isinstance(a, Raised) and ((isinstance(b, Raised) and b.kind == a.kind) or b == ("raised", a.kind))
            if same:
                sh["both_raise"] += 1
            elif k < n0:
                problems.append({"sig": {"site": "construct", "why": "raises-only-in-one-run"}, "step": k, "what": ev["what"], "kind": "raises", "obj": None})
            continue
        sig = classify(hist, ev)
        if ev["kind"] == "mutation":
            what = "call %d (%s) changed pre-existing object #%d (%s) at %s" % (ev["step"], describe(hist, ev["step"]), ev["obj"], ev["type"], ev["path"])
        elif ev["kind"] == "alias":
            what = "result of out-of-place call %d (%s) shares memory / a mutable container with its input #%d at %s" % (
                ev["step"], describe(hist, ev["step"]), ev["obj"], ev["path"])
        elif ev["kind"] == "partials":
            what = "state matrix returned by call %d (%s): %s -- the partials of one state must be independent objects (an operator applied " \
                   "in place would act twice on a shared one)" % (ev["step"], describe(hist, ev["step"]), ev["path"])
        else:
            what = ev["what"]
        problems.append({"sig": sig, "step": ev["step"], "what": what, "kind": ev["kind"], "obj": ev.get("obj")})
    # in place vs out of place, every application (pure values)
    for ev in pu["mode_events"]:
        problems.append(dict(ev, what=ev["what"].replace("call %d:" % ev["step"], "call %d (%s):" % (ev["step"], describe(hist, ev["step"])))))
    # (c) shared vs pure
    for k in range(n0, len(sh["results"])):
        if sh["results"][k] != pu["results"][k]:
            c = hist["calls"][k - n0]
            sig = attribute(hist, problems, k, {"site": c["do"], "why": "result-depends-on-history"})
            problems.append({"sig": sig, "step": k, "kind": "hidden-state",
                             "what": "call %d (%s): result with the shared objects differs from the result with fresh copies of the same values at %s"
                             % (k, describe(hist, k), first_diff(pu["results"][k], sh["results"][k]))})
            break
    # (b) identical calls give identical results (both modes)
    for name, run in (("shared", sh), ("pure", pu)):
        versions, seen = {}, {}
        for ci, c in enumerate(hist["calls"]):
            if c["do"] in ("nop", "mutate") or inplace_target(c) is not None:
                t = inplace_target(c)
                if t is not None:
                    versions[t] = versions.get(t, 0) + 1
                continue
            key = call_key(hist, ci, versions)
            r = run["results"][n0 + ci]
            if key in seen and seen[key][1] != r:
                sig = attribute(hist, problems, n0 + ci, {"site": c["do"], "why": "repeated-call-differs", "mode": name})
                problems.append({"sig": sig, "step": n0 + ci, "kind": "repeat",
                                 "what": "call %d repeats call %d (%s) on unchanged arguments and returns a different result (%s run) at %s"
                                 % (n0 + ci, seen[key][0], describe(hist, n0 + ci), name, first_diff(seen[key][1], r))})
                break
            seen.setdefault(key, (n0 + ci, r))
    # (d) the first recorded value equals that of the sequence cut after the first probe (pure run of the cut)
    if deep:
        problems += prefix_check(hist, pu)
        problems += stepping_check(hist, pu)
    return problems, sh, pu


def equal_up_to_broadcast(full, cut):
    """simulate() sizes the initial state from the shapes of ALL operators of the sequence: a value recorded by the cut
    sequence equals the one of the full sequence up to broadcasting (cut broadcastable to the shape of full)"""
    if isinstance(full, (list, tuple)) and isinstance(cut, (list, tuple)):
        return type(full) == type(cut) and len(full) == len(cut) and all(equal_up_to_broadcast(x, y) for x, y in zip(full, cut))
    if isinstance(full, (list, tuple)) or isinstance(cut, (list, tuple)):
        return False
    fa, ca = np.asarray(full), np.asarray(cut)
    if fa.dtype == object or ca.dtype == object:
        return canon(full) == canon(cut)
    try:
        cb = np.broadcast_to(ca, fa.shape)
    except ValueError:
        return False
    return fa.dtype == ca.dtype and np.ascontiguousarray(fa).tobytes() == np.ascontiguousarray(cb).tobytes()


def prefix_check(hist, pu):
    import epgpy as epg
    out = []
    n0 = len(hist["objects"])
    for ci, c in enumerate(hist["calls"]):
        if c["do"] != "simulate" or (isinstance(pu["results"][n0 + ci], tuple) and pu["results"][n0 + ci][:1] == ("raised",)):
            continue
        A = pu["args"][n0 + ci]
        if A is None:
            continue
        try:
            seq = copy.deepcopy(A[c["seq"]])
            if not isinstance(seq, list):
                continue
            flat = epg.functions.flatten_sequence(seq)
            if c.get("init") is not None and not is_sm(A[c["init"]]):
                continue
            idx = [i for i, o in enumerate(flat) if isinstance(o, epg.operators.Probe)]
            if not idx or idx[0] == len(flat) - 1:
                continue
            kw = dict(c.get("opts") or {})
            if c.get("init") is not None:
                kw["init"] = copy.deepcopy(A[c["init"]])
            if c.get("probe") is not None:
                p = c["probe"]
                kw["probe"] = [copy.deepcopy(A[r]) for r in p] if isinstance(p, list) else copy.deepcopy(A[p])
            kw["asarray"] = False
            shape = epg.functions.getshape(flat)     # the cut sequence must run on a state of the same shape as the full one

            def init():
                return copy.deepcopy(A[c["init"]]) if c.get("init") is not None else epg.StateMatrix([0, 0, 1], shape=shape)
            full = epg.simulate(copy.deepcopy(flat), **dict(kw, init=init()))
            cut = epg.simulate(copy.deepcopy(flat[:idx[0] + 1]), **dict(kw, init=init()))
            multi = isinstance(c.get("probe"), list) and len(c["probe"]) > 1
            a = [v[0] for v in full] if multi else full[0]
            b = [v[0] for v in cut] if multi else cut[0]
            if not equal_up_to_broadcast(a, b):
                out.append({"sig": {"site": "simulate", "why": "recorded-value-changed-by-later-operators"}, "step": n0 + ci, "kind": "snapshot",
                            "what": "call %d: the first recorded value differs from the value recorded by the sequence cut after the probe" % (n0 + ci)})
        except Exception as e:
            shp = "shape" in str(e) or "broadcast" in str(e).lower()
            if not shp:
                out.append({"sig": {"site": "simulate", "why": "prefix-raises"}, "step": n0 + ci, "kind": "snapshot",
                            "what": "simulate of the sequence cut after its first probe raised %s: %s" % (type(e).__name__, str(e)[:200])})
    return out


SIM_KEYS = ("asarray", "adc_time", "squeeze", "callback", "disp")


def stepping_check(hist, pu):
    """(d) EVERY value recorded by simulate() equals the value at its own position: the sequence is stepped manually
    (operators applied one by one, probes acquired exactly as simulate_simple does) with an immediate deep copy of every
    recorded value; and no recorded value shares memory with the live state at the time it is recorded."""
    import epgpy as epg
    out = []
    n0 = len(hist["objects"])
    for ci, c in enumerate(hist["calls"]):
        got = pu["results"][n0 + ci]
        if c["do"] != "simulate" or (isinstance(got, tuple) and got[:1] in (("raised",), ("skipped",))):
            continue
        A = pu["args"][n0 + ci]
        if A is None:
            continue
        try:
            seq = copy.deepcopy(A[c["seq"]])
            if not isinstance(seq, list):
                continue
            flat = epg.functions.flatten_sequence(seq)
            allopts = dict(c.get("opts") or {})
            if allopts.get("adc_time") or allopts.get("callback"):
                continue
            opts = {k: v for k, v in allopts.items() if k not in SIM_KEYS}
            if c.get("init") is not None:
                if not is_sm(A[c["init"]]):
                    continue
                sm = copy.deepcopy(A[c["init"]]).copy()
                sm.options.update(opts)
            else:
                sm = epg.StateMatrix([0, 0, 1], nstate=0, shape=epg.functions.getshape(flat), **opts)
            probes = []
            if c.get("probe") is not None:
                p = c["probe"]
                ps = [copy.deepcopy(A[r]) for r in p] if isinstance(p, list) else [copy.deepcopy(A[p])]
                probes = [q if isinstance(q, (epg.operators.Probe, type(None))) else epg.operators.Probe(q) for q in ps]
            values, aliased = [], None
            for op in flat:
                sm = op(sm, inplace=True)
                if isinstance(op, epg.operators.Probe):
                    row = []
                    for pb in (probes or [op]):
                        v = (pb or op).acquire(sm, post=op.post)
                        if aliased is None:
                            live = arrays_of(sm)
                            for pth, a in arrays_of(v):
                                for q, b in live:
                                    if a.size and b.size and np.may_share_memory(a, b) and np.shares_memory(a, b):
                                        aliased = (repr(pb or op), pth, q)
                                        break
                                if aliased:
                                    break
                        row.append(copy.deepcopy(v))
                    values.append(row)
            rows_in = values
            values = tuple(zip(*values))
            if allopts.get("asarray", True):
                values = tuple(np.asarray(arr) for arr in values)
            if len(values) == 1:
                values = values[0]
        except Exception:
            continue            # the oracle itself could not be evaluated (ragged asarray, ...): no verdict
        # the same sequence stepped OUT OF PLACE (op(sm) returns a new state each time): recorded values, Jacobian / Hessian
        # included, must agree with in-place execution (plain operators too: they propagate the partials in both modes).
        try:
            if True:
                if c.get("init") is not None:
                    sm = copy.deepcopy(A[c["init"]]).copy()
                    sm.options.update(opts)
                else:
                    sm = epg.StateMatrix([0, 0, 1], nstate=0, shape=epg.functions.getshape(flat), **opts)
                rows_out = []
                for op in copy.deepcopy(flat):
                    sm = op(sm)
                    if isinstance(op, epg.operators.Probe):
                        rows_out.append([copy.deepcopy((pb or op).acquire(sm, post=op.post)) for pb in (copy.deepcopy(probes) or [op])])
                if not canon_close(canon(rows_in), canon(rows_out)):
                    out.append({"sig": {"site": "simulate", "why": "inplace-differs-from-outofplace-stepping"}, "step": n0 + ci, "kind": "mode",
                                "what": "call %d (%s): the values recorded when the operators are applied in place (as simulate() does) differ from "
                                        "those of the same operators applied out of place, first difference at %s"
                                        % (n0 + ci, describe(hist, n0 + ci), first_diff(canon(rows_out), canon(rows_in)))})
        except Exception:
            pass
        if aliased is not None:
            out.append({"sig": {"site": "Probe.acquire", "why": "recorded-value-aliases-state"}, "step": n0 + ci, "kind": "snapshot",
                        "what": "call %d (%s): the value acquired by probe %s shares memory with the live state matrix (recorded%s vs state%s): "
                                "it is not a snapshot" % (n0 + ci, describe(hist, n0 + ci), aliased[0], aliased[1], aliased[2])})
        exp = canon(values)
        if exp != got:
            out.append({"sig": {"site": "simulate", "why": "recorded-value-changed-by-later-operators"}, "step": n0 + ci, "kind": "snapshot",
                        "what": "call %d (%s): the values returned by simulate() differ from the values at their own positions (manual stepping with an "
                                "immediate copy of each recorded value), first difference at %s" % (n0 + ci, describe(hist, n0 + ci), first_diff(exp, got))})
    return out


def describe(hist, step):
    n0 = len(hist["objects"])
    if step < n0:
        return "construct %s" % hist["objects"][step].get("expr", hist["objects"][step]["t"])
    c = hist["calls"][step - n0]

    def nm(r):
        if r is None:
            return "None"
        if isinstance(r, list):
            return "[%s]" % ", ".join(nm(x) for x in r)
        if r < n0:
            s = hist["objects"][r]
            return "#%d:%s" % (r, s.get("expr") or s["t"])
        return "#%d" % r
    return "%s(%s)" % (c["do"], ", ".join("%s=%s" % (f, nm(c.get(f))) for f in REF_FIELDS[c["do"]] if f in c)
                       + ("".join(", %s=%s" % (k, c[k]) for k in ("inplace", "opts", "how", "method") if c.get(k) not in (None, {}))))


# ----------------------------------------------------------------------------------------- shrinking
def shrink(hist, sig, budget=60):
    """drop calls / objects while a problem with the same signature remains; then renumber"""
    def bad(h):
        try:
            return any(p["sig"] == sig for p in analyse(h, deep=(sig.get("why", "").startswith(("recorded", "prefix", "inplace-differs-from-outofplace-stepping"))))[0])
        except Exception:
            return False
    h = {"kind": hist.get("kind"), "objects": list(hist["objects"]), "calls": list(hist["calls"])}
    n0 = len(h["objects"])
    tries = 0
    for ci in reversed(range(len(h["calls"]))):
        if tries >= budget:
            break
        if h["calls"][ci]["do"] == "nop":
            continue
        used = any((n0 + ci) in call_refs(c) for c in h["calls"][ci + 1:])
        if used:
            continue
        cand = dict(h, calls=h["calls"][:ci] + [{"do": "nop"}] + h["calls"][ci + 1:])
        tries += 1
        if bad(cand):
            h = cand
    # unused objects
    used = set(r for c in h["calls"] for r in call_refs(c))
    for i in sorted(used):
        if i < len(h["objects"]):
            used |= set((h["objects"][i].get("names") or {}).values())
    h["objects"] = [o if i in used else {"t": "nop"} for i, o in enumerate(h["objects"])]
    # compact
    keep, new = {}, 0
    objs, calls = [], []
    for i, o in enumerate(h["objects"]):
        if o["t"] != "nop":
            keep[i] = new; new += 1; objs.append(o)
    for ci, c in enumerate(h["calls"]):
        if c["do"] != "nop":
            keep[n0 + ci] = new; new += 1; calls.append(c)
    calls = [remap_refs(c, lambda r: keep[r]) for c in calls]
    objs = [dict(o, names={n: keep[r] for n, r in o["names"].items()}) if o.get("names") else o for o in objs]
    out = {"kind": hist.get("kind"), "objects": objs, "calls": calls}
    return out if bad(out) else h


# =====================================================================================================
# generators
# =====================================================================================================
PLAIN = ("F0", "Z0", "F0Z0")        # probes that need no order1/order2 attributes and may be sequence items


def gen_synth(rng):
    """exact-dyadic history over synthetic operators; every call is in the model's language"""
    with_o2 = rng.random() < 0.4
    objs, meta = [], []          # meta per ref: dict(kind, bits/cost, attr)

    def add(spec, **m):
        objs.append(spec); meta.append(m); return len(objs) - 1
    for _ in range(rng.choice([1, 1, 2])):
        nm = rng.choice([None, None, None, 1, 2])
        add({"t": "sm", "pd": float(rng.choice([0.5, 1, 1, 2])), "opts": ({"max_nstate": nm} if nm else {})}, kind="sm", bits=4, attr=False)
    for _ in range(rng.randint(2, 4)):
        k = rng.choice(["dop", "dop", "dop", "shift", "shift", "plain"])
        if k == "dop":
            o = dprog.gen_dop(rng, with_o2)
            if rng.random() < 0.3:
                # several variables onto one parameter: aliases / unit coefficients / mixed coefficients (first order only)
                ps = list(o["darrs"])
                form = rng.choice(["alias", "unit", "mixed"])
                if form == "alias":
                    arg = {"a": ps[0], "b": ps[0]}
                    norm = {v: {q: 1.0} for v, q in arg.items()}
                elif form == "unit":
                    arg = {"a": {ps[0]: 1.0}, "z": {ps[0]: 1.0}}
                    norm = {v: dict(d) for v, d in arg.items()}
                else:
                    arg = {"a": {ps[0]: 1.0}, "b": {ps[0]: 2.0}, "z": {ps[0]: 1.0, ps[-1]: -1.0}}
                    norm = {v: dict(d) for v, d in arg.items()}
                o.update({"order1_arg": arg, "order1": norm, "order2_arg": None, "order2": {}, "auto": True})
            add({"t": "dop", "o": o}, kind="op", cost=(7 if o["kind"] == "scalar" else 9) + (3 if with_o2 else 0), diff=True)
        elif k == "shift":
            o = {"op": "shift", "d": rng.choice([1, 1, 2, -1, -2, 3]), "nmax": rng.choice([None, None, None, 2])}
            add({"t": "dop", "o": o}, kind="op", cost=0, diff=True)
        else:
            pk = rng.choice(["spoil", "wait", "pd", "reset"])
            o = {"op": "pd", "p": float(rng.choice([0.5, 1, 2])), "reset": False} if pk == "pd" else {"op": pk}
            add({"t": "dop", "o": o}, kind="op", cost=0, diff=False)
    pr = [("epg.ADC", "F0", None)]
    if rng.random() < 0.5:
        pr.append(("epg.Adc('Z0')", "Z0", None))
    if rng.random() < 0.7:      # a probe returning several quantities at once (tuple / list)
        pr.append((rng.choice(["epg.Probe('(F0, Z0)')", "epg.Probe('[F0, Z0]')", "epg.Probe(lambda sm: (sm.F0, sm.Z0))",
                               "epg.Probe(lambda sm: [sm.F0, sm.Z0])"]), "F0Z0", None))
    if rng.random() < 0.35:     # ... given as an expression to simulate(probe=...)
        pr.append((rng.choice(["'(F0, Z0)'", "'F0, Z0'", "'[F0, Z0]'"]), "F0Z0", "stronly"))
    vs = rng.sample(dprog.VARNAMES, rng.randint(1, 3))
    pr.append(("epg.Jacobian(%r)" % vs, "jac", vs))
    if with_o2:
        vs2 = rng.sample(dprog.VARNAMES, rng.randint(1, 2))
        pr.append(("epg.Hessian(%r)" % vs2, "hess", vs2))
    for e, k, v in pr:
        so = v == "stronly"
        add({"t": "probe", "expr": e, "pk": k, "vars": None if so else v}, kind="probe", pk=("str" if so else k))
    calls = []

    def refs_of(kind):
        return [i for i, m in enumerate(meta) if m and m.get("kind") == kind]

    def addc(c, **m):
        calls.append(c); meta.append(m); return len(meta) - 1
    ncall = rng.randint(3, 10)
    guard = 0
    while len(calls) < ncall and guard < 60:
        guard += 1
        do = rng.choice(["apply", "apply", "apply", "copy", "mul", "mkseq", "mkseq", "simulate", "simulate", "simulate", "acquire", "repeat"])
        if do == "repeat" and calls:
            j = rng.randrange(len(calls))
            c = calls[j]
            if c["do"] in ("simulate", "acquire", "apply") and not c.get("inplace"):
                m = meta[len(objs) + j]
                # arguments may have been modified in place since: budget re-checked through meta of the refs
                if c["do"] == "apply":
                    s = meta[c["sm"]]; o = meta[c["op"]]
                    if s["bits"] + o["cost"] > 50:
                        continue
                    addc(dict(c), kind="sm", bits=s["bits"] + o["cost"], attr=True)
                elif c["do"] == "simulate":
                    b = meta[c["init"]]["bits"] if c.get("init") is not None else 4
                    if b + meta[c["seq"]]["cost"] > 50:
                        continue
                    addc(dict(c), kind="res")
                else:
                    addc(dict(c), kind="res")
            continue
        if do == "apply":
            o = rng.choice(refs_of("op")); s = rng.choice(refs_of("sm"))
            if meta[s]["bits"] + meta[o]["cost"] > 50:
                continue
            inplace = rng.random() < 0.3
            mo, ms = meta[o], meta[s]
            if True:        # every operator call returns a state that carries order1 / order2 (possibly empty)
                attr = True
            elif mo.get("diff"):
                attr = True
            else:
                attr = ms["attr"] if inplace else False
            if inplace:
                ms["bits"] += mo["cost"]; ms["attr"] = attr
                addc({"do": "apply", "op": o, "sm": s, "inplace": True}, kind="placeholder")
            else:
                addc({"do": "apply", "op": o, "sm": s, "inplace": False}, kind="sm", bits=ms["bits"] + mo["cost"], attr=attr)
        elif do == "copy":
            s = rng.choice(refs_of("sm"))
            addc({"do": "copy", "sm": s}, kind="sm", bits=meta[s]["bits"], attr=False)
        elif do == "mul":
            a, b = rng.choice(refs_of("op")), rng.choice(refs_of("op"))
            cost = meta[a]["cost"] + meta[b]["cost"]
            if cost > 40:
                continue
            addc({"do": "mul", "a": a, "b": b}, kind="op", cost=cost, diff=False, multi=True,
                 first_diff=meta[a].get("first_diff", meta[a].get("diff") and not meta[a].get("multi")))
        elif do == "mkseq":
            ops = refs_of("op")
            items, cost = [], 0
            first_is_diff = None
            for _ in range(rng.randint(1, 5)):
                if rng.random() < 0.4 and items:
                    o = rng.choice([x for x in items if isinstance(x, int)] or ops)     # reuse one instance at several positions
                else:
                    o = rng.choice(ops)
                if meta[o].get("kind") != "op" or cost + meta[o]["cost"] > 40:
                    continue
                if first_is_diff is None:
                    first_is_diff = bool(meta[o].get("first_diff", meta[o].get("diff")))
                cost += meta[o]["cost"]
                items.append(o)
                if rng.random() < 0.45:
                    cand = [p for p in refs_of("probe") if meta[p]["pk"] in PLAIN]
                    items.append(rng.choice(cand))
            if not items:
                continue
            if not any(meta[x].get("kind") == "probe" for x in items):
                cand = [p for p in refs_of("probe") if meta[p]["pk"] in PLAIN]
                items.append(rng.choice(cand))
            if rng.random() < 0.3 and len(items) >= 3:      # nested list
                k = rng.randint(1, len(items) - 1)
                items = items[:k] + [items[k:]]
            addc({"do": "mkseq", "refs": items}, kind="seq", cost=cost, first_is_diff=first_is_diff)
        elif do == "simulate":
            qs = refs_of("seq")
            if not qs:
                continue
            q = rng.choice(qs)
            init = rng.choice(refs_of("sm")) if rng.random() < 0.6 else None
            b = meta[init]["bits"] if init is not None else 4
            if b + meta[q]["cost"] > 50:
                continue
            opts = {"max_nstate": rng.choice([1, 2, 3])} if rng.random() < 0.3 else {}
            probe = None
            if rng.random() < 0.4:
                cand = [p for p in refs_of("probe") if meta[p]["pk"] in PLAIN + ("str",) or meta[q]["first_is_diff"]]
                probe = rng.choice(cand)
            c = {"do": "simulate", "seq": q, "init": init, "opts": dict(opts, asarray=False), "probe": probe}
            addc(c, kind="res")
            for _ in range(rng.choice([0, 1, 1, 2])):
                if len(calls) < ncall + 2:
                    addc(dict(c), kind="res")
        elif do == "acquire":
            s = rng.choice(refs_of("sm"))
            cand = [p for p in refs_of("probe") if meta[p]["pk"] in PLAIN or (meta[s]["attr"] and meta[p]["pk"] != "str")]
            addc({"do": "acquire", "probe": rng.choice(cand), "sm": s}, kind="res")
    return {"kind": "synth", "objects": objs, "calls": calls}


REAL_FAMILIES = ["basic", "basic", "batched", "imaging", "imaging", "vseq", "nd", "kvalue"]


def gen_real(rng):
    fam = rng.choice(REAL_FAMILIES)
    if fam == "vseq":
        return gen_vseq(rng)
    objs, meta = [], []

    def add(spec, **m):
        objs.append(spec); meta.append(m); return len(objs) - 1

    def o1(names):
        r = rng.random()
        if r < 0.35 or fam == "kvalue":
            return ""
        if r < 0.5:
            # several variables differentiate the SAME parameter: aliases, unit and non-unit coefficients
            p0, p1 = names[0], names[-1]
            form = rng.choice(["alias", "unit", "mixed", "float"])
            if form == "alias":
                d = {"a": p0, "b": p0} if rng.random() < 0.6 else {"a": p0, "b": p0, "c": p1}
            elif form == "unit":
                d = {"a": {p0: 1}, "b": {p0: 1}}
            elif form == "float":
                d = {"a": {p0: 1.0}, "b": {p0: 1.0}, "c": {p1: 1.0}}
            else:
                d = {"a": {p0: 1}, "b": {p0: 2.0}, "c": {p0: 1, p1: 0.5}}
            return ", order1=%r" % d
        if r < 0.6:
            return ", order1=True"
        sub = [n for n in names if rng.random() < 0.6] or names[:1]
        if r < 0.8:
            return ", order1=%r" % sub
        if rng.random() < 0.5:
            return ", order1=True, order2=True"
        return ", order1=%r, order2=%r" % (sub, sub[0])
    arr = (lambda vals: "np.array(%r)" % [float(rng.choice(vals)) for _ in range(3)]) if fam == "batched" else (lambda vals: repr(float(rng.choice(vals))))
    # state matrices
    kv = {"kvalue": rng.choice([0.5, 2.0, 0.25]), "kgrid": rng.choice([0.01, 0.05])}
    if fam == "kvalue":
        # float (shift-merge) gradients on a state whose kvalue / tvalue is not 1; some S are built from CALLER-OWNED arrays
        if rng.random() < 0.3:
            kv["tvalue"] = 0.5
        kvs = ", ".join("%s=%r" % it for it in kv.items())
        add({"t": "sm", "expr": "epg.StateMatrix(%s%s)" % (rng.choice(["", "[1, 1, 0], "]), kvs)}, kind="sm", attr=False)
        if rng.random() < 0.4:
            add({"t": "sm", "expr": "epg.StateMatrix(%s)" % kvs}, kind="sm", attr=False)
        arrays = [add({"t": "array", "expr": "np.array([%r])" % [rng.choice([1.2, 0.6, -0.9]), rng.choice([0.0, 0.3]), rng.choice([-0.3, 0.0, 0.6])]}, kind="array")
                  for _ in range(rng.randint(1, 2))]
    elif fam == "imaging":
        add({"t": "sm", "expr": "epg.StateMatrix(kgrid=%s)" % rng.choice([0.5, 1.0]),
             "prep": ["epg.System(weights=np.array([%s]), modulation=np.array([%s]))" % (rng.choice([0.5, 2.0]), rng.choice(["-0.02", "-0.01+0.05j"]))]
             if rng.random() < 0.6 else []}, kind="sm", attr=False)
    elif fam == "nd":
        add({"t": "sm", "expr": "epg.StateMatrix(%s)" % rng.choice(["", "max_nstate=3", "shape=(2,)"])}, kind="sm", attr=False)
    else:
        add({"t": "sm", "expr": "epg.StateMatrix(%s)" % rng.choice(["", "", "max_nstate=2", "density=2.0", "[[0.5, 0.5, 0.5]]"]),
             "prep": (["epg.System(weights=np.array([2.0]))"] if rng.random() < 0.25 else [])}, kind="sm", attr=False)
    if rng.random() < 0.4 and fam != "kvalue":
        add({"t": "sm", "expr": "epg.StateMatrix(%s)" % ("kgrid=1.0" if fam == "imaging" else "")}, kind="sm", attr=False)
    # operators
    nops = rng.randint(3, 6)
    noshift = fam in ("basic", "batched") and rng.random() < 0.4       # no shift: the state arrays are never re-allocated
    for _ in range(nops):
        k = rng.choice(["T", "T", "E", "E", "S", "S", "P", "R", "Phi", "plain", "C" if fam == "imaging" else "S"])
        if noshift and k == "S":
            k = rng.choice(["T", "E", "P"])
        if k == "T":
            e = "epg.T(%s, %s%s)" % (arr([20, 45, 90, 150]), rng.choice([0, 30, 90]), o1(["alpha", "phi"]))
        elif k == "E":
            e = "epg.E(%s, %s, %s, %s%s)" % (rng.choice([2.0, 5.0, 10.0]), arr([400, 1000]), arr([30, 80]), rng.choice([0, 0.01, -0.03]), o1(["tau", "T1", "T2", "g"]))
        elif k == "P":
            e = "epg.P(%s, %s%s)" % (rng.choice([2.0, 5.0]), arr([0.01, -0.02, 0.05]), o1(["tau", "g"]))
        elif k == "R":
            e = "epg.R(%s, %s%s)" % (arr([0.01, 0.05]), rng.choice([0.001, 0.002]), o1(["rT", "rL"]).replace("order1=True, order2=True", "order1=['rT']").replace("order1=True", "order1=['rT', 'rL']"))
        elif k == "Phi":
            e = "epg.Phi(%s%s)" % (arr([10, 45, 120]), o1(["phi"]))
        elif k == "S" and fam == "kvalue":
            if rng.random() < 0.6:
                a = rng.choice(arrays)
                add({"t": "op", "expr": "epg.S(A)", "names": {"A": a}}, kind="op", diff=True)
                continue
            e = "epg.S(%r)" % [[rng.choice([1.2, -0.6, 0.9]), rng.choice([0.0, 0.3]), rng.choice([0.3, 0.0])]]
        elif k == "S":
            if fam == "imaging":
                e = "epg.S(%s)" % rng.choice(["0.5", "1.0", "-1.5", "np.array([1.0, 0.0, 0.5])"])
            elif fam == "nd":
                e = "epg.S(np.array(%r)%s)" % ([rng.choice([1, 0, -1]) or 1, rng.choice([0, 1]), rng.choice([0, 1, -1])], rng.choice(["", ", nmax=2", ", prune=1e-6"]))
            else:
                e = "epg.S(%d%s)" % (rng.choice([1, 1, 2, -1]), rng.choice(["", "", ", nmax=2"]))
        elif k == "C":
            e = "epg.C(%s)" % rng.choice([1.0, 2.5])
        else:
            e = rng.choice(["epg.SPOILER", "epg.RESET", "epg.PD(2.0)", "epg.PD(0.5, reset=False)", "epg.Wait(3.0)", "epg.NULL",
                            "epg.System(weights=np.array([3.0]))"])
        isdiff = k not in ("plain",)
        add({"t": "op", "expr": e}, kind="op", diff=isdiff)
    # probes
    pr = ["epg.ADC", "epg.ADC", "epg.Adc('Z0', phase=30.0)", "epg.Probe('F0 * 2')", "epg.Probe('abs(Z0)', post=np.real)",
          "epg.Probe('(F0, Z0)')", "epg.Probe('[F0, Z0]')", "epg.Probe(lambda sm: (sm.F0, sm.Z0))",
          "epg.Probe(lambda sm: [sm.F, (sm.Z, sm.states)])", "epg.Probe(lambda sm: ((sm.F0, sm.Z0), sm.states))", "'(F0, Z0)'", "'[F, Z]'",
          "epg.Jacobian(['alpha', 'T2', 'magnitude'])", "epg.Hessian(['alpha', 'T2'], ['T2', 'tau'])", "epg.Adc('F', phase=[10.0])",
          "epg.Jacobian(['a', 'b', 'c', 'alpha'])", "epg.Jacobian(['b', 'a'])"]
    if fam == "batched":
        pr += ["epg.Adc('F0', reduce=True)", "epg.Adc('F0', weights=np.array([1.0, 2.0, 0.5]))", "epg.Adc(reduce=0, phase=45.0)"]
    if fam == "imaging":
        pr = ["epg.ADC",
              "epg.Imaging(np.array([[0.1, 0.0, 0.0], [0.3, 0.2, 0.0]]), weights=np.array([2.0]))",
              "epg.Imaging(np.array([[0.2, 0.0, 0.0]]), modulation=np.array([-0.05+0.1j]), voxel_size=0.5)",
              "epg.Imaging(np.array([[0.2, 0.1, 0.0]]), modulation=np.array([-0.05]), weights=np.array([0.5]), voxel_shape='point')",
              "epg.Imaging(np.array([[0.4, 0.0, 0.0]]))",
              "epg.DFT(np.array([[0.1, 0.0, 0.0], [0.25, 0.0, 0.0]]))"]
    for e in ["epg.ADC"] + rng.sample(pr[1:], min(len(pr) - 1, rng.randint(1, 3))):
        needs = e.startswith(("epg.Jacobian", "epg.Hessian"))
        # ragged values cannot be substituted on an Adc (Adc._post converts the value to one array)
        add({"t": "probe", "expr": e}, kind="probe", needs_attr=needs, stronly=e.startswith("'"), ragged="sm.states" in e)
    calls = []

    def refs_of(kind):
        return [i for i, m in enumerate(meta) if m and m.get("kind") == kind]

    def addc(c, **m):
        calls.append(c); meta.append(m); return len(meta) - 1
    ncall = rng.randint(3, 10)
    guard = 0
    while len(calls) < ncall and guard < 80:
        guard += 1
        do = rng.choice(["apply", "apply", "apply", "copy", "mutate", "mul", "mul", "matmul", "mkseq", "mkseq", "simulate", "simulate",
                         "simulate", "acquire", "papply"])
        if do == "apply":
            o, s = rng.choice(refs_of("op")), rng.choice(refs_of("sm"))
            mo, ms = meta[o], meta[s]
            inplace = rng.random() < 0.3
            attr = True         # every operator call returns a state that carries order1 / order2 (possibly empty)
            if inplace:
                ms["attr"] = attr
                addc({"do": "apply", "op": o, "sm": s, "inplace": True}, kind="placeholder")
            else:
                addc({"do": "apply", "op": o, "sm": s, "inplace": False}, kind="sm", attr=attr)
        elif do == "papply":       # a probe applied like an operator
            p, s = rng.choice([x for x in refs_of("probe") if not meta[x]["stronly"]]), rng.choice(refs_of("sm"))
            addc({"do": "apply", "op": p, "sm": s, "inplace": False}, kind="sm", attr=meta[s]["attr"], alias_of=s)
        elif do == "copy":
            s = rng.choice(refs_of("sm"))
            addc({"do": "copy", "sm": s}, kind="sm", attr=False)
        elif do == "mutate":
            cps = [i for i in refs_of("sm") if i >= len(objs) and calls[i - len(objs)]["do"] == "copy"]
            if not cps:
                continue
            addc({"do": "mutate", "sm": rng.choice(cps), "how": rng.choice(["scale", "option", "system", "imul"])}, kind="placeholder")
        elif do == "mul":
            a, b = rng.choice(refs_of("op")), rng.choice(refs_of("op"))
            addc({"do": "mul", "a": a, "b": b}, kind="op", diff=False, multi=True,
                 first_diff=meta[a].get("first_diff", meta[a].get("diff") and not meta[a].get("multi")))
        elif do == "matmul":
            cand = [i for i in refs_of("op") if i < len(objs) and objs[i]["expr"].startswith(("epg.T(", "epg.Phi(")) and "order" not in objs[i]["expr"]]
            cand2 = [i for i in refs_of("op") if i < len(objs) and objs[i]["expr"].startswith(("epg.E(", "epg.P(", "epg.R(")) and "order" not in objs[i]["expr"]]
            pool = rng.choice([cand, cand2])
            if len(pool) < 1:
                continue
            a = rng.choice(pool)
            b = rng.choice([i for i in pool if objs[i]["expr"][:6] == objs[a]["expr"][:6]])
            addc({"do": "matmul", "a": a, "b": b}, kind="op", diff=True)
        elif do == "mkseq":
            ops = refs_of("op")
            items, first_is_diff = [], None
            for _ in range(rng.randint(1, 6)):
                o = rng.choice([x for x in items if isinstance(x, int) and meta[x].get("kind") == "op"] or ops) if (rng.random() < 0.35 and items) else rng.choice(ops)
                if first_is_diff is None:
                    first_is_diff = bool(meta[o].get("first_diff", meta[o].get("diff")))
                items.append(o)
                if rng.random() < 0.45:
                    cand = [p for p in refs_of("probe") if not meta[p]["needs_attr"] and not meta[p]["stronly"]]
                    items.append(rng.choice(cand))
            if not any(meta[x].get("kind") == "probe" for x in items):
                cand = [p for p in refs_of("probe") if not meta[p]["needs_attr"] and not meta[p]["stronly"]]
                items.append(rng.choice(cand))
            if rng.random() < 0.3 and len(items) >= 3:
                k = rng.randint(1, len(items) - 1)
                items = items[:k] + [items[k:]]
            addc({"do": "mkseq", "refs": items}, kind="seq", first_is_diff=first_is_diff)
        elif do == "simulate":
            qs = refs_of("seq")
            if not qs:
                continue
            q = rng.choice(qs)
            init = rng.choice(refs_of("sm")) if rng.random() < 0.6 else None
            opts = {}
            if fam == "kvalue":
                if init is None:
                    opts.update(kv)
            elif fam == "imaging":
                if init is None or rng.random() < 0.3:
                    opts["kgrid"] = rng.choice([0.5, 1.0])
            elif rng.random() < 0.3:
                opts["max_nstate"] = rng.choice([1, 2, 3])
            opts["asarray"] = False
            probe = None
            if rng.random() < 0.3:
                cand = [p for p in refs_of("probe") if (not meta[p]["needs_attr"] or meta[q]["first_is_diff"]) and not meta[p]["ragged"]]
                probe = rng.choice(cand) if rng.random() < 0.7 else [rng.choice(cand), rng.choice(cand)]
            c = {"do": "simulate", "seq": q, "init": init, "opts": opts, "probe": probe}
            addc(c, kind="res")
            for _ in range(rng.choice([0, 1, 1, 2])):
                addc(dict(c), kind="res")
        elif do == "acquire":
            s = rng.choice(refs_of("sm"))
            cand = [p for p in refs_of("probe") if not meta[p]["stronly"] and (not meta[p]["needs_attr"] or meta[s]["attr"])]
            addc({"do": "acquire", "probe": rng.choice(cand), "sm": s}, kind="res")
            if rng.random() < 0.5:      # ... followed by an operator applied in place to the probed state
                o = rng.choice(refs_of("op"))
                mo, ms = meta[o], meta[s]
                ms["attr"] = True
                addc({"do": "apply", "op": o, "sm": s, "inplace": True}, kind="placeholder")
    return {"kind": "real:" + fam, "objects": objs, "calls": calls}


def gen_vseq(rng):
    """epgpy.sequence.Sequence: signal / jacobian / hessian / build / simulate, repeated on the same object"""
    exprs = [
        "Sequence([T('alpha', 90), S(1), E(5.0, 'T1', 'T2'), T(2 * Variable('alpha'), 0), S(1), E(5.0, 'T1', 'T2'), 'ADC'])",
        "Sequence([T('alpha', 'phi'), E('tau', 'T1', 'T2', 0.01), S(1), 'ADC', T('alpha', 'phi'), E('tau', 'T1', 'T2', 0.01), S(1), 'ADC', 'SPOILER', T(30, 0), 'ADC'])",
        "Sequence([T(Variable('alpha') * Variable('b1'), 90), P('tau', 'g'), S(1), R(1 / Variable('T2'), 1 / Variable('T1')), ADC, Phi('phi'), S(-1), ADC], options={'max_nstate': 2})",
        "Sequence(repeat([T('a', 0), E(4.0, 'T1', 'T2'), S(1), ADC], 3, a='a{0}'))",
        "Sequence([T(Variable('a') + Variable('b'), 90), E(5.0, 'T1', 'T2'), ADC, T(2 * Variable('a') + Variable('b'), 0), E(5.0, 'T1', 'T2'), ADC])",
    ]
    vals = {"alpha": 35.0, "phi": 20.0, "tau": 4.0, "T1": 800.0, "T2": 60.0, "g": 0.02, "b1": 0.9, "a1": 20.0, "a2": 50.0, "a3": 80.0, "a": 20.0, "b": 15.0}
    k = rng.randrange(len(exprs))
    names = [["alpha", "T1", "T2"], ["alpha", "phi", "tau", "T1", "T2"], ["alpha", "b1", "tau", "g", "T2", "T1", "phi"], ["a1", "a2", "a3", "T1", "T2"],
             ["a", "b", "T1", "T2"]][k]
    v = {n: vals[n] for n in names}
    if rng.random() < 0.3:
        v[names[-1]] = [vals[names[-1]], vals[names[-1]] * 1.5]
    objs = [{"t": "vseq", "expr": exprs[k]}, {"t": "sm", "expr": "epg.StateMatrix(%s)" % rng.choice(["", "max_nstate=3"])},
            {"t": "probe", "expr": "epg.Jacobian(%r)" % names}]
    calls = []
    for _ in range(rng.randint(3, 8)):
        m = rng.choice(["signal", "jacobian", "jacobian", "hessian", "hessian", "build", "simulate", "crlb"])
        sub = rng.sample(names, rng.randint(1, min(3, len(names))))
        if m == "build":
            o1v = sub if rng.random() < 0.6 else None
            calls.append({"do": "build", "vseq": 0, "values": v, "order1": o1v, "order2": None})
            if rng.random() < 0.6:
                calls.append({"do": "simulate", "seq": len(objs) + len(calls) - 1, "init": rng.choice([None, 1]), "opts": {"asarray": False},
                              "probe": (2 if o1v else None)})
        elif m == "simulate":
            calls.append({"do": "vcall", "vseq": 0, "method": "simulate", "values": v, "opts": rng.choice([{}, {"max_nstate": 2}, {"init": None}])})
        else:
            calls.append({"do": "vcall", "vseq": 0, "method": m, "vars": (sub[:1] if m == "crlb" else sub), "values": v,
                          "opts": rng.choice([{}, {}, {"max_nstate": 3}])})
        if rng.random() < 0.5:
            calls.append(dict(calls[-1]))
    return {"kind": "real:vseq", "objects": objs, "calls": calls}


# minimal witnesses of the defects predicted in DESIGN section 9 (items 2, 3, 12) — run first, through the same machinery
WITNESSES = [
    ("Imaging._acquire pops its options", {"kind": "witness", "objects": [
        {"t": "op", "expr": "epg.T(90, 90)"}, {"t": "op", "expr": "epg.S(1)"}, {"t": "op", "expr": "epg.T(20, 0)"},
        {"t": "probe", "expr": "epg.Imaging(np.array([[0.1, 0.0, 0.0]]), weights=np.array([2.0]))"}],
        "calls": [{"do": "mkseq", "refs": [0, 1, 2, 1, 3]}, {"do": "simulate", "seq": 4, "init": None, "opts": {}, "probe": None},
                  {"do": "simulate", "seq": 4, "init": None, "opts": {}, "probe": None}]}),
    ("simulate writes its options into the caller's init state", {"kind": "witness", "objects": [
        {"t": "sm", "expr": "epg.StateMatrix()"}, {"t": "op", "expr": "epg.T(90, 90)"}, {"t": "op", "expr": "epg.S(1)"}, {"t": "probe", "expr": "epg.ADC"}],
        "calls": [{"do": "mkseq", "refs": [1, 2, 1, 2, 3]}, {"do": "simulate", "seq": 4, "init": 0, "opts": {"max_nstate": 1}, "probe": None},
                  {"do": "apply", "op": 2, "sm": 0, "inplace": False}, {"do": "apply", "op": 2, "sm": 6, "inplace": False}]}),
    ("StateMatrix.copy shares the linked system collection", {"kind": "witness", "objects": [
        {"t": "sm", "expr": "epg.StateMatrix()"}, {"t": "op", "expr": "epg.T(np.array([10.0, 20.0, 30.0]), 0)"}],
        "calls": [{"do": "apply", "op": 1, "sm": 0, "inplace": False}]}),
    ("StateMatrix.copy shares the linked system collection (system arrays)", {"kind": "witness", "objects": [
        {"t": "sm", "expr": "epg.StateMatrix()", "prep": ["epg.System(weights=np.array([2.0]))"]}],
        "calls": [{"do": "copy", "sm": 0}, {"do": "mutate", "sm": 1, "how": "system"}]}),
    ("MultiOperator.__mul__ mutates its left operand", {"kind": "witness", "objects": [
        {"t": "op", "expr": "epg.T(30, 0)"}, {"t": "op", "expr": "epg.S(1)"}, {"t": "op", "expr": "epg.E(5, 100, 10)"}, {"t": "sm", "expr": "epg.StateMatrix()"}],
        "calls": [{"do": "mul", "a": 0, "b": 1}, {"do": "mul", "a": 4, "b": 2}, {"do": "apply", "op": 4, "sm": 3, "inplace": False}]}),
    ("Probe.__call__ returns its input object", {"kind": "witness", "objects": [
        {"t": "sm", "expr": "epg.StateMatrix()"}, {"t": "probe", "expr": "epg.ADC"}],
        "calls": [{"do": "apply", "op": 1, "sm": 0, "inplace": False}]}),
    # probes returning several quantities at once, recorded at interior positions and followed by operators that work in place
    # without re-allocating the state arrays (no shift / max_nstate reached)
    ("multi-valued probes inside simulate are snapshots (no shift)", {"kind": "witness", "objects": [
        {"t": "op", "expr": "epg.T(90, 90)"}, {"t": "op", "expr": "epg.E(10.0, 100.0, 20.0)"}, {"t": "op", "expr": "epg.T(60, 30)"},
        {"t": "probe", "expr": "epg.Probe('(F0, Z0)')"}, {"t": "probe", "expr": "epg.Probe(lambda sm: [sm.F, (sm.Z, sm.states)])"},
        {"t": "probe", "expr": "epg.ADC"}, {"t": "probe", "expr": "'[F0, Z0]'"}, {"t": "sm", "expr": "epg.StateMatrix([0.6, 0.6, 0.3])"}],
        "calls": [{"do": "mkseq", "refs": [0, 1, 3, 2, 1, 3, 0, 1, 3]}, {"do": "mkseq", "refs": [0, 1, 4, 2, 1, 4, 0, 4]},
                  {"do": "mkseq", "refs": [0, 1, 5, 2, 1, 5, 0, 1, 5]},
                  {"do": "simulate", "seq": 8, "init": None, "opts": {"asarray": False}, "probe": None},
                  {"do": "simulate", "seq": 8, "init": 7, "opts": {}, "probe": None},
                  {"do": "simulate", "seq": 9, "init": None, "opts": {"asarray": False}, "probe": None},
                  {"do": "simulate", "seq": 10, "init": None, "opts": {"asarray": False}, "probe": 6},
                  {"do": "simulate", "seq": 10, "init": 7, "opts": {"asarray": False}, "probe": [3, 6]}]}),
    ("multi-valued probes inside simulate are snapshots (max_nstate reached)", {"kind": "witness", "objects": [
        {"t": "op", "expr": "epg.T(40, 90)"}, {"t": "op", "expr": "epg.S(1)"}, {"t": "op", "expr": "epg.E(5.0, 100.0, 20.0)"},
        {"t": "probe", "expr": "epg.Probe(lambda sm: (sm.F0, sm.Z0, sm.F))"}],
        "calls": [{"do": "mkseq", "refs": [0, 1, 2, 3, 0, 1, 2, 3, 0, 1, 2, 3, 0, 1, 3]},
                  {"do": "simulate", "seq": 4, "init": None, "opts": {"asarray": False, "max_nstate": 1}, "probe": None}]}),
    # a float gradient built from a caller-owned array, reused on a state whose kvalue is not 1: the operator, the caller's
    # array and a second application must be unaffected by the first application
    ("float S built from a caller's array is reusable on a state with kvalue != 1", {"kind": "witness", "objects": [
        {"t": "array", "expr": "np.array([[1.2, 0.0, -0.3]])"}, {"t": "op", "expr": "epg.S(A)", "names": {"A": 0}},
        {"t": "op", "expr": "epg.S([[0.6, 0.3, 0.0]])"}, {"t": "sm", "expr": "epg.StateMatrix([1, 1, 0], kvalue=0.5, kgrid=0.01)"},
        {"t": "op", "expr": "epg.T(90, 90)"}, {"t": "op", "expr": "epg.T(180, 0)"}, {"t": "probe", "expr": "epg.ADC"},
        {"t": "sm", "expr": "epg.StateMatrix(kvalue=2.0, tvalue=0.5, kgrid=0.05)"}],
        "calls": [{"do": "apply", "op": 1, "sm": 3, "inplace": False}, {"do": "apply", "op": 1, "sm": 8, "inplace": False},
                  {"do": "apply", "op": 2, "sm": 9, "inplace": False}, {"do": "apply", "op": 2, "sm": 7, "inplace": True},
                  {"do": "mkseq", "refs": [4, 1, 5, 1, 6, 2, 6]},
                  {"do": "simulate", "seq": 12, "init": None, "opts": {"kvalue": 0.5, "kgrid": 0.01}, "probe": None},
                  {"do": "simulate", "seq": 12, "init": None, "opts": {"kvalue": 0.5, "kgrid": 0.01}, "probe": None},
                  {"do": "simulate", "seq": 12, "init": 3, "opts": {"asarray": False}, "probe": None}]}),
    ("Probe.acquire of several quantities is a snapshot", {"kind": "witness", "objects": [
        {"t": "sm", "expr": "epg.StateMatrix([0.6, 0.6, 0.3])"}, {"t": "probe", "expr": "epg.Probe(lambda sm: (sm.F0, sm.Z0))"},
        {"t": "probe", "expr": "epg.Probe('[F, (Z, states)]')"}, {"t": "op", "expr": "epg.T(90, 0)"}, {"t": "op", "expr": "epg.E(10.0, 100.0, 20.0)"}],
        "calls": [{"do": "acquire", "probe": 1, "sm": 0}, {"do": "acquire", "probe": 2, "sm": 0},
                  {"do": "apply", "op": 3, "sm": 0, "inplace": True}, {"do": "apply", "op": 4, "sm": 0, "inplace": True},
                  {"do": "acquire", "probe": 1, "sm": 0}]}),
]


# =====================================================================================================
# (f) the pure model in Coq
# =====================================================================================================
HEADER = dprog.HEADER + """From EPG Require Import Purity.
Notation VSm0 := (fun pd nmax => @VSm QIops (mkSmv (@dinit QIops (@init QIops pd)) nmax)).
"""


def c_nat_opt(n):
    return core.coq_opt(n, lambda k: "%d%%nat" % k)


def flat_numbers(v):
    """all numbers of a recorded value (array, or nested tuple / list of arrays), in order"""
    if isinstance(v, (list, tuple)):
        return [z for x in v for z in flat_numbers(x)]
    return np.asarray(v).ravel().tolist()


def c_obs_value(kind, obj, snapped=False):
    if kind == "sm":
        main, o1, o2 = obj if snapped else dprog.snap_d(obj)
        return "(ObSm %s %s %s)" % (prog.c_sm(main), dprog.c_assoc(o1, lambda v: "%d%%nat" % dprog.vrank(v)),
                                    dprog.c_assoc(o2, lambda k: dprog.c_pair(k, dprog.vrank)))
    if kind in ("res", "res1"):
        # "res": what simulate(asarray=False) returns, one entry per acquisition; "res1": one acquisition (Probe.acquire)
        vals = [obj] if kind == "res1" else list(obj)
        rows = [core.clist([core.qi(z) for z in flat_numbers(v)]) for v in vals]
        return "(@ObRes QIops %s)" % core.clist(rows)
    return "ObNone"


def synth_term(hist, sh):
    """Gallina bool term: hist_ok store calls observations finals"""
    env = sh["env"]
    n0 = len(hist["objects"])
    store = []
    for spec in hist["objects"]:
        if spec["t"] == "sm":
            store.append("(VSm0 %s %s)" % (core.qi(spec["pd"]), c_nat_opt(spec.get("opts", {}).get("max_nstate"))))
        elif spec["t"] == "dop":
            store.append("(VOp %s)" % dprog.c_dinstr(spec["o"]))
        else:
            pk = spec["pk"]
            if pk == "F0":
                store.append("(@VProbe QIops PF0)")
            elif pk == "Z0":
                store.append("(@VProbe QIops PZ0)")
            elif pk == "F0Z0":
                store.append("(@VProbe QIops PF0Z0)")
            else:
                store.append("(@VProbe QIops (%s %s))" % ("PJac" if pk == "jac" else "PHess",
                                                         core.clist(["%d%%nat" % dprog.vrank(v) for v in spec["vars"]])))
    calls, obs, sm_refs = [], [], [i for i, s in enumerate(hist["objects"]) if s["t"] == "sm"]
    for ci, c in enumerate(hist["calls"]):
        ob = sh["obs"][n0 + ci]
        if ob is None:
            raise ValueError("no observation for call %d" % (n0 + ci))
        r = ob[1]
        do = c["do"]
        if do == "apply":
            calls.append("(CApply %d %d %s)" % (c["op"], c["sm"], core.coq_bool(c["inplace"])))
            obs.append(c_obs_value("sm", r, True))
            if not c["inplace"]:
                sm_refs.append(n0 + ci)
        elif do == "copy":
            calls.append("(CCopy %d)" % c["sm"]); obs.append(c_obs_value("sm", r, True)); sm_refs.append(n0 + ci)
        elif do == "mul":
            calls.append("(CMul %d %d)" % (c["a"], c["b"])); obs.append("ObNone")
        elif do == "mkseq":
            calls.append("(CMkSeq %s)" % core.clist(["%d%%nat" % x for x in flat_refs(c["refs"])])); obs.append("ObNone")
        elif do == "simulate":
            calls.append("(CSimulate %d %s %s %s)" % (c["seq"], c_nat_opt(c.get("init")), c_nat_opt((c.get("opts") or {}).get("max_nstate")),
                                                      c_nat_opt(c.get("probe"))))
            obs.append(c_obs_value("res", r))
        elif do == "acquire":
            calls.append("(CAcquire %d %d)" % (c["probe"], c["sm"])); obs.append(c_obs_value("res1", r))
        else:
            raise ValueError(do)
    finals = core.clist(["(%d%%nat, %s)" % (k, c_obs_value("sm", env[k])) for k in sm_refs])
    return "(hist_ok %s %s %s %s)" % (core.clist(store), core.clist(calls), core.clist(obs), finals)


# =====================================================================================================
# histories as JSON (exact: complex numbers with signed zeros, tuples, non-string keys)
# =====================================================================================================
def encode(x):
    if isinstance(x, complex):
        return {"__complex__": [x.real.hex(), x.imag.hex()]}
    if isinstance(x, float):
        return {"__float__": x.hex()}
    if isinstance(x, tuple):
        return {"__tuple__": [encode(i) for i in x]}
    if isinstance(x, list):
        return [encode(i) for i in x]
    if isinstance(x, dict):
        if all(isinstance(k, str) for k in x):
            return {k: encode(v) for k, v in x.items()}
        return {"__items__": [[encode(k), encode(v)] for k, v in x.items()]}
    return x


def decode(x):
    if isinstance(x, list):
        return [decode(i) for i in x]
    if isinstance(x, dict):
        if "__complex__" in x:
            return complex(float.fromhex(x["__complex__"][0]), float.fromhex(x["__complex__"][1]))
        if "__float__" in x:
            return float.fromhex(x["__float__"])
        if "__tuple__" in x:
            return tuple(decode(i) for i in x["__tuple__"])
        if "__items__" in x:
            return {decode(k): decode(v) for k, v in x["__items__"]}
        return {k: decode(v) for k, v in x.items()}
    return x


# =====================================================================================================
# (e) hash-seed sweep in sub-processes
# =====================================================================================================
def results_digest(hist):
    try:
        sh = run_shared(hist, observe=False)
        return [digest(r) for r in sh["results"]]
    except Exception as e:          # interpreter failure: reported as a digest so that it is compared as well
        return ["interpreter-raised:%s" % type(e).__name__]


def runner_main(argv):
    batch = decode(json.load(open(argv[0])))
    out = [results_digest(h) for h in batch]
    with open(argv[1], "w") as f:
        json.dump({"hashseed": os.environ.get("PYTHONHASHSEED"), "digests": out}, f)


def hash_sweep(ctx, hists, seeds):
    d = os.path.join(core.VERIF, "build", "c09")
    os.makedirs(d, exist_ok=True)
    batch = os.path.join(d, "batch_%d.json" % os.getpid())
    with open(batch, "w") as f:
        json.dump(encode(hists), f)
    base = [results_digest(h) for h in hists]
    procs = []
    repo = os.environ.get("EPGPY_REPO", "/repo")
    pending = list(seeds)
    done = {}
    running = []
    while pending or running:
        while pending and len(running) < core.NPROC:
            s = pending.pop(0)
            out = os.path.join(d, "out_%d_%s.json" % (os.getpid(), s))
            env = dict(os.environ, PYTHONHASHSEED=str(s), PYTHONPATH="%s:%s" % (repo, core.VERIF))
            p = subprocess.Popen([sys.executable, os.path.abspath(__file__), batch, out], env=env,
                                 stdout=subprocess.PIPE, stderr=subprocess.STDOUT)
            running.append((s, p, out))
        time.sleep(0.05)
        for it in list(running):
            s, p, out = it
            if p.poll() is not None:
                running.remove(it)
                try:
                    done[s] = json.load(open(out))["digests"]
                    os.remove(out)
                except Exception:
                    done[s] = ("failed", (p.stdout.read() or b"").decode()[-800:])
    os.remove(batch)
    nbad = 0
    reported = set()
    for s in seeds:
        got = done[s]
        if isinstance(got, tuple):
            ctx.report("hash-seed sub-process (PYTHONHASHSEED=%s) failed" % s, {"theorem_or_correspondence": "C09 hash-seed sweep", "output": got[1]},
                       found_input=False, signature={"site": "hash-sweep", "why": "subprocess-failed"})
            nbad += 1
            continue
        for hi, (a, b) in enumerate(zip(base, got)):
            if a != b:
                k = next((i for i, (x, y) in enumerate(zip(a, b)) if x != y), 0)
                h = hists[hi]
                n0 = len(h["objects"])
                do = h["calls"][k - n0]["do"] if k >= n0 and k - n0 < len(h["calls"]) else "construct"
                nbad += 1
                if do in reported:
                    break
                reported.add(do)
                ctx.report("results depend on the interpreter's hash seed: step %d (%s) differs between PYTHONHASHSEED=%s and %s"
                           % (k, describe(h, k) if k < n0 + len(h["calls"]) else "?", os.environ.get("PYTHONHASHSEED"), s),
                           {"history": encode(h), "hashseed": s, "step": k}, found_input=True,
                           signature={"site": do, "why": "hash-seed-dependent"})
                break
    return nbad


# =====================================================================================================
# in-place vs out-of-place on the implementation (target of inplace_equals_outofplace*)
# =====================================================================================================
def ipoop_case(first, second, with_partials):
    """(value of op(copy(sm), inplace=True), value of op(sm), op is a plain operator)"""
    import epgpy as epg
    env = {"epg": epg, "np": np}
    sm = epg.StateMatrix()
    if with_partials:
        sm = eval(first, env)(sm)
        sm = epg.S(1)(sm)
    op = eval(second, env)
    a = op(copy.deepcopy(sm), inplace=True)
    b = op(sm)
    return canon(a), canon(b), not isinstance(op, epg.operators.DiffOperator)


def inplace_vs_outofplace(ctx, rng, n):
    """value of op(sm, inplace=True) (on a fresh deep copy) vs op(sm): equal for every operator and every state matrix,
    partials included (theorem C09_model_inplace_equals_outofplace)"""
    nd = 0
    reported = set()
    for i in range(n):
        first = rng.choice(["epg.T(30.0, 10.0, order1=True)", "epg.E(5.0, 800.0, 50.0, order1=['T2'])", "epg.T(45.0, 0.0, order1=True, order2=True)"])
        second = rng.choice(["epg.S(1)", "epg.E(3.0, 500.0, 40.0)", "epg.T(60.0, 0.0, order1=True)", "epg.SPOILER", "epg.RESET", "epg.PD(2.0)",
                             "epg.Wait(1.0)", "epg.T(20.0, 0.0) * epg.S(1)", "epg.E(3.0, 500.0, 40.0, order1=True, order2=True)"])
        with_partials = rng.random() < 0.7
        ca, cb, plain = ipoop_case(first, second, with_partials)
        ctx.count(("ipoop", first, second, with_partials), nontrivial=True)
        if not canon_close(ca, cb):
            nd += 1
            sig = {"site": ("Operator" if plain else "DiffOperator") + ".__call__", "why": "inplace-differs-from-outofplace"}
            if repr(sig) in reported:
                continue
            reported.add(repr(sig))
            ctx.report("op(sm, inplace=True) and op(sm) return different values for op=%s on a state matrix %s partials: first difference at %s"
                       % (second, "with" if with_partials else "without", first_diff(cb, ca)),
                       {"ipoop": {"first": first, "second": second, "with_partials": with_partials},
                        "script": "sm = epg.S(1)(%s(epg.StateMatrix())); op = %s; a = op(copy.deepcopy(sm), inplace=True); b = op(sm); "
                                  "print(getattr(a,'order1',None), getattr(b,'order1',None))" % (first, second),
                        "model_theorem": "C09_model_inplace_equals_outofplace"}, found_input=True, signature=sig)
    return nd


# =====================================================================================================
# driver
# =====================================================================================================
def report_problem(ctx, title, hist, prob, seen):
    key = json.dumps(prob["sig"], sort_keys=True)
    seen[key] = seen.get(key, 0) + 1
    if seen[key] > 1:
        return
    small = shrink(hist, prob["sig"])
    probs = [p for p in analyse(small)[0] if p["sig"] == prob["sig"]] or [prob]
    ctx.report("%s%s" % (title, probs[0]["what"]),
               {"history": encode(small), "history_calls": [describe(small, len(small["objects"]) + i) for i in range(len(small["calls"]))],
                "all_findings_in_shrunk_history": [p["what"] for p in analyse(small)[0]][:6]},
               found_input=True, signature=prob["sig"])


def run(ctx):
    proved = ctx.prove(gen=False)
    quick = ctx.tier == "quick"
    rng = ctx.rng
    seen = {}
    # 0. corpus: the minimal witnesses
    for name, h in WITNESSES:
        probs, sh, pu = analyse(h)
        ctx.count(("witness", name), nontrivial=True)
        for p in probs:
            report_problem(ctx, "", h, p, seen)
    # 1. histories
    nsyn, nreal = (60, 70) if quick else (1500, 2500)
    hists = [gen_synth(rng) for _ in range(nsyn)] + [gen_real(rng) for _ in range(nreal)]
    terms, kept = [], []
    kinds, dos, nclean = {}, {}, 0
    nraise = nskip = 0
    for h in hists:
        kinds[h["kind"]] = kinds.get(h["kind"], 0) + 1
        for c in h["calls"]:
            dos[c["do"]] = dos.get(c["do"], 0) + 1
        probs, sh, pu = analyse(h)
        ctx.count(repr(h), nontrivial=len(h["calls"]) >= 3)
        if len(ctx.cov["samples"]) < 4 and len(h["calls"]) >= 3:
            ctx.sample({"kind": h["kind"], "calls": [describe(h, len(h["objects"]) + i) for i in range(len(h["calls"]))]})
        for p in probs:
            report_problem(ctx, "", h, p, seen)
        if not probs:
            nclean += 1
        nraise += sh.get("both_raise", 0)
        if h["kind"] == "synth" and any(e["kind"] == "raises" for e in sh["events"]):
            nskip += 1
        if h["kind"] == "synth" and not any(e["kind"] == "raises" for e in sh["events"]):
            try:
                terms.append(synth_term(h, sh)); kept.append((h, bool(probs)))
            except Exception as e:
                ctx.report("could not observe the results of a synthetic history: %s" % e, {"history": encode(h)}, found_input=False,
                           signature={"site": "harness", "why": "observe"})
    # (f) pure model
    verdicts, errors = ctx.run_bool_cases("hist", HEADER, terms, chunk=8)
    for e in errors:
        ctx.report("history shard failed to evaluate in Coq", {"theorem_or_correspondence": "C09 hist_ok (Model/Purity.v)", "coq_output": e}, found_input=False)
    nmodel_ok = 0
    for (h, had), v in zip(kept, verdicts):
        if v:
            nmodel_ok += 1
        elif v is False and not had:
            ctx.report("implementation results differ from the pure model (hist_ok = false) although no mutation / aliasing / hidden state was observed",
                       {"history": encode(h), "history_calls": [describe(h, len(h["objects"]) + i) for i in range(len(h["calls"]))],
                        "theorem_or_correspondence": "C09 correspondence Model/Purity.v vs epgpy"}, found_input=False,
                       signature={"site": "model", "why": "hist_ok-false"})
    # (e) hash seeds
    seeds = [1, 2, 3, 7, 42, 12345] if quick else [1, 2, 3, 7, 42, 12345] + [rng.randrange(1, 2 ** 32 - 1) for _ in range(42)]
    nhash = hash_sweep(ctx, [h for _, h in WITNESSES] + hists, seeds)
    # in place vs out of place
    ndiff = inplace_vs_outofplace(ctx, rng, 40 if quick else 600)
    ctx.cov["history_kinds"] = kinds
    ctx.cov["call_kinds"] = dos
    ctx.cov["histories_without_any_finding"] = nclean
    ctx.cov["calls_raising_with_reused_and_with_fresh_objects_alike"] = nraise       # 'both-raise': no C09 violation
    ctx.cov["synthetic_histories_not_compared_with_the_model_because_a_call_raised"] = nskip
    ctx.cov["model_histories_ok"] = "%d/%d" % (nmodel_ok, len(terms))
    ctx.cov["hash_seeds"] = seeds
    ctx.cov["hash_seed_mismatches"] = nhash
    ctx.cov["finding_counts_by_signature"] = seen
    ctx.notes["scope"] = ("PARTIAL: theorems are about the pure model (Model/Purity.v); aliasing / hidden state / hash seed are covered by the history "
                          "correspondence only (random histories, byte-level snapshots, shared-vs-fresh-copies runs, sub-process sweep). Not modelled in Coq: "
                          "batched / n-D / imaging / virtual-sequence histories ('real:*' kinds: checks a-e only), '@' combination, Sequence.build; "
                          "the stage-2 heap model of DESIGN section 4 (object ids, views) was not built.")
    ctx.notes["signature_granularity"] = ("a finding signature names the call site and the attribute class that changed; a second defect reaching the same "
                                          "attribute class through the same call kind would be reported under the same signature")
    ctx.notes["alias_check"] = "sharing of EMPTY dict/list/set objects between an input and a result is not reported (nothing can be changed through them by the API)"
    ctx.cov["trusted_base"] += [
        "C09 is PARTIAL by design: the Coq theorems are about the pure model Model/Purity.v; memory aliasing and process state are reached only "
        "through the history correspondence (random testing over call histories, not a proof)",
        "harness observation: canonical byte-level form of every live object (vars() recursively, arrays by bytes), np.shares_memory, copy.deepcopy",
        "hand-written model Model/Purity.v (+ Model/Diff.v, Ops.v) tied to epgpy by exact (dyadic) evaluation of hist_ok over QIops"]
    if not proved:
        ctx.report("proof obligations of C09 no longer check: %s" % ctx.failed_obligations,
                   {"theorem_or_correspondence": ctx.failed_obligations}, found_input=False)


def replay(ctx, rp):
    if "history" in rp:
        h = decode(rp["history"])
        if rp.get("hashseed") is not None:
            d0 = results_digest(h)
            tmp = os.path.join(core.VERIF, "build", "c09"); os.makedirs(tmp, exist_ok=True)
            b, o = os.path.join(tmp, "replay_batch.json"), os.path.join(tmp, "replay_out.json")
            json.dump(encode([h]), open(b, "w"))
            env = dict(os.environ, PYTHONHASHSEED=str(rp["hashseed"]))
            subprocess.run([sys.executable, os.path.abspath(__file__), b, o], env=env)
            d1 = json.load(open(o))["digests"][0]
            bad = d0 != d1
            print("replay: VIOLATION reproduced (hash-seed dependent)" if bad else "replay: identical results under both hash seeds")
            return 1 if bad else 0
        probs = analyse(h)[0]
        sig = rp.get("signature")
        hit = [p for p in probs if sig is None or p["sig"] == sig]
        for p in hit[:3]:
            print("replay:", p["what"])
        print("replay: VIOLATION reproduced" if hit else "replay: no purity violation on this history")
        return 1 if hit else 0
    if "ipoop" in rp:
        q = rp["ipoop"]
        ca, cb, plain = ipoop_case(q["first"], q["second"], q["with_partials"])
        print("replay script:", rp.get("script"))
        print("replay: VIOLATION reproduced: in-place and out-of-place values differ at %s" % first_diff(cb, ca) if not canon_close(ca, cb)
              else "replay: in-place and out-of-place values are identical")
        return 1 if not canon_close(ca, cb) else 0
    print("replay: not an input replay (%s)" % rp.get("what"))
    return 1


if __name__ == "__main__":
    runner_main(sys.argv[1:])
