"""C10 — nesting, '*' grouping and '@' combination equal sequential application."""
import numpy as np
from vlib import core, prog, dprog

HEADER = prog.HEADER + """From EPG Require Import Diff Combine.
Notation LScalar := (@LScalar QIops). Notation LMatrix := (@LMatrix QIops).
"""


def nest(rng, items):
    """random nesting of a flat list of items into lists and '*' groups: returns (python structure builder, description)"""
    if len(items) <= 1 or rng.random() < 0.3:
        return list(items)
    cut = rng.randint(1, len(items) - 1)
    left, right = nest(rng, items[:cut]), nest(rng, items[cut:])
    mode = rng.choice(["list", "list", "mul"])
    if mode == "mul":
        return [("mul", left + right)]
    return [left, right] if rng.random() < 0.5 else left + [right]


def build_nested(struct):
    import epgpy as epg
    out = []
    for it in struct:
        if isinstance(it, tuple) and it[0] == "mul":
            members = build_nested(it[1])
            flat = epg.functions.flatten_sequence(members)
            acc = flat[0]
            for m in flat[1:]:
                acc = acc * m
            if len(flat) == 1:
                acc = epg.operator.MultiOperator([flat[0]])
            out.append(acc)
        elif isinstance(it, list):
            out.append(build_nested(it))
        else:
            out.append(it)
    return out


def gen_lin(rng):
    return dprog.gen_lin(rng, rng.choice(["scalar", "scalar", "matrix"]))


def c_lin(l):
    return dprog.c_lin(l)


def lin_of_op(op):
    """read the arrays of a (combined) ScalarOp / MatrixOp"""
    from epgpy import opscalar
    if isinstance(op, opscalar.ScalarOp):
        return {"kind": "scalar", "arr": np.asarray(op.arr).reshape(-1, 3)[0].tolist(),
                "arr0": None if op.arr0 is None else np.asarray(op.arr0).reshape(-1, 3)[0].tolist()}
    return {"kind": "matrix", "arr": np.asarray(op.mat).reshape(-1, 3, 3)[0].tolist(),
            "arr0": None if op.mat0 is None else np.asarray(op.mat0).reshape(-1, 3, 3)[0].tolist()}


def mk(l, **kw):
    from epgpy import opscalar, opmatrix
    cls = opscalar.ScalarOp if l["kind"] == "scalar" else opmatrix.MatrixOp
    return cls(dprog.arr_np(l, "arr"), dprog.arr_np(l, "arr0"), **kw)


def run(ctx):
    import epgpy as epg
    proved = ctx.prove(gen=False)
    quick = ctx.tier == "quick"
    terms, meta = [], []
    # (a) nesting and '*' grouping
    for i in range(40 if quick else 1200):
        p = prog.gen_program(ctx.rng, maxlen=8, init_p=0.0, global_nmax_p=0.0)
        if not p["ops"]:
            continue
        durs = [float(ctx.rng.choice([0, 0.5, 1, 2.5])) for _ in p["ops"]]
        try:
            ops = []
            for o, d in zip(p["ops"], durs):
                op = prog.build_op(o)
                if o["op"] not in ("spoil", "reset", "wait"):
                    op = op.copy(duration=d) if hasattr(op, "copy") and o["op"] in ("scalar", "matrix") else op
                ops.append(op)
            # timing-only members, negative ones included (Offset(-t) rewinds the clock; a group's total may be negative)
            for _ in range(ctx.rng.choice([0, 0, 1, 2])):
                ops.insert(ctx.rng.randrange(len(ops) + 1), epg.Offset(float(ctx.rng.choice([-2, -1, -0.5, 1]))))
            struct = nest(ctx.rng, ops)
            nested = build_nested(struct) + [epg.ADC]
            flat = ops + [epg.ADC]
            v1 = epg.simulate(nested, probe=["F0", "Z0"], init=epg.StateMatrix(density=p["pd"]))
            v2 = epg.simulate(flat, probe=["F0", "Z0"], init=epg.StateMatrix(density=p["pd"]))
            snaps = prog.run_impl(p)
        except Exception as e:
            ctx.report("nested / grouped sequence raised %s: %s" % (type(e).__name__, str(e)[:200]), {"case": p}, found_input=True,
                       signature={"raises": type(e).__name__, "site": "nesting"})
            continue
        ctx.count(("nest", repr(p), repr(struct)[:200]), nontrivial=len(p["ops"]) >= 2)
        if not (np.array_equal(np.asarray(v1), np.asarray(v2))):
            ctx.report("nested/grouped sequence gives a different signal than the flat one", {"case": p, "structure": repr(struct)[:500]}, found_input=True,
                       signature={"why": "nesting-differs"})
        # multi-operator bookkeeping on the implementation
        mo = epg.operator.MultiOperator(ops)
        if abs(mo.duration - sum(op.duration for op in ops)) > 0 or mo.nshift != sum(op.nshift for op in ops):
            ctx.report("MultiOperator duration/nshift is not the sum over its members", {"case": p}, found_input=True, signature={"why": "multi-sums"})
        # model: the flat run is the reference (C01/C08 tie); final state compared exactly
        f0, z0 = complex(np.ravel(v1[0])[0]), complex(np.ravel(v1[1])[0])
        terms.append("(probe_ok %s %s %s %s)" % (prog.c_ops(p), prog.c_sm(snaps[0]), core.qi(f0), core.qi(z0)))
        meta.append(("nest", p))
    nestD_stream(ctx, 25 if quick else 600)
    nest_corr_stream(ctx, 30 if quick else 800)
    # (a') a '*' group reused as the left operand of two products must not change
    for i in range(15 if quick else 300):
        p = prog.gen_program(ctx.rng, maxlen=4, init_p=0.0, global_nmax_p=0.0, kinds=["scalar", "matrix", "shift", "spoil"])
        if len(p["ops"]) < 4:
            continue
        try:
            a, b, c, d = [prog.build_op(o) for o in p["ops"][:4]]
            block = a * b
            g1 = block * c
            g2 = block * d
            v1 = epg.simulate([g1, g2, epg.ADC], probe=["F0", "Z0"], init=epg.StateMatrix(density=p["pd"]))
            v2 = epg.simulate([a, b, c, a, b, d, epg.ADC], probe=["F0", "Z0"], init=epg.StateMatrix(density=p["pd"]))
        except Exception as e:
            ctx.report("reused '*' group raised %s: %s" % (type(e).__name__, str(e)[:200]), {"case": p}, found_input=True, signature={"raises": type(e).__name__, "site": "*-reuse"})
            continue
        ctx.count(("reuse", repr(p)), nontrivial=True)
        if len(block) != 2 or len(g1) != 3 or len(g2) != 3 or not np.array_equal(np.asarray(v1), np.asarray(v2)):
            ctx.report("a '*' group reused as left operand changed: len(block)=%d, len(block*c)=%d, len(block*d)=%d" % (len(block), len(g1), len(g2)),
                       {"case": p}, found_input=True, signature={"why": "group-reuse"})
    # (a'') the SAME Python list object used several times in the nesting ([exc, [block] * n], [exc] + [block] * n, a block inside two groups)
    for i in range(15 if quick else 300):
        p = prog.gen_program(ctx.rng, maxlen=4, init_p=0.0, global_nmax_p=0.0, kinds=["scalar", "matrix", "shift", "shift"])
        if len(p["ops"]) < 3:
            continue
        try:
            objs = [prog.build_op(o) for o in p["ops"]]
            exc, blk = objs[0], list(objs[1:]) + [epg.ADC]
            if ctx.rng.random() < 0.5:
                blk = [blk[0], blk[1:]]                      # a nested block
            k = ctx.rng.randint(2, 4)
            form = ctx.rng.choice(["inner", "outer", "twice"])
            nested = [exc, [blk] * k] if form == "inner" else ([exc] + [blk] * k if form == "outer" else [exc, blk, [blk, blk][:k - 1]])
            flat_blk = epg.functions.flatten_sequence([[o for o in objs[1:]] + [epg.ADC]])
            flat = [exc] + flat_blk * (k if form != "twice" else 1 + len([blk, blk][:k - 1]))
            v1 = np.asarray(epg.simulate(nested, init=epg.StateMatrix(density=p["pd"])))
            v2 = np.asarray(epg.simulate(flat, init=epg.StateMatrix(density=p["pd"])))
            t1, t2 = np.asarray(epg.get_adc_times(nested)), np.asarray(epg.get_adc_times(flat))
        except Exception as e:
            ctx.report("sequence with a reused sub-list raised %s: %s" % (type(e).__name__, str(e)[:200]), {"case": p}, found_input=True, signature={"raises": type(e).__name__, "site": "list-reuse"})
            continue
        ctx.count(("listreuse", repr(p), form, k), nontrivial=True)
        if v1.shape != v2.shape or not np.array_equal(v1, v2) or t1.shape != t2.shape:
            ctx.report("a sub-list object used %d times (%s) does not behave like its flat repetition: %d acquisitions instead of %d" % (k, form, v1.shape[0], v2.shape[0]),
                       {"case": p, "form": form, "k": k}, found_input=True, signature={"why": "list-reuse"})
    # (b) '@' chains on synthetic operators: combined arrays vs the model, and effect vs sequential application
    for i in range(60 if quick else 2000):
        n = ctx.rng.randint(2, 4)
        lins = [gen_lin(ctx.rng) for _ in range(n)]
        # bit budget: products of up to 4 half-integer arrays stay exact
        try:
            ops = [mk(l) for l in lins]
            comb = ops[0]
            assoc = ctx.rng.choice(["left", "right"])
            if assoc == "left":
                for o in ops[1:]:
                    comb = comb @ o
            else:
                acc = ops[-1]
                for o in reversed(ops[:-1]):
                    acc = o @ acc
                comb = acc
            sm0 = epg.StateMatrix(np.array(prog.gen_init(ctx.rng, 1), complex), density=1.5)
            seq = sm0
            for o in ops:
                seq = o(seq)
            one = comb(sm0)
        except Exception as e:
            ctx.report("'@' chain raised %s: %s" % (type(e).__name__, str(e)[:200]), {"lins": lins}, found_input=True, signature={"raises": type(e).__name__, "site": "@"})
            continue
        ctx.count(("chain", repr(lins), assoc), nontrivial=True)
        ctx.sample({"chain": [l["kind"] for l in lins], "assoc": assoc})
        if not (np.array_equal(np.array(one.states), np.array(seq.states)) and np.array_equal(np.array(one.equilibrium), np.array(seq.equilibrium))):
            ctx.report("(op1 @ op2 ...)(sm) differs from sequential application", {"lins": lins, "assoc": assoc}, found_input=True, signature={"why": "@-states"})
        if tuple(comb.shape) != (1,):
            ctx.report("combined operator shape is not the broadcast of the operands' shapes", {"lins": lins}, found_input=True, signature={"why": "@-shape"})
        terms.append("(chain_ok %s %s %s)" % (c_lin(lins[0]), core.clist([c_lin(l) for l in lins[1:]]), c_lin(lin_of_op(comb))))
        meta.append(("chain", lins))
    verdicts, errors = ctx.run_bool_cases("corr", HEADER, terms, chunk=12)
    for e in errors:
        ctx.report("correspondence shard failed to evaluate", {"theorem_or_correspondence": "C10 correspondence (Cases)", "coq_output": e}, found_input=False)
    nb = 0
    for (kind, obj), v in zip(meta, verdicts):
        if v is False and nb < 3:
            nb += 1
            ctx.report("model and implementation disagree (%s)" % kind, {"kind": kind, "object": repr(obj)[:2000], "theorem_or_correspondence": "C10 correspondence Model/Combine.v vs epgpy"}, found_input=False)
    # (c) '@' with derivatives: effect incl. partials vs sequential application (implementation-side oracle)
    combD_stream(ctx, 40 if quick else 1000)
    partial_oracle(ctx, 100 if quick else 3000)
    # (d) real operators: shape / duration / name of combined operators
    real_chains(ctx, 10 if quick else 300)
    ctx.cov["trusted_base"] += ["hand-written model Model/Combine.v tied to opscalar/opmatrix _combine by exact comparison of the combined arrays",
                                "first-order partials of '@': theorem combine_order1 under combined_ok, which is evaluated in Coq (combined_okb) on the derivative arrays and order1 of real a @ b objects (operands declaring parameters under their own names)",
                                "second-order partials of '@', and first-order with aliases/coefficient maps: implementation-side comparison with sequential application only (testing; known findings)"]
    if not proved:
        ctx.report("proof obligations of C10 no longer check: %s" % ctx.failed_obligations, {"theorem_or_correspondence": ctx.failed_obligations}, found_input=bool(ctx.violations))


# ---------------------------------------------------------------- (c') derivative arrays of '@' vs Proofs/CombineD.v
HEADER_D = prog.HEADER + """From EPG Require Import Diff Combine DiffExact CombineD.
Notation LScalar := (@LScalar QIops). Notation LMatrix := (@LMatrix QIops). Notation mkDop := (@mkDop QIops).
"""


def c_dop_u(lin, darrs, order1):
    """dop literal with ONE numbering for variable and parameter names ('@' mixes them as dictionary keys)"""
    r = dprog.vrank
    d = core.clist(["(%d%%nat, %s)" % (r(k), c_lin(l)) for k, l in darrs.items()])
    o1 = core.clist(["(%d%%nat, %s)" % (r(v), core.clist(["(%d%%nat, %s)" % (r(p_), core.qi(c)) for p_, c in cs.items()]))
                     for v, cs in order1.items()])
    return "(mkDop %s %s [] %s [] true [])" % (c_lin(lin), d, o1)


def darrs_of_op(op):
    from epgpy import opscalar
    out = {}
    if isinstance(op, opscalar.ScalarOp):
        for k, (a, a0) in op.darrs.items():
            out[k] = {"kind": "scalar", "arr": np.asarray(a).reshape(-1, 3)[0].tolist(),
                      "arr0": None if a0 is None else np.asarray(a0).reshape(-1, 3)[0].tolist()}
    else:
        for k, (m, m0) in op.dmats.items():
            out[k] = {"kind": "matrix", "arr": np.asarray(m).reshape(-1, 3, 3)[0].tolist(),
                      "arr0": None if m0 is None else np.asarray(m0).reshape(-1, 3, 3)[0].tolist()}
    return out


def combD_stream(ctx, n):
    """combined_okb (Proofs/CombineD.v) evaluated on what a @ b really holds: arrays, derivative arrays for every key,
    merged order1 -- the hypothesis of theorem combine_order1; operands declare their parameters under their own names"""
    import epgpy as epg
    terms, meta = [], []
    tries = 0
    while len(terms) < n and tries < 40 * n:
        tries += 1
        o1, o2 = dprog.gen_dop(ctx.rng, False), dprog.gen_dop(ctx.rng, False)
        if any(isinstance(o["order1_arg"], dict) for o in (o1, o2)):
            continue
        if not (o1["order1"] or o2["order1"]):
            continue
        for o in (o1, o2):
            act = {p_ for cs in o["order1"].values() for p_ in cs}
            o["darrs"] = {p_: l for p_, l in o["darrs"].items() if p_ in act}
        try:
            a, b = dprog.build_dop(o1), dprog.build_dop(o2)
            comb = a @ b
        except TypeError:
            continue
        except Exception as e:
            ctx.report("'@' with first-order declarations raised %s: %s" % (type(e).__name__, str(e)[:160]), {"op1": repr(o1)[:1500], "op2": repr(o2)[:1500]},
                       found_input=True, signature={"site": "@", "why": "raises-order1"})
            continue
        oc = c_dop_u(lin_of_op(comb), darrs_of_op(comb), {v: dict(cs) for v, cs in comb.order1.items()})
        t1 = c_dop_u(o1["lin"], o1["darrs"], o1["order1"])
        t2 = c_dop_u(o2["lin"], o2["darrs"], o2["order1"])
        terms.append("(combined_okb QIops %s %s %s [0;1;2;3;4]%%nat)" % (t1, t2, oc))
        meta.append((o1, o2))
        ctx.count(("combD", repr(o1), repr(o2)), nontrivial=bool(o1["order1"]) and bool(o2["order1"]))
    verdicts, errors = ctx.run_bool_cases("combD", HEADER_D, terms, chunk=10)
    for e in errors:
        ctx.report("correspondence shard failed to evaluate", {"theorem_or_correspondence": "C10 combined_okb (Proofs/CombineD.v)", "coq_output": e}, found_input=False)
    nb = 0
    for (o1, o2), v in zip(meta, verdicts):
        if v is False and nb < 3:
            nb += 1
            ctx.report("derivative arrays / order1 of (op1 @ op2) are not what _combine is modelled to build (cd, entries_merged)",
                       {"op1": repr(o1)[:1500], "op2": repr(o2)[:1500], "theorem_or_correspondence": "C10 combined_okb: hypothesis of combine_order1"},
                       found_input=False)
    ctx.cov["combD_cases"] = len(terms)


def nestD_stream(ctx, n):
    """flat / nested / '*'-grouped writings of a sequence of DIFFERENTIABLE real operators: the Jacobian and Hessian
    probes must return the same values ("a sequence gives the same results whether written flat, nested or grouped")"""
    import epgpy as epg
    for i in range(n):
        rng = ctx.rng
        second = rng.random() < 0.5
        kw = (lambda *names: {"order1": list(names), "order2": list(names)}) if second else (lambda *names: {"order1": list(names)})
        ops, desc = [], []
        for j in range(rng.randint(3, 8)):
            k = rng.choice(["T", "T", "E", "E", "S", "P"])
            if k == "T":
                a, ph = float(rng.choice([20, 45, 90, 150])), float(rng.choice([0, 30, 90]))
                ops.append(epg.T(a, ph, **(kw("alpha") if rng.random() < 0.8 else {})))
                desc.append(("T", a, ph))
            elif k == "E":
                tau, t2 = float(rng.choice([3, 5, 8])), float(rng.choice([40, 70]))
                ops.append(epg.E(tau, 900.0, t2, 0.01, **(kw("T2", "tau") if rng.random() < 0.8 else {})))
                desc.append(("E", tau, t2))
            elif k == "P":
                ops.append(epg.P(2.0, 0.03, **(kw("g") if rng.random() < 0.5 else {})))
                desc.append(("P",))
            else:
                d = int(rng.choice([1, 1, -1, 2]))
                ops.append(epg.S(d))
                desc.append(("S", d))
        struct = nest(rng, ops)
        variables = ["alpha", "T2", "tau", "g", "magnitude"]
        try:
            nested, flat = build_nested(struct) + [epg.ADC], ops + [epg.ADC]
            # the same grouped block repeated at top level, each time followed by an acquisition
            rep = rng.randint(1, 3)
            nested, flat = nested * rep, flat * rep
            j1 = np.asarray(epg.simulate(nested, probe=epg.Jacobian(variables)))
            j2 = np.asarray(epg.simulate(flat, probe=epg.Jacobian(variables)))
            if second:
                h1 = np.asarray(epg.simulate(nested, probe=epg.Hessian(["alpha", "T2", "tau"])))
                h2 = np.asarray(epg.simulate(flat, probe=epg.Hessian(["alpha", "T2", "tau"])))
        except Exception as e:
            ctx.report("nested / grouped differentiable sequence raised %s: %s" % (type(e).__name__, str(e)[:200]), {"ops": desc, "structure": repr(struct)[:400]},
                       found_input=True, signature={"raises": type(e).__name__, "site": "nesting-partials"})
            continue
        ctx.count(("nestD", repr(desc), repr(struct)[:200], second), nontrivial=True)
        # the same writings applied BY HAND: every top-level item ('*' groups as one operator, sub-lists member by
        # member) called on the state matrix, in place or out of place -- states and every partial must equal the
        # flat application
        try:
            def by_hand(items, sm, inplace):
                for it in items:
                    if isinstance(it, list):
                        sm = by_hand(it, sm, inplace)
                    elif not isinstance(it, epg.probe.Probe):
                        sm = it(sm, inplace=inplace)
                return sm
            mode = rng.random() < 0.5
            bh1 = dprog.snap_d(by_hand(build_nested(struct), epg.StateMatrix(), mode))
            bh2 = dprog.snap_d(by_hand(ops, epg.StateMatrix(), mode))
        except Exception as e:
            ctx.report("nested / grouped operators applied by hand raised %s: %s" % (type(e).__name__, str(e)[:200]), {"ops": desc, "structure": repr(struct)[:400]},
                       found_input=True, signature={"raises": type(e).__name__, "site": "group-call"})
            continue
        if bh1[0] != bh2[0] or not same_partials(bh1[1], bh2[1]) or not same_partials(bh1[2], bh2[2]):
            ctx.report("'*' groups called as operators give different states/partials than their members applied in order (first order: %s vs %s)"
                       % (sorted(bh1[1]), sorted(bh2[1])), {"ops": desc, "structure": repr(struct)[:400], "inplace": mode}, found_input=True,
                       signature={"why": "group-call-partials"})
        if j1.shape != j2.shape or not np.allclose(j1, j2, rtol=1e-12, atol=1e-14):
            ctx.report("nested/grouped sequence returns a different Jacobian than the flat one", {"ops": desc, "structure": repr(struct)[:400]}, found_input=True,
                       signature={"why": "nesting-jacobian"})
        elif second and (h1.shape != h2.shape or not np.allclose(h1, h2, rtol=1e-12, atol=1e-14)):
            ctx.report("nested/grouped sequence returns a different Hessian than the flat one", {"ops": desc, "structure": repr(struct)[:400]}, found_input=True,
                       signature={"why": "nesting-hessian"})


HEADER_N = dprog.HEADER + """From EPG Require Import NestD.
Notation DLeaf := (@DLeaf QIops). Notation DNode := (@DNode QIops). Notation DMulti := (@DMulti QIops).
Definition chk_tree (t : dtree QIops) (pd : QI) (m : sm QIops) (o1 : list (nat * sm QIops)) (o2 : list ((nat*nat) * sm QIops)) : bool :=
  dstate_eqb (drun_tree QIops t (@dinit QIops (@init QIops pd))) m o1 o2.
"""


def c_tree(struct, leaf):
    """Gallina dtree of a nest() structure whose leaves are dprog operations"""
    parts = []
    for it in struct:
        if isinstance(it, tuple) and it[0] == "mul":
            parts.append("(DMulti %s)" % core.clist([c_tree([x], leaf) for x in it[1]]))
        elif isinstance(it, list):
            parts.append("(DNode %s)" % core.clist([c_tree([x], leaf) for x in it]))
        else:
            parts.append("(DLeaf %s)" % leaf(it))
    return parts[0] if len(parts) == 1 else "(DNode %s)" % core.clist(parts)


def nest_corr_stream(ctx, n):
    """synthetic differentiable programs written as nested lists / '*' groups and applied BY HAND ('*' groups called as
    operators): the final state and all partials vs the model's drun_tree (= drun of the flat program by theorem
    C10_nested_eq_flat_with_partials), exactly"""
    import epgpy as epg
    terms, meta = [], []
    for i in range(n):
        p = dprog.gen_dprogram(ctx.rng, with_order2=(i % 2 == 0), plain=("spoil", "wait", "pd", "reset"))
        if len(p["ops"]) < 2:
            continue
        struct = nest(ctx.rng, list(range(len(p["ops"]))))

        def build(st):
            out = []
            for it in st:
                if isinstance(it, tuple) and it[0] == "mul":
                    members = epg.functions.flatten_sequence(build(it[1]))
                    out.append(epg.operator.MultiOperator(members))
                elif isinstance(it, list):
                    out.append(build(it))
                else:
                    out.append(dprog.build(p["ops"][it]))
            return out

        def by_hand(items, sm):
            for it in items:
                sm = by_hand(it, sm) if isinstance(it, list) else it(sm, inplace=True)
            return sm
        try:
            snap = dprog.snap_d(by_hand(build(struct), epg.StateMatrix(density=p["pd"])))
        except ValueError as e:
            if "Invalid variable pair" in str(e):
                continue
            ctx.report("nested synthetic program applied by hand raised ValueError: %s" % str(e)[:200], {"dcase": repr(p), "structure": repr(struct)}, found_input=True,
                       signature={"raises": "ValueError", "site": "nest-corr"})
            continue
        except Exception as e:
            ctx.report("nested synthetic program applied by hand raised %s: %s" % (type(e).__name__, str(e)[:200]), {"dcase": repr(p), "structure": repr(struct)},
                       found_input=True, signature={"raises": type(e).__name__, "site": "nest-corr"})
            continue
        m, o1, o2 = snap
        terms.append("(chk_tree %s %s %s %s %s)" % (c_tree(struct, lambda j: dprog.c_dinstr(p["ops"][j])), core.qi(p["pd"]), prog.c_sm(m),
                                                    dprog.c_assoc(o1, lambda v: "%d%%nat" % dprog.vrank(v)), dprog.c_assoc(o2, lambda k: dprog.c_pair(k, dprog.vrank))))
        meta.append((p, struct))
        ctx.count(("nestcorr", repr(p), repr(struct)), nontrivial=True)
    verdicts, errors = ctx.run_bool_cases("nest", HEADER_N, terms, chunk=6)
    for e in errors:
        ctx.report("correspondence shard failed to evaluate", {"theorem_or_correspondence": "C10 nested correspondence (Proofs/NestD.v drun_tree)", "coq_output": e}, found_input=False)
    nb = 0
    for (p, struct), v in zip(meta, verdicts):
        if v is False and nb < 3:
            nb += 1
            ctx.report("nested / grouped synthetic program applied by hand disagrees with the model drun_tree", {"dcase": repr(p), "structure": repr(struct),
                       "theorem_or_correspondence": "C10 nested correspondence Proofs/NestD.v vs epgpy"}, found_input=False)


def same_partials(a, b):
    if set(a) != set(b):
        return False
    return all(a[k] == b[k] for k in a)


def partial_oracle(ctx, n):
    import epgpy as epg
    for i in range(n):
        w2 = (i % 2 == 0)
        o1 = dprog.gen_dop(ctx.rng, with_order2=w2)
        o2 = dprog.gen_dop(ctx.rng, with_order2=w2)
        if w2 and i % 4 == 0:
            # left operand with a recovery term, right operand a matrix with explicit second-order pairs
            if o1["lin"]["arr0"] is None:
                o1["lin"] = dprog.gen_lin(ctx.rng, o1["kind"], has0=True)
            o1["order1_arg"], o1["order1"], o1["order2_arg"], o1["order2"] = None, {}, None, {}
            o2 = dprog.gen_dop(ctx.rng, with_order2=True)
            while o2["kind"] != "matrix" or not o2["order1"] or isinstance(o2["order1_arg"], dict):
                o2 = dprog.gen_dop(ctx.rng, with_order2=True)
            v = sorted(o2["order1"])[0]
            o2["order2_arg"], o2["order2"], o2["auto"] = [(v, v)], {(v, v): {}}, False
        if w2 and i % 4 == 2:
            # left operand with explicit second-order pairs (default coefficients, own parameter names), right operand
            # without any declaration: its array must still act on the left operand's second-derivative arrays
            while (not o1["order1"]) or isinstance(o1["order1_arg"], dict):
                o1 = dprog.gen_dop(ctx.rng, with_order2=True)
            v = sorted(o1["order1"])[0]
            o1["order2_arg"], o1["order2"], o1["auto"] = [(v, v)], {(v, v): {}}, False
            o2["order1_arg"], o2["order1"], o2["order2_arg"], o2["order2"] = None, {}, None, {}
        if i % 8 in (1, 5):
            # an operand that leaves the states unchanged at this parameter value (P at g = 0, E at tau = 0: arrays equal to
            # one, no recovery term) but whose derivative arrays are not zero and whose parameters are declared
            tgt = o2 if i % 8 == 1 else o1
            for o in (o1, o2):
                while o["kind"] != "scalar":
                    o.update(dprog.gen_dop(ctx.rng, with_order2=w2))
            tgt["lin"] = {"kind": "scalar", "arr": [1 + 0j, 1 + 0j, 1 + 0j], "arr0": None}
            for l in list(tgt["darrs"].values()) + list(tgt["d2arrs"].values()):
                l["arr0"] = None
            while (not tgt["order1"]) or isinstance(tgt["order1_arg"], dict):
                tgt["order1_arg"], tgt["order1"] = dprog.gen_order1(ctx.rng, sorted(tgt["darrs"]))
            if not w2:
                tgt["order2_arg"], tgt["order2"] = None, {}
        # like the real operators (T, Phi, E, P, R), keep derivative arrays only for the activated parameters
        for o in (o1, o2):
            act = {p_ for cs in o["order1"].values() for p_ in cs}
            o["darrs"] = {p_: l for p_, l in o["darrs"].items() if p_ in act}
            o["d2arrs"] = {pq: l for pq, l in o["d2arrs"].items() if o["order2"] and pq[0] in act and pq[1] in act}
        aliased = any(isinstance(o["order1_arg"], dict) for o in (o1, o2))
        auto2 = any(o["order2_arg"] is True or isinstance(o["order2_arg"], str) or
                    (isinstance(o["order2_arg"], list) and all(isinstance(x, str) for x in o["order2_arg"])) for o in (o1, o2))
        def o2class(o):
            if not o["order1"]:
                return "plain"
            if not o["order2"]:
                return "order1"
            arg = o["order2_arg"]
            if arg is True or isinstance(arg, str) or (isinstance(arg, list) and all(isinstance(x, str) for x in arg)):
                return "auto"           # True / a name / a list of names: automatic cross derivatives
            if isinstance(arg, dict) and any(arg.values()):
                return "coefs"          # explicit second-order coefficients
            return "pairs"              # explicit pairs, default coefficients
        left, right = o2class(o1), o2class(o2)
        carrying = ctx.rng.random() < 0.5
        # classes in which second-order '@' agrees with sequential application on the pinned tree (mapped over 8000
        # random operand pairs, DESIGN section 6); every other class with a second-order declaration is the known
        # finding {"site":"@","why":"order2"}: '@' hands op1's derivative arrays to op2's bookkeeping as if they were
        # partials keyed by variable, and re-declares the result with a bare set of pairs (coefficients lost)
        second = left in ("auto", "pairs", "coefs") or right in ("auto", "pairs", "coefs")
        reliable = (not second) or (left == "plain" and right == "pairs") or (left == "plain" and right == "auto" and not carrying) \
            or (left == "order1" and right == "pairs" and not carrying) or (left == "pairs" and right == "plain")
        cls = {"left": left, "right": right, "state": "carrying" if carrying else "fresh"}

        def sig(why):
            if aliased:
                return {"site": "@", "why": "aliased-declarations"}
            if not reliable:
                return {"site": "@", "why": "order2"}
            return dict({"site": "@", "why": why}, **cls)
        try:
            a, b = dprog.build_dop(o1), dprog.build_dop(o2)
        except ValueError:
            continue
        try:
            sm0 = epg.StateMatrix(density=1.0)
            pre = dprog.build_dop(dprog.gen_dop(ctx.rng, False))(sm0) if carrying else sm0
            seq = b(a(pre))
            try:
                comb = a @ b
            except TypeError:
                continue   # '@' refuses: outside the property ("whenever '@' accepts")
            one = comb(pre)
        except Exception as e:
            ctx.report("'@' with derivatives raised %s: %s" % (type(e).__name__, str(e)[:160]), {"op1": repr(o1)[:1500], "op2": repr(o2)[:1500], "class": cls},
                       found_input=True, signature=sig("raises"))
            continue
        ctx.cov["oracle_runs"] = ctx.cov.get("oracle_runs", 0) + 1
        s1, s2 = dprog.snap_d(one), dprog.snap_d(seq)
        if s1[0] != s2[0]:
            ctx.report("'@' changes the state when derivatives are declared", {"op1": repr(o1)[:1500], "op2": repr(o2)[:1500], "class": cls}, found_input=True,
                       signature={"site": "@", "why": "states"})
        elif not same_partials(s1[1], s2[1]):
            ctx.report("first-order partials of (op1 @ op2)(sm) differ from sequential application", {"op1": repr(o1)[:1500], "op2": repr(o2)[:1500], "class": cls},
                       found_input=True, signature=sig("order1"))
        elif not same_partials(s1[2], s2[2]):
            ctx.report("second-order partials of (op1 @ op2)(sm) differ from sequential application", {"op1": repr(o1)[:1500], "op2": repr(o2)[:1500], "class": cls},
                       found_input=True, signature=sig("order2-reliable-class"))


def real_chains(ctx, n):
    import epgpy as epg
    for i in range(n):
        shp = ctx.rng.choice([(), (2,), (1, 3), (2, 1, 2)])
        def arr(lo, hi):
            return np.array(ctx.rng.uniform(lo, hi)) if shp == () else np.random.default_rng(ctx.rng.randrange(10 ** 6)).uniform(lo, hi, shp)
        try:
            a = epg.T(arr(10, 90), 30.0, duration=1.0)
            b = epg.E(3.0, 800.0, arr(30, 90), duration=0.5)      # matrix @ scalar
            c = epg.E(5.0, 1000.0, arr(30, 90), duration=2.0)
            d = epg.E(3.0, 700.0, 40.0)
            ab = a @ b
            cd = c @ d
            ba = b @ a                                            # scalar @ matrix (through __rmatmul__)
            if np.abs(np.array(ba(epg.StateMatrix(shape=ba.shape)).states) - np.array(a(b(epg.StateMatrix(shape=ba.shape))).states)).max() > 1e-12:
                ctx.report("(E @ T)(sm) differs from T(E(sm))", {"shape": shp}, found_input=True, signature={"site": "@-real", "why": "states"})
        except Exception as e:
            ctx.report("'@' on real operators raised %s: %s" % (type(e).__name__, str(e)[:200]), {"shape": shp}, found_input=True, signature={"site": "@-real", "why": "raises"})
            continue
        # scalar @ scalar with parameter arrays on a different number of axes (epgpy appends missing axes, numpy prepends)
        try:
            n1, n2 = ctx.rng.choice([(2, 2), (3, 3), (2, 3), (3, 2)])
            e1 = epg.E(4.0, 900.0, np.linspace(30, 60, n1), order1="T2")                     # T2 on axis 0
            e2 = epg.E(3.0, np.linspace(500, 1500, n2).reshape(1, n2), 45.0, order1="T1")     # T1 on axis 1
            ee = e1 @ e2
            want = (n1, n2)
            smx = epg.S(1)(epg.T(35.0, 20.0)(epg.StateMatrix(shape=want)))
            one, seq = ee(smx), e2(e1(smx))
            bad = tuple(ee.shape) != want or np.abs(np.array(one.states) - np.array(seq.states)).max() > 1e-12
            for v in ("T1", "T2"):
                bad = bad or v not in one.order1 or np.abs(np.array(one.order1[v].states) - np.array(seq.order1[v].states)).max() > 1e-12
            if bad:
                ctx.report("E(T2 on axis 0) @ E(T1 on axis 1): shape %s (expected %s) or states/partials differ from sequential application" % (tuple(ee.shape), want),
                           {"shape": [n1, n2]}, found_input=True, signature={"site": "@-real", "why": "scalar-mixed-ndim"})
        except Exception as e:
            ctx.report("E(T2 on axis 0) @ E(T1 on axis 1) raised %s: %s" % (type(e).__name__, str(e)[:200]), {"shape": [n1, n2]}, found_input=True,
                       signature={"site": "@-real", "why": "scalar-mixed-ndim-raises"})
        # a member WITH a recovery term and fewer batch axes than the other member, both orders (E @ T, T @ E)
        try:
            n1, n2 = ctx.rng.choice([(2, 2), (3, 3), (2, 3), (3, 2)])
            er = epg.E(4.0, np.linspace(400, 1200, n1), 50.0)                               # T1 on axis 0, recovery term
            tr = epg.T(np.linspace(20, 80, n2).reshape(1, n2), 15.0)                        # alpha on axis 1
            smx = epg.S(1)(epg.T(35.0, 20.0)(epg.StateMatrix(shape=(n1, n2))))
            for nm, comb, seqf in (("E @ T", er @ tr, lambda x: tr(er(x))), ("T @ E", tr @ er, lambda x: er(tr(x)))):
                one, seq = comb(smx), seqf(smx)
                if tuple(comb.shape) != (n1, n2) or np.abs(np.array(one.states) - np.array(seq.states)).max() > 1e-12:
                    ctx.report("%s with the recovery term on fewer axes: shape %s (expected %s) or states differ from sequential application" % (nm, tuple(comb.shape), (n1, n2)),
                               {"shape": [n1, n2], "order": nm}, found_input=True, signature={"site": "@-real", "why": "recovery-rank"})
        except Exception as e:
            ctx.report("E(T1 on axis 0) @ T(alpha on axis 1) raised %s: %s" % (type(e).__name__, str(e)[:200]), {"shape": [n1, n2]}, found_input=True,
                       signature={"site": "@-real", "why": "recovery-rank-raises"})
        exp_shape = epg.common.broadcast_shapes(a.shape, b.shape, append=True)
        if tuple(ab.shape) != tuple(exp_shape) or abs(ab.duration - 1.5) > 0 or abs(cd.duration - 2.0) > 0:
            ctx.report("combined operator shape/duration wrong: %s %s" % (ab.shape, ab.duration), {"shape": shp}, found_input=True, signature={"site": "@-real", "why": "shape-duration"})
        sm = epg.StateMatrix(shape=exp_shape)
        sm = epg.S(1)(epg.T(40.0, 10.0)(sm))
        one, seq = ab(sm), b(a(sm))
        if np.abs(np.array(one.states) - np.array(seq.states)).max() > 1e-12:
            ctx.report("(T @ E)(sm) differs from E(T(sm))", {"shape": shp}, found_input=True, signature={"site": "@-real", "why": "states"})
        ctx.cov["oracle_runs"] = ctx.cov.get("oracle_runs", 0) + 1


def replay(ctx, rp):
    print("replay:", rp.get("what"))
    return 1
